/-
  C17 — proofs about `Model/NonInterf.lean` (core Lean only).
-/
import SvtVerif.Model.NonInterf

namespace SvtVerif.NonInterf

variable {ι γ ν σ : Type}

theorem proj_of_interleaving {t₁ t₂ : List (Act γ ν σ)} {m : List (Bool × Act γ ν σ)}
    (h : Interleaving t₁ t₂ m) : proj false m = t₁ ∧ proj true m = t₂ := by
  induction h with
  | nil => exact ⟨rfl, rfl⟩
  | left _ ih => simp [proj, ih.1, ih.2]
  | right _ ih => simp [proj, ih.1, ih.2]

theorem mem_of_interleaving {t₁ t₂ : List (Act γ ν σ)} {m : List (Bool × Act γ ν σ)}
    (h : Interleaving t₁ t₂ m) : ∀ p ∈ m, p.2 ∈ t₁ ∨ p.2 ∈ t₂ := by
  induction h with
  | nil => intro p hp; cases hp
  | left _ ih =>
    intro p hp
    cases hp with
    | head => exact Or.inl (by simp)
    | tail _ h => cases ih p h with
      | inl h1 => exact Or.inl (by simp [h1])
      | inr h2 => exact Or.inr h2
  | right _ ih =>
    intro p hp
    cases hp with
    | head => exact Or.inr (by simp)
    | tail _ h => cases ih p h with
      | inl h1 => exact Or.inl h1
      | inr h2 => exact Or.inr (by simp [h2])

/-- every pair of traces has an interleaving (so statements over interleavings are not vacuous) -/
theorem interleaving_exists (t₁ t₂ : List (Act γ ν σ)) : ∃ m, Interleaving t₁ t₂ m := by
  induction t₁ with
  | nil =>
    induction t₂ with
    | nil => exact ⟨[], .nil⟩
    | cons a t ih => obtain ⟨m, hm⟩ := ih; exact ⟨(true, a) :: m, .right hm⟩
  | cons a t ih => obtain ⟨m, hm⟩ := ih; exact ⟨(false, a) :: m, .left hm⟩

/-- The relation kept between the joint state and the solo state of instance `i`:
    equal private state, and every readable global that `i` may read by now holds `c g` on both sides. -/
def Rel [DecidableEq γ] (readable : γ → Bool) (c : γ → ν) (static : γ → Bool) (i : ι) (W : List γ)
    (s : St ι γ ν σ) (t : (γ → ν) × σ) : Prop :=
  s.I i = t.2 ∧ ∀ g, readable g = true → (static g = true ∨ g ∈ W) → s.G g = c g ∧ t.1 g = c g

theorem map_congr_of {α β : Type} (f g : α → β) : ∀ (l : List α), (∀ x ∈ l, f x = g x) → l.map f = l.map g
  | [], _ => rfl
  | a :: l, h => by
    simp only [List.map]
    rw [h a (by simp), map_congr_of f g l (fun x hx => h x (by simp [hx]))]

theorem noninterf_aux [DecidableEq ι] [DecidableEq γ] (readable : γ → Bool) (c : γ → ν) (static : γ → Bool) (i : ι) :
    ∀ (m : List (ι × Act γ ν σ)) (W : List γ) (s : St ι γ ν σ) (t : (γ → ν) × σ),
      (∀ p ∈ m, ActOK readable c p.2) → Rel readable c static i W s t →
      wellInit static W (proj i m) = true →
      (run m s).I i = (runSolo (proj i m) t).2 := by
  intro m
  induction m with
  | nil => intro W s t _ hrel _; exact hrel.1
  | cons p m ih =>
    intro W s t hact hrel hwi
    obtain ⟨j, a⟩ := p
    have hact' : ∀ p ∈ m, ActOK readable c p.2 := fun p hp => hact p (by simp [hp])
    have ha : ActOK readable c a := hact (j, a) (by simp)
    by_cases hj : j = i
    · -- a step of the observed instance: both sides move
      subst hj
      simp only [proj, if_true] at hwi ⊢
      simp only [run, runSolo]
      cases a with
      | compute reads f =>
        simp only [wellInit, Bool.and_eq_true, List.all_eq_true, Bool.or_eq_true] at hwi
        have hreads : reads.map s.G = reads.map t.1 := by
          apply map_congr_of
          intro g hg
          have hr := ha g hg
          have hw := hwi.1 g hg
          have hw' : static g = true ∨ g ∈ W := by
            cases hw with
            | inl h => exact Or.inl h
            | inr h => exact Or.inr (by simpa using h)
          have := hrel.2 g hr hw'
          rw [this.1, this.2]
        apply ih W _ _ hact' _ hwi.2
        refine ⟨?_, ?_⟩
        · simp [step, stepSolo, hreads, hrel.1]
        · intro g hr hw; exact hrel.2 g hr hw
      | store g w val =>
        simp only [wellInit] at hwi
        apply ih (g :: W) _ _ hact' _ hwi
        refine ⟨?_, ?_⟩
        · simp [step, stepSolo, hrel.1]
        · intro g' hr hw
          by_cases hg : g' = g
          · subst hg
            have hv := ha hr
            simp [step, stepSolo, hv]
          · have hw' : static g' = true ∨ g' ∈ W := by
              cases hw with
              | inl h => exact Or.inl h
              | inr h => simp [hg] at h; exact Or.inr h
            have := hrel.2 g' hr hw'
            simp [step, stepSolo, upd_other _ _ _ _ hg, this.1, this.2]
      | rmw g w u =>
        simp only [wellInit] at hwi
        apply ih W _ _ hact' _ hwi
        refine ⟨?_, ?_⟩
        · simp [step, stepSolo, hrel.1]
        · intro g' hr hw
          have hg : g' ≠ g := by
            intro h; subst h; simp [ActOK] at ha; rw [ha] at hr; exact absurd hr (by simp)
          have := hrel.2 g' hr hw
          simp [step, stepSolo, upd_other _ _ _ _ hg, this.1, this.2]
    · -- a step of another instance: the solo side does not move
      have hproj : proj i ((j, a) :: m) = proj i m := by simp [proj, hj]
      rw [hproj] at hwi ⊢
      simp only [run]
      apply ih W _ t hact' _ hwi
      cases a with
      | compute reads f =>
        refine ⟨?_, ?_⟩
        · have : i ≠ j := fun h => hj h.symm
          simp [step, upd_other _ _ _ _ this, hrel.1]
        · intro g hr hw; simpa [step] using hrel.2 g hr hw
      | store g w val =>
        refine ⟨?_, ?_⟩
        · simp [step, hrel.1]
        · intro g' hr hw
          have := hrel.2 g' hr hw
          by_cases hg : g' = g
          · subst hg
            have hv := ha hr
            simp [step, hv, this.2]
          · simp [step, upd_other _ _ _ _ hg, this.1, this.2]
      | rmw g w u =>
        refine ⟨?_, ?_⟩
        · simp [step, hrel.1]
        · intro g' hr hw
          have hg : g' ≠ g := by
            intro h; subst h; simp [ActOK] at ha; rw [ha] at hr; exact absurd hr (by simp)
          have := hrel.2 g' hr hw
          simp [step, upd_other _ _ _ _ hg, this.1, this.2]

/-- Non-interference from *agreement*: whatever the number of instances and whatever the interleaving, instance `i`
    ends in the private state (outputs included) it reaches alone, provided every store to a global that coding code
    reads stores an instance-independent value. -/
theorem noninterference_of_agreement' [DecidableEq ι] [DecidableEq γ] (readable : γ → Bool) (c : γ → ν) (static : γ → Bool)
    (m : List (ι × Act γ ν σ)) (i : ι) (s : St ι γ ν σ)
    (hact : ∀ p ∈ m, ActOK readable c p.2)
    (hstatic : ∀ g, readable g = true → static g = true → s.G g = c g)
    (hinit : wellInit static [] (proj i m) = true) :
    (run m s).I i = (runSolo (proj i m) (s.G, s.I i)).2 := by
  apply noninterf_aux readable c static i m [] s (s.G, s.I i) hact _ hinit
  refine ⟨rfl, ?_⟩
  intro g hr hw
  cases hw with
  | inl h => exact ⟨hstatic g hr h, hstatic g hr h⟩
  | inr h => simp at h

/-- ClassOK with only the two harmless classes present is ActOK with `readable g := (cls g = writeOnceConstant)`. -/
theorem actOK_of_classOK (cls : γ → Class) (c : γ → ν)
    (hcls : ∀ g, cls g = .writeOnceConstant ∨ cls g = .lockedCounter) (a : Act γ ν σ) (h : ClassOK cls c a) :
    ActOK (fun g => decide (cls g = .writeOnceConstant)) c a := by
  cases a with
  | compute reads f =>
    intro g hg
    have := h g hg
    cases hcls g with
    | inl h3 => simp [h3]
    | inr h3 => exact absurd h3 this
  | store g w val =>
    intro hr
    simp at hr
    exact h.2 hr
  | rmw g w u =>
    have : cls g = .lockedCounter := h
    simp [ActOK, this]

/-- The counter-example behind every `instanceDependent` global: both instances run the SAME code (store my configuration
    value into `g`; later read `g`), they differ only in their configuration `v₁ ≠ v₂`, and the first instance observes the
    second one's value.  Private state = (configuration, last value read from `g`). -/
def badTrace (g : γ) : List (Bool × Act γ ν (ν × ν)) :=
  [ (false, .store g "init" (fun x => x.1)),
    (true,  .store g "init" (fun x => x.1)),
    (false, .compute [g] (fun vs x => (x.1, vs.headD x.1))) ]

def badStart (v₁ v₂ : ν) (g0 : ν) : St Bool γ ν (ν × ν) :=
  { G := fun _ => g0, I := fun b => if b then (v₂, v₂) else (v₁, v₁) }

theorem badTrace_joint [DecidableEq γ] (g : γ) (v₁ v₂ g0 : ν) :
    (run (badTrace g) (badStart v₁ v₂ g0)).I false = (v₁, v₂) := by
  simp [badTrace, badStart, run, step, upd]

theorem badTrace_solo [DecidableEq γ] (g : γ) (v₁ v₂ g0 : ν) :
    (runSolo (proj false (badTrace g)) ((badStart (γ := γ) v₁ v₂ g0).G, (badStart (γ := γ) v₁ v₂ g0).I false)).2 = (v₁, v₁) := by
  simp [badTrace, badStart, proj, runSolo, stepSolo, upd]

end SvtVerif.NonInterf
