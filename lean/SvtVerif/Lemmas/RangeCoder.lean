/-
  Helper lemmas for C25 (range coder).
-/
import SvtVerif.Model.RangeCoder
import Mathlib.Tactic.Linarith
import Mathlib.Tactic.Ring
import Mathlib.Tactic.NormNum
import Mathlib.Tactic.Positivity
import Mathlib.Tactic.IntervalCases

namespace RangeCoder
set_option linter.unusedSimpArgs false
set_option linter.unusedVariables false

/-! ## 1. CDF adaptation -/

/-- every entry is a `uint16` -/
def IsU16List (c : List Nat) : Prop := ∀ x ∈ c, x < 65536

theorem updLoop_eq (rate val : Nat) : ∀ (k i : Nat) (cs : List Nat), IsU16List cs →
    updLoopEnc rate val i k 32768 cs = updLoopDec rate val i k 32768 cs ∧
    updLoopEnc rate val i k 0 cs = updLoopDec rate val i k 0 cs := by
  intro k
  induction k with
  | zero => intro i cs _; simp [updLoopEnc, updLoopDec]
  | succ k ih =>
    intro i cs h
    cases cs with
    | nil => simp [updLoopEnc, updLoopDec]
    | cons c cs =>
      have hc : c < 65536 := h c (by simp)
      have hcs : IsU16List cs := fun x hx => h x (by simp [hx])
      have e1 := (ih (i + 1) cs hcs).1
      have e2 := (ih (i + 1) cs hcs).2
      have hu : u16 32768 = 32768 := by decide
      have key : ∀ tmp, tmp ≤ 32768 →
          (if tmp < c then u16 (c - ((c - tmp) >>> rate)) else u16 (c + ((tmp - c) >>> rate))) =
          (if tmp < c then u16 (c + 65536 - u16 ((c - tmp) >>> rate)) else u16 (c + u16 ((tmp - c) >>> rate))) := by
        intro tmp ht
        have h1 : (c - tmp) >>> rate ≤ c - tmp := Nat.shiftRight_le _ _
        have h2 : (tmp - c) >>> rate ≤ tmp - c := Nat.shiftRight_le _ _
        generalize (c - tmp) >>> rate = x at h1 ⊢
        generalize (tmp - c) >>> rate = y at h2 ⊢
        split
        · have : u16 x = x := by unfold u16; omega
          rw [this]; unfold u16; omega
        · have : u16 y = y := by unfold u16; omega
          rw [this]
      constructor
      · simp only [updLoopEnc, updLoopDec]
        by_cases hv : i = val
        · subst hv
          simp only [↓reduceIte]
          rw [key 0 (by omega), e2]
        · simp only [hv, ↓reduceIte]
          rw [key 32768 (by omega), e1]
      · simp only [updLoopEnc, updLoopDec]
        have : (if i = val then 0 else 0) = 0 := by split <;> rfl
        simp only [this]
        rw [key 0 (by omega), e2]

/-- **update_cdf_eq (all uint16 tables)**: writer's `update_cdf` and reader's `dec_update_cdf` are the same function. -/
theorem updateCdf_eq_dec (c : List Nat) (s n : Nat) (h : IsU16List c) : updateCdf c s n = decUpdateCdf c s n := by
  unfold updateCdf decUpdateCdf
  have hu : u16 32768 = 32768 := by decide
  rw [hu, (updLoop_eq _ _ _ _ _ h).1]

/-- the coder's precondition on a probability table with `n` symbols (`n+1` entries, last = adaptation counter) -/
def ValidCdf (c : List Nat) (n : Nat) : Prop :=
  c.length = n + 1 ∧ 2 ≤ n ∧ n ≤ 16 ∧ (∀ i, i < n → c.getD i 0 ≤ 32767) ∧
  (∀ i, i + 1 < n → c.getD (i + 1) 0 ≤ c.getD i 0) ∧ c.getD (n - 1) 0 = 0 ∧ c.getD n 0 ≤ 32

/-- closed form of one adapted entry at position `p` -/
def updElem (rate val p c : Nat) : Nat :=
  if val ≤ p then c - c / 2 ^ rate else c + (32768 - c) / 2 ^ rate

theorem enc_elem_zero (c rate : Nat) (hc : c ≤ 32768) :
    (if 0 < c then u16 (c - ((c - 0) >>> rate)) else u16 (c + ((0 - c) >>> rate))) = c - c / 2 ^ rate := by
  simp only [Nat.shiftRight_eq_div_pow, Nat.sub_zero]
  have d1 : c / 2 ^ rate ≤ c := Nat.div_le_self _ _
  generalize c / 2 ^ rate = q1 at *
  split
  · unfold u16; omega
  · have : c = 0 := by omega
    subst this; simp [u16]

theorem enc_elem_top (c rate : Nat) (hc : c ≤ 32768) :
    (if 32768 < c then u16 (c - ((c - 32768) >>> rate)) else u16 (c + ((32768 - c) >>> rate))) =
      c + (32768 - c) / 2 ^ rate := by
  simp only [Nat.shiftRight_eq_div_pow]
  have d2 : (32768 - c) / 2 ^ rate ≤ 32768 - c := Nat.div_le_self _ _
  generalize (32768 - c) / 2 ^ rate = q2 at *
  have h3 : ¬ 32768 < c := by omega
  simp only [h3, ↓reduceIte]
  unfold u16; omega

theorem getD_of_lt (l : List Nat) (i : Nat) (h : i < l.length) : l.getD i 0 = l[i] := by
  simp [List.getD_eq_getElem?_getD, h]

theorem updLoopEnc_getD (rate val : Nat) : ∀ (k i tmp : Nat) (cs : List Nat), (∀ x ∈ cs, x ≤ 32768) →
    ((tmp = 32768 ∧ i ≤ val) ∨ (tmp = 0 ∧ val < i)) → ∀ j,
    (updLoopEnc rate val i k tmp cs).getD j 0 =
      if j < k ∧ j < cs.length then updElem rate val (i + j) (cs.getD j 0) else cs.getD j 0 := by
  intro k
  induction k with
  | zero => intro i tmp cs _ _ j; simp [updLoopEnc]
  | succ k ih =>
    intro i tmp cs h ht j
    cases cs with
    | nil => simp [updLoopEnc]
    | cons c cs =>
      have hc : c ≤ 32768 := h c (by simp)
      have hcs : ∀ x ∈ cs, x ≤ 32768 := fun x hx => h x (by simp [hx])
      simp only [updLoopEnc]
      cases j with
      | zero =>
        simp only [List.getD_cons_zero, Nat.zero_lt_succ, List.length_cons, and_self, ↓reduceIte, Nat.add_zero]
        unfold updElem
        rcases ht with ⟨rfl, hi⟩ | ⟨rfl, hi⟩
        · by_cases hv : i = val
          · subst hv
            simp only [↓reduceIte, Nat.le_refl]
            exact enc_elem_zero c rate hc
          · have : ¬ val ≤ i := by omega
            simp only [hv, ↓reduceIte, this]
            exact enc_elem_top c rate hc
        · have hv : ¬ i = val := by omega
          have : val ≤ i := by omega
          simp only [hv, ↓reduceIte, this]
          exact enc_elem_zero c rate hc
      | succ j =>
        simp only [List.getD_cons_succ, List.length_cons, Nat.add_lt_add_iff_right]
        have ht' : ((if i = val then 0 else tmp) = 32768 ∧ i + 1 ≤ val) ∨ ((if i = val then 0 else tmp) = 0 ∧ val < i + 1) := by
          rcases ht with ⟨rfl, hi⟩ | ⟨rfl, hi⟩
          · by_cases hv : i = val
            · right; simp [hv]
            · left; simp [hv]; omega
          · right; constructor
            · split <;> rfl
            · omega
        rw [ih (i + 1) _ cs hcs ht' j]
        have : i + 1 + j = i + (j + 1) := by omega
        rw [this]

theorem rate_range (c : List Nat) (n : Nat) : 3 ≤ cdfRate c n ∧ cdfRate c n ≤ 7 := by
  unfold cdfRate nsymbs2speed
  constructor
  · omega
  · split <;> split <;> split <;> (try split) <;> omega

theorem getD_set' (l : List Nat) (i j a : Nat) : (l.set i a).getD j 0 = if i = j ∧ i < l.length then a else l.getD j 0 := by
  simp only [List.getD_eq_getElem?_getD, List.getElem?_set]
  by_cases h : i = j
  · subst h
    by_cases h2 : i < l.length
    · simp [h2]
    · simp [h2]
  · simp [h]

theorem updLoopEnc_length (rate val : Nat) : ∀ (k i tmp : Nat) (cs : List Nat),
    (updLoopEnc rate val i k tmp cs).length = cs.length := by
  intro k
  induction k with
  | zero => intro i tmp cs; simp [updLoopEnc]
  | succ k ih =>
    intro i tmp cs
    cases cs with
    | nil => simp [updLoopEnc]
    | cons c cs => simp [updLoopEnc, ih]

theorem add_div_le (A B m : Nat) (hm : 0 < m) : (A + B) / m ≤ A / m + B := by
  have h : (A + B) / m < A / m + B + 1 := by
    rw [Nat.div_lt_iff_lt_mul hm]
    have e := Nat.div_add_mod A m
    have l := Nat.mod_lt A hm
    have b : B ≤ B * m := Nat.le_mul_of_pos_right B hm
    have : (A / m + B + 1) * m = m * (A / m) + B * m + m := by ring
    omega
  omega

theorem updElem_mono (rate val p q x y : Nat) (hr : 1 ≤ rate) (hpq : p ≤ q) (hxy : y ≤ x) (hx : x ≤ 32768) :
    updElem rate val q y ≤ updElem rate val p x := by
  unfold updElem
  have hm : 0 < 2 ^ rate := by positivity
  generalize 2 ^ rate = m at *
  have d1 : y / m ≤ y := Nat.div_le_self _ _
  have d2 : x / m ≤ x := Nat.div_le_self _ _
  have a1 := add_div_le y (x - y) m hm
  rw [show y + (x - y) = x by omega] at a1
  have a2 := add_div_le (32768 - x) (x - y) m hm
  rw [show 32768 - x + (x - y) = 32768 - y by omega] at a2
  generalize y / m = a at *
  generalize x / m = b at *
  generalize (32768 - x) / m = c at *
  generalize (32768 - y) / m = d at *
  split <;> split <;> omega

/-- **update_cdf_valid**: adaptation preserves validity. -/
theorem updateCdf_valid (c : List Nat) (s n : Nat) (h : ValidCdf c n) : ValidCdf (updateCdf c s n) n := by
  obtain ⟨hl, h2, h16, hb, hm, hz, hc⟩ := h
  have hr := rate_range c n
  have hall : ∀ x ∈ c, x ≤ 32768 := by
    intro x hx
    obtain ⟨i, hi, rfl⟩ := List.getElem_of_mem hx
    by_cases h3 : i < n
    · have := hb i h3
      rw [getD_of_lt _ _ hi] at this; omega
    · have : i = n := by omega
      subst this
      rw [getD_of_lt _ _ hi] at hc; omega
  have hu : u16 32768 = 32768 := by decide
  have G : ∀ j, (updLoopEnc (cdfRate c n) s 0 (n - 1) (u16 32768) c).getD j 0 =
      if j < n - 1 then updElem (cdfRate c n) s j (c.getD j 0) else c.getD j 0 := by
    intro j
    rw [hu, updLoopEnc_getD _ _ _ _ _ _ hall (Or.inl ⟨rfl, Nat.zero_le _⟩)]
    simp only [Nat.zero_add]
    by_cases hj : j < n - 1
    · have : j < c.length := by omega
      simp [hj, this]
    · simp [hj]
  have hlen : (updLoopEnc (cdfRate c n) s 0 (n - 1) (u16 32768) c).length = n + 1 := by
    rw [updLoopEnc_length]; exact hl
  have F : ∀ j, (updateCdf c s n).getD j 0 =
      if j = n then u16 (c.getD n 0 + (if c.getD n 0 < 32 then 1 else 0))
      else if j < n - 1 then updElem (cdfRate c n) s j (c.getD j 0) else c.getD j 0 := by
    intro j
    unfold updateCdf bumpCounter
    rw [getD_set', G, G, hlen]
    by_cases hj : n = j
    · subst hj
      have : ¬ n < n - 1 := by omega
      simp [this]
    · have : ¬ j = n := fun h => hj h.symm
      simp [hj, this]
  have hm1 : (1 : Nat) < 2 ^ cdfRate c n := Nat.one_lt_two_pow (by omega)
  refine ⟨?_, h2, h16, ?_, ?_, ?_, ?_⟩
  · unfold updateCdf bumpCounter; rw [List.length_set, hlen]
  · intro i hi
    rw [F]
    have hne : ¬ i = n := by omega
    simp only [hne, ↓reduceIte]
    split
    · have := hb i hi
      unfold updElem
      split
      · exact Nat.le_trans (Nat.sub_le _ _) this
      · have : (32768 - c.getD i 0) / 2 ^ cdfRate c n < 32768 - c.getD i 0 := Nat.div_lt_self (by omega) hm1
        generalize (32768 - c.getD i 0) / 2 ^ cdfRate c n = q at *
        omega
    · exact hb i hi
  · intro i hi
    rw [F, F]
    have hne : ¬ i = n := by omega
    have hne' : ¬ i + 1 = n := by omega
    have hi0 : i < n - 1 := by omega
    simp only [hne, hne', ↓reduceIte, hi0]
    have hmono := hm i hi
    have hbi := hb i (by omega)
    split
    · exact updElem_mono _ _ _ _ _ _ (by omega) (by omega) hmono (by omega)
    · -- i + 1 = n - 1: entry is 0
      have : i + 1 = n - 1 := by omega
      rw [this, hz]; exact Nat.zero_le _
  · rw [F]
    have hne : ¬ n - 1 = n := by omega
    have : ¬ n - 1 < n - 1 := by omega
    simp only [hne, ↓reduceIte, this, hz]
  · rw [F]
    simp only [↓reduceIte]
    split <;> (unfold u16; omega)

theorem ValidCdf.isU16 {c : List Nat} {n : Nat} (h : ValidCdf c n) : IsU16List c := by
  obtain ⟨hl, h2, h16, hb, hm, hz, hc⟩ := h
  intro x hx
  obtain ⟨i, hi, rfl⟩ := List.getElem_of_mem hx
  by_cases h3 : i < n
  · have := hb i h3
    rw [getD_of_lt _ _ hi] at this; omega
  · have : i = n := by omega
    subst this
    rw [getD_of_lt _ _ hi] at hc; omega

/-! ## 2. the partition of `[0, r)` -/

/-- `scaleV` without the (vacuous) `unsigned` wrap -/
theorem scaleV_eq (r f k : Nat) (hr : r < 65536) (hf : f < 65536) (hk : k ≤ 16) :
    scaleV r f k = (r / 256) * (f / 64) / 2 + 4 * k := by
  unfold scaleV u32
  simp only [Nat.shiftRight_eq_div_pow, EC_PROB_SHIFT, EC_MIN_PROB]
  norm_num
  have h1 : r / 256 ≤ 255 := by omega
  have h2 : f / 64 ≤ 1023 := by omega
  have : r / 256 * (f / 64) ≤ 255 * 1023 := Nat.mul_le_mul h1 h2
  generalize r / 256 * (f / 64) = p at *
  omega

theorem scaleV_mono (r f f' k k' : Nat) (hr : r < 65536) (hf : f < 65536) (hff : f' ≤ f) (hk : k ≤ 16) (hkk : k' < k) :
    scaleV r f' k' < scaleV r f k := by
  rw [scaleV_eq r f k hr hf hk, scaleV_eq r f' k' hr (by omega) (by omega)]
  have h1 : f' / 64 ≤ f / 64 := Nat.div_le_div_right hff
  have h2 : r / 256 * (f' / 64) ≤ r / 256 * (f / 64) := Nat.mul_le_mul_left _ h1
  have h3 : r / 256 * (f' / 64) / 2 ≤ r / 256 * (f / 64) / 2 := Nat.div_le_div_right h2
  omega

theorem scaleV_lt_r (r f k : Nat) (hr0 : 32768 ≤ r) (hr : r < 65536) (hf : f ≤ 32767) (hk : k ≤ 15) :
    scaleV r f k < r := by
  rw [scaleV_eq r f k hr (by omega) (by omega)]
  have h1 : f / 64 ≤ 511 := by omega
  have h2 : r / 256 * (f / 64) ≤ r / 256 * 511 := Nat.mul_le_mul_left _ h1
  generalize r / 256 * (f / 64) = p at *
  omega

theorem scaleV_zero (r : Nat) : scaleV r 0 0 = 0 := by
  unfold scaleV u32; simp

/-- **partition lemma**: `r = u₀ > v₀ = u₁ > v₁ = … > v_{n-1} = 0`. -/
theorem partition (r : Nat) (c : List Nat) (n : Nat) (hr0 : 32768 ≤ r) (hr : r < 65536) (h : ValidCdf c n) :
    symU r c (n - 1) 0 = r ∧ symV r c (n - 1) (n - 1) = 0 ∧
    ∀ s, s < n → symV r c (n - 1) s < symU r c (n - 1) s ∧ symU r c (n - 1) (s + 1) = symV r c (n - 1) s ∧
      symU r c (n - 1) s ≤ r := by
  obtain ⟨hl, h2, h16, hb, hm, hz, hc⟩ := h
  refine ⟨by simp [symU], ?_, ?_⟩
  · unfold symV; rw [hz, Nat.sub_self]; exact scaleV_zero r
  · intro s hs
    refine ⟨?_, ?_, ?_⟩
    · unfold symU symV
      by_cases h0 : s = 0
      · subst h0; simp only [↓reduceIte]
        exact scaleV_lt_r r _ _ hr0 hr (hb 0 (by omega)) (by omega)
      · simp only [h0, ↓reduceIte]
        have hmm := hm (s - 1) (by omega)
        rw [show s - 1 + 1 = s by omega] at hmm
        exact scaleV_mono r _ _ _ _ hr (by have := hb (s - 1) (by omega); omega) hmm (by omega) (by omega)
    · unfold symU symV; simp
    · unfold symU
      by_cases h0 : s = 0
      · simp [h0]
      · simp only [h0, ↓reduceIte]
        exact Nat.le_of_lt (scaleV_lt_r r _ _ hr0 hr (hb (s - 1) (by omega)) (by omega))

/-- sub-intervals of later symbols lie below those of earlier ones -/
theorem symU_le_symV (r : Nat) (c : List Nat) (n : Nat) (hr0 : 32768 ≤ r) (hr : r < 65536) (h : ValidCdf c n) :
    ∀ t s, s < t → t < n → symU r c (n - 1) t ≤ symV r c (n - 1) s := by
  have P := (partition r c n hr0 hr h).2.2
  intro t
  induction t with
  | zero => intro s hs; omega
  | succ t ih =>
    intro s hs ht
    by_cases h1 : s = t
    · subst h1; rw [(P s (by omega)).2.1]
    · have := ih s (by omega) (by omega)
      have h3 := (P t (by omega))
      rw [h3.2.1]; omega

theorem take_drop_cons (c : List Nat) (n ret : Nat) (hl : n ≤ c.length) (hr : ret < n) :
    (c.take n).drop ret = c.getD ret 0 :: (c.take n).drop (ret + 1) := by
  have hlen : (c.take n).length = n := by simp [List.length_take]; omega
  rw [List.drop_eq_getElem_cons (by omega : ret < (c.take n).length)]
  congr 1
  rw [List.getElem_take, getD_of_lt]

/-- the reader's search loop returns the symbol whose sub-interval contains the window value `cc` -/
theorem decSearch_finds (r : Nat) (c : List Nat) (n s cc : Nat) (hr0 : 32768 ≤ r) (hr : r < 65536) (h : ValidCdf c n)
    (hs : s < n) (hv : symV r c (n - 1) s ≤ cc) (hu : cc < symU r c (n - 1) s) :
    decSearch r cc (n - 1) 0 r (c.take n) = (s, symU r c (n - 1) s, symV r c (n - 1) s) := by
  have P := (partition r c n hr0 hr h)
  have A := symU_le_symV r c n hr0 hr h
  have hl : n ≤ c.length := by have := h.1; omega
  have G : ∀ m ret, s - ret = m → ret ≤ s →
      decSearch r cc (n - 1) ret (symU r c (n - 1) ret) ((c.take n).drop ret) =
        (s, symU r c (n - 1) s, symV r c (n - 1) s) := by
    intro m
    induction m with
    | zero =>
      intro ret hm hle
      have : ret = s := by omega
      subst this
      rw [take_drop_cons c n ret hl hs]
      simp only [decSearch]
      have : scaleV r (c.getD ret 0) (n - 1 - ret) = symV r c (n - 1) ret := rfl
      rw [this]
      have : ¬ cc < symV r c (n - 1) ret := by omega
      simp [this]
    | succ m ih =>
      intro ret hm hle
      rw [take_drop_cons c n ret hl (by omega)]
      simp only [decSearch]
      have e : scaleV r (c.getD ret 0) (n - 1 - ret) = symV r c (n - 1) ret := rfl
      rw [e]
      have h1 := A s ret (by omega) hs
      have : cc < symV r c (n - 1) ret := by omega
      simp only [this, ↓reduceIte]
      rw [← (P.2.2 ret (by omega)).2.1]
      exact ih (ret + 1) (by omega) (by omega)
  have := G s 0 (by omega) (by omega)
  rw [P.1] at this
  simpa using this

/-! ## 3. abstract coder -/

theorem normShift_spec (x : Nat) (h0 : 1 ≤ x) (h1 : x < 65536) :
    32768 ≤ x * 2 ^ normShift x ∧ x * 2 ^ normShift x < 65536 ∧ normShift x ≤ 15 := by
  unfold normShift ilogNz
  have hx : x ≠ 0 := by omega
  have l1 := Nat.log2_self_le hx
  have l2 := @Nat.lt_log2_self x
  have l3 : x.log2 < 16 := (Nat.log2_lt hx).2 (by omega)
  generalize x.log2 = g at *
  have e : 16 - (g + 1) = 15 - g := by omega
  rw [e]
  have p1 : 2 ^ g * 2 ^ (15 - g) = 32768 := by
    rw [← Nat.pow_add, show g + (15 - g) = 15 by omega]
  have p2 : 2 ^ (g + 1) * 2 ^ (15 - g) = 65536 := by
    rw [← Nat.pow_add, show g + 1 + (15 - g) = 16 by omega]
  have hp : 0 < 2 ^ (15 - g) := by positivity
  refine ⟨?_, ?_, by omega⟩
  · calc 32768 = 2 ^ g * 2 ^ (15 - g) := p1.symm
      _ ≤ x * 2 ^ (15 - g) := Nat.mul_le_mul_right _ l1
  · calc x * 2 ^ (15 - g) < 2 ^ (g + 1) * 2 ^ (15 - g) := Nat.mul_lt_mul_of_pos_right l2 hp
      _ = 65536 := p2

/-- range invariant of the coder: `32768 ≤ r < 65536` -/
def AInv (a : AEnc) : Prop := 32768 ≤ a.r ∧ a.r < 65536

/-- the code value `X` (a `T`-bit number) lies in the current interval of the abstract encoder -/
def Cont (X T : Nat) (a : AEnc) : Prop :=
  ∃ e, e + a.k + 15 = T ∧ a.L * 2 ^ e ≤ X ∧ X < (a.L + a.r) * 2 ^ e

/-- abstract decoder state `b` mirrors abstract encoder state `a` for code value `X` -/
def Rel (X T : Nat) (a : AEnc) (b : ADec) : Prop :=
  b.r = a.r ∧ b.e + a.k + 15 = T ∧ b.D + X + 1 = (a.L + a.r) * 2 ^ b.e

theorem aEncStep_inv (a : AEnc) (u v : Nat) (huv : v < u) (hu : u ≤ a.r) (ha : AInv a) : AInv (aEncStep a u v) := by
  have := normShift_spec (u - v) (by omega) (by have := ha.2; omega)
  exact ⟨this.1, this.2.1⟩

theorem step_core (X T : Nat) (a : AEnc) (u v : Nat) (huv : v < u) (hu : u ≤ a.r)
    (hc : Cont X T (aEncStep a u v)) :
    ∃ e, e + a.k + 15 = T ∧ normShift (u - v) ≤ e ∧ (a.L + (a.r - u)) * 2 ^ e ≤ X ∧ X < (a.L + (a.r - v)) * 2 ^ e := by
  obtain ⟨e', he, h1, h2⟩ := hc
  simp only [aEncStep] at he h1 h2
  refine ⟨e' + normShift (u - v), by omega, by omega, ?_, ?_⟩
  · rw [Nat.add_comm e', Nat.pow_add, ← Nat.mul_assoc]; exact h1
  · rw [Nat.add_comm e', Nat.pow_add, ← Nat.mul_assoc]
    have : (a.L + (a.r - u)) * 2 ^ normShift (u - v) + (u - v) * 2 ^ normShift (u - v) =
        (a.L + (a.r - v)) * 2 ^ normShift (u - v) := by
      rw [← Nat.add_mul]; congr 1; omega
    rw [← this]; exact h2

/-- nesting: the sub-interval is inside the interval -/
theorem cont_step (X T : Nat) (a : AEnc) (u v : Nat) (huv : v < u) (hu : u ≤ a.r)
    (hc : Cont X T (aEncStep a u v)) : Cont X T a := by
  obtain ⟨e, he, hd, h1, h2⟩ := step_core X T a u v huv hu hc
  refine ⟨e, he, ?_, ?_⟩
  · exact Nat.le_trans (Nat.mul_le_mul_right _ (by omega)) h1
  · exact Nat.lt_of_lt_of_le h2 (Nat.mul_le_mul_right _ (by omega))

/-- **dec_step_inverts_enc_step** (interval form): if the final code value lies in the writer's interval after the
    step, the reader's 16-bit window value lies in `[v, u)` and the reader's state keeps mirroring the writer's. -/
theorem rel_step (X T : Nat) (a : AEnc) (b : ADec) (u v : Nat) (huv : v < u) (hu : u ≤ a.r)
    (hc : Cont X T (aEncStep a u v)) (hr : Rel X T a b) :
    v ≤ b.D / 2 ^ b.e ∧ b.D / 2 ^ b.e < u ∧ Rel X T (aEncStep a u v) (aDecStep b u v) := by
  obtain ⟨e, he, hd, h1, h2⟩ := step_core X T a u v huv hu hc
  obtain ⟨r1, r2, r3⟩ := hr
  have hee : b.e = e := by omega
  rw [hee] at r3
  have hM : 0 < 2 ^ e := by positivity
  -- expand everything over the atoms L*M, r*M, u*M, v*M
  have x1 : (a.L + (a.r - u)) * 2 ^ e = a.L * 2 ^ e + (a.r * 2 ^ e - u * 2 ^ e) := by rw [Nat.add_mul, Nat.sub_mul]
  have x2 : (a.L + (a.r - v)) * 2 ^ e = a.L * 2 ^ e + (a.r * 2 ^ e - v * 2 ^ e) := by rw [Nat.add_mul, Nat.sub_mul]
  have x3 : (a.L + a.r) * 2 ^ e = a.L * 2 ^ e + a.r * 2 ^ e := Nat.add_mul _ _ _
  have m1 : u * 2 ^ e ≤ a.r * 2 ^ e := Nat.mul_le_mul_right _ hu
  have m2 : v * 2 ^ e < u * 2 ^ e := Nat.mul_lt_mul_of_pos_right huv hM
  rw [x1] at h1; rw [x2] at h2; rw [x3] at r3
  refine ⟨?_, ?_, ?_⟩
  · rw [hee, Nat.le_div_iff_mul_le hM]; omega
  · rw [hee, Nat.div_lt_iff_lt_mul hM]; omega
  · refine ⟨by simp [aDecStep, aEncStep, r1], by simp only [aDecStep, aEncStep]; omega, ?_⟩
    simp only [aDecStep, aEncStep, hee]
    have hpe : 2 ^ e = 2 ^ normShift (u - v) * 2 ^ (e - normShift (u - v)) := by
      rw [← Nat.pow_add]; congr 1; omega
    have : ((a.L + (a.r - u)) * 2 ^ normShift (u - v) + (u - v) * 2 ^ normShift (u - v)) * 2 ^ (e - normShift (u - v)) =
        (a.L + (a.r - v)) * 2 ^ e := by
      rw [← Nat.add_mul, Nat.mul_assoc, ← hpe]; congr 1; omega
    rw [this, x2]; omega

/-- validity of a primitive: a valid table and a symbol inside it, or a bool probability in `(0, 32768)` -/
def Prim.Valid : Prim → Prop
  | .sym c n s => ValidCdf c n ∧ s < n
  | .bool f bit => 0 < f ∧ f < 32768 ∧ bit ≤ 1

theorem bool_v_range (r f : Nat) (hr0 : 32768 ≤ r) (hr : r < 65536) (hf : f < 32768) :
    0 < scaleV r f 1 ∧ scaleV r f 1 < r := by
  refine ⟨?_, scaleV_lt_r r f 1 hr0 hr (by omega) (by omega)⟩
  rw [scaleV_eq r f 1 hr (by omega) (by omega)]; omega

/-- the selected sub-interval is non-empty and inside `[0, r)` -/
theorem prim_interval (a : AEnc) (p : Prim) (ha : AInv a) (hp : p.Valid) :
    primV a.r p < primU a.r p ∧ primU a.r p ≤ a.r := by
  cases p with
  | sym c n s =>
    have P := (partition a.r c n ha.1 ha.2 hp.1).2.2 s hp.2
    exact ⟨P.1, P.2.2⟩
  | bool f bit =>
    have B := bool_v_range a.r f ha.1 ha.2 hp.2.1
    simp only [primU, primV]
    split <;> omega

theorem aEncPrim_inv (a : AEnc) (p : Prim) (ha : AInv a) (hp : p.Valid) : AInv (aEncPrim a p) := by
  have := prim_interval a p ha hp
  exact aEncStep_inv a _ _ this.1 this.2 ha

theorem cont_prims (X T : Nat) : ∀ (ps : List Prim) (a : AEnc), AInv a → (∀ p ∈ ps, p.Valid) →
    Cont X T (aEncPrims a ps) → Cont X T a := by
  intro ps
  induction ps with
  | nil => intro a _ _ h; exact h
  | cons p ps ih =>
    intro a ha hv h
    have hp := hv p (by simp)
    have h1 := ih (aEncPrim a p) (aEncPrim_inv a p ha hp) (fun q hq => hv q (by simp [hq])) h
    have := prim_interval a p ha hp
    exact cont_step X T a _ _ this.1 this.2 h1

/-- one primitive: the abstract reader recovers the written value and stays in step with the writer -/
theorem aDecPrim_correct (X T : Nat) (a : AEnc) (b : ADec) (p : Prim) (ha : AInv a) (hp : p.Valid)
    (hc : Cont X T (aEncPrim a p)) (hr : Rel X T a b) :
    (aDecPrim b p).2 = p.value ∧ Rel X T (aEncPrim a p) (aDecPrim b p).1 := by
  have I := prim_interval a p ha hp
  have S := rel_step X T a b _ _ I.1 I.2 hc hr
  have hbr : b.r = a.r := hr.1
  cases p with
  | sym c n s =>
    simp only [primU, primV] at S
    have F := decSearch_finds a.r c n s (b.D / 2 ^ b.e) ha.1 ha.2 hp.1 hp.2 S.1 S.2.1
    simp only [aDecPrim, hbr, F, Prim.value]
    exact ⟨trivial, S.2.2⟩
  | bool f bit =>
    have B := bool_v_range a.r f ha.1 ha.2 hp.2.1
    have hb := hp.2.2
    simp only [primU, primV] at S
    simp only [aDecPrim, hbr, Prim.value]
    by_cases h0 : bit = 0
    · subst h0
      simp only [ne_eq, not_true_eq_false, ↓reduceIte] at S
      have : b.D / 2 ^ b.e ≥ scaleV a.r f 1 := S.1
      simp only [this, ↓reduceIte, true_and]
      have := S.2.2
      simpa [aEncPrim, primU, primV, hbr] using this
    · have h1 : bit = 1 := by omega
      subst h1
      simp only [ne_eq, one_ne_zero, not_false_eq_true, ↓reduceIte] at S
      have : ¬ b.D / 2 ^ b.e ≥ scaleV a.r f 1 := by omega
      simp only [this, ↓reduceIte, true_and]
      have := S.2.2
      simpa [aEncPrim, primU, primV, hbr] using this

theorem aDecPrims_correct (X T : Nat) : ∀ (ps : List Prim) (a : AEnc) (b : ADec), AInv a → (∀ p ∈ ps, p.Valid) →
    Cont X T (aEncPrims a ps) → Rel X T a b → aDecPrims b ps = ps.map Prim.value := by
  intro ps
  induction ps with
  | nil => intro a b _ _ _ _; rfl
  | cons p ps ih =>
    intro a b ha hv hc hr
    have hp := hv p (by simp)
    have hv' : ∀ q ∈ ps, q.Valid := fun q hq => hv q (by simp [hq])
    have ha' := aEncPrim_inv a p ha hp
    have hc1 : Cont X T (aEncPrim a p) := cont_prims X T ps _ ha' hv' hc
    have C := aDecPrim_correct X T a b p ha hp hc1 hr
    simp only [aDecPrims, List.map_cons]
    rw [C.1, ih (aEncPrim a p) (aDecPrim b p).1 ha' hv' hc C.2]

/-! ## 4. the concrete writer refines the abstract encoder -/

/-- value of the (reversed) precarry buffer: cells are base-256 digits that may exceed 255 (deferred carries) -/
def preVal : List Nat → Nat
  | [] => 0
  | c :: rest => preVal rest * 256 + c

/-- invariant of `OdEcEnc` between calls -/
def EncInv (e : Enc) : Prop :=
  -9 ≤ e.cnt ∧ e.cnt ≤ -1 ∧ 32768 ≤ e.rng ∧ e.rng < 65536 ∧ e.low + e.rng ≤ 2 ^ (e.cnt + 25).toNat ∧
  e.offs = e.pre.length

/-- abstraction function: the exact low end of the interval is `precarry · 2^(cnt+24) + low` -/
def absEnc (e : Enc) : AEnc :=
  { L := preVal e.pre * 2 ^ (e.cnt + 24).toNat + e.low, r := e.rng, k := (e.cnt + 9).toNat + 8 * e.offs }

theorem flush_one (P low c : Nat) : (P * 256 + low / 2 ^ c) * 2 ^ c + low % 2 ^ c = P * 2 ^ (c + 8) + low := by
  have h := Nat.div_add_mod' low (2 ^ c)
  have e2 : P * 2 ^ (c + 8) = P * 256 * 2 ^ c := by rw [Nat.pow_add]; ring
  rw [Nat.add_mul, e2]; omega

theorem u32_id (x : Nat) (h : x < 4294967296) : u32 x = x := by unfold u32; omega
theorem u16_id (x : Nat) (h : x < 65536) : u16 x = x := by unfold u16; omega
theorem i16_id (x : Int) (h0 : -32768 ≤ x) (h1 : x < 32768) : i16 x = x := by unfold i16; omega
theorem subU32_id (a b : Nat) (h : b ≤ a) (ha : a < 4294967296) : subU32 a b = a - b := by unfold subU32; omega

theorem pow_le_of_le {a b : Nat} (h : a ≤ b) : 2 ^ a ≤ 2 ^ b := Nat.pow_le_pow_right (by decide) h

theorem encNormalize_spec (e : Enc) (low rng : Nat) (hi : EncInv e) (h1 : 1 ≤ rng) (h3 : rng < 65536)
    (h2 : low + rng ≤ 2 ^ (e.cnt + 25).toNat) :
    EncInv (encNormalize e low rng) ∧
    absEnc (encNormalize e low rng) =
      { L := (preVal e.pre * 2 ^ (e.cnt + 24).toNat + low) * 2 ^ normShift rng,
        r := rng * 2 ^ normShift rng, k := (absEnc e).k + normShift rng } := by
  obtain ⟨i1, i2, i3, i4, i5, i6⟩ := hi
  obtain ⟨c0, hc⟩ : ∃ c0 : Nat, e.cnt = (c0 : Int) - 16 := ⟨(e.cnt + 16).toNat, by omega⟩
  have hc0 : 7 ≤ c0 ∧ c0 ≤ 15 := by omega
  obtain ⟨n1, n2, n3⟩ := normShift_spec rng h1 h3
  have hil : ilogNz rng ≤ 16 := by
    unfold ilogNz
    have : rng.log2 < 16 := (Nat.log2_lt (by omega)).2 (by omega)
    omega
  have hd : (16 : Int) - (ilogNz rng : Int) = ((normShift rng : Nat) : Int) := by unfold normShift; omega
  generalize hdd : normShift rng = d at *
  have t1 : (e.cnt + 25).toNat = c0 + 9 := by omega
  have t2 : (e.cnt + 24).toNat = c0 + 8 := by omega
  have t2' : ((c0 : Int) - 16 + 24).toNat = c0 + 8 := by omega
  rw [t1] at h2
  have hQ : 0 < 2 ^ d := by positivity
  have hlow : low < 2 ^ (c0 + 9) := by omega
  have hsplit := Nat.div_add_mod' low (2 ^ c0)
  have hmod : low % 2 ^ c0 < 2 ^ c0 := Nat.mod_lt _ (by positivity)
  have hcell : low / 2 ^ c0 < 512 := by
    rw [Nat.div_lt_iff_lt_mul (by positivity)]
    calc low < 2 ^ (c0 + 9) := hlow
      _ = 512 * 2 ^ c0 := by rw [Nat.pow_add]; ring
  have hm32 : u32 (2 ^ c0 - 1) = 2 ^ c0 - 1 := by
    have : 2 ^ c0 ≤ 2 ^ 15 := pow_le_of_le hc0.2
    apply u32_id; omega
  unfold encNormalize
  simp only [hd, hc]
  by_cases s0 : (c0 : Int) - 16 + (d : Int) ≥ 0
  · have sd : 16 ≤ c0 + d := by omega
    have e16 : ((c0 : Int) - 16 + 16).toNat = c0 := by omega
    have edn : ((d : Nat) : Int).toNat = d := by omega
    simp only [s0, ↓reduceIte, e16, edn, Nat.shiftLeft_eq, Nat.one_mul, hm32, Nat.and_two_pow_sub_one_eq_mod,
      Nat.shiftRight_eq_div_pow]
    by_cases s8 : (c0 : Int) - 16 + (d : Int) ≥ 8
    · -- two cells
      have sd8 : 24 ≤ c0 + d := by omega
      have hc9 : 9 ≤ c0 := by omega
      have e8 : ((c0 : Int) - 16 + 16 - 8).toNat = c0 - 8 := by omega
      have p8 : 2 ^ c0 = 256 * 2 ^ (c0 - 8) := by
        rw [show c0 = 8 + (c0 - 8) by omega, Nat.pow_add]; simp
      have hp8 : 0 < 2 ^ (c0 - 8) := by positivity
      have hm8 : (2 ^ c0 - 1) / 2 ^ 8 = 2 ^ (c0 - 8) - 1 := by rw [p8]; omega
      simp only [s8, ↓reduceIte, e8, hm8, Nat.and_two_pow_sub_one_eq_mod]
      have hmod2 : low % 2 ^ c0 % 2 ^ (c0 - 8) < 2 ^ (c0 - 8) := Nat.mod_lt _ hp8
      have hsplit2 := Nat.div_add_mod' (low % 2 ^ c0) (2 ^ (c0 - 8))
      have hcell2 : low % 2 ^ c0 / 2 ^ (c0 - 8) < 256 := by
        rw [Nat.div_lt_iff_lt_mul hp8]; omega
      have hpd : 2 ^ (c0 - 8 + d) = 2 ^ (c0 - 8) * 2 ^ d := Nat.pow_add _ _ _
      have hlow' : low % 2 ^ c0 % 2 ^ (c0 - 8) * 2 ^ d < 2 ^ (c0 - 8 + d) := by
        rw [hpd]; exact Nat.mul_lt_mul_of_pos_right hmod2 hQ
      have hb : 2 ^ (c0 - 8 + d) ≤ 2 ^ 22 := pow_le_of_le (by omega)
      have hb16 : 2 ^ 16 ≤ 2 ^ (c0 - 8 + d) := pow_le_of_le (by omega)
      rw [u32_id _ (by omega), u16_id _ (by omega), u16_id _ (by omega), u16_id _ (by omega),
        i16_id _ (by omega) (by omega)]
      have t3 : ((c0 : Int) - 16 + 16 - 8 + (d : Int) - 24 + 25).toNat = c0 - 8 + d + 1 := by omega
      have t4 : ((c0 : Int) - 16 + 16 - 8 + (d : Int) - 24 + 24).toNat = c0 - 8 + d := by omega
      have t5 : ((c0 : Int) - 16 + 16 - 8 + (d : Int) - 24 + 9).toNat + 8 * (e.offs + 2) =
          ((c0 : Int) - 16 + 9).toNat + 8 * e.offs + d := by omega
      refine ⟨?_, ?_⟩
      · unfold EncInv; dsimp only
        refine ⟨by omega, by omega, n1, n2, ?_, by simp [i6]⟩
        simp only [t3]; rw [Nat.pow_succ]; omega
      · simp only [absEnc, t4, t5, hc, t2', preVal]
        congr 1
        have f1 := flush_one (preVal e.pre) low c0
        have f2 := flush_one (preVal e.pre * 256 + low / 2 ^ c0) (low % 2 ^ c0) (c0 - 8)
        rw [show c0 - 8 + 8 = c0 by omega] at f2
        rw [hpd, ← Nat.mul_assoc, ← Nat.add_mul, f2, f1]
    · -- one cell
      have sd8 : c0 + d < 24 := by omega
      simp only [s8, ↓reduceIte]
      have hpd : 2 ^ (c0 + d) = 2 ^ c0 * 2 ^ d := Nat.pow_add _ _ _
      have hlow' : low % 2 ^ c0 * 2 ^ d < 2 ^ (c0 + d) := by
        rw [hpd]; exact Nat.mul_lt_mul_of_pos_right hmod hQ
      have hb : 2 ^ (c0 + d) ≤ 2 ^ 23 := pow_le_of_le (by omega)
      have hb16 : 2 ^ 16 ≤ 2 ^ (c0 + d) := pow_le_of_le (by omega)
      rw [u32_id _ (by omega), u16_id _ (by omega), u16_id _ (by omega), i16_id _ (by omega) (by omega)]
      have t3 : ((c0 : Int) - 16 + 16 + (d : Int) - 24 + 25).toNat = c0 + d + 1 := by omega
      have t4 : ((c0 : Int) - 16 + 16 + (d : Int) - 24 + 24).toNat = c0 + d := by omega
      have t5 : ((c0 : Int) - 16 + 16 + (d : Int) - 24 + 9).toNat + 8 * (e.offs + 1) =
          ((c0 : Int) - 16 + 9).toNat + 8 * e.offs + d := by omega
      refine ⟨?_, ?_⟩
      · unfold EncInv; dsimp only
        refine ⟨by omega, by omega, n1, n2, ?_, by simp [i6]⟩
        simp only [t3]; rw [Nat.pow_succ]; omega
      · simp only [absEnc, t4, t5, hc, t2', preVal]
        congr 1
        have f1 := flush_one (preVal e.pre) low c0
        rw [hpd, ← Nat.mul_assoc, ← Nat.add_mul, f1]
  · -- no flush
    have sd : c0 + d < 16 := by omega
    have edn : ((d : Nat) : Int).toNat = d := by omega
    simp only [s0, ↓reduceIte, edn, Nat.shiftLeft_eq]
    have hpd : 2 ^ (c0 + 9 + d) = 2 ^ (c0 + 9) * 2 ^ d := Nat.pow_add _ _ _
    have hb : 2 ^ (c0 + 9 + d) ≤ 2 ^ 24 := pow_le_of_le (by omega)
    have hmul : (low + rng) * 2 ^ d ≤ 2 ^ (c0 + 9) * 2 ^ d := Nat.mul_le_mul_right _ h2
    rw [Nat.add_mul] at hmul
    rw [u32_id _ (by omega), u16_id _ (by omega), i16_id _ (by omega) (by omega)]
    have t3 : ((c0 : Int) - 16 + (d : Int) + 25).toNat = c0 + 9 + d := by omega
    have t4 : ((c0 : Int) - 16 + (d : Int) + 24).toNat = c0 + 8 + d := by omega
    have t5 : ((c0 : Int) - 16 + (d : Int) + 9).toNat + 8 * e.offs = ((c0 : Int) - 16 + 9).toNat + 8 * e.offs + d := by omega
    refine ⟨?_, ?_⟩
    · unfold EncInv; dsimp only
      refine ⟨by omega, by omega, n1, n2, ?_, i6⟩
      simp only [t3]; omega
    · simp only [absEnc, t4, t5, hc, t2']
      congr 1
      rw [Nat.pow_add, Nat.add_mul, Nat.mul_assoc]


theorem encInv_low_bound (e : Enc) (hi : EncInv e) : e.low + e.rng ≤ 16777216 := by
  obtain ⟨i1, i2, i3, i4, i5, i6⟩ := hi
  have : 2 ^ (e.cnt + 25).toNat ≤ 2 ^ 24 := pow_le_of_le (by omega)
  omega

theorem encStep_spec (e : Enc) (u v : Nat) (hi : EncInv e) (huv : v < u) (hu : u ≤ e.rng) :
    EncInv (encNormalize e (e.low + (e.rng - u)) (u - v)) ∧
    absEnc (encNormalize e (e.low + (e.rng - u)) (u - v)) = aEncStep (absEnc e) u v := by
  have hi' := hi
  obtain ⟨i1, i2, i3, i4, i5, i6⟩ := hi
  have S := encNormalize_spec e (e.low + (e.rng - u)) (u - v) hi' (by omega) (by omega) (by omega)
  refine ⟨S.1, ?_⟩
  rw [S.2]
  simp only [aEncStep, absEnc, Nat.add_assoc]

theorem encodeCdf_spec (e : Enc) (c : List Nat) (n s : Nat) (hi : EncInv e) (hv : ValidCdf c n) (hs : s < n) :
    EncInv (encodeCdfQ15 e s c n) ∧ absEnc (encodeCdfQ15 e s c n) = aEncPrim (absEnc e) (.sym c n s) := by
  have hb := encInv_low_bound e hi
  have hr0 := hi.2.2.1
  have hr1 := hi.2.2.2.1
  have P := (partition e.rng c n hr0 hr1 hv).2.2 s hs
  have S := encStep_spec e (symU e.rng c (n - 1) s) (symV e.rng c (n - 1) s) hi P.1 P.2.2
  have hA : aEncPrim (absEnc e) (.sym c n s) = aEncStep (absEnc e) (symU e.rng c (n - 1) s) (symV e.rng c (n - 1) s) := rfl
  rw [hA]
  suffices h : encodeCdfQ15 e s c n =
      encNormalize e (e.low + (e.rng - symU e.rng c (n - 1) s)) (symU e.rng c (n - 1) s - symV e.rng c (n - 1) s) by
    rw [h]; exact S
  unfold encodeCdfQ15 encodeQ15
  by_cases h0 : s = 0
  · subst h0
    have hu : symU e.rng c (n - 1) 0 = e.rng := by simp [symU]
    rw [hu] at P ⊢
    have hv' : scaleV e.rng (c.getD 0 0) (n - 1 - 0) = symV e.rng c (n - 1) 0 := rfl
    simp only [Nat.lt_irrefl, ↓reduceIte, CDF_PROB_TOP, hv', Nat.sub_self, Nat.add_zero]
    rw [subU32_id _ _ (by omega) (by omega)]
  · have hpos : s > 0 := by omega
    have hfl : c.getD (s - 1) 0 < 32768 := by
      have := hv.2.2.2.1 (s - 1) (by omega); omega
    have hu' : scaleV e.rng (c.getD (s - 1) 0) (n - 1 - (s - 1)) = symU e.rng c (n - 1) s := by simp [symU, h0]
    have hv' : scaleV e.rng (c.getD s 0) (n - 1 - s) = symV e.rng c (n - 1) s := rfl
    simp only [hpos, ↓reduceIte, CDF_PROB_TOP, hfl, hu', hv']
    rw [subU32_id _ _ P.2.2 (by omega), subU32_id _ _ (by omega) (by omega), u32_id _ (by omega)]

theorem encodeBool_spec (e : Enc) (f bit : Nat) (hi : EncInv e) (hf0 : 0 < f) (hf : f < 32768) (hb : bit ≤ 1) :
    EncInv (encodeBoolQ15 e bit f) ∧ absEnc (encodeBoolQ15 e bit f) = aEncPrim (absEnc e) (.bool f bit) := by
  have hlb := encInv_low_bound e hi
  have hr0 := hi.2.2.1
  have hr1 := hi.2.2.2.1
  have B := bool_v_range e.rng f hr0 hr1 hf
  have hA : aEncPrim (absEnc e) (.bool f bit) =
      aEncStep (absEnc e) (if bit ≠ 0 then scaleV e.rng f 1 else e.rng) (if bit ≠ 0 then 0 else scaleV e.rng f 1) := rfl
  rw [hA]
  unfold encodeBoolQ15
  by_cases h0 : bit = 0
  · subst h0
    simp only [ne_eq, not_true_eq_false, ↓reduceIte]
    have S := encStep_spec e e.rng (scaleV e.rng f 1) hi B.2 (Nat.le_refl _)
    rw [Nat.sub_self, Nat.add_zero] at S
    rw [subU32_id _ _ (by omega) (by omega)]
    exact S
  · have hne : bit ≠ 0 := h0
    simp only [ne_eq, hne, not_false_eq_true, ↓reduceIte]
    have S := encStep_spec e (scaleV e.rng f 1) 0 hi B.1 (by omega)
    rw [Nat.sub_zero] at S
    rw [subU32_id _ _ (by omega) (by omega), u32_id _ (by omega)]
    exact S


/-! ### literals, op sequences, reachable-state invariant -/

/-- the bools `aom_write_literal(data, nbits)` codes, most significant first -/
def litPrims (data : Nat) : Nat → List Prim
  | 0 => []
  | b + 1 => .bool 16384 ((data >>> b) &&& 1) :: litPrims data b

theorem litPrims_valid (data : Nat) : ∀ nb, ∀ p ∈ litPrims data nb, p.Valid := by
  intro nb
  induction nb with
  | zero => intro p hp; simp [litPrims] at hp
  | succ b ih =>
    intro p hp
    simp only [litPrims, List.mem_cons] at hp
    rcases hp with rfl | hp
    · refine ⟨by omega, by omega, ?_⟩
      rw [Nat.and_one_is_mod]; omega
    · exact ih p hp

theorem probHalf : probToQ15 128 = 16384 := by decide

theorem aEncPrims_inv : ∀ (ps : List Prim) (a : AEnc), AInv a → (∀ p ∈ ps, p.Valid) → AInv (aEncPrims a ps) := by
  intro ps
  induction ps with
  | nil => intro a h _; exact h
  | cons p ps ih =>
    intro a h hv
    exact ih _ (aEncPrim_inv a p h (hv p (by simp))) (fun q hq => hv q (by simp [hq]))

theorem encodeLiteral_spec (data : Nat) : ∀ (nb : Nat) (e : Enc), EncInv e →
    EncInv (encodeLiteral e data nb) ∧ absEnc (encodeLiteral e data nb) = aEncPrims (absEnc e) (litPrims data nb) := by
  intro nb
  induction nb with
  | zero => intro e hi; exact ⟨hi, rfl⟩
  | succ b ih =>
    intro e hi
    have hb : (data >>> b) &&& 1 ≤ 1 := by rw [Nat.and_one_is_mod]; omega
    have S := encodeBool_spec e 16384 ((data >>> b) &&& 1) hi (by omega) (by omega) hb
    have I := ih (encodeBoolQ15 e ((data >>> b) &&& 1) 16384) S.1
    simp only [encodeLiteral, litPrims, probHalf, aEncPrims, List.foldl_cons]
    refine ⟨I.1, ?_⟩
    rw [I.2, S.2]; rfl

/-- the primitives an op stands for, given the tables in effect -/
def opPrims (tabs : Tables) : Op → List Prim
  | .sym id s => [.sym (tabs.getD id []) (nsymsOf (tabs.getD id [])) s]
  | .bool f bit => [.bool f bit]
  | .lit nb v => litPrims v nb
  | .adapt _ => []

/-- an op is well-formed for the tables in effect: "valid probability tables" of the property statement -/
def OpValid (tabs : Tables) : Op → Prop
  | .sym id s => id < tabs.length ∧ ValidCdf (tabs.getD id []) (nsymsOf (tabs.getD id [])) ∧ s < nsymsOf (tabs.getD id [])
  | .bool f bit => 0 < f ∧ f < 32768 ∧ bit ≤ 1
  | .lit nb v => v < 2 ^ nb
  | .adapt _ => True

theorem opPrims_valid (tabs : Tables) (op : Op) (h : OpValid tabs op) : ∀ p ∈ opPrims tabs op, p.Valid := by
  cases op with
  | sym id s => intro p hp; simp only [opPrims, List.mem_singleton] at hp; subst hp; exact ⟨h.2.1, h.2.2⟩
  | bool f bit => intro p hp; simp only [opPrims, List.mem_singleton] at hp; subst hp; exact h
  | lit nb v => exact litPrims_valid v nb
  | adapt a => intro p hp; simp [opPrims] at hp

theorem writeOp_spec (w : Writer) (op : Op) (hi : EncInv w.enc) (hv : OpValid w.tabs op) :
    EncInv (writeOp w op).enc ∧ absEnc (writeOp w op).enc = aEncPrims (absEnc w.enc) (opPrims w.tabs op) := by
  cases op with
  | sym id s =>
    have S := encodeCdf_spec w.enc (w.tabs.getD id []) (nsymsOf (w.tabs.getD id [])) s hi hv.2.1 hv.2.2
    simp only [writeOp, opPrims, aEncPrims, List.foldl_cons, List.foldl_nil]
    split <;> exact S
  | bool f bit =>
    have S := encodeBool_spec w.enc f bit hi hv.1 hv.2.1 hv.2.2
    simpa [writeOp, opPrims, aEncPrims] using S
  | lit nb v =>
    have S := encodeLiteral_spec v nb w.enc hi
    simpa [writeOp, opPrims] using S
  | adapt a => exact ⟨hi, rfl⟩

/-! ### `svt_od_ec_enc_done`: number of bytes, `svt_od_ec_enc_tell` -/

theorem carryProp_length : ∀ (pre : List Nat) (c : Nat) (acc : List Nat),
    (carryProp pre c acc).length = pre.length + acc.length := by
  intro pre
  induction pre with
  | nil => intro c acc; simp [carryProp]
  | cons x xs ih => intro c acc; simp only [carryProp, ih, List.length_cons]; omega

theorem encDone_length (e : Enc) (hi : EncInv e) :
    (encDone e).length = e.offs + (if e.cnt ≤ -2 then 1 else 2) := by
  obtain ⟨i1, i2, i3, i4, i5, i6⟩ := hi
  have hc : e.cnt = -9 ∨ e.cnt = -8 ∨ e.cnt = -7 ∨ e.cnt = -6 ∨ e.cnt = -5 ∨ e.cnt = -4 ∨ e.cnt = -3 ∨
      e.cnt = -2 ∨ e.cnt = -1 := by omega
  unfold encDone
  rw [carryProp_length, i6]
  rcases hc with h | h | h | h | h | h | h | h | h <;> simp [h, doneLoop]

/-- **tell_bounds_bytes** core: `⌈tell/8⌉` equals the number of bytes `enc_done` emits -/
theorem tell_eq_bytes (e : Enc) (hi : EncInv e) : (encTell e + 7) / 8 = ((encDone e).length : Int) := by
  rw [encDone_length e hi]
  obtain ⟨i1, i2, i3, i4, i5, i6⟩ := hi
  unfold encTell
  split <;> omega


/-! ### whole sequences on the writer side -/

def OpsValid (tabs : Tables) (ops : List Op) : Prop := ∀ op ∈ ops, OpValid tabs op

theorem tabs_getD_set (l : Tables) (i j : Nat) (a : List Nat) :
    (l.set i a).getD j [] = if i = j ∧ i < l.length then a else l.getD j [] := by
  simp only [List.getD_eq_getElem?_getD, List.getElem?_set]
  by_cases h : i = j
  · subst h
    by_cases h2 : i < l.length
    · simp [h2]
    · simp [h2]
  · simp [h]

theorem updateCdf_nsyms (c : List Nat) (s n : Nat) (h : ValidCdf c n) (hn : n = nsymsOf c) :
    nsymsOf (updateCdf c s n) = nsymsOf c := by
  have h1 := (updateCdf_valid c s n h).1
  have h2 := h.1
  unfold nsymsOf; omega

theorem opValid_update (tabs : Tables) (id s : Nat) (op : Op)
    (hv : ValidCdf (tabs.getD id []) (nsymsOf (tabs.getD id []))) (h : OpValid tabs op) :
    OpValid (tabs.set id (updateCdf (tabs.getD id []) s (nsymsOf (tabs.getD id [])))) op := by
  cases op with
  | sym id' s' =>
    obtain ⟨h1, h2, h3⟩ := h
    simp only [OpValid, List.length_set, tabs_getD_set]
    refine ⟨h1, ?_⟩
    by_cases hh : id = id' ∧ id < tabs.length
    · obtain ⟨rfl, _⟩ := hh
      have hn := updateCdf_nsyms _ s _ hv rfl
      have hc : (id = id ∧ id < tabs.length) := ⟨rfl, h1⟩
      simp only [hc, and_self, ↓reduceIte]
      rw [hn]
      exact ⟨updateCdf_valid _ _ _ hv, h3⟩
    · simp only [hh, ↓reduceIte]; exact ⟨h2, h3⟩
  | bool f bit => exact h
  | lit nb v => exact h
  | adapt a => exact h

theorem opsValid_writeOp (w : Writer) (op : Op) (ops : List Op) (hv : OpValid w.tabs op) (h : OpsValid w.tabs ops) :
    OpsValid (writeOp w op).tabs ops := by
  cases op with
  | sym id s =>
    simp only [writeOp]
    split
    · intro o ho; exact opValid_update w.tabs id s o hv.2.1 (h o ho)
    · exact h
  | bool f bit => exact h
  | lit nb v => exact h
  | adapt a => exact h

theorem encInit_inv : EncInv encInit := by
  unfold EncInv encInit; simp

theorem writeOps_inv : ∀ (ops : List Op) (w : Writer), EncInv w.enc → OpsValid w.tabs ops →
    EncInv (writeOps w ops).enc := by
  intro ops
  induction ops with
  | nil => intro w h _; exact h
  | cons op ops ih =>
    intro w hi hv
    have h1 := hv op (by simp)
    have S := writeOp_spec w op hi h1
    exact ih (writeOp w op) S.1 (opsValid_writeOp w op ops h1 (fun o ho => hv o (by simp [ho])))


/-! ## 5. the concrete reader refines the abstract decoder -/

set_option maxRecDepth 100000 in
theorem xor255 : ∀ b, b < 256 → 255 ^^^ b = 255 - b := by decide

/-- XOR-ing a byte into a run of one-bits is a subtraction (this is why `od_ec_dec_refill` may use `^=`) -/
theorem xor_ones (x b s : Nat) (hb : b < 256) (hd : 2 ^ (s + 8) ∣ x + 1) : x ^^^ (b * 2 ^ s) = x - b * 2 ^ s := by
  obtain ⟨m, hm⟩ := hd
  have hs : 0 < 2 ^ s := by positivity
  have hm0 : 0 < m := by
    rcases Nat.eq_zero_or_pos m with h | h
    · subst h; simp at hm
    · exact h
  have hp : 2 ^ (s + 8) = 2 ^ s * 256 := by rw [Nat.pow_add]
  -- x = (m*256 - 1) * 2^s + (2^s - 1)
  have hx : x = (m * 256 - 1) * 2 ^ s + (2 ^ s - 1) := by
    have : (m * 256 - 1) * 2 ^ s = m * 256 * 2 ^ s - 2 ^ s := by rw [Nat.sub_mul, Nat.one_mul]
    have h2 : 2 ^ s ≤ m * 256 * 2 ^ s := by
      calc 2 ^ s = 1 * 2 ^ s := (Nat.one_mul _).symm
        _ ≤ m * 256 * 2 ^ s := Nat.mul_le_mul_right _ (by omega)
    have h3 : 2 ^ (s + 8) * m = m * 256 * 2 ^ s := by rw [hp]; ring
    omega
  have hxd : x / 2 ^ s = m * 256 - 1 := by
    rw [hx, Nat.add_comm, Nat.add_mul_div_right _ _ hs, Nat.div_eq_of_lt (by omega), Nat.zero_add]
  have hxm : x % 2 ^ s = 2 ^ s - 1 := by
    rw [hx, Nat.add_comm, Nat.add_mul_mod_self_right, Nat.mod_eq_of_lt (by omega)]
  have h1 : (x ^^^ (b * 2 ^ s)) % 2 ^ s = 2 ^ s - 1 := by
    rw [Nat.xor_mod_two_pow, Nat.mul_mod_left, Nat.xor_zero, hxm]
  have h2 : (x ^^^ (b * 2 ^ s)) / 2 ^ s = (m * 256 - 1) ^^^ b := by
    rw [Nat.xor_div_two_pow, Nat.mul_div_cancel _ hs, hxd]
  have h3 : ((m * 256 - 1) ^^^ b) = m * 256 - 1 - b := by
    have e8 : (256 : Nat) = 2 ^ 8 := by norm_num
    have a1 : ((m * 256 - 1) ^^^ b) % 256 = 255 - b := by
      rw [e8, Nat.xor_mod_two_pow, ← e8, Nat.mod_eq_of_lt hb]
      have : (m * 256 - 1) % 256 = 255 := by omega
      rw [this]; exact xor255 b hb
    have a2 : ((m * 256 - 1) ^^^ b) / 256 = m - 1 := by
      rw [e8, Nat.xor_div_two_pow, ← e8, Nat.div_eq_of_lt hb, Nat.xor_zero]; omega
    have := Nat.div_add_mod ((m * 256 - 1) ^^^ b) 256
    omega
  have h4 := Nat.div_add_mod (x ^^^ (b * 2 ^ s)) (2 ^ s)
  rw [h1, h2, h3] at h4
  have h5 : 2 ^ s * (m * 256 - 1 - b) = (m * 256 - 1) * 2 ^ s - b * 2 ^ s := by
    rw [Nat.mul_comm, Nat.sub_mul]
  have h6 : b * 2 ^ s ≤ (m * 256 - 1) * 2 ^ s := Nat.mul_le_mul_right _ (by omega)
  omega

/-- big-endian value of a byte string -/
def valBE : List Nat → Nat
  | [] => 0
  | b :: bs => b * 256 ^ bs.length + valBE bs

theorem valBE_lt : ∀ (bs : List Nat), (∀ x ∈ bs, x < 256) → valBE bs < 256 ^ bs.length := by
  intro bs
  induction bs with
  | nil => intro _; simp [valBE]
  | cons b bs ih =>
    intro h
    have hb : b < 256 := h b (by simp)
    have := ih (fun x hx => h x (by simp [hx]))
    simp only [valBE, List.length_cons, Nat.pow_succ]
    have : b * 256 ^ bs.length ≤ 255 * 256 ^ bs.length := Nat.mul_le_mul_right _ (by omega)
    omega

theorem pow256 (n : Nat) : 256 ^ n = 2 ^ (8 * n) := by
  rw [show (256 : Nat) = 2 ^ 8 by norm_num, ← Nat.pow_mul]

/-- the reader state `dc` mirrors the abstract decoder state `b`, for a stream padded with `Z` zero bits -/
def DecRel (Z : Nat) (dc : Dec) (b : ADec) : Prop :=
  dc.rng = b.r ∧ 32768 ≤ b.r ∧ b.r < 65536 ∧ 16 ≤ b.e ∧ dc.dif < dc.rng * 65536 ∧ (∀ x ∈ dc.rest, x < 256) ∧
  ∃ w : Nat, w ≤ 16 ∧ 2 ^ w ∣ dc.dif + 1 ∧
    b.D + 1 + valBE dc.rest * 2 ^ Z = (dc.dif + 1) * 2 ^ (b.e - 16) ∧
    (dc.rest ≠ [] → dc.cnt = 16 - (w : Int) ∧ b.e - 16 + w = 8 * dc.rest.length + Z) ∧
    (dc.rest = [] → 0 ≤ dc.cnt ∧ dc.cnt ≤ 16384)

theorem refillLoop_spec (Z D e : Nat) : ∀ (rest : List Nat) (dif w pos : Nat),
    (∀ x ∈ rest, x < 256) → w ≤ 31 → 2 ^ w ∣ dif + 1 →
    D + 1 + valBE rest * 2 ^ Z = (dif + 1) * 2 ^ (e - 16) →
    (rest ≠ [] → e - 16 + w = 8 * rest.length + Z) →
    ∃ (dif' w' pos' : Nat) (rest' : List Nat), refillLoop dif (16 - (w : Int)) ((w : Int) - 8) pos rest = (dif', 16 - (w' : Int), pos', rest') ∧
      (∀ x ∈ rest', x < 256) ∧ dif' ≤ dif ∧ 2 ^ w' ∣ dif' + 1 ∧ w' ≤ w ∧
      D + 1 + valBE rest' * 2 ^ Z = (dif' + 1) * 2 ^ (e - 16) ∧
      (rest' ≠ [] → e - 16 + w' = 8 * rest'.length + Z ∧ w' ≤ 7) := by
  intro rest
  induction rest with
  | nil =>
    intro dif w pos h1 h2 h3 h4 h5
    exact ⟨dif, w, pos, [], by simp [refillLoop], h1, Nat.le_refl _, h3, Nat.le_refl _, h4, by simp⟩
  | cons b bs ih =>
    intro dif w pos h1 h2 h3 h4 h5
    have hb : b < 256 := h1 b (by simp)
    have hbs : ∀ x ∈ bs, x < 256 := fun x hx => h1 x (by simp [hx])
    have h5' := h5 (by simp)
    simp only [List.length_cons] at h5'
    simp only [refillLoop]
    by_cases hs : (w : Int) - 8 ≥ 0
    · have hw8 : 8 ≤ w := by omega
      simp only [hs, ↓reduceIte]
      have et : ((w : Int) - 8).toNat = w - 8 := by omega
      have hsh : b <<< (w - 8) = b * 2 ^ (w - 8) := Nat.shiftLeft_eq _ _
      have hpw : 2 ^ (w - 8) ≤ 2 ^ 23 := pow_le_of_le (by omega)
      have hbw : b * 2 ^ (w - 8) < 4294967296 := by
        have : b * 2 ^ (w - 8) ≤ 255 * 2 ^ (w - 8) := Nat.mul_le_mul_right _ (by omega)
        omega
      have hdv : 2 ^ (w - 8 + 8) ∣ dif + 1 := by rw [show w - 8 + 8 = w by omega]; exact h3
      have hx := xor_ones dif b (w - 8) hb hdv
      rw [et, hsh, u32_id _ hbw, hx]
      obtain ⟨m, hm⟩ := h3
      have hm0 : 0 < m := by
        rcases Nat.eq_zero_or_pos m with h | h
        · subst h; simp at hm
        · exact h
      have hpw2 : 2 ^ w = 256 * 2 ^ (w - 8) := by
        rw [show w = 8 + (w - 8) by omega, Nat.pow_add]; simp
      have hle : b * 2 ^ (w - 8) ≤ dif := by
        have : 256 * 2 ^ (w - 8) ≤ 2 ^ w * m := by rw [hpw2]; exact Nat.le_mul_of_pos_right _ hm0
        have : b * 2 ^ (w - 8) ≤ 255 * 2 ^ (w - 8) := Nat.mul_le_mul_right _ (by omega)
        omega
      have hdv' : 2 ^ (w - 8) ∣ dif - b * 2 ^ (w - 8) + 1 := by
        refine ⟨m * 256 - b, ?_⟩
        have : 2 ^ (w - 8) * (m * 256 - b) = 2 ^ w * m - b * 2 ^ (w - 8) := by
          rw [Nat.mul_sub, hpw2]; congr 1 <;> ring
        omega
      have hcnt : i16 (16 - (w : Int) + 8) = 16 - ((w - 8 : Nat) : Int) := by
        rw [i16_id _ (by omega) (by omega)]; omega
      have hs' : (w : Int) - 8 - 8 = ((w - 8 : Nat) : Int) - 8 := by omega
      -- the (*) equation after consuming the byte
      have hE : 2 ^ (w - 8) * 2 ^ (e - 16) = 256 ^ bs.length * 2 ^ Z := by
        rw [pow256, ← Nat.pow_add, ← Nat.pow_add]; congr 1; omega
      have h4' : D + 1 + valBE bs * 2 ^ Z = (dif - b * 2 ^ (w - 8) + 1) * 2 ^ (e - 16) := by
        simp only [valBE] at h4
        have e1 : (dif - b * 2 ^ (w - 8) + 1) * 2 ^ (e - 16) =
            (dif + 1) * 2 ^ (e - 16) - b * 2 ^ (w - 8) * 2 ^ (e - 16) := by
          rw [show dif - b * 2 ^ (w - 8) + 1 = dif + 1 - b * 2 ^ (w - 8) by omega, Nat.sub_mul]
        have e2 : b * 2 ^ (w - 8) * 2 ^ (e - 16) = b * 256 ^ bs.length * 2 ^ Z := by
          rw [Nat.mul_assoc, hE, Nat.mul_assoc]
        rw [Nat.add_mul] at h4
        rw [e1, e2]; omega
      have h5'' : bs ≠ [] → e - 16 + (w - 8) = 8 * bs.length + Z := by intro _; omega
      obtain ⟨dif', w', pos', rest', r1, r2, r3, r4, r5, r6, r7⟩ :=
        ih (dif - b * 2 ^ (w - 8)) (w - 8) (pos + 1) hbs (by omega) hdv' h4' h5''
      rw [hcnt, hs']
      exact ⟨dif', w', pos', rest', r1, r2, by omega, r4, by omega, r6, r7⟩
    · simp only [hs, ↓reduceIte]
      exact ⟨dif, w, pos, b :: bs, rfl, h1, Nat.le_refl _, h3, Nat.le_refl _, h4,
        fun _ => ⟨by simpa using h5', by omega⟩⟩


/-- relation right after the shift of `od_ec_dec_normalize`, before the conditional refill -/
def PreRel (Z : Nat) (dc : Dec) (b : ADec) (w : Nat) : Prop :=
  dc.rng = b.r ∧ 32768 ≤ b.r ∧ b.r < 65536 ∧ 16 ≤ b.e ∧ dc.dif < dc.rng * 65536 ∧ (∀ x ∈ dc.rest, x < 256) ∧
  w ≤ 31 ∧ 2 ^ w ∣ dc.dif + 1 ∧
    b.D + 1 + valBE dc.rest * 2 ^ Z = (dc.dif + 1) * 2 ^ (b.e - 16) ∧
    (dc.rest ≠ [] → dc.cnt = 16 - (w : Int) ∧ b.e - 16 + w = 8 * dc.rest.length + Z) ∧
    (dc.rest = [] → -15 ≤ dc.cnt ∧ dc.cnt ≤ 16384)

theorem maybeRefill_spec (Z : Nat) (dc : Dec) (b : ADec) (w : Nat) (h : PreRel Z dc b w) :
    DecRel Z (if dc.cnt < 0 then decRefill dc else dc) b := by
  obtain ⟨p1, p2, p3, p4, p5, p6, p7, p8, p9, p10, p11⟩ := h
  by_cases hc : dc.cnt < 0
  · simp only [hc, ↓reduceIte]
    unfold decRefill
    cases hrest : dc.rest with
    | nil =>
      simp only [refillLoop, List.isEmpty_nil, ↓reduceIte]
      refine ⟨p1, p2, p3, p4, p5, by simp, 0, by omega, by simp, ?_, by simp, ?_⟩
      · rw [hrest] at p9; exact p9
      · intro _; simp [LOTS]
    | cons x xs =>
      have hne : dc.rest ≠ [] := by rw [hrest]; simp
      have q := p10 hne
      have hs : (32 : Int) - 9 - (dc.cnt + 15) = (w : Int) - 8 := by omega
      rw [hrest] at p6 p9 q
      obtain ⟨dif', w', pos', rest', r1, r2, r3, r4, r5, r6, r7⟩ :=
        refillLoop_spec Z b.D b.e (x :: xs) dc.dif w dc.pos p6 p7 p8 p9 (fun _ => q.2)
      rw [hs, q.1]
      dsimp only
      rw [r1]
      dsimp only
      by_cases hemp : rest' = []
      · subst hemp
        simp only [List.isEmpty_nil, ↓reduceIte]
        refine ⟨p1, p2, p3, p4, by dsimp only; omega, by simp, 0, by omega, by simp, r6, by simp, ?_⟩
        intro _; simp [LOTS]
      · have : rest'.isEmpty = false := by cases rest' <;> simp_all
        simp only [this, Bool.false_eq_true, ↓reduceIte]
        have q2 := r7 hemp
        exact ⟨p1, p2, p3, p4, by dsimp only; omega, r2, w', by omega, r4, r6, fun _ => ⟨rfl, q2.1⟩, fun h => absurd h hemp⟩
  · simp only [hc, ↓reduceIte]
    by_cases hrest : dc.rest = []
    · refine ⟨p1, p2, p3, p4, p5, p6, 0, by omega, by simp, p9, fun h => absurd hrest h, ?_⟩
      intro _; have := p11 hrest; omega
    · have q := p10 hrest
      exact ⟨p1, p2, p3, p4, p5, p6, w, by omega, p8, p9, fun _ => q, fun h => absurd h hrest⟩

/-- the 16-bit value the reader looks at is the abstract decoder's `D / 2^e` -/
theorem window_eq (Z : Nat) (dc : Dec) (b : ADec) (h : DecRel Z dc b) : dc.dif / 65536 = b.D / 2 ^ b.e := by
  obtain ⟨p1, p2, p3, p4, p5, p6, w, p7, p8, p9, p10, p11⟩ := h
  have hE : 0 < 2 ^ (b.e - 16) := by positivity
  have hpe : 2 ^ b.e = 65536 * 2 ^ (b.e - 16) := by
    rw [show b.e = 16 + (b.e - 16) by omega, Nat.pow_add]; simp
  -- V < 2^w * E
  have hV : valBE dc.rest * 2 ^ Z < 2 ^ w * 2 ^ (b.e - 16) := by
    by_cases hr : dc.rest = []
    · rw [hr]; simp only [valBE, Nat.zero_mul]; positivity
    · have q := (p10 hr).2
      have := valBE_lt dc.rest p6
      rw [pow256] at this
      calc valBE dc.rest * 2 ^ Z < 2 ^ (8 * dc.rest.length) * 2 ^ Z := Nat.mul_lt_mul_of_pos_right this (by positivity)
        _ = 2 ^ w * 2 ^ (b.e - 16) := by rw [← Nat.pow_add, ← Nat.pow_add]; congr 1; omega
  have hsplit := Nat.div_add_mod dc.dif 65536
  have hlo := Nat.mod_lt dc.dif (show 0 < 65536 by decide)
  generalize dc.dif / 65536 = c at *
  generalize dc.dif % 65536 = lo at *
  -- 2^w ∣ lo + 1
  have hdv : 2 ^ w ∣ lo + 1 := by
    have h16 : 2 ^ w ∣ 65536 * c := Dvd.dvd.mul_right (show 2 ^ w ∣ 65536 from by
      rw [show (65536 : Nat) = 2 ^ 16 by norm_num]; exact Nat.pow_dvd_pow 2 p7) c
    have : dc.dif + 1 = 65536 * c + (lo + 1) := by omega
    rw [this] at p8
    exact (Nat.dvd_add_right h16).1 p8
  have hlow : 2 ^ w ≤ lo + 1 := Nat.le_of_dvd (by omega) hdv
  have h1 : 2 ^ w * 2 ^ (b.e - 16) ≤ (lo + 1) * 2 ^ (b.e - 16) := Nat.mul_le_mul_right _ hlow
  have h2 : (lo + 1) * 2 ^ (b.e - 16) ≤ 65536 * 2 ^ (b.e - 16) := Nat.mul_le_mul_right _ (by omega)
  have h3 : (dc.dif + 1) * 2 ^ (b.e - 16) = c * (65536 * 2 ^ (b.e - 16)) + (lo + 1) * 2 ^ (b.e - 16) := by
    rw [show dc.dif + 1 = c * 65536 + (lo + 1) by omega, Nat.add_mul, Nat.mul_assoc]
  symm
  apply Nat.div_eq_of_lt_le
  · rw [hpe]; omega
  · rw [hpe, Nat.add_mul, Nat.one_mul]; omega

theorem decStep_spec (Z : Nat) (dc : Dec) (b : ADec) (u v : Nat) (h : DecRel Z dc b)
    (hv : v ≤ dc.dif / 65536) (hu : dc.dif / 65536 < u) (hur : u ≤ b.r)
    (he : 16 + normShift (u - v) ≤ b.e) :
    DecRel Z (decNormalize dc (dc.dif - v * 65536) (u - v)) (aDecStep b u v) := by
  have hwin := window_eq Z dc b h
  obtain ⟨p1, p2, p3, p4, p5, p6, w, p7, p8, p9, p10, p11⟩ := h
  obtain ⟨n1, n2, n3⟩ := normShift_spec (u - v) (by omega) (by omega)
  unfold decNormalize
  have hdd : 16 - ilogNz (u - v) = normShift (u - v) := rfl
  rw [hdd]
  generalize hd : normShift (u - v) = d at *
  have hQ : 0 < 2 ^ d := by positivity
  have hsplit := Nat.div_add_mod dc.dif 65536
  have hlo := Nat.mod_lt dc.dif (show 0 < 65536 by decide)
  -- dif0 + 1 ≤ (u - v) * 65536
  have hd0 : dc.dif - v * 65536 + 1 ≤ (u - v) * 65536 := by
    rw [Nat.sub_mul]
    have : (dc.dif / 65536 + 1) * 65536 ≤ u * 65536 := Nat.mul_le_mul_right _ hu
    have : v * 65536 ≤ dc.dif / 65536 * 65536 := Nat.mul_le_mul_right _ hv
    omega
  have hvle : v * 65536 ≤ dc.dif := by
    have : v * 65536 ≤ dc.dif / 65536 * 65536 := Nat.mul_le_mul_right _ hv
    omega
  have hmul : (dc.dif - v * 65536 + 1) * 2 ^ d ≤ (u - v) * 2 ^ d * 65536 := by
    calc (dc.dif - v * 65536 + 1) * 2 ^ d ≤ (u - v) * 65536 * 2 ^ d := Nat.mul_le_mul_right _ hd0
      _ = (u - v) * 2 ^ d * 65536 := by ring
  have hpos : 0 < (dc.dif - v * 65536 + 1) * 2 ^ d := Nat.mul_pos (by omega) hQ
  have hX32 : (dc.dif - v * 65536 + 1) * 2 ^ d < 4294967296 := by
    generalize (dc.dif - v * 65536 + 1) * 2 ^ d = X at *
    generalize (u - v) * 2 ^ d = rr at *
    omega
  have hd032 : dc.dif - v * 65536 + 1 < 4294967296 := by
    have : u - v < 65536 := by omega
    generalize u - v = uv at *
    omega
  have e1 : subU32 (u32 (u32 (dc.dif - v * 65536 + 1) <<< d)) 1 = (dc.dif - v * 65536 + 1) * 2 ^ d - 1 := by
    rw [u32_id _ hd032, Nat.shiftLeft_eq, u32_id _ hX32, subU32_id _ _ (by omega) hX32]
  have e2 : u16 ((u - v) <<< d) = (u - v) * 2 ^ d := by rw [Nat.shiftLeft_eq, u16_id _ n2]
  dsimp only
  rw [e1, e2]
  -- the state after the shift satisfies PreRel with w + d
  have hpre : PreRel Z { dc with dif := (dc.dif - v * 65536 + 1) * 2 ^ d - 1, rng := (u - v) * 2 ^ d, cnt := i16 (dc.cnt - (d : Int)) } (aDecStep b u v) (w + d) := by
    have hD : v * 2 ^ b.e ≤ b.D := by
      rw [hwin] at hv
      exact (Nat.le_div_iff_mul_le (by positivity)).1 hv
    have hpe : 2 ^ b.e = 65536 * 2 ^ (b.e - 16) := by
      rw [show b.e = 16 + (b.e - 16) by omega, Nat.pow_add]; simp
    have hpe2 : 2 ^ (b.e - 16) = 2 ^ d * 2 ^ (b.e - d - 16) := by
      rw [← Nat.pow_add, show d + (b.e - d - 16) = b.e - 16 by omega]
    have hdv0 : 2 ^ w ∣ dc.dif - v * 65536 + 1 := by
      have h16 : 2 ^ w ∣ v * 65536 := Dvd.dvd.mul_left (show 2 ^ w ∣ 65536 from by
        rw [show (65536 : Nat) = 2 ^ 16 by norm_num]; exact Nat.pow_dvd_pow 2 p7) v
      have : dc.dif - v * 65536 + 1 = dc.dif + 1 - v * 65536 := by omega
      rw [this]; exact Nat.dvd_sub p8 h16
    refine ⟨by simp [aDecStep, hd], by simp only [aDecStep, hd]; exact n1, by simp only [aDecStep, hd]; exact n2,
      by simp only [aDecStep, hd]; omega, ?_, p6, by omega, ?_, ?_, ?_, ?_⟩
    · dsimp only; omega
    · dsimp only
      rw [Nat.sub_add_cancel hpos, Nat.pow_add]
      exact Nat.mul_dvd_mul hdv0 (Nat.dvd_refl _)
    · simp only [aDecStep, hd]
      rw [Nat.sub_add_cancel hpos, Nat.mul_assoc, ← hpe2]
      have x1 : (dc.dif - v * 65536 + 1) * 2 ^ (b.e - 16) =
          (dc.dif + 1) * 2 ^ (b.e - 16) - v * 2 ^ b.e := by
        rw [show dc.dif - v * 65536 + 1 = dc.dif + 1 - v * 65536 by omega, Nat.sub_mul, hpe, Nat.mul_assoc]
      rw [x1]; omega
    · intro hne
      have q := p10 hne
      dsimp only
      simp only [aDecStep, hd]
      refine ⟨?_, by omega⟩
      rw [i16_id _ (by omega) (by omega)]; omega
    · intro hemp
      have q := p11 hemp
      dsimp only
      rw [i16_id _ (by omega) (by omega)]; omega
  exact maybeRefill_spec Z _ _ _ hpre


/-- what the real reader does for one primitive -/
def decodePrim (dc : Dec) : Prim → Dec × Nat
  | .sym c n _ => decodeCdfQ15 dc c n
  | .bool f _ => decodeBoolQ15 dc f

theorem readPrim_spec (Z : Nat) (dc : Dec) (b : ADec) (p : Prim) (hR : DecRel Z dc b) (hp : p.Valid)
    (hv : primV b.r p ≤ b.D / 2 ^ b.e) (hu : b.D / 2 ^ b.e < primU b.r p)
    (he : 16 + normShift (primU b.r p - primV b.r p) ≤ b.e) :
    (decodePrim dc p).2 = p.value ∧ DecRel Z (decodePrim dc p).1 (aDecStep b (primU b.r p) (primV b.r p)) := by
  have hwin := window_eq Z dc b hR
  have hrng : dc.rng = b.r := hR.1
  have hr0 := hR.2.1
  have hr1 := hR.2.2.1
  have hdif : dc.dif < dc.rng * 65536 := hR.2.2.2.2.1
  have hsplit := Nat.div_add_mod dc.dif 65536
  have hlo := Nat.mod_lt dc.dif (show 0 < 65536 by decide)
  have hI := prim_interval { L := 0, r := b.r, k := 0 } p ⟨hr0, hr1⟩ hp
  simp only at hI
  rw [← hwin] at hv hu
  have hvle : primV b.r p * 65536 ≤ dc.dif := by
    have : primV b.r p * 65536 ≤ dc.dif / 65536 * 65536 := Nat.mul_le_mul_right _ hv
    omega
  have S := decStep_spec Z dc b (primU b.r p) (primV b.r p) hR hv hu hI.2 he
  cases p with
  | sym c n s =>
    simp only [primU, primV] at *
    have F := decSearch_finds b.r c n s (dc.dif / 65536) hr0 hr1 hp.1 hp.2 hv hu
    simp only [decodePrim, decodeCdfQ15, Nat.shiftRight_eq_div_pow, hrng, Prim.value]
    rw [show (2 : Nat) ^ 16 = 65536 by norm_num, F]
    dsimp only
    rw [Nat.shiftLeft_eq, show (2 : Nat) ^ 16 = 65536 by norm_num, u32_id _ (by omega),
      subU32_id _ _ hvle (by omega), subU32_id _ _ (by omega) (by omega)]
    exact ⟨rfl, S⟩
  | bool f bit =>
    have B := bool_v_range b.r f hr0 hr1 hp.2.1
    have hb := hp.2.2
    simp only [decodePrim, decodeBoolQ15, hrng, Prim.value]
    rw [Nat.shiftLeft_eq, show (2 : Nat) ^ 16 = 65536 by norm_num, u32_id _ (by omega)]
    by_cases h0 : bit = 0
    · subst h0
      simp only [primU, primV, ne_eq, not_true_eq_false, ↓reduceIte] at *
      have : dc.dif ≥ scaleV b.r f 1 * 65536 := hvle
      simp only [this, ↓reduceIte, true_and]
      rw [subU32_id _ _ hvle (by omega), subU32_id _ _ (by omega) (by omega)]
      exact S
    · have h1 : bit = 1 := by omega
      subst h1
      simp only [primU, primV, ne_eq, one_ne_zero, not_false_eq_true, ↓reduceIte, Nat.zero_mul, Nat.sub_zero] at *
      have : ¬ dc.dif ≥ scaleV b.r f 1 * 65536 := by
        have : (dc.dif / 65536 + 1) * 65536 ≤ scaleV b.r f 1 * 65536 := Nat.mul_le_mul_right _ hu
        omega
      simp only [this, ↓reduceIte, true_and]
      exact S

/-- `od_ec_dec_init` establishes the relation: `D₀ = 2^T − 1 − X`, `T = 8·len + Z` -/
theorem decInit_spec (Z : Nat) (bytes : List Nat) (hb : ∀ x ∈ bytes, x < 256) (hZ : 31 ≤ 8 * bytes.length + Z) :
    DecRel Z (decInit bytes)
      { D := 2 ^ (8 * bytes.length + Z) - 1 - valBE bytes * 2 ^ Z, r := 32768, e := 8 * bytes.length + Z - 15 } := by
  have hlt := valBE_lt bytes hb
  rw [pow256] at hlt
  have hX : valBE bytes * 2 ^ Z < 2 ^ (8 * bytes.length + Z) := by
    rw [Nat.pow_add]; exact Nat.mul_lt_mul_of_pos_right hlt (by positivity)
  have hpre : PreRel Z { dif := 2147483647, rng := 0x8000, cnt := -15, tellOffs := 10 - (32 - 8), rest := bytes, pos := 0 }
      { D := 2 ^ (8 * bytes.length + Z) - 1 - valBE bytes * 2 ^ Z, r := 32768, e := 8 * bytes.length + Z - 15 } 31 := by
    refine ⟨rfl, by dsimp only; omega, by dsimp only; omega, by dsimp only; omega, by dsimp only; omega, hb, by omega, by norm_num, ?_, ?_, ?_⟩
    · dsimp only
      have : (2147483647 + 1) * 2 ^ (8 * bytes.length + Z - 15 - 16) = 2 ^ (8 * bytes.length + Z) := by
        rw [show (2147483647 + 1 : Nat) = 2 ^ 31 by norm_num, ← Nat.pow_add,
          show 31 + (8 * bytes.length + Z - 15 - 16) = 8 * bytes.length + Z by omega]
      rw [this]; omega
    · intro _; dsimp only; omega
    · intro _; dsimp only; omega
  have := maybeRefill_spec Z _ _ 31 hpre
  simpa [decInit] using this


/-! ## 6. assembling the round trip -/

attribute [local irreducible] decodeBoolQ15 decodeCdfQ15 encodeBoolQ15 encodeCdfQ15 encodeLiteral updateCdf decUpdateCdf

def decodePrims (dc : Dec) : List Prim → Dec × List Nat
  | [] => (dc, [])
  | p :: ps =>
    ((decodePrims (decodePrim dc p).1 ps).1, (decodePrim dc p).2 :: (decodePrims (decodePrim dc p).1 ps).2)

theorem aEncPrims_k_mono : ∀ (ps : List Prim) (a : AEnc), a.k ≤ (aEncPrims a ps).k := by
  intro ps
  induction ps with
  | nil => intro a; exact Nat.le_refl _
  | cons p ps ih =>
    intro a
    have := ih (aEncPrim a p)
    simp only [aEncPrims, List.foldl_cons] at this ⊢
    have h2 : a.k ≤ (aEncPrim a p).k := by simp [aEncPrim, aEncStep]
    exact Nat.le_trans h2 this

theorem aEncPrims_append (a : AEnc) (ps qs : List Prim) : aEncPrims a (ps ++ qs) = aEncPrims (aEncPrims a ps) qs := by
  simp [aEncPrims, List.foldl_append]

/-- the real reader, run on a stream whose value lies in the writer's final interval, recovers a whole sequence of
    primitives and stays in step with the writer -/
theorem readPrims_sync (X T Z : Nat) : ∀ (ps : List Prim) (a : AEnc) (b : ADec) (dc : Dec), AInv a →
    (∀ p ∈ ps, p.Valid) → Cont X T (aEncPrims a ps) → (aEncPrims a ps).k + 31 ≤ T → Rel X T a b → DecRel Z dc b →
    ∃ b', (decodePrims dc ps).2 = ps.map Prim.value ∧ Rel X T (aEncPrims a ps) b' ∧ DecRel Z (decodePrims dc ps).1 b' := by
  intro ps
  induction ps with
  | nil => intro a b dc _ _ _ _ hr hd; exact ⟨b, rfl, hr, hd⟩
  | cons p ps ih =>
    intro a b dc ha hv hc hT hr hd
    have hp := hv p (by simp)
    have hv' : ∀ q ∈ ps, q.Valid := fun q hq => hv q (by simp [hq])
    have ha' := aEncPrim_inv a p ha hp
    have hc1 : Cont X T (aEncPrim a p) := cont_prims X T ps _ ha' hv' hc
    have I := prim_interval a p ha hp
    have S := rel_step X T a b _ _ I.1 I.2 hc1 hr
    have hbr : b.r = a.r := hr.1
    have hk := aEncPrims_k_mono ps (aEncPrim a p)
    have hk2 : (aEncPrim a p).k = a.k + normShift (primU a.r p - primV a.r p) := by simp [aEncPrim, aEncStep]
    have hbe := hr.2.1
    have hfold : aEncPrims a (p :: ps) = aEncPrims (aEncPrim a p) ps := rfl
    rw [hfold] at hT hc
    have R := readPrim_spec Z dc b p hd hp (by rw [hbr]; exact S.1) (by rw [hbr]; exact S.2.1) (by rw [hbr]; omega)
    rw [hbr] at R
    obtain ⟨b', i1, i2, i3⟩ := ih (aEncPrim a p) _ (decodePrim dc p).1 ha' hv' hc hT S.2.2 R.2
    refine ⟨b', ?_, by rw [hfold]; exact i2, ?_⟩
    · simp only [decodePrims, List.map_cons]; rw [i1, R.1]
    · simp only [decodePrims]; exact i3

/-! literals: reassembling the bits -/

theorem decodeLiteral_spec (v : Nat) : ∀ (nb : Nat) (dc : Dec) (acc : Nat),
    (decodePrims dc (litPrims v nb)).2 = (litPrims v nb).map Prim.value → 2 ^ nb ∣ acc →
    decodeLiteral dc acc nb = ((decodePrims dc (litPrims v nb)).1, acc + v % 2 ^ nb) := by
  intro nb
  induction nb with
  | zero => intro dc acc _ _; simp [decodeLiteral, litPrims, decodePrims, Nat.mod_one]
  | succ b ih =>
    intro dc acc h hd
    have e1 : litPrims v (b + 1) = Prim.bool 16384 ((v >>> b) &&& 1) :: litPrims v b := rfl
    have e2 : ∀ x, decodePrims dc (Prim.bool 16384 x :: litPrims v b) =
        ((decodePrims (decodeBoolQ15 dc 16384).1 (litPrims v b)).1,
         (decodeBoolQ15 dc 16384).2 :: (decodePrims (decodeBoolQ15 dc 16384).1 (litPrims v b)).2) := fun _ => rfl
    have e3 : decodeLiteral dc acc (b + 1) =
        decodeLiteral (decodeBoolQ15 dc 16384).1 (acc ||| ((decodeBoolQ15 dc 16384).2 <<< b)) b := by
      simp only [decodeLiteral, probHalf]
    rw [e1, e2] at h
    rw [e1, e2, e3]
    simp only [List.map_cons, Prim.value, List.cons.injEq] at h
    obtain ⟨h1, h2⟩ := h
    generalize decodeBoolQ15 dc 16384 = q at *
    obtain ⟨q1, q2⟩ := q
    simp only at h1 h2 ⊢
    subst h1
    have hbit : (v >>> b) &&& 1 = v / 2 ^ b % 2 := by rw [Nat.and_one_is_mod, Nat.shiftRight_eq_div_pow]
    obtain ⟨m, hm⟩ := hd
    have hacc : acc ||| ((v >>> b &&& 1) <<< b) = acc + (v / 2 ^ b % 2) * 2 ^ b := by
      rw [hbit, Nat.shiftLeft_eq, hm]
      have hlt : (v / 2 ^ b % 2) * 2 ^ b < 2 ^ (b + 1) := by
        rw [Nat.pow_succ, Nat.mul_comm (2 ^ b) 2]
        exact Nat.mul_lt_mul_of_pos_right (Nat.mod_lt _ (by decide)) (by positivity)
      exact (Nat.two_pow_add_eq_or_of_lt hlt m).symm
    have hdv : 2 ^ b ∣ acc + (v / 2 ^ b % 2) * 2 ^ b := by
      refine ⟨2 * m + v / 2 ^ b % 2, ?_⟩
      rw [hm, Nat.pow_succ]; ring
    have hfin : acc + (v / 2 ^ b % 2) * 2 ^ b + v % 2 ^ b = acc + v % 2 ^ (b + 1) := by
      rw [Nat.mod_pow_succ]; ring
    rw [hacc, ih _ _ h2 hdv, hfin]

/-- `readOp` ignores the value stored in the op -/
theorem readOp_shape (r : Reader) (op : Op) : readOp r op.shape = readOp r op := by
  cases op <;> rfl

/-- one API call on the reader side, given that its primitives decode to the written values -/
theorem readOp_spec (r : Reader) (w : Writer) (op : Op) (htabs : r.tabs = w.tabs) (hadapt : r.adapt = w.adapt)
    (hv : OpValid w.tabs op)
    (hdec : (decodePrims r.dec (opPrims w.tabs op)).2 = (opPrims w.tabs op).map Prim.value) :
    (readOp r op).2 = op.value ∧ (readOp r op).1.dec = (decodePrims r.dec (opPrims w.tabs op)).1 ∧
    (readOp r op).1.tabs = (writeOp w op).tabs ∧ (readOp r op).1.adapt = (writeOp w op).adapt := by
  cases op with
  | sym id s =>
    have hU := updateCdf_eq_dec (w.tabs.getD id []) s (nsymsOf (w.tabs.getD id [])) hv.2.1.isU16
    have e : decodePrims r.dec (opPrims w.tabs (Op.sym id s)) =
        ((decodeCdfQ15 r.dec (w.tabs.getD id []) (nsymsOf (w.tabs.getD id []))).1,
         [(decodeCdfQ15 r.dec (w.tabs.getD id []) (nsymsOf (w.tabs.getD id []))).2]) := rfl
    rw [e] at hdec ⊢
    simp only [opPrims, List.map_cons, List.map_nil, Prim.value, List.cons.injEq, and_true] at hdec
    simp only [readOp, writeOp, htabs, hadapt, Op.value]
    generalize w.tabs.getD id [] = c at *
    generalize decodeCdfQ15 r.dec c (nsymsOf c) = q at *
    obtain ⟨q1, q2⟩ := q
    simp only at hdec
    subst hdec
    cases hw : w.adapt
    · simp
    · simp [hU]
  | bool f bit =>
    have e : decodePrims r.dec (opPrims w.tabs (Op.bool f bit)) =
        ((decodeBoolQ15 r.dec f).1, [(decodeBoolQ15 r.dec f).2]) := rfl
    rw [e] at hdec ⊢
    simp only [opPrims, List.map_cons, List.map_nil, Prim.value, List.cons.injEq, and_true] at hdec
    simp only [readOp, writeOp, htabs, hadapt, Op.value]
    generalize decodeBoolQ15 r.dec f = q at *
    obtain ⟨q1, q2⟩ := q
    simp only at hdec
    subst hdec
    simp
  | lit nb v =>
    have e : opPrims w.tabs (Op.lit nb v) = litPrims v nb := rfl
    rw [e] at hdec ⊢
    have L := decodeLiteral_spec v nb r.dec 0 hdec (Nat.dvd_zero _)
    have hvv : v % 2 ^ nb = v := Nat.mod_eq_of_lt hv
    simp only [readOp, writeOp, htabs, hadapt, Op.value, L, Nat.zero_add, hvv]
    simp
  | adapt a =>
    simp only [readOp, writeOp, htabs, Op.value, opPrims, decodePrims]
    simp

/-- abstract image of a whole op sequence (tables threaded as the writer threads them) -/
theorem writeOps_cons (w : Writer) (op : Op) (ops : List Op) : writeOps w (op :: ops) = writeOps (writeOp w op) ops := rfl

theorem absEnc_k_mono (ops : List Op) : ∀ (w : Writer), EncInv w.enc → OpsValid w.tabs ops →
    (absEnc w.enc).k ≤ (absEnc (writeOps w ops).enc).k := by
  induction ops with
  | nil => intro w _ _; exact Nat.le_refl _
  | cons op ops ih =>
    intro w hi hv
    have h1 := hv op (by simp)
    have S := writeOp_spec w op hi h1
    have := ih (writeOp w op) S.1 (opsValid_writeOp w op ops h1 (fun o ho => hv o (by simp [ho])))
    rw [writeOps_cons]
    rw [S.2] at this
    exact Nat.le_trans (aEncPrims_k_mono _ _) this

theorem cont_ops (X T : Nat) (ops : List Op) : ∀ (w : Writer), EncInv w.enc → OpsValid w.tabs ops →
    Cont X T (absEnc (writeOps w ops).enc) → Cont X T (absEnc w.enc) := by
  induction ops with
  | nil => intro w _ _ h; exact h
  | cons op ops ih =>
    intro w hi hv hc
    have h1 := hv op (by simp)
    have S := writeOp_spec w op hi h1
    have hc1 := ih (writeOp w op) S.1 (opsValid_writeOp w op ops h1 (fun o ho => hv o (by simp [ho]))) hc
    rw [S.2] at hc1
    have ha : AInv (absEnc w.enc) := ⟨hi.2.2.1, hi.2.2.2.1⟩
    exact cont_prims X T _ _ ha (opPrims_valid w.tabs op h1) hc1

/-- main induction: reader and writer run over the same op sequence -/
theorem readOps_sync (X T Z : Nat) (ops : List Op) : ∀ (w : Writer) (r : Reader) (b : ADec) (acc : List Nat),
    EncInv w.enc → OpsValid w.tabs ops → r.tabs = w.tabs → r.adapt = w.adapt →
    Cont X T (absEnc (writeOps w ops).enc) → (absEnc (writeOps w ops).enc).k + 31 ≤ T →
    Rel X T (absEnc w.enc) b → DecRel Z r.dec b →
    (readOpsAux r acc ops).2 = acc.reverse ++ ops.map Op.value ∧
    (readOpsAux r acc ops).1.tabs = (writeOps w ops).tabs := by
  induction ops with
  | nil => intro w r b acc _ _ ht _ _ _ _ _; simp [readOpsAux, writeOps, ht]
  | cons op ops ih =>
    intro w r b acc hi hv ht hadp hc hT hr hd
    have h1 := hv op (by simp)
    have hv' := opsValid_writeOp w op ops h1 (fun o ho => hv o (by simp [ho]))
    have S := writeOp_spec w op hi h1
    rw [writeOps_cons] at hc hT
    have hc1 : Cont X T (absEnc (writeOp w op).enc) := cont_ops X T ops _ S.1 hv' hc
    have hk := absEnc_k_mono ops (writeOp w op) S.1 hv'
    have ha : AInv (absEnc w.enc) := ⟨hi.2.2.1, hi.2.2.2.1⟩
    rw [S.2] at hc1 hk
    obtain ⟨b', j1, j2, j3⟩ := readPrims_sync X T Z (opPrims w.tabs op) (absEnc w.enc) b r.dec ha
      (opPrims_valid w.tabs op h1) hc1 (by omega) hr hd
    have RO := readOp_spec r w op ht hadp h1 j1
    rw [← S.2] at j2
    rw [← RO.2.1] at j3
    have := ih (writeOp w op) (readOp r op).1 b' ((readOp r op).2 :: acc) S.1 hv' RO.2.2.1 RO.2.2.2 hc hT j2 j3
    simp only [readOpsAux, writeOps_cons]
    rw [this.1, this.2, RO.1]
    simp

end RangeCoder
