/-
  Lemmas/UnwindSrm.lean — the shutdown sequence of one system resource on the C23 model (`Model/Srm.lean`),
  used by Props/C15: svt_fifo_shutdown on a consumer fifo = `shutQuit f` ; `shutPost f`; a consumer blocked at
  the semaphore then runs `semWait` ; `pop` and gets EB_NoErrorFifoShutdown.
-/
import SvtVerif.Lemmas.Srm

namespace Srm

/-- state after `svt_fifo_shutdown` lines 90-93 on consumer fifo `f` -/
def quitSt (s : State) (f : Nat) : State :=
  { s with quit := upd2 s.quit .full f true, shutUsed := true,
           shutPend := upd2 s.shutPend .full f (s.shutPend .full f + 1) }

theorem step_shutQuit (s : State) (f : Nat) (hf : f < s.nProc .full) :
    step s (.shutQuit f) = .ok (quitSt s f) .ok := by
  simp [step, hf, quitSt]

/-- state after `svt_fifo_shutdown` line 95 (semaphore post) -/
def postSt (s : State) (f : Nat) : State :=
  { s with sem := upd2 s.sem .full f (s.sem .full f + 1),
           shutPend := upd2 s.shutPend .full f (s.shutPend .full f - 1),
           shutPosts := upd2 s.shutPosts .full f (s.shutPosts .full f + 1) }

theorem step_shutPost (s : State) (f : Nat) (h : s.shutPend .full f ≠ 0) :
    step s (.shutPost f) = .ok (postSt s f) .ok := by
  simp [step, h, postSt]

/-- a consumer at the semaphore takes it -/
def takeSt (s : State) (f : Nat) : State :=
  { s with sem := upd2 s.sem .full f (s.sem .full f - 1), pc := upd2 s.pc .full f .popping }

theorem step_semWait_full (s : State) (f : Nat) (hp : s.pc .full f = .waiting) (hs : s.sem .full f ≠ 0) :
    step s (.semWait .full f) = .ok (takeSt s f) .ok := by
  simp [step, hp, hs, takeSt]

/-- ... and, `quit_signal` being set, returns the shutdown code -/
def retSt (s : State) (f : Nat) : State :=
  { s with pc := upd2 s.pc .full f .idle, shutRets := upd2 s.shutRets .full f (s.shutRets .full f + 1) }

theorem step_pop_quit (s : State) (f : Nat) (hp : s.pc .full f = .popping) (hq : s.quit .full f = true) :
    step s (.pop .full f) = .ok (retSt s f) .shutdown := by
  simp [step, hp, hq, retSt]

theorem shutdown_wakes {s : State} (h : Reachable s) (f : Nat) (hf : f < s.nProc .full) :
    ∃ s1 s2, step s (.shutQuit f) = .ok s1 .ok ∧ step s1 (.shutPost f) = .ok s2 .ok ∧ Reachable s2 ∧
      (s.pc .full f = .waiting →
        ∃ s3 s4, step s2 (.semWait .full f) = .ok s3 .ok ∧ step s3 (.pop .full f) = .ok s4 .shutdown ∧
          s4.pc .full f = .idle) := by
  have e1 := step_shutQuit s f hf
  have hp1 : (quitSt s f).shutPend .full f ≠ 0 := by simp [quitSt, upd2]
  have e2 := step_shutPost (quitSt s f) f hp1
  refine ⟨_, _, e1, e2, Reachable.step (Reachable.step h (by trivial) e1) (by trivial) e2, ?_⟩
  intro hw
  have hpc : (postSt (quitSt s f) f).pc .full f = .waiting := by simpa [postSt, quitSt] using hw
  have hsem : (postSt (quitSt s f) f).sem .full f ≠ 0 := by simp [postSt, quitSt, upd2]
  have e3 := step_semWait_full _ f hpc hsem
  have hpc3 : (takeSt (postSt (quitSt s f) f) f).pc .full f = .popping := by simp [takeSt, upd2]
  have hq3 : (takeSt (postSt (quitSt s f) f) f).quit .full f = true := by simp [takeSt, postSt, quitSt, upd2]
  have e4 := step_pop_quit _ f hpc3 hq3
  exact ⟨_, _, e3, e4, by simp [retSt, upd2]⟩

end Srm
