/-
  Lemmas for C03 (`Model/Packetize.lean`).
  Part A: the undisplayed stack + EOS movement + show-existing logic deliver the display order, for any GOP
          accepted by `validGop` (sequential reference `seqAux`, any stream length).
  Part B: the circular queue with TU-granular release hands the TUs to part A in decode order for every
          window-respecting arrival order (any stream length, any number of wrap-arounds).
-/
import SvtVerif.Model.Packetize
import SvtVerif.Lemmas.Reorder
import Mathlib.Tactic.Linarith

namespace Packetize

/-! ## Part A.0 — sorting and pushing -/

def SortedPts (l : List Buf) : Prop := l.Pairwise (fun a b => a.pts ≤ b.pts)

theorem insertByPts_perm (b : Buf) (l : List Buf) : (insertByPts b l).Perm (b :: l) := by
  induction l with
  | nil => exact List.Perm.refl _
  | cons x xs ih =>
    unfold insertByPts
    split
    · exact List.Perm.refl _
    · exact (List.Perm.cons x ih).trans (List.Perm.swap b x xs)

theorem sortStack_perm (l : List Buf) : (sortStack l).Perm l := by
  induction l with
  | nil => exact List.Perm.refl _
  | cons x xs ih => exact (insertByPts_perm x _).trans (List.Perm.cons x ih)

theorem insertByPts_sorted (b : Buf) (l : List Buf) (h : SortedPts l) : SortedPts (insertByPts b l) := by
  induction l with
  | nil => exact List.pairwise_singleton _ _
  | cons x xs ih =>
    have hx := List.pairwise_cons.1 h
    unfold insertByPts
    split
    · next hle =>
      refine List.pairwise_cons.2 ⟨?_, h⟩
      intro y hy
      rcases List.mem_cons.1 hy with rfl | hy
      · exact hle
      · exact Int.le_trans hle (hx.1 y hy)
    · next hnle =>
      refine List.pairwise_cons.2 ⟨?_, ih hx.2⟩
      intro y hy
      rcases List.mem_cons.1 ((insertByPts_perm b xs).mem_iff.1 hy) with rfl | hy
      · omega
      · exact hx.1 y hy

theorem sortStack_sorted (l : List Buf) : SortedPts (sortStack l) := by
  induction l with
  | nil => exact List.Pairwise.nil
  | cons x xs ih => exact insertByPts_sorted x _ ih

theorem foldl_push_eq (pushed stack : List Buf) (h : stack.length + pushed.length ≤ REF_FRAMES) :
    pushed.foldl push stack = pushed.reverse ++ stack := by
  induction pushed generalizing stack with
  | nil => rfl
  | cons p ps ih =>
    have hlt : ¬ stack.length ≥ REF_FRAMES := by simp only [List.length_cons] at h; omega
    rw [List.foldl_cons, push, if_neg hlt, ih (p :: stack) (by simp only [List.length_cons] at h ⊢; omega)]
    simp

/-! ## Part A.1 — invariant between the display-process specification and the model -/

/-- entry built from an arrival `(decode_order, frame)` -/
abbrev mk (term : Option Nat) (x : Nat × Frame) : Entry := mkEntry term x.1 x.2

/-- display numbers that the frames of the current partial TU will push -/
def curDisps (curP : List (Nat × Frame)) : List Nat :=
  (curP.filter (fun x => !x.2.alt)).map (·.2.disp)

/-- `pend` (specification) versus undisplayed stack + current partial TU (model). -/
structure StackRel (term : Option Nat) (ptsOf : Nat → Int) (pend : List Nat) (stack : List Buf)
    (curP : List (Nat × Frame)) : Prop where
  split   : ∃ pendS : List Nat, pend.Perm (curDisps curP ++ pendS) ∧
              (stack.map (·.pts)).Perm (pendS.map ptsOf)
  sorted  : SortedPts stack
  room    : pend.length ≤ REF_FRAMES
  hidden  : ∀ x ∈ curP, x.2.shown = false
  curPts  : ∀ x ∈ curP, x.2.pts = ptsOf x.2.disp
  curEos  : ∀ x ∈ curP, (term == some x.1) = false
  stDts   : ∀ b ∈ stack, b.dts = b.pts
  stEos   : ∀ b ∈ stack, b.eos = false

/-- packets posted so far display pictures `0 … c−1` -/
structure PkRel (ptsOf : Nat → Int) (c : Nat) (pktsRev : List Buf) : Prop where
  pts : pktsRev.reverse.map (·.pts) = (List.range c).map ptsOf
  dts : ∀ b ∈ pktsRev, b.dts = b.pts

theorem curDisps_append_hidden (curP : List (Nat × Frame)) (x : Nat × Frame) :
    curDisps (curP ++ [x]) = curDisps curP ++ (if x.2.alt then [] else [x.2.disp]) := by
  unfold curDisps
  rw [List.filter_append, List.map_append]
  cases h : x.2.alt <;> simp [h]

/-- a non-shown frame joins the current partial TU -/
theorem stackRel_hidden {term ptsOf pend stack curP} (x : Nat × Frame)
    (h : StackRel term ptsOf pend stack curP) (hs : x.2.shown = false) (hp : x.2.pts = ptsOf x.2.disp)
    (he : (term == some x.1) = false) {c c' : Nat} {pend' : List Nat}
    (hg : gopStep (some (c, pend)) x.2 = some (c', pend')) :
    c' = c ∧ StackRel term ptsOf pend' stack (curP ++ [x]) := by
  obtain ⟨pendS, hperm, hst⟩ := h.split
  have hmem : ∀ y ∈ curP ++ [x], y ∈ curP ∨ y = x := by
    intro y hy; rcases List.mem_append.1 hy with hy | hy
    · exact Or.inl hy
    · exact Or.inr (List.mem_singleton.1 hy)
  simp only [gopStep, hs, Bool.not_false, if_true] at hg
  cases halt : x.2.alt
  · -- becomes pending
    simp only [halt, Bool.false_eq_true, if_false] at hg
    split at hg
    · next hlen =>
      simp only [Option.some.injEq, Prod.mk.injEq] at hg
      obtain ⟨rfl, rfl⟩ := hg
      refine ⟨rfl, ⟨⟨pendS, ?_, hst⟩, h.sorted, ?_, ?_, ?_, ?_, h.stDts, h.stEos⟩⟩
      · rw [curDisps_append_hidden, halt]
        simp only [Bool.false_eq_true, if_false]
        refine (List.Perm.cons _ hperm).trans ?_
        rw [List.append_assoc]
        exact (List.perm_middle (l₁ := curDisps curP) (l₂ := pendS) (a := x.2.disp)).symm.trans
          (by simp)
      · simp only [List.length_cons]; omega
      · intro y hy; rcases hmem y hy with hy | rfl; exact h.hidden y hy; exact hs
      · intro y hy; rcases hmem y hy with hy | rfl; exact h.curPts y hy; exact hp
      · intro y hy; rcases hmem y hy with hy | rfl; exact h.curEos y hy; exact he
    · cases hg
  · simp only [halt, if_true, Option.some.injEq, Prod.mk.injEq] at hg
    obtain ⟨rfl, rfl⟩ := hg
    refine ⟨rfl, ⟨⟨pendS, ?_, hst⟩, h.sorted, h.room, ?_, ?_, ?_, h.stDts, h.stEos⟩⟩
    · rw [curDisps_append_hidden, halt]; simpa using hperm
    · intro y hy; rcases hmem y hy with hy | rfl; exact h.hidden y hy; exact hs
    · intro y hy; rcases hmem y hy with hy | rfl; exact h.curPts y hy; exact hp
    · intro y hy; rcases hmem y hy with hy | rfl; exact h.curEos y hy; exact he

/-- the buffer a non-shown frame pushes on the undisplayed stack (after `collect_frames_info`) -/
def pbuf (term : Option Nat) (y : Nat × Frame) : Buf := (collect (mk term y)).buf

theorem pushed_eq (term : Option Nat) (curP : List (Nat × Frame)) :
    (((curP.map (fun y => collect (mk term y))).reverse.filter (fun e => !e.alt)).map (·.buf)).reverse
      = (curP.filter (fun y => !y.2.alt)).map (pbuf term) := by
  induction curP with
  | nil => rfl
  | cons y ys ih =>
    simp only [List.map_cons, List.reverse_cons, List.filter_append, List.map_append, List.reverse_append]
    rw [ih]
    cases h : y.2.alt <;> simp [collect, mk, mkEntry, h, pbuf]

theorem emitTU_snoc (term : Option Nat) (st : Out) (curP : List (Nat × Frame)) (x : Nat × Frame) :
    emitTU st ((curP ++ [x]).map (mk term)) =
      emitCore st (collect (mk term x)) (curP.map (fun y => collect (mk term y))).reverse := by
  unfold emitTU
  simp [List.map_append, List.reverse_append]
  rfl

/-- A shown frame closes the TU: the model posts picture `c` (and picture `c+1` as a show-existing packet when
    the frame has one), exactly as the display process `gopStep` prescribes. -/
theorem emit_shown {term : Option Nat} {ptsOf : Nat → Int} {pend : List Nat} {st : Out}
    {curP : List (Nat × Frame)} {c c' : Nat} {pend' : List Nat} (x : Nat × Frame)
    (hmono : ∀ a b, a ≤ b → ptsOf a ≤ ptsOf b)
    (h : StackRel term ptsOf pend st.stack curP) (hk : PkRel ptsOf c st.pktsRev)
    (hs : x.2.shown = true) (hp : x.2.pts = ptsOf x.2.disp)
    (hg : gopStep (some (c, pend)) x.2 = some (c', pend')) :
    StackRel term ptsOf pend' (emitTU st ((curP ++ [x]).map (mk term))).stack [] ∧
    PkRel ptsOf c' (emitTU st ((curP ++ [x]).map (mk term))).pktsRev ∧
    ∃ newPk, (emitTU st ((curP ++ [x]).map (mk term))).pktsRev = newPk ++ st.pktsRev ∧ newPk ≠ [] ∧
      newPk.map (·.eos) = (term == some x.1) :: List.replicate (newPk.length - 1) false := by
  obtain ⟨pendS, hperm, hst⟩ := h.split
  rw [emitTU_snoc]
  -- the pushes
  have hrevPre_len : (curP.map (fun y => collect (mk term y))).reverse.length = curP.length := by simp
  generalize hpushed : (((curP.map (fun y => collect (mk term y))).reverse.filter (fun e => !e.alt)).map (·.buf)) = pushed
  have hpr : pushed.reverse = (curP.filter (fun y => !y.2.alt)).map (pbuf term) := by
    rw [← hpushed]; exact pushed_eq term curP
  have hpl : pushed.length = (curDisps curP).length := by
    have := congrArg List.length hpr
    simpa [curDisps] using this
  have hpp : pushed.reverse.map (·.pts) = (curDisps curP).map ptsOf := by
    rw [hpr, curDisps, List.map_map, List.map_map]
    apply List.map_congr_left
    intro y hy
    have := h.curPts y (List.mem_filter.1 hy).1
    simpa [pbuf, collect, mk, mkEntry] using this
  have hpmem : ∀ b ∈ pushed, ∃ y ∈ curP, b = pbuf term y := by
    intro b hb
    have : b ∈ pushed.reverse := List.mem_reverse.2 hb
    rw [hpr] at this
    obtain ⟨y, hy, rfl⟩ := List.mem_map.1 this
    exact ⟨y, (List.mem_filter.1 hy).1, rfl⟩
  have hpd : ∀ b ∈ pushed, b.dts = b.pts := by
    intro b hb; obtain ⟨y, _, rfl⟩ := hpmem b hb; rfl
  have hpe : ∀ b ∈ pushed, b.eos = false := by
    intro b hb; obtain ⟨y, hy, rfl⟩ := hpmem b hb
    simpa [pbuf, collect, mk, mkEntry] using h.curEos y hy
  have hlenS : st.stack.length = pendS.length := by simpa using hst.length_eq
  have hlenP : pend.length = (curDisps curP).length + pendS.length := by simpa using hperm.length_eq
  have hroom := h.room
  have hfold : pushed.foldl push st.stack = pushed.reverse ++ st.stack :=
    foldl_push_eq pushed st.stack (by omega)
  -- stack after the optional sort
  generalize hstack2 : (if (curP.map (fun y => collect (mk term y))).reverse.length + 1 > 1
      then sortStack (pushed.foldl push st.stack) else pushed.foldl push st.stack) = stack2
  have h2perm : stack2.Perm (pushed.reverse ++ st.stack) := by
    rw [← hstack2, hfold]; split
    · exact sortStack_perm _
    · exact List.Perm.refl _
  have h2sorted : SortedPts stack2 := by
    rw [← hstack2]; split
    · exact sortStack_sorted _
    · next hlen =>
      have hnil : curP = [] := by
        rw [hrevPre_len] at hlen
        exact List.eq_nil_of_length_eq_zero (by omega)
      subst hnil
      simp only [List.map_nil, List.reverse_nil, List.filter_nil] at hpushed
      subst hpushed
      simpa using h.sorted
  have h2pts : (stack2.map (·.pts)).Perm (pend.map ptsOf) := by
    refine (h2perm.map _).trans ?_
    rw [List.map_append, hpp]
    refine (List.Perm.append_left _ hst).trans ?_
    rw [← List.map_append]
    exact (hperm.map ptsOf).symm
  have h2dts : ∀ b ∈ stack2, b.dts = b.pts := by
    intro b hb
    rcases List.mem_append.1 (h2perm.mem_iff.1 hb) with hb | hb
    · exact hpd b (List.mem_reverse.1 hb)
    · exact h.stDts b hb
  have h2eos : ∀ b ∈ stack2, b.eos = false := by
    intro b hb
    rcases List.mem_append.1 (h2perm.mem_iff.1 hb) with hb | hb
    · exact hpe b (List.mem_reverse.1 hb)
    · exact h.stEos b hb
  -- the display process at a shown frame
  simp only [gopStep, hs, Bool.not_true, Bool.false_eq_true, if_false] at hg
  split at hg
  · cases hg
  next hdisp =>
  have hdisp : x.2.disp = c := by simpa using hdisp
  have hlastpts : (collect (mk term x)).buf.pts = ptsOf c := by
    simpa [collect, mk, mkEntry, hdisp] using hp
  unfold emitCore
  simp only [hpushed, hstack2]
  cases hhse : x.2.hse
  · -- no show-existing
    simp only [hhse, Bool.not_false, if_true, Option.some.injEq, Prod.mk.injEq] at hg
    obtain ⟨rfl, rfl⟩ := hg
    have hl : (collect (mk term x)).hse = false := by simpa [collect, mk, mkEntry] using hhse
    simp only [hl, Bool.false_eq_true, if_false, Bool.and_false]
    refine ⟨⟨⟨pend, by simp [curDisps], h2pts⟩, h2sorted, h.room, by simp, by simp, by simp, h2dts, h2eos⟩,
      ⟨?_, ?_⟩, ⟨[_], rfl, by simp, ?_⟩⟩
    · simp only [List.reverse_cons, List.map_append, hk.pts, List.map_cons, List.map_nil, hlastpts,
        List.range_succ]
    · intro b hb
      rcases List.mem_cons.1 hb with rfl | hb
      · rfl
      · exact hk.dts b hb
    · simp [collect, mk, mkEntry]
  · -- show-existing: pop the smallest pending pts
    simp only [hhse, Bool.not_true, Bool.false_eq_true, if_false] at hg
    split at hg
    swap
    · cases hg
    next hcond =>
    simp only [Option.some.injEq, Prod.mk.injEq] at hg
    obtain ⟨rfl, rfl⟩ := hg
    obtain ⟨hin, hall⟩ := hcond
    have hall : ∀ d ∈ pend, c + 1 ≤ d := by simpa using hall
    have hl : (collect (mk term x)).hse = true := by simpa [collect, mk, mkEntry] using hhse
    simp only [hl, if_true, Bool.and_true]
    cases hs2 : stack2 with
    | nil =>
      exfalso
      rw [hs2] at h2pts
      have := h2pts.length_eq
      simp only [List.map_nil, List.length_nil, List.length_map] at this
      exact absurd (List.eq_nil_of_length_eq_zero this.symm ▸ hin) (by simp)
    | cons b rest =>
      rw [hs2] at h2pts h2sorted h2dts h2eos
      have hsrt := List.pairwise_cons.1 h2sorted
      -- b carries the pts of picture c+1
      have hb1 : ptsOf (c + 1) ≤ b.pts := by
        have : b.pts ∈ pend.map ptsOf := h2pts.mem_iff.1 (by simp)
        obtain ⟨d, hd, hde⟩ := List.mem_map.1 this
        rw [← hde]; exact hmono _ _ (hall d hd)
      have hb2 : b.pts ≤ ptsOf (c + 1) := by
        have : ptsOf (c + 1) ∈ (b :: rest).map (·.pts) := h2pts.mem_iff.2 (List.mem_map.2 ⟨c + 1, hin, rfl⟩)
        obtain ⟨y, hy, hye⟩ := List.mem_map.1 this
        rcases List.mem_cons.1 hy with rfl | hy
        · omega
        · have := hsrt.1 y hy; omega
      have hbpts : b.pts = ptsOf (c + 1) := by omega
      have hrest : (rest.map (·.pts)).Perm ((pend.erase (c + 1)).map ptsOf) := by
        have h1 : (pend.map ptsOf).Perm (ptsOf (c + 1) :: (pend.erase (c + 1)).map ptsOf) :=
          (List.perm_cons_erase hin).map ptsOf
        have h2 := h2pts.trans h1
        rw [List.map_cons, hbpts] at h2
        exact List.Perm.cons_inv h2
      refine ⟨⟨⟨pend.erase (c + 1), by simp [curDisps], hrest⟩, hsrt.2, ?_, by simp, by simp, by simp,
        fun y hy => h2dts y (List.mem_cons_of_mem _ hy), fun y hy => h2eos y (List.mem_cons_of_mem _ hy)⟩,
        ⟨?_, ?_⟩, ⟨[_, _], rfl, by simp, ?_⟩⟩
      · have := List.length_erase_of_mem hin; omega
      · simp only [List.reverse_cons, List.map_append, hk.pts, List.map_cons, List.map_nil, hlastpts,
          hbpts, List.range_succ, List.append_assoc]
      · intro y hy
        rcases List.mem_cons.1 hy with rfl | hy
        · exact h2dts b (by simp)
        rcases List.mem_cons.1 hy with rfl | hy
        · rfl
        · exact hk.dts y hy
      · have hbe : b.eos = false := h2eos b (by simp)
        cases hte : (term == some x.1) <;> simp [collect, mk, mkEntry, hte, hbe]

/-! ## Part A.2 — the whole stream, frames consumed in decode order -/

theorem foldl_gopStep_none (l : List Frame) : l.foldl gopStep none = none := by
  induction l with
  | nil => rfl
  | cons f fs ih => simpa [List.foldl_cons, gopStep] using ih

theorem seqAux_append (st : Out) (cur l1 l2 : List Entry) :
    seqAux st cur (l1 ++ l2) = seqAux (seqAux st cur l1).1 (seqAux st cur l1).2 l2 := by
  induction l1 generalizing st cur with
  | nil => rfl
  | cons e es ih =>
    simp only [List.cons_append, seqAux]
    split
    · exact ih _ _
    · exact ih _ _

/-- All frames but the terminating one: the invariant is preserved and no packet carries EOS. -/
theorem seq_fold {term : Option Nat} {ptsOf : Nat → Int} (hmono : ∀ a b, a ≤ b → ptsOf a ≤ ptsOf b) :
    ∀ (ps : List (Nat × Frame)) (c : Nat) (pend : List Nat) (st : Out) (curP : List (Nat × Frame)),
      StackRel term ptsOf pend st.stack curP → PkRel ptsOf c st.pktsRev → (∀ b ∈ st.pktsRev, b.eos = false) →
      (∀ x ∈ ps, x.2.pts = ptsOf x.2.disp) → (∀ x ∈ ps, (term == some x.1) = false) →
      ∀ (c' : Nat) (pend' : List Nat), (ps.map (·.2)).foldl gopStep (some (c, pend)) = some (c', pend') →
      ∃ st' curP', seqAux st (curP.map (mk term)) (ps.map (mk term)) = (st', curP'.map (mk term)) ∧
        StackRel term ptsOf pend' st'.stack curP' ∧ PkRel ptsOf c' st'.pktsRev ∧
        (∀ b ∈ st'.pktsRev, b.eos = false) := by
  intro ps
  induction ps with
  | nil =>
    intro c pend st curP h hk he _ _ c' pend' hg
    simp only [List.map_nil, List.foldl_nil, Option.some.injEq, Prod.mk.injEq] at hg
    obtain ⟨rfl, rfl⟩ := hg
    exact ⟨st, curP, rfl, h, hk, he⟩
  | cons x rest ih =>
    intro c pend st curP h hk he hpts hterm c' pend' hg
    simp only [List.map_cons, List.foldl_cons] at hg
    have hx := hpts x List.mem_cons_self
    have htx := hterm x List.mem_cons_self
    have hpts' : ∀ y ∈ rest, y.2.pts = ptsOf y.2.disp := fun y hy => hpts y (List.mem_cons_of_mem _ hy)
    have hterm' : ∀ y ∈ rest, (term == some y.1) = false := fun y hy => hterm y (List.mem_cons_of_mem _ hy)
    cases hstep : gopStep (some (c, pend)) x.2 with
    | none => rw [hstep, foldl_gopStep_none] at hg; cases hg
    | some r =>
      obtain ⟨c1, pend1⟩ := r
      rw [hstep] at hg
      simp only [List.map_cons, seqAux]
      have hsh : (mk term x).shown = x.2.shown := rfl
      have hcat : curP.map (mk term) ++ [mk term x] = (curP ++ [x]).map (mk term) := by simp
      cases hs : x.2.shown
      · -- hidden
        obtain ⟨rfl, h1⟩ := stackRel_hidden x h hs hx htx hstep
        simp only [hsh, hs, Bool.false_eq_true, if_false, hcat]
        exact ih c1 pend1 st (curP ++ [x]) h1 hk he hpts' hterm' c' pend' hg
      · obtain ⟨h1, hk1, newPk, hnew, _, hneos⟩ := emit_shown x hmono h hk hs hx hstep
        simp only [hsh, hs, if_true, hcat]
        have he1 : ∀ b ∈ (emitTU st ((curP ++ [x]).map (mk term))).pktsRev, b.eos = false := by
          intro b hb
          rw [hnew] at hb
          rcases List.mem_append.1 hb with hb | hb
          · have : b.eos ∈ newPk.map (·.eos) := List.mem_map.2 ⟨b, hb, rfl⟩
            rw [hneos, htx] at this
            rcases List.mem_cons.1 this with h0 | h0
            · exact h0
            · exact (List.mem_replicate.1 h0).2
          · exact he b hb
        have := ih c1 pend1 (emitTU st ((curP ++ [x]).map (mk term))) [] h1 hk1 he1 hpts' hterm' c' pend' hg
        simpa using this

theorem lastShown_getLast (fs : List Frame) (hne : fs ≠ []) : lastShown fs = (fs.getLast hne).shown := by
  induction fs with
  | nil => exact absurd rfl hne
  | cons f rest ih =>
    cases rest with
    | nil => rfl
    | cons g gs =>
      have := ih (by simp)
      simpa [lastShown, List.getLast_cons] using this

theorem indexed_append_singleton (init : List Frame) (last : Frame) :
    indexed (init ++ [last]) = indexed init ++ [(init.length, last)] := by
  unfold indexed
  rw [List.length_append, List.length_singleton, List.range_succ, List.zip_append (by simp)]
  rfl

theorem indexed_fst_lt (fs : List Frame) : ∀ x ∈ indexed fs, x.1 < fs.length := by
  intro x hx
  have := (List.of_mem_zip hx).1
  exact List.mem_range.1 this

theorem indexed_snd_mem (fs : List Frame) : ∀ x ∈ indexed fs, x.2 ∈ fs := by
  intro x hx
  exact (List.of_mem_zip hx).2

theorem indexed_map_snd (fs : List Frame) : (indexed fs).map (·.2) = fs := by
  unfold indexed
  rw [← List.unzip_snd, List.unzip_zip (by simp)]

/-- what `seq_spec` delivers -/
structure SeqResult (ptsOf : Nat → Int) (N : Nat) (o : Out × List Entry) : Prop where
  leftover : o.2 = []
  stack    : o.1.stack = []
  length   : o.1.pktsRev.length = N
  pts      : o.1.pktsRev.reverse.map (·.pts) = (List.range N).map ptsOf
  dts      : ∀ b ∈ o.1.pktsRev, b.dts = b.pts
  eos      : ∃ lastP rest, o.1.pktsRev = lastP :: rest ∧ lastP.eos = true ∧ ∀ b ∈ rest, b.eos = false

/-- **Sequential packetization.**  For every decode-order frame list accepted by `validGop fs N` (N ≥ 1 follows
    from `fs ≠ []`), with monotone pts and `terminating_picture_number` = last decode order, the model posts
    exactly `N` packets whose pts are those of pictures `0 … N−1` in order, `dts = pts`, EOS on the last packet
    only, and nothing is left on the undisplayed stack or in a partial TU. -/
theorem seq_spec (term : Option Nat) (ptsOf : Nat → Int) (fs : List Frame) (N : Nat)
    (hmono : ∀ a b, a ≤ b → ptsOf a ≤ ptsOf b) (hne : fs ≠ [])
    (hvalid : validGop fs N = true) (hpts : ∀ f ∈ fs, f.pts = ptsOf f.disp)
    (hterm : term = some (fs.length - 1)) :
    SeqResult ptsOf N (seqAux { stack := [], pktsRev := [] } [] (entriesOf term fs)) := by
  simp only [validGop, Bool.and_eq_true, beq_iff_eq] at hvalid
  obtain ⟨hlast, hfold⟩ := hvalid
  rw [lastShown_getLast fs hne] at hlast
  obtain ⟨init, last, rfl⟩ : ∃ init last, fs = init ++ [last] :=
    ⟨fs.dropLast, fs.getLast hne, (List.dropLast_concat_getLast hne).symm⟩
  simp only [List.getLast_concat] at hlast
  have hlen : (init ++ [last]).length - 1 = init.length := by simp
  rw [hlen] at hterm
  rw [List.foldl_append, List.foldl_cons, List.foldl_nil] at hfold
  cases hinit : init.foldl gopStep (some (0, [])) with
  | none => rw [hinit] at hfold; simp [gopStep] at hfold
  | some r =>
    obtain ⟨c, pend⟩ := r
    rw [hinit] at hfold
    have h0 : StackRel term ptsOf [] ([] : List Buf) [] :=
      ⟨⟨[], by simp [curDisps], by simp⟩, List.Pairwise.nil, by simp, by simp, by simp, by simp, by simp, by simp⟩
    have hk0 : PkRel ptsOf 0 ([] : List Buf) := ⟨by simp, by simp⟩
    have hptsI : ∀ x ∈ indexed init, x.2.pts = ptsOf x.2.disp := fun x hx =>
      hpts x.2 (List.mem_append_left _ (indexed_snd_mem init x hx))
    have htermI : ∀ x ∈ indexed init, (term == some x.1) = false := by
      intro x hx
      have := indexed_fst_lt init x hx
      rw [hterm]; simp; omega
    obtain ⟨st', curP', hseq, h1, hk1, he1⟩ :=
      seq_fold hmono (indexed init) 0 [] { stack := [], pktsRev := [] } [] h0 hk0 (by simp) hptsI htermI c pend
        (by rw [indexed_map_snd]; exact hinit)
    have hx : (init.length, last).2.pts = ptsOf (init.length, last).2.disp := hpts last (by simp)
    obtain ⟨h2, hk2, newPk, hnew, hnn, hneos⟩ := emit_shown (init.length, last) hmono h1 hk1 hlast hx hfold
    have hrun : seqAux { stack := [], pktsRev := [] } [] (entriesOf term (init ++ [last])) =
        (emitTU st' ((curP' ++ [(init.length, last)]).map (mk term)), []) := by
      unfold entriesOf
      rw [indexed_append_singleton, List.map_append, seqAux_append]
      have : seqAux { stack := [], pktsRev := [] } [] ((indexed init).map (fun x => mkEntry term x.1 x.2)) =
          (st', curP'.map (mk term)) := by simpa using hseq
      rw [this]
      simp only [List.map_cons, List.map_nil, seqAux]
      have hsh : (mkEntry term init.length last).shown = true := hlast
      simp [hsh, mk]
    rw [hrun]
    obtain ⟨pendS, hp1, hp2⟩ := h2.split
    have hstack : (emitTU st' ((curP' ++ [(init.length, last)]).map (mk term))).stack = [] := by
      have : pendS = [] := by
        have := hp1.length_eq; simp [curDisps] at this
        exact List.eq_nil_of_length_eq_zero this.symm
      subst this
      have := hp2.length_eq
      simp only [List.map_nil, List.length_nil, List.length_map] at this
      exact List.eq_nil_of_length_eq_zero this
    refine ⟨rfl, hstack, ?_, hk2.pts, hk2.dts, ?_⟩
    · have := congrArg List.length hk2.pts; simpa using this
    · rw [hnew]
      cases newPk with
      | nil => exact absurd rfl hnn
      | cons p tl =>
        simp only [List.map_cons, List.length_cons, Nat.add_sub_cancel, List.cons.injEq] at hneos
        refine ⟨p, tl ++ st'.pktsRev, rfl, ?_, ?_⟩
        · rw [hneos.1, hterm]; simp
        · intro b hb
          rcases List.mem_append.1 hb with hb | hb
          · have : b.eos ∈ tl.map (·.eos) := List.mem_map.2 ⟨b, hb, rfl⟩
            rw [hneos.2] at this
            exact (List.mem_replicate.1 this).2
          · exact he1 b hb

/-! ## Part B — the circular queue with TU-granular release -/

theorem slotAt_set {l : List (Option Entry)} {i j : Nat} {v : Option Entry} (hi : i < l.length) :
    slotAt (l.set i v) j = if i = j then v else slotAt l j := by
  unfold slotAt
  rw [List.getElem?_set]
  by_cases hij : i = j
  · subst hij; simp [hi]
  · simp [hij]

theorem slotAt_set_none {l : List (Option Entry)} {i j : Nat} :
    slotAt (l.set i none) j = if i = j then none else slotAt l j := by
  unfold slotAt
  rw [List.getElem?_set]
  by_cases hij : i = j
  · subst hij; split <;> simp_all
  · simp [hij]

theorem slotAt_replicate (D i : Nat) : slotAt (List.replicate D none) i = none := by
  unfold slotAt
  rw [List.getElem?_replicate]
  split <;> simp_all

/-- entry `p` is a non-shown frame -/
def HiddenAt (es : List Entry) (p : Nat) : Prop := ∃ e, es[p]? = some e ∧ e.shown = false

/-- `InvP D es seen h q`: `es` = entries in decode order, `seen` = decode orders that have arrived, `h` = ghost
    head (a TU boundary): frames `< h` have been released and turned into packets exactly as the sequential
    reference does; slot `i` holds entry `p` iff `p` arrived, `p ≥ h`, `p % D = i`. -/
structure InvP (D : Nat) (es : List Entry) (seen : List Nat) (h : Nat) (q : Q) : Prop where
  len    : q.slots.length = D
  head   : q.headIdx = h % D
  clob   : q.clobbered = false
  hle    : h ≤ es.length
  out    : seqAux { stack := [], pktsRev := [] } [] (es.take h) = (q.out, [])
  below  : ∀ k, k < h → k ∈ seen
  window : ∀ a, a ∈ seen → a < h + D
  bound  : ∀ a, a ∈ seen → a < es.length
  slot   : ∀ i e, i < D → (slotAt q.slots i = some e ↔ ∃ p, p ∈ seen ∧ h ≤ p ∧ p % D = i ∧ es[p]? = some e)

theorem invP_init (D : Nat) (es : List Entry) : InvP D es [] 0 (init D) where
  len := by simp [init]
  head := by simp [init]
  clob := rfl
  hle := Nat.zero_le _
  out := by simp [init, seqAux]
  below := by intro k hk; omega
  window := by intro a ha; simp at ha
  bound := by intro a ha; simp at ha
  slot := by intro i e _; simp [init, slotAt_replicate]

theorem invP_insert {D : Nat} {es : List Entry} {seen : List Nat} {h : Nat} {q : Q} (hD : 0 < D)
    (inv : InvP D es seen h q) {a : Nat} {e : Entry} (hnew : a ∉ seen) (hwin : a < h + D)
    (hea : es[a]? = some e) : InvP D es (a :: seen) h (insert D q a e) := by
  have hge : h ≤ a := by
    by_contra hlt
    exact hnew (inv.below a (by omega))
  have hai : a % D < D := Nat.mod_lt _ hD
  have halen : a < es.length := by
    rcases Nat.lt_or_ge a es.length with hlt | hge'
    · exact hlt
    · rw [List.getElem?_eq_none hge'] at hea; cases hea
  have hempty : slotAt q.slots (a % D) = none := by
    cases hs : slotAt q.slots (a % D) with
    | none => rfl
    | some e' =>
      obtain ⟨p, hp, hp0, hpm, _⟩ := (inv.slot (a % D) e' hai).1 hs
      have := Reorder.eq_of_mod_eq_of_window hp0 (inv.window p hp) hge hwin hpm
      subst this; exact absurd hp hnew
  refine ⟨?_, inv.head, ?_, inv.hle, inv.out, ?_, ?_, ?_, ?_⟩
  · simp [insert, inv.len]
  · simp [insert, inv.clob, hempty]
  · intro k hk; exact List.mem_cons_of_mem _ (inv.below k hk)
  · intro b hb
    rcases List.mem_cons.1 hb with rfl | hb
    · exact hwin
    · exact inv.window b hb
  · intro b hb
    rcases List.mem_cons.1 hb with rfl | hb
    · exact halen
    · exact inv.bound b hb
  · intro i e' hi
    show slotAt (q.slots.set (a % D) (some e)) i = some e' ↔ _
    rw [slotAt_set (by rw [inv.len]; exact hai)]
    by_cases hij : a % D = i
    · simp only [hij, if_true, Option.some.injEq]
      constructor
      · rintro rfl; exact ⟨a, List.mem_cons_self, hge, hij, hea⟩
      · rintro ⟨p, hp, hp0, hpm, hpe⟩
        rcases List.mem_cons.1 hp with rfl | hp
        · rw [hea] at hpe; exact Option.some.inj hpe
        · have := Reorder.eq_of_mod_eq_of_window hge hwin hp0 (inv.window p hp) (hij.trans hpm.symm)
          subst this; exact absurd hp hnew
    · simp only [hij, if_false]
      rw [inv.slot i e' hi]
      constructor
      · rintro ⟨p, hp, hp0, hpm, hpe⟩; exact ⟨p, List.mem_cons_of_mem _ hp, hp0, hpm, hpe⟩
      · rintro ⟨p, hp, hp0, hpm, hpe⟩
        rcases List.mem_cons.1 hp with rfl | hp
        · exact absurd hpm hij
        · exact ⟨p, hp, hp0, hpm, hpe⟩

theorem add_mod_head (D h i : Nat) : (h % D + i) % D = (h + i) % D := by
  rw [Nat.add_mod h i D, Nat.add_mod (h % D) i D, Nat.mod_mod]

/-- what `get_reorder_queue_entry(ctx, i)` finds, `i < D` -/
theorem slot_lookup {D : Nat} {es : List Entry} {seen : List Nat} {h : Nat} {q : Q} (hD : 0 < D)
    (inv : InvP D es seen h q) {i : Nat} (hi : i < D) :
    slotAt q.slots ((q.headIdx + i) % D) = if h + i ∈ seen then es[h + i]? else none := by
  rw [inv.head, add_mod_head]
  have hlt : (h + i) % D < D := Nat.mod_lt _ hD
  split
  · next hmem =>
    have hb := inv.bound _ hmem
    have he : es[h + i]? = some es[h + i] := List.getElem?_eq_getElem hb
    rw [he]
    exact (inv.slot _ _ hlt).2 ⟨h + i, hmem, by omega, rfl, he⟩
  · next hmem =>
    cases hs : slotAt q.slots ((h + i) % D) with
    | none => rfl
    | some e =>
      obtain ⟨p, hp, hp0, hpm, _⟩ := (inv.slot _ e hlt).1 hs
      have := Reorder.eq_of_mod_eq_of_window hp0 (inv.window p hp) (show h ≤ h + i by omega) (by omega) hpm
      subst this; exact absurd hp hmem

/-- result of `count_frames_in_next_tu` -/
theorem count_spec {D : Nat} {es : List Entry} {seen : List Nat} {h : Nat} {q : Q} (hD : 0 < D)
    (inv : InvP D es seen h q) :
    ∀ (fuel i : Nat), i + fuel = D → (∀ j, j < i → h + j ∈ seen ∧ HiddenAt es (h + j)) →
      let n := countFrames D q.slots q.headIdx fuel i
      (n = 0 ∧ ∃ k, k < D ∧ h + k ∉ seen ∧ ∀ j, j < k → h + j ∈ seen ∧ HiddenAt es (h + j)) ∨
      (0 < n ∧ n ≤ D ∧ (∀ j, j < n → h + j ∈ seen) ∧ (∀ j, j + 1 < n → HiddenAt es (h + j)) ∧
         ∃ e, es[h + (n - 1)]? = some e ∧ e.shown = true) ∨
      (∀ j, j < D → h + j ∈ seen ∧ HiddenAt es (h + j)) := by
  intro fuel
  induction fuel with
  | zero =>
    intro i hi hprev
    have : i = D := by omega
    subst this
    exact Or.inr (Or.inr hprev)
  | succ f ih =>
    intro i hi hprev
    have hiD : i < D := by omega
    simp only [countFrames]
    rw [slot_lookup hD inv hiD]
    by_cases hmem : h + i ∈ seen
    · have hb := inv.bound _ hmem
      have he : es[h + i]? = some es[h + i] := List.getElem?_eq_getElem hb
      simp only [hmem, if_true, he]
      cases hsh : (es[h + i]).shown
      · simp only [Bool.false_eq_true, if_false]
        apply ih (i + 1) (by omega)
        intro j hj
        rcases Nat.lt_succ_iff_lt_or_eq.1 hj with hj | rfl
        · exact hprev j hj
        · exact ⟨hmem, _, he, hsh⟩
      · simp only [if_true]
        refine Or.inr (Or.inl ⟨by omega, by omega, ?_, ?_, ?_⟩)
        · intro j hj
          rcases Nat.lt_succ_iff_lt_or_eq.1 hj with hj | rfl
          · exact (hprev j hj).1
          · exact hmem
        · intro j hj; exact (hprev j (by omega)).2
        · exact ⟨es[h + i], by rw [Nat.add_sub_cancel]; exact he, hsh⟩
    · rw [if_neg hmem]
      exact Or.inl ⟨rfl, i, hiD, hmem, hprev⟩

theorem takeTU_eq {D : Nat} {es : List Entry} {seen : List Nat} {h : Nat} {q : Q} (hD : 0 < D)
    (inv : InvP D es seen h q) : ∀ n, n ≤ D → (∀ j, j < n → h + j ∈ seen) →
      takeTU D q.slots q.headIdx n = (es.drop h).take n := by
  intro n
  induction n with
  | zero => intro _ _; simp [takeTU]
  | succ n ih =>
    intro hn hall
    have ih' := ih (by omega) (fun j hj => hall j (by omega))
    unfold takeTU at ih' ⊢
    rw [List.range_succ, List.filterMap_append, ih', List.take_add_one, List.getElem?_drop]
    congr 1
    simp only [List.filterMap_cons, List.filterMap_nil]
    rw [slot_lookup hD inv (show n < D by omega)]
    have hmem := hall n (by omega)
    have hb := inv.bound _ hmem
    simp [hmem, List.getElem?_eq_getElem hb]

theorem releaseSlots_len (D : Nat) (slots : List (Option Entry)) (hIdx n : Nat) :
    (releaseSlots D slots hIdx n).length = slots.length := by
  unfold releaseSlots
  induction n with
  | zero => simp
  | succ n ih => rw [List.range_succ, List.foldl_append]; simpa using ih

theorem releaseSlots_at (D : Nat) (slots : List (Option Entry)) (hIdx n i : Nat) :
    slotAt (releaseSlots D slots hIdx n) i =
      if ∃ j, j < n ∧ (hIdx + j) % D = i then none else slotAt slots i := by
  unfold releaseSlots
  induction n with
  | zero => simp
  | succ n ih =>
    rw [List.range_succ, List.foldl_append]
    simp only [List.foldl_cons, List.foldl_nil]
    rw [slotAt_set_none, ih]
    by_cases hl : (hIdx + n) % D = i
    · have : ∃ j, j < n + 1 ∧ (hIdx + j) % D = i := ⟨n, by omega, hl⟩
      simp [hl, this]
    · simp only [hl, if_false]
      by_cases hex : ∃ j, j < n ∧ (hIdx + j) % D = i
      · obtain ⟨j, hj, hje⟩ := hex
        have h1 : ∃ j, j < n ∧ (hIdx + j) % D = i := ⟨j, hj, hje⟩
        have h2 : ∃ j, j < n + 1 ∧ (hIdx + j) % D = i := ⟨j, by omega, hje⟩
        simp [h1, h2]
      · have h2 : ¬ ∃ j, j < n + 1 ∧ (hIdx + j) % D = i := by
          rintro ⟨j, hj, hje⟩
          rcases Nat.lt_succ_iff_lt_or_eq.1 hj with hj | rfl
          · exact hex ⟨j, hj, hje⟩
          · exact hl hje
        simp [hex, h2]

/-- a complete TU fed to the sequential reference -/
theorem seqAux_tu (st : Out) : ∀ (tu cur : List Entry), tu ≠ [] →
    (∀ j, j + 1 < tu.length → ∃ e, tu[j]? = some e ∧ e.shown = false) →
    (∃ e, tu[tu.length - 1]? = some e ∧ e.shown = true) →
    seqAux st cur tu = (emitTU st (cur ++ tu), []) := by
  intro tu
  induction tu with
  | nil => intro cur hne; exact absurd rfl hne
  | cons e rest ih =>
    intro cur _ hhid hlast
    cases rest with
    | nil =>
      obtain ⟨e', he', hs⟩ := hlast
      simp only [List.length_singleton, Nat.sub_self, List.getElem?_cons_zero, Option.some.injEq] at he'
      subst he'
      simp [seqAux, hs]
    | cons g gs =>
      obtain ⟨e', he', hs⟩ := hhid 0 (by simp)
      simp only [List.getElem?_cons_zero, Option.some.injEq] at he'
      subst he'
      rw [seqAux, if_neg (by simp [hs])]
      rw [ih (cur ++ [e]) (by simp)]
      · simp
      · intro j hj
        have := hhid (j + 1) (by simp only [List.length_cons] at hj ⊢; omega)
        simpa using this
      · obtain ⟨e', he', hs'⟩ := hlast
        refine ⟨e', ?_, hs'⟩
        simpa using he'

/-- no more than `T` consecutive non-shown entries -/
def RunsLe (T : Nat) (es : List Entry) : Prop :=
  ∀ a b, a ≤ b → (∀ j, a ≤ j → j < b → HiddenAt es j) → b - a ≤ T

/-- the head TU is incomplete: frames `h … h+k−1` arrived and are non-shown, frame `h+k` has not arrived -/
def Stuck (D : Nat) (es : List Entry) (seen : List Nat) (h : Nat) : Prop :=
  ∃ k, k < D ∧ h + k ∉ seen ∧ ∀ j, j < k → h + j ∈ seen ∧ HiddenAt es (h + j)

/-- one iteration of the `while ((frames = count_frames_in_next_tu()))` loop -/
theorem invP_release {D T : Nat} {es : List Entry} {seen : List Nat} {h : Nat} {q : Q} (hD : 0 < D)
    (hT : T < D) (hrun : RunsLe T es) (inv : InvP D es seen h q) :
    (countFrames D q.slots q.headIdx D 0 = 0 ∧ Stuck D es seen h) ∨
    (0 < countFrames D q.slots q.headIdx D 0 ∧
      InvP D es seen (h + countFrames D q.slots q.headIdx D 0)
        { q with slots := releaseSlots D q.slots q.headIdx (countFrames D q.slots q.headIdx D 0),
                 headIdx := (q.headIdx + countFrames D q.slots q.headIdx D 0) % D,
                 out := emitTU q.out (takeTU D q.slots q.headIdx (countFrames D q.slots q.headIdx D 0)) }) := by
  have hc := count_spec hD inv D 0 (by omega) (by intro j hj; omega)
  simp only at hc
  generalize countFrames D q.slots q.headIdx D 0 = n at hc ⊢
  rcases hc with ⟨hn, hst⟩ | ⟨hn0, hnD, hall, hhid, hlast⟩ | hfull
  · exact Or.inl ⟨hn, hst⟩
  · right
    refine ⟨hn0, ?_⟩
    obtain ⟨eL, heL, hsL⟩ := hlast
    have hlen : h + n ≤ es.length := by
      rcases Nat.lt_or_ge (h + (n - 1)) es.length with hlt | hge
      · omega
      · rw [List.getElem?_eq_none hge] at heL; cases heL
    have htu := takeTU_eq hD inv n hnD hall
    have htulen : ((es.drop h).take n).length = n := by
      rw [List.length_take, List.length_drop]; omega
    have htuget : ∀ j, j < n → ((es.drop h).take n)[j]? = es[h + j]? := by
      intro j hj; rw [List.getElem?_take, if_pos hj, List.getElem?_drop]
    refine ⟨?_, ?_, inv.clob, hlen, ?_, ?_, ?_, inv.bound, ?_⟩
    · show (releaseSlots D q.slots q.headIdx n).length = D
      rw [releaseSlots_len, inv.len]
    · show (q.headIdx + n) % D = (h + n) % D
      rw [inv.head, add_mod_head]
    · show seqAux _ [] (es.take (h + n)) = (emitTU q.out (takeTU D q.slots q.headIdx n), [])
      rw [List.take_add, seqAux_append, inv.out, htu]
      have := seqAux_tu q.out ((es.drop h).take n) []
        (by intro hnil; rw [hnil] at htulen; simp at htulen; omega)
        (by
          intro j hj
          rw [htulen] at hj
          rw [htuget j (by omega)]
          exact hhid j hj)
        (by rw [htulen, htuget (n - 1) (by omega)]; exact ⟨eL, heL, hsL⟩)
      simpa using this
    · intro k hk
      rcases Nat.lt_or_ge k h with hlt | hge
      · exact inv.below k hlt
      · have := hall (k - h) (by omega)
        rwa [show h + (k - h) = k by omega] at this
    · intro a ha; have := inv.window a ha; omega
    · intro i e hi
      show slotAt (releaseSlots D q.slots q.headIdx n) i = some e ↔ _
      rw [releaseSlots_at, inv.head]
      by_cases hex : ∃ j, j < n ∧ (h % D + j) % D = i
      · simp only [hex, if_true]
        obtain ⟨j, hj, hje⟩ := hex
        rw [add_mod_head] at hje
        constructor
        · intro hc; cases hc
        · rintro ⟨p, hp, hp0, hpm, _⟩
          have := Reorder.eq_of_mod_eq_of_window (h := h) (by omega) (inv.window p hp)
            (show h ≤ h + j by omega) (by omega) (hpm.trans hje.symm)
          omega
      · simp only [hex, if_false]
        rw [inv.slot i e hi]
        constructor
        · rintro ⟨p, hp, hp0, hpm, hpe⟩
          refine ⟨p, hp, ?_, hpm, hpe⟩
          by_contra hlt
          exact hex ⟨p - h, by omega, by rw [add_mod_head, show h + (p - h) = p by omega]; exact hpm⟩
        · rintro ⟨p, hp, hp0, hpm, hpe⟩
          exact ⟨p, hp, by omega, hpm, hpe⟩
  · exfalso
    have := hrun h (h + D) (by omega) (by
      intro j hj1 hj2
      have := (hfull (j - h) (by omega)).2
      rwa [show h + (j - h) = j by omega] at this)
    omega

/-- the whole `while` loop with `fuel` iterations -/
theorem invP_drain {D T : Nat} {es : List Entry} {seen : List Nat} (hD : 0 < D) (hT : T < D)
    (hrun : RunsLe T es) :
    ∀ (fuel : Nat) {h : Nat} {q : Q}, InvP D es seen h q →
      ∃ h', h ≤ h' ∧ InvP D es seen h' (drain D fuel q) ∧ (Stuck D es seen h' ∨ h + fuel ≤ h') := by
  intro fuel
  induction fuel with
  | zero => intro h q inv; exact ⟨h, Nat.le_refl _, inv, Or.inr (Nat.le_refl _)⟩
  | succ f ih =>
    intro h q inv
    rcases invP_release hD hT hrun inv with ⟨hn, hst⟩ | ⟨hn, inv'⟩
    · refine ⟨h, Nat.le_refl _, ?_, Or.inl hst⟩
      simp only [drain, hn, if_true]; exact inv
    · obtain ⟨h', hle, inv'', hor⟩ := ih inv'
      refine ⟨h', by omega, ?_, ?_⟩
      · simp only [drain]
        rw [if_neg (by omega)]
        exact inv''
      · rcases hor with hs | hge
        · exact Or.inl hs
        · exact Or.inr (by omega)

theorem invP_step {D T : Nat} {es : List Entry} {seen : List Nat} {h : Nat} {q : Q} (hD : 0 < D)
    (hT : T < D) (hrun : RunsLe T es) (inv : InvP D es seen h q) {a : Nat} {e : Entry}
    (hnew : a ∉ seen) (hwin : a < h + D) (hea : es[a]? = some e) :
    ∃ h', InvP D es (a :: seen) h' (stepE D q (a, e)) ∧ Stuck D es (a :: seen) h' := by
  have inv1 := invP_insert hD inv hnew hwin hea
  obtain ⟨h', hle, inv2, hor⟩ := invP_drain hD hT hrun D inv1
  refine ⟨h', inv2, ?_⟩
  rcases hor with hs | hge
  · exact hs
  · refine ⟨0, hD, ?_, by intro j hj; omega⟩
    intro hmem
    have := inv1.window h' hmem
    omega

theorem run_loopP {D T : Nat} {es : List Entry} (hD : 0 < D) (hT : T < D) (hrun : RunsLe T es) :
    ∀ (rest : List (Nat × Entry)) (seen : List Nat) (h : Nat) (q : Q), InvP D es seen h q →
      Stuck D es seen h → (rest.map (·.1)).Nodup → (∀ x, x ∈ rest → x.1 ∉ seen) →
      (∀ x, x ∈ rest → es[x.1]? = some x.2) →
      Reorder.windowedFrom (D - T) seen (rest.map (·.1)) = true →
      ∃ h', InvP D es ((rest.map (·.1)).reverse ++ seen) h' (rest.foldl (stepE D) q) ∧
        Stuck D es ((rest.map (·.1)).reverse ++ seen) h' := by
  intro rest
  induction rest with
  | nil => intro seen h q inv hs _ _ _ _; exact ⟨h, by simpa using inv, by simpa using hs⟩
  | cons x rest ih =>
    intro seen h q inv hs hnd hdisj hes hw
    simp only [List.map_cons] at hnd hw
    obtain ⟨hwa, hwr⟩ := Reorder.windowedFrom_cons.1 hw
    have hnew : x.1 ∉ seen := hdisj x List.mem_cons_self
    obtain ⟨k, hkD, hknot, hkall⟩ := hs
    have hwin : x.1 < h + D := by
      have hbelow : ∀ j, j < h + k → j ∈ seen := by
        intro j hj
        rcases Nat.lt_or_ge j h with hlt | hge
        · exact inv.below j hlt
        · have := (hkall (j - h) (by omega)).1
          rwa [show h + (j - h) = j by omega] at this
      have h1 := (Reorder.windowed_head_iff hbelow hknot).1 hwa
      have h2 := hrun h (h + k) (by omega) (by
        intro j hj1 hj2
        have := (hkall (j - h) (by omega)).2
        rwa [show h + (j - h) = j by omega] at this)
      omega
    obtain ⟨h1, inv1, hs1⟩ := invP_step hD hT hrun inv hnew hwin (hes x List.mem_cons_self)
    have hnd' := List.nodup_cons.1 hnd
    obtain ⟨h', inv', hs'⟩ := ih (x.1 :: seen) h1 (stepE D q x) inv1 hs1 hnd'.2
      (by
        intro y hy hmem
        rcases List.mem_cons.1 hmem with heq | hmem
        · exact hnd'.1 (heq ▸ List.mem_map.2 ⟨y, hy, rfl⟩)
        · exact hdisj y (List.mem_cons_of_mem _ hy) hmem)
      (fun y hy => hes y (List.mem_cons_of_mem _ hy))
      hwr
    refine ⟨h', ?_, ?_⟩
    · simpa [List.foldl_cons, List.reverse_cons, List.append_assoc] using inv'
    · simpa [List.reverse_cons, List.append_assoc] using hs'

/-- **Queue layer.**  For every arrival order of the entries `es` (each decode order exactly once) that never
    runs `D − T` or more ahead of the oldest missing decode order, where no more than `T < D` consecutive
    entries are non-shown and the last entry is shown: the queue never overwrites an occupied slot, ends
    empty-headed at `es.length`, and its undisplayed stack and packets are exactly those of the sequential
    reference (frames consumed in decode order). -/
theorem runE_eq_seq {D T : Nat} {es : List Entry} (hD : 0 < D) (hT : T < D) (hrun : RunsLe T es)
    (hlast : ∀ hne : es ≠ [], (es.getLast hne).shown = true)
    (arr : List (Nat × Entry)) (hperm : (arr.map (·.1)).Perm (List.range es.length))
    (hes : ∀ x, x ∈ arr → es[x.1]? = some x.2)
    (hwin : Reorder.Windowed (D - T) (arr.map (·.1))) :
    seqAux { stack := [], pktsRev := [] } [] es = ((runE D arr).out, []) ∧ (runE D arr).clobbered = false := by
  have hnd : (arr.map (·.1)).Nodup := (List.Perm.nodup_iff hperm).2 List.nodup_range
  have hs0 : Stuck D es [] 0 := ⟨0, hD, by simp, by intro j hj; omega⟩
  obtain ⟨h', inv, hst⟩ := run_loopP hD hT hrun arr [] 0 (init D) (invP_init D es) hs0 hnd (by simp) hes hwin
  simp only [List.append_nil] at inv hst
  have hmem : ∀ k, k ∈ (arr.map (·.1)).reverse ↔ k < es.length := by
    intro k; rw [List.mem_reverse, hperm.mem_iff, List.mem_range]
  have hh : h' = es.length := by
    by_contra hne
    have hlt : h' < es.length := by have := inv.hle; omega
    obtain ⟨k, _, hknot, hkall⟩ := hst
    have hk1 : es.length ≤ h' + k := by
      by_contra hc; exact hknot ((hmem _).2 (by omega))
    have hne' : es ≠ [] := by intro h0; rw [h0] at hlt; simp at hlt
    obtain ⟨e, he, hsh⟩ := (hkall (es.length - 1 - h') (by omega)).2
    rw [show h' + (es.length - 1 - h') = es.length - 1 by omega] at he
    have hl := hlast hne'
    rw [List.getLast_eq_getElem] at hl
    rw [List.getElem?_eq_getElem (by omega)] at he
    have : es[es.length - 1] = e := Option.some.inj he
    rw [this, hsh] at hl
    cases hl
  constructor
  · have := inv.out
    rw [hh, List.take_length] at this
    exact this
  · exact inv.clob

/-! ## Part C — from frames to entries, and the combined statement -/

theorem entriesOf_get (term : Option Nat) (fs : List Frame) (j : Nat) :
    (entriesOf term fs)[j]? = (fs[j]?).map (fun f => mkEntry term j f) := by
  unfold entriesOf indexed
  by_cases hj : j < fs.length
  · simp [hj]
  · simp [hj]

theorem entriesOf_length (term : Option Nat) (fs : List Frame) : (entriesOf term fs).length = fs.length := by
  simp [entriesOf, indexed]

theorem hiddenRuns_spec (T : Nat) : ∀ (fs : List Frame) (cur : Nat), hiddenRunsLe T cur fs = true →
    ∀ a b, a ≤ b → (∀ j, a ≤ j → j < b → (fs[j]?).map (·.shown) = some false) →
      b - a ≤ T ∧ (a = 0 → 0 < b → cur + b ≤ T) := by
  intro fs
  induction fs with
  | nil =>
    intro cur _ a b hab hall
    have : b ≤ a := by
      by_contra hc
      have := hall a (Nat.le_refl _) (by omega)
      simp at this
    exact ⟨by omega, by intro h0 hb; omega⟩
  | cons f rest ih =>
    intro cur hr a b hab hall
    have shift : ∀ a' b', a' + 1 = a ∨ (a = 0 ∧ a' = 0 ∧ 0 < b) → b' + 1 = b →
        ∀ j, a' ≤ j → j < b' → (rest[j]?).map (·.shown) = some false := by
      intro a' b' ha hb j hj1 hj2
      have := hall (j + 1) (by omega) (by omega)
      simpa using this
    unfold hiddenRunsLe at hr
    cases hsh : f.shown
    · -- hidden first frame
      simp only [hsh, Bool.false_eq_true, if_false, Bool.and_eq_true, decide_eq_true_eq] at hr
      obtain ⟨hc, hr⟩ := hr
      rcases Nat.eq_zero_or_pos a with ha | ha
      · subst ha
        rcases Nat.eq_zero_or_pos b with hb | hb
        · subst hb; exact ⟨by omega, by intro _ h; omega⟩
        · have := ih (cur + 1) hr 0 (b - 1) (Nat.zero_le _) (shift 0 (b - 1) (Or.inr ⟨rfl, rfl, hb⟩) (by omega))
          rcases Nat.eq_zero_or_pos (b - 1) with hb1 | hb1
          · have : b = 1 := by omega
            subst this; exact ⟨by omega, by intro _ _; omega⟩
          · have h2 := this.2 rfl hb1
            exact ⟨by omega, by intro _ _; omega⟩
      · rcases Nat.eq_zero_or_pos b with hb | hb
        · exact ⟨by omega, by intro h0; omega⟩
        · have := ih (cur + 1) hr (a - 1) (b - 1) (by omega) (shift (a - 1) (b - 1) (Or.inl (by omega)) (by omega))
          exact ⟨by omega, by intro h0; omega⟩
    · simp only [hsh, if_true] at hr
      rcases Nat.eq_zero_or_pos a with ha | ha
      · subst ha
        rcases Nat.eq_zero_or_pos b with hb | hb
        · subst hb; exact ⟨by omega, by intro _ h; omega⟩
        · have := hall 0 (Nat.le_refl _) hb
          simp [hsh] at this
      · rcases Nat.eq_zero_or_pos b with hb | hb
        · exact ⟨by omega, by intro h0; omega⟩
        · have := ih 0 hr (a - 1) (b - 1) (by omega) (shift (a - 1) (b - 1) (Or.inl (by omega)) (by omega))
          exact ⟨by omega, by intro h0; omega⟩

theorem runsLe_entriesOf (T : Nat) (term : Option Nat) (fs : List Frame) (h : hiddenRunsLe T 0 fs = true) :
    RunsLe T (entriesOf term fs) := by
  intro a b hab hall
  refine (hiddenRuns_spec T fs 0 h a b hab ?_).1
  intro j hj1 hj2
  obtain ⟨e, he, hs⟩ := hall j hj1 hj2
  rw [entriesOf_get] at he
  cases hf : fs[j]? with
  | none => rw [hf] at he; cases he
  | some f =>
    rw [hf] at he
    simp only [Option.map_some, Option.some.injEq] at he
    subst he
    simpa [mkEntry] using hs

/-- **Combined**: queue layer + stack/EOS layer.  See `C03.packetize_spec`. -/
theorem run_spec (D T : Nat) (hT : T < D) (term : Option Nat) (ptsOf : Nat → Int) (fs : List Frame) (N : Nat)
    (arrivals : List (Nat × Frame))
    (hmono : ∀ a b, a ≤ b → ptsOf a ≤ ptsOf b) (hne : fs ≠ [])
    (hvalid : validGop fs N = true) (hruns : hiddenRunsLe T 0 fs = true)
    (hpts : ∀ f ∈ fs, f.pts = ptsOf f.disp) (hterm : term = some (fs.length - 1))
    (hperm : (arrivals.map (·.1)).Perm (List.range fs.length))
    (hfr : ∀ x, x ∈ arrivals → fs[x.1]? = some x.2)
    (hwin : Reorder.Windowed (D - T) (arrivals.map (·.1))) :
    SeqResult ptsOf N ((runQ D term arrivals).out, []) ∧ (runQ D term arrivals).clobbered = false := by
  have hD : 0 < D := by omega
  have hseq := seq_spec term ptsOf fs N hmono hne hvalid hpts hterm
  have hlastS : lastShown fs = true := by
    simp only [validGop, Bool.and_eq_true] at hvalid; exact hvalid.1
  have hlast : ∀ hne' : entriesOf term fs ≠ [], ((entriesOf term fs).getLast hne').shown = true := by
    intro hne'
    rw [List.getLast_eq_getElem]
    have hlen := entriesOf_length term fs
    have hpos : 0 < fs.length := List.length_pos_iff.2 hne
    have hget := entriesOf_get term fs (fs.length - 1)
    rw [List.getElem?_eq_getElem (by omega), List.getElem?_eq_getElem (by omega)] at hget
    simp only [Option.map_some, Option.some.injEq] at hget
    have : (entriesOf term fs)[(entriesOf term fs).length - 1] = mkEntry term (fs.length - 1) fs[fs.length - 1] := by
      simp only [hlen]; exact hget
    rw [this]
    rw [lastShown_getLast fs hne, List.getLast_eq_getElem] at hlastS
    exact hlastS
  have hmapfst : (arrivals.map (fun x => (x.1, mkEntry term x.1 x.2))).map (·.1) = arrivals.map (·.1) := by
    rw [List.map_map]; rfl
  have hq := runE_eq_seq (D := D) (T := T) (es := entriesOf term fs) hD hT (runsLe_entriesOf T term fs hruns) hlast
    (arrivals.map (fun x => (x.1, mkEntry term x.1 x.2)))
    (by rw [entriesOf_length, hmapfst]; exact hperm)
    (by
      intro x hx
      obtain ⟨y, hy, rfl⟩ := List.mem_map.1 hx
      rw [entriesOf_get, hfr y hy]; rfl)
    (by rw [hmapfst]; exact hwin)
  unfold runQ
  rw [← hq.1]
  exact ⟨hseq, hq.2⟩

/-! ## Part D — what `p_app_private` of a posted buffer is (for EVERY arrival order, no hypothesis) -/

theorem slotAt_mem {slots : List (Option Entry)} {i : Nat} {e : Entry} (h : slotAt slots i = some e) :
    some e ∈ slots := by
  unfold slotAt at h
  split at h
  · next x hx => subst h; exact List.mem_of_getElem? hx
  · cases h

theorem mem_foldl_push {b : Buf} : ∀ (l stack : List Buf), b ∈ l.foldl push stack → b ∈ l ∨ b ∈ stack := by
  intro l
  induction l with
  | nil => intro stack h; exact Or.inr h
  | cons x xs ih =>
    intro stack h
    rw [List.foldl_cons] at h
    rcases ih _ h with h | h
    · exact Or.inl (List.mem_cons_of_mem _ h)
    · unfold push at h
      split at h
      · exact Or.inr h
      · rcases List.mem_cons.1 h with rfl | h
        · exact Or.inl List.mem_cons_self
        · exact Or.inr h

theorem emitCore_priv (S : Nat → Prop) (st : Out) (last : Entry) (revPre : List Entry)
    (hl : S last.buf.priv) (hp : ∀ e ∈ revPre, S e.buf.priv)
    (hs : ∀ b ∈ st.stack, S b.priv) (hk : ∀ b ∈ st.pktsRev, S b.priv) :
    (∀ b ∈ (emitCore st last revPre).stack, S b.priv) ∧ (∀ b ∈ (emitCore st last revPre).pktsRev, S b.priv) := by
  have h1 : ∀ b ∈ ((revPre.filter (fun e => !e.alt)).map (·.buf)).foldl push st.stack, S b.priv := by
    intro b hb
    rcases mem_foldl_push _ _ hb with hb | hb
    · obtain ⟨e, he, rfl⟩ := List.mem_map.1 hb
      exact hp e (List.mem_filter.1 he).1
    · exact hs b hb
  have h2 : ∀ b ∈ (if revPre.length + 1 > 1 then sortStack (((revPre.filter (fun e => !e.alt)).map (·.buf)).foldl push st.stack)
      else ((revPre.filter (fun e => !e.alt)).map (·.buf)).foldl push st.stack), S b.priv := by
    intro b hb
    split at hb
    · exact h1 b ((sortStack_perm _).mem_iff.1 hb)
    · exact h1 b hb
  unfold emitCore
  simp only
  generalize (if revPre.length + 1 > 1 then sortStack (((revPre.filter (fun e => !e.alt)).map (·.buf)).foldl push st.stack)
      else ((revPre.filter (fun e => !e.alt)).map (·.buf)).foldl push st.stack) = stack2 at h2 ⊢
  have hout : ∀ (o : Buf), o.priv = last.buf.priv → ∀ b ∈ o :: st.pktsRev, S b.priv := by
    intro o ho b hb
    rcases List.mem_cons.1 hb with rfl | hb
    · rw [ho]; exact hl
    · exact hk b hb
  split
  · cases stack2 with
    | nil => exact ⟨by simp, hout _ (by rfl)⟩
    | cons b rest =>
      refine ⟨fun y hy => h2 y (List.mem_cons_of_mem _ hy), ?_⟩
      intro y hy
      rcases List.mem_cons.1 hy with rfl | hy
      · exact h2 b List.mem_cons_self
      · exact hout _ (by rfl) y hy
  · exact ⟨h2, hout _ (by rfl)⟩

theorem emitTU_priv (S : Nat → Prop) (st : Out) (tu : List Entry) (ht : ∀ e ∈ tu, S e.outMeta)
    (hs : ∀ b ∈ st.stack, S b.priv) (hk : ∀ b ∈ st.pktsRev, S b.priv) :
    (∀ b ∈ (emitTU st tu).stack, S b.priv) ∧ (∀ b ∈ (emitTU st tu).pktsRev, S b.priv) := by
  unfold emitTU
  have hall : ∀ e ∈ (tu.map collect).reverse, S e.buf.priv := by
    intro e he
    obtain ⟨e0, he0, rfl⟩ := List.mem_map.1 (List.mem_reverse.1 he)
    exact ht e0 he0
  split
  · exact ⟨hs, hk⟩
  · next last revPre heq =>
    rw [heq] at hall
    exact emitCore_priv S st last revPre (hall last List.mem_cons_self)
      (fun e he => hall e (List.mem_cons_of_mem _ he)) hs hk

/-- slots hold only arrived entries; stack and packets carry only `out_meta_data` values -/
structure PrivInv (S : Nat → Prop) (q : Q) : Prop where
  slots : ∀ e, some e ∈ q.slots → S e.outMeta
  stack : ∀ b ∈ q.out.stack, S b.priv
  pkts  : ∀ b ∈ q.out.pktsRev, S b.priv

theorem releaseSlots_mem (D : Nat) (hIdx : Nat) {e : Entry} : ∀ (n : Nat) (slots : List (Option Entry)),
    some e ∈ releaseSlots D slots hIdx n → some e ∈ slots := by
  intro n
  induction n with
  | zero => intro slots h; simpa [releaseSlots] using h
  | succ n ih =>
    intro slots h
    unfold releaseSlots at h
    rw [List.range_succ, List.foldl_append] at h
    simp only [List.foldl_cons, List.foldl_nil] at h
    rcases List.mem_or_eq_of_mem_set h with h | h
    · exact ih slots h
    · cases h

theorem privInv_drain (S : Nat → Prop) (D : Nat) : ∀ (fuel : Nat) (q : Q), PrivInv S q → PrivInv S (drain D fuel q) := by
  intro fuel
  induction fuel with
  | zero => intro q h; exact h
  | succ f ih =>
    intro q h
    simp only [drain]
    split
    · exact h
    · apply ih
      have htu : ∀ e ∈ takeTU D q.slots q.headIdx (countFrames D q.slots q.headIdx D 0), S e.outMeta := by
        intro e he
        unfold takeTU at he
        obtain ⟨i, _, hi⟩ := List.mem_filterMap.1 he
        exact h.slots e (slotAt_mem hi)
      have := emitTU_priv S q.out _ htu h.stack h.pkts
      exact ⟨fun e he => h.slots e (releaseSlots_mem D _ _ _ he), this.1, this.2⟩

theorem privInv_run (S : Nat → Prop) (D : Nat) : ∀ (arr : List (Nat × Entry)) (q : Q), PrivInv S q →
    (∀ x ∈ arr, S x.2.outMeta) → PrivInv S (arr.foldl (stepE D) q) := by
  intro arr
  induction arr with
  | nil => intro q h _; exact h
  | cons x xs ih =>
    intro q h hx
    rw [List.foldl_cons]
    apply ih _ _ (fun y hy => hx y (List.mem_cons_of_mem _ hy))
    unfold stepE
    apply privInv_drain
    refine ⟨?_, h.stack, h.pkts⟩
    intro e he
    rcases List.mem_or_eq_of_mem_set he with he | he
    · exact h.slots e he
    · cases he; exact hx x List.mem_cons_self

/-- Every posted buffer's `p_app_private` is the `out_meta_data` of one of the frames — never the
    application's pointer (unless they coincide).  No hypothesis on GOP shape or arrival order. -/
theorem packets_priv (D : Nat) (term : Option Nat) (arrivals : List (Nat × Frame)) :
    ∀ b ∈ packets (runQ D term arrivals), ∃ x ∈ arrivals, b.priv = x.2.outMeta := by
  intro b hb
  have h0 : PrivInv (fun n => ∃ x ∈ arrivals, n = x.2.outMeta) (init D) :=
    ⟨by intro e he; simp [init] at he, by simp [init], by simp [init]⟩
  have := privInv_run (fun n => ∃ x ∈ arrivals, n = x.2.outMeta) D
    (arrivals.map (fun x => (x.1, mkEntry term x.1 x.2))) (init D) h0
    (by
      intro y hy
      obtain ⟨x, hx, rfl⟩ := List.mem_map.1 hy
      exact ⟨x, hx, rfl⟩)
  have hb' : b ∈ (runQ D term arrivals).out.pktsRev := by simpa [packets] using hb
  exact this.pkts b hb'

/-! ## the comparator of the real sort -/

theorem wrapS64_id (x : Int) (h0 : -(2 ^ 63) ≤ x) (h1 : x < 2 ^ 63) : CSem.wrapS 64 x = x := by
  unfold CSem.wrapS
  rw [BitVec.toInt_ofInt]
  apply Int.bmod_eq_of_le <;> omega

theorem wrapS32_id' (x : Int) (h0 : -(2 ^ 31) ≤ x) (h1 : x < 2 ^ 31) : CSem.wrapS 32 x = x := by
  unfold CSem.wrapS
  rw [BitVec.toInt_ofInt]
  apply Int.bmod_eq_of_le <;> omega

theorem ptsDescendC_eq (a b : Int) (h0 : -(2 ^ 31) ≤ b - a) (h1 : b - a < 2 ^ 31) : ptsDescendC a b = b - a := by
  unfold ptsDescendC
  show CSem.wrapS 32 (CSem.wrapS 64 (b - a)) = b - a
  rw [wrapS64_id _ (by omega) (by omega), wrapS32_id' _ h0 h1]

end Packetize
