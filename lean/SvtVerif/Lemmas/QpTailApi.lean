/- C18: ties the hand-written `QpTail.effCfg` (what the rate-control tail sees of the application's settings) to the GENERATED
   model of `copy_api_from_app` / `verify_settings` (`Gen/Config.lean`, regenerated from EbEncHandle.c on every run). -/
import SvtVerif.Lemmas.QpTail
import SvtVerif.Gen.Config

namespace QpTail
open CSem Gen.Config

/-- The rule(s) of the generated `verify_settings` that print "MaxQpAllowed must be [0 - %d]" (EbEncHandle.c:2710-2721), found by
    message so that the statement does not depend on the rule's position in the list. -/
def qpRuleFired (s : Scs) : Bool :=
  (verifyChecks.filter (fun p => p.1 == "MaxQpAllowed must be [0 - %d]")).any (fun p => p.2 s)

theorem qpRule_shape (s : Scs) : qpRuleFired s =
    (if decide (s.static_config_max_qp_allowed > 63) then true
     else if decide (s.static_config_min_qp_allowed ≥ 63) then true
     else decide (s.static_config_min_qp_allowed > s.static_config_max_qp_allowed)) := by
  simp [qpRuleFired, verifyChecks]

theorem verify_qpRule (s : Scs) (h : verify s = true) : qpRuleFired s = false := by
  unfold verify at h
  unfold qpRuleFired
  rw [List.all_eq_true] at h
  rw [Bool.eq_false_iff]
  intro hany
  rw [List.any_eq_true] at hany
  obtain ⟨p, hp, hps⟩ := hany
  have := h p (List.mem_of_mem_filter hp)
  simp [hps] at this

/-- What an accepted sequence control set guarantees about the bounds the tail reads. -/
theorem verify_bounds (s : Scs) (h : verify s = true) :
    s.static_config_max_qp_allowed ≤ 63 ∧ s.static_config_min_qp_allowed < 63 ∧
    s.static_config_min_qp_allowed ≤ s.static_config_max_qp_allowed := by
  have h1 := verify_qpRule s h
  rw [qpRule_shape] at h1
  by_cases a : s.static_config_max_qp_allowed > 63
  · simp [a] at h1
  · by_cases b : s.static_config_min_qp_allowed ≥ 63
    · simp [a, b] at h1
    · simp [a, b] at h1
      omega

/-- The four members of the sequence control set that `copy_api_from_app` derives and the tail reads, as generated. -/
theorem copyApi_qp_fields (s : Scs) (c : Cfg) :
    (copyApi s c).static_config_min_qp_allowed = (if (c.rate_control_mode != 0) then c.min_qp_allowed else 1) ∧
    (copyApi s c).static_config_max_qp_allowed = (if (c.rate_control_mode != 0) then c.max_qp_allowed else 63) ∧
    (copyApi s c).static_config_enable_qp_scaling_flag = (if (c.use_fixed_qindex_offsets == 1) then 0 else 1) ∧
    (copyApi s c).static_config_use_qp_file = (if (c.use_fixed_qindex_offsets == 1) then 0 else c.use_qp_file) ∧
    (copyApi s c).static_config_use_fixed_qindex_offsets = c.use_fixed_qindex_offsets ∧
    (copyApi s c).static_config_rate_control_mode = c.rate_control_mode ∧
    (copyApi s c).static_config_qp = c.qp :=
  ⟨rfl, rfl, rfl, rfl, rfl, rfl, rfl⟩

/-- The application-level view used by `effCfg`. -/
def apiOf (c : Cfg) : ApiCfg :=
  { rcMode := c.rate_control_mode, minQp := c.min_qp_allowed, maxQp := c.max_qp_allowed,
    fixedOffsets := c.use_fixed_qindex_offsets, useQpFile := c.use_qp_file }

/-- **`effCfg` is `copy_api_from_app`**: for every well-typed configuration the hand-written effective settings equal the
    generated ones, member by member. -/
theorem effCfg_eq_copyApi (s : Scs) (c : Cfg) (hc : c.WellTyped) :
    (copyApi s c).static_config_min_qp_allowed = (effCfg (apiOf c)).minQp ∧
    (copyApi s c).static_config_max_qp_allowed = (effCfg (apiOf c)).maxQp ∧
    (copyApi s c).static_config_enable_qp_scaling_flag = (effCfg (apiOf c)).qpScaling ∧
    (copyApi s c).static_config_use_qp_file = (effCfg (apiOf c)).useQpFile := by
  obtain ⟨e1, e2, e3, e4, _, _, _⟩ := copyApi_qp_fields s c
  rw [e1, e2, e3, e4]
  have r := hc.rate_control_mode
  have mn := hc.min_qp_allowed
  have mx := hc.max_qp_allowed
  have fx := hc.use_fixed_qindex_offsets
  have uq := hc.use_qp_file
  have w1 : wrapU32 c.rate_control_mode = c.rate_control_mode := wrapU32_id _ r.1 (by omega)
  have w2 : wrapU32 c.min_qp_allowed = c.min_qp_allowed := wrapU32_id _ mn.1 (by omega)
  have w3 : wrapU32 c.max_qp_allowed = c.max_qp_allowed := wrapU32_id _ mx.1 (by omega)
  have w4 : wrapU8 c.use_fixed_qindex_offsets = c.use_fixed_qindex_offsets := wrapU8_id _ fx.1 (by omega)
  have w5 : wrapU8 c.use_qp_file = c.use_qp_file := wrapU8_id _ uq.1 (by omega)
  unfold effCfg apiOf
  simp only [w1, w2, w3, w4, w5]
  by_cases hr : c.rate_control_mode = 0 <;> by_cases hf : c.use_fixed_qindex_offsets = 1 <;> simp [hr, hf]

end QpTail
