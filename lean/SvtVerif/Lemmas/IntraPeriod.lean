/- Helper lemmas for C19 (intra-period automaton): closed forms of one step on an un-forced stream,
   the position invariant, and `run` as a map over picture numbers. -/
import SvtVerif.Model.IntraPeriod
import Mathlib.Tactic.Linarith

namespace IntraPeriod
open CSem

theorem wrapU32_id' (x : Int) (h0 : 0 ≤ x) (h1 : x < 2 ^ 32) : wrapU32 x = x := by
  show x % (2 ^ 32 : Int) = x
  exact Int.emod_eq_of_lt h0 h1

/-- `intra_period_position` before picture `k` of an un-forced stream. -/
def posBefore (c : Cfg) : Nat → Nat
  | 0 => 0
  | k + 1 => (step c (posBefore c k) (stdPic k)).1

/-- Outputs for picture `k` of an un-forced stream. -/
def out (c : Cfg) (k : Nat) : PicOut := (step c (posBefore c k) (stdPic k)).2

theorem runPics_std (c : Cfg) (n k : Nat) :
    runPics c (posBefore c k) ((List.range' k n).map stdPic) = (List.range' k n).map (out c) := by
  induction n generalizing k with
  | zero => rfl
  | succ n ih =>
    rw [List.range'_succ, List.map_cons, List.map_cons, runPics]
    congr 1
    exact ih (k + 1)

theorem run_eq (c : Cfg) (n : Nat) : run c n = (List.range' 0 n).map (out c) := runPics_std c n 0

theorem run_get (c : Cfg) (n k : Nat) (hk : k < n) : (run c n)[k]? = some (out c k) := by
  rw [run_eq, List.getElem?_map, List.getElem?_range' hk]
  simp

theorem run_length (c : Cfg) (n : Nat) : (run c n).length = n := by
  rw [run_eq]; simp

/-! ### one step, `P ≥ 1` -/

theorem step_std_ge1 (c : Cfg) (h1 : 1 ≤ c.P) (h31 : c.P < 2 ^ 31) (hr : c.refresh = 1 ∨ c.refresh = 2)
    (pos k : Nat) (hpos : (pos : Int) ≤ c.P) :
    (step c pos (stdPic k)).1 = (if k = 0 then 0 else if (pos : Int) = c.P then 0 else pos + 1) ∧
    ((step c pos (stdPic k)).2.intra = true ↔ (k = 0 ∨ (pos : Int) = c.P)) ∧
    ((step c pos (stdPic k)).2.frameType =
      if k = 0 then 0 else if (pos : Int) = c.P then (if c.refresh = 2 then 0 else 2) else 1) := by
  have e : wrapU32 c.P = c.P := wrapU32_id' _ (by omega) (by omega)
  have hm : (pos + 1) % 2 ^ 32 = pos + 1 := Nat.mod_eq_of_lt (by omega)
  have n0 : c.P ≠ 0 := by omega
  have n1 : c.P ≠ -1 := by omega
  unfold step stdPic
  simp only [e, hm, n0]
  by_cases hk : k = 0 <;> by_cases hp : (pos : Int) = c.P <;> rcases hr with hr | hr <;> simp [hr, n1, hk, hp]

/-! ### one step, `P = 0` -/

theorem step_std_0 (c : Cfg) (h0 : c.P = 0) (k : Nat) :
    (step c 0 (stdPic k)).1 = 0 ∧ (step c 0 (stdPic k)).2.intra = true ∧
    (step c 0 (stdPic k)).2.frameType = (if k = 0 then 0 else 2) := by
  unfold step stdPic
  by_cases hk : k = 0 <;> simp [h0, hk, wrapU32, wrapU]

/-! ### one step, `P = -1` -/

theorem step_std_m1 (c : Cfg) (h0 : c.P = -1) (pos k : Nat) :
    ((step c pos (stdPic k)).2.intra = true ↔ k = 0) ∧
    (step c pos (stdPic k)).2.frameType = (if k = 0 then 0 else 1) := by
  unfold step stdPic
  by_cases hk : k = 0 <;> simp [h0, hk]

/-! ### the position invariant for `P ≥ 1` -/

theorem succ_mod (j m : Nat) (hm : 0 < m) :
    (j + 1) % m = if j % m + 1 = m then 0 else j % m + 1 := by
  have hlt := Nat.mod_lt j hm
  have hdm := Nat.div_add_mod j m
  split_ifs with h
  · have : j + 1 = m * (j / m + 1) := by rw [Nat.mul_add, Nat.mul_one]; omega
    rw [this, Nat.mul_mod_right]
  · have : j + 1 = (j % m + 1) + m * (j / m) := by omega
    rw [this, Nat.add_mul_mod_self_left, Nat.mod_eq_of_lt (by omega)]

theorem posBefore_ge1 (c : Cfg) (h1 : 1 ≤ c.P) (h31 : c.P < 2 ^ 31) (hr : c.refresh = 1 ∨ c.refresh = 2) (k : Nat) :
    posBefore c (k + 1) = k % (c.P.toNat + 1) := by
  have hP : ((c.P.toNat : Nat) : Int) = c.P := Int.toNat_of_nonneg (by omega)
  induction k with
  | zero =>
    have := (step_std_ge1 c h1 h31 hr 0 0 (by simp; omega)).1
    simp [posBefore, this]
  | succ k ih =>
    have hlt := Nat.mod_lt k (show 0 < c.P.toNat + 1 by omega)
    have hle : ((posBefore c (k + 1) : Nat) : Int) ≤ c.P := by rw [ih]; omega
    have := (step_std_ge1 c h1 h31 hr (posBefore c (k + 1)) (k + 1) hle).1
    rw [posBefore, this, if_neg (by omega), ih, succ_mod k _ (by omega)]
    have heq : (((k % (c.P.toNat + 1) : Nat) : Int) = c.P) ↔ (k % (c.P.toNat + 1) + 1 = c.P.toNat + 1) := by omega
    by_cases h : k % (c.P.toNat + 1) + 1 = c.P.toNat + 1
    · rw [if_pos (heq.mpr h), if_pos h]
    · rw [if_neg (fun x => h (heq.mp x)), if_neg h]

theorem posBefore_le (c : Cfg) (h1 : 1 ≤ c.P) (h31 : c.P < 2 ^ 31) (hr : c.refresh = 1 ∨ c.refresh = 2) (k : Nat) :
    ((posBefore c k : Nat) : Int) ≤ c.P := by
  cases k with
  | zero => simp [posBefore]; omega
  | succ k =>
    rw [posBefore_ge1 c h1 h31 hr k]
    have hlt := Nat.mod_lt k (show 0 < c.P.toNat + 1 by omega)
    omega

theorem posBefore_0 (c : Cfg) (h0 : c.P = 0) (k : Nat) : posBefore c k = 0 := by
  induction k with
  | zero => rfl
  | succ k ih => rw [posBefore, ih]; exact (step_std_0 c h0 k).1

/-- For `k ≥ 1`: `(k-1) % m = m-1 ↔ k % m = 0`. -/
theorem pred_mod_iff (k m : Nat) (hm : 0 < m) : (k % m + 1 = m) ↔ ((k + 1) % m = 0) := by
  rw [succ_mod k m hm]
  have hlt := Nat.mod_lt k hm
  split_ifs with h
  · exact ⟨fun _ => rfl, fun _ => h⟩
  · exact ⟨fun x => absurd x h, fun x => x.elim⟩

end IntraPeriod
