/-
  C09 — schedule independence of a task DAG (`dag_confluence`) and the simulation that turns every execution of a
  row wavefront (`DecWf.step`) into an execution of the DAG of its columns.
-/
import SvtVerif.Lemmas.DecWavefrontSched

namespace DecWf

/-! ## a task DAG: task `t` reads only the cells written by `deps t` and writes only its own cell -/

structure Dag (T V : Type) where
  deps : T → List T
  f : T → (T → V) → V                     -- value task `t` writes, as a function of the store it reads
  rank : T → Nat
  rank_lt : ∀ t d, d ∈ deps t → rank d < rank t           -- acyclic
  footprint : ∀ t σ σ', (∀ d, d ∈ deps t → σ d = σ' d) → f t σ = f t σ'   -- H-footprint

structure DSt (T V : Type) where
  σ : T → V                 -- the store: one cell per task
  pend : T → Option V       -- task running: the value it is going to write
  done : T → Bool

inductive DOp (T : Type) where
  | start (t : T)
  | finish (t : T)

def upd {T α : Type} [DecidableEq T] (f : T → α) (t : T) (v : α) : T → α := fun x => if x = t then v else f x

/-- atomic task steps.  `start t` (allowed once, when every dependency has finished) reads the store; `finish t`
    writes the task's cell.  Any number of tasks may be running at the same time: there is no bound on workers.
    (A task that reads its inputs at several moments between `start` and `finish` reads the same values: the cells
    of finished tasks are never written again.) -/
def dstep {T V : Type} [DecidableEq T] (D : Dag T V) (s : DSt T V) : DOp T → Option (DSt T V)
  | .start t =>
    if s.done t = false ∧ s.pend t = none ∧ (D.deps t).all (fun d => s.done d) = true then
      some { s with pend := upd s.pend t (some (D.f t s.σ)) }
    else none
  | .finish t =>
    match s.pend t with
    | some v => some { σ := upd s.σ t v, pend := upd s.pend t none, done := upd s.done t true }
    | none => none

def dinit {T V : Type} (σ₀ : T → V) : DSt T V := { σ := σ₀, pend := fun _ => none, done := fun _ => false }

inductive DReach {T V : Type} [DecidableEq T] (D : Dag T V) (σ₀ : T → V) : DSt T V → Prop
  | init : DReach D σ₀ (dinit σ₀)
  | step {s s' : DSt T V} {op : DOp T} : DReach D σ₀ s → dstep D s op = some s' → DReach D σ₀ s'

/-- the value of task `t`'s cell in every execution: defined by recursion along the DAG, no schedule involved -/
def val {T V : Type} (D : Dag T V) (σ₀ : T → V) (t : T) : V :=
  D.f t (fun d => if _h : D.rank d < D.rank t then val D σ₀ d else σ₀ d)
termination_by D.rank t

theorem val_eq {T V : Type} (D : Dag T V) (σ₀ : T → V) (t : T) (σ : T → V)
    (h : ∀ d, d ∈ D.deps t → σ d = val D σ₀ d) : D.f t σ = val D σ₀ t := by
  rw [val]
  apply D.footprint
  intro d hd
  rw [h d hd]
  simp [D.rank_lt t d hd]

structure DInv {T V : Type} (D : Dag T V) (σ₀ : T → V) (s : DSt T V) : Prop where
  done_val : ∀ t, s.done t = true → s.σ t = val D σ₀ t
  pend_val : ∀ t v, s.pend t = some v → v = val D σ₀ t
  undone : ∀ t, s.done t = false → s.σ t = σ₀ t

theorem dinv_step {T V : Type} [DecidableEq T] {D : Dag T V} {σ₀ : T → V} {s s' : DSt T V} {op : DOp T}
    (hi : DInv D σ₀ s) (h : dstep D s op = some s') : DInv D σ₀ s' := by
  cases op with
  | start t =>
    simp only [dstep] at h
    split at h
    · rename_i hc
      injection h with h; subst h
      refine ⟨hi.done_val, ?_, hi.undone⟩
      intro t' v hv
      simp only [upd] at hv
      split at hv
      · rename_i e; subst e
        injection hv with hv; subst hv
        apply val_eq
        intro d hd
        have := List.all_eq_true.1 hc.2.2 d hd
        exact hi.done_val d this
      · exact hi.pend_val t' v hv
    · simp at h
  | finish t =>
    simp only [dstep] at h
    split at h
    · rename_i v hv
      injection h with h; subst h
      refine ⟨?_, ?_, ?_⟩
      · intro t' hd
        simp only [upd] at hd ⊢
        split
        · rename_i e; subst e; exact hi.pend_val t' v hv
        · rename_i e; simp only [e, if_false] at hd; exact hi.done_val t' hd
      · intro t' v' hv'
        simp only [upd] at hv'
        split at hv'
        · simp at hv'
        · exact hi.pend_val t' v' hv'
      · intro t' hd
        simp only [upd] at hd ⊢
        split
        · rename_i e; simp [e] at hd
        · rename_i e; simp only [e, if_false] at hd; exact hi.undone t' hd
    · simp at h

theorem dreach_inv {T V : Type} [DecidableEq T] {D : Dag T V} {σ₀ : T → V} {s : DSt T V} (h : DReach D σ₀ s) :
    DInv D σ₀ s := by
  induction h with
  | init => exact ⟨fun t h => by simp [dinit] at h, fun t v h => by simp [dinit] at h, fun t _ => rfl⟩
  | step _ hs ih => exact dinv_step ih hs

/-! ## the columns of a row wavefront as a DAG -/

/-- the wavefront cone as a decidable predicate -/
def inCone (W : Nat) (t d : Nat × Nat) : Bool :=
  (d.1 == t.1 && decide (d.2 < t.2)) || (decide (d.1 < t.1) && decide (d.2 < min (t.2 + 1 + (t.1 - d.1)) W))

theorem inCone_iff (W : Nat) (t d : Nat × Nat) : inCone W t d = true ↔ cone W t.1 t.2 d.1 d.2 := by
  simp [inCone, cone]

/-- `Link`: the DAG state mirrors the wavefront state -/
structure Link (s : Stage) (st : WSt) {V : Type} (ds : DSt (Nat × Nat) V) : Prop where
  done_iff : ∀ r j, ds.done (r, j) = true ↔ (r < s.H ∧ j < cnt s (lget st.ph r))
  pend_iff : ∀ r j, (ds.pend (r, j)).isSome = true ↔ (r < s.H ∧ lget st.ph r = Ph.busy j)

/-- the DAG step that corresponds to a wavefront step -/
def mapOp (st : WSt) : Op → Option (DOp (Nat × Nat))
  | .dec r => match lget st.ph r with
    | Ph.at j => some (DOp.start (r, j))
    | _ => none
  | .pub r => match lget st.ph r with
    | Ph.busy j => some (DOp.finish (r, j))
    | _ => none
  | _ => none

theorem link_init (s : Stage) {V : Type} (σ₀ : Nat × Nat → V) : Link s (initW s) (dinit σ₀) := by
  constructor
  · intro r j
    simp only [dinit, initW, lget_replicate]
    constructor
    · intro h; simp at h
    · rintro ⟨h1, h2⟩; simp [h1, cnt] at h2
  · intro r j
    simp only [dinit, initW, lget_replicate]
    constructor
    · intro h; simp at h
    · rintro ⟨h1, h2⟩; simp [h1] at h2

/-- **simulation**: a wavefront step is either invisible to the DAG or is a legal DAG step (in particular a column
    starts only when all its dependencies — assumed to lie in its wavefront cone — have finished), and `Link`
    is preserved. -/
theorem sim_step {s : Stage} (hs : PassSound s) {V : Type} (D : Dag (Nat × Nat) V)
    (hdeps : ∀ t d, d ∈ D.deps t → inCone s.W t d = true)
    {st st' : WSt} {g : Nat → Bool} {op : Op} {ds : DSt (Nat × Nat) V}
    (hi : Inv s st) (hw : Wave s st) (hl : Link s st ds) (h : step s g st op = some st') :
    (mapOp st op = none ∧ Link s st' ds) ∨
    (∃ dop ds', mapOp st op = some dop ∧ dstep D ds dop = some ds' ∧ Link s st' ds') := by
  have hi' := inv_step hi h
  have hw' := wave_step hs hi hw h
  cases op with
  | pick =>
    left
    refine ⟨rfl, ?_⟩
    rcases step_tr hi h with ⟨e, _, _⟩ | ⟨r, p', hr, e, t, _⟩
    · exact ⟨by rw [e]; exact hl.done_iff, by rw [e]; exact hl.pend_iff⟩
    · have hlen : r < st.ph.length := by rw [hi.len_ph]; exact hr
      simp only [step] at h
      split at h
      · simp at h
      · split at h
        · rename_i h2
          injection h with h; subst h
          have hlt : st.next < s.H := by have := hi.next_le; omega
          have hu := ph_next_unpicked hi hlt
          have hl2 : st.next < st.ph.length := by rw [hi.len_ph]; exact hlt
          constructor
          · intro r' j
            rw [hl.done_iff]
            rcases lget_ph_cases st.ph st.next r' Ph.gate hl2 with ⟨e1, g1⟩ | ⟨e1, g1⟩
            · simp only [g1]; rw [e1, hu]; simp [cnt]
            · simp only [g1]
          · intro r' j
            rw [hl.pend_iff]
            rcases lget_ph_cases st.ph st.next r' Ph.gate hl2 with ⟨e1, g1⟩ | ⟨e1, g1⟩
            · simp only [g1]; rw [e1, hu]; simp
            · simp only [g1]
        · split at h <;> (injection h with h; subst h; exact ⟨hl.done_iff, hl.pend_iff⟩)
  | chk =>
    left
    refine ⟨rfl, ?_⟩
    simp only [step] at h
    split at h
    · simp at h
    · split at h <;> (injection h with h; subst h; exact ⟨hl.done_iff, hl.pend_iff⟩)
  | enter r =>
    left
    refine ⟨rfl, ?_⟩
    simp only [step] at h
    split at h
    · rename_i hc
      injection h with h; subst h
      have hr : r < s.H := ph_lt hi (by rw [hc.1]; simp)
      have hlen : r < st.ph.length := by rw [hi.len_ph]; exact hr
      constructor
      · intro r' j
        rw [hl.done_iff]
        rcases lget_ph_cases st.ph r r' (if s.en = true ∧ 0 < s.W then Ph.at 0 else Ph.tail) hlen with ⟨e1, g1⟩ | ⟨e1, g1⟩
        · simp only [g1]; rw [e1, hc.1]
          split
          · simp [cnt]
          · rename_i hne; simp [cnt, Wb_zero hne]
        · simp only [g1]
      · intro r' j
        rw [hl.pend_iff]
        rcases lget_ph_cases st.ph r r' (if s.en = true ∧ 0 < s.W then Ph.at 0 else Ph.tail) hlen with ⟨e1, g1⟩ | ⟨e1, g1⟩
        · simp only [g1]; rw [e1, hc.1]
          split <;> simp
        · simp only [g1]
    · simp at h
  | fin r =>
    left
    refine ⟨rfl, ?_⟩
    simp only [step] at h
    split at h
    · rename_i hg
      have hr : r < s.H := ph_lt hi (by rw [hg]; simp)
      have hlen : r < st.ph.length := by rw [hi.len_ph]; exact hr
      have key : Link s { st with ph := lset st.ph r Ph.fin } ds := by
        constructor
        · intro r' j
          rw [hl.done_iff]
          rcases lget_ph_cases st.ph r r' Ph.fin hlen with ⟨e1, g1⟩ | ⟨e1, g1⟩
          · simp only [g1]; rw [e1, hg]; simp [cnt]
          · simp only [g1]
        · intro r' j
          rw [hl.pend_iff]
          rcases lget_ph_cases st.ph r r' Ph.fin hlen with ⟨e1, g1⟩ | ⟨e1, g1⟩
          · simp only [g1]; rw [e1, hg]; simp
          · simp only [g1]
      split at h <;> (injection h with h; subst h; exact ⟨key.done_iff, key.pend_iff⟩)
    · simp at h
  | dec r =>
    right
    simp only [step] at h
    split at h
    · rename_i j hg
      split at h
      · rename_i hpass
        injection h with h; subst h
        have hr : r < s.H := ph_lt hi (by rw [hg]; simp)
        have hlen : r < st.ph.length := by rw [hi.len_ph]; exact hr
        have hjW := (hi.col_lt r j hr (Or.inl hg)).1
        have hnew : lget (lset st.ph r (Ph.busy j)) r = Ph.busy j := lget_lset_self _ _ _ hlen
        -- the start is enabled
        have h1 : ds.done (r, j) = false := by
          cases hd : ds.done (r, j) with
          | false => rfl
          | true => have := (hl.done_iff r j).1 hd; rw [hg] at this; simp [cnt] at this
        have h2 : ds.pend (r, j) = none := by
          cases hd : ds.pend (r, j) with
          | none => rfl
          | some v =>
            have := (hl.pend_iff r j).1 (by rw [hd]; rfl)
            rw [hg] at this; simp at this
        have h3 : (D.deps (r, j)).all (fun d => ds.done d) = true := by
          apply List.all_eq_true.2
          intro d hd
          have hc := (inCone_iff s.W (r, j) d).1 (hdeps (r, j) d hd)
          obtain ⟨r', j'⟩ := d
          simp only at hc
          apply (hl.done_iff r' j').2
          rcases hc with ⟨e1, hlt⟩ | ⟨h0, hlt⟩
          · subst e1; exact ⟨hr, by rw [hg]; simpa [cnt] using hlt⟩
          · have hb : 1 ≤ beg s (lget (lset st.ph r (Ph.busy j)) r) := by rw [hnew]; simp [beg]
            have := wave_chain hi' hw' hr hb (by omega) (r - r') (by omega) (by omega)
            simp only at this
            rw [hnew, show r - (r - r') = r' by omega, lget_lset_ne _ _ _ _ (by omega)] at this
            simp only [beg] at this
            exact ⟨by omega, by omega⟩
        refine ⟨DOp.start (r, j), _, by simp [mapOp, hg], by simp only [dstep, h1, h2, h3, and_self, if_true]; rfl, ?_⟩
        constructor
        · intro r' j'
          simp only
          rw [hl.done_iff]
          rcases lget_ph_cases st.ph r r' (Ph.busy j) hlen with ⟨e1, g1⟩ | ⟨e1, g1⟩
          · simp only [g1]; rw [e1, hg]; simp [cnt]
          · simp only [g1]
        · intro r' j'
          simp only [upd]
          rcases lget_ph_cases st.ph r r' (Ph.busy j) hlen with ⟨e1, g1⟩ | ⟨e1, g1⟩
          · simp only [g1]
            subst e1
            by_cases hj : j' = j
            · subst hj; simp [hr]
            · have : ¬ ((r', j') = (r', j)) := by simp [hj]
              simp only [this, if_false]
              rw [hl.pend_iff, hg]
              simp; intro _ e; exact hj e.symm
          · simp only [g1]
            have : ¬ ((r', j') = (r, j)) := by simp [e1]
            simp only [this, if_false]
            exact hl.pend_iff r' j'
      · simp at h
    · simp at h
  | pub r =>
    right
    simp only [step] at h
    split at h
    · rename_i j hg
      injection h with h; subst h
      have hr : r < s.H := ph_lt hi (by rw [hg]; simp)
      have hlen : r < st.ph.length := by rw [hi.len_ph]; exact hr
      obtain ⟨hjW, hen⟩ := hi.col_lt r j hr (Or.inr hg)
      have hWb : Wb s = s.W := Wb_eq hen (by omega)
      have hp : (ds.pend (r, j)).isSome = true := (hl.pend_iff r j).2 ⟨hr, hg⟩
      cases hv : ds.pend (r, j) with
      | none => rw [hv] at hp; simp at hp
      | some v =>
        refine ⟨DOp.finish (r, j), _, by simp [mapOp, hg], by simp only [dstep, hv]; rfl, ?_⟩
        constructor
        · intro r' j'
          simp only [upd]
          rcases lget_ph_cases st.ph r r' (if j + 1 < s.W then Ph.at (j + 1) else Ph.tail) hlen with ⟨e1, g1⟩ | ⟨e1, g1⟩
          · simp only [g1]
            subst e1
            have hcnt : cnt s (if j + 1 < s.W then Ph.at (j + 1) else Ph.tail) = j + 1 := by
              split
              · simp [cnt]
              · simp [cnt, hWb]; omega
            rw [hcnt]
            by_cases hj : j' = j
            · subst hj; simp [hr]
            · have : ¬ ((r', j') = (r', j)) := by simp [hj]
              simp only [this, if_false]
              rw [hl.done_iff, hg]
              simp [cnt]; intro _; omega
          · simp only [g1]
            have : ¬ ((r', j') = (r, j)) := by simp [e1]
            simp only [this, if_false]
            exact hl.done_iff r' j'
        · intro r' j'
          simp only [upd]
          rcases lget_ph_cases st.ph r r' (if j + 1 < s.W then Ph.at (j + 1) else Ph.tail) hlen with ⟨e1, g1⟩ | ⟨e1, g1⟩
          · simp only [g1]
            subst e1
            by_cases hj : j' = j
            · subst hj; simp; intro _; split <;> simp
            · have : ¬ ((r', j') = (r', j)) := by simp [hj]
              simp only [this, if_false]
              rw [hl.pend_iff, hg]
              have h1 : ¬ (Ph.busy j = Ph.busy j') := by
                intro e; injection e with e; exact hj e.symm
              have h2 : ¬ ((if j + 1 < s.W then Ph.at (j + 1) else Ph.tail) = Ph.busy j') := by
                split <;> simp
              simp [h1, h2]
          · simp only [g1]
            have : ¬ ((r', j') = (r, j)) := by simp [e1]
            simp only [this, if_false]
            exact hl.pend_iff r' j'
    · simp at h

/-- a wavefront execution together with the DAG execution it induces -/
inductive JReach (s : Stage) {V : Type} (D : Dag (Nat × Nat) V) (σ₀ : Nat × Nat → V) : WSt → DSt (Nat × Nat) V → Prop
  | init : JReach s D σ₀ (initW s) (dinit σ₀)
  | silent {st st' : WSt} {ds : DSt (Nat × Nat) V} {g : Nat → Bool} {op : Op} :
      JReach s D σ₀ st ds → step s g st op = some st' → mapOp st op = none → JReach s D σ₀ st' ds
  | task {st st' : WSt} {ds ds' : DSt (Nat × Nat) V} {g : Nat → Bool} {op : Op} {dop : DOp (Nat × Nat)} :
      JReach s D σ₀ st ds → step s g st op = some st' → mapOp st op = some dop → dstep D ds dop = some ds' →
      JReach s D σ₀ st' ds'

theorem jreach_facts {s : Stage} (hs : PassSound s) {V : Type} {D : Dag (Nat × Nat) V} {σ₀ : Nat × Nat → V}
    (hdeps : ∀ t d, d ∈ D.deps t → inCone s.W t d = true)
    {st : WSt} {ds : DSt (Nat × Nat) V} (h : JReach s D σ₀ st ds) :
    Reach s st ∧ DReach D σ₀ ds ∧ Link s st ds := by
  induction h with
  | init => exact ⟨Reach.init, DReach.init, link_init s σ₀⟩
  | silent _ hst hm ih =>
    obtain ⟨h1, h2, h3⟩ := ih
    refine ⟨Reach.step h1 hst, h2, ?_⟩
    rcases sim_step hs D hdeps (reach_inv h1) (reach_wave hs h1) h3 hst with ⟨_, hl⟩ | ⟨dop, ds', hm', _, _⟩
    · exact hl
    · rw [hm] at hm'; simp at hm'
  | task _ hst hm hd ih =>
    obtain ⟨h1, h2, h3⟩ := ih
    refine ⟨Reach.step h1 hst, DReach.step h2 hd, ?_⟩
    rcases sim_step hs D hdeps (reach_inv h1) (reach_wave hs h1) h3 hst with ⟨hm', _⟩ | ⟨dop', ds'', hm', hd', hl⟩
    · rw [hm] at hm'; simp at hm'
    · rw [hm] at hm'; injection hm' with e; subst e
      rw [hd] at hd'; injection hd' with e; subst e
      exact hl

end DecWf
