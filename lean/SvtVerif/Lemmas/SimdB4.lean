/-
  C07 part B — the four kernels as closed-form `Nat` sums over the block, and the comparison lemmas.
-/
import SvtVerif.Lemmas.SimdB3

namespace Simd

/-! ### a block: the arguments of the kernels -/

/-- the arguments of `svt_full_distortion_kernel32_bits(coeff, coeff_stride, recon_coeff, recon_coeff_stride, .., area_width,
    area_height)`: two int32 buffers with base element index and stride, and the area -/
structure Blk where
  coeff : Mem 32
  cp : Nat
  cs : Nat
  recon : Mem 32
  rp : Nat
  rs : Nat
  w : Nat
  h : Nat

namespace Blk
/-- `coeff[j * coeff_stride + i]` -/
def c (b : Blk) (j i : Nat) : BitVec 32 := b.coeff (b.cp + j * b.cs + i)
/-- `recon_coeff[j * recon_coeff_stride + i]` -/
def r (b : Blk) (j i : Nat) : BitVec 32 := b.recon (b.rp + j * b.rs + i)
/-- `coeff - recon_coeff` at row `j`, column `i`, as a mathematical integer -/
def d (b : Blk) (j i : Nat) : Int := (b.c j i).toInt - (b.r j i).toInt
/-- the domain of the kernels: `area_width` a positive multiple of 4, `area_height ≥ 1` (both `uint32_t`) -/
def InDomain (b : Blk) : Prop := 0 < b.w ∧ b.w % 4 = 0 ∧ b.w < 2 ^ 32 ∧ 0 < b.h ∧ b.h < 2 ^ 32
/-- sum of `F j i` over the whole block -/
def blockSum (b : Blk) (F : Nat → Nat → Nat) : Nat := sumN b.h fun j => sumN b.w fun i => F j i
/-- sum of `F j i` over the elements of column-lane `l` (columns `i = 4 g + l`): the elements that go through qword lane
    `l` of the AVX2 accumulators -/
def laneSum (b : Blk) (l : Nat) (F : Nat → Nat → Nat) : Nat := sumN b.h fun j => sumN (b.w / 4) fun g => F j (4 * g + l)
/-- `(coeff - recon)^2` -/
def sq (b : Blk) (j i : Nat) : Nat := sqDiff (b.c j i) (b.r j i)
/-- `(sign-extended low dword of (coeff - recon))^2`: what `_mm256_mul_epi32` produces -/
def sqLow (b : Blk) (j i : Nat) : Nat := sqDiffLow (b.c j i) (b.r j i)
/-- `coeff^2` -/
def sqc (b : Blk) (j i : Nat) : Nat := sqCoef (b.c j i)
/-- final value of qword lane `l` of `sum1`: low dword = (Σ low dwords of the products) mod 2^32,
    high dword = (Σ high dwords) mod 2^32 -/
def laneVal (b : Blk) (l : Nat) : Nat :=
  b.laneSum l (fun j i => b.sqLow j i % 2 ^ 32) % 2 ^ 32 + 2 ^ 32 * (b.laneSum l (fun j i => b.sqLow j i / 2 ^ 32) % 2 ^ 32)

def runC (b : Blk) : BitVec 64 × BitVec 64 := fullDist32_c b.coeff b.cp b.cs b.recon b.rp b.rs b.w b.h
def runAvx2 (b : Blk) : Option (BitVec 64 × BitVec 64) := fullDist32_avx2 b.coeff b.cp b.cs b.recon b.rp b.rs b.w b.h
def runZC (b : Blk) : BitVec 64 × BitVec 64 := fullDistCbfZero32_c b.coeff b.cp b.cs b.w b.h
def runZAvx2 (b : Blk) : Option (BitVec 64 × BitVec 64) := fullDistCbfZero32_avx2 b.coeff b.cp b.cs b.w b.h
end Blk

/-! ### sums -/

theorem sumN_mod (n M : Nat) (f : Nat → Nat) : sumN n (fun i => f i % M) % M = sumN n f % M := by
  induction n with
  | zero => rfl
  | succ n ih => simp only [sumN]; rw [Nat.add_mod, ih, Nat.mod_mod, ← Nat.add_mod]

theorem blockSum_lanes (b : Blk) (hw : b.w % 4 = 0) (F : Nat → Nat → Nat) :
    b.blockSum F = b.laneSum 0 F + b.laneSum 1 F + b.laneSum 2 F + b.laneSum 3 F := by
  have hw' : b.w = 4 * (b.w / 4) := by omega
  simp only [Blk.blockSum, Blk.laneSum, ← sumN_add]
  apply sumN_congr
  intro j _
  conv => lhs; rw [hw']
  rw [sumN_four]
  simp only [sumN_add]

/-- splitting each term into low and high dword -/
theorem laneSum_split (b : Blk) (l : Nat) (F : Nat → Nat → Nat) :
    b.laneSum l F = b.laneSum l (fun j i => F j i % 2 ^ 32) + 2 ^ 32 * b.laneSum l (fun j i => F j i / 2 ^ 32) := by
  simp only [Blk.laneSum, ← sumN_mul, ← sumN_add]
  apply sumN_congr; intro j _
  apply sumN_congr; intro g _
  omega

theorem laneSum_congr (b : Blk) (l : Nat) (hl : l < 4) (hw : b.w % 4 = 0) {F G : Nat → Nat → Nat}
    (h : ∀ j i, j < b.h → i < b.w → F j i = G j i) : b.laneSum l F = b.laneSum l G := by
  simp only [Blk.laneSum]
  apply sumN_congr; intro j hj
  apply sumN_congr; intro g hg
  exact h j _ hj (by omega)

theorem laneSum_le (b : Blk) (l : Nat) (hl : l < 4) (hw : b.w % 4 = 0) {F G : Nat → Nat → Nat}
    (h : ∀ j i, j < b.h → i < b.w → F j i ≤ G j i) : b.laneSum l F ≤ b.laneSum l G := by
  simp only [Blk.laneSum]
  apply sumN_le; intro j hj
  apply sumN_le; intro g hg
  exact h j _ hj (by omega)

theorem laneSum_const (b : Blk) (l k : Nat) : b.laneSum l (fun _ _ => k) = b.h * (b.w / 4 * k) := by
  simp only [Blk.laneSum, sumN_const]

/-- every block element is a term of the lane sum of its lane -/
theorem le_laneSum (b : Blk) (hw : b.w % 4 = 0) (F : Nat → Nat → Nat) {j i : Nat} (hj : j < b.h) (hi : i < b.w) :
    F j i ≤ b.laneSum (i % 4) F := by
  have h1 : F j i ≤ sumN (b.w / 4) fun g => F j (4 * g + i % 4) := by
    have := le_sumN (fun g => F j (4 * g + i % 4)) (i := i / 4) (n := b.w / 4) (by omega)
    have e : 4 * (i / 4) + i % 4 = i := by omega
    simp only [e] at this
    exact this
  exact Nat.le_trans h1 (le_sumN (fun j => sumN (b.w / 4) fun g => F j (4 * g + i % 4)) hj)

/-! ### the C reference loops -/

def fd32cStep (coeff recon : Mem 32) (s : Fd32C) (i : Nat) : Fd32C :=
  { s with residual := s.residual + dsqC (coeff (s.coeff + i)) (recon (s.recon + i)),
           prediction := s.prediction + sqC (coeff (s.coeff + i)) }

theorem fd32cRow_eq (coeff recon : Mem 32) (w : Nat) (s : Fd32C) :
    fd32cRow coeff recon w s = (List.range w).foldl (fd32cStep coeff recon) s := rfl

theorem fd32cRow_spec (coeff recon : Mem 32) (w : Nat) (s : Fd32C) :
    (fd32cRow coeff recon w s).coeff = s.coeff ∧ (fd32cRow coeff recon w s).recon = s.recon ∧
    (fd32cRow coeff recon w s).residual.toNat
      = (s.residual.toNat + sumN w fun i => sqDiff (coeff (s.coeff + i)) (recon (s.recon + i))) % 2 ^ 64 ∧
    (fd32cRow coeff recon w s).prediction.toNat
      = (s.prediction.toNat + sumN w fun i => sqCoef (coeff (s.coeff + i))) % 2 ^ 64 := by
  induction w with
  | zero =>
    have h1 := s.residual.isLt; have h2 := s.prediction.isLt
    simp only [fd32cRow_eq, List.range_zero, List.foldl_nil, sumN, Nat.add_zero]
    refine ⟨trivial, trivial, ?_, ?_⟩ <;> omega
  | succ w ih =>
    obtain ⟨i1, i2, i3, i4⟩ := ih
    rw [fd32cRow_eq] at i1 i2 i3 i4
    simp only [fd32cRow_eq, List.range_succ, List.foldl_append, List.foldl_cons, List.foldl_nil, sumN]
    simp only [fd32cStep, i1, i2, BitVec.toNat_add, i3, i4, dsqC_toNat, sqC_toNat]
    refine ⟨trivial, trivial, ?_, ?_⟩ <;> omega

def fd32cRowStep (coeff recon : Mem 32) (cs rs w : Nat) (s : Fd32C) (_j : Nat) : Fd32C :=
  let s := fd32cRow coeff recon w s
  { s with coeff := s.coeff + cs, recon := s.recon + rs }

theorem fd32cRows_eq (coeff recon : Mem 32) (cs rs w h : Nat) (s : Fd32C) :
    fd32cRows coeff recon cs rs w h s = (List.range h).foldl (fd32cRowStep coeff recon cs rs w) s := rfl

theorem fd32cRows_spec (coeff recon : Mem 32) (cs rs w h : Nat) (s : Fd32C) :
    (fd32cRows coeff recon cs rs w h s).coeff = s.coeff + h * cs ∧
    (fd32cRows coeff recon cs rs w h s).recon = s.recon + h * rs ∧
    (fd32cRows coeff recon cs rs w h s).residual.toNat
      = (s.residual.toNat + sumN h fun j => sumN w fun i =>
          sqDiff (coeff (s.coeff + j * cs + i)) (recon (s.recon + j * rs + i))) % 2 ^ 64 ∧
    (fd32cRows coeff recon cs rs w h s).prediction.toNat
      = (s.prediction.toNat + sumN h fun j => sumN w fun i => sqCoef (coeff (s.coeff + j * cs + i))) % 2 ^ 64 := by
  induction h with
  | zero =>
    have h1 := s.residual.isLt; have h2 := s.prediction.isLt
    simp only [fd32cRows_eq, List.range_zero, List.foldl_nil, sumN, Nat.add_zero, Nat.zero_mul]
    refine ⟨trivial, trivial, ?_, ?_⟩ <;> omega
  | succ h ih =>
    obtain ⟨i1, i2, i3, i4⟩ := ih
    rw [fd32cRows_eq] at i1 i2 i3 i4
    obtain ⟨r1, r2, r3, r4⟩ := fd32cRow_spec coeff recon w ((List.range h).foldl (fd32cRowStep coeff recon cs rs w) s)
    simp only [fd32cRows_eq, List.range_succ, List.foldl_append, List.foldl_cons, List.foldl_nil, sumN]
    simp only [fd32cRowStep, r1, r2, r3, r4, i1, i2, i3, i4, Nat.add_one_mul]
    refine ⟨by omega, by omega, ?_, ?_⟩ <;> omega

theorem runC_toNat (b : Blk) :
    b.runC.1.toNat = b.blockSum b.sq % 2 ^ 64 ∧ b.runC.2.toNat = b.blockSum b.sqc % 2 ^ 64 := by
  obtain ⟨_, _, r3, r4⟩ := fd32cRows_spec b.coeff b.recon b.cs b.rs b.w b.h ⟨0, 0, b.cp, b.rp⟩
  have e1 : b.runC.1 = (fd32cRows b.coeff b.recon b.cs b.rs b.w b.h ⟨0, 0, b.cp, b.rp⟩).residual := by
    simp [Blk.runC, fullDist32_c, fullDist32_c_mem, store1]
  have e2 : b.runC.2 = (fd32cRows b.coeff b.recon b.cs b.rs b.w b.h ⟨0, 0, b.cp, b.rp⟩).prediction := by
    simp [Blk.runC, fullDist32_c, fullDist32_c_mem, store1]
  rw [e1, e2, r3, r4]
  simp [Blk.blockSum, Blk.sq, Blk.sqc, Blk.c, Blk.r]

/-! ### the AVX2 kernel -/

theorem zero_eq_L4 : mm256_setzero_si256 = L4 (fun _ => 0) := by decide

/-- lines 1278-1282 as a function -/
def hsum (sum : Reg) : Reg :=
  let temp1 := mm256_castsi256_si128 sum
  let temp2 := mm256_extracti128_si256 sum 1
  let temp1 := add_epi64 temp1 temp2
  let temp2 := mm_shuffle_epi32 temp1 0x4e
  add_epi64 temp1 temp2

theorem hsum_L4 (a : Nat → BitVec 64) :
    hsum (L4 a) = unlanes64 [(a 0 + a 2) + (a 1 + a 3), (a 1 + a 3) + (a 0 + a 2)] := hsum_unlanes _ _ _ _

theorem fullDist32_avx2_eq (b : Blk) :
    b.runAvx2 = (fd32vRows b.coeff b.recon b.cs b.rs b.w b.h (BitVec.ofNat 32 b.h) b.cp b.rp
        ⟨mm256_setzero_si256, mm256_setzero_si256⟩).map fun s =>
      let m := storeU64 (fun _ => 0) 0 (mm_unpacklo_epi64 (hsum s.sum1) (hsum s.sum2)) 2
      (m 0, m 1) := by
  simp only [Blk.runAvx2, fullDist32_avx2, fullDist32_avx2_mem, hsum]
  cases fd32vRows b.coeff b.recon b.cs b.rs b.w b.h (BitVec.ofNat 32 b.h) b.cp b.rp
      ⟨mm256_setzero_si256, mm256_setzero_si256⟩ <;> rfl

/-- the lane accumulators at the end of the loops -/
def accA (b : Blk) (l : Nat) : BitVec 64 :=
  fold2 add32x2 b.h (b.w / 4) (fun j g => prodV (b.c j (4 * g + l)) (b.r j (4 * g + l))) 0
def accB (b : Blk) (l : Nat) : BitVec 64 :=
  fold2 (· + ·) b.h (b.w / 4) (fun j g => sqV (b.c j (4 * g + l))) 0

theorem runAvx2_eq (b : Blk) (hd : b.InDomain) :
    b.runAvx2 = some ((accA b 0 + accA b 2) + (accA b 1 + accA b 3), (accB b 0 + accB b 2) + (accB b 1 + accB b 3)) := by
  obtain ⟨hw0, hw4, hwlt, hh0, hhlt⟩ := hd
  obtain ⟨n, hn⟩ : ∃ n, b.w / 4 = n + 1 := ⟨b.w / 4 - 1, by omega⟩
  obtain ⟨h', hh'⟩ : ∃ k, b.h = k + 1 := ⟨b.h - 1, by omega⟩
  rw [fullDist32_avx2_eq, zero_eq_L4]
  conv => lhs; rw [hh']
  rw [fd32vRows_lanes b.coeff b.recon b.cs b.rs b.w n hn (by omega) h' (h' + 1) b.cp b.rp _ _ (Nat.le_refl _) (by omega)]
  simp only [Option.map_some, hsum_L4, unpacklo_unlanes, storeU64_pair, accA, accB, hh', hn, Blk.c, Blk.r, Nat.add_assoc]

theorem accA_toNat (b : Blk) (l : Nat) : (accA b l).toNat = b.laneVal l := by
  obtain ⟨h1, h2⟩ := fold2_add32x2 b.h (b.w / 4) (fun j g => prodV (b.c j (4 * g + l)) (b.r j (4 * g + l))) 0
  have e : (accA b l).toNat = (accA b l).toNat % 2 ^ 32 + 2 ^ 32 * ((accA b l).toNat / 2 ^ 32) := by omega
  rw [e, accA, h1, h2]
  simp only [prodV_toNat, Blk.laneVal, Blk.laneSum, Blk.sqLow]
  simp

theorem accB_toNat (b : Blk) (l : Nat) : (accB b l).toNat = b.laneSum l b.sqc % 2 ^ 64 := by
  rw [accB, fold2_add_toNat]
  simp only [sqV_toNat, Blk.laneSum, Blk.sqc]
  simp

/-- closed form of the AVX2 results -/
theorem runAvx2_toNat (b : Blk) (hd : b.InDomain) :
    ∃ r, b.runAvx2 = some r ∧
      r.1.toNat = (b.laneVal 0 + b.laneVal 1 + b.laneVal 2 + b.laneVal 3) % 2 ^ 64 ∧
      r.2.toNat = b.blockSum b.sqc % 2 ^ 64 := by
  refine ⟨_, runAvx2_eq b hd, ?_, ?_⟩
  · simp only [BitVec.toNat_add, accA_toNat]; omega
  · simp only [BitVec.toNat_add, accB_toNat, blockSum_lanes b hd.2.1]; omega

end Simd
