/-
  Mask lemmas for the C `&` operator on 32-bit `int` as modelled by `CSem.and32`.
-/
import SvtVerif.CSem
import Mathlib.Tactic.Linarith
import Mathlib.Tactic.Ring
import Mathlib.Tactic.NormNum
import Mathlib.Tactic.Positivity

namespace Bits
open CSem

theorem nat_and_two_pow (X k : Nat) : X &&& 2 ^ k = 2 ^ k * (X / 2 ^ k % 2) := by
  apply Nat.eq_of_testBit_eq
  intro i
  rw [Nat.testBit_and, Nat.testBit_two_pow, Nat.testBit_two_pow_mul]
  by_cases h : k = i
  · subst h
    have : (X / 2 ^ k % 2) = (X / 2 ^ k) % 2 ^ 1 := by simp
    rw [this, Nat.testBit_mod_two_pow, Nat.testBit_div_two_pow]
    simp
  · simp only [h, decide_false, Bool.and_false]
    by_cases h2 : i ≥ k
    · have : i - k ≥ 1 := by omega
      have e : (X / 2 ^ k % 2) = (X / 2 ^ k) % 2 ^ 1 := by simp
      rw [e, Nat.testBit_mod_two_pow]
      have : ¬ (i - k < 1) := by omega
      simp [this]
    · simp [h2]

/-- the 32-bit pattern of an `Int`, as a natural number -/
def pat (x : Int) : Nat := (BitVec.ofInt 32 x).toNat

theorem pat_cast (x : Int) : ((pat x : Nat) : Int) = x % 2 ^ 32 := by
  unfold pat
  rw [BitVec.toNat_ofInt]
  have : (0 : Int) ≤ x % 2 ^ 32 := Int.emod_nonneg _ (by decide)
  omega

theorem pat_of_nonneg (x : Int) (h0 : 0 ≤ x) (h1 : x < 2 ^ 32) : pat x = x.toNat := by
  have := pat_cast x
  rw [Int.emod_eq_of_lt h0 h1] at this
  omega

theorem pat_mod (x : Int) (k : Nat) (hk : k ≤ 32) : ((pat x % 2 ^ k : Nat) : Int) = x % 2 ^ k := by
  rw [Int.natCast_mod, pat_cast]
  have : ((2 ^ k : Nat) : Int) = (2 : Int) ^ k := by norm_cast
  rw [this]
  apply Int.emod_emod_of_dvd
  exact pow_dvd_pow 2 hk

theorem emod_mul_div (x P Q : Int) (hP : 0 < P) (hQ : 0 < Q) : x % (P * Q) / P = (x / P) % Q := by
  have h1 := Int.emod_add_mul_ediv x P        -- x % P + P * (x / P) = x
  have h2 := Int.emod_add_mul_ediv (x / P) Q
  have r1 := Int.emod_nonneg x (ne_of_gt hP)
  have r1' := Int.emod_lt_of_pos x hP
  have r2 := Int.emod_nonneg (x / P) (ne_of_gt hQ)
  have r2' := Int.emod_lt_of_pos (x / P) hQ
  have hPQ : 0 < P * Q := Int.mul_pos hP hQ
  have hm : x / (P * Q) = (x / P) / Q ∧ x % (P * Q) = P * ((x / P) % Q) + x % P := by
    rw [Int.ediv_emod_unique hPQ]
    refine ⟨?_, ?_, ?_⟩
    · have : P * (x / P) = P * ((x / P) % Q) + P * Q * ((x / P) / Q) := by
        rw [Int.mul_assoc, ← Int.mul_add, h2]
      linarith
    · have := Int.mul_nonneg (le_of_lt hP) r2
      linarith
    · have : P * ((x / P) % Q) ≤ P * (Q - 1) := Int.mul_le_mul_of_nonneg_left (by omega) (le_of_lt hP)
      nlinarith
  rw [hm.2, Int.add_comm, Int.add_mul_ediv_left _ _ (ne_of_gt hP), Int.ediv_eq_zero_of_lt r1 r1']
  simp

theorem pat_bit (x : Int) (k : Nat) (hk : k < 32) : ((pat x / 2 ^ k % 2 : Nat) : Int) = (x / 2 ^ k) % 2 := by
  rw [Int.natCast_mod, Int.natCast_ediv, pat_cast]
  have e : ((2 ^ k : Nat) : Int) = (2 : Int) ^ k := by norm_cast
  rw [e]
  have hs : (2 : Int) ^ 32 = 2 ^ k * 2 ^ (32 - k) := by rw [← Int.pow_add]; congr 1; omega
  rw [hs, emod_mul_div _ _ _ (Int.pow_pos (by decide)) (Int.pow_pos (by decide))]
  have h2 : (2 : Int) ^ (32 - k) = 2 * 2 ^ (32 - k - 1) := by
    rw [← Int.pow_succ']; congr 1; omega
  rw [h2]
  have : ((2 : Nat) : Int) = 2 := rfl
  rw [this, Int.emod_emod_of_dvd _ (Int.dvd_mul_right 2 _)]

/-- `x & (2^k - 1)` on C int, for `k ≤ 31`: the mathematical residue. -/
theorem and32_low_mask (x : Int) (k : Nat) (hk : k ≤ 31) :
    and32 x (2 ^ k - 1) = x % 2 ^ k := by
  unfold and32
  have hlt : (2 : Int) ^ k ≤ 2 ^ 31 := pow_le_pow_right₀ (by decide) hk
  have hpos : (0 : Int) < 2 ^ k := Int.pow_pos (by decide)
  have hm : pat (2 ^ k - 1) = 2 ^ k - 1 := by
    rw [pat_of_nonneg _ (by omega) (by omega)]
    have : ((2 ^ k : Nat) : Int) = (2 : Int) ^ k := by norm_cast
    have h1 : (1 : Nat) ≤ 2 ^ k := Nat.one_le_two_pow
    omega
  have hnat : (BitVec.ofInt 32 x &&& BitVec.ofInt 32 (2 ^ k - 1)).toNat = pat x % 2 ^ k := by
    rw [BitVec.toNat_and]
    show pat x &&& pat (2 ^ k - 1) = _
    rw [hm, Nat.and_two_pow_sub_one_eq_mod]
  have hk2 : (2 : Nat) ^ k ≤ 2 ^ 31 := Nat.pow_le_pow_right (by decide) hk
  have hb : pat x % 2 ^ k < 2 ^ k := Nat.mod_lt _ (by positivity)
  rw [BitVec.toInt_eq_toNat_of_lt (by rw [hnat]; omega), hnat, pat_mod x k (by omega)]

/-- `x & 2^k` on C int, for `k ≤ 30`. -/
theorem and32_bit (x : Int) (k : Nat) (hk : k ≤ 30) :
    and32 x (2 ^ k) = 2 ^ k * ((x / 2 ^ k) % 2) := by
  unfold and32
  have hlt : (2 : Int) ^ k ≤ 2 ^ 30 := pow_le_pow_right₀ (by decide) hk
  have hpos : (0 : Int) < 2 ^ k := Int.pow_pos (by decide)
  have hm : pat (2 ^ k) = 2 ^ k := by
    rw [pat_of_nonneg _ (by omega) (by omega)]
    have : ((2 ^ k : Nat) : Int) = (2 : Int) ^ k := by norm_cast
    omega
  have hnat : (BitVec.ofInt 32 x &&& BitVec.ofInt 32 (2 ^ k)).toNat = 2 ^ k * (pat x / 2 ^ k % 2) := by
    rw [BitVec.toNat_and]
    show pat x &&& pat (2 ^ k) = _
    rw [hm, nat_and_two_pow]
  have hk2 : (2 : Nat) ^ k ≤ 2 ^ 30 := Nat.pow_le_pow_right (by decide) hk
  have hb : pat x / 2 ^ k % 2 < 2 := Nat.mod_lt _ (by decide)
  have hle : 2 ^ k * (pat x / 2 ^ k % 2) ≤ 2 ^ k * 1 := Nat.mul_le_mul_left _ (by omega)
  rw [BitVec.toInt_eq_toNat_of_lt (by rw [hnat]; omega), hnat]
  rw [Int.natCast_mul, pat_bit x k (by omega)]
  norm_cast

theorem wrapS32_id (x : Int) (h0 : -(2 ^ 31) ≤ x) (h1 : x < 2 ^ 31) : wrapS 32 x = x := by
  unfold wrapS
  rw [BitVec.toInt_ofInt]
  apply Int.bmod_eq_of_le <;> omega

/-! `CSem.shlRaw` (variable-count shift with the exponent capped at 64) agrees with the uncapped product after every wrap of at most 64 bits. -/
theorem two_pow_dvd (n m : Nat) (h : n ≤ m) : (2 ^ n : Int) ∣ 2 ^ m :=
  ⟨2 ^ (m - n), by rw [← Int.pow_add]; congr 1; omega⟩
theorem shlRaw_emod (n : Nat) (hn : n ≤ 64) (a k : Int) :
    shlRaw a k % (2 ^ n : Int) = (a * 2 ^ k.toNat) % (2 ^ n : Int) := by
  unfold shlRaw
  by_cases h : k.toNat ≤ 64
  · rw [Nat.min_eq_left h]
  · have h64 : 64 < k.toNat := by omega
    rw [Nat.min_eq_right (by omega)]
    have d1 : (2 ^ n : Int) ∣ a * 2 ^ 64 := (Int.dvd_trans (two_pow_dvd _ _ hn) (Int.dvd_mul_left a _))
    have d2 : (2 ^ n : Int) ∣ a * 2 ^ k.toNat := (Int.dvd_trans (two_pow_dvd _ _ (by omega)) (Int.dvd_mul_left a _))
    rw [Int.emod_eq_zero_of_dvd d1, Int.emod_eq_zero_of_dvd d2]

theorem shlRaw_wrapU (n : Nat) (hn : n ≤ 64) (a k : Int) :
    wrapU n (shlRaw a k) = wrapU n (a * 2 ^ k.toNat) := shlRaw_emod n hn a k

theorem shlRaw_wrapS (n : Nat) (hn : n ≤ 64) (a k : Int) :
    wrapS n (shlRaw a k) = wrapS n (a * 2 ^ k.toNat) := by
  unfold wrapS
  rw [BitVec.toInt_ofInt, BitVec.toInt_ofInt]
  unfold Int.bmod
  have := shlRaw_emod n hn a k
  simp only [Int.natCast_pow, Int.cast_ofNat_Int] at *
  rw [this]

end Bits
