/-
  Helper lemmas for C26: the loops of `psnr_calculations` (Model/Sse.lean) compute the double sum of squared
  differences over the visible window, modulo 2^64; all by induction over the remaining columns / rows.
-/
import SvtVerif.Model.Sse
import Mathlib.Algebra.BigOperators.Group.Finset.Basic
import Mathlib.Algebra.Order.BigOperators.Group.Finset
import Mathlib.Tactic.Linarith
import Mathlib.Tactic.Ring
import Mathlib.Tactic.NormNum

namespace Sse
open CSem Finset

theorem wrapS64_id (x : Int) (h0 : -(2 ^ 63) ≤ x) (h1 : x < 2 ^ 63) : wrapS 64 x = x := by
  unfold wrapS
  rw [BitVec.toInt_ofInt]
  apply Int.bmod_eq_of_le <;> omega

/-- Squared difference of two samples, as a natural number. -/
def sq (a b : Nat) : Nat := (a - b) ^ 2 + (b - a) ^ 2

theorem sq_cast (a b : Nat) : ((sq a b : Nat) : Int) = ((a : Int) - (b : Int)) ^ 2 := by
  unfold sq
  rcases Nat.le_total a b with h | h
  · rw [Nat.sub_eq_zero_of_le h]
    push_cast [Nat.cast_sub h]
    ring
  · rw [Nat.sub_eq_zero_of_le h]
    push_cast [Nat.cast_sub h]
    ring

theorem sq_le (a b m : Nat) (ha : a ≤ m) (hb : b ≤ m) : sq a b ≤ m ^ 2 := by
  unfold sq
  rcases Nat.le_total a b with h | h
  · rw [Nat.sub_eq_zero_of_le h]
    have : b - a ≤ m := by omega
    simpa using Nat.pow_le_pow_left this 2
  · rw [Nat.sub_eq_zero_of_le h]
    have : a - b ≤ m := by omega
    simpa using Nat.pow_le_pow_left this 2

/-- No wrap inside the term: for samples below 2^31 (uint8/uint16 samples are) the `int64_t` arithmetic of
    `(int64_t)SQR((int64_t)a - b)` and the conversion to `uint64_t` are exact. -/
theorem sqrTerm_eq (a b : Nat) (ha : a < 2 ^ 31) (hb : b < 2 ^ 31) : sqrTerm a b = sq a b := by
  have hd0 : -(2 ^ 31 : Int) < (a : Int) - b := by omega
  have hd1 : (a : Int) - b < 2 ^ 31 := by omega
  have h1 : wrapS 64 ((a : Int) - (b : Int)) = (a : Int) - b := wrapS64_id _ (by omega) (by omega)
  have hsq0 : 0 ≤ ((a : Int) - b) * ((a : Int) - b) := mul_self_nonneg _
  have hsq1 : ((a : Int) - b) * ((a : Int) - b) < 2 ^ 62 := by nlinarith
  have h2 : wrapS 64 (((a : Int) - b) * ((a : Int) - b)) = ((a : Int) - b) * ((a : Int) - b) :=
    wrapS64_id _ (by omega) (by omega)
  unfold sqrTerm
  simp only [h1, h2]
  have h3 : wrapU 64 (((a : Int) - b) * ((a : Int) - b)) = ((a : Int) - b) * ((a : Int) - b) := by
    unfold wrapU
    exact Int.emod_eq_of_lt hsq0 (by omega)
  rw [h3]
  have : ((a : Int) - b) * ((a : Int) - b) = ((sq a b : Nat) : Int) := by rw [sq_cast]; ring
  rw [this]
  exact Int.toNat_natCast _

/-! ### column loop -/

theorem colLoop_unfold (t : Nat → Nat) (w c acc : Nat) :
    colLoop t w c acc = if c < w then colLoop t w (c + 1) (accAdd acc (t c)) else acc := by
  rw [colLoop]

/-- `n` iterations remain. -/
theorem colLoop_mod (t : Nat → Nat) (w : Nat) : ∀ (n c acc : Nat), c + n = w →
    colLoop t w c acc % 2 ^ 64 = (acc + ∑ i ∈ range n, t (c + i)) % 2 ^ 64 := by
  intro n
  induction n with
  | zero =>
    intro c acc h
    rw [colLoop_unfold, if_neg (by omega)]
    simp
  | succ n ih =>
    intro c acc h
    rw [colLoop_unfold, if_pos (by omega), ih (c + 1) _ (by omega)]
    rw [Finset.sum_range_succ']
    unfold accAdd
    have e : ∀ i, t (c + 1 + i) = t (c + (i + 1)) := fun i => by congr 1; omega
    simp only [e, Nat.add_zero]
    rw [Nat.add_mod, Nat.mod_mod, ← Nat.add_mod]
    congr 1
    omega

theorem colLoop_lt (t : Nat → Nat) (w : Nat) : ∀ (n c acc : Nat), c + n = w → acc < 2 ^ 64 →
    colLoop t w c acc < 2 ^ 64 := by
  intro n
  induction n with
  | zero =>
    intro c acc h ha
    rw [colLoop_unfold, if_neg (by omega)]
    exact ha
  | succ n ih =>
    intro c acc h ha
    rw [colLoop_unfold, if_pos (by omega)]
    exact ih (c + 1) _ (by omega) (Nat.mod_lt _ (by positivity))

/-- The whole inner loop, started at column 0 with an in-range accumulator. -/
theorem colLoop_full (t : Nat → Nat) (w acc : Nat) (ha : acc < 2 ^ 64) :
    colLoop t w 0 acc = (acc + ∑ i ∈ range w, t i) % 2 ^ 64 := by
  have h := colLoop_mod t w w 0 acc (by omega)
  rw [Nat.mod_eq_of_lt (colLoop_lt t w w 0 acc (by omega) ha)] at h
  simpa using h

/-! ### row loops -/

theorem rowLoop8_unfold (inB recB : Buf) (si sr w h r ip rp acc : Nat) :
    rowLoop8 inB recB si sr w h r ip rp acc =
      if r < h then
        rowLoop8 inB recB si sr w h (r + 1) (ip + si) (rp + sr)
          (colLoop (fun c => sqrTerm (inB (ip + c)) (recB (rp + c))) w 0 acc)
      else acc := by
  rw [rowLoop8]

/-- `n` rows remain; the pointers are where they are, whatever the strides. -/
theorem rowLoop8_sum (inB recB : Buf) (si sr w h : Nat) : ∀ (n r ip rp acc : Nat), r + n = h → acc < 2 ^ 64 →
    rowLoop8 inB recB si sr w h r ip rp acc =
      (acc + ∑ j ∈ range n, ∑ i ∈ range w, sqrTerm (inB (ip + j * si + i)) (recB (rp + j * sr + i))) % 2 ^ 64 := by
  intro n
  induction n with
  | zero =>
    intro r ip rp acc h ha
    rw [rowLoop8_unfold, if_neg (by omega)]
    simp only [Finset.range_zero, Finset.sum_empty, Nat.add_zero]
    exact (Nat.mod_eq_of_lt ha).symm
  | succ n ih =>
    intro r ip rp acc h ha
    rw [rowLoop8_unfold, if_pos (by omega)]
    rw [colLoop_full _ _ _ ha]
    rw [ih (r + 1) _ _ _ (by omega) (Nat.mod_lt _ (by positivity))]
    rw [Finset.sum_range_succ' (fun j => ∑ i ∈ range w, sqrTerm (inB (ip + j * si + i)) (recB (rp + j * sr + i)))]
    have e : ∀ j i, sqrTerm (inB (ip + si + j * si + i)) (recB (rp + sr + j * sr + i)) =
        sqrTerm (inB (ip + (j + 1) * si + i)) (recB (rp + (j + 1) * sr + i)) := by
      intro j i
      have e1 : ip + si + j * si + i = ip + (j + 1) * si + i := by ring
      have e2 : rp + sr + j * sr + i = rp + (j + 1) * sr + i := by ring
      rw [e1, e2]
    simp only [e, Nat.zero_mul, Nat.add_zero]
    rw [Nat.add_mod, Nat.mod_mod, ← Nat.add_mod]
    congr 1
    omega

theorem rowLoop16_unfold (inB incB recB : Buf) (si sb sr w h r ip bp rp acc : Nat) :
    rowLoop16 inB incB recB si sb sr w h r ip bp rp acc =
      if r < h then
        rowLoop16 inB incB recB si sb sr w h (r + 1) (ip + si) (bp + sb) (rp + sr)
          (colLoop (fun c => sqrTerm (src10 (inB (ip + c)) (incB (bp + c))) (recB (rp + c))) w 0 acc)
      else acc := by
  rw [rowLoop16]

theorem rowLoop16_sum (inB incB recB : Buf) (si sb sr w h : Nat) : ∀ (n r ip bp rp acc : Nat), r + n = h → acc < 2 ^ 64 →
    rowLoop16 inB incB recB si sb sr w h r ip bp rp acc =
      (acc + ∑ j ∈ range n, ∑ i ∈ range w,
        sqrTerm (src10 (inB (ip + j * si + i)) (incB (bp + j * sb + i))) (recB (rp + j * sr + i))) % 2 ^ 64 := by
  intro n
  induction n with
  | zero =>
    intro r ip bp rp acc h ha
    rw [rowLoop16_unfold, if_neg (by omega)]
    simp only [Finset.range_zero, Finset.sum_empty, Nat.add_zero]
    exact (Nat.mod_eq_of_lt ha).symm
  | succ n ih =>
    intro r ip bp rp acc h ha
    rw [rowLoop16_unfold, if_pos (by omega)]
    rw [colLoop_full _ _ _ ha]
    rw [ih (r + 1) _ _ _ _ (by omega) (Nat.mod_lt _ (by positivity))]
    rw [Finset.sum_range_succ' (fun j => ∑ i ∈ range w,
      sqrTerm (src10 (inB (ip + j * si + i)) (incB (bp + j * sb + i))) (recB (rp + j * sr + i)))]
    have e : ∀ j i, sqrTerm (src10 (inB (ip + si + j * si + i)) (incB (bp + sb + j * sb + i))) (recB (rp + sr + j * sr + i)) =
        sqrTerm (src10 (inB (ip + (j + 1) * si + i)) (incB (bp + (j + 1) * sb + i))) (recB (rp + (j + 1) * sr + i)) := by
      intro j i
      have e1 : ip + si + j * si + i = ip + (j + 1) * si + i := by ring
      have e2 : rp + sr + j * sr + i = rp + (j + 1) * sr + i := by ring
      have e3 : bp + sb + j * sb + i = bp + (j + 1) * sb + i := by ring
      rw [e1, e2, e3]
    simp only [e, Nat.zero_mul, Nat.add_zero]
    rw [Nat.add_mod, Nat.mod_mod, ← Nat.add_mod]
    congr 1
    omega

/-! ### the 10-bit source sample -/

/-- `(msb << 2) | ((inc >> 6) & 3) = 4·msb + (inc / 64) mod 4`. -/
theorem src10_eq (msb inc : Nat) : src10 msb inc = 4 * msb + inc / 64 % 4 := by
  unfold src10
  have h3 : (inc >>> 6) &&& 3 = inc / 64 % 4 := by
    rw [Nat.shiftRight_eq_div_pow]
    exact Nat.and_two_pow_sub_one_eq_mod _ 2
  rw [h3, ← Nat.shiftLeft_add_eq_or_of_lt (show inc / 64 % 4 < 2 ^ 2 by omega), Nat.shiftLeft_eq]
  omega

theorem src10_lt (msb inc : Nat) (h : msb < 256) : src10 msb inc < 1024 := by
  rw [src10_eq]; omega

/-! ### bounds on the sum: when does the 64-bit accumulator / the 32-bit field hold the true value -/

theorem sum_sq_le (f g : Nat → Nat → Nat) (w h m : Nat)
    (hf : ∀ j, j < h → ∀ i, i < w → f j i ≤ m) (hg : ∀ j, j < h → ∀ i, i < w → g j i ≤ m) :
    ∑ j ∈ range h, ∑ i ∈ range w, sq (f j i) (g j i) ≤ h * w * m ^ 2 := by
  calc ∑ j ∈ range h, ∑ i ∈ range w, sq (f j i) (g j i)
      ≤ ∑ j ∈ range h, ∑ _i ∈ range w, m ^ 2 := by
        apply Finset.sum_le_sum
        intro j hj
        apply Finset.sum_le_sum
        intro i hi
        exact sq_le _ _ _ (hf j (Finset.mem_range.mp hj) i (Finset.mem_range.mp hi))
          (hg j (Finset.mem_range.mp hj) i (Finset.mem_range.mp hi))
    _ = h * w * m ^ 2 := by simp [Finset.sum_const, mul_assoc]

/-! ### plane level -/

/-- Every sample of the visible `w × h` window (origin `org`, row pitch `stride`) of `B` is below `m`. -/
def WinLt (B : Buf) (org stride w h m : Nat) : Prop :=
  ∀ y, y < h → ∀ x, x < w → B (org + y * stride + x) < m

/-- The 64-bit accumulator after the loops, with no assumption at all: sum of the C terms modulo 2^64. -/
theorem ssePlane64_raw (inB recB : Buf) (inOrg inStride recOrg recStride w h : Nat) :
    ssePlane64 inB recB inOrg inStride recOrg recStride w h =
      (∑ y ∈ range h, ∑ x ∈ range w,
        sqrTerm (inB (inOrg + y * inStride + x)) (recB (recOrg + y * recStride + x))) % 2 ^ 64 := by
  unfold ssePlane64
  rw [rowLoop8_sum inB recB inStride recStride w h h 0 inOrg recOrg 0 (by omega) (by positivity)]
  simp

theorem ssePlane64_16_raw (inB incB recB : Buf) (inOrg inStride incOrg incStride recOrg recStride w h : Nat) :
    ssePlane64_16 inB incB recB inOrg inStride incOrg incStride recOrg recStride w h =
      (∑ y ∈ range h, ∑ x ∈ range w,
        sqrTerm (src10 (inB (inOrg + y * inStride + x)) (incB (incOrg + y * incStride + x)))
                (recB (recOrg + y * recStride + x))) % 2 ^ 64 := by
  unfold ssePlane64_16
  rw [rowLoop16_sum inB incB recB inStride incStride recStride w h h 0 inOrg incOrg recOrg 0 (by omega) (by positivity)]
  simp

theorem ssePlane64_eq (inB recB : Buf) (inOrg inStride recOrg recStride w h : Nat)
    (hs : WinLt inB inOrg inStride w h (2 ^ 31)) (hr : WinLt recB recOrg recStride w h (2 ^ 31)) :
    ssePlane64 inB recB inOrg inStride recOrg recStride w h =
      (∑ y ∈ range h, ∑ x ∈ range w,
        sq (inB (inOrg + y * inStride + x)) (recB (recOrg + y * recStride + x))) % 2 ^ 64 := by
  rw [ssePlane64_raw]
  congr 1
  apply Finset.sum_congr rfl
  intro y hy
  apply Finset.sum_congr rfl
  intro x hx
  exact sqrTerm_eq _ _ (hs y (Finset.mem_range.mp hy) x (Finset.mem_range.mp hx))
    (hr y (Finset.mem_range.mp hy) x (Finset.mem_range.mp hx))

theorem ssePlane64_16_eq (inB incB recB : Buf) (inOrg inStride incOrg incStride recOrg recStride w h : Nat)
    (hs : WinLt inB inOrg inStride w h 256) (hr : WinLt recB recOrg recStride w h (2 ^ 16)) :
    ssePlane64_16 inB incB recB inOrg inStride incOrg incStride recOrg recStride w h =
      (∑ y ∈ range h, ∑ x ∈ range w,
        sq (4 * inB (inOrg + y * inStride + x) + incB (incOrg + y * incStride + x) / 64 % 4)
           (recB (recOrg + y * recStride + x))) % 2 ^ 64 := by
  rw [ssePlane64_16_raw]
  congr 1
  apply Finset.sum_congr rfl
  intro y hy
  apply Finset.sum_congr rfl
  intro x hx
  have h1 := hs y (Finset.mem_range.mp hy) x (Finset.mem_range.mp hx)
  have h2 := hr y (Finset.mem_range.mp hy) x (Finset.mem_range.mp hx)
  rw [sqrTerm_eq _ _ (by have := src10_lt _ (incB (incOrg + y * incStride + x)) h1; omega) (by omega), src10_eq]

/-- `ssePlane` is the 64-bit accumulator cut to 32 bits (stated once so that proofs about concrete pictures `rw` instead of unfolding). -/
theorem ssePlane_mod (inB recB : Buf) (inOrg inStride recOrg recStride w h : Nat) :
    ssePlane inB recB inOrg inStride recOrg recStride w h = ssePlane64 inB recB inOrg inStride recOrg recStride w h % 2 ^ 32 := rfl

theorem ssePlane16_mod (inB incB recB : Buf) (inOrg inStride incOrg incStride recOrg recStride w h : Nat) :
    ssePlane16 inB incB recB inOrg inStride incOrg incStride recOrg recStride w h =
      ssePlane64_16 inB incB recB inOrg inStride incOrg incStride recOrg recStride w h % 2 ^ 32 := rfl

theorem cast_sum_nat (f : Nat → Nat) (n : Nat) :
    ((∑ i ∈ range n, f i : Nat) : Int) = ∑ i ∈ range n, (f i : Int) := by
  induction n with
  | zero => simp
  | succ n ih => rw [Finset.sum_range_succ, Finset.sum_range_succ, Nat.cast_add, ih]

theorem cast_sum_sq (f g : Nat → Nat → Nat) (w h : Nat) :
    ((∑ y ∈ range h, ∑ x ∈ range w, sq (f y x) (g y x) : Nat) : Int) =
      ∑ y ∈ range h, ∑ x ∈ range w, ((f y x : Int) - (g y x : Int)) ^ 2 := by
  rw [cast_sum_nat]
  apply Finset.sum_congr rfl
  intro y _
  rw [cast_sum_nat]
  apply Finset.sum_congr rfl
  intro x _
  exact sq_cast _ _

theorem sum_const_sq (a b w h : Nat) : ∑ _y ∈ range h, ∑ _x ∈ range w, sq a b = h * w * sq a b := by
  simp [Finset.sum_const, mul_assoc]

end Sse
