/-
  C09 — the frame: tiles → LF → CDEF → LR tied by the row maps (`DecWf.fstep`).  Safety invariant `FInv`:
  what a set map entry / an entered row implies about the previous stage.
-/
import SvtVerif.Lemmas.DecWavefrontSched

namespace DecWf

/-- the row body of `p` has been entered (the gate spin was left) -/
def entered : Ph → Prop
  | .unpicked => False
  | .gate => False
  | _ => True

theorem fin_stable {s : Stage} {st st' : WSt} {g : Nat → Bool} {op : Op} (hi : Inv s st)
    (h : step s g st op = some st') {r : Nat} (hf : lget st.ph r = Ph.fin) : lget st'.ph r = Ph.fin := by
  rcases step_tr hi h with ⟨e, _, _⟩ | ⟨r0, p', hr0, e, t, _⟩
  · rw [e]; exact hf
  · rw [e]
    by_cases hr : r0 = r
    · subst hr; rw [hf] at t; cases t
    · rw [lget_lset_ne _ _ _ _ hr]; exact hf

theorem entered_stable {s : Stage} {st st' : WSt} {g : Nat → Bool} {op : Op} (hi : Inv s st)
    (h : step s g st op = some st') {r : Nat} (hf : entered (lget st.ph r)) : entered (lget st'.ph r) := by
  rcases step_tr hi h with ⟨e, _, _⟩ | ⟨r0, p', hr0, e, t, _⟩
  · rw [e]; exact hf
  · rw [e]
    by_cases hr : r0 = r
    · subst hr
      have hl : r0 < st.ph.length := by rw [hi.len_ph]; exact hr0
      rw [lget_lset_self _ _ _ hl]
      generalize lget st.ph r0 = p0 at t hf
      cases t <;> simp [entered] at hf ⊢
    · rw [lget_lset_ne _ _ _ _ hr]; exact hf

/-- a step that newly enters row `r` is `enter r` with the gate open -/
theorem entered_new {s : Stage} {st st' : WSt} {g : Nat → Bool} {op : Op} (_hi : Inv s st)
    (h : step s g st op = some st') {r : Nat} (hn : ¬ entered (lget st.ph r)) (hf : entered (lget st'.ph r)) :
    op = Op.enter r ∧ g r = true := by
  cases op with
  | pick =>
    exfalso
    simp only [step] at h
    split at h
    · simp at h
    · split at h
      · injection h with h; subst h
        simp only at hf
        by_cases hr : st.next = r
        · subst hr
          by_cases hl : st.next < st.ph.length
          · rw [lget_lset_self _ _ _ hl] at hf; simp [entered] at hf
          · rw [lget_of_le _ _ (by simp [length_lset]; omega)] at hf; simp [entered, default] at hf
        · rw [lget_lset_ne _ _ _ _ hr] at hf; exact hn hf
      · split at h <;> (injection h with h; subst h; exact hn hf)
  | enter r0 =>
    simp only [step] at h
    split at h
    · rename_i hc
      injection h with h; subst h
      by_cases hr : r0 = r
      · subst hr; exact ⟨rfl, hc.2⟩
      · exfalso; simp only at hf; rw [lget_lset_ne _ _ _ _ hr] at hf; exact hn hf
    · simp at h
  | dec r0 =>
    exfalso
    simp only [step] at h
    split at h
    · rename_i j hg
      split at h
      · injection h with h; subst h
        simp only at hf
        by_cases hr : r0 = r
        · subst hr; rw [hg] at hn; simp [entered] at hn
        · rw [lget_lset_ne _ _ _ _ hr] at hf; exact hn hf
      · simp at h
    · simp at h
  | pub r0 =>
    exfalso
    simp only [step] at h
    split at h
    · rename_i j hg
      injection h with h; subst h
      simp only at hf
      by_cases hr : r0 = r
      · subst hr; rw [hg] at hn; simp [entered] at hn
      · rw [lget_lset_ne _ _ _ _ hr] at hf; exact hn hf
    · simp at h
  | fin r0 =>
    exfalso
    simp only [step] at h
    split at h
    · rename_i hg
      by_cases hr : r0 = r
      · subst hr; rw [hg] at hn; simp [entered] at hn
      · split at h <;> (injection h with h; subst h; simp only at hf; rw [lget_lset_ne _ _ _ _ hr] at hf; exact hn hf)
    · simp at h
  | chk =>
    exfalso
    simp only [step] at h
    split at h
    · simp at h
    · split at h <;> (injection h with h; subst h; exact hn hf)

/-! ## frame reachability and the safety invariant -/

inductive FReach (F : Frame) : FSt → Prop
  | init : FReach F (initF F)
  | step {fs fs' : FSt} {op : FOp} : FReach F fs → fstep F fs op = some fs' → FReach F fs'

/-- tile `t`'s local row `r'` has published its row map entry -/
def TileFin (fs : FSt) (t r' : Nat) : Prop := lget (lget fs.tiles t).ph r' = Ph.fin

/-- what a set `lf_row_map[r]` means: the LF row that stores it has finished -/
def LfMapMeans (F : Frame) (fs : FSt) (r : Nat) : Prop :=
  lget fs.lf.ph (r + 1) = Ph.fin ∨ (r = F.H - 1 ∧ lget fs.lf.ph r = Ph.fin)

/-- the three rows whose reconstruction LF row `r` waits for (EbDecProcess.c:843-846) -/
def lfRows (F : Frame) (r R : Nat) : Prop :=
  R = r ∨ R = r - (if r = 0 then 0 else 1) ∨ R = r + (if r = F.H - 1 then 0 else 1)

structure FInv (F : Frame) (fs : FSt) : Prop where
  len_tiles : fs.tiles.length = F.tiles.length
  tile_reach : ∀ t, t < F.tiles.length → Reach (lget F.tiles t).st (lget fs.tiles t)
  lf_reach : Reach F.lf fs.lf
  cdef_reach : Reach F.cdef fs.cdef
  lr_reach : Reach F.lr fs.lr
  recon_sound : ∀ k, lget fs.reconMap k = true →
    ∃ t r', t < F.tiles.length ∧ k = ((lget F.tiles t).r0 + r') * F.tileCols + (lget F.tiles t).tc ∧ TileFin fs t r'
  lf_sound : ∀ r, lget fs.lfMap r = true → LfMapMeans F fs r
  cdef_sound : ∀ r, lget fs.cdefMap r = true → lget fs.cdef.ph r = Ph.fin
  lf_entered : ∀ r, entered (lget fs.lf.ph r) → ∀ R i, lfRows F r R → i < F.tileCols →
    ∃ t r', t < F.tiles.length ∧ R * F.tileCols + i = ((lget F.tiles t).r0 + r') * F.tileCols + (lget F.tiles t).tc ∧
      TileFin fs t r'
  cdef_entered : ∀ r, entered (lget fs.cdef.ph r) → LfMapMeans F fs (r + (if r = F.H - 1 then 0 else 1))
  lr_entered : ∀ r, entered (lget fs.lr.ph r) → lget fs.cdef.ph r = Ph.fin

theorem lget_map {α β : Type} [Inhabited α] [Inhabited β] (l : List α) (f : α → β) (i : Nat) (h : i < l.length) :
    lget (l.map f) i = f (lget l i) := by
  unfold lget
  simp [List.getD_eq_getElem?_getD, h]

theorem lget_true_lset {m : List Bool} {i k : Nat} (h : lget (lset m i true) k = true) :
    k = i ∨ lget m k = true := by
  by_cases hk : i = k
  · exact Or.inl hk.symm
  · rw [lget_lset_ne _ _ _ _ hk] at h; exact Or.inr h

theorem lfGate_true {F : Frame} {fs : FSt} {r : Nat} (h : lfGate F fs r = true) {R i : Nat} (hR : lfRows F r R)
    (hi : i < F.tileCols) : lget fs.reconMap (R * F.tileCols + i) = true := by
  simp only [lfGate, List.all_eq_true, List.mem_range, Bool.and_eq_true] at h
  have := h i hi
  rcases hR with e | e | e
  · rw [e]; exact this.1.1
  · rw [e]; exact this.1.2
  · rw [e]; exact this.2

theorem finv_init (F : Frame) : FInv F (initF F) := by
  refine ⟨by simp [initF], ?_, Reach.init, Reach.init, Reach.init, ?_, ?_, ?_, ?_, ?_, ?_⟩
  · intro t ht
    have : lget (initF F).tiles t = initW (lget F.tiles t).st := by
      simp only [initF]; rw [lget_map _ _ _ ht]
    rw [this]; exact Reach.init
  · intro k h; simp only [initF, lget_replicate] at h; split at h
    · simp at h
    · exact absurd h (by decide)
  · intro r h; simp only [initF, lget_replicate] at h; split at h
    · simp at h
    · exact absurd h (by decide)
  · intro r h; simp only [initF, lget_replicate] at h; split at h
    · simp at h
    · exact absurd h (by decide)
  · intro r h; simp only [initF, initW, lget_replicate] at h; split at h <;> simp [entered, default] at h
  · intro r h; simp only [initF, initW, lget_replicate] at h; split at h <;> simp [entered, default] at h
  · intro r h; simp only [initF, initW, lget_replicate] at h; split at h <;> simp [entered, default] at h

theorem step_fin_ph {s : Stage} {st w : WSt} {g : Nat → Bool} {r : Nat} (hi : Inv s st)
    (h : step s g st (Op.fin r) = some w) : lget w.ph r = Ph.fin := by
  simp only [step] at h
  split at h
  · rename_i hg
    have hr : r < s.H := ph_lt hi (by rw [hg]; simp)
    have hl : r < st.ph.length := by rw [hi.len_ph]; exact hr
    split at h <;> (injection h with h; subst h; exact lget_lset_self _ _ _ hl)
  · simp at h

/-! ### what `fstep` changes -/

theorem fstep_parse {F : Frame} {fs fs' : FSt} {t r : Nat} (h : fstep F fs (FOp.parse t r) = some fs') :
    fs'.tiles = fs.tiles ∧ fs'.lf = fs.lf ∧ fs'.cdef = fs.cdef ∧ fs'.lr = fs.lr ∧ fs'.reconMap = fs.reconMap ∧
    fs'.lfMap = fs.lfMap ∧ fs'.cdefMap = fs.cdefMap := by
  simp only [fstep] at h
  split at h
  · injection h with h; subst h; exact ⟨rfl, rfl, rfl, rfl, rfl, rfl, rfl⟩
  · simp at h

theorem fstep_tile {F : Frame} {fs fs' : FSt} {t : Nat} {op : Op} (h : fstep F fs (FOp.tile t op) = some fs') :
    t < F.tiles.length ∧ ∃ w, step (lget F.tiles t).st (fun r => lget (lget fs.parsed t) r) (lget fs.tiles t) op = some w ∧
      fs'.tiles = lset fs.tiles t w ∧ fs'.lf = fs.lf ∧ fs'.cdef = fs.cdef ∧ fs'.lr = fs.lr ∧
      fs'.lfMap = fs.lfMap ∧ fs'.cdefMap = fs.cdefMap ∧
      (fs'.reconMap = fs.reconMap ∨ ∃ r, op = Op.fin r ∧
        fs'.reconMap = lset fs.reconMap (((lget F.tiles t).r0 + r) * F.tileCols + (lget F.tiles t).tc) true) := by
  simp only [fstep] at h
  split at h
  · rename_i ht
    refine ⟨ht, ?_⟩
    split at h
    · simp at h
    · rename_i w hw
      refine ⟨w, hw, ?_⟩
      cases op with
      | fin r => simp only at h; injection h with h; subst h; exact ⟨rfl, rfl, rfl, rfl, rfl, rfl, Or.inr ⟨r, rfl, rfl⟩⟩
      | pick => simp only at h; injection h with h; subst h; exact ⟨rfl, rfl, rfl, rfl, rfl, rfl, Or.inl rfl⟩
      | chk => simp only at h; injection h with h; subst h; exact ⟨rfl, rfl, rfl, rfl, rfl, rfl, Or.inl rfl⟩
      | enter r => simp only at h; injection h with h; subst h; exact ⟨rfl, rfl, rfl, rfl, rfl, rfl, Or.inl rfl⟩
      | dec r => simp only at h; injection h with h; subst h; exact ⟨rfl, rfl, rfl, rfl, rfl, rfl, Or.inl rfl⟩
      | pub r => simp only at h; injection h with h; subst h; exact ⟨rfl, rfl, rfl, rfl, rfl, rfl, Or.inl rfl⟩
  · simp at h

theorem fstep_lf {F : Frame} {fs fs' : FSt} {op : Op} (h : fstep F fs (FOp.lf op) = some fs') :
    ∃ w, step F.lf (lfGate F fs) fs.lf op = some w ∧ fs'.lf = w ∧ fs'.tiles = fs.tiles ∧ fs'.cdef = fs.cdef ∧
      fs'.lr = fs.lr ∧ fs'.reconMap = fs.reconMap ∧ fs'.cdefMap = fs.cdefMap ∧
      (fs'.lfMap = fs.lfMap ∨ ∃ r, op = Op.fin r ∧ fs'.lfMap = lfPublish F fs.lfMap r) := by
  simp only [fstep] at h
  split at h
  · simp at h
  · rename_i w hw
    refine ⟨w, hw, ?_⟩
    cases op with
    | fin r => simp only at h; injection h with h; subst h; exact ⟨rfl, rfl, rfl, rfl, rfl, rfl, Or.inr ⟨r, rfl, rfl⟩⟩
    | pick => simp only at h; injection h with h; subst h; exact ⟨rfl, rfl, rfl, rfl, rfl, rfl, Or.inl rfl⟩
    | chk => simp only at h; injection h with h; subst h; exact ⟨rfl, rfl, rfl, rfl, rfl, rfl, Or.inl rfl⟩
    | enter r => simp only at h; injection h with h; subst h; exact ⟨rfl, rfl, rfl, rfl, rfl, rfl, Or.inl rfl⟩
    | dec r => simp only at h; injection h with h; subst h; exact ⟨rfl, rfl, rfl, rfl, rfl, rfl, Or.inl rfl⟩
    | pub r => simp only at h; injection h with h; subst h; exact ⟨rfl, rfl, rfl, rfl, rfl, rfl, Or.inl rfl⟩

theorem fstep_cdef {F : Frame} {fs fs' : FSt} {op : Op} (h : fstep F fs (FOp.cdef op) = some fs') :
    ∃ w, step F.cdef (cdefGate F fs) fs.cdef op = some w ∧ fs'.cdef = w ∧ fs'.tiles = fs.tiles ∧ fs'.lf = fs.lf ∧
      fs'.lr = fs.lr ∧ fs'.reconMap = fs.reconMap ∧ fs'.lfMap = fs.lfMap ∧
      (fs'.cdefMap = fs.cdefMap ∨ ∃ r, op = Op.fin r ∧ fs'.cdefMap = lset fs.cdefMap r true) := by
  simp only [fstep] at h
  split at h
  · simp at h
  · rename_i w hw
    refine ⟨w, hw, ?_⟩
    cases op with
    | fin r => simp only at h; injection h with h; subst h; exact ⟨rfl, rfl, rfl, rfl, rfl, rfl, Or.inr ⟨r, rfl, rfl⟩⟩
    | pick => simp only at h; injection h with h; subst h; exact ⟨rfl, rfl, rfl, rfl, rfl, rfl, Or.inl rfl⟩
    | chk => simp only at h; injection h with h; subst h; exact ⟨rfl, rfl, rfl, rfl, rfl, rfl, Or.inl rfl⟩
    | enter r => simp only at h; injection h with h; subst h; exact ⟨rfl, rfl, rfl, rfl, rfl, rfl, Or.inl rfl⟩
    | dec r => simp only at h; injection h with h; subst h; exact ⟨rfl, rfl, rfl, rfl, rfl, rfl, Or.inl rfl⟩
    | pub r => simp only at h; injection h with h; subst h; exact ⟨rfl, rfl, rfl, rfl, rfl, rfl, Or.inl rfl⟩

theorem fstep_lr {F : Frame} {fs fs' : FSt} {op : Op} (h : fstep F fs (FOp.lr op) = some fs') :
    ∃ w, step F.lr (lrGate fs) fs.lr op = some w ∧ fs'.lr = w ∧ fs'.tiles = fs.tiles ∧ fs'.lf = fs.lf ∧
      fs'.cdef = fs.cdef ∧ fs'.reconMap = fs.reconMap ∧ fs'.lfMap = fs.lfMap ∧ fs'.cdefMap = fs.cdefMap := by
  simp only [fstep] at h
  split at h
  · simp at h
  · rename_i w hw
    refine ⟨w, hw, ?_⟩
    cases op with
    | fin r => simp only at h; injection h with h; subst h; exact ⟨rfl, rfl, rfl, rfl, rfl, rfl, rfl⟩
    | pick => simp only at h; injection h with h; subst h; exact ⟨rfl, rfl, rfl, rfl, rfl, rfl, rfl⟩
    | chk => simp only at h; injection h with h; subst h; exact ⟨rfl, rfl, rfl, rfl, rfl, rfl, rfl⟩
    | enter r => simp only at h; injection h with h; subst h; exact ⟨rfl, rfl, rfl, rfl, rfl, rfl, rfl⟩
    | dec r => simp only at h; injection h with h; subst h; exact ⟨rfl, rfl, rfl, rfl, rfl, rfl, rfl⟩
    | pub r => simp only at h; injection h with h; subst h; exact ⟨rfl, rfl, rfl, rfl, rfl, rfl, rfl⟩

/-- everything `FInv` talks about, before and after a step: the stage states advance by (at most) one `step`, finished
    rows stay finished, and the maps only gain entries whose meaning holds afterwards -/
theorem finv_step {F : Frame} {fs fs' : FSt} {op : FOp} (hi : FInv F fs) (h : fstep F fs op = some fs') :
    FInv F fs' := by
  cases op with
  | parse t r =>
    obtain ⟨e1, e2, e3, e4, e5, e6, e7⟩ := fstep_parse h
    exact ⟨by rw [e1]; exact hi.len_tiles, by rw [e1]; exact hi.tile_reach, by rw [e2]; exact hi.lf_reach,
      by rw [e3]; exact hi.cdef_reach, by rw [e4]; exact hi.lr_reach,
      by rw [e5]; unfold TileFin; rw [e1]; exact hi.recon_sound,
      by rw [e6]; unfold LfMapMeans; rw [e2]; exact hi.lf_sound,
      by rw [e7, e3]; exact hi.cdef_sound,
      by rw [e2]; unfold TileFin; rw [e1]; exact hi.lf_entered,
      by rw [e3]; unfold LfMapMeans; rw [e2]; exact hi.cdef_entered,
      by rw [e4, e3]; exact hi.lr_entered⟩
  | tile t op =>
    obtain ⟨ht, w, hw, e1, e2, e3, e4, e6, e7, e5⟩ := fstep_tile h
    have hlt : t < fs.tiles.length := by rw [hi.len_tiles]; exact ht
    have hti := reach_inv (hi.tile_reach t ht)
    have mono : ∀ t' r', TileFin fs t' r' → TileFin fs' t' r' := by
      intro t' r' hf
      unfold TileFin at hf ⊢
      rw [e1]
      by_cases htt : t = t'
      · subst htt; rw [lget_lset_self _ _ _ hlt]; exact fin_stable hti hw hf
      · rw [lget_lset_ne _ _ _ _ htt]; exact hf
    refine ⟨by rw [e1, length_lset]; exact hi.len_tiles, ?_, by rw [e2]; exact hi.lf_reach,
      by rw [e3]; exact hi.cdef_reach, by rw [e4]; exact hi.lr_reach, ?_,
      by rw [e6]; unfold LfMapMeans; rw [e2]; exact hi.lf_sound,
      by rw [e7, e3]; exact hi.cdef_sound, ?_,
      by rw [e3]; unfold LfMapMeans; rw [e2]; exact hi.cdef_entered,
      by rw [e4, e3]; exact hi.lr_entered⟩
    · intro t' ht'
      rw [e1]
      by_cases htt : t = t'
      · subst htt; rw [lget_lset_self _ _ _ hlt]; exact Reach.step (hi.tile_reach t ht) hw
      · rw [lget_lset_ne _ _ _ _ htt]; exact hi.tile_reach t' ht'
    · intro k hk
      rcases e5 with e5 | ⟨r, eop, e5⟩
      · rw [e5] at hk
        obtain ⟨t', r', h1, h2, h3⟩ := hi.recon_sound k hk
        exact ⟨t', r', h1, h2, mono t' r' h3⟩
      · rw [e5] at hk
        rcases lget_true_lset hk with hk | hk
        · subst eop
          refine ⟨t, r, ht, hk, ?_⟩
          unfold TileFin; rw [e1, lget_lset_self _ _ _ hlt]; exact step_fin_ph hti hw
        · obtain ⟨t', r', h1, h2, h3⟩ := hi.recon_sound k hk
          exact ⟨t', r', h1, h2, mono t' r' h3⟩
    · intro r hr R i hR hi'
      rw [e2] at hr
      obtain ⟨t', r', h1, h2, h3⟩ := hi.lf_entered r hr R i hR hi'
      exact ⟨t', r', h1, h2, mono t' r' h3⟩
  | lf op =>
    obtain ⟨w, hw, e2, e1, e3, e4, e5, e7, e6⟩ := fstep_lf h
    have hli := reach_inv hi.lf_reach
    have mono : ∀ r, LfMapMeans F fs r → LfMapMeans F fs' r := by
      intro r hm
      unfold LfMapMeans at hm ⊢
      rw [e2]
      rcases hm with hm | ⟨hm1, hm2⟩
      · exact Or.inl (fin_stable hli hw hm)
      · exact Or.inr ⟨hm1, fin_stable hli hw hm2⟩
    refine ⟨by rw [e1]; exact hi.len_tiles, by rw [e1]; exact hi.tile_reach, by rw [e2]; exact Reach.step hi.lf_reach hw,
      by rw [e3]; exact hi.cdef_reach, by rw [e4]; exact hi.lr_reach,
      by rw [e5]; unfold TileFin; rw [e1]; exact hi.recon_sound, ?_,
      by rw [e7, e3]; exact hi.cdef_sound, ?_, ?_,
      by rw [e4, e3]; exact hi.lr_entered⟩
    · intro r hr
      rcases e6 with e6 | ⟨r0, eop, e6⟩
      · rw [e6] at hr; exact mono r (hi.lf_sound r hr)
      · subst eop
        have hfin := step_fin_ph hli hw
        have hr0 : r0 < F.lf.H := ph_lt (inv_step hli hw) (by rw [hfin]; simp)
        rw [e6] at hr
        unfold lfPublish at hr
        -- which entry was stored?
        by_cases hc2 : r0 = F.H - 1
        · simp only [hc2, if_true] at hr
          rcases lget_true_lset hr with hk | hk
          · unfold LfMapMeans; rw [e2, hk]
            exact Or.inr ⟨rfl, by rw [← hc2]; exact hfin⟩
          · split at hk
            · rename_i hc1
              rcases lget_true_lset hk with hk | hk
              · unfold LfMapMeans; rw [e2, hk]
                left; rw [show F.H - 1 - 1 + 1 = F.H - 1 by omega, ← hc2]; exact hfin
              · exact mono r (hi.lf_sound r hk)
            · exact mono r (hi.lf_sound r hk)
        · simp only [hc2, if_false] at hr
          split at hr
          · rename_i hc1
            rcases lget_true_lset hr with hk | hk
            · unfold LfMapMeans; rw [e2, hk]
              left; rw [show r0 - 1 + 1 = r0 by omega]; exact hfin
            · exact mono r (hi.lf_sound r hk)
          · exact mono r (hi.lf_sound r hr)
    · intro r hr R i hR hi'
      rw [e2] at hr
      unfold TileFin; rw [e1]
      by_cases hold : entered (lget fs.lf.ph r)
      · exact hi.lf_entered r hold R i hR hi'
      · obtain ⟨_, hg⟩ := entered_new hli hw hold hr
        exact hi.recon_sound _ (lfGate_true hg hR hi')
    · intro r hr
      rw [e3] at hr
      exact mono _ (hi.cdef_entered r hr)
  | cdef op =>
    obtain ⟨w, hw, e3, e1, e2, e4, e5, e6, e7⟩ := fstep_cdef h
    have hci := reach_inv hi.cdef_reach
    refine ⟨by rw [e1]; exact hi.len_tiles, by rw [e1]; exact hi.tile_reach, by rw [e2]; exact hi.lf_reach,
      by rw [e3]; exact Reach.step hi.cdef_reach hw, by rw [e4]; exact hi.lr_reach,
      by rw [e5]; unfold TileFin; rw [e1]; exact hi.recon_sound,
      by rw [e6]; unfold LfMapMeans; rw [e2]; exact hi.lf_sound, ?_,
      by rw [e2]; unfold TileFin; rw [e1]; exact hi.lf_entered, ?_, ?_⟩
    · intro r hr
      rw [e3]
      rcases e7 with e7 | ⟨r0, eop, e7⟩
      · rw [e7] at hr; exact fin_stable hci hw (hi.cdef_sound r hr)
      · subst eop
        rw [e7] at hr
        rcases lget_true_lset hr with hk | hk
        · rw [hk]; exact step_fin_ph hci hw
        · exact fin_stable hci hw (hi.cdef_sound r hk)
    · intro r hr
      rw [e3] at hr
      unfold LfMapMeans; rw [e2]
      by_cases hold : entered (lget fs.cdef.ph r)
      · exact hi.cdef_entered r hold
      · obtain ⟨_, hg⟩ := entered_new hci hw hold hr
        exact hi.lf_sound _ hg
    · intro r hr
      rw [e4] at hr
      rw [e3]
      exact fin_stable hci hw (hi.lr_entered r hr)
  | lr op =>
    obtain ⟨w, hw, e4, e1, e2, e3, e5, e6, e7⟩ := fstep_lr h
    have hri := reach_inv hi.lr_reach
    refine ⟨by rw [e1]; exact hi.len_tiles, by rw [e1]; exact hi.tile_reach, by rw [e2]; exact hi.lf_reach,
      by rw [e3]; exact hi.cdef_reach, by rw [e4]; exact Reach.step hi.lr_reach hw,
      by rw [e5]; unfold TileFin; rw [e1]; exact hi.recon_sound,
      by rw [e6]; unfold LfMapMeans; rw [e2]; exact hi.lf_sound,
      by rw [e7, e3]; exact hi.cdef_sound,
      by rw [e2]; unfold TileFin; rw [e1]; exact hi.lf_entered,
      by rw [e3]; unfold LfMapMeans; rw [e2]; exact hi.cdef_entered, ?_⟩
    intro r hr
    rw [e4] at hr
    rw [e3]
    by_cases hold : entered (lget fs.lr.ph r)
    · exact hi.lr_entered r hold
    · obtain ⟨_, hg⟩ := entered_new hri hw hold hr
      exact hi.cdef_sound r hg

theorem freach_inv {F : Frame} {fs : FSt} (h : FReach F fs) : FInv F fs := by
  induction h with
  | init => exact finv_init F
  | step _ hs ih => exact finv_step ih hs

/-- lifting a stage step into the frame -/
theorem fstep_of_tile_step {F : Frame} {fs : FSt} {t : Nat} {op : Op} {w : WSt} (ht : t < F.tiles.length)
    (hw : step (lget F.tiles t).st (fun r => lget (lget fs.parsed t) r) (lget fs.tiles t) op = some w) :
    ∃ fs', fstep F fs (FOp.tile t op) = some fs' := by
  simp only [fstep, ht, if_true, hw]
  cases op <;> exact ⟨_, rfl⟩

theorem fstep_of_lf_step {F : Frame} {fs : FSt} {op : Op} {w : WSt} (hw : step F.lf (lfGate F fs) fs.lf op = some w) :
    ∃ fs', fstep F fs (FOp.lf op) = some fs' := by
  simp only [fstep, hw]
  cases op <;> exact ⟨_, rfl⟩

theorem fstep_of_cdef_step {F : Frame} {fs : FSt} {op : Op} {w : WSt} (hw : step F.cdef (cdefGate F fs) fs.cdef op = some w) :
    ∃ fs', fstep F fs (FOp.cdef op) = some fs' := by
  simp only [fstep, hw]
  cases op <;> exact ⟨_, rfl⟩

theorem fstep_of_lr_step {F : Frame} {fs : FSt} {op : Op} {w : WSt} (hw : step F.lr (lrGate fs) fs.lr op = some w) :
    ∃ fs', fstep F fs (FOp.lr op) = some fs' := by
  simp only [fstep, hw]
  cases op <;> exact ⟨_, rfl⟩

/-- run a list of frame ops -/
def frun (F : Frame) : FSt → List FOp → Option FSt
  | fs, [] => some fs
  | fs, op :: ops => match fstep F fs op with
    | some fs' => frun F fs' ops
    | none => none

theorem freach_of_frun {F : Frame} {fs fs' : FSt} (h : FReach F fs) (ops : List FOp) (e : frun F fs ops = some fs') :
    FReach F fs' := by
  induction ops generalizing fs with
  | nil => simp [frun] at e; subst e; exact h
  | cons op t ih =>
    simp only [frun] at e
    split at e
    · rename_i fs1 h1; exact ih (FReach.step h h1) e
    · simp at e

end DecWf
