/-
  C24 — pure `Nat` arithmetic of the EncDec wavefront segment geometry
  (`enc_dec_segments_init`, Source/Lib/Encoder/Codec/EbEncDecSegments.c:72-168 and the macros
  ROW_INDEX / BAND_INDEX / SEGMENT_INDEX of EbEncDecSegments.h:33-40).

  Parameters: `W H` picture size in SBs, `Cc Rr` the clamped segment column / row counts
  (`1 ≤ Cc ≤ W`, `1 ≤ Rr ≤ H`), `B = segB Rr Cc = Rr + Cc - 1` the segment band count,
  `T = sbT W H = H + W - 1` the SB band count.

  `Relation.TransGen` used below is the one of core Lean (`Init`), not a Mathlib import.
-/
import SvtVerif.Model.Segments
import Mathlib.Tactic.Linarith
import Mathlib.Tactic.Ring
import Mathlib.Tactic.NormNum

namespace Seg

/-! ## closed forms (plain `Nat`, no wrap) -/

/-- `ROW_INDEX(y, Rr, H)` -/
def rowOf (Rr H y : Nat) : Nat := y * Rr / H
/-- `BAND_INDEX` with `s = x + y` -/
def bandOf (B T s : Nat) : Nat := s * B / T
/-- first SB row of segment row `r` (`ceil (r*H/Rr)`), as in init's row loop (line 125) -/
def y0 (Rr H r : Nat) : Nat := (r * H + (Rr - 1)) / Rr
/-- segment band count `BAND_TOTAL_COUNT(Rr, Cc)` -/
def segB (Rr Cc : Nat) : Nat := Rr + Cc - 1
/-- SB band count `BAND_TOTAL_COUNT(H, W)` -/
def sbT (W H : Nat) : Nat := H + W - 1
/-- band of SB `(0, y0 r)` -/
def startBand (W H Cc Rr r : Nat) : Nat := bandOf (segB Rr Cc) (sbT W H) (y0 Rr H r)
/-- band of SB `(W-1, y_last r)` -/
def endBand (W H Cc Rr r : Nat) : Nat :=
  bandOf (segB Rr Cc) (sbT W H) ((W - 1) + (y0 Rr H (r + 1) - 1))
/-- closed-form `starting_seg_index` of row `r` -/
def cst (W H Cc Rr r : Nat) : Nat := r * segB Rr Cc + startBand W H Cc Rr r
/-- closed-form `ending_seg_index` of row `r` -/
def cen (W H Cc Rr r : Nat) : Nat := r * segB Rr Cc + endBand W H Cc Rr r
/-- closed-form `SEGMENT_INDEX` of SB `(x, y)` -/
def cseg (W H Cc Rr x y : Nat) : Nat :=
  rowOf Rr H y * segB Rr Cc + bandOf (segB Rr Cc) (sbT W H) (x + y)

/-! ## Milestone 1: basic facts -/

theorem rowOf_mono (Rr H : Nat) {y y' : Nat} (h : y ≤ y') : rowOf Rr H y ≤ rowOf Rr H y' :=
  Nat.div_le_div_right (Nat.mul_le_mul_right _ h)

theorem bandOf_mono (B T : Nat) {s s' : Nat} (h : s ≤ s') : bandOf B T s ≤ bandOf B T s' :=
  Nat.div_le_div_right (Nat.mul_le_mul_right _ h)

/-- generic: `(s+1)*b/t ≤ s*b/t + 1` when `b ≤ t`, `0 < t` -/
theorem scale_succ_le {b t : Nat} (ht : 0 < t) (hbt : b ≤ t) (s : Nat) :
    (s + 1) * b / t ≤ s * b / t + 1 := by
  have h1 : (s + 1) * b ≤ s * b + t := by rw [Nat.add_mul, Nat.one_mul]; omega
  calc (s + 1) * b / t ≤ (s * b + t) / t := Nat.div_le_div_right h1
    _ = s * b / t + 1 := Nat.add_div_right _ ht

theorem rowOf_succ_le {Rr H : Nat} (hH : 0 < H) (hRH : Rr ≤ H) (y : Nat) :
    rowOf Rr H (y + 1) ≤ rowOf Rr H y + 1 := scale_succ_le hH hRH y

theorem bandOf_succ_le {B T : Nat} (hT : 0 < T) (hBT : B ≤ T) (s : Nat) :
    bandOf B T (s + 1) ≤ bandOf B T s + 1 := scale_succ_le hT hBT s

theorem rowOf_lt {Rr H y : Nat} (hR : 0 < Rr) (hy : y < H) : rowOf Rr H y < Rr := by
  unfold rowOf
  rw [Nat.div_lt_iff_lt_mul (by omega), Nat.mul_comm Rr H]
  exact Nat.mul_lt_mul_of_pos_right hy hR

theorem bandOf_lt {B T s : Nat} (hB : 0 < B) (hs : s < T) : bandOf B T s < B := rowOf_lt hB hs

/-- `B ≤ T` -/
theorem segB_le_sbT {W H Cc Rr : Nat} (hCW : Cc ≤ W) (hRH : Rr ≤ H) : segB Rr Cc ≤ sbT W H := by
  unfold segB sbT; omega

theorem segB_pos {Cc Rr : Nat} (hC : 1 ≤ Cc) (hR : 1 ≤ Rr) : 0 < segB Rr Cc := by
  unfold segB; omega

theorem sbT_pos {W H : Nat} (hW : 1 ≤ W) (hH : 1 ≤ H) : 0 < sbT W H := by
  unfold sbT; omega

theorem y0_zero {Rr : Nat} (hR : 0 < Rr) (H : Nat) : y0 Rr H 0 = 0 := by
  unfold y0
  rw [Nat.zero_mul, Nat.zero_add]
  exact Nat.div_eq_of_lt (by omega)

theorem y0_self {Rr : Nat} (hR : 0 < Rr) (H : Nat) : y0 Rr H Rr = H := by
  unfold y0
  rw [Nat.add_comm, Nat.add_mul_div_left _ _ hR, Nat.div_eq_of_lt (by omega)]
  omega

/-- Galois connection, lower half: `y0 r ≤ y ↔ r * H ≤ y * Rr` -/
theorem y0_le_iff {Rr : Nat} (hR : 0 < Rr) (H r y : Nat) : y0 Rr H r ≤ y ↔ r * H ≤ y * Rr := by
  unfold y0
  rw [← Nat.lt_succ_iff, Nat.div_lt_iff_lt_mul hR, Nat.succ_mul]
  omega

/-- `y < y0 r ↔ y * Rr < r * H` -/
theorem lt_y0_iff {Rr : Nat} (hR : 0 < Rr) (H r y : Nat) : y < y0 Rr H r ↔ y * Rr < r * H := by
  have := y0_le_iff hR H r y
  omega

/-- `r ≤ rowOf y ↔ r * H ≤ y * Rr` -/
theorem le_rowOf_iff {H : Nat} (hH : 0 < H) (Rr r y : Nat) : r ≤ rowOf Rr H y ↔ r * H ≤ y * Rr := by
  unfold rowOf
  exact Nat.le_div_iff_mul_le hH

/-- Galois connection: `y0 r ≤ y ↔ r ≤ rowOf y` -/
theorem y0_le_iff_le_rowOf {Rr H : Nat} (hR : 0 < Rr) (hH : 0 < H) (r y : Nat) :
    y0 Rr H r ≤ y ↔ r ≤ rowOf Rr H y := by
  rw [y0_le_iff hR, le_rowOf_iff hH]

theorem y0_mono {Rr : Nat} (_hR : 0 < Rr) (H : Nat) {r r' : Nat} (h : r ≤ r') :
    y0 Rr H r ≤ y0 Rr H r' := by
  unfold y0
  exact Nat.div_le_div_right (Nat.add_le_add_right (Nat.mul_le_mul_right _ h) _)

theorem y0_lt_succ {Rr H : Nat} (hR : 0 < Rr) (hRH : Rr ≤ H) (r : Nat) :
    y0 Rr H r < y0 Rr H (r + 1) := by
  unfold y0
  have h1 : r * H + (Rr - 1) + Rr ≤ (r + 1) * H + (Rr - 1) := by
    rw [Nat.add_mul, Nat.one_mul]; omega
  calc (r * H + (Rr - 1)) / Rr < (r * H + (Rr - 1)) / Rr + 1 := Nat.lt_succ_self _
    _ = (r * H + (Rr - 1) + Rr) / Rr := (Nat.add_div_right _ hR).symm
    _ ≤ _ := Nat.div_le_div_right h1

theorem y0_succ_pos {Rr H : Nat} (hR : 0 < Rr) (hRH : Rr ≤ H) (r : Nat) : 1 ≤ y0 Rr H (r + 1) := by
  have := y0_lt_succ hR hRH r; omega

theorem y0_le_H {Rr : Nat} (hR : 0 < Rr) (H : Nat) {r : Nat} (h : r ≤ Rr) : y0 Rr H r ≤ H := by
  have := y0_mono hR H h
  rwa [y0_self hR] at this

/-- Galois: SB row `y` lies in segment row `r` iff `y0 r ≤ y < y0 (r+1)`.
    (Needs only `0 < Rr`, `0 < H`.) -/
theorem rowOf_eq_iff {Rr H : Nat} (hR : 0 < Rr) (hH : 0 < H) (r y : Nat) :
    rowOf Rr H y = r ↔ y0 Rr H r ≤ y ∧ y < y0 Rr H (r + 1) := by
  have h1 := y0_le_iff_le_rowOf hR hH r y
  have h2 := y0_le_iff_le_rowOf hR hH (r + 1) y
  omega

theorem y0_rowOf_le {Rr H : Nat} (hR : 0 < Rr) (hH : 0 < H) (y : Nat) :
    y0 Rr H (rowOf Rr H y) ≤ y := ((rowOf_eq_iff hR hH _ y).1 rfl).1

theorem lt_y0_rowOf_succ {Rr H : Nat} (hR : 0 < Rr) (hH : 0 < H) (y : Nat) :
    y < y0 Rr H (rowOf Rr H y + 1) := ((rowOf_eq_iff hR hH _ y).1 rfl).2

theorem rowOf_y0 {Rr H : Nat} (hR : 0 < Rr) (hRH : Rr ≤ H) (r : Nat) :
    rowOf Rr H (y0 Rr H r) = r :=
  (rowOf_eq_iff hR (by omega) r _).2 ⟨Nat.le_refl _, y0_lt_succ hR hRH r⟩

theorem rowOf_y0_succ_pred {Rr H : Nat} (hR : 0 < Rr) (hRH : Rr ≤ H) (r : Nat) :
    rowOf Rr H (y0 Rr H (r + 1) - 1) = r := by
  have := y0_lt_succ hR hRH r
  exact (rowOf_eq_iff hR (by omega) r _).2 ⟨by omega, by omega⟩

/-! ## Milestone 2: row ranges -/

section
variable {W H Cc Rr : Nat}

theorem startBand_le_bandOf (hR : 0 < Rr) (hH : 0 < H) (x y : Nat) :
    startBand W H Cc Rr (rowOf Rr H y) ≤ bandOf (segB Rr Cc) (sbT W H) (x + y) := by
  unfold startBand
  exact bandOf_mono _ _ (by have := y0_rowOf_le hR hH y; omega)

theorem bandOf_le_endBand (hR : 0 < Rr) (hH : 0 < H) {x : Nat} (hx : x < W) (y : Nat) :
    bandOf (segB Rr Cc) (sbT W H) (x + y) ≤ endBand W H Cc Rr (rowOf Rr H y) := by
  unfold endBand
  exact bandOf_mono _ _ (by have := lt_y0_rowOf_succ hR hH y; omega)

theorem cst_le_cseg (hR : 0 < Rr) (hH : 0 < H) (x y : Nat) :
    cst W H Cc Rr (rowOf Rr H y) ≤ cseg W H Cc Rr x y := by
  unfold cst cseg
  exact Nat.add_le_add_left (startBand_le_bandOf hR hH x y) _

theorem cseg_le_cen (hR : 0 < Rr) (hH : 0 < H) {x : Nat} (hx : x < W) (y : Nat) :
    cseg W H Cc Rr x y ≤ cen W H Cc Rr (rowOf Rr H y) := by
  unfold cen cseg
  exact Nat.add_le_add_left (bandOf_le_endBand hR hH hx y) _

theorem startBand_le_endBand (hR : 0 < Rr) (hRH : Rr ≤ H) (r : Nat) :
    startBand W H Cc Rr r ≤ endBand W H Cc Rr r := by
  unfold startBand endBand
  exact bandOf_mono _ _ (by have := y0_lt_succ hR hRH r; omega)

theorem cst_le_cen (hR : 0 < Rr) (hRH : Rr ≤ H) (r : Nat) :
    cst W H Cc Rr r ≤ cen W H Cc Rr r :=
  Nat.add_le_add_left (startBand_le_endBand hR hRH r) _

theorem endBand_lt (hW : 1 ≤ W) (hC : 1 ≤ Cc) (hR : 0 < Rr) (hRH : Rr ≤ H) {r : Nat} (hr : r < Rr) :
    endBand W H Cc Rr r < segB Rr Cc := by
  unfold endBand
  apply bandOf_lt (segB_pos hC hR)
  have h1 := y0_le_H hR H (show r + 1 ≤ Rr from hr)
  have h2 := y0_succ_pos hR hRH r
  unfold sbT; omega

theorem startBand_lt (hW : 1 ≤ W) (hC : 1 ≤ Cc) (hR : 0 < Rr) (hRH : Rr ≤ H) {r : Nat} (hr : r < Rr) :
    startBand W H Cc Rr r < segB Rr Cc :=
  Nat.lt_of_le_of_lt (startBand_le_endBand hR hRH r) (endBand_lt hW hC hR hRH hr)

theorem startBand_mono (hR : 0 < Rr) {r r' : Nat} (h : r ≤ r') :
    startBand W H Cc Rr r ≤ startBand W H Cc Rr r' := by
  unfold startBand
  exact bandOf_mono _ _ (y0_mono hR H h)

theorem endBand_mono (hR : 0 < Rr) {r r' : Nat} (h : r ≤ r') :
    endBand W H Cc Rr r ≤ endBand W H Cc Rr r' := by
  unfold endBand
  exact bandOf_mono _ _ (by have := y0_mono hR H (show r + 1 ≤ r' + 1 by omega); omega)

/-- KEY: with at least two SB columns, the band ranges of consecutive segment rows overlap. -/
theorem startBand_succ_le_endBand (hW : 2 ≤ W) (hR : 0 < Rr) (hRH : Rr ≤ H) (r : Nat) :
    startBand W H Cc Rr (r + 1) ≤ endBand W H Cc Rr r := by
  unfold startBand endBand
  exact bandOf_mono _ _ (by have := y0_succ_pos hR hRH r; omega)

/-- hence the bottom-edge condition `cst (r+1) ≤ cen r + B` holds for every row (`2 ≤ W`). -/
theorem cst_succ_le_cen_add (hW : 2 ≤ W) (hR : 0 < Rr) (hRH : Rr ≤ H) (r : Nat) :
    cst W H Cc Rr (r + 1) ≤ cen W H Cc Rr r + segB Rr Cc := by
  have := startBand_succ_le_endBand (W := W) (H := H) (Cc := Cc) hW hR hRH r
  unfold cst cen
  rw [Nat.add_mul, Nat.one_mul]; omega

/-- structural facts used by `wfCheck`: `r*B ≤ cst r`, `cen r < (r+1)*B`. -/
theorem le_cst (r : Nat) : r * segB Rr Cc ≤ cst W H Cc Rr r := Nat.le_add_right _ _

theorem cen_lt (hW : 1 ≤ W) (hC : 1 ≤ Cc) (hR : 0 < Rr) (hRH : Rr ≤ H) {r : Nat} (hr : r < Rr) :
    cen W H Cc Rr r < (r + 1) * segB Rr Cc := by
  have := endBand_lt (W := W) (Cc := Cc) hW hC hR hRH hr
  unfold cen
  rw [Nat.add_mul, Nat.one_mul]; omega

theorem cst_add_le_cst_succ (hR : 0 < Rr) (r : Nat) :
    cst W H Cc Rr r + segB Rr Cc ≤ cst W H Cc Rr (r + 1) := by
  have := startBand_mono (W := W) (H := H) (Cc := Cc) hR (show r ≤ r + 1 by omega)
  unfold cst
  rw [Nat.add_mul, Nat.one_mul]; omega

theorem cen_add_le_cen_succ (hR : 0 < Rr) (r : Nat) :
    cen W H Cc Rr r + segB Rr Cc ≤ cen W H Cc Rr (r + 1) := by
  have := endBand_mono (W := W) (H := H) (Cc := Cc) hR (show r ≤ r + 1 by omega)
  unfold cen
  rw [Nat.add_mul, Nat.one_mul]; omega

/-! ### the negative: a one-SB-wide picture (`W = 1`, hence `Cc = 1`, `B = Rr`, `T = H`) with `Rr` segment rows.
  This is the geometry `enc_dec_segments_init` produced before the clamp of EbEncDecSegments.c:83; since the clamp
  the code only ever uses `Rr = 1` here (`effR_W1`), for which these lemmas say nothing harmful. -/

theorem startBand_W1 (hR : 0 < Rr) (hRH : Rr ≤ H) (r : Nat) :
    startBand 1 H 1 Rr r = r := by
  have : startBand 1 H 1 Rr r = rowOf Rr H (y0 Rr H r) := by
    unfold startBand bandOf rowOf segB sbT
    rw [Nat.add_sub_cancel, Nat.add_sub_cancel]
  rw [this, rowOf_y0 hR hRH]

theorem endBand_W1 (hR : 0 < Rr) (hRH : Rr ≤ H) (r : Nat) :
    endBand 1 H 1 Rr r = r := by
  have : endBand 1 H 1 Rr r = rowOf Rr H (y0 Rr H (r + 1) - 1) := by
    unfold endBand bandOf rowOf segB sbT
    rw [Nat.add_sub_cancel, Nat.add_sub_cancel, Nat.sub_self, Nat.zero_add]
  rw [this, rowOf_y0_succ_pred hR hRH]

/-- NEGATIVE: for `W = 1` the first segment of row `r+1` lies strictly beyond `cen r + B`:
    the init code's bottom-edge test `seg + B ≥ starting(r+1)` fails for every segment of row `r`
    (row `r` consists of the single segment `cst r = cen r = r*B + r`). -/
theorem no_bottom_edge_W1 (hR : 0 < Rr) (hRH : Rr ≤ H) (r : Nat) :
    startBand 1 H 1 Rr (r + 1) = r + 1 ∧ endBand 1 H 1 Rr r = r ∧
    cst 1 H 1 Rr r = cen 1 H 1 Rr r ∧
    cen 1 H 1 Rr r + segB Rr 1 < cst 1 H 1 Rr (r + 1) := by
  refine ⟨startBand_W1 hR hRH _, endBand_W1 hR hRH _, ?_, ?_⟩
  · unfold cst cen; rw [startBand_W1 hR hRH, endBand_W1 hR hRH]
  · unfold cst cen
    rw [startBand_W1 hR hRH, endBand_W1 hR hRH, Nat.add_mul, Nat.one_mul]; omega

/-! ## Milestone 3: the dependency edges counted by `enc_dec_segments_init` cover the SB neighbours -/

/-- The edge relation whose in-degrees the init code (lines 146-165) stores in `dependency_map`:
    a *right* edge `s → s+1` for every `s` of a row `r` with `s < ending(r)` (line 155), and a
    *bottom* edge `s → s+B` for every `s` of a row `r < Rr-1` with `s + B ≥ starting(r+1)` (line 159). -/
def cEdge (W H Cc Rr s t : Nat) : Prop :=
  (t = s + 1 ∧ ∃ r, r < Rr ∧ cst W H Cc Rr r ≤ s ∧ s < cen W H Cc Rr r) ∨
  (t = s + segB Rr Cc ∧ ∃ r, r + 1 < Rr ∧ cst W H Cc Rr r ≤ s ∧ s ≤ cen W H Cc Rr r ∧
      cst W H Cc Rr (r + 1) ≤ s + segB Rr Cc)

/-- `s = t` or `t` is reachable from `s` through one or more edges -/
def Reach (W H Cc Rr s t : Nat) : Prop := s = t ∨ Relation.TransGen (cEdge W H Cc Rr) s t


theorem Reach.refl (s : Nat) : Reach W H Cc Rr s s := Or.inl rfl

theorem Reach.trans {a b c : Nat} (h1 : Reach W H Cc Rr a b) (h2 : Reach W H Cc Rr b c) :
    Reach W H Cc Rr a c := by
  rcases h1 with rfl | h1
  · exact h2
  · rcases h2 with rfl | h2
    · exact Or.inr h1
    · exact Or.inr (h1.trans h2)

theorem Reach.tail {a b c : Nat} (h1 : Reach W H Cc Rr a b) (h2 : cEdge W H Cc Rr b c) :
    Reach W H Cc Rr a c :=
  Reach.trans h1 (Or.inr (Relation.TransGen.single h2))

theorem chain_right_aux {r a : Nat} (hr : r < Rr) (ha : cst W H Cc Rr r ≤ a) (n : Nat)
    (hb : a + n ≤ cen W H Cc Rr r) : Reach W H Cc Rr a (a + n) := by
  induction n with
  | zero => exact Or.inl rfl
  | succ n ih =>
    refine Reach.tail (ih (by omega)) ?_
    exact Or.inl ⟨by omega, r, hr, by omega, by omega⟩

/-- right edges along one segment row -/
theorem chain_right {r a b : Nat} (ha : cst W H Cc Rr r ≤ a) (hab : a ≤ b)
    (hb : b ≤ cen W H Cc Rr r) (hr : r < Rr) :
    a = b ∨ Relation.TransGen (cEdge W H Cc Rr) a b := by
  have := chain_right_aux hr ha (b - a) (by omega)
  rwa [Nat.add_sub_cancel' hab] at this

/-- General form: SB `(x', y')` in the same or the previous SB row, on the same or an earlier
    anti-diagonal. -/
theorem seg_deps_general (hR : 1 ≤ Rr) (hRH : Rr ≤ H)
    (hw : 2 ≤ W ∨ Rr = 1) {x y x' y' : Nat} (hx : x < W) (hy : y < H) (hx' : x' < W)
    (hy1 : y' ≤ y) (hy2 : y ≤ y' + 1) (hs : x' + y' ≤ x + y) :
    Reach W H Cc Rr (cseg W H Cc Rr x' y') (cseg W H Cc Rr x y) := by
  have hH : 0 < H := by omega
  have hrr : rowOf Rr H y' ≤ rowOf Rr H y := rowOf_mono _ _ hy1
  have hrr2 : rowOf Rr H y ≤ rowOf Rr H y' + 1 :=
    Nat.le_trans (rowOf_mono _ _ hy2) (rowOf_succ_le hH hRH y')
  have hrlt : rowOf Rr H y < Rr := rowOf_lt hR hy
  have hbb : bandOf (segB Rr Cc) (sbT W H) (x' + y') ≤ bandOf (segB Rr Cc) (sbT W H) (x + y) :=
    bandOf_mono _ _ hs
  have h1 := startBand_le_bandOf (W := W) (Cc := Cc) hR hH x y
  have h2 := bandOf_le_endBand (W := W) (Cc := Cc) hR hH hx y
  have h1' := startBand_le_bandOf (W := W) (Cc := Cc) hR hH x' y'
  have h2' := bandOf_le_endBand (W := W) (Cc := Cc) hR hH hx' y'
  rcases Nat.eq_or_lt_of_le hrr with he | hlt
  · -- same segment row
    refine chain_right (r := rowOf Rr H y) ?_ ?_ ?_ hrlt
    · rw [← he]; exact cst_le_cseg hR hH x' y'
    · unfold cseg; rw [he]; omega
    · exact cseg_le_cen hR hH hx y
  · -- previous segment row
    have he : rowOf Rr H y = rowOf Rr H y' + 1 := by omega
    have hW2 : 2 ≤ W := by
      rcases hw with h | h
      · exact h
      · omega
    have hkey := startBand_succ_le_endBand (W := W) (H := H) (Cc := Cc) hW2 hR hRH (rowOf Rr H y')
    rw [← he] at hkey
    generalize hr : rowOf Rr H y = r at *
    generalize hr' : rowOf Rr H y' = r' at *
    generalize hb : bandOf (segB Rr Cc) (sbT W H) (x + y) = b at *
    generalize hb' : bandOf (segB Rr Cc) (sbT W H) (x' + y') = b' at *
    -- the pivot band
    obtain ⟨m, hm1, hm2, hm3, hm4⟩ : ∃ m, b' ≤ m ∧ startBand W H Cc Rr r ≤ m ∧
        m ≤ endBand W H Cc Rr r' ∧ m ≤ b := ⟨max b' (startBand W H Cc Rr r), by omega, by omega, by omega, by omega⟩
    have hmul : r * segB Rr Cc = r' * segB Rr Cc + segB Rr Cc := by
      rw [he, Nat.add_mul, Nat.one_mul]
    have c1 : Reach W H Cc Rr (r' * segB Rr Cc + b') (r' * segB Rr Cc + m) :=
      chain_right (r := r') (by unfold cst; omega) (by omega) (by unfold cen; omega) (by omega)
    have e : cEdge W H Cc Rr (r' * segB Rr Cc + m) (r * segB Rr Cc + m) := by
      refine Or.inr ⟨by omega, r', by omega, by unfold cst; omega, by unfold cen; omega, ?_⟩
      rw [← he]; unfold cst; omega
    have c2 : Reach W H Cc Rr (r * segB Rr Cc + m) (r * segB Rr Cc + b) :=
      chain_right (r := r) (by unfold cst; omega) (by omega) (by unfold cen; omega) hrlt
    unfold cseg
    rw [hr, hr', hb, hb']
    exact Reach.trans (Reach.tail c1 e) c2


/-- left neighbour `(x-1, y)` -/
theorem seg_deps_left (hR : 1 ≤ Rr) (hRH : Rr ≤ H) (hw : 2 ≤ W ∨ Rr = 1) {x y : Nat}
    (hx : x < W) (hy : y < H) (h1 : 1 ≤ x) :
    Reach W H Cc Rr (cseg W H Cc Rr (x - 1) y) (cseg W H Cc Rr x y) :=
  seg_deps_general hR hRH hw hx hy (by omega) (by omega) (by omega) (by omega)

/-- top neighbour `(x, y-1)` -/
theorem seg_deps_top (hR : 1 ≤ Rr) (hRH : Rr ≤ H) (hw : 2 ≤ W ∨ Rr = 1) {x y : Nat}
    (hx : x < W) (hy : y < H) (h1 : 1 ≤ y) :
    Reach W H Cc Rr (cseg W H Cc Rr x (y - 1)) (cseg W H Cc Rr x y) :=
  seg_deps_general hR hRH hw hx hy hx (by omega) (by omega) (by omega)

/-- top-left neighbour `(x-1, y-1)` -/
theorem seg_deps_topleft (hR : 1 ≤ Rr) (hRH : Rr ≤ H) (hw : 2 ≤ W ∨ Rr = 1) {x y : Nat}
    (hx : x < W) (hy : y < H) (h1 : 1 ≤ x) (h2 : 1 ≤ y) :
    Reach W H Cc Rr (cseg W H Cc Rr (x - 1) (y - 1)) (cseg W H Cc Rr x y) :=
  seg_deps_general hR hRH hw hx hy (by omega) (by omega) (by omega) (by omega)

/-- top-right neighbour `(x+1, y-1)` (same anti-diagonal sum `x + y`) -/
theorem seg_deps_topright (hR : 1 ≤ Rr) (hRH : Rr ≤ H) (hw : 2 ≤ W ∨ Rr = 1) {x y : Nat}
    (hy : y < H) (h1 : x + 1 < W) (h2 : 1 ≤ y) :
    Reach W H Cc Rr (cseg W H Cc Rr (x + 1) (y - 1)) (cseg W H Cc Rr x y) :=
  seg_deps_general hR hRH hw (by omega) hy h1 (by omega) (by omega) (by omega)

/-- HEADLINE (seg_deps_sound): if SB `(x', y')` is the left, top, top-left or top-right neighbour
    of SB `(x, y)` (the SBs whose reconstructed data / contexts SB `(x,y)` reads), then either both
    lie in the same segment, or the segment of `(x,y)` is reachable from the segment of `(x',y')`
    through the right / bottom edges that `enc_dec_segments_init` counts in `dependency_map` —
    so `assign_enc_dec_segments` cannot hand out `(x,y)`'s segment before `(x',y')`'s is finished.
    Hypothesis `2 ≤ W ∨ Rr = 1`: for a one-SB-wide picture with more than one segment row the
    statement is FALSE (`no_cEdge_W1` below: there are no edges at all).  The effective row count of the
    init code satisfies it for every input (`effR_live`, thanks to the clamp of line 83). -/
theorem seg_deps_sound (hR : 1 ≤ Rr) (hRH : Rr ≤ H) (hw : 2 ≤ W ∨ Rr = 1) {x y x' y' : Nat}
    (hx : x < W) (hy : y < H)
    (hn : (1 ≤ x ∧ x' = x - 1 ∧ y' = y) ∨ (1 ≤ y ∧ x' = x ∧ y' = y - 1) ∨
          (1 ≤ x ∧ 1 ≤ y ∧ x' = x - 1 ∧ y' = y - 1) ∨
          (x + 1 < W ∧ 1 ≤ y ∧ x' = x + 1 ∧ y' = y - 1)) :
    cseg W H Cc Rr x' y' = cseg W H Cc Rr x y ∨
    Relation.TransGen (cEdge W H Cc Rr) (cseg W H Cc Rr x' y') (cseg W H Cc Rr x y) := by
  rcases hn with ⟨h1, rfl, rfl⟩ | ⟨h1, rfl, rfl⟩ | ⟨h1, h2, rfl, rfl⟩ | ⟨h1, h2, rfl, rfl⟩
  · exact seg_deps_left hR hRH hw hx hy h1
  · exact seg_deps_top hR hRH hw hx hy h1
  · exact seg_deps_topleft hR hRH hw hx hy h1 h2
  · exact seg_deps_topright hR hRH hw hy h1 h2

/-- edges go strictly forward (the dependency graph is acyclic) -/
theorem cEdge_lt (hC : 1 ≤ Cc) (hR : 1 ≤ Rr) {s t : Nat} (h : cEdge W H Cc Rr s t) : s < t := by
  have := segB_pos hC hR
  rcases h with ⟨rfl, _⟩ | ⟨rfl, _⟩ <;> omega

theorem transGen_cEdge_lt (hC : 1 ≤ Cc) (hR : 1 ≤ Rr) {s t : Nat}
    (h : Relation.TransGen (cEdge W H Cc Rr) s t) : s < t := by
  induction h with
  | single h => exact cEdge_lt hC hR h
  | tail _ h ih => exact Nat.lt_trans ih (cEdge_lt hC hR h)

/-- NEGATIVE: for a one-SB-wide picture (`W = 1`, so `Cc = 1`) the edge relation is EMPTY:
    every row is the single segment `r*B + r`, it has no right edge, and the bottom-edge test
    `seg + B ≥ starting(r+1)` fails.  With `Rr ≥ 2` rows `1 … Rr-1` are never released. -/
theorem no_cEdge_W1 {H Rr : Nat} (hR : 1 ≤ Rr) (hRH : Rr ≤ H) (s t : Nat) : ¬ cEdge 1 H 1 Rr s t := by
  rintro (⟨_, r, _, h1, h2⟩ | ⟨_, r, _, h1, h2, h3⟩)
  · have := (no_bottom_edge_W1 hR hRH r).2.2.1
    omega
  · have := (no_bottom_edge_W1 hR hRH r).2.2.2
    omega

end

/-! ## Milestone 4: the wrapped (`uint32_t` / `uint16_t`) model functions equal the closed forms -/

theorem u32_of_lt {n : Nat} (h : n < 4294967296) : u32 n = n := Nat.mod_eq_of_lt h
theorem u16_of_lt {n : Nat} (h : n < 65536) : u16 n = n := Nat.mod_eq_of_lt h

theorem sub32_pred {a : Nat} (h1 : 1 ≤ a) (h2 : a < 4294967296) : sub32 a 1 = a - 1 := by
  unfold sub32 u32; omega

theorem bandTotalCount_eq {r c : Nat} (h1 : 1 ≤ r + c) (h2 : r + c < 4294967296) :
    bandTotalCount r c = r + c - 1 := by
  unfold bandTotalCount
  rw [u32_of_lt h2, sub32_pred h1 h2]

theorem rowIndex_eq {y Rr : Nat} (H : Nat) (h : y * Rr < 4294967296) :
    rowIndex y Rr H = rowOf Rr H y := by
  unfold rowIndex rowOf
  rw [u32_of_lt h]

theorem bandIndex_eq {x y B : Nat} (T : Nat) (h1 : x + y < 4294967296)
    (h2 : (x + y) * B < 4294967296) : bandIndex x y B T = bandOf B T (x + y) := by
  unfold bandIndex bandOf
  rw [u32_of_lt h1, u32_of_lt h2]

theorem segmentIndex_eq {r b B : Nat} (h : r * B + b < 4294967296) :
    segmentIndex r b B = r * B + b := by
  unfold segmentIndex
  have h1 : r * B < 4294967296 := by omega
  rw [u32_of_lt h1, u32_of_lt h]

/-- generic product bound -/
theorem mul_lt_of_le_of_lt {a b m n : Nat} (ha : a ≤ m) (hb : b < n) (hm : 0 < m) : a * b < m * n :=
  Nat.lt_of_le_of_lt (Nat.mul_le_mul_right b ha) (Nat.mul_lt_mul_of_pos_left hb hm)

theorem row_band_lt {r b Rr B : Nat} (hr : r < Rr) (hb : b < B) : r * B + b < Rr * B := by
  have : (r + 1) * B ≤ Rr * B := Nat.mul_le_mul_right B hr
  rw [Nat.add_mul, Nat.one_mul] at this
  omega

section
variable {W H Cc Rr : Nat}

theorem segB_le_mul (hR : 1 ≤ Rr) : segB Rr Cc ≤ Rr * segB Rr Cc :=
  Nat.le_mul_of_pos_left _ hR

/-- `sbSeg` (the init loop's per-SB segment index, lines 101-106) is `cseg` -/
theorem sbSeg_eq (hW : W ≤ 4096) (hH : H ≤ 4096) (hC : 1 ≤ Cc) (hR : 1 ≤ Rr) (hRH : Rr ≤ H)
    (hN : Rr * segB Rr Cc < 65536) {x y : Nat} (hx : x < W) (hy : y < H) :
    sbSeg (segB Rr Cc) (sbT W H) Rr H (x, y) = cseg W H Cc Rr x y := by
  have hB := segB_le_mul (Cc := Cc) hR
  have e1 : y * Rr < 4294967296 := by
    have := Nat.mul_le_mul (show y ≤ 4096 by omega) (show Rr ≤ 4096 by omega); omega
  have e2 : (x + y) * segB Rr Cc < 4294967296 := by
    have := Nat.mul_le_mul (show x + y ≤ 8192 by omega) (show segB Rr Cc ≤ 65536 by omega); omega
  have e3 : rowOf Rr H y * segB Rr Cc + bandOf (segB Rr Cc) (sbT W H) (x + y) < Rr * segB Rr Cc :=
    row_band_lt (rowOf_lt hR hy) (bandOf_lt (segB_pos hC hR) (by unfold sbT; omega))
  unfold sbSeg cseg
  simp only
  rw [rowIndex_eq H e1, bandIndex_eq _ (by omega) e2, segmentIndex_eq (by omega)]

theorem mkRow_y_eq (hH : H ≤ 4096) (hR : 1 ≤ Rr) (hRH : Rr ≤ H) {r : Nat} (hr : r ≤ Rr) :
    u32 (u32 (r * H) + sub32 Rr 1) / Rr = y0 Rr H r := by
  have e1 : r * H ≤ 4096 * 4096 := Nat.mul_le_mul (by omega) hH
  unfold y0
  rw [sub32_pred hR (by omega), u32_of_lt (show r * H < 4294967296 by omega), u32_of_lt (by omega)]

/-- the row controls computed by the init row loop (lines 122-143) are the closed forms -/
theorem mkRow_eq (hW1 : 1 ≤ W) (hW : W ≤ 4096) (hH : H ≤ 4096) (hC : 1 ≤ Cc) (hR : 1 ≤ Rr)
    (hRH : Rr ≤ H) (hN : Rr * segB Rr Cc < 65536) {r : Nat} (hr : r < Rr) :
    mkRow W H Rr (segB Rr Cc) (sbT W H) r =
      { starting := cst W H Cc Rr r, ending := cen W H Cc Rr r, current := cst W H Cc Rr r } := by
  have hB := segB_le_mul (Cc := Cc) hR
  have hy0 := y0_le_H hR H (show r ≤ Rr by omega)
  have hy1 := y0_le_H hR H (show r + 1 ≤ Rr by omega)
  have hy1p := y0_succ_pos hR hRH r
  have a1 : y0 Rr H r * segB Rr Cc < 4294967296 := by
    have := Nat.mul_le_mul (show y0 Rr H r ≤ 4096 by omega) (show segB Rr Cc ≤ 65536 by omega); omega
  have a2 : (W - 1 + (y0 Rr H (r + 1) - 1)) * segB Rr Cc < 4294967296 := by
    have := Nat.mul_le_mul (show W - 1 + (y0 Rr H (r + 1) - 1) ≤ 8192 by omega)
      (show segB Rr Cc ≤ 65536 by omega); omega
  have b1 : r * segB Rr Cc + startBand W H Cc Rr r < Rr * segB Rr Cc :=
    row_band_lt hr (startBand_lt hW1 hC hR hRH hr)
  have b2 : r * segB Rr Cc + endBand W H Cc Rr r < Rr * segB Rr Cc :=
    row_band_lt hr (endBand_lt hW1 hC hR hRH hr)
  have s1 : u16 (segmentIndex r (bandIndex 0 (y0 Rr H r) (segB Rr Cc) (sbT W H)) (segB Rr Cc))
      = cst W H Cc Rr r := by
    rw [bandIndex_eq _ (by omega) (by rw [Nat.zero_add]; exact a1), Nat.zero_add]
    show u16 (segmentIndex r (startBand W H Cc Rr r) (segB Rr Cc)) = _
    rw [segmentIndex_eq (by omega), u16_of_lt (by omega)]; rfl
  have s2 : u16 (segmentIndex r (bandIndex (sub32 W 1) (sub32 (y0 Rr H (r + 1)) 1)
      (segB Rr Cc) (sbT W H)) (segB Rr Cc)) = cen W H Cc Rr r := by
    rw [sub32_pred hW1 (by omega), sub32_pred hy1p (by omega), bandIndex_eq _ (by omega) a2]
    show u16 (segmentIndex r (endBand W H Cc Rr r) (segB Rr Cc)) = _
    rw [segmentIndex_eq (by omega), u16_of_lt (by omega)]; rfl
  unfold mkRow
  simp only [mkRow_y_eq hH hR hRH (show r ≤ Rr by omega),
    mkRow_y_eq hH hR hRH (show r + 1 ≤ Rr by omega), s1, s2]

end

/-! ### what `initSeg` computes for its scalar fields and row controls -/

theorem ite_lt_eq_min (a b : Nat) : (if a < b then a else b) = min a b := by
  split <;> omega

/-- the effective segment row count after the clamps of `enc_dec_segments_init`: `min(R, H, max rows)`
    (lines 75-78), and 1 for a picture / tile group one SB wide (line 83). -/
def effR (W H R MR : Nat) : Nat := if W = 1 then 1 else min (min R H) MR

theorem effR_pos {W H R MR : Nat} (hH : 1 ≤ H) (hR : 1 ≤ R) (hMR : 1 ≤ MR) : 1 ≤ effR W H R MR := by
  unfold effR; split <;> omega

theorem effR_le_H {W H R MR : Nat} (hH : 1 ≤ H) : effR W H R MR ≤ H := by
  unfold effR; split <;> omega

theorem effR_le_min (W H R MR : Nat) (hH : 1 ≤ H) (hR : 1 ≤ R) (hMR : 1 ≤ MR) :
    effR W H R MR ≤ min (min R H) MR := by
  unfold effR; split <;> omega

theorem effR_le_4096 {W H R MR : Nat} (hH : H ≤ 4096) : effR W H R MR ≤ 4096 := by
  unfold effR; split <;> omega

theorem effR_W1 (H R MR : Nat) : effR 1 H R MR = 1 := by simp [effR]

theorem effR_of_two_le {W : Nat} (hW : 2 ≤ W) (H R MR : Nat) : effR W H R MR = min (min R H) MR := by
  unfold effR; rw [if_neg (by omega)]

/-- with the clamp of line 83 the completion condition of the geometry lemmas always holds -/
theorem effR_live {W : Nat} (hW1 : 1 ≤ W) (H R MR : Nat) : 2 ≤ W ∨ effR W H R MR = 1 := by
  by_cases h : W = 1
  · right; rw [h]; exact effR_W1 H R MR
  · left; omega

theorem initSeg_segRowCount_min (W H C R MC MR : Nat) :
    (initSeg W H C R MC MR).segRowCount = effR W H R MR := by
  simp only [initSeg, ite_lt_eq_min, effR]

theorem initSeg_segBandCount_raw (W H C R MC MR : Nat) :
    (initSeg W H C R MC MR).segBandCount = bandTotalCount (effR W H R MR) (min C W) := by
  simp only [initSeg, ite_lt_eq_min, effR]

theorem initSeg_sbBandCount_raw (W H C R MC MR : Nat) :
    (initSeg W H C R MC MR).sbBandCount = bandTotalCount H W := rfl

theorem initSeg_rows_raw (W H C R MC MR : Nat) :
    (initSeg W H C R MC MR).rows =
      ((List.range (effR W H R MR)).map
        (mkRow W H (effR W H R MR) (bandTotalCount (effR W H R MR) (min C W))
          (bandTotalCount H W))).toArray := by
  simp only [initSeg, ite_lt_eq_min, effR]

theorem rowStart_map_range {n r : Nat} (f : Nat → SegRow) (h : r < n) :
    rowStart ((List.range n).map f).toArray r = (f r).starting := by
  simp [rowStart, h]

theorem rowEnd_map_range {n r : Nat} (f : Nat → SegRow) (h : r < n) :
    rowEnd ((List.range n).map f).toArray r = (f r).ending := by
  simp [rowEnd, h]


theorem getD_map_range {n r : Nat} (f : Nat → SegRow) (h : r < n) :
    ((List.range n).map f).toArray.getD r default = f r := by
  simp [h]

section
variable {W H C R MR : Nat}

/-- Under the size bounds (`W, H ≤ 4096` SBs, `segment_ttl_count < 65536` so the `uint16_t`
    row indices do not wrap) `enc_dec_segments_init` computes exactly the closed forms, with
    `Cc = min C W` (line 74) and `Rr = effR W H R MR` (lines 75-78, 83). -/
theorem initSeg_segBandCount_closed (hW1 : 1 ≤ W) (hW : W ≤ 4096) (hH : H ≤ 4096) (hC : 1 ≤ C) (MC : Nat) :
    (initSeg W H C R MC MR).segBandCount = segB (effR W H R MR) (min C W) := by
  have hE := effR_le_4096 (W := W) (R := R) (MR := MR) hH
  rw [initSeg_segBandCount_raw, bandTotalCount_eq (by omega) (by omega)]; rfl

theorem initSeg_sbBandCount_closed (hW1 : 1 ≤ W) (hW : W ≤ 4096) (hH : H ≤ 4096) (MC : Nat) :
    (initSeg W H C R MC MR).sbBandCount = sbT W H := by
  rw [initSeg_sbBandCount_raw, bandTotalCount_eq (by omega) (by omega)]; rfl

theorem initSeg_segTtlCount_closed (hW1 : 1 ≤ W) (hW : W ≤ 4096) (hH : H ≤ 4096) (hC : 1 ≤ C) (MC : Nat)
    (hN : effR W H R MR * segB (effR W H R MR) (min C W) < 65536) :
    (initSeg W H C R MC MR).segTtlCount =
      effR W H R MR * segB (effR W H R MR) (min C W) := by
  have : (initSeg W H C R MC MR).segTtlCount =
      u32 (effR W H R MR * bandTotalCount (effR W H R MR) (min C W)) := by
    simp only [initSeg, ite_lt_eq_min, effR]
  have hE := effR_le_4096 (W := W) (R := R) (MR := MR) hH
  rw [this, bandTotalCount_eq (by omega) (by omega)]
  exact u32_of_lt (by unfold segB at hN; omega)

theorem initSeg_rows_size (MC : Nat) :
    (initSeg W H C R MC MR).rows.size = effR W H R MR := by
  rw [initSeg_rows_raw]; simp

theorem initSeg_row (hW1 : 1 ≤ W) (hW : W ≤ 4096) (hH1 : 1 ≤ H) (hH : H ≤ 4096) (hC : 1 ≤ C) (MC : Nat)
    (hN : effR W H R MR * segB (effR W H R MR) (min C W) < 65536)
    {r : Nat} (hr : r < effR W H R MR) :
    (initSeg W H C R MC MR).rows.getD r default =
      { starting := cst W H (min C W) (effR W H R MR) r,
        ending := cen W H (min C W) (effR W H R MR) r,
        current := cst W H (min C W) (effR W H R MR) r } := by
  have hE := effR_le_H (W := W) (R := R) (MR := MR) hH1
  rw [initSeg_rows_raw, getD_map_range _ hr, bandTotalCount_eq (by omega) (by omega),
    bandTotalCount_eq (by omega) (by omega)]
  exact mkRow_eq hW1 hW hH (by omega) (by omega) (by omega) hN hr

theorem initSeg_rowStart (hW1 : 1 ≤ W) (hW : W ≤ 4096) (hH1 : 1 ≤ H) (hH : H ≤ 4096) (hC : 1 ≤ C) (MC : Nat)
    (hN : effR W H R MR * segB (effR W H R MR) (min C W) < 65536)
    {r : Nat} (hr : r < effR W H R MR) :
    rowStart (initSeg W H C R MC MR).rows r = cst W H (min C W) (effR W H R MR) r := by
  unfold rowStart; rw [initSeg_row hW1 hW hH1 hH hC MC hN hr]

theorem initSeg_rowEnd (hW1 : 1 ≤ W) (hW : W ≤ 4096) (hH1 : 1 ≤ H) (hH : H ≤ 4096) (hC : 1 ≤ C) (MC : Nat)
    (hN : effR W H R MR * segB (effR W H R MR) (min C W) < 65536)
    {r : Nat} (hr : r < effR W H R MR) :
    rowEnd (initSeg W H C R MC MR).rows r = cen W H (min C W) (effR W H R MR) r := by
  unfold rowEnd; rw [initSeg_row hW1 hW hH1 hH hC MC hN hr]

/-- the per-SB segment index used by the init loop of `initSeg` is `cseg` -/
theorem initSeg_sbSeg (hW1 : 1 ≤ W) (hW : W ≤ 4096) (hH : H ≤ 4096) (hC : 1 ≤ C)
    (hR : 1 ≤ R) (hMR : 1 ≤ MR)
    (hN : effR W H R MR * segB (effR W H R MR) (min C W) < 65536)
    {x y : Nat} (hx : x < W) (hy : y < H) :
    sbSeg (bandTotalCount (effR W H R MR) (min C W)) (bandTotalCount H W) (effR W H R MR) H (x, y)
      = cseg W H (min C W) (effR W H R MR) x y := by
  have hE := effR_le_H (W := W) (R := R) (MR := MR) (show 1 ≤ H by omega)
  have hE1 := effR_pos (W := W) (show 1 ≤ H by omega) hR hMR
  rw [bandTotalCount_eq (by omega) (by omega), bandTotalCount_eq (by omega) (by omega)]
  exact sbSeg_eq hW hH (by omega) (by omega) (by omega) hN hx hy

end

end Seg
