/- Helper lemmas for the DPB model (C19 random access; also used by C01/C08). Core Lean only. -/
import SvtVerif.Model.Dpb

namespace Dpb

variable {P S : Type}

theorem runDec_append (R : P → List S → S) (d : State S) (a b : List (Frame P)) :
    runDec R d (a ++ b) =
      ((runDec R (runDec R d a).1 b).1, (runDec R d a).2 ++ (runDec R (runDec R d a).1 b).2) := by
  induction a generalizing d with
  | nil => simp [runDec]
  | cons f fs ih => simp [runDec, ih]

theorem outputs_append (a b : List (Option S)) : outputs (a ++ b) = outputs a ++ outputs b := by
  simp [outputs, List.filterMap_append]

theorem testBit_255 (j : Fin 8) : Nat.testBit 0xFF j.val = true := by
  revert j; decide

/-- A coded, shown key frame overwrites all eight slots with itself and is output, whatever the DPB held. -/
theorem decStep_shownKey (R : P → List S → S) (d : State S) (f : Frame P) (h : IsShownKey f) :
    decStep R d f =
      (fun _ => { pic := R f.payload [], frameType := .key, showable := f.showableFrame }, some (R f.payload [])) := by
  obtain ⟨h1, h2, h3⟩ := h
  unfold decStep
  rw [h1]
  simp only [refsOf, effRefresh, h2, h3, and_self, if_true, testBit_255]

theorem decStep_shownKey_indep (R : P → List S → S) (d d' : State S) (f : Frame P) (h : IsShownKey f) :
    decStep R d f = decStep R d' f := by
  rw [decStep_shownKey R d f h, decStep_shownKey R d' f h]

theorem runDec_shownKey_indep (R : P → List S → S) (d d' : State S) (f : Frame P) (fs : List (Frame P))
    (h : IsShownKey f) : runDec R d (f :: fs) = runDec R d' (f :: fs) := by
  simp only [runDec, decStep_shownKey_indep R d d' f h]

/-- Whether a frame header produces an output picture. -/
def producesOutput (f : Frame P) : Bool := f.showExisting.isSome || f.showFrame

theorem decStep_output_isSome (R : P → List S → S) (d : State S) (f : Frame P) :
    (decStep R d f).2.isSome = producesOutput f := by
  unfold decStep producesOutput
  cases h : f.showExisting with
  | some i => simp only; split <;> simp
  | none => simp only; cases f.showFrame <;> simp

theorem outputs_length (R : P → List S → S) (d : State S) (fs : List (Frame P)) :
    (outputs (runDec R d fs).2).length = (fs.filter producesOutput).length := by
  induction fs generalizing d with
  | nil => rfl
  | cons f fs ih =>
    have hs := decStep_output_isSome R d f
    simp only [runDec, outputs, List.filterMap_cons, List.filter_cons]
    cases ho : (decStep R d f).2 with
    | none =>
      rw [ho] at hs
      have : producesOutput f = false := by simpa using hs.symm
      simp only [id, this]
      exact ih _
    | some x =>
      rw [ho] at hs
      have : producesOutput f = true := by simpa using hs.symm
      simp only [id, this, if_true, List.length_cons]
      exact congrArg (· + 1) (ih _)

end Dpb
