/-
  Helper lemmas for C20 (tool gating).  Core Lean only; the tile arithmetic lives in Lemmas/ToolGateTile.lean.
-/
import SvtVerif.Model.ToolGate

namespace ToolGate

@[simp] theorem truthy_zero : truthy 0 = false := by decide
@[simp] theorem truthy_one : truthy 1 = true := by decide
@[simp] theorem u8_zero : u8 0 = 0 := by decide
@[simp] theorem u8_one : u8 1 = 1 := by decide
@[simp] theorem default_ne_zero : ((0 : Int) == DEFAULT) = false := by decide
@[simp] theorem default_ne_one : ((1 : Int) == DEFAULT) = false := by decide
@[simp] theorem zero_ne_default' : ((0 : Int) != DEFAULT) = true := by decide
@[simp] theorem one_ne_default' : ((1 : Int) != DEFAULT) = true := by decide
@[simp] theorem zero_eq_neg_one : ((0 : Int) == -1) = false := by decide

/-- The internal allow_intrabc can only be set on an I slice. -/
theorem allowIntrabc_inter (c : Cfg) (p : Pic) (h : p.iSlice = false) : allowIntrabc c p = false := by
  simp [allowIntrabc, h]

/-- The decoded allow_intrabc implies allow_screen_content_tools. -/
theorem hdrAllowIntrabc_imp_sct (c : Cfg) (p : Pic) (h : hdrAllowIntrabc c p = true) : allowSct c p = true := by
  simp [hdrAllowIntrabc] at h; exact h.1.1

/-- No screen content ⇒ no palette level, whatever the palette configuration. -/
theorem palette_zero_of_no_sct (c : Cfg) (p : Pic) (h : allowSct c p = false) : picPaletteLevel c p = 0 := by
  simp [picPaletteLevel, h]

theorem mdPalette_le_pic (c : Cfg) (p : Pic) (pd : Nat) (h : picPaletteLevel c p = 0) : mdPaletteLevel c p pd = 0 := by
  unfold mdPaletteLevel; split <;> simp [h]

theorem all_zero_replicate7 : ([0, 0, 0, 0, 0, 0, 0] : List Nat).all (· == 0) = true := by decide

end ToolGate
