/-
  Arithmetic normal forms for the generated model of load_default_buffer_configuration_settings
  (Gen/BufCfg.lean): every C-semantics operation that occurs there is rewritten into `+ * / %` on `Int`
  with literal moduli and `if`s on linear conditions, which `omega` decides; plus the range of `set_parent_pcs`.
  Core Lean only.
-/
import SvtVerif.CSem
import SvtVerif.Gen.BufCfg
namespace BufCfgLemmas
open CSem

theorem wrapU32_eq (x : Int) : wrapU 32 x = x % 4294967296 := rfl
theorem wrapU8_eq (x : Int) : wrapU 8 x = x % 256 := rfl
theorem wrapU64_eq (x : Int) : wrapU 64 x = x % 18446744073709551616 := rfl

/-- conversion to `int32_t` as arithmetic -/
theorem wrapS32_eq (x : Int) : wrapS 32 x = (x + 2147483648) % 4294967296 - 2147483648 := by
  unfold wrapS
  rw [BitVec.toInt_ofInt, Int.bmod_def]
  split <;> omega

/-- C division of a non-negative dividend is floor division -/
theorem cdiv_of_nonneg {a b : Int} (ha : 0 ≤ a) : cdiv a b = a / b := Int.tdiv_eq_ediv_of_nonneg ha

/-- C division (truncation toward zero) in terms of floor division -/
theorem cdiv_ite (a b : Int) : cdiv a b = if 0 ≤ a then a / b else -((-a) / b) := by
  unfold cdiv
  split
  · exact Int.tdiv_eq_ediv_of_nonneg ‹_›
  · rename_i h
    have h' : 0 ≤ -a := by omega
    have := Int.tdiv_eq_ediv_of_nonneg (b := b) h'
    rw [← this, Int.neg_tdiv, Int.neg_neg]

theorem shr_lit1 (a : Int) : shr a 1 = a / 2 := rfl
theorem shr_lit2 (a : Int) : shr a 2 = a / 4 := rfl
theorem shr_lit16 (a : Int) : shr a 16 = a / 65536 := rfl
/-- `x << 1` as clang prints it for a literal count -/
theorem shl_lit1 (a : Int) : a * 2 ^ (1 : Int).toNat = a * 2 := by simp

/-- `a << k` for the small literal counts that occur (hierarchical_levels, tile_rows) -/
theorem shlRaw_lit (a : Int) :
    shlRaw a 0 = a ∧ shlRaw a 1 = a * 2 ∧ shlRaw a 2 = a * 4 ∧ shlRaw a 3 = a * 8 ∧ shlRaw a 4 = a * 16 ∧
    shlRaw a 5 = a * 32 ∧ shlRaw a 6 = a * 64 := by
  refine ⟨?_, ?_, ?_, ?_, ?_, ?_, ?_⟩ <;> simp [shlRaw]

/-- rewrite every C-semantics operation of the generated model into `+ * / %` with literal moduli, C division into
    floor division under an `if`, and make every branch condition a proposition (`omega` then case-splits the `if`s) -/
macro "bufcfg_norm" : tactic =>
  `(tactic| simp only [wrapU32_eq, wrapU8_eq, wrapS32_eq, shr_lit1, shr_lit2, shr_lit16, shl_lit1, cdiv_ite, beq_iff_eq, bne_iff_ne,
      Bool.and_eq_true, Bool.or_eq_true, decide_eq_true_eq, b2i,
      (shlRaw_lit 1).1, (shlRaw_lit 1).2.1, (shlRaw_lit 1).2.2.1, (shlRaw_lit 1).2.2.2.1, (shlRaw_lit 1).2.2.2.2.1,
      (shlRaw_lit 1).2.2.2.2.2.1, (shlRaw_lit 1).2.2.2.2.2.2,
      (shlRaw_lit 2).1, (shlRaw_lit 2).2.1, (shlRaw_lit 2).2.2.1, (shlRaw_lit 2).2.2.2.1, (shlRaw_lit 2).2.2.2.2.1,
      (shlRaw_lit 2).2.2.2.2.2.1, (shlRaw_lit 2).2.2.2.2.2.2])

/-- drop every `% m` whose argument is provably in range (omega is incomplete on products with 2^32) -/
macro "bufcfg_mod" : tactic =>
  `(tactic| (try simp (disch := omega) only [Int.emod_eq_of_lt] at *))

open Gen.BufCfg in
/-- EbEncHandle.c:313-362 `set_parent_pcs`: for hierarchical_levels 0..5 and any 32-bit frame_rate the result is between
    3 (= (2 << 0) + 1) and 360 (= 3 * 120), for every core count and resolution class; in particular never -1. -/
theorem setParentPcs_range (fr hl cc res : Int) (hhl : 0 ≤ hl ∧ hl ≤ 5) (hfr : 0 ≤ fr ∧ fr < 4294967296) :
    3 ≤ setParentPcs fr hl cc res ∧ setParentPcs fr hl cc res ≤ 360 := by
  unfold setParentPcs
  rw [if_pos (by decide)]
  extract_lets fps minp fps2 fps3 pc0 pcF a1 a2 a3 a4 b1 b2 b3 b4 c1 c2 c3 d1 d2 d3
  have hminp : 3 ≤ minp ∧ minp ≤ 65 := by
    have hl6 : hl = 0 ∨ hl = 1 ∨ hl = 2 ∨ hl = 3 ∨ hl = 4 ∨ hl = 5 := by omega
    rcases hl6 with h | h | h | h | h | h <;> subst h <;> simp only [minp] <;> bufcfg_norm <;> omega
  have hfps3 : 24 ≤ fps3 ∧ fps3 ≤ 120 := by
    simp only [fps3, fps2, fps]; bufcfg_norm; omega
  have hpc0 : 24 ≤ pc0 ∧ pc0 ≤ 120 := by
    simp only [pc0]; bufcfg_norm; omega
  have hpcF : pcF = minp := rfl
  clear_value minp fps3 pc0 pcF
  have h1 : 24 ≤ a1 ∧ a1 ≤ 120 := by simp only [a1]; bufcfg_norm; bufcfg_mod; omega
  have h2 : 36 ≤ a2 ∧ a2 ≤ 180 := by simp only [a2]; bufcfg_norm; bufcfg_mod; omega
  have h3 : 48 ≤ a3 ∧ a3 ≤ 240 := by simp only [a3]; bufcfg_norm; bufcfg_mod; omega
  have h4 : 72 ≤ a4 ∧ a4 ≤ 360 := by simp only [a4]; bufcfg_norm; bufcfg_mod; omega
  clear_value a1 a2 a3 a4
  have hd : 3 ≤ d3 ∧ d3 ≤ 360 := by
    simp only [d3, d2, d1, c3, c2, c1, b4, b3, b2, b1]; bufcfg_norm; omega
  clear_value d3
  bufcfg_norm
  omega

end BufCfgLemmas
