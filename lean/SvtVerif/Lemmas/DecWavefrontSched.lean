/-
  C09 — one row wavefront: phase transitions of a step, the wavefront invariant `Wave` (needs `PassSound`),
  the order of the processing log, progress (deadlock freedom relative to the row gates) and the termination measure.
-/
import SvtVerif.Lemmas.DecWavefront

namespace DecWf

/-! ## what a step does to the row phases -/

/-- the phase changes a step can make to row `r` in state `st` -/
inductive Tr (s : Stage) (st : WSt) (r : Nat) : Ph → Ph → Prop
  | pick : r = st.next → Tr s st r Ph.unpicked Ph.gate
  | enter1 : s.en = true → 0 < s.W → Tr s st r Ph.gate (Ph.at 0)
  | enter2 : ¬ (s.en = true ∧ 0 < s.W) → Tr s st r Ph.gate Ph.tail
  | dec (j : Nat) : (r = 0 ∨ pass s j (lget st.ctr (r - 1)) = true) → Tr s st r (Ph.at j) (Ph.busy j)
  | pub1 (j : Nat) : j + 1 < s.W → Tr s st r (Ph.busy j) (Ph.at (j + 1))
  | pub2 (j : Nat) : ¬ j + 1 < s.W → Tr s st r (Ph.busy j) Ph.tail
  | fin : Tr s st r Ph.tail Ph.fin

/-- every step either leaves the phases alone or changes exactly one row by one of the transitions `Tr`;
    the log grows exactly at a `dec` transition -/
theorem step_tr {s : Stage} {st st' : WSt} {g : Nat → Bool} {op : Op} (hi : Inv s st)
    (h : step s g st op = some st') :
    (st'.ph = st.ph ∧ st'.log = st.log ∧ st'.ctr = st.ctr) ∨
    ∃ r p', r < s.H ∧ st'.ph = lset st.ph r p' ∧ Tr s st r (lget st.ph r) p' ∧
      (st'.log = match p' with | Ph.busy j => (r, j) :: st.log | _ => st.log) := by
  cases op with
  | pick =>
    simp only [step] at h
    split at h
    · simp at h
    · split at h
      · rename_i h2
        injection h with h; subst h
        have hlt : st.next < s.H := by have := hi.next_le; omega
        refine Or.inr ⟨st.next, Ph.gate, hlt, rfl, ?_, rfl⟩
        rw [ph_next_unpicked hi hlt]; exact Tr.pick rfl
      · split at h <;> (injection h with h; subst h; exact Or.inl ⟨rfl, rfl, rfl⟩)
  | enter r =>
    simp only [step] at h
    split at h
    · rename_i hc
      injection h with h; subst h
      have hr : r < s.H := ph_lt hi (by rw [hc.1]; simp)
      refine Or.inr ⟨r, _, hr, rfl, ?_, ?_⟩
      · rw [hc.1]; split
        · rename_i h1; exact Tr.enter1 h1.1 h1.2
        · rename_i h1; exact Tr.enter2 h1
      · split <;> rfl
    · simp at h
  | dec r =>
    simp only [step] at h
    split at h
    · rename_i j hg
      split at h
      · rename_i hc
        injection h with h; subst h
        have hr : r < s.H := ph_lt hi (by rw [hg]; simp)
        refine Or.inr ⟨r, Ph.busy j, hr, rfl, ?_, rfl⟩
        rw [hg]; exact Tr.dec j hc
      · simp at h
    · simp at h
  | pub r =>
    simp only [step] at h
    split at h
    · rename_i j hg
      injection h with h; subst h
      have hr : r < s.H := ph_lt hi (by rw [hg]; simp)
      refine Or.inr ⟨r, _, hr, rfl, ?_, ?_⟩
      · rw [hg]; split
        · rename_i h1; exact Tr.pub1 j h1
        · rename_i h1; exact Tr.pub2 j h1
      · split <;> rfl
    · simp at h
  | fin r =>
    simp only [step] at h
    split at h
    · rename_i hg
      have hr : r < s.H := ph_lt hi (by rw [hg]; simp)
      split at h <;> (injection h with h; subst h; refine Or.inr ⟨r, Ph.fin, hr, rfl, ?_, rfl⟩; rw [hg]; exact Tr.fin)
    · simp at h
  | chk =>
    simp only [step] at h
    split at h
    · simp at h
    · split at h <;> (injection h with h; subst h; exact Or.inl ⟨rfl, rfl, rfl⟩)

theorem cnt_le_W {s : Stage} {st : WSt} (hi : Inv s st) {r : Nat} (hr : r < s.H) : cnt s (lget st.ph r) ≤ s.W := by
  cases hp : lget st.ph r with
  | unpicked => simp [cnt]
  | gate => simp [cnt]
  | «at» j => have := (hi.col_lt r j hr (Or.inl hp)).1; simp [cnt]; omega
  | busy j => have := (hi.col_lt r j hr (Or.inr hp)).1; simp [cnt]; omega
  | tail => simp [cnt]; exact Wb_le s
  | fin => simp [cnt]; exact Wb_le s

/-! ## the wavefront invariant -/

/-- when row `r+1` has started `b ≥ 1` columns, row `r` has finished at least `min (b+1) W` -/
def Wave (s : Stage) (st : WSt) : Prop :=
  ∀ r, r + 1 < s.H → 1 ≤ beg s (lget st.ph (r + 1)) →
    min (beg s (lget st.ph (r + 1)) + 1) s.W ≤ cnt s (lget st.ph r)

theorem tr_beg_cnt {s : Stage} {st : WSt} {r : Nat} {p p' : Ph} (hi : Inv s st) (hr : r < s.H)
    (hp : lget st.ph r = p) (t : Tr s st r p p') :
    cnt s p ≤ cnt s p' ∧ ((beg s p' = beg s p) ∨ (∃ j, p = Ph.at j ∧ p' = Ph.busy j)) := by
  cases t with
  | pick _ => simp [cnt, beg]
  | enter1 _ _ => simp [cnt, beg]
  | enter2 h => simp [cnt, beg, Wb_zero h]
  | dec j _ => exact ⟨by simp [cnt], Or.inr ⟨j, rfl, rfl⟩⟩
  | pub1 j _ => simp [cnt, beg]
  | pub2 j h =>
    obtain ⟨h1, h2⟩ := hi.col_lt r j hr (Or.inr hp)
    have : Wb s = s.W := Wb_eq h2 (by omega)
    simp [cnt, beg, this]; omega
  | fin => simp [cnt, beg]

theorem wave_step {s : Stage} (hs : PassSound s) {st st' : WSt} {g : Nat → Bool} {op : Op} (hi : Inv s st)
    (hw : Wave s st) (h : step s g st op = some st') : Wave s st' := by
  rcases step_tr hi h with ⟨e, _, _⟩ | ⟨r, p', hr, e, t, _⟩
  · intro r' h1 h2; rw [e] at h2 ⊢; exact hw r' h1 h2
  · have hl : r < st.ph.length := by rw [hi.len_ph]; exact hr
    generalize hp0 : lget st.ph r = p0 at t
    obtain ⟨hc, hb⟩ := tr_beg_cnt hi hr hp0 t
    intro r' h1 h2
    rw [e] at h2 ⊢
    -- upper row r', lower row r'+1
    rcases lget_ph_cases st.ph r (r' + 1) p' hl with ⟨e1, g1⟩ | ⟨e1, g1⟩
    · -- the lower row changed
      have hne : r' ≠ r := by omega
      rw [lget_lset_ne _ _ _ _ (fun x => hne x.symm)]
      rw [g1] at h2 ⊢
      rcases hb with hb | ⟨j, hp, hp'⟩
      · rw [hb] at h2 ⊢; rw [← hp0, ← e1] at h2 ⊢; exact hw r' h1 h2
      · -- dec: the spin was left
        subst hp hp'
        cases t with
        | dec _ hpass =>
          have hr0 : r ≠ 0 := by omega
          rcases hpass with h0 | hpass
          · exact absurd h0 hr0
          · have hr' : r' < s.H := by omega
            have hrr : r - 1 = r' := by omega
            rw [hrr, hi.ctr_ok r' hr'] at hpass
            have hjW := (hi.col_lt r j hr (Or.inl hp0)).1
            have := hs j _ hjW (cnt_le_W hi hr') hpass
            simpa [beg] using this
    · rw [g1] at h2 ⊢
      rcases lget_ph_cases st.ph r r' p' hl with ⟨e2, g2⟩ | ⟨e2, g2⟩
      · subst e2; rw [g2]; have := hw r' h1 h2; rw [hp0] at this; omega
      · rw [g2]; exact hw r' h1 h2

theorem wave_init (s : Stage) : Wave s (initW s) := by
  intro r h1 h2
  have : lget (initW s).ph (r + 1) = Ph.unpicked := by simp [initW, lget_replicate, h1]
  rw [this] at h2; simp [beg] at h2

theorem reach_wave {s : Stage} (hs : PassSound s) {st : WSt} (h : Reach s st) : Wave s st := by
  induction h with
  | init => exact wave_init s
  | step hr hst ih => exact wave_step hs (reach_inv hr) ih hst

/-- the wavefront cone: `k` rows up, `min (b + k) W` columns are finished -/
theorem wave_chain {s : Stage} {st : WSt} (_hi : Inv s st) (hw : Wave s st) {r : Nat} (hr : r < s.H)
    (hb : 1 ≤ beg s (lget st.ph r)) (hW : 1 ≤ s.W) :
    ∀ k, 1 ≤ k → k ≤ r → min (beg s (lget st.ph r) + k) s.W ≤ cnt s (lget st.ph (r - k)) := by
  intro k
  induction k with
  | zero => intro h; omega
  | succ k ih =>
    intro _ hk
    rcases Nat.eq_zero_or_pos k with h0 | h0
    · subst h0
      have := hw (r - 1) (by omega) (by rw [show r - 1 + 1 = r by omega]; exact hb)
      rw [show r - 1 + 1 = r by omega] at this
      simpa using this
    · have h1 := ih h0 (by omega)
      have h2 := cnt_le_beg s (lget st.ph (r - k))
      have h3 : 1 ≤ beg s (lget st.ph (r - k)) := by omega
      have := hw (r - (k + 1)) (by omega) (by rw [show r - (k + 1) + 1 = r - k by omega]; exact h3)
      rw [show r - (k + 1) + 1 = r - k by omega] at this
      omega

/-! ## order of the processing log -/

/-- `(r', j')` lies in the wavefront cone of `(r, j)`: left of it in the same row, or `k` rows up and at most
    `k` columns to the right (clipped to the row) -/
def cone (W r j r' j' : Nat) : Prop := (r' = r ∧ j' < j) ∨ (r' < r ∧ j' < min (j + 1 + (r - r')) W)

/-- newest-first log: every entry is new and its whole cone was logged before it -/
def LogOk (W : Nat) : List (Nat × Nat) → Prop
  | [] => True
  | p :: l => p ∉ l ∧ (∀ r' j', cone W p.1 p.2 r' j' → (r', j') ∈ l) ∧ LogOk W l

theorem logok_step {s : Stage} (hs : PassSound s) {st st' : WSt} {g : Nat → Bool} {op : Op} (hi : Inv s st)
    (hw : Wave s st) (hl : LogOk s.W st.log) (h : step s g st op = some st') : LogOk s.W st'.log := by
  have hi' := inv_step hi h
  have hw' := wave_step hs hi hw h
  rcases step_tr hi h with ⟨_, e, _⟩ | ⟨r, p', hr, e, t, el⟩
  · rw [e]; exact hl
  · generalize hp0 : lget st.ph r = p0 at t
    cases t with
    | dec j hpass =>
      have hp : Ph.at j = lget st.ph r := hp0.symm
      simp only at el
      rw [el]
      have hlen : r < st.ph.length := by rw [hi.len_ph]; exact hr
      have hnew : lget st'.ph r = Ph.busy j := by rw [e]; exact lget_lset_self _ _ _ hlen
      have hjW := (hi'.col_lt r j hr (Or.inr hnew)).1
      refine ⟨?_, ?_, hl⟩
      · intro hm
        have := (hi.log_iff r j).1 hm
        rw [← hp] at this; simp [beg] at this
      · intro r' j' hc
        rcases hc with ⟨e1, h1⟩ | ⟨h0, h1⟩
        · subst e1; exact (hi.log_iff r' j').2 ⟨hr, by rw [← hp]; simpa [beg] using h1⟩
        · have hb : 1 ≤ beg s (lget st'.ph r) := by rw [hnew]; simp [beg]
          have := wave_chain hi' hw' hr hb (by omega) (r - r') (by omega) (by omega)
          rw [hnew, show r - (r - r') = r' by omega] at this
          simp only [beg] at this
          have hsame : lget st'.ph r' = lget st.ph r' := by
            rw [e]; exact lget_lset_ne _ _ _ _ (by omega)
          rw [hsame] at this
          have h2 := cnt_le_beg s (lget st.ph r')
          exact (hi.log_iff r' j').2 ⟨by omega, by omega⟩
    | pick _ => simp only at el; rw [el]; exact hl
    | enter1 _ _ => simp only at el; rw [el]; exact hl
    | enter2 _ => simp only at el; rw [el]; exact hl
    | pub1 _ _ => simp only at el; rw [el]; exact hl
    | pub2 _ _ => simp only at el; rw [el]; exact hl
    | fin => simp only at el; rw [el]; exact hl

theorem reach_logok {s : Stage} (hs : PassSound s) {st : WSt} (h : Reach s st) : LogOk s.W st.log := by
  induction h with
  | init => simp [initW, LogOk]
  | step hr hst ih => exact logok_step hs (reach_inv hr) (reach_wave hs hr) ih hst

theorem logok_nodup {W : Nat} {l : List (Nat × Nat)} (h : LogOk W l) : l.Nodup := by
  induction l with
  | nil => exact List.nodup_nil
  | cons p t ih => exact List.nodup_cons.2 ⟨h.1, ih h.2.2⟩

theorem logok_split {W : Nat} {post pre : List (Nat × Nat)} {p : Nat × Nat} (h : LogOk W (post ++ p :: pre)) :
    p ∉ pre ∧ ∀ r' j', cone W p.1 p.2 r' j' → (r', j') ∈ pre := by
  induction post with
  | nil => exact ⟨h.1, h.2.1⟩
  | cons q t ih => exact ih h.2.2

/-! ## progress -/

def AllFin (s : Stage) (st : WSt) : Prop := ∀ r, r < s.H → lget st.ph r = Ph.fin

/-- least row that is not finished -/
theorem exists_min_unfin {s : Stage} {st : WSt} (h : ¬ AllFin s st) :
    ∃ r, r < s.H ∧ lget st.ph r ≠ Ph.fin ∧ ∀ r', r' < r → lget st.ph r' = Ph.fin := by
  have : ∃ r, r < s.H ∧ lget st.ph r ≠ Ph.fin := by
    apply Decidable.byContradiction
    intro hn
    apply h
    intro r hr
    apply Decidable.byContradiction
    intro hne
    exact hn ⟨r, hr, hne⟩
  obtain ⟨r, hr, hne⟩ := this
  induction r using Nat.strongRecOn with
  | _ r ih =>
    by_cases hall : ∀ r', r' < r → lget st.ph r' = Ph.fin
    · exact ⟨r, hr, hne, hall⟩
    · have : ∃ r', r' < r ∧ lget st.ph r' ≠ Ph.fin := by
        apply Decidable.byContradiction
        intro hn
        apply hall
        intro r' hr'
        apply Decidable.byContradiction
        intro hne'
        exact hn ⟨r', hr', hne'⟩
      obtain ⟨r', hr', hne'⟩ := this
      exact ih r' hr' (by omega) hne'

/-- **progress**: in a state that satisfies the invariant, with at least one worker, if some row is not finished
    then a step is enabled — or the least unfinished row is held at its (closed) row gate, i.e. the stage waits for
    the previous stage. -/
theorem progress {s : Stage} {st : WSt} (g : Nat → Bool) (hi : Inv s st) (hn : 1 ≤ s.n) (hfin : ¬ AllFin s st) :
    (∃ op st', step s g st op = some st') ∨
    (∃ r, r < s.H ∧ lget st.ph r = Ph.gate ∧ g r = false ∧ ∀ r', r' < r → lget st.ph r' = Ph.fin) := by
  obtain ⟨r, hr, hne, hmin⟩ := exists_min_unfin hfin
  cases hp : lget st.ph r with
  | fin => exact absurd hp hne
  | unpicked =>
    -- r is the next row to hand out and nobody is inside a row
    have hnext : st.next = r := by
      have h1 : ¬ r < st.next := fun hh => (hi.picked r hr).1 hh hp
      rcases Nat.lt_or_ge st.next r with h2 | h2
      · have := hmin st.next h2
        have h3 := (hi.picked st.next (by omega)).2 (by rw [this]; simp)
        omega
      · omega
    have hhold : sumf hold st.ph = 0 := by
      apply Decidable.byContradiction
      intro hpos
      have hpos' : 0 < sumf hold st.ph := by omega
      -- some row has hold = 1
      have : ∃ r', r' < s.H ∧ hold (lget st.ph r') ≠ 0 := by
        apply Decidable.byContradiction
        intro hno
        have hz : ∀ i, i < st.ph.length → hold (lget st.ph i) = 0 := by
          intro i hi'
          apply Decidable.byContradiction
          intro hne'
          exact hno ⟨i, by rw [← hi.len_ph]; exact hi', hne'⟩
        have : sumf hold st.ph = 0 := by
          clear hpos hpos'
          generalize st.ph = l at hz
          induction l with
          | nil => simp [sumf]
          | cons a t ih =>
            have h0 := hz 0 (by simp)
            have ht : ∀ i, i < t.length → hold (lget t i) = 0 := by
              intro i hi'
              have := hz (i + 1) (by simpa using hi')
              simpa [lget] using this
            have := ih ht
            simp [sumf, lget] at h0 this ⊢
            omega
        omega
      obtain ⟨r', hr', hh⟩ := this
      rcases Nat.lt_or_ge r' r with h1 | h1
      · rw [hmin r' h1] at hh; simp [hold] at hh
      · have : lget st.ph r' = Ph.unpicked := by
          apply Decidable.byContradiction
          intro hne'
          have := (hi.picked r' hr').2 hne'
          omega
        rw [this] at hh; simp [hold] at hh
    have hw := hi.workers
    have hout : st.out = 0 := by
      rcases Nat.eq_zero_or_pos st.out with h0 | h0
      · exact h0
      · have := hi.out_next h0; omega
    rcases Nat.eq_zero_or_pos st.idle with h0 | h0
    · have hc : st.chk ≠ 0 := by omega
      refine Or.inl ⟨Op.chk, ?_⟩
      simp only [step, hc, if_false]
      split <;> exact ⟨_, rfl⟩
    · have hc : st.idle ≠ 0 := by omega
      have hne' : st.next ≠ s.H := by omega
      refine Or.inl ⟨Op.pick, ?_⟩
      simp only [step, hc, if_false, hne', ne_eq, not_false_eq_true, if_true]
      exact ⟨_, rfl⟩
  | gate =>
    cases hg : g r with
    | true => exact Or.inl ⟨Op.enter r, by simp only [step, hp, hg, and_self, if_true]; exact ⟨_, rfl⟩⟩
    | false => exact Or.inr ⟨r, hr, hp, hg, hmin⟩
  | «at» j =>
    refine Or.inl ⟨Op.dec r, ?_⟩
    simp only [step, hp]
    have hc : r = 0 ∨ pass s j (lget st.ctr (r - 1)) = true := by
      rcases Nat.eq_zero_or_pos r with h0 | h0
      · exact Or.inl h0
      · right
        obtain ⟨hjW, hen⟩ := hi.col_lt r j hr (Or.inl hp)
        rw [hi.ctr_ok (r - 1) (by omega), hmin (r - 1) (by omega)]
        simp only [cnt, Wb_eq hen (by omega)]
        exact passLive_all s j hjW
    simp only [hc, if_true]
    exact ⟨_, rfl⟩
  | busy j => exact Or.inl ⟨Op.pub r, by simp only [step, hp]; exact ⟨_, rfl⟩⟩
  | tail =>
    refine Or.inl ⟨Op.fin r, ?_⟩
    simp only [step, hp, if_true]
    split <;> exact ⟨_, rfl⟩

/-! ## termination measure -/

/-- remaining work of a row -/
def rem (s : Stage) : Ph → Nat
  | .unpicked => 2 * s.W + 6
  | .gate => 2 * s.W + 5
  | .at j => 2 * (s.W - j) + 4
  | .busy j => 2 * (s.W - j) + 3
  | .tail => 4
  | .fin => 0

/-- strictly decreasing along every step -/
def mu (s : Stage) (st : WSt) : Nat :=
  sumf (rem s) st.ph + 2 * st.idle + (if st.next = s.H then st.chk else 3 * st.chk)

theorem mu_step {s : Stage} {st st' : WSt} {g : Nat → Bool} {op : Op} (hi : Inv s st)
    (h : step s g st op = some st') : mu s st' < mu s st := by
  cases op with
  | pick =>
    simp only [step] at h
    split at h
    · simp at h
    · rename_i h1
      split at h
      · rename_i h2
        injection h with h; subst h
        have hlt : st.next < s.H := by have := hi.next_le; omega
        have hl : st.next < st.ph.length := by rw [hi.len_ph]; exact hlt
        have := sumf_lset (rem s) st.ph st.next Ph.gate hl
        rw [ph_next_unpicked hi hlt] at this
        simp only [rem] at this
        simp only [mu]
        have h3 : ¬ st.next = s.H := h2
        simp only [h3, if_false]
        split <;> omega
      · rename_i h2
        have hn : st.next = s.H := by simpa using h2
        split at h <;> (injection h with h; subst h; simp only [mu, hn, if_true]; omega)
  | enter r =>
    simp only [step] at h
    split at h
    · rename_i hc
      injection h with h; subst h
      have hr : r < s.H := ph_lt hi (by rw [hc.1]; simp)
      have hl : r < st.ph.length := by rw [hi.len_ph]; exact hr
      have hp1 : rem s (if s.en = true ∧ 0 < s.W then Ph.at 0 else Ph.tail) < 2 * s.W + 5 := by
        split <;> simp [rem] <;> omega
      have hg' : rem s Ph.gate = 2 * s.W + 5 := rfl
      have := sumf_lset (rem s) st.ph r (if s.en = true ∧ 0 < s.W then Ph.at 0 else Ph.tail) hl
      rw [hc.1, hg'] at this
      simp only [mu]
      omega
    · simp at h
  | dec r =>
    simp only [step] at h
    split at h
    · rename_i j hg
      split at h
      · injection h with h; subst h
        have hr : r < s.H := ph_lt hi (by rw [hg]; simp)
        have hl : r < st.ph.length := by rw [hi.len_ph]; exact hr
        have := sumf_lset (rem s) st.ph r (Ph.busy j) hl
        rw [hg] at this
        simp only [rem] at this
        simp only [mu]
        omega
      · simp at h
    · simp at h
  | pub r =>
    simp only [step] at h
    split at h
    · rename_i j hg
      injection h with h; subst h
      have hr : r < s.H := ph_lt hi (by rw [hg]; simp)
      have hl : r < st.ph.length := by rw [hi.len_ph]; exact hr
      have hjW := (hi.col_lt r j hr (Or.inr hg)).1
      have hp1 : rem s (if j + 1 < s.W then Ph.at (j + 1) else Ph.tail) < 2 * (s.W - j) + 3 := by
        split <;> simp [rem] <;> omega
      have hg' : rem s (Ph.busy j) = 2 * (s.W - j) + 3 := rfl
      have := sumf_lset (rem s) st.ph r (if j + 1 < s.W then Ph.at (j + 1) else Ph.tail) hl
      rw [hg, hg'] at this
      simp only [mu]
      omega
    · simp at h
  | fin r =>
    simp only [step] at h
    split at h
    · rename_i hg
      have hr : r < s.H := ph_lt hi (by rw [hg]; simp)
      have hl : r < st.ph.length := by rw [hi.len_ph]; exact hr
      have := sumf_lset (rem s) st.ph r Ph.fin hl
      rw [hg] at this
      simp only [rem] at this
      split at h <;> (injection h with h; subst h; simp only [mu]; split <;> omega)
    · simp at h
  | chk =>
    simp only [step] at h
    split at h
    · simp at h
    · rename_i h1
      split at h <;> (injection h with h; subst h)
      · rename_i hn; simp only [mu, hn, if_true]; omega
      · rename_i hn; simp only [mu, hn, if_false]; omega

/-- `k` steps from `st` to `st'` (any gate oracle at every step) -/
inductive Steps (s : Stage) : WSt → Nat → WSt → Prop
  | refl (st : WSt) : Steps s st 0 st
  | cons {st st' st'' : WSt} {k : Nat} {g : Nat → Bool} {op : Op} :
      step s g st op = some st' → Steps s st' k st'' → Steps s st (k + 1) st''

theorem steps_bounded {s : Stage} {st st' : WSt} {k : Nat} (hi : Inv s st) (h : Steps s st k st') :
    k + mu s st' ≤ mu s st := by
  induction h with
  | refl => omega
  | cons hs _ ih =>
    have := mu_step hi hs
    have := ih (inv_step hi hs)
    omega

theorem mu_init (s : Stage) : mu s (initW s) ≤ s.H * (2 * s.W + 6) + 2 * s.n := by
  have h1 : (initW s).ph = List.replicate s.H Ph.unpicked := rfl
  have h2 : (initW s).idle = s.n := rfl
  have h3 : (initW s).chk = 0 := rfl
  unfold mu
  rw [h1, h2, h3, sumf_replicate]
  simp only [rem]
  split <;> omega

end DecWf
