/-
  C23 — what `LockDiscipline.disciplinedPath` means, stated without reference to the checker's state:
  on a disciplined event list, every access of a mutex-guarded member (that is not on the allow-list) is
  preceded by a `lock` of its guard with no `unlock` of that guard in between.
-/
import SvtVerif.Model.LockDiscipline

namespace LockDiscipline

/-- Declarative "mutex `m` is held after the events `hist`": some `lock m` in `hist` has no `unlock m` after it. -/
def HeldAfter (hist : List Ev) (m : Path) : Prop :=
  ∃ a b, hist = a ++ Ev.lock m :: b ∧ Ev.unlock m ∉ b

/-- Invariant tying the checker's `held` list to the event history. -/
structure HeldInv (st : St) (hist : List Ev) : Prop where
  nodup : (st.held.map (·.1)).Nodup
  held : ∀ m, m ∈ st.held.map (·.1) → HeldAfter hist m

theorem HeldAfter.snoc {hist : List Ev} {m : Path} (h : HeldAfter hist m) {e : Ev} (he : e ≠ Ev.unlock m) :
    HeldAfter (hist ++ [e]) m := by
  obtain ⟨a, b, rfl, hb⟩ := h
  refine ⟨a, b ++ [e], by simp, ?_⟩
  intro hmem
  rcases List.mem_append.1 hmem with h1 | h1
  · exact hb h1
  · simp at h1; exact he h1.symm

theorem any_fst_eq {held : List (Path × MxKind)} {m : Path} :
    held.any (fun h => h.1 == m) = true ↔ m ∈ held.map (·.1) := by
  induction held with
  | nil => simp
  | cons x xs ih =>
    simp only [List.any_cons, Bool.or_eq_true, ih, List.map_cons, List.mem_cons, beq_iff_eq]
    constructor
    · rintro (h | h)
      · exact Or.inl h.symm
      · exact Or.inr h
    · rintro (h | h)
      · exact Or.inl h.symm
      · exact Or.inr h

/-- One checker step preserves the invariant. -/
theorem stepEv_inv {fn : Fn} {st st' : St} {hist : List Ev} {e : Ev}
    (hi : HeldInv st hist) (hs : stepEv fn st e = some st') : HeldInv st' (hist ++ [e]) := by
  cases e with
  | lock m =>
    simp only [stepEv] at hs
    split at hs
    · cases hs
    · rename_i k hk
      split at hs
      · cases hs
      · rename_i hnot
        have hnm : m ∉ st.held.map (·.1) := by
          intro hm; exact hnot (any_fst_eq.2 hm)
        have hst' : st'.held = (m, k) :: st.held := by
          cases k
          · simp only at hs; split at hs
            · cases hs; rfl
            · cases hs
          · simp only at hs; split at hs
            · cases hs
            · cases hs; rfl
        constructor
        · rw [hst']; simp only [List.map_cons, List.nodup_cons]; exact ⟨hnm, hi.nodup⟩
        · intro m' hm'
          rw [hst'] at hm'
          simp only [List.map_cons, List.mem_cons] at hm'
          rcases hm' with rfl | hm'
          · exact ⟨hist, [], rfl, by simp⟩
          · exact (hi.held m' hm').snoc (by simp)
  | unlock m =>
    simp only [stepEv] at hs
    split at hs
    · rename_i m' k rest hheld
      split at hs
      · rename_i heq
        have hmm : m' = m := by simpa using heq
        cases hs
        have hnd := hi.nodup
        rw [hheld] at hnd
        simp only [List.map_cons, List.nodup_cons] at hnd
        constructor
        · exact hnd.2
        · intro m'' hm''
          have hne : m'' ≠ m := by
            intro h; subst h; rw [hmm] at hnd; exact hnd.1 hm''
          have : m'' ∈ st.held.map (·.1) := by rw [hheld]; simp [hm'']
          exact (hi.held m'' this).snoc (by intro h; injection h with h; exact hne h.symm)
      · cases hs
    · cases hs
  | semWait s =>
    simp only [stepEv] at hs
    split at hs
    · cases hs; exact ⟨hi.nodup, fun m hm => (hi.held m hm).snoc (by simp)⟩
    · cases hs
  | semPost s =>
    simp only [stepEv] at hs
    split at hs
    · cases hs; exact ⟨hi.nodup, fun m hm => (hi.held m hm).snoc (by simp)⟩
    · cases hs
  | read p =>
    simp only [stepEv] at hs
    split at hs
    · cases hs; exact ⟨hi.nodup, fun m hm => (hi.held m hm).snoc (by simp)⟩
    · cases hs
  | write p =>
    simp only [stepEv] at hs
    split at hs
    · cases hs; exact ⟨hi.nodup, fun m hm => (hi.held m hm).snoc (by simp)⟩
    · cases hs
  | call f =>
    simp only [stepEv] at hs
    cases hs; exact ⟨hi.nodup, fun m hm => (hi.held m hm).snoc (by simp)⟩
  | ret =>
    simp only [stepEv] at hs
    cases hs; exact ⟨hi.nodup, fun m hm => (hi.held m hm).snoc (by simp)⟩
  | loopHead id =>
    simp only [stepEv] at hs
    split at hs
    · cases hs; exact ⟨hi.nodup, fun m hm => (hi.held m hm).snoc (by simp)⟩
    · split at hs
      · cases hs; exact ⟨hi.nodup, fun m hm => (hi.held m hm).snoc (by simp)⟩
      · cases hs

/-- An accepted access of a guarded, non-allow-listed member finds its guard in `held`. -/
theorem accessOk_held {fn : Fn} {st : St} {w : Bool} {p m : Path}
    (h : accessOk fn st w p = true) (hg : guardOf p = .mutex m) (ha : allowed fn w p = false) :
    m ∈ st.held.map (·.1) := by
  simp only [accessOk, hg, ha, Bool.or_false] at h
  exact any_fst_eq.1 h

/-- Generalised soundness of `runEvs`: from a state satisfying the invariant for history `hist`. -/
theorem runEvs_sound {fn : Fn} : ∀ (evs : List Ev) (st : St) (hist : List Ev), HeldInv st hist → runEvs fn st evs = true →
    ∀ pre post (w : Bool) (p m : Path), evs = pre ++ (if w then Ev.write p else Ev.read p) :: post →
      guardOf p = .mutex m → allowed fn w p = false → HeldAfter (hist ++ pre) m := by
  intro evs
  induction evs with
  | nil => intro st hist _ _ pre post w p m h; simp at h
  | cons e es ih =>
    intro st hist hi hr pre post w p m hsplit hg ha
    simp only [runEvs] at hr
    cases hstep : stepEv fn st e with
    | none => rw [hstep] at hr; cases hr
    | some st' =>
      rw [hstep] at hr
      cases pre with
      | nil =>
        simp only [List.nil_append, List.cons.injEq] at hsplit
        obtain ⟨he, _⟩ := hsplit
        simp only [List.append_nil]
        have hacc : accessOk fn st w p = true := by
          cases w
          · simp only [Bool.false_eq_true, ↓reduceIte] at he; subst he
            simp only [stepEv] at hstep
            split at hstep
            · assumption
            · cases hstep
          · simp only [↓reduceIte] at he; subst he
            simp only [stepEv] at hstep
            split at hstep
            · assumption
            · cases hstep
        exact hi.held m (accessOk_held hacc hg ha)
      | cons e' pre' =>
        simp only [List.cons_append, List.cons.injEq] at hsplit
        obtain ⟨he, hrest⟩ := hsplit
        subst he
        have := ih st' (hist ++ [e]) (stepEv_inv hi hstep) hr pre' post w p m hrest hg ha
        simpa using this

/-- **Meaning of `disciplinedPath`.**  On an accepted event list, every read or write of a member whose guard is
    mutex `m` (and that is not on the reviewed allow-list) happens after a `lock m` that has not been followed by
    an `unlock m`: the access is inside a critical section of its guard. -/
theorem disciplinedPath_sound {fn : Fn} {evs : List Ev} (h : disciplinedPath fn evs = true)
    {pre post : List Ev} {w : Bool} {p m : Path}
    (hsplit : evs = pre ++ (if w then Ev.write p else Ev.read p) :: post)
    (hg : guardOf p = .mutex m) (ha : allowed fn w p = false) : HeldAfter pre m := by
  have := runEvs_sound evs ⟨[], []⟩ [] ⟨by simp, by intro m hm; simp at hm⟩ h pre post w p m hsplit hg ha
  simpa using this

end LockDiscipline
