/-
  Temporal-unit assembly (C02): model of `/repo/Source/Lib/Encoder/Codec/EbPacketizationProcess.c`
    * the bytes `packetization_kernel` writes for one picture into its own output buffer (l.739-783):
      `encode_sps_av1` iff `frame_type == KEY_FRAME` (l.744), metadata OBUs (l.747-759),
      `write_frame_header_av1(.., 0)` = one OBU_FRAME (l.773),
    * the show-existing bitstream kept in the queue entry (l.785-806): metadata OBUs +
      `write_frame_header_av1(.., 1)` = one OBU_FRAME_HEADER with `show_existing_frame = 1`,
    * `count_frames_in_next_tu` (l.311-329), `encode_tu` (l.511-550: TD followed by the buffers of the
      `frames` head entries in queue order — the C code copies backwards into the last buffer),
      `encode_show_existing` (l.568-581: TD followed by the show-existing bitstream),
  and the decidable predicate `isTemporalUnit` that `svtmodel obu` also evaluates on every real packet.

  First byte of the frame header as `write_uncompressed_header_obu` writes it when
  `reduced_still_picture_header = 0` (EbEntropyCoding.c l.3807-3817; the encoder logs
  "reduced_still_picture_hdr not supported"): show_existing_frame(1) frame_type(2) show_frame(1) + 4 more bits.

  Core Lean only (linked into the `svtmodel` driver).
-/
import SvtVerif.Model.Obu

namespace Tu
open Obu

/-- One occupied `PacketizationReorderEntry` as seen by the drain loop (l.883-909). -/
structure Entry where
  frameType : Nat                       -- frm_hdr->frame_type, written with 2 bits (l.3810)
  showFrame : Bool                      -- queue_entry_ptr->show_frame = frm_hdr->show_frame (l.828), written l.3814
  hdrLow : Nat                          -- the 4 bits following show_frame in the first payload byte
  hdrTail : List UInt8                  -- rest of the OBU_FRAME payload (header remainder + tile group)
  seqHdr : List UInt8                   -- sequence header payload (`write_sequence_header_obu`)
  metadata : List (List UInt8) := []    -- payloads of the OBU_METADATA written before the frame
  hasShowExisting : Bool := false       -- parent_pcs_ptr->has_show_existing (l.829)
  showExistingIdx : Nat := 0            -- frm_hdr->show_existing_frame, written with 3 bits (l.3790)
  seMetadata : List (List UInt8) := []  -- metadata OBUs of the show-existing bitstream (l.801)
deriving Repr

def frameFirstByte (e : Entry) : UInt8 :=
  ((e.frameType % 4) * 32 + (if e.showFrame then 16 else 0) + e.hdrLow % 16).toUInt8

def seqObu (e : Entry) : Obu.Obu := { obuType := OBU_SEQUENCE_HEADER, ext := none, payload := e.seqHdr }
def mdObu (p : List UInt8) : Obu.Obu := { obuType := OBU_METADATA, ext := none, payload := p }
def frameObu (e : Entry) : Obu.Obu :=
  { obuType := OBU_FRAME, ext := none, payload := frameFirstByte e :: e.hdrTail }

/-- `show_existing_frame = 1`, 3-bit index, trailing one bit, zero padding (`write_frame_header_obu` with
    `appendTrailingBits`, l.4228-4242). -/
def showExistingObu (e : Entry) : Obu.Obu :=
  { obuType := OBU_FRAME_HEADER, ext := none, payload := [(128 + (e.showExistingIdx % 8) * 16 + 8).toUInt8] }

/-- Output buffer of one picture (l.744-783). -/
def entryObus (e : Entry) : List Obu.Obu :=
  (if e.frameType % 4 = 0 then [seqObu e] else []) ++ e.metadata.map mdObu ++ [frameObu e]

/-- `count_frames_in_next_tu`: `slots` = the queue seen from the head (`get_reorder_queue_entry(ctx, i)`,
    i = 0 .. DEPTH-1), `none` = `output_stream_wrapper_ptr == NULL`. -/
def countGo : List (Option Entry) → Nat → Nat
  | [], i => i
  | none :: _, _ => 0
  | some e :: rest, i => if e.showFrame then i + 1 else countGo rest (i + 1)

def countFramesInNextTu (slots : List (Option Entry)) : Nat := countGo slots 0

/-- `encode_tu`: the packet as a list of OBUs. -/
def encodeTuObus (es : List Entry) : List Obu.Obu := tdObu :: es.flatMap entryObus

/-- `encode_tu`: the packet bytes. -/
def encodeTu (es : List Entry) : List UInt8 := (encodeTuObus es).flatMap serialize

/-- `encode_show_existing`. -/
def encodeShowExistingObus (e : Entry) : List Obu.Obu := tdObu :: (e.seMetadata.map mdObu ++ [showExistingObu e])

def encodeShowExisting (e : Entry) : List UInt8 := (encodeShowExistingObus e).flatMap serialize

/-! ### the temporal-unit predicate -/

def firstByte (o : Obu.Obu) : Nat := match o.payload with | b :: _ => b.toNat | [] => 0
def obuShowExisting (o : Obu.Obu) : Bool := firstByte o >>> 7 == 1
def obuFrameType (o : Obu.Obu) : Nat := (firstByte o >>> 5) &&& 3
def obuShowFrame (o : Obu.Obu) : Bool := (firstByte o >>> 4) &&& 1 == 1

structure Scan where
  seqSeen : Bool := false        -- a sequence header since the last frame
  nDisplayed : Nat := 0
  lastDisplayed : Bool := false  -- the most recent OBU is a displayed frame
  ok : Bool := true
deriving Repr, DecidableEq

/-- One OBU of the body of a temporal unit. Allowed: sequence header, metadata, OBU_FRAME with
    `show_existing_frame = 0` (a key frame needs a sequence header since the previous frame), OBU_FRAME_HEADER
    with `show_existing_frame = 1`. -/
def scanStep (s : Scan) (o : Obu.Obu) : Scan :=
  if o.obuType = OBU_SEQUENCE_HEADER then { s with seqSeen := true, lastDisplayed := false }
  else if o.obuType = OBU_METADATA then { s with lastDisplayed := false }
  else if o.obuType = OBU_FRAME then
    if obuShowExisting o then { s with ok := false }
    else
      { seqSeen := false,
        nDisplayed := s.nDisplayed + (if obuShowFrame o then 1 else 0),
        lastDisplayed := obuShowFrame o,
        ok := s.ok && (obuFrameType o != 0 || s.seqSeen) }
  else if o.obuType = OBU_FRAME_HEADER then
    if obuShowExisting o then
      { seqSeen := false, nDisplayed := s.nDisplayed + 1, lastDisplayed := true, ok := s.ok }
    else { s with ok := false }
  else { s with ok := false }

/-- "TD first, then sequence headers / metadata / frames; every key frame preceded by a sequence header;
    exactly one displayed frame (a frame with show_frame = 1 or a show-existing header), and it is the last OBU". -/
def isTemporalUnit : List Obu.Obu → Bool
  | [] => false
  | o :: body =>
    let s := body.foldl scanStep {}
    o.obuType == OBU_TEMPORAL_DELIMITER && o.payload.isEmpty && s.ok && s.nDisplayed == 1 && s.lastDisplayed

end Tu
