/-
  Circular reorder queue of depth `D` (C22 queue part; reused by C03).

  Mirrors `/repo/Source/Lib/Encoder/Codec/EbPacketizationProcess.c`:
    * insert  (l.654-657, 833): slot `decode_order % PACKETIZATION_REORDER_QUEUE_MAX_DEPTH`, the entry's
      `output_stream_wrapper_ptr` is overwritten unconditionally (no "occupied" test in the C code — the
      model records such an overwrite in `clobbered`);
    * drain   (l.883-909 with one frame per temporal unit): `count_frames_in_next_tu` (l.311-329) looks at
      `queue[(head_index + 0) % D]`, returns 0 when its wrapper is NULL; `release_frames` (l.583-592) sets the
      wrapper to NULL and `head_index = (head_index + frames) % D`.
  and the index computation of the picture-decision / initial-rate-control / picture-manager queues
  (`EbPictureDecisionProcess.c` l.4607-4609, `EbInitialRateControlProcess.c` l.197-206):
      idx = (pn - queue[head].picture_number) + head_index;  idx = idx > D-1 ? idx - D : idx
  (`windowIndex`), with head advance `head == D-1 ? 0 : head+1` (l.5627) and entry reset
  `picture_number += D` (l.431 / packetization l.588).

  Core Lean only (linked into the `svtmodel` driver).
-/
namespace Reorder

/-- Internal queue state. `slots[i] = some pn` ⇔ entry `i` holds the output of picture `pn`
    (`output_stream_wrapper_ptr != NULL`). `headIdx` = `packetization_reorder_queue_head_index`.
    `outRev` = pictures released so far, newest first. -/
structure Q where
  slots     : List (Option Nat)
  headIdx   : Nat
  outRev    : List Nat
  clobbered : Bool
deriving Repr

/-- What an observer sees: the emitted picture numbers in order, and whether some arrival was written
    into a slot that was still occupied. -/
structure State where
  out       : List Nat
  clobbered : Bool
deriving Repr, DecidableEq

def slotAt (slots : List (Option Nat)) (i : Nat) : Option Nat :=
  match slots[i]? with
  | some x => x
  | none   => none

def init (D : Nat) : Q :=
  { slots := List.replicate D none, headIdx := 0, outRev := [], clobbered := false }

/-- l.654-657 + l.833: `queue[decode_order % D]->output_stream_wrapper_ptr = wrapper`. -/
def insert (D : Nat) (q : Q) (pn : Nat) : Q :=
  { q with slots := q.slots.set (pn % D) (some pn),
           clobbered := q.clobbered || (slotAt q.slots (pn % D)).isSome }

/-- l.883-909 (one frame per TU): while the head entry is complete, emit it, clear it, advance the head
    `(head + 1) % D`.  `fuel` bounds the loop; `D` iterations always suffice (each clears one slot). -/
def drain (D : Nat) : Nat → Q → Q
  | 0, q => q
  | fuel + 1, q =>
    match slotAt q.slots q.headIdx with
    | none => q
    | some pn =>
      drain D fuel { q with slots := q.slots.set q.headIdx none,
                            headIdx := (q.headIdx + 1) % D,
                            outRev := pn :: q.outRev }

def step (D : Nat) (q : Q) (pn : Nat) : Q := drain D D (insert D q pn)

def runQ (D : Nat) (arrivals : List Nat) : Q := arrivals.foldl (step D) (init D)

def run (D : Nat) (arrivals : List Nat) : State :=
  let q := runQ D arrivals
  { out := q.outRev.reverse, clobbered := q.clobbered }

/-- `windowedFrom D seen rest`: every arrival `a` in `rest` satisfies: every picture number `k` with
    `k + D ≤ a` has already arrived (is in `seen` or earlier in `rest`).  Equivalently
    (`Reorder.windowed_head_iff`): `a < h + D` where `h` is the least picture number not yet arrived,
    i.e. no picture is `D` or more ahead of the queue head. -/
def windowedFrom (D : Nat) : List Nat → List Nat → Bool
  | _, [] => true
  | seen, a :: rest =>
    (List.range (a + 1 - D)).all (fun k => decide (k ∈ seen)) && windowedFrom D (a :: seen) rest

/-- Each arrival is less than (least picture number not yet arrived) + D. -/
def Windowed (D : Nat) (arrivals : List Nat) : Prop := windowedFrom D [] arrivals = true

instance (D : Nat) (arrivals : List Nat) : Decidable (Windowed D arrivals) := by
  unfold Windowed; infer_instance

/-- Picture-decision style index: `head_index + (pn − head.picture_number)`, minus `D` once if `> D−1`. -/
def windowIndex (D headIdx delta : Nat) : Nat :=
  if headIdx + delta > D - 1 then headIdx + delta - D else headIdx + delta

/-- Head advance of the picture-decision style queues: `head == D−1 ? 0 : head + 1`. -/
def nextHead (D headIdx : Nat) : Nat := if headIdx = D - 1 then 0 else headIdx + 1

end Reorder
