/-
  C06 — run-time CPU dispatch (Source/Lib/Common/Codec/common_dsp_rtcd.c, Source/Lib/Encoder/Codec/aom_dsp_rtcd.c).

  `SET_FUNCTIONS(ptr, c, mmx, sse, sse2, sse3, ssse3, sse4_1, sse4_2, avx, avx2, avx512)`  (common_dsp_rtcd.c:135-147,
  aom_dsp_rtcd.c:52-64) expands to

      ptr = c;
      if ((NULL != mmx)    && (flags & HAS_MMX))    ptr = mmx;          -- l.121
      ...
      if ((NULL != avx2)   && (flags & HAS_AVX2))   ptr = avx2;         -- l.129
      if ((NULL != avx512) && (flags & HAS_AVX512F)) ptr = avx512;      -- l.115 (EN_AVX512_SUPPORT only)

  i.e. a left fold over the non-NULL slots in which every later slot whose flag is set overrides the earlier ones.
  An `Entry` is one registration: the pointer, its C function (absent for the one pointer that is assigned by bare
  `if (flags & ..)` statements, common_dsp_rtcd.c:512-517) and the non-NULL slots `(CPU_FLAGS bit index, function)`
  in the order of the `if`s.  The table itself is generated (Gen/Dispatch.lean, xlate/rtcd.py).
  Core Lean only.
-/
namespace Dispatch

/-- A C identifier: its length and its ASCII bytes read as one big-endian base-256 number
    (`"ab"` = ⟨2, 0x6162⟩).  `String` is a UTF-8 byte array in this Lean version and the kernel cannot evaluate string
    functions fast enough to `decide` facts about ~3300 names; on this encoding "ends with" is one `%` on numerals,
    which the kernel evaluates with GMP.  `name! "svt_foo"` expands the literal at elaboration time. -/
structure FnName where
  len : Nat
  val : Nat
deriving DecidableEq, Repr, Inhabited

open Lean in
macro "name!" s:str : term => do
  let cs := s.getString.toList.map Char.toNat
  let v := cs.foldl (fun acc c => acc * 256 + c) 0
  `(FnName.mk $(Syntax.mkNumLit (toString cs.length)) $(Syntax.mkNumLit (toString v)))

namespace FnName
def bytesAux : Nat → Nat → List Nat → List Nat
  | 0, _, acc => acc
  | n + 1, v, acc => bytesAux n (v / 256) ((v % 256) :: acc)
def bytes (n : FnName) : List Nat := bytesAux n.len n.val []
def toString (n : FnName) : String := String.ofList (n.bytes.map Char.ofNat)
def ofString (s : String) : FnName := ⟨s.toList.length, s.toList.foldl (fun acc c => acc * 256 + c.toNat) 0⟩
/-- `a` followed by `b` -/
def cat (a b : FnName) : FnName := ⟨a.len + b.len, a.val * 256 ^ b.len + b.val⟩
/-- the last `s.len` characters of `a` are `s` -/
def endsWith (a s : FnName) : Bool := decide (s.len ≤ a.len) && (a.val % 256 ^ s.len == s.val)
end FnName

/-- CPU_FLAGS bit indices (Source/API/EbSvtAv1.h:302-317). -/
abbrev MMX : Nat := 0
abbrev SSE : Nat := 1
abbrev SSE2 : Nat := 2
abbrev SSE3 : Nat := 3
abbrev SSSE3 : Nat := 4
abbrev SSE4_1 : Nat := 5
abbrev SSE4_2 : Nat := 6
abbrev AVX : Nat := 7
abbrev AVX2 : Nat := 8
abbrev AVX512F : Nat := 9
/-- `CPU_FLAGS_ALL = (CPU_FLAGS_AVX512VL << 1) - 1` (EbSvtAv1.h:318) -/
abbrev flagsAll : Nat := 65535

structure Entry where
  ptr : FnName
  c : Option FnName
  slots : List (Nat × FnName)
  line : Nat := 0
deriving Repr, DecidableEq

/-- one `if ((NULL != fn) && (flags & (1 << bit))) ptr = fn;` -/
def step (flags : Nat) (cur : Option FnName) (s : Nat × FnName) : Option FnName :=
  if flags.testBit s.1 then some s.2 else cur

/-- value of the pointer after SET_FUNCTIONS (`none` = NULL) -/
def select (flags : Nat) (e : Entry) : Option FnName := e.slots.foldl (step flags) e.c

/-- `use_cpu_flags &= get_cpu_flags_to_use()` with `get_cpu_flags_to_use() = get_cpu_flags() & toUse`
    (EbEncHandle.c:657-662, common_dsp_rtcd.c:102-109,171, aom_dsp_rtcd.c:87): `hw` = flags detected by cpuinfo,
    `toUse` = the build's mask (`CPU_FLAGS_AVX512F - 1` when EN_AVX512_SUPPORT is off). -/
def maskApplied (toUse hw req : Nat) : Nat := req &&& (hw &&& toUse)

/-! ### The instruction set named by a function's suffix

`svt_aom_sad64x64_avx2`, `svt_unpack_avg_sse2_intrin`, `svt_enc_msb_pack2d_avx2_intrin_al`,
`svt_aom_highbd_blend_a64_mask_8bit_sse4_1`, `svt_memcpy_intrin_sse`: the name ends with `_<isa>`, optionally followed
by one of the decorations `_intrin`, `_intrin_al`.  A name ending in `_c` is a C function.  Anything else
(`Log2f_ASM`, `..._sse4_intrin`) is not classified and has to be reviewed (Spec/DispatchAllow.lean). -/

def isaSuffixes : List (FnName × Nat) := [
  (name! "_mmx", MMX), (name! "_sse", SSE), (name! "_sse2", SSE2), (name! "_sse3", SSE3), (name! "_ssse3", SSSE3),
  (name! "_sse4_1", SSE4_1), (name! "_sse4_2", SSE4_2), (name! "_avx", AVX), (name! "_avx2", AVX2),
  (name! "_avx512", AVX512F)]

def decorations : List FnName := [name! "", name! "_intrin", name! "_intrin_al"]

def isaOfSuffix (n : FnName) : List (FnName × Nat) → Option Nat
  | [] => none
  | (s, i) :: rest => if decorations.any (fun d => n.endsWith (s.cat d)) then some i else isaOfSuffix n rest

/-- `none`: a C function (suffix `_c`) or a name without recognised instruction-set suffix. -/
def nameIsa (n : FnName) : Option Nat :=
  if n.endsWith (name! "_c") then none else isaOfSuffix n isaSuffixes

/-- A slot is sound when the function's name ISA is at most the slot's flag in the x86 chain
    MMX < SSE < SSE2 < SSE3 < SSSE3 < SSE4.1 < SSE4.2 < AVX < AVX2 < AVX512F, or the function is on the
    reviewed allow-list. -/
def slotOk (allow : List FnName) (s : Nat × FnName) : Bool :=
  (match nameIsa s.2 with | some i => decide (i ≤ s.1) | none => false) || allow.contains s.2

def slotsOk (allow : List FnName) (e : Entry) : Bool := e.slots.all (slotOk allow)

/-- the C fallback exists and is not an instruction-set specific function -/
def cOk (noC : List FnName) (e : Entry) : Bool :=
  match e.c with
  | some c => (nameIsa c).isNone
  | none => noC.contains e.ptr

/-- slots are registered in strictly increasing flag order (so "later overrides" = "highest enabled ISA wins")
    and only the bits 0..9 (MMX..AVX512F) are ever tested -/
def slotsSorted : List (Nat × FnName) → Bool
  | [] => true
  | [s] => decide (s.1 ≤ AVX512F)
  | s :: t :: rest => decide (s.1 < t.1) && slotsSorted (t :: rest)

/-- all three table obligations for one entry (evaluated together so that the kernel walks the table once) -/
def entryOk (slotAllow noC : List FnName) (e : Entry) : Bool :=
  cOk noC e && slotsOk slotAllow e && slotsSorted e.slots

/-- table lookup used by the driver and by the encoder-as-function-of-kernels model -/
def find? (tbl : List Entry) (p : FnName) : Option Entry := tbl.find? (fun e => e.ptr == p)

end Dispatch
