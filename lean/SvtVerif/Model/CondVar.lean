/-
  C04 (part A) — the value-carrying condition variable of /repo/Source/Lib/Common/Codec/EbThreads.c
  (pthread branch):

    svt_create_cond_var  (EbThreads.c:430-445)   cond_var->val = 0; pthread_mutex_init; pthread_cond_init
    svt_set_cond_var     (EbThreads.c:449-468)
        462  pthread_mutex_lock(&cond_var->m_mutex);
        463  cond_var->val = newval;
        464  pthread_cond_broadcast(&cond_var->m_cond);
        465  pthread_mutex_unlock(&cond_var->m_mutex);
    svt_wait_cond_var    (EbThreads.c:474-495)
        489  pthread_mutex_lock(&cond_var->m_mutex);
        490  while (cond_var->val == input)
        491      pthread_cond_wait(&cond_var->m_cond, &cond_var->m_mutex);
        492  pthread_mutex_unlock(&cond_var->m_mutex);

  Use as the `me_ready` handshake: created with val = 0 (EbResourceCoordinationProcess.c:495), one
  `svt_set_cond_var(&pcs->me_ready, 1)` (EbInitialRateControlProcess.c:388), waiters
  `svt_wait_cond_var(&...->me_ready, 0)` (EbRateControlProcess.c:1139).

  Model: a transition system over ANY number of threads (thread ids are `Nat`).  The program of each
  thread is fixed by the parameter `role : Nat → Role`: a thread calls `svt_set_cond_var(cv, newval)` once,
  or `svt_wait_cond_var(cv, input)` once, or does not touch the condition variable.  One transition = one
  pthread primitive / one memory access, so every interleaving of these is covered:

    setter:  idle --lock [mutex free]--> locked --val := newval--> wrote
                  --broadcast [every `sleeping` thread becomes `woken`]--> bcast --unlock--> done
    waiter:  idle --lock [mutex free]--> testing
             testing [val == input] --pthread_cond_wait: atomically release the mutex and sleep--> sleeping
             testing [val != input] --unlock--> done
             sleeping --(only by a broadcast, or by a spurious wake-up, which POSIX permits)--> woken
             woken --re-acquire the mutex inside pthread_cond_wait [mutex free]--> testing

  Core Lean only (this file may be linked into the executable driver).
-/
namespace CondVar

/-- What a thread does with the condition variable (once). -/
inductive Role
  | setter (newval : Int)   -- svt_set_cond_var(cv, newval)
  | waiter (input : Int)    -- svt_wait_cond_var(cv, input)
  | none                    -- does not use cv
  deriving DecidableEq, Repr

/-- Program counter of a thread inside its call. -/
inductive Pc
  | idle      -- before pthread_mutex_lock                       (462 / 489)
  | locked    -- setter: holds the mutex, before `val = newval`  (463)
  | wrote     -- setter: wrote val, before pthread_cond_broadcast (464)
  | bcast     -- setter: broadcast done, before unlock           (465)
  | testing   -- waiter: holds the mutex, at the `while` test    (490)
  | sleeping  -- waiter: inside pthread_cond_wait, mutex released, not signalled (491)
  | woken     -- waiter: inside pthread_cond_wait, signalled, re-acquiring the mutex (491)
  | done      -- call returned                                   (467 / 494)
  deriving DecidableEq, Repr

structure State where
  val : Int               -- cond_var->val
  owner : Option Nat      -- holder of cond_var->m_mutex
  pc : Nat → Pc

/-- After `svt_create_cond_var` (+ the initial value): nobody has started its call. -/
def init (v0 : Int) : State := { val := v0, owner := none, pc := fun _ => .idle }

/-- Thread `t` moves to `p`. -/
@[reducible] def setPc (f : Nat → Pc) (t : Nat) (p : Pc) : Nat → Pc :=
  fun u => if u = t then p else f u

/-- `pthread_cond_broadcast` by `t`: `t` moves to `bcast`, every sleeping thread is woken. -/
@[reducible] def bcastPc (f : Nat → Pc) (t : Nat) : Nat → Pc :=
  fun u => if u = t then .bcast else if f u = .sleeping then .woken else f u

/-- The next primitive of thread `t`; `none` = `t` has no enabled step (blocked on the mutex, sleeping
without having been woken, finished, or not a user of the condition variable). -/
def step (role : Nat → Role) (s : State) (t : Nat) : Option State :=
  match role t, s.pc t with
  | .setter _, .idle =>
    if s.owner = none then some { s with owner := some t, pc := setPc s.pc t .locked } else none
  | .setter v, .locked => some { s with val := v, pc := setPc s.pc t .wrote }
  | .setter _, .wrote => some { s with pc := bcastPc s.pc t }
  | .setter _, .bcast => some { s with owner := none, pc := setPc s.pc t .done }
  | .waiter _, .idle =>
    if s.owner = none then some { s with owner := some t, pc := setPc s.pc t .testing } else none
  | .waiter i, .testing =>
    if s.val = i then some { s with owner := none, pc := setPc s.pc t .sleeping }
    else some { s with owner := none, pc := setPc s.pc t .done }
  | .waiter _, .woken =>
    if s.owner = none then some { s with owner := some t, pc := setPc s.pc t .testing } else none
  | _, _ => none

/-- Spurious wake-up of a sleeping waiter (allowed by POSIX at any time; an environment action, never
counted as "the thread has an enabled step"). -/
def spurious (role : Nat → Role) (s : State) (t : Nat) : Option State :=
  match role t, s.pc t with
  | .waiter _, .sleeping => some { s with pc := setPc s.pc t .woken }
  | _, _ => none

/-- One action of the system: thread `t` executes its next primitive, or `t` is woken spuriously. -/
inductive Act
  | run (t : Nat)
  | spur (t : Nat)
  deriving DecidableEq, Repr

def act (role : Nat → Role) (s : State) : Act → Option State
  | .run t => step role s t
  | .spur t => spurious role s t

/-- All states reachable from `init v0` under every choice of actions (= every interleaving of the
primitives of all threads, with arbitrary spurious wake-ups). -/
inductive Reachable (role : Nat → Role) (v0 : Int) : State → Prop
  | init : Reachable role v0 (init v0)
  | step {s s' : State} {a : Act} : Reachable role v0 s → act role s a = some s' → Reachable role v0 s'

/-- Execute a schedule; `none` if some action of the schedule is not enabled. -/
def runActs (role : Nat → Role) : State → List Act → Option State
  | s, [] => some s
  | s, a :: as =>
    match act role s a with
    | some s' => runActs role s' as
    | none => none

/-- No thread has an enabled step (spurious wake-ups are not counted). -/
def Stuck (role : Nat → Role) (s : State) : Prop := ∀ t, step role s t = none

/-- Remaining-steps weight of a pc (used for the termination measure once `val` has its final value). -/
def weight : Pc → Nat
  | .idle => 4
  | .locked => 3
  | .wrote => 2
  | .bcast => 1
  | .testing => 1
  | .sleeping => 3
  | .woken => 2
  | .done => 0

/-- `mu s n` = sum of the weights of threads `0 .. n-1`. -/
def mu (s : State) : Nat → Nat
  | 0 => 0
  | n + 1 => mu s n + weight (s.pc n)

/-- The `me_ready` instance: the threads that use the condition variable are exactly those `< n`; every
setter sets the same value `v1`, every waiter waits for "different from `v0`", and `v0 ≠ v1`
(`v0 = 0`, `v1 = 1` in the encoder). -/
structure MeReady (role : Nat → Role) (n : Nat) (v0 v1 : Int) : Prop where
  ne : v0 ≠ v1
  roles : ∀ t, (t < n → role t = .setter v1 ∨ role t = .waiter v0) ∧ (n ≤ t → role t = .none)

/-- Observable part of a state for the first `n` threads (for executable examples). -/
def view (s : State) (n : Nat) : Int × Option Nat × List Pc :=
  (s.val, s.owner, (List.range n).map s.pc)

/-- Example roles: thread 0 waits for `val != 0`, thread 1 sets `val = 1` (the me_ready handshake with one
waiter), thread 2 is a second waiter. -/
def exRole : Nat → Role
  | 0 => .waiter 0
  | 1 => .setter 1
  | 2 => .waiter 0
  | _ => .none

end CondVar
