/-
  Decoded-picture-buffer model: AV1 specification §7.20 (reference frame update process), §7.21 (reference
  frame loading process, used when a KEY frame is shown through `show_existing_frame`) and the output process
  (§7.18: a picture is output when `show_frame = 1` or `show_existing_frame = 1`).

  The reconstruction of a picture is an ABSTRACT function `R : P → List S → S` (payload of the frame, the
  reconstructed reference pictures it may read → reconstructed picture); `S` is an abstract picture type.
  What a frame may read (spec §5.9.2 / §7.11): KEY and INTRA_ONLY frames read nothing from the DPB
  (`FrameIsIntra` forces `primary_ref_frame = PRIMARY_REF_NONE`); INTER and SWITCH frames read the seven
  slots `ref_frame_idx[0..6]` (which also covers `primary_ref_frame`, an index into that list).
  Core Lean only.
-/
namespace Dpb

/-- AV1 `frame_type` (spec §6.8.2): 0 KEY_FRAME, 1 INTER_FRAME, 2 INTRA_ONLY_FRAME, 3 SWITCH_FRAME. -/
inductive FrameType where
  | key | inter | intraOnly | switch
deriving Repr, DecidableEq

def FrameType.ofCode : Nat → FrameType
  | 0 => .key | 1 => .inter | 2 => .intraOnly | _ => .switch

def FrameType.code : FrameType → Nat
  | .key => 0 | .inter => 1 | .intraOnly => 2 | .switch => 3

/-- The header fields of one frame (one frame header OBU + its tile groups) that drive the DPB. -/
structure Frame (P : Type) where
  frameType     : FrameType
  showFrame     : Bool
  showableFrame : Bool
  showExisting  : Option (Fin 8)    -- `show_existing_frame = 1` with `frame_to_show_map_idx`
  refreshFlags  : Nat               -- `refresh_frame_flags` as coded (8 bits)
  refIdx        : List (Fin 8)      -- `ref_frame_idx[0..6]`
  payload       : P

/-- What a slot remembers (§7.20 saves many more fields; these are the ones the processes below read). -/
structure Slot (S : Type) where
  pic       : S
  frameType : FrameType             -- RefFrameType[i]
  showable  : Bool                  -- RefShowableFrame[i]

abbrev State (S : Type) := Fin 8 → Slot S

/-- Effective `refresh_frame_flags` (§5.9.2): `allFrames` (0xFF) is inferred for a shown key frame. -/
def effRefresh {P : Type} (f : Frame P) : Nat :=
  if f.frameType = .key ∧ f.showFrame = true then 0xFF else f.refreshFlags % 256

/-- Reference pictures handed to the reconstruction. -/
def refsOf {P S : Type} (d : State S) (f : Frame P) : List S :=
  match f.frameType with
  | .key => []
  | .intraOnly => []
  | _ => f.refIdx.map fun i => (d i).pic

/-- Decode one frame: new DPB and the picture that is output (if any). -/
def decStep {P S : Type} (R : P → List S → S) (d : State S) (f : Frame P) : State S × Option S :=
  match f.showExisting with
  | some i =>
    let s := d i
    -- §7.21 + §7.20 with refresh_frame_flags = allFrames when the shown frame is a key frame
    if s.frameType = .key then (fun _ => s, some s.pic) else (d, some s.pic)
  | none =>
    let s : Slot S := { pic := R f.payload (refsOf d f), frameType := f.frameType, showable := f.showableFrame }
    let rf := effRefresh f
    -- §7.20: for each i with bit i of refresh_frame_flags set, slot i := current frame
    (fun j => if rf.testBit j.val then s else d j, if f.showFrame then some s.pic else none)

/-- Decode a list of frames: final DPB and the per-frame outputs. -/
def runDec {P S : Type} (R : P → List S → S) (d : State S) : List (Frame P) → State S × List (Option S)
  | [] => (d, [])
  | f :: fs =>
    let r := decStep R d f
    let rest := runDec R r.1 fs
    (rest.1, r.2 :: rest.2)

/-- The output pictures in output order. -/
def outputs {S : Type} (os : List (Option S)) : List S := os.filterMap id

/-- A shown key frame that is actually coded (not `show_existing_frame`): a random-access point. -/
def IsShownKey {P : Type} (f : Frame P) : Prop :=
  f.showExisting = none ∧ f.frameType = .key ∧ f.showFrame = true

end Dpb
