/-
  Decoded-picture-buffer model: AV1 specification §7.20 (reference frame update process), §7.21 (reference
  frame loading process, used when a KEY frame is shown through `show_existing_frame`) and the output process
  (§7.18: a picture is output when `show_frame = 1` or `show_existing_frame = 1`).

  The reconstruction of a picture is an ABSTRACT function `R : P → List S → S` (payload of the frame, the
  reconstructed reference pictures it may read → reconstructed picture); `S` is an abstract picture type.
  What a frame may read (spec §5.9.2 / §7.11): KEY and INTRA_ONLY frames read nothing from the DPB
  (`FrameIsIntra` forces `primary_ref_frame = PRIMARY_REF_NONE`); INTER and SWITCH frames read the seven
  slots `ref_frame_idx[0..6]` (which also covers `primary_ref_frame`, an index into that list).
  Core Lean only.
-/
namespace Dpb

/-- AV1 `frame_type` (spec §6.8.2): 0 KEY_FRAME, 1 INTER_FRAME, 2 INTRA_ONLY_FRAME, 3 SWITCH_FRAME. -/
inductive FrameType where
  | key | inter | intraOnly | switch
deriving Repr, DecidableEq

def FrameType.ofCode : Nat → FrameType
  | 0 => .key | 1 => .inter | 2 => .intraOnly | _ => .switch

def FrameType.code : FrameType → Nat
  | .key => 0 | .inter => 1 | .intraOnly => 2 | .switch => 3

/-- The header fields of one frame (one frame header OBU + its tile groups) that drive the DPB. -/
structure Frame (P : Type) where
  frameType     : FrameType
  showFrame     : Bool
  showableFrame : Bool
  showExisting  : Option (Fin 8)    -- `show_existing_frame = 1` with `frame_to_show_map_idx`
  refreshFlags  : Nat               -- `refresh_frame_flags` as coded (8 bits)
  refIdx        : List (Fin 8)      -- `ref_frame_idx[0..6]`
  payload       : P

/-- What a slot remembers (§7.20 saves many more fields; these are the ones the processes below read). -/
structure Slot (S : Type) where
  pic       : S
  frameType : FrameType             -- RefFrameType[i]
  showable  : Bool                  -- RefShowableFrame[i]

abbrev State (S : Type) := Fin 8 → Slot S

/-- Effective `refresh_frame_flags` (§5.9.2): `allFrames` (0xFF) is inferred for a shown key frame. -/
def effRefresh {P : Type} (f : Frame P) : Nat :=
  if f.frameType = .key ∧ f.showFrame = true then 0xFF else f.refreshFlags % 256

/-- Reference pictures handed to the reconstruction. -/
def refsOf {P S : Type} (d : State S) (f : Frame P) : List S :=
  match f.frameType with
  | .key => []
  | .intraOnly => []
  | _ => f.refIdx.map fun i => (d i).pic

/-- Decode one frame: new DPB and the picture that is output (if any). -/
def decStep {P S : Type} (R : P → List S → S) (d : State S) (f : Frame P) : State S × Option S :=
  match f.showExisting with
  | some i =>
    let s := d i
    -- §7.21 + §7.20 with refresh_frame_flags = allFrames when the shown frame is a key frame
    if s.frameType = .key then (fun _ => s, some s.pic) else (d, some s.pic)
  | none =>
    let s : Slot S := { pic := R f.payload (refsOf d f), frameType := f.frameType, showable := f.showableFrame }
    let rf := effRefresh f
    -- §7.20: for each i with bit i of refresh_frame_flags set, slot i := current frame
    (fun j => if rf.testBit j.val then s else d j, if f.showFrame then some s.pic else none)

/-- Decode a list of frames: final DPB and the per-frame outputs. -/
def runDec {P S : Type} (R : P → List S → S) (d : State S) : List (Frame P) → State S × List (Option S)
  | [] => (d, [])
  | f :: fs =>
    let r := decStep R d f
    let rest := runDec R r.1 fs
    (rest.1, r.2 :: rest.2)

/-- The output pictures in output order. -/
def outputs {S : Type} (os : List (Option S)) : List S := os.filterMap id

/-- A shown key frame that is actually coded (not `show_existing_frame`): a random-access point. -/
def IsShownKey {P : Type} (f : Frame P) : Prop :=
  f.showExisting = none ∧ f.frameType = .key ∧ f.showFrame = true

end Dpb

/-! ## Additions for C01 / C08 (purely additive; nothing above is changed)

  * `recons`   : the pictures reconstructed while decoding, in coding order
  * `EncPic`, `encStep`, `runEnc` : the ENCODER-side frame-level machine, written against the encoder's own bookkeeping
    (`frm_hdr.frame_type/show_frame/showable_frame/show_existing_frame/show_existing_loc`,
    `av1_ref_signal.refresh_frame_mask`, `av1_ref_signal.ref_dpb_index[0..6]`: EbPictureDecisionProcess.c
    `av1_generate_rps_info` l.1270-2150, `set_key_frame_rps` l.1203-1213; written to the stream by
    `write_uncompressed_header`, EbEntropyCoding.c l.3527/3567/3727/3757-3760)
  * `fgSeedNext`, `fgSeed` : the film-grain random-seed update rule of the encoder
-/
namespace Dpb

/-- The pictures reconstructed by `runDec` (one per coded frame header, none for `show_existing_frame` headers),
    in coding order. -/
def recons {P S : Type} (R : P → List S → S) (d : State S) : List (Frame P) → List S
  | [] => []
  | f :: fs =>
    match f.showExisting with
    | some _ => recons R (decStep R d f).1 fs
    | none => R f.payload (refsOf d f) :: recons R (decStep R d f).1 fs

/-- What the encoder decided for one picture (one `PictureParentControlSet`), in the encoder's own terms. -/
structure EncPic (P : Type) where
  frameType       : FrameType          -- frm_hdr.frame_type
  showFrame       : Bool               -- frm_hdr.show_frame
  showableFrame   : Bool               -- frm_hdr.showable_frame
  showExistingLoc : Option (Fin 8)     -- frm_hdr.show_existing_frame = 1 with frm_hdr.show_existing_loc
  refreshFrameMask : Nat               -- av1_ref_signal.refresh_frame_mask (0xFF for key frames: set_key_frame_rps l.1207)
  refDpbIndex     : List (Fin 8)       -- av1_ref_signal.ref_dpb_index[LAST..ALT]
  payload         : P

/-- Bit `j` of the mask the way the C code tests it: `(refresh_frame_mask >> j) & 1`. -/
def maskBit (m j : Nat) : Bool := (m >>> j) % 2 = 1

/-- Pictures the encoder predicts from: I_SLICE pictures (KEY / INTRA_ONLY) read nothing; the others read the pictures
    their seven `ref_dpb_index` entries designate. -/
def encRefs {P S : Type} (d : State S) (p : EncPic P) : List S :=
  if p.frameType = .key ∨ p.frameType = .intraOnly then [] else p.refDpbIndex.map fun i => (d i).pic

/-- One step of the encoder-side machine: reconstruct the picture from the encoder's references, store it in every
    slot whose mask bit is set, emit it if it is displayed.  A show-existing picture re-emits the stored picture (and,
    for a key frame, reloads every slot with it — the encoder never produces that case but the rule is the spec's). -/
def encStep {P S : Type} (R : P → List S → S) (d : State S) (p : EncPic P) : State S × Option S :=
  match p.showExistingLoc with
  | some i =>
    if (d i).frameType = .key then (fun _ => d i, some (d i).pic) else (d, some (d i).pic)
  | none =>
    let s : Slot S := { pic := R p.payload (encRefs d p), frameType := p.frameType, showable := p.showableFrame }
    (fun j => if maskBit (p.refreshFrameMask % 256) j.val then s else d j, if p.showFrame then some s.pic else none)

def runEnc {P S : Type} (R : P → List S → S) (d : State S) : List (EncPic P) → State S × List (Option S)
  | [] => (d, [])
  | p :: ps =>
    let r := encStep R d p
    let rest := runEnc R r.1 ps
    (rest.1, r.2 :: rest.2)

/-- The frame header an ideal writer + parser pair turns an encoder picture into. -/
def EncPic.toFrame {P : Type} (p : EncPic P) : Frame P :=
  { frameType := p.frameType, showFrame := p.showFrame, showableFrame := p.showableFrame, showExisting := p.showExistingLoc,
    refreshFlags := p.refreshFrameMask, refIdx := p.refDpbIndex, payload := p.payload }

/-- Film-grain random seed update (EbPictureDecisionProcess.c l.5088-5092): `uint16_t` arithmetic,
    `seed += 3381; if (!seed) seed += 7391;`. -/
def fgSeedNext (s : BitVec 16) : BitVec 16 :=
  let t := s + 3381#16
  if t = 0#16 then t + 7391#16 else t

/-- The seed given to the `n`-th picture that passes through the assignment (initial value 7391:
    EbSequenceControlSet.c l.188; each picture takes the current value, then the value is advanced). -/
def fgSeed : Nat → BitVec 16
  | 0 => 7391#16
  | n + 1 => fgSeedNext (fgSeed n)

end Dpb
