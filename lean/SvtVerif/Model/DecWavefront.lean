/-
  C09 — executable model of the decoder's row wavefronts (core Lean only, no Mathlib).

  Transcribes, as the code IS at the pinned commit (line numbers of /repo):
    * `decode_tile` / `decode_tile_row`                    Source/Lib/Decoder/Codec/EbDecProcessFrame.c:67-180
    * `get_sb_row_to_process`                              EbDecProcess.c:116-131
    * `dec_av1_loop_filter_frame_mt` + `dec_loop_filter_row`   EbDecProcess.c:825-891, EbDecLF.c:699-748
    * `svt_cdef_frame_mt` + `svt_cdef_sb_row_mt`           EbDecProcess.c:989-1050, EbDecCdef.c:494-587
    * `dec_av1_loop_restoration_filter_frame_mt` + `dec_av1_loop_restoration_filter_row`
                                                           EbDecProcess.c:1225-1294, EbDecRestoration.c:294-470
    * `parse_tile` row flag                                EbDecParseFrame.c:289-296

  All four stages (recon of one tile, LF, CDEF, LR) have the same shape:
    - rows are handed out in increasing order by a mutex-protected counter (`sb_row_to_process`);
    - the worker holding row `r` first spins on a *row gate* (recon: `sb_recon_row_parsed[r]`; LF: `sb_recon_row_map`
      of rows r-1, r, r+1 of every tile column; CDEF: `lf_row_map[r + (r == last ? 0 : 1)]`; LR:
      `cdef_completed_for_row_map[r]`);
    - then walks the columns `j = 0 .. W-1`; before column `j` of a row `r > 0` it spins on the progress counter of
      row `r-1` (the "top-right sync"), processes the column, and stores its own progress counter;
    - after the column loop it publishes a row map for the next stage.
  They differ in how the counter is encoded and tested (`Kind`): these are transcribed literally below.

  One atomic step = the code a worker executes between two scheduling points; the scheduling points are the mutex
  (`pick`), every evaluation of a spin condition (`enter`, `dec`), the end of the processing of a column (`pub`), the
  end of the column loop (`fin`) and the unlocked re-read of `sb_row_to_process` (`chk`, decode_tile:174).  Memory is
  sequentially consistent in the model (the C code spins on plain `volatile` ints).
-/
namespace DecWf

/-! ## lists as C arrays: total get / set -/
def lget {α : Type} [Inhabited α] (l : List α) (i : Nat) : α := l.getD i default
def lset {α : Type} (l : List α) (i : Nat) (v : α) : List α := l.set i v

inductive Kind where
  | recon   -- decode_tile_row : `sb_recon_completed_in_row` (uint32, memset 0, stores absolute sb_col + 1)
  | lf      -- dec_loop_filter_row : `sb_lf_completed_in_row` (int32, memset -1, stores x_sb_index)
  | cdef    -- svt_cdef_sb_row_mt : `cdef_completed_in_row` (uint32, memset 0, stores sb_fbc + 1 = number of SBs done)
  | lr      -- dec_av1_loop_restoration_filter_row : `sb_lr_completed_in_row` (int32, memset -1, stores sb_col_y)
deriving Repr, BEq, DecidableEq, Inhabited

/-- static description of one wavefront: a tile's reconstruction, or a frame-level filter stage -/
structure Stage where
  kind : Kind
  c0 : Nat      -- absolute SB column of the first column (recon: tile start; 0 for the frame-level stages)
  W : Nat       -- number of columns walked by the row loop
  H : Nat       -- number of rows (`tile_num_sb_rows` / `picture_height_in_sb`)
  en : Bool     -- the row body runs (LF: filter levels non-zero and !intrabc; CDEF: do_cdef; LR: do_lr; recon: true)
  n : Nat       -- number of workers that pass through the stage
deriving Repr, Inhabited

/-- counter value after the per-frame reset (EbDecParseObu.c:2323 memset 0; EbDecProcess.c:628 memset -1;
    EbDecProcess.c:905 memset 0; EbDecProcess.c:1079 memset -1) -/
def initCtr : Kind → Int
  | .recon => 0
  | .lf => -1
  | .cdef => 0
  | .lr => -1

/-- value stored after column `j` (EbDecProcessFrame.c:120 `sb_col + 1`; EbDecLF.c:746 `x_sb_index`;
    EbDecCdef.c:587 `(uint32_t)(sb_fbc + 1)`; EbDecRestoration.c:468 `sb_col_y`) -/
def pubVal (s : Stage) (j : Nat) : Int :=
  match s.kind with
  | .recon => (s.c0 + j + 1 : Nat)
  | .cdef => (j + 1 : Nat)
  | _ => (j : Nat)

/-- `nsync` of the CDEF / LR loops: 1 until the last column is reached, then 0 (EbDecCdef.c:523-524,
    EbDecRestoration.c:320-321) -/
def nsync (s : Stage) (j : Nat) : Nat := if j + 1 = s.W then 0 else 1

/-- the spin loop of column `j` in a row `r > 0` is LEFT when this holds of the previous row's counter `v`:
    * recon  `while (*sb_completed_in_prev_row < MIN((sb_col + 2), tile_wd_in_sb)) ;`   EbDecProcessFrame.c:114
             (`sb_col`, `tile_wd_in_sb` absolute: `c0 + j`, `c0 + W`; int32 comparison)
    * lf     `while (*sb_lf_completed_in_prev_row < MIN((x_sb_index + 2), pic_width_in_sb - 1)) ;`  EbDecLF.c:729 (int32)
    * cdef   `while (*cdef_completed_in_prev_row < (uint32_t)(sb_fbc + 1) + nsync) ;`   EbDecCdef.c:526 (uint32 comparison;
             before commit c7d082d the test was `< (sb_fbc + nsync)` on a counter that stored `sb_fbc`: no wait at all for W = 1)
    * lr     `while (*sb_lr_completed_in_prev_row < (sb_col_y + nsync)) ;`   EbDecRestoration.c:322 (int32) -/
def pass (s : Stage) (j : Nat) (v : Int) : Bool :=
  match s.kind with
  | .recon => ! decide (v < ((min (s.c0 + j + 2) (s.c0 + s.W) : Nat) : Int))
  | .lf => ! decide (v < min ((j : Int) + 2) ((s.W : Int) - 1))
  | .cdef => ! decide (v.toNat < j + 1 + nsync s j)
  | .lr => ! decide (v < ((j + nsync s j : Nat) : Int))

/-- phase of one row -/
inductive Ph where
  | unpicked
  | gate            -- handed out; the worker spins on the row gate
  | at (j : Nat)    -- in the column loop, at the top-right spin of column `j`
  | busy (j : Nat)  -- spin left; column `j` is being processed
  | tail            -- column loop over (or body disabled); row map not yet published
  | fin             -- row map published
deriving Repr, BEq, DecidableEq

instance : Inhabited Ph := ⟨.unpicked⟩

structure WSt where
  next : Nat                 -- `sb_row_to_process`
  ctr : List Int             -- the progress counters exactly as the C code stores them
  ph : List Ph
  idle : Nat                 -- workers about to execute the mutex-protected pick
  chk : Nat                  -- workers at the unlocked `sb_row_to_process == tile_num_sb_rows` test (decode_tile:174)
  out : Nat                  -- workers that left the stage
  log : List (Nat × Nat)     -- ghost: (row, column) of every column processing started, newest first
deriving Repr, Inhabited

inductive Op where
  | pick           -- get_sb_row_to_process / decode_tile:140-150
  | enter (r : Nat)  -- the gate spin of row `r` is left (decode_tile:156; EbDecProcess.c:850, 1005, 1231)
  | dec (r : Nat)    -- the top-right spin of the current column of row `r` is left; processing starts
  | pub (r : Nat)    -- processing done; the counter is stored; loop increment
  | fin (r : Nat)    -- row map published (EbDecProcessFrame.c:125; EbDecProcess.c:880-887, 1046, 1291)
  | chk            -- decode_tile:174-177 (recon only)
deriving Repr, BEq, DecidableEq, Inhabited

def initW (s : Stage) : WSt :=
  { next := 0, ctr := List.replicate s.H (initCtr s.kind), ph := List.replicate s.H Ph.unpicked,
    idle := s.n, chk := 0, out := 0, log := [] }

/-- one atomic step of some worker; `g r` = "the gate of row `r` is open now" -/
def step (s : Stage) (g : Nat → Bool) (st : WSt) : Op → Option WSt
  | .pick =>
    if st.idle = 0 then none
    else if st.next ≠ s.H then      -- `if (sb_row_to_process != num_sb_rows)`: `!=`, not `<`
      some { st with idle := st.idle - 1, next := st.next + 1, ph := lset st.ph st.next Ph.gate }
    else if s.kind = Kind.recon then   -- decode_tile: falls through to the test of line 174
      some { st with idle := st.idle - 1, chk := st.chk + 1 }
    else                               -- the frame-level stages `break` out of their `while (1)`
      some { st with idle := st.idle - 1, out := st.out + 1 }
  | .enter r =>
    if lget st.ph r = Ph.gate ∧ g r = true then
      some { st with ph := lset st.ph r (if s.en = true ∧ 0 < s.W then Ph.at 0 else Ph.tail) }
    else none
  | .dec r =>
    match lget st.ph r with
    | Ph.at j =>
      if r = 0 ∨ pass s j (lget st.ctr (r - 1)) = true then    -- `if (sb_row_in_tile)` / `if (y_sb_index)` / `if (sb_fbr)` / `if (sb_row)`
        some { st with ph := lset st.ph r (Ph.busy j), log := (r, j) :: st.log }
      else none
    | _ => none
  | .pub r =>
    match lget st.ph r with
    | Ph.busy j =>
      some { st with ctr := lset st.ctr r (pubVal s j),
                     ph := lset st.ph r (if j + 1 < s.W then Ph.at (j + 1) else Ph.tail) }
    | _ => none
  | .fin r =>
    if lget st.ph r = Ph.tail then
      if s.kind = Kind.recon then some { st with ph := lset st.ph r Ph.fin, chk := st.chk + 1 }
      else some { st with ph := lset st.ph r Ph.fin, idle := st.idle + 1 }
    else none
  | .chk =>
    if st.chk = 0 then none
    else if st.next = s.H then some { st with chk := st.chk - 1, out := st.out + 1 }
    else some { st with chk := st.chk - 1, idle := st.idle + 1 }

/-- candidate ops (used by the driver to detect quiescence) -/
def allOps (s : Stage) : List Op :=
  [Op.pick, Op.chk] ++ (List.range s.H).flatMap fun r => [Op.enter r, Op.dec r, Op.pub r, Op.fin r]

def enabledOps (s : Stage) (g : Nat → Bool) (st : WSt) : List Op :=
  (allOps s).filter fun op => (step s g st op).isSome

/-! ## the frame: tiles, then LF → CDEF → LR, tied by the row maps -/

structure Tile where
  tr : Nat      -- tile row
  tc : Nat      -- tile column
  r0 : Nat      -- first SB row (absolute)
  st : Stage
deriving Repr, Inhabited

structure Frame where
  tileCols : Nat
  tiles : List Tile          -- raster order: index = tr * tileCols + tc
  H : Nat                    -- `picture_height_in_sb` = `dec_mt_frame_data->sb_rows`
  lf : Stage
  cdef : Stage
  lr : Stage
deriving Repr, Inhabited

structure FSt where
  parsed : List (List Bool)  -- per tile: `sb_recon_row_parsed`
  tiles : List WSt
  reconMap : List Bool       -- `sb_recon_row_map[sb_row * tile_cols + tile_col]`
  lf : WSt
  lfMap : List Bool          -- `lf_row_map`
  cdef : WSt
  cdefMap : List Bool        -- `cdef_completed_for_row_map`
  lr : WSt
  lrMap : List Bool          -- `lr_row_map`
deriving Repr, Inhabited

inductive FOp where
  | parse (t r : Nat)        -- parse_tile finishes SB row `r` of tile `t` (EbDecParseFrame.c:294-295)
  | tile (t : Nat) (op : Op)
  | lf (op : Op)
  | cdef (op : Op)
  | lr (op : Op)
deriving Repr, BEq, Inhabited

def initF (F : Frame) : FSt :=
  { parsed := F.tiles.map fun t => List.replicate t.st.H false,
    tiles := F.tiles.map fun t => initW t.st,
    reconMap := List.replicate (F.H * F.tileCols) false,
    lf := initW F.lf, lfMap := List.replicate F.H false,
    cdef := initW F.cdef, cdefMap := List.replicate F.H false,
    lr := initW F.lr, lrMap := List.replicate F.H false }

/-- `start_lf[0] & start_lf[1] & start_lf[2]` after one evaluation of the loop body, EbDecProcess.c:841-859 -/
def lfGate (F : Frame) (fs : FSt) (r : Nat) : Bool :=
  let up := r - (if r = 0 then 0 else 1)
  let dn := r + (if r = F.H - 1 then 0 else 1)
  (List.range F.tileCols).all fun i =>
    lget fs.reconMap (r * F.tileCols + i) && lget fs.reconMap (up * F.tileCols + i) &&
    lget fs.reconMap (dn * F.tileCols + i)

/-- `lf_row_map[sb_row + offset]`, `offset = sb_row == sb_rows - 1 ? 0 : 1`, EbDecProcess.c:999-1005 -/
def cdefGate (F : Frame) (fs : FSt) (r : Nat) : Bool :=
  lget fs.lfMap (r + (if r = F.H - 1 then 0 else 1))

/-- `cdef_completed_for_row_map[sb_row]`, EbDecProcess.c:1229-1231 -/
def lrGate (fs : FSt) (r : Nat) : Bool := lget fs.cdefMap r

/-- the map stores that follow the row body -/
def lfPublish (F : Frame) (m : List Bool) (r : Nat) : List Bool :=
  let m := if r ≠ 0 then lset m (r - 1) true else m             -- EbDecProcess.c:875-881
  if r = F.H - 1 then lset m r true else m                       -- EbDecProcess.c:882-888

def fstep (F : Frame) (fs : FSt) : FOp → Option FSt
  | .parse t r =>
    let p := lget fs.parsed t
    if r < p.length ∧ lget p r = false ∧ (r = 0 ∨ lget p (r - 1) = true) then
      some { fs with parsed := lset fs.parsed t (lset p r true) }
    else none
  | .tile t op =>
    if t < F.tiles.length then
      let T := lget F.tiles t
      match step T.st (fun r => lget (lget fs.parsed t) r) (lget fs.tiles t) op with
      | none => none
      | some w =>
        let fs := { fs with tiles := lset fs.tiles t w }
        match op with
        | .fin r => some { fs with reconMap := lset fs.reconMap ((T.r0 + r) * F.tileCols + T.tc) true }  -- EbDecProcessFrame.c:123-125
        | _ => some fs
    else none
  | .lf op =>
    match step F.lf (lfGate F fs) fs.lf op with
    | none => none
    | some w =>
      match op with
      | .fin r => some { fs with lf := w, lfMap := lfPublish F fs.lfMap r }
      | _ => some { fs with lf := w }
  | .cdef op =>
    match step F.cdef (cdefGate F fs) fs.cdef op with
    | none => none
    | some w =>
      match op with
      | .fin r => some { fs with cdef := w, cdefMap := lset fs.cdefMap r true }   -- EbDecProcess.c:1046
      | _ => some { fs with cdef := w }
  | .lr op =>
    match step F.lr (lrGate fs) fs.lr op with
    | none => none
    | some w =>
      match op with
      | .fin r => some { fs with lr := w, lrMap := lset fs.lrMap r true }         -- EbDecProcess.c:1291
      | _ => some { fs with lr := w }

/-- a regular tile grid: `cs` = SB column boundaries (length tileCols+1), `rs` = SB row boundaries -/
def mkFrame (cs rs : List Nat) (lfW cdefW lrW : Nat) (lfEn cdefEn lrEn : Bool) (n : Nat) : Frame :=
  let tcN := cs.length - 1
  let trN := rs.length - 1
  let H := lget rs trN
  { tileCols := tcN,
    tiles := (List.range trN).flatMap fun tr => (List.range tcN).map fun tc =>
      { tr := tr, tc := tc, r0 := lget rs tr,
        st := { kind := Kind.recon, c0 := lget cs tc, W := lget cs (tc + 1) - lget cs tc,
                H := lget rs (tr + 1) - lget rs tr, en := true, n := n } },
    H := H,
    lf := { kind := Kind.lf, c0 := 0, W := lfW, H := H, en := lfEn, n := n },
    cdef := { kind := Kind.cdef, c0 := 0, W := cdefW, H := H, en := cdefEn, n := n },
    lr := { kind := Kind.lr, c0 := 0, W := lrW, H := H, en := lrEn, n := n } }

end DecWf
