/-
  C17 — several encoder / decoder instances in one process.

  The model.  A process has
    * global objects `γ` (everything with static storage duration that is writable at run time; the concrete
      table is `Gen/Globals.lean`, regenerated from the object files on every run) holding values `ν`, and
    * instances `ι`, each with private state `σ` (its handle, its contexts, its queues, *and its outputs*).
  One atomic step of an instance is one of
    * `compute reads f` — "coding code": reads the listed globals and its own state, updates its own state;
    * `store g w val`   — writer function `w` stores `val (own state)` into global `g`
                          (svt_av1_enc_init -> build_blk_geom -> max_sb = ..., setup_common_rtcd_internal -> ptr = ..., ...);
    * `rmw g w upd`     — a read-modify-write of `g` done under a mutex (memory / component counters): atomic.
  An instance never touches another instance's private state: that is built into `step` (the C analogue: handles
  are separately allocated and only reachable through the handle the application passes in).
  A joint execution is an arbitrary list of `(instance, action)` pairs — every interleaving of the instances'
  own traces at the granularity of these atomic steps, for any number of instances.
  Memory is sequentially consistent and a store of one `ν` is atomic (as DESIGN.md section 3 states for all models).

  Core Lean only (no Mathlib).
-/

namespace SvtVerif.NonInterf

/-! ## the generated inventory's record types -/

/-- How a global may behave (the reviewed classification lives in `Spec/GlobalsClass.lean`). -/
inductive Class where
  /-- every writer stores a value that does not depend on the instance (tables filled identically by every init;
      objects in `.data` that no function writes at all) -/
  | writeOnceConstant
  /-- only read-modify-write under a named mutex, never read by coding code -/
  | lockedCounter
  /-- written from one instance's configuration / handle and read by coding code -/
  | instanceDependent
  /-- instance-independent final value, but every init first stores a placeholder (memset 0 / reset counters) and then
      rebuilds it: a concurrent reader can observe the placeholder -/
  | transientRebuild
  | unclassified
deriving DecidableEq, Repr

/-- One object with static storage duration in a writable section. -/
structure Global where
  name : String          -- symbol name (function-local statics without gcc's `.N` suffix)
  file : String          -- source file of the object file that defines it
  sect : String          -- ELF section (.data / .bss / ...)
  lib : String           -- "enc" | "dec" | "both" (object file is a member of which static library)
  size : Nat
  analysed : Bool        -- false: the defining object was not analysed for writers (NASM object)
  writers : List String       -- functions that store to it (directly, through memset/memcpy, or through a parameter)
  derefWriters : List String  -- functions that store through the pointer it holds
  escapes : List String       -- places where its address leaves the analysis
deriving Repr, DecidableEq

/-- Globals of one object file that share section and writer sets (the generated table is grouped so that the
    classification rules evaluate cheaply in the kernel). -/
structure Group where
  file : String
  sect : String
  lib : String
  analysed : Bool
  writers : List String
  derefWriters : List String
  escapes : List String
  members : List (String × Nat)
deriving Repr

def Group.globals (g : Group) : List Global :=
  g.members.map fun m =>
    { name := m.1, file := g.file, sect := g.sect, lib := g.lib, size := m.2, analysed := g.analysed,
      writers := g.writers, derefWriters := g.derefWriters, escapes := g.escapes }

/-! ## the transition system -/

inductive Act (γ ν σ : Type) where
  | compute (reads : List γ) (f : List ν → σ → σ)
  | store (g : γ) (writer : String) (val : σ → ν)
  | rmw (g : γ) (writer : String) (upd : ν → ν)

structure St (ι γ ν σ : Type) where
  G : γ → ν
  I : ι → σ

def upd {α β : Type} [DecidableEq α] (f : α → β) (a : α) (b : β) : α → β := fun x => if x = a then b else f x

@[simp] theorem upd_same {α β : Type} [DecidableEq α] (f : α → β) (a : α) (b : β) : upd f a b a = b := by simp [upd]
theorem upd_other {α β : Type} [DecidableEq α] (f : α → β) (a : α) (b : β) (x : α) (h : x ≠ a) : upd f a b x = f x := by
  simp [upd, h]

variable {ι γ ν σ : Type}

/-- one atomic step of instance `i` in the joint system -/
def step [DecidableEq ι] [DecidableEq γ] (s : St ι γ ν σ) (i : ι) : Act γ ν σ → St ι γ ν σ
  | .compute reads f => { s with I := upd s.I i (f (reads.map s.G) (s.I i)) }
  | .store g _ val => { s with G := upd s.G g (val (s.I i)) }
  | .rmw g _ u => { s with G := upd s.G g (u (s.G g)) }

/-- a joint execution: any list of (instance, action) -/
def run [DecidableEq ι] [DecidableEq γ] : List (ι × Act γ ν σ) → St ι γ ν σ → St ι γ ν σ
  | [], s => s
  | p :: m, s => run m (step s p.1 p.2)

/-- the same action when the instance is alone in the process -/
def stepSolo [DecidableEq γ] (s : (γ → ν) × σ) : Act γ ν σ → (γ → ν) × σ
  | .compute reads f => (s.1, f (reads.map s.1) s.2)
  | .store g _ val => (upd s.1 g (val s.2), s.2)
  | .rmw g _ u => (upd s.1 g (u (s.1 g)), s.2)

def runSolo [DecidableEq γ] : List (Act γ ν σ) → (γ → ν) × σ → (γ → ν) × σ
  | [], s => s
  | a :: t, s => runSolo t (stepSolo s a)

/-- the trace of instance `i` inside a joint execution -/
def proj [DecidableEq ι] (i : ι) : List (ι × Act γ ν σ) → List (Act γ ν σ)
  | [] => []
  | p :: m => if p.1 = i then p.2 :: proj i m else proj i m

/-- `m` is an interleaving of `t₁` (instance `false`) and `t₂` (instance `true`) -/
inductive Interleaving : List (Act γ ν σ) → List (Act γ ν σ) → List (Bool × Act γ ν σ) → Prop where
  | nil : Interleaving [] [] []
  | left {a t₁ t₂ m} : Interleaving t₁ t₂ m → Interleaving (a :: t₁) t₂ ((false, a) :: m)
  | right {a t₁ t₂ m} : Interleaving t₁ t₂ m → Interleaving t₁ (a :: t₂) ((true, a) :: m)

/-- An instance reads a global only if it is statically initialised (`static`) or the instance itself has stored it
    before (its own `svt_av1_enc_init` ran the table builders before its first kernel thread started).
    `W` = globals stored so far by this instance. -/
def wellInit [DecidableEq γ] (static : γ → Bool) : List γ → List (Act γ ν σ) → Bool
  | _, [] => true
  | W, .compute reads _ :: t => reads.all (fun g => static g || W.contains g) && wellInit static W t
  | W, .store g _ _ :: t => wellInit static (g :: W) t
  | W, .rmw _ _ _ :: t => wellInit static W t

/-- The discipline under which sharing is harmless, stated without classes: `readable` globals are the only ones
    coding code reads; every store to a readable global stores the instance-independent value `c g`; locked
    read-modify-writes only touch non-readable globals. -/
def ActOK (readable : γ → Bool) (c : γ → ν) : Act γ ν σ → Prop
  | .compute reads _ => ∀ g ∈ reads, readable g = true
  | .store g _ val => readable g = true → ∀ x, val x = c g
  | .rmw g _ _ => readable g = false

/-- The same discipline in terms of the classification: coding code reads `writeOnceConstant` and `instanceDependent`
    globals but never a `lockedCounter`; a store to a `writeOnceConstant` global stores `c g`; counters are only
    touched by locked read-modify-writes; nothing is assumed about what is stored into an `instanceDependent` global. -/
def ClassOK (cls : γ → Class) (c : γ → ν) : Act γ ν σ → Prop
  | .compute reads _ => ∀ g ∈ reads, cls g ≠ .lockedCounter
  | .store g _ val => cls g ≠ .lockedCounter ∧ (cls g = .writeOnceConstant → ∀ x, val x = c g)
  | .rmw g _ _ => cls g = .lockedCounter

end SvtVerif.NonInterf
