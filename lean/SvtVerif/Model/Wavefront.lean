/-
  C04 — task graphs executed by any number of workers (generic model) and its EncDec-segment instance.

  The encoder's intra-picture parallelism has one shape everywhere: a picture is cut into TASKS (EncDec segments,
  ME / TF / CDEF / restoration segments, entropy-coding rows, tiles); a worker thread dequeues a task, runs the
  kernel body on it and reports completion; the hand-out logic releases a task only after the tasks it waits for
  (`guard`) have completed:
    * EncDec segments: `assign_enc_dec_segments` (EbEncDecProcess.c:290-410) hands out segment `t` only when
      `dependency_map[t]` has been counted down by its left neighbour in the row and by the segment `t − band_count`
      of the row above (proved for every grid and interleaving in C24; instance `segDag` below);
    * ME / TF / CDEF / restoration segments: no dependencies at all (`guard t = []`), completion is counted
      (`Model/Counter.lean`).

  Model.  A `Dag` has tasks `0 … n−1`; the shared per-picture state is a store `Nat → V` with one CELL per task
  (cell `t` = everything task `t` writes: its superblocks' reconstruction, modes, neighbour arrays, …).
  `body t σ` is the value the kernel writes into cell `t` when the store is `σ`.  A state records which tasks have been
  handed out (`started` — a worker is running it) and which have completed (`done`).  Two kinds of atomic events,
  interleaved arbitrarily (= any number of worker threads, any schedule; the running workers are `started \ done`):
    `start t`   enabled iff `t < n`, not yet handed out, every task of `guard t` is done     (the hand-out logic)
    `finish t`  enabled iff `t` is running; writes `body t σ` into cell `t`                    (the kernel body)
  Reading happens at `finish`; since the cells a body may read (hypothesis `Footprint`: only cells of tasks that are
  ancestors of `t` through `guard`) are final from the moment `t` is handed out, reading them at any earlier moment
  of the task's execution yields the same values.

  Core Lean only.
-/
import SvtVerif.Model.Segments

namespace Wavefront

/-- store update: cell `t` := `v` -/
def upd {V : Type} (σ : Nat → V) (t : Nat) (v : V) : Nat → V := fun j => if j = t then v else σ j

structure Dag (V : Type) where
  n : Nat                              -- number of tasks
  guard : Nat → List Nat               -- tasks the hand-out logic waits for before releasing `t`
  body : Nat → (Nat → V) → V           -- kernel body: the value written to cell `t`

structure St (V : Type) where
  started : List Nat
  done : List Nat
  store : Nat → V

inductive Ev where
  | start (t : Nat)
  | finish (t : Nat)
deriving Repr, DecidableEq

def init {V : Type} (σ0 : Nat → V) : St V := { started := [], done := [], store := σ0 }

def canStart {V : Type} (G : Dag V) (s : St V) (t : Nat) : Prop :=
  t < G.n ∧ t ∉ s.started ∧ ∀ d, d ∈ G.guard t → d ∈ s.done

instance {V : Type} (G : Dag V) (s : St V) (t : Nat) : Decidable (canStart G s t) := by
  unfold canStart; infer_instance

def canFinish {V : Type} (s : St V) (t : Nat) : Prop := t ∈ s.started ∧ t ∉ s.done

instance {V : Type} (s : St V) (t : Nat) : Decidable (canFinish s t) := by
  unfold canFinish; infer_instance

/-- one atomic event; `none` = not enabled -/
def step {V : Type} (G : Dag V) (s : St V) : Ev → Option (St V)
  | .start t => if canStart G s t then some { s with started := t :: s.started } else none
  | .finish t =>
    if canFinish s t then some { s with done := t :: s.done, store := upd s.store t (G.body t s.store) } else none

/-- every state any interleaving of any number of workers can produce from the initial store `σ0` -/
inductive Reachable {V : Type} (G : Dag V) (σ0 : Nat → V) : St V → Prop
  | init : Reachable G σ0 (init σ0)
  | step {s s' : St V} {ev : Ev} : Reachable G σ0 s → step G s ev = some s' → Reachable G σ0 s'

/-- run a list of events (an execution); `none` if one of them is not enabled -/
def run {V : Type} (G : Dag V) (s : St V) : List Ev → Option (St V)
  | [] => some s
  | ev :: evs => match step G s ev with
    | some s' => run G s' evs
    | none => none

/-- the execution is complete: every task has finished -/
def Complete {V : Type} (G : Dag V) (s : St V) : Prop := ∀ t, t < G.n → t ∈ s.done

/-- no event is enabled (all workers idle, nothing to hand out) -/
def Terminal {V : Type} (G : Dag V) (s : St V) : Prop := ∀ ev, step G s ev = none

/-- the single-threaded program: run the kernel bodies one after the other in the listed order -/
def seqStore {V : Type} (G : Dag V) (σ0 : Nat → V) (order : List Nat) : Nat → V :=
  order.foldl (fun σ t => upd σ t (G.body t σ)) σ0

/-- `order` continues a topological order: every task is new, and its guard tasks are in `pre` or earlier in `order` -/
def TopoFrom {V : Type} (G : Dag V) : List Nat → List Nat → Prop
  | _, [] => True
  | pre, t :: rest => t < G.n ∧ t ∉ pre ∧ (∀ d, d ∈ G.guard t → d ∈ pre) ∧ TopoFrom G (t :: pre) rest

/-- a topological order of all tasks -/
def Topo {V : Type} (G : Dag V) (order : List Nat) : Prop := TopoFrom G [] order ∧ ∀ t, t < G.n → t ∈ order

/-- `Anc G d t`: `d` is reachable from `t` by following `guard` one or more times (a proper ancestor of `t`) -/
inductive Anc {V : Type} (G : Dag V) : Nat → Nat → Prop
  | base {d t : Nat} : d ∈ G.guard t → Anc G d t
  | step {d e t : Nat} : e ∈ G.guard t → Anc G d e → Anc G d t

/-- **Hypothesis H-footprint at task granularity.**  `reads t` lists the cells the kernel body of task `t` may read
    besides its own inputs: all of them belong to proper ancestors of `t`, and the body's result depends on the store
    only through them (it neither reads its own cell's previous content nor any cell of an unrelated task). -/
def Footprint {V : Type} (G : Dag V) (reads : Nat → List Nat) : Prop :=
  (∀ t d, d ∈ reads t → Anc G d t) ∧
  ∀ t (σ σ' : Nat → V), (∀ d, d ∈ reads t → σ d = σ' d) → G.body t σ = G.body t σ'

/-- The dependency relation is acyclic and stays inside the task set (a rank function decreasing along `guard`). -/
def Acyclic {V : Type} (G : Dag V) (rank : Nat → Nat) : Prop :=
  ∀ t, t < G.n → ∀ d, d ∈ G.guard t → d < G.n ∧ rank d < rank t

/-! ## EncDec segments as a task graph (deps = the two edges counted by `enc_dec_segments_init`) -/

/-- `p → t` is one of the two dependency edges whose count `enc_dec_segments_init` stores in `dependency_map[t]`
    (EbEncDecSegments.c:118-140) and `assign_enc_dec_segments` counts down: the right neighbour in the same row
    (EbEncDecProcess.c:352-368) or the segment one band-count further in the next row (372-393). -/
def segEdgeB (g : Seg.SegCtl) (p t : Nat) : Bool :=
  (List.range g.segRowCount).any fun r =>
    (decide (Seg.rowStart g.rows r ≤ p) && decide (p < Seg.rowEnd g.rows r) && decide (t = p + 1)) ||
    (decide (r + 1 < g.segRowCount) && decide (Seg.rowStart g.rows r ≤ p) && decide (p ≤ Seg.rowEnd g.rows r) &&
      decide (Seg.rowStart g.rows (r + 1) ≤ p + g.segBandCount) && decide (t = p + g.segBandCount))

/-- the segments segment `t` waits for -/
def segGuard (g : Seg.SegCtl) (t : Nat) : List Nat :=
  (List.range g.segTtlCount).filter fun p => segEdgeB g p t

/-- the EncDec segments of one picture (tile group) as a task graph; `body` = what the SB loop of a segment computes -/
def segDag {V : Type} (g : Seg.SegCtl) (body : Nat → (Nat → V) → V) : Dag V :=
  { n := g.segTtlCount, guard := segGuard g, body := body }

end Wavefront
