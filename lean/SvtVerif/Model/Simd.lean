/-
  C07 — lane-level model of the x86 SIMD intrinsics used by the modelled kernels, and of typed memory.

  Conventions
  * `Mem k` : a typed buffer, element index → `BitVec k` (uint8_t* = `Mem 8`, int16_t*/uint16_t* = `Mem 16`,
    int32_t* = `Mem 32`, uint64_t* = `Mem 64`).  Pointers are element indices into one such buffer; pointer
    arithmetic is `Nat` addition (strides are `uint32_t`, buffers are far smaller than 2^32 elements: no wrap).
  * `Reg`   : a SIMD register = the list of its bytes, least significant first (`__m128i` = 16 bytes, `__m256i` = 32).
    Every intrinsic is a function on byte lists; wider lanes are little-endian groups of bytes (`lanes16/32/64`),
    exactly as the hardware reinterprets the same register (`_mm256_mul_epi32` reads the low dword of each qword of a
    register that `_mm256_add_epi32` treats as 8 dwords, etc.).
  * Each intrinsic below is validated against the real instruction by harness/simd_ops.c via `svtmodel simd`
    (all lanes, boundary and random values).  Intel Intrinsics Guide operation text is quoted per intrinsic.
  Core Lean only.
-/
namespace Simd

/-! ### typed memory -/

abbrev Mem (k : Nat) := Nat → BitVec k

/-- `n` consecutive elements starting at element index `a` -/
def loadL {k : Nat} (m : Mem k) (a n : Nat) : List (BitVec k) := (List.range n).map fun i => m (a + i)

/-- store consecutive elements at element index `a` -/
def storeL {k : Nat} (m : Mem k) (a : Nat) (vs : List (BitVec k)) : Mem k :=
  fun x => if a ≤ x ∧ x < a + vs.length then vs.getD (x - a) 0 else m x

/-- single element store `p[a] = v` -/
def store1 {k : Nat} (m : Mem k) (a : Nat) (v : BitVec k) : Mem k := fun x => if x = a then v else m x

/-! ### registers and lane views -/

abbrev Reg := List (BitVec 8)

def zeroReg (nbytes : Nat) : Reg := List.replicate nbytes 0

def le16 (b0 b1 : BitVec 8) : BitVec 16 := b1 ++ b0
def le32 (b0 b1 b2 b3 : BitVec 8) : BitVec 32 := b3 ++ b2 ++ b1 ++ b0
def le64 (b0 b1 b2 b3 b4 b5 b6 b7 : BitVec 8) : BitVec 64 := b7 ++ b6 ++ b5 ++ b4 ++ b3 ++ b2 ++ b1 ++ b0

def bytes16 (v : BitVec 16) : Reg := [v.extractLsb' 0 8, v.extractLsb' 8 8]
def bytes32 (v : BitVec 32) : Reg := [v.extractLsb' 0 8, v.extractLsb' 8 8, v.extractLsb' 16 8, v.extractLsb' 24 8]
def bytes64 (v : BitVec 64) : Reg :=
  [v.extractLsb' 0 8, v.extractLsb' 8 8, v.extractLsb' 16 8, v.extractLsb' 24 8,
   v.extractLsb' 32 8, v.extractLsb' 40 8, v.extractLsb' 48 8, v.extractLsb' 56 8]

def lanes16 : Reg → List (BitVec 16)
  | b0 :: b1 :: r => le16 b0 b1 :: lanes16 r
  | _ => []
def lanes32 : Reg → List (BitVec 32)
  | b0 :: b1 :: b2 :: b3 :: r => le32 b0 b1 b2 b3 :: lanes32 r
  | _ => []
def lanes64 : Reg → List (BitVec 64)
  | b0 :: b1 :: b2 :: b3 :: b4 :: b5 :: b6 :: b7 :: r => le64 b0 b1 b2 b3 b4 b5 b6 b7 :: lanes64 r
  | _ => []

def unlanes16 (l : List (BitVec 16)) : Reg := l.flatMap bytes16
def unlanes32 (l : List (BitVec 32)) : Reg := l.flatMap bytes32
def unlanes64 (l : List (BitVec 64)) : Reg := l.flatMap bytes64

/-- lane-wise binary operation on 8/16/32/64-bit lanes -/
def map2_8 (f : BitVec 8 → BitVec 8 → BitVec 8) (a b : Reg) : Reg := List.zipWith f a b
def map2_16 (f : BitVec 16 → BitVec 16 → BitVec 16) (a b : Reg) : Reg := unlanes16 (List.zipWith f (lanes16 a) (lanes16 b))
def map2_32 (f : BitVec 32 → BitVec 32 → BitVec 32) (a b : Reg) : Reg := unlanes32 (List.zipWith f (lanes32 a) (lanes32 b))
def map2_64 (f : BitVec 64 → BitVec 64 → BitVec 64) (a b : Reg) : Reg := unlanes64 (List.zipWith f (lanes64 a) (lanes64 b))

/-! ### loads / stores between typed memory and registers -/

/-- `_mm_loadu_si128` / `_mm256_loadu_si256` / `_mm_loadl_epi64` (nbytes = 8, upper half zero) / `_mm_cvtsi32_si128(*(uint32_t*)p)`
    (nbytes = 4) on a `uint8_t` buffer: `nbytes` bytes from memory, zero-filled up to `regbytes`. -/
def loadBytes (m : Mem 8) (a nbytes regbytes : Nat) : Reg := loadL m a nbytes ++ zeroReg (regbytes - nbytes)
/-- the same on an `int16_t`/`uint16_t` buffer: `n` elements -/
def loadU16 (m : Mem 16) (a n regbytes : Nat) : Reg := unlanes16 (loadL m a n) ++ zeroReg (regbytes - 2 * n)
/-- on an `int32_t` buffer -/
def loadU32 (m : Mem 32) (a n regbytes : Nat) : Reg := unlanes32 (loadL m a n) ++ zeroReg (regbytes - 4 * n)

/-- `_mm_storeu_si128` / `_mm256_storeu_si256` / `_mm_storel_epi64` (nbytes = 8) / `*(uint32_t*)p = _mm_cvtsi128_si32(r)` (nbytes = 4)
    to a `uint8_t` buffer: the low `nbytes` bytes of the register -/
def storeBytes (m : Mem 8) (a : Nat) (r : Reg) (nbytes : Nat) : Mem 8 := storeL m a (r.take nbytes)
def storeU16 (m : Mem 16) (a : Nat) (r : Reg) (n : Nat) : Mem 16 := storeL m a ((lanes16 r).take n)
def storeU32 (m : Mem 32) (a : Nat) (r : Reg) (n : Nat) : Mem 32 := storeL m a ((lanes32 r).take n)
def storeU64 (m : Mem 64) (a : Nat) (r : Reg) (n : Nat) : Mem 64 := storeL m a ((lanes64 r).take n)

/-! ### intrinsics (SSE2 / SSE4.1 / AVX2).  128-bit ones take 16-byte registers, 256-bit ones 32-byte registers. -/

/-- `_mm_setzero_si128`, `_mm256_setzero_si256` -/
def mm_setzero_si128 : Reg := zeroReg 16
def mm256_setzero_si256 : Reg := zeroReg 32

/-- `_mm256_castsi256_si128`: low 128 bits -/
def mm256_castsi256_si128 (a : Reg) : Reg := a.take 16
/-- `_mm256_extracti128_si256(a, imm)`: 128-bit half `imm & 1` -/
def mm256_extracti128_si256 (a : Reg) (imm : Nat) : Reg := (a.drop (16 * (imm % 2))).take 16
/-- `_mm256_setr_m128i(lo, hi)` / `_mm256_inserti128_si256(_mm256_castsi128_si256(lo), hi, 1)` -/
def mm256_setr_m128i (lo hi : Reg) : Reg := lo.take 16 ++ hi.take 16

/-- `_mm_add_epi16`/`_mm_sub_epi16`, `_mm256_*`: wrap-around 16-bit lanes.  Guide: `dst[i+15:i] := a[i+15:i] - b[i+15:i]` -/
def sub_epi16 (a b : Reg) : Reg := map2_16 (· - ·) a b
def add_epi16 (a b : Reg) : Reg := map2_16 (· + ·) a b
/-- `_mm_add_epi32`, `_mm256_add_epi32`: wrap-around 32-bit lanes (NO carry into the neighbouring dword) -/
def add_epi32 (a b : Reg) : Reg := map2_32 (· + ·) a b
def sub_epi32 (a b : Reg) : Reg := map2_32 (· - ·) a b
/-- `_mm_add_epi64`, `_mm256_add_epi64`, `_mm256_sub_epi64`: wrap-around 64-bit lanes -/
def add_epi64 (a b : Reg) : Reg := map2_64 (· + ·) a b
def sub_epi64 (a b : Reg) : Reg := map2_64 (· - ·) a b

/-- `_mm_avg_epu8`: Guide: `dst[i+7:i] := (a[i+7:i] + b[i+7:i] + 1) >> 1` computed without overflow (9 bits) -/
def avg8 (x y : BitVec 8) : BitVec 8 := ((x.zeroExtend 9 + y.zeroExtend 9 + 1) >>> 1).truncate 8
def avg_epu8 (a b : Reg) : Reg := map2_8 avg8 a b

/-- `_mm_unpacklo_epi8` on one 128-bit lane: interleave the low 8 bytes of `a` and `b` -/
def interleave : List (BitVec 8) → List (BitVec 8) → List (BitVec 8)
  | x :: xs, y :: ys => x :: y :: interleave xs ys
  | _, _ => []
def mm_unpacklo_epi8 (a b : Reg) : Reg := interleave (a.take 8) (b.take 8)
def mm_unpackhi_epi8 (a b : Reg) : Reg := interleave ((a.drop 8).take 8) ((b.drop 8).take 8)
/-- `_mm256_unpacklo_epi8` / `_mm256_unpackhi_epi8`: the 128-bit operation on each half independently -/
def mm256_unpacklo_epi8 (a b : Reg) : Reg :=
  mm_unpacklo_epi8 (a.take 16) (b.take 16) ++ mm_unpacklo_epi8 (a.drop 16) (b.drop 16)
def mm256_unpackhi_epi8 (a b : Reg) : Reg :=
  mm_unpackhi_epi8 (a.take 16) (b.take 16) ++ mm_unpackhi_epi8 (a.drop 16) (b.drop 16)

/-- the `i`-th 64-bit lane (8 bytes) of a register -/
def qword (a : Reg) (i : Nat) : Reg := (a.drop (8 * i)).take 8
/-- `_mm256_permute4x64_epi64(a, imm8)`: `dst.qword[j] := a.qword[(imm8 >> 2j) & 3]` -/
def mm256_permute4x64_epi64 (a : Reg) (imm : Nat) : Reg :=
  qword a (imm % 4) ++ qword a (imm / 4 % 4) ++ qword a (imm / 16 % 4) ++ qword a (imm / 64 % 4)

/-- the `i`-th 32-bit lane (4 bytes) -/
def dword (a : Reg) (i : Nat) : Reg := (a.drop (4 * i)).take 4
/-- `_mm_shuffle_epi32(a, imm8)`: `dst.dword[j] := a.dword[(imm8 >> 2j) & 3]` -/
def mm_shuffle_epi32 (a : Reg) (imm : Nat) : Reg :=
  dword a (imm % 4) ++ dword a (imm / 4 % 4) ++ dword a (imm / 16 % 4) ++ dword a (imm / 64 % 4)
/-- `_mm_unpacklo_epi64(a, b)`: `dst = a.qword[0] : b.qword[0]` -/
def mm_unpacklo_epi64 (a b : Reg) : Reg := qword a 0 ++ qword b 0

/-- `_mm256_cvtepi32_epi64(a)`: sign-extend the four dwords of a 128-bit register to four qwords -/
def mm256_cvtepi32_epi64 (a : Reg) : Reg := unlanes64 ((lanes32 (a.take 16)).map fun x => x.signExtend 64)
/-- `_mm256_mul_epi32(a, b)` / `_mm_mul_epi32`: for each 64-bit lane, signed product of the LOW dwords of a and b.
    Guide: `dst[i+63:i] := SignExtend64(a[i+31:i]) * SignExtend64(b[i+31:i])` -/
def mulLo32 (x y : BitVec 64) : BitVec 64 := (x.truncate 32).signExtend 64 * (y.truncate 32).signExtend 64
def mul_epi32 (a b : Reg) : Reg := map2_64 mulLo32 a b

/-! ### additions for the C07a kernels (residual_kernel8bit_avx2, picture_average_kernel_sse2) -/

/-- `*(int32_t *)p` / `*(uint32_t *)p` on a `uint8_t` buffer (x86 is little endian) -/
def loadI32 (m : Mem 8) (a : Nat) : BitVec 32 := le32 (m a) (m (a + 1)) (m (a + 2)) (m (a + 3))
/-- `_mm_insert_epi32(a, i, imm8)` (SSE4.1).  Guide: `dst[127:0] := a[127:0]; sel := imm8[1:0]*32; dst[sel+31:sel] := i[31:0]` -/
def mm_insert_epi32 (a : Reg) (v : BitVec 32) (imm : Nat) : Reg :=
  a.take (4 * (imm % 4)) ++ bytes32 v ++ a.drop (4 * (imm % 4) + 4)
/-- `_mm_castpd_si128(_mm_loadh_pd(_mm_castsi128_pd(a), (double *)p))` on a `uint8_t` buffer.
    Guide: `dst[63:0] := a[63:0]; dst[127:64] := MEM[mem_addr+63:mem_addr]` -/
def mm_loadh_pd (a : Reg) (m : Mem 8) (p : Nat) : Reg := a.take 8 ++ loadL m p 8
/-- `_mm_storeh_pd((double *)p, _mm_castsi128_pd(r))` to an `int16_t` buffer.
    Guide: `MEM[mem_addr+63:mem_addr] := a[127:64]` (four 16-bit elements) -/
def storehU16 (m : Mem 16) (a : Nat) (r : Reg) : Mem 16 := storeL m a (lanes16 (qword r 1))

end Simd
