/-
  LEB128 size fields of AV1 OBUs (C02).

  Encoder side mirrors `/repo/Source/Lib/Encoder/Codec/EbEntropyCoding.c`:
    * `svt_aom_uleb_size_in_bytes` (l.1648-1652):  `do { ++size; } while ((value >>= 7) != 0);`
    * `svt_aom_uleb_encode` (l.1654-1674): fails (-1) when `value > 2^56-1`, `leb_size > 8`,
      `leb_size > available`; otherwise writes `leb_size` bytes `value & 0x7f`, `value >>= 7`,
      `byte |= 0x80` while the shifted value is non-zero.
    * `write_uleb_obu_size` (l.4088-4098): calls the encoder with `available = sizeof(uint32_t) = 4`.
  Decoder side mirrors `/repo/Source/Lib/Decoder/Codec/EbDecBitstream.c`:
    * `dec_get_bits_leb128` (l.51-63): at most 8 bytes, `value |= (byte & 0x7f) << (i*7)`, stop at the
      first byte without the 0x80 bit,
    * `read_obu_size` (`EbDecParseObu.c` l.474-484): values above `UINT32_MAX` are rejected.
  The C decoder reads past the end of the buffer when the bytes run out; the model returns `none` there.

  Core Lean only (linked into the `svtmodel` driver).
-/
namespace Leb128

/-- Loop of `svt_aom_uleb_size_in_bytes` (l.1650) with an iteration bound. -/
def sizeGo : Nat → Nat → Nat
  | 0, _ => 1
  | fuel + 1, v => if v >>> 7 = 0 then 1 else 1 + sizeGo fuel (v >>> 7)

/-- `svt_aom_uleb_size_in_bytes` (l.1648): number of 7-bit groups, at least one. The argument is a
    `uint64_t`, so the `do … while` loop runs at most 10 times; the bound makes the function structural. -/
def sizeInBytes (v : Nat) : Nat := sizeGo 10 v

/-- The write loop of `svt_aom_uleb_encode` (l.1662-1670) for `n` iterations. -/
def encodeBytes : Nat → Nat → List UInt8
  | 0, _ => []
  | n + 1, v =>
    let byte := v &&& 0x7f
    let v' := v >>> 7
    (if v' ≠ 0 then byte ||| 0x80 else byte).toUInt8 :: encodeBytes n v'

def kMaximumLeb128Size : Nat := 8
def kMaximumLeb128Value : Nat := 0xFFFFFFFFFFFFFF

/-- `svt_aom_uleb_encode(value, available, ..)` (l.1654): `none` models the `-1` return. -/
def ulebEncode (value available : Nat) : Option (List UInt8) :=
  let lebSize := sizeInBytes value
  if value > kMaximumLeb128Value ∨ lebSize > kMaximumLeb128Size ∨ lebSize > available then none
  else some (encodeBytes lebSize value)

/-- `write_uleb_obu_size` (l.4088): the size field of every OBU the encoder writes; `available = 4`. -/
def writeUlebObuSize (obuPayloadSize : Nat) : Option (List UInt8) := ulebEncode obuPayloadSize 4

/-- Loop of `dec_get_bits_leb128` (l.56-62): `fuel` = remaining iterations (8 at the start),
    `shift = 7*i`, `acc` = value so far. Returns the value and the unread bytes. -/
def decodeGo : Nat → Nat → Nat → List UInt8 → Option (Nat × List UInt8)
  | 0, _, acc, rest => some (acc, rest)
  | _ + 1, _, _, [] => none
  | fuel + 1, shift, acc, b :: bs =>
    let acc' := acc ||| ((b.toNat &&& 0x7f) <<< shift)
    if b.toNat &&& 0x80 = 0 then some (acc', bs) else decodeGo fuel (shift + 7) acc' bs

/-- `dec_get_bits_leb128`. -/
def decode (bs : List UInt8) : Option (Nat × List UInt8) := decodeGo 8 0 0 bs

/-- `read_obu_size` (EbDecParseObu.c l.474): leb128 followed by the `> UINT32_MAX` rejection. -/
def readObuSize (bs : List UInt8) : Option (Nat × List UInt8) :=
  match decode bs with
  | some (v, rest) => if v > 0xFFFFFFFF then none else some (v, rest)
  | none => none

end Leb128
