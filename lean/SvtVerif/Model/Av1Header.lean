/-
  AV1 sequence header (§5.5) and uncompressed frame header (§5.9) parser with the decoder state it needs
  (§7.20 reference frame update).  This is the measuring instrument of C02 / C18 / C19 / C20: it is
  hand-written from the AV1 specification syntax tables, in the order of
  `/repo/Source/Lib/Decoder/Codec/EbDecParseObu.c` (`read_sequence_header_obu` l.237, `read_uncompressed_header`
  l.1735 and the helpers it calls; line numbers in the comments), and it is validated field by field against
  that real parser on every packet of every encode of `checks/c02.py`.

  What the encoder can emit (EbEntropyCoding.c `write_sequence_header_obu` l.4137, `write_uncompressed_header_obu`
  l.3763): profile 0, 4:2:0, 8/10 bit, no timing/decoder-model info, no frame ids, no scalability,
  `frame_size_override_flag = 0`, `frame_refs_short_signaling = 0`.  The parser nevertheless follows the full
  syntax, except `frame_refs_short_signaling = 1` (needs the §7.8 set_frame_refs process), which is reported
  as an error.

  Core Lean only (linked into the `svtmodel` driver).
-/
import SvtVerif.Model.Obu

namespace Av1
open Obu

/-! ## Sequence header -/

structure OperatingPoint where
  idc : Nat := 0
  seqLevelIdx : Nat := 0
  seqTier : Nat := 0
  decoderModelPresent : Nat := 0
deriving Repr, Inhabited, DecidableEq

structure SeqHeader where
  profile : Nat := 0
  stillPicture : Nat := 0
  reducedStillPictureHeader : Nat := 0
  timingInfoPresent : Nat := 0
  equalPictureInterval : Nat := 0
  decoderModelInfoPresent : Nat := 0
  bufferDelayLengthMinus1 : Nat := 0
  bufferRemovalTimeLengthMinus1 : Nat := 0
  framePresentationTimeLengthMinus1 : Nat := 0
  initialDisplayDelayPresent : Nat := 0
  operatingPoints : List OperatingPoint := []
  frameWidthBits : Nat := 0
  frameHeightBits : Nat := 0
  maxFrameWidth : Nat := 0
  maxFrameHeight : Nat := 0
  frameIdNumbersPresent : Nat := 0
  deltaFrameIdLength : Nat := 0      -- delta_frame_id_length_minus_2 + 2
  additionalFrameIdLength : Nat := 0 -- additional_frame_id_length_minus_1 + 1
  use128x128 : Nat := 0
  enableFilterIntra : Nat := 0
  enableIntraEdgeFilter : Nat := 0
  enableInterintraCompound : Nat := 0
  enableMaskedCompound : Nat := 0
  enableWarpedMotion : Nat := 0
  enableDualFilter : Nat := 0
  enableOrderHint : Nat := 0
  enableJntComp : Nat := 0
  enableRefFrameMvs : Nat := 0
  seqForceScreenContentTools : Nat := 2
  seqForceIntegerMv : Nat := 2
  orderHintBits : Nat := 0
  enableSuperres : Nat := 0
  enableCdef : Nat := 0
  enableRestoration : Nat := 0
  bitDepth : Nat := 8
  monoChrome : Nat := 0
  colorDescriptionPresent : Nat := 0
  colorPrimaries : Nat := 2
  transferCharacteristics : Nat := 2
  matrixCoefficients : Nat := 2
  colorRange : Nat := 0
  subsamplingX : Nat := 1
  subsamplingY : Nat := 1
  chromaSamplePosition : Nat := 0
  separateUvDeltaQ : Nat := 0
  filmGrainParamsPresent : Nat := 0
deriving Repr, Inhabited, DecidableEq

def SeqHeader.numPlanes (s : SeqHeader) : Nat := if s.monoChrome = 1 then 1 else 3

def SELECT_SCREEN_CONTENT_TOOLS : Nat := 2
def SELECT_INTEGER_MV : Nat := 2

/-- timing_info() §5.5.3 (`read_timing_info` l.123) -/
def parseTimingInfo (s : SeqHeader) : P SeqHeader := do
  let _numUnits ← f 32
  let _timeScale ← f 32
  let eq ← f 1
  if eq = 1 then
    let _ ← uvlc
    pure ()
  return { s with equalPictureInterval := eq }

/-- decoder_model_info() §5.5.4 (`read_decoder_model_info` l.141) -/
def parseDecoderModelInfo (s : SeqHeader) : P SeqHeader := do
  let a ← f 5
  let _ ← f 32
  let b ← f 5
  let c ← f 5
  return { s with bufferDelayLengthMinus1 := a, bufferRemovalTimeLengthMinus1 := b,
                  framePresentationTimeLengthMinus1 := c }

/-- One iteration of the operating point loop (l.284-319). -/
def parseOperatingPoint (s : SeqHeader) : P OperatingPoint := do
  let idc ← f 12
  let lvl ← f 5
  let tier ← if lvl > 7 then f 1 else pure 0
  let mut dm := 0
  if s.decoderModelInfoPresent = 1 then
    dm ← f 1
    if dm = 1 then
      let n := s.bufferDelayLengthMinus1 + 1
      let _ ← f n
      let _ ← f n
      let _ ← f 1
      pure ()
  if s.initialDisplayDelayPresent = 1 then
    let p ← f 1
    if p = 1 then
      let _ ← f 4
      pure ()
  return { idc := idc, seqLevelIdx := lvl, seqTier := tier, decoderModelPresent := dm }

def parseOperatingPoints (s : SeqHeader) : Nat → List OperatingPoint → P (List OperatingPoint)
  | 0, acc => pure acc.reverse
  | n + 1, acc => do
    let op ← parseOperatingPoint s
    parseOperatingPoints s n (op :: acc)

/-- color_config() §5.5.2 (`read_color_config` l.168) -/
def parseColorConfig (s : SeqHeader) : P SeqHeader := do
  let highBitdepth ← f 1
  let mut s := s
  if s.profile = 2 ∧ highBitdepth = 1 then
    let twelve ← f 1
    s := { s with bitDepth := if twelve = 1 then 12 else 10 }
  else
    s := { s with bitDepth := if highBitdepth = 1 then 10 else 8 }
  let mono ← if s.profile = 1 then pure 0 else f 1
  s := { s with monoChrome := mono }
  let cdp ← f 1
  s := { s with colorDescriptionPresent := cdp }
  if cdp = 1 then
    let cp ← f 8
    let tc ← f 8
    let mc ← f 8
    s := { s with colorPrimaries := cp, transferCharacteristics := tc, matrixCoefficients := mc }
  else
    s := { s with colorPrimaries := 2, transferCharacteristics := 2, matrixCoefficients := 2 }
  if mono = 1 then
    let cr ← f 1
    return { s with colorRange := cr, subsamplingX := 1, subsamplingY := 1, chromaSamplePosition := 0,
                    separateUvDeltaQ := 0 }
  else if s.colorPrimaries = 1 ∧ s.transferCharacteristics = 13 ∧ s.matrixCoefficients = 0 then
    s := { s with colorRange := 1, subsamplingX := 0, subsamplingY := 0 }
  else
    let cr ← f 1
    s := { s with colorRange := cr }
    if s.profile = 0 then
      s := { s with subsamplingX := 1, subsamplingY := 1 }
    else if s.profile = 1 then
      s := { s with subsamplingX := 0, subsamplingY := 0 }
    else
      if s.bitDepth = 12 then
        let sx ← f 1
        let sy ← if sx = 1 then f 1 else pure 0
        s := { s with subsamplingX := sx, subsamplingY := sy }
      else
        s := { s with subsamplingX := 1, subsamplingY := 0 }
    if s.subsamplingX = 1 ∧ s.subsamplingY = 1 then
      let csp ← f 2
      s := { s with chromaSamplePosition := csp }
  let sep ← f 1
  return { s with separateUvDeltaQ := sep }

/-- sequence_header_obu() §5.5.1 (`read_sequence_header_obu` l.237), including trailing_bits(). -/
def parseSeqHeader : P SeqHeader := do
  let mut s : SeqHeader := {}
  let profile ← f 3
  if profile > 2 then fail "seq-profile"
  let still ← f 1
  let reduced ← f 1
  if still = 0 ∧ reduced = 1 then fail "reduced-still-picture-header-without-still-picture"
  s := { s with profile := profile, stillPicture := still, reducedStillPictureHeader := reduced }
  if reduced = 1 then
    let lvl ← f 5
    s := { s with operatingPoints := [{ seqLevelIdx := lvl }] }
  else
    let tip ← f 1
    s := { s with timingInfoPresent := tip }
    if tip = 1 then
      s ← parseTimingInfo s
      let dmp ← f 1
      s := { s with decoderModelInfoPresent := dmp }
      if dmp = 1 then
        s ← parseDecoderModelInfo s
    let iddp ← f 1
    s := { s with initialDisplayDelayPresent := iddp }
    let cnt ← f 5
    let ops ← parseOperatingPoints s (cnt + 1) []
    s := { s with operatingPoints := ops }
  let wb ← f 4
  let hb ← f 4
  let mw ← f (wb + 1)
  let mh ← f (hb + 1)
  s := { s with frameWidthBits := wb + 1, frameHeightBits := hb + 1, maxFrameWidth := mw + 1, maxFrameHeight := mh + 1 }
  if reduced = 0 then
    let fid ← f 1
    s := { s with frameIdNumbersPresent := fid }
    if fid = 1 then
      let d ← f 4
      let a ← f 3
      s := { s with deltaFrameIdLength := d + 2, additionalFrameIdLength := a + 1 }
  let sb128 ← f 1
  let fi ← f 1
  let ie ← f 1
  s := { s with use128x128 := sb128, enableFilterIntra := fi, enableIntraEdgeFilter := ie }
  if reduced = 1 then
    s := { s with seqForceScreenContentTools := 2, seqForceIntegerMv := 2, orderHintBits := 0 }
  else
    let ii ← f 1
    let mc ← f 1
    let wm ← f 1
    let df ← f 1
    let oh ← f 1
    s := { s with enableInterintraCompound := ii, enableMaskedCompound := mc, enableWarpedMotion := wm,
                  enableDualFilter := df, enableOrderHint := oh }
    if oh = 1 then
      let jc ← f 1
      let rm ← f 1
      s := { s with enableJntComp := jc, enableRefFrameMvs := rm }
    let chooseSct ← f 1
    let sct ← if chooseSct = 1 then pure SELECT_SCREEN_CONTENT_TOOLS else f 1
    s := { s with seqForceScreenContentTools := sct }
    if sct > 0 then
      let chooseImv ← f 1
      let imv ← if chooseImv = 1 then pure SELECT_INTEGER_MV else f 1
      s := { s with seqForceIntegerMv := imv }
    else
      s := { s with seqForceIntegerMv := SELECT_INTEGER_MV }
    if oh = 1 then
      let b ← f 3
      s := { s with orderHintBits := b + 1 }
    else
      s := { s with orderHintBits := 0 }
  let sr ← f 1
  let cdef ← f 1
  let lr ← f 1
  s := { s with enableSuperres := sr, enableCdef := cdef, enableRestoration := lr }
  s ← parseColorConfig s
  let fg ← f 1
  s := { s with filmGrainParamsPresent := fg }
  trailingBits
  return s

/-! ## Decoder state (§7.20) -/

def gmDefault : Array Int := #[0, 0, 1 <<< 16, 0, 0, 1 <<< 16]

structure RefSlot where
  valid : Bool := false
  frameType : Nat := 0
  orderHint : Nat := 0
  upscaledWidth : Nat := 0
  frameWidth : Nat := 0
  frameHeight : Nat := 0
  renderWidth : Nat := 0
  renderHeight : Nat := 0
  showableFrame : Nat := 0
  gmParams : Array (Array Int) := Array.replicate 8 gmDefault
  segEnabled : Array Bool := Array.replicate 64 false     -- FeatureEnabled[i][j] at index 8*i+j
  segData : Array Int := Array.replicate 64 0
  applyGrain : Nat := 0
deriving Repr, Inhabited

structure DecState where
  slots : Array RefSlot := Array.replicate 8 {}
deriving Repr, Inhabited

def DecState.slot (st : DecState) (i : Nat) : RefSlot := st.slots.getD i {}

/-! ## Frame header -/

def KEY_FRAME : Nat := 0
def INTER_FRAME : Nat := 1
def INTRA_ONLY_FRAME : Nat := 2
def SWITCH_FRAME : Nat := 3
def PRIMARY_REF_NONE : Nat := 7
def IDENTITY : Nat := 0
def TRANSLATION : Nat := 1
def ROTZOOM : Nat := 2
def AFFINE : Nat := 3

structure FrameHeader where
  showExistingFrame : Nat := 0
  frameToShowMapIdx : Nat := 0
  frameType : Nat := 0
  showFrame : Nat := 0
  showableFrame : Nat := 0
  errorResilientMode : Nat := 0
  disableCdfUpdate : Nat := 0
  allowScreenContentTools : Nat := 0
  forceIntegerMv : Nat := 0
  frameSizeOverrideFlag : Nat := 0
  orderHint : Nat := 0
  primaryRefFrame : Nat := 7
  refreshFrameFlags : Nat := 0
  refFrameIdx : List Nat := [0, 0, 0, 0, 0, 0, 0]
  frameWidth : Nat := 0
  frameHeight : Nat := 0
  upscaledWidth : Nat := 0
  renderWidth : Nat := 0
  renderHeight : Nat := 0
  useSuperres : Nat := 0
  superresDenom : Nat := 8
  allowIntrabc : Nat := 0
  allowHighPrecisionMv : Nat := 0
  interpolationFilter : Nat := 0      -- 4 = SWITCHABLE
  isMotionModeSwitchable : Nat := 0
  useRefFrameMvs : Nat := 0
  disableFrameEndUpdateCdf : Nat := 0
  uniformTileSpacing : Nat := 0
  tileColsLog2 : Nat := 0
  tileRowsLog2 : Nat := 0
  tileCols : Nat := 0
  tileRows : Nat := 0
  contextUpdateTileId : Nat := 0
  tileSizeBytes : Nat := 0
  baseQIdx : Nat := 0
  deltaQYDc : Int := 0
  deltaQUDc : Int := 0
  deltaQUAc : Int := 0
  deltaQVDc : Int := 0
  deltaQVAc : Int := 0
  usingQmatrix : Nat := 0
  qmY : Nat := 0
  qmU : Nat := 0
  qmV : Nat := 0
  segEnabled : Nat := 0
  segUpdateMap : Nat := 0
  segTemporalUpdate : Nat := 0
  segUpdateData : Nat := 0
  segFeatEnabled : Array Bool := Array.replicate 64 false
  segFeatData : Array Int := Array.replicate 64 0
  deltaQPresent : Nat := 0
  deltaQRes : Nat := 0
  deltaLfPresent : Nat := 0
  deltaLfRes : Nat := 0
  deltaLfMulti : Nat := 0
  codedLossless : Nat := 0
  allLossless : Nat := 0
  lfLevel0 : Nat := 0
  lfLevel1 : Nat := 0
  lfLevelU : Nat := 0
  lfLevelV : Nat := 0
  lfSharpness : Nat := 0
  lfDeltaEnabled : Nat := 0
  lfDeltaUpdate : Nat := 0
  cdefDamping : Nat := 3
  cdefBits : Nat := 0
  cdefYStrength : List Nat := [0]    -- 6-bit values (pri << 2 | sec) as coded
  cdefUvStrength : List Nat := [0]
  lrType : List Nat := [0, 0, 0]     -- FrameRestorationType: 0 NONE, 1 WIENER, 2 SGRPROJ, 3 SWITCHABLE
  lrUnitShift : Nat := 0
  lrUvShift : Nat := 0
  txModeSelect : Nat := 0
  referenceSelect : Nat := 0
  skipModeAllowed : Nat := 0
  skipModePresent : Nat := 0
  allowWarpedMotion : Nat := 0
  reducedTxSet : Nat := 0
  gmType : List Nat := [0, 0, 0, 0, 0, 0, 0]
  gmParams : Array (Array Int) := Array.replicate 8 gmDefault
  applyGrain : Nat := 0
  grainUpdateParameters : Nat := 0
  /-- bits of the uncompressed header that were consumed -/
  headerBits : Nat := 0
deriving Repr, Inhabited

def FrameHeader.isIntra (h : FrameHeader) : Bool := h.frameType = KEY_FRAME ∨ h.frameType = INTRA_ONLY_FRAME

/-- get_relative_dist() §7.3 / `get_relative_dist` (EbDecUtils.h). -/
def relDist (s : SeqHeader) (a b : Nat) : Int :=
  if s.enableOrderHint = 0 then 0 else
  let p : Int := (2 : Int) ^ s.orderHintBits
  let m : Int := (2 : Int) ^ (s.orderHintBits - 1)
  let d : Int := ((a : Int) - (b : Int)) % p
  if d ≥ m then d - p else d

/-- tile_log2() -/
def tileLog2Go : Nat → Nat → Nat → Nat → Nat
  | 0, _, _, k => k
  | fuel + 1, blk, target, k => if (blk <<< k) < target then tileLog2Go fuel blk target (k + 1) else k

def tileLog2 (blk target : Nat) : Nat := tileLog2Go 32 blk target 0

/-- superres_params() + the width computation (`superres_params` l.509) -/
def parseSuperres (s : SeqHeader) (h : FrameHeader) : P FrameHeader := do
  let use ← if s.enableSuperres = 1 then f 1 else pure 0
  let denom ← if use = 1 then (do let c ← f 3; pure (c + 9)) else pure 8
  let up := h.frameWidth
  let mut w := (up * 8 + denom / 2) / denom
  if denom ≠ 8 then
    let minW := min 16 up
    w := max minW w
  return { h with useSuperres := use, superresDenom := denom, upscaledWidth := up, frameWidth := w }

/-- frame_size() (`read_frame_size` l.540) -/
def parseFrameSize (s : SeqHeader) (h : FrameHeader) : P FrameHeader := do
  let mut h := h
  if h.frameSizeOverrideFlag = 1 then
    let w ← f s.frameWidthBits
    let hh ← f s.frameHeightBits
    h := { h with frameWidth := w + 1, frameHeight := hh + 1 }
  else
    h := { h with frameWidth := s.maxFrameWidth, frameHeight := s.maxFrameHeight }
  parseSuperres s h

/-- render_size() (`read_render_size` l.558) -/
def parseRenderSize (h : FrameHeader) : P FrameHeader := do
  let d ← f 1
  if d = 1 then
    let w ← f 16
    let hh ← f 16
    return { h with renderWidth := w + 1, renderHeight := hh + 1 }
  else
    return { h with renderWidth := h.upscaledWidth, renderHeight := h.frameHeight }

/-- frame_size_with_refs() (`frame_size_with_refs` l.573) -/
def parseFrameSizeWithRefsGo (st : DecState) (h : FrameHeader) : List Nat → P (Option FrameHeader)
  | [] => pure none
  | idx :: rest => do
    let found ← f 1
    if found = 1 then
      let r := st.slot idx
      return some { h with upscaledWidth := r.upscaledWidth, frameWidth := r.upscaledWidth,
                           frameHeight := r.frameHeight, renderWidth := r.renderWidth, renderHeight := r.renderHeight }
    else parseFrameSizeWithRefsGo st h rest

def parseFrameSizeWithRefs (st : DecState) (s : SeqHeader) (h : FrameHeader) : P FrameHeader := do
  match ← parseFrameSizeWithRefsGo st h h.refFrameIdx with
  | some h' => parseSuperres s h'
  | none =>
    let h ← parseFrameSize s h
    parseRenderSize h

def incrementLog2 : Nat → Nat → Nat → P Nat
  | 0, cur, _ => pure cur
  | fuel + 1, cur, mx => do
    if cur < mx then
      let b ← f 1
      if b = 1 then incrementLog2 fuel (cur + 1) mx else pure cur
    else pure cur

/-- Non-uniform tile sizes: returns (count, widest). -/
def explicitTiles : Nat → Nat → Nat → Nat → Nat → Nat → P (Nat × Nat)
  | 0, _, _, _, i, widest => pure (i, widest)
  | fuel + 1, startSb, sbTotal, maxSb, i, widest => do
    if startSb < sbTotal then
      let maxW := min (sbTotal - startSb) maxSb
      let wm1 ← ns maxW
      let size := wm1 + 1
      explicitTiles fuel (startSb + size) sbTotal maxSb (i + 1) (max widest size)
    else pure (i, widest)

def ceilDiv (a b : Nat) : Nat := (a + b - 1) / b

/-- tile_info() §5.9.15 (`read_tile_info` l.617) -/
def parseTileInfo (s : SeqHeader) (h : FrameHeader) : P FrameHeader := do
  let miCols := 2 * ((h.frameWidth + 7) >>> 3)
  let miRows := 2 * ((h.frameHeight + 7) >>> 3)
  let sbCols := if s.use128x128 = 1 then (miCols + 31) >>> 5 else (miCols + 15) >>> 4
  let sbRows := if s.use128x128 = 1 then (miRows + 31) >>> 5 else (miRows + 15) >>> 4
  let sbShift := if s.use128x128 = 1 then 5 else 4
  let sbSize := sbShift + 2
  let maxTileWidthSb := 4096 >>> sbSize
  let maxTileAreaSb := (4096 * 2304) >>> (2 * sbSize)
  let minLog2TileCols := tileLog2 maxTileWidthSb sbCols
  let maxLog2TileCols := tileLog2 1 (min sbCols 64)
  let maxLog2TileRows := tileLog2 1 (min sbRows 64)
  let minLog2Tiles := max minLog2TileCols (tileLog2 maxTileAreaSb (sbRows * sbCols))
  let uniform ← f 1
  let mut h := { h with uniformTileSpacing := uniform }
  if uniform = 1 then
    let colsLog2 ← incrementLog2 8 minLog2TileCols maxLog2TileCols
    let tileWidthSb := (sbCols + (1 <<< colsLog2) - 1) >>> colsLog2
    let tileCols := if tileWidthSb = 0 then 0 else ceilDiv sbCols tileWidthSb
    let minLog2TileRows := minLog2Tiles - colsLog2
    let rowsLog2 ← incrementLog2 8 minLog2TileRows maxLog2TileRows
    let tileHeightSb := (sbRows + (1 <<< rowsLog2) - 1) >>> rowsLog2
    let tileRows := if tileHeightSb = 0 then 0 else ceilDiv sbRows tileHeightSb
    h := { h with tileColsLog2 := colsLog2, tileRowsLog2 := rowsLog2, tileCols := tileCols, tileRows := tileRows }
  else
    let (tileCols, widest) ← explicitTiles 65 0 sbCols maxTileWidthSb 0 0
    let colsLog2 := tileLog2 1 tileCols
    let maxTileAreaSb2 := if minLog2Tiles > 0 then (sbRows * sbCols) >>> (minLog2Tiles + 1) else sbRows * sbCols
    let maxTileHeightSb := max (if widest = 0 then 0 else maxTileAreaSb2 / widest) 1
    let (tileRows, _) ← explicitTiles 65 0 sbRows maxTileHeightSb 0 0
    let rowsLog2 := tileLog2 1 tileRows
    h := { h with tileColsLog2 := colsLog2, tileRowsLog2 := rowsLog2, tileCols := tileCols, tileRows := tileRows }
  if h.tileColsLog2 > 0 ∨ h.tileRowsLog2 > 0 then
    let ctx ← f (h.tileRowsLog2 + h.tileColsLog2)
    let tsb ← f 2
    h := { h with contextUpdateTileId := ctx, tileSizeBytes := tsb + 1 }
  return h

/-- read_delta_q() (`read_delta_q` l.731) -/
def parseDeltaQ : P Int := do
  let coded ← f 1
  if coded = 1 then su 7 else pure 0

/-- quantization_params() §5.9.12 (`read_quantization_params` l.771) -/
def parseQuantizationParams (s : SeqHeader) (h : FrameHeader) : P FrameHeader := do
  let q ← f 8
  let ydc ← parseDeltaQ
  let mut h := { h with baseQIdx := q, deltaQYDc := ydc }
  if s.numPlanes > 1 then
    let diff ← if s.separateUvDeltaQ = 1 then f 1 else pure 0
    let udc ← parseDeltaQ
    let uac ← parseDeltaQ
    if diff = 1 then
      let vdc ← parseDeltaQ
      let vac ← parseDeltaQ
      h := { h with deltaQUDc := udc, deltaQUAc := uac, deltaQVDc := vdc, deltaQVAc := vac }
    else
      h := { h with deltaQUDc := udc, deltaQUAc := uac, deltaQVDc := udc, deltaQVAc := uac }
  let qm ← f 1
  h := { h with usingQmatrix := qm }
  if qm = 1 then
    let y ← f 4
    let u ← f 4
    let v ← if s.separateUvDeltaQ = 0 then pure u else f 4
    h := { h with qmY := y, qmU := u, qmV := v }
  return h

def segFeatureBits : List Nat := [8, 6, 6, 6, 6, 3, 0, 0]
def segFeatureSigned : List Nat := [1, 1, 1, 1, 1, 0, 0, 0]
def segFeatureMax : List Nat := [255, 63, 63, 63, 63, 7, 0, 0]

def clip3 (lo hi x : Int) : Int := if x < lo then lo else if x > hi then hi else x

/-- The 8×8 feature loop of segmentation_params() (l.876-901). `k` counts down from 64. -/
def parseSegFeatures : Nat → Array Bool → Array Int → P (Array Bool × Array Int)
  | 0, en, dat => pure (en, dat)
  | k + 1, en, dat => do
    let idx := 63 - k
    let j := idx % 8
    let enabled ← f 1
    let mut v : Int := 0
    if enabled = 1 then
      let bits := segFeatureBits.getD j 0
      let limit : Int := (segFeatureMax.getD j 0 : Nat)
      if segFeatureSigned.getD j 0 = 1 then
        let x ← su (1 + bits)
        v := clip3 (-limit) limit x
      else
        let x ← f bits
        v := clip3 0 limit (x : Int)
    parseSegFeatures k (en.setIfInBounds idx (enabled == 1)) (dat.setIfInBounds idx v)

/-- segmentation_params() §5.9.14 (`read_segmentation_params` l.834). `prev` = the slot selected by
    primary_ref_frame (load_previous()), if any. -/
def parseSegmentationParams (prev : Option RefSlot) (h : FrameHeader) : P FrameHeader := do
  let en ← f 1
  let mut h := { h with segEnabled := en }
  if en = 1 then
    if h.primaryRefFrame = PRIMARY_REF_NONE then
      h := { h with segUpdateMap := 1, segTemporalUpdate := 0, segUpdateData := 1 }
    else
      let um ← f 1
      let tu ← if um = 1 then f 1 else pure 0
      let ud ← f 1
      h := { h with segUpdateMap := um, segTemporalUpdate := tu, segUpdateData := ud }
    if h.segUpdateData = 1 then
      let (e, d) ← parseSegFeatures 64 (Array.replicate 64 false) (Array.replicate 64 0)
      h := { h with segFeatEnabled := e, segFeatData := d }
    else
      match prev with
      | some p => h := { h with segFeatEnabled := p.segEnabled, segFeatData := p.segData }
      | none => pure ()
  else
    h := { h with segFeatEnabled := Array.replicate 64 false, segFeatData := Array.replicate 64 0 }
  return h

/-- delta_q_params() + delta_lf_params() (l.740-769) -/
def parseDeltaQLfParams (h : FrameHeader) : P FrameHeader := do
  let mut h := h
  if h.baseQIdx > 0 then
    let p ← f 1
    h := { h with deltaQPresent := p }
  if h.deltaQPresent = 1 then
    let r ← f 2
    h := { h with deltaQRes := r }
    if h.allowIntrabc = 0 then
      let lp ← f 1
      h := { h with deltaLfPresent := lp }
    if h.deltaLfPresent = 1 then
      let lr ← f 2
      let lm ← f 1
      h := { h with deltaLfRes := lr, deltaLfMulti := lm }
  return h

/-- get_qindex(1, segmentId) §7.12.2 (`get_qindex` l.1459) -/
def qindexOfSegment (h : FrameHeader) (seg : Nat) : Int :=
  if h.segEnabled = 1 ∧ h.segFeatEnabled.getD (8 * seg) false then
    clip3 0 255 ((h.baseQIdx : Int) + h.segFeatData.getD (8 * seg) 0)
  else (h.baseQIdx : Int)

/-- CodedLossless / AllLossless (l.2103-2136) -/
def computeLossless (h : FrameHeader) : FrameHeader :=
  let dz := h.deltaQYDc == 0 && h.deltaQUAc == 0 && h.deltaQUDc == 0 && h.deltaQVAc == 0 && h.deltaQVDc == 0
  let coded := (List.range 8).all (fun seg => qindexOfSegment h seg == 0 && dz)
  { h with codedLossless := if coded then 1 else 0,
           allLossless := if coded && h.frameWidth == h.upscaledWidth then 1 else 0 }

def parseLfDeltas : Nat → P Unit
  | 0 => pure ()
  | n + 1 => do
    let u ← f 1
    if u = 1 then
      let _ ← su 7
      pure ()
    parseLfDeltas n

/-- loop_filter_params() §5.9.11 (`read_loop_filter_params` l.937) -/
def parseLoopFilterParams (s : SeqHeader) (h : FrameHeader) : P FrameHeader := do
  if h.codedLossless = 1 ∨ h.allowIntrabc = 1 then
    return { h with lfLevel0 := 0, lfLevel1 := 0 }
  let l0 ← f 6
  let l1 ← f 6
  let mut h := { h with lfLevel0 := l0, lfLevel1 := l1 }
  if s.numPlanes > 1 then
    if l0 ≠ 0 ∨ l1 ≠ 0 then
      let u ← f 6
      let v ← f 6
      h := { h with lfLevelU := u, lfLevelV := v }
  let sh ← f 3
  let de ← f 1
  h := { h with lfSharpness := sh, lfDeltaEnabled := de }
  if de = 1 then
    let du ← f 1
    h := { h with lfDeltaUpdate := du }
    if du = 1 then
      parseLfDeltas 8
      parseLfDeltas 2
  return h

def parseCdefStrengths (planes : Nat) : Nat → List Nat → List Nat → P (List Nat × List Nat)
  | 0, ys, uvs => pure (ys.reverse, uvs.reverse)
  | n + 1, ys, uvs => do
    let y ← f 6
    if planes > 1 then
      let uv ← f 6
      parseCdefStrengths planes n (y :: ys) (uv :: uvs)
    else parseCdefStrengths planes n (y :: ys) uvs

/-- cdef_params() §5.9.19 (`read_frame_cdef_params` l.1073). Each strength is read as the 6-bit
    concatenation of the 4-bit primary and 2-bit secondary strength, as the C reader does. -/
def parseCdefParams (s : SeqHeader) (h : FrameHeader) : P FrameHeader := do
  if h.codedLossless = 1 ∨ h.allowIntrabc = 1 ∨ s.enableCdef = 0 then
    return { h with cdefBits := 0, cdefYStrength := [0], cdefUvStrength := [0], cdefDamping := 3 }
  let d ← f 2
  let b ← f 2
  let (ys, uvs) ← parseCdefStrengths s.numPlanes (1 <<< b) [] []
  return { h with cdefDamping := d + 3, cdefBits := b, cdefYStrength := ys, cdefUvStrength := uvs }

def remapLrType : List Nat := [0, 3, 1, 2]

def parseLrTypes : Nat → List Nat → P (List Nat)
  | 0, acc => pure acc.reverse
  | n + 1, acc => do
    let t ← f 2
    parseLrTypes n (remapLrType.getD t 0 :: acc)

/-- lr_params() §5.9.20 (`read_lr_params` l.1014) -/
def parseLrParams (s : SeqHeader) (h : FrameHeader) : P FrameHeader := do
  if h.allLossless = 1 ∨ h.allowIntrabc = 1 ∨ s.enableRestoration = 0 then
    return { h with lrType := [0, 0, 0] }
  let types ← parseLrTypes s.numPlanes []
  let types3 := types ++ List.replicate (3 - types.length) 0
  let usesLr := types.any (· ≠ 0)
  let usesChromaLr := (types.drop 1).any (· ≠ 0)
  let mut h := { h with lrType := types3 }
  if usesLr then
    let mut shift ← f 1
    if s.use128x128 = 1 then
      shift := shift + 1
    else if shift = 1 then
      let extra ← f 1
      shift := shift + extra
    let uv ← if s.subsamplingX = 1 ∧ s.subsamplingY = 1 ∧ usesChromaLr then f 1 else pure 0
    h := { h with lrUnitShift := shift, lrUvShift := uv }
  return h

/-- skip_mode_params() §5.9.22 (`read_skip_mode_params` l.1239): skipModeAllowed. -/
def skipModeAllowed (st : DecState) (s : SeqHeader) (h : FrameHeader) : Bool :=
  if h.isIntra ∨ h.referenceSelect = 0 ∨ s.enableOrderHint = 0 then false else
  let hints := h.refFrameIdx.map (fun i => (st.slot i).orderHint)
  -- forward: the closest reference before the current frame; backward: the closest after it
  let step := fun (acc : Option Nat × Option Nat) (rh : Nat) =>
    let (fwd, bwd) := acc
    if relDist s rh h.orderHint < 0 then
      match fwd with
      | none => (some rh, bwd)
      | some fh => if relDist s rh fh > 0 then (some rh, bwd) else (fwd, bwd)
    else if relDist s rh h.orderHint > 0 then
      match bwd with
      | none => (fwd, some rh)
      | some bh => if relDist s rh bh < 0 then (fwd, some rh) else (fwd, bwd)
    else (fwd, bwd)
  let (fwd, bwd) := hints.foldl step (none, none)
  match fwd with
  | none => false
  | some fh =>
    match bwd with
    | some _ => true
    | none => hints.any (fun rh => relDist s rh fh < 0)

/-! ### global motion (§5.9.24-5.9.28) -/

def decodeSubexpGo : Nat → Nat → Nat → Nat → P Nat
  | 0, _, _, mk => pure mk
  | fuel + 1, numSyms, i, mk => do
    let k := 3
    let b2 := if i ≠ 0 then k + i - 1 else k
    let a := 1 <<< b2
    if numSyms ≤ mk + 3 * a then
      let v ← ns (numSyms - mk)
      return v + mk
    else
      let more ← f 1
      if more = 1 then decodeSubexpGo fuel numSyms (i + 1) (mk + a)
      else
        let v ← f b2
        return v + mk

/-- decode_subexp() (`decode_subexp` l.1100) -/
def decodeSubexp (numSyms : Nat) : P Nat := decodeSubexpGo 32 numSyms 0 0

/-- inverse_recenter() -/
def inverseRecenter (r v : Int) : Int :=
  if v > 2 * r then v
  else if v % 2 = 1 then r - ((v + 1) / 2)
  else r + (v / 2)

/-- decode_unsigned_subexp_with_ref() (l.1123) -/
def decodeUnsignedSubexpWithRef (mx r : Int) : P Int := do
  let v ← decodeSubexp mx.toNat
  if 2 * r ≤ mx then return inverseRecenter r v
  else return mx - 1 - inverseRecenter (mx - 1 - r) v

/-- decode_signed_subexp_with_ref() (l.1131) -/
def decodeSignedSubexpWithRef (low high r : Int) : P Int := do
  let x ← decodeUnsignedSubexpWithRef (high - low) (r - low)
  return x + low

/-- read_global_param() §5.9.25 (`read_global_param` l.1136) -/
def parseGlobalParam (prev : Array (Array Int)) (allowHp : Nat) (type ref idx : Nat) : P Int := do
  let mut absBits := 12
  let mut precBits := 15
  if idx < 2 then
    if type = TRANSLATION then
      absBits := 9 - (if allowHp = 0 then 1 else 0)
      precBits := 3 - (if allowHp = 0 then 1 else 0)
    else
      absBits := 12
      precBits := 6
  let precDiff := 16 - precBits
  let round : Int := if idx % 3 = 2 then (1 <<< 16 : Nat) else 0
  let sub : Int := if idx % 3 = 2 then ((1 <<< precBits : Nat) : Int) else 0
  let mx : Int := ((1 <<< absBits : Nat) : Int)
  let pv : Int := (prev.getD ref gmDefault).getD idx 0
  let r : Int := pv / ((2 : Int) ^ precDiff) - sub
  let v ← decodeSignedSubexpWithRef (-mx) (mx + 1) r
  return v * ((2 : Int) ^ precDiff) + round

/-- One reference of global_motion_params() (l.1185-1213): returns (type, params). -/
def parseGlobalMotionRef (prev : Array (Array Int)) (allowHp ref : Nat) : P (Nat × Array Int) := do
  let isGlobal ← f 1
  let type ← if isGlobal = 1 then (do
      let isRotZoom ← f 1
      if isRotZoom = 1 then pure ROTZOOM else (do
        let isTrans ← f 1
        pure (if isTrans = 1 then TRANSLATION else AFFINE)))
    else pure IDENTITY
  let mut p := gmDefault
  if type ≥ ROTZOOM then
    let p2 ← parseGlobalParam prev allowHp type ref 2
    let p3 ← parseGlobalParam prev allowHp type ref 3
    p := (p.setIfInBounds 2 p2).setIfInBounds 3 p3
  if type ≥ AFFINE then
    let p4 ← parseGlobalParam prev allowHp type ref 4
    let p5 ← parseGlobalParam prev allowHp type ref 5
    p := (p.setIfInBounds 4 p4).setIfInBounds 5 p5
  else
    p := (p.setIfInBounds 4 (-(p.getD 3 0))).setIfInBounds 5 (p.getD 2 0)
  if type ≥ TRANSLATION then
    let p0 ← parseGlobalParam prev allowHp type ref 0
    let p1 ← parseGlobalParam prev allowHp type ref 1
    p := (p.setIfInBounds 0 p0).setIfInBounds 1 p1
  return (type, p)

def parseGlobalMotionGo (prev : Array (Array Int)) (allowHp : Nat) :
    Nat → Nat → List Nat → Array (Array Int) → P (List Nat × Array (Array Int))
  | 0, _, types, gm => pure (types.reverse, gm)
  | n + 1, ref, types, gm => do
    let (t, p) ← parseGlobalMotionRef prev allowHp ref
    parseGlobalMotionGo prev allowHp n (ref + 1) (t :: types) (gm.setIfInBounds ref p)

/-- global_motion_params() §5.9.24 (`read_global_motion_params` l.1171). `prev` = PrevGmParams. -/
def parseGlobalMotionParams (prev : Array (Array Int)) (h : FrameHeader) : P FrameHeader := do
  if h.isIntra then
    return { h with gmType := List.replicate 7 0, gmParams := Array.replicate 8 gmDefault }
  let (types, gm) ← parseGlobalMotionGo prev h.allowHighPrecisionMv 7 1 [] (Array.replicate 8 gmDefault)
  return { h with gmType := types, gmParams := gm }

/-! ### film grain (§5.9.30) -/

def skipPairs : Nat → P Unit
  | 0 => pure ()
  | n + 1 => do
    let _ ← f 8
    let _ ← f 8
    skipPairs n

def skipBytes : Nat → P Unit
  | 0 => pure ()
  | n + 1 => do
    let _ ← f 8
    skipBytes n

/-- film_grain_params() (`read_film_grain_params` l.1313). Only `apply_grain` and `update_parameters`
    are kept; the remaining syntax elements are consumed so that `headerBits` is the full header length. -/
def parseFilmGrainParams (st : DecState) (s : SeqHeader) (h : FrameHeader) : P FrameHeader := do
  if s.filmGrainParamsPresent = 0 ∨ (h.showFrame = 0 ∧ h.showableFrame = 0) then
    return { h with applyGrain := 0 }
  let apply ← f 1
  if apply = 0 then return { h with applyGrain := 0 }
  let _seed ← f 16
  let update ← if h.frameType = INTER_FRAME then f 1 else pure 1
  let h := { h with applyGrain := 1, grainUpdateParameters := update }
  if update = 0 then
    let refIdx ← f 3
    let _ := st.slot refIdx
    return h
  let numY ← f 4
  skipPairs numY
  let csfl ← if s.monoChrome = 1 then pure 0 else f 1
  let mut numCb := 0
  let mut numCr := 0
  if s.monoChrome = 1 ∨ csfl = 1 ∨ (s.subsamplingX = 1 ∧ s.subsamplingY = 1 ∧ numY = 0) then
    pure ()
  else
    numCb ← f 4
    skipPairs numCb
    numCr ← f 4
    skipPairs numCr
  let _scaling ← f 2
  let lag ← f 2
  let numPosLuma := 2 * lag * (lag + 1)
  let numPosChroma := if numY ≠ 0 then numPosLuma + 1 else numPosLuma
  if numY ≠ 0 then skipBytes numPosLuma
  if csfl = 1 ∨ numCb ≠ 0 then skipBytes numPosChroma
  if csfl = 1 ∨ numCr ≠ 0 then skipBytes numPosChroma
  let _ ← f 2
  let _ ← f 2
  if numCb ≠ 0 then
    let _ ← f 8
    let _ ← f 8
    let _ ← f 9
    pure ()
  if numCr ≠ 0 then
    let _ ← f 8
    let _ ← f 8
    let _ ← f 9
    pure ()
  let _ ← f 1
  let _ ← f 1
  return h

/-! ### uncompressed_header() -/

def parseRefOrderHints (s : SeqHeader) : Nat → Nat → DecState → P DecState
  | 0, _, st => pure st
  | n + 1, i, st => do
    let roh ← f s.orderHintBits
    let r := st.slot i
    let st := if roh ≠ r.orderHint ∨ !r.valid then
        { st with slots := st.slots.setIfInBounds i { r with valid := false, orderHint := roh } }
      else st
    parseRefOrderHints s n (i + 1) st

def parseRefFrameIdx (s : SeqHeader) : Nat → List Nat → P (List Nat)
  | 0, acc => pure acc.reverse
  | n + 1, acc => do
    let idx ← f 3
    if s.frameIdNumbersPresent = 1 then
      let _ ← f s.deltaFrameIdLength
      pure ()
    parseRefFrameIdx s n (idx :: acc)

def parseBufferRemovalTimes (s : SeqHeader) (temporalId spatialId : Nat) : List OperatingPoint → P Unit
  | [] => pure ()
  | op :: rest => do
    if op.decoderModelPresent = 1 then
      let inT := (op.idc >>> temporalId) &&& 1
      let inS := (op.idc >>> (spatialId + 8)) &&& 1
      if op.idc = 0 ∨ (inT = 1 ∧ inS = 1) then
        let _ ← f (s.bufferRemovalTimeLengthMinus1 + 1)
        pure ()
    parseBufferRemovalTimes s temporalId spatialId rest

/-- uncompressed_header() §5.9.2 (`read_uncompressed_header` l.1735).
    Returns the header and the decoder state as modified *during* parsing (RefValid / RefOrderHint changes);
    the reference update process is `refUpdate`. -/
def parseUncompressedHeader (st : DecState) (s : SeqHeader) (temporalId spatialId : Nat) :
    P (FrameHeader × DecState) := do
  let idLen := if s.frameIdNumbersPresent = 1 then s.additionalFrameIdLength + s.deltaFrameIdLength + 1 else 0
  let allFrames := 255
  let mut st := st
  let mut h : FrameHeader := {}
  if s.reducedStillPictureHeader = 1 then
    h := { h with showExistingFrame := 0, frameType := KEY_FRAME, showFrame := 1, showableFrame := 0,
                  errorResilientMode := 1 }
  else
    let se ← f 1
    if se = 1 then
      let idx ← f 3
      if s.decoderModelInfoPresent = 1 ∧ s.equalPictureInterval = 0 then
        let _ ← f (s.framePresentationTimeLengthMinus1 + 1)
        pure ()
      if s.frameIdNumbersPresent = 1 then
        let _ ← f idLen
        pure ()
      let r := st.slot idx
      let refresh := if r.frameType = KEY_FRAME then allFrames else 0
      let p ← bitPos
      return ({ h with showExistingFrame := 1, frameToShowMapIdx := idx, frameType := r.frameType,
                       showFrame := 1, showableFrame := if r.frameType = KEY_FRAME then 0 else r.showableFrame,
                       refreshFrameFlags := refresh,
                       orderHint := r.orderHint, frameWidth := r.frameWidth, frameHeight := r.frameHeight,
                       upscaledWidth := r.upscaledWidth, renderWidth := r.renderWidth, renderHeight := r.renderHeight,
                       applyGrain := if s.filmGrainParamsPresent = 1 then r.applyGrain else 0,
                       gmParams := r.gmParams, segFeatEnabled := r.segEnabled, segFeatData := r.segData,
                       headerBits := p }, st)
    let ft ← f 2
    let sf ← f 1
    if sf = 1 ∧ s.decoderModelInfoPresent = 1 ∧ s.equalPictureInterval = 0 then
      let _ ← f (s.framePresentationTimeLengthMinus1 + 1)
      pure ()
    let showable ← if sf = 1 then pure (if ft ≠ KEY_FRAME then 1 else 0) else f 1
    let er ← if ft = SWITCH_FRAME ∨ (ft = KEY_FRAME ∧ sf = 1) then pure 1 else f 1
    h := { h with frameType := ft, showFrame := sf, showableFrame := showable, errorResilientMode := er }
  if h.frameType = KEY_FRAME ∧ h.showFrame = 1 then
    st := { st with slots := st.slots.map (fun r => { r with valid := false, orderHint := 0 }) }
  let dcu ← f 1
  let sct ← if s.seqForceScreenContentTools = SELECT_SCREEN_CONTENT_TOOLS then f 1
            else pure s.seqForceScreenContentTools
  let mut imv ← if sct = 1 then
                  (if s.seqForceIntegerMv = SELECT_INTEGER_MV then f 1 else pure s.seqForceIntegerMv)
                else pure 0
  if h.isIntra then imv := 1
  h := { h with disableCdfUpdate := dcu, allowScreenContentTools := sct, forceIntegerMv := imv }
  if s.frameIdNumbersPresent = 1 then
    let _ ← f idLen
    pure ()
  let fso ← if h.frameType = SWITCH_FRAME then pure 1
            else if s.reducedStillPictureHeader = 1 then pure 0 else f 1
  let oh ← f s.orderHintBits
  let prf ← if h.isIntra ∨ h.errorResilientMode = 1 then pure PRIMARY_REF_NONE else f 3
  h := { h with frameSizeOverrideFlag := fso, orderHint := oh, primaryRefFrame := prf }
  if s.decoderModelInfoPresent = 1 then
    let brt ← f 1
    if brt = 1 then
      parseBufferRemovalTimes s temporalId spatialId s.operatingPoints
  let refresh ← if h.frameType = SWITCH_FRAME ∨ (h.frameType = KEY_FRAME ∧ h.showFrame = 1) then pure allFrames
                else f 8
  h := { h with refreshFrameFlags := refresh }
  if !h.isIntra ∨ refresh ≠ allFrames then
    if h.errorResilientMode = 1 ∧ s.enableOrderHint = 1 then
      st ← parseRefOrderHints s 8 0 st
  if h.isIntra then
    h ← parseFrameSize s h
    h ← parseRenderSize h
    if h.allowScreenContentTools = 1 ∧ h.upscaledWidth = h.frameWidth then
      let ibc ← f 1
      h := { h with allowIntrabc := ibc }
  else
    let short ← if s.enableOrderHint = 0 then pure 0 else f 1
    if short = 1 then fail "unsupported-frame-refs-short-signaling"
    let idxs ← parseRefFrameIdx s 7 []
    h := { h with refFrameIdx := idxs }
    if h.frameSizeOverrideFlag = 1 ∧ h.errorResilientMode = 0 then
      h ← parseFrameSizeWithRefs st s h
    else
      h ← parseFrameSize s h
      h ← parseRenderSize h
    let hp ← if h.forceIntegerMv = 1 then pure 0 else f 1
    let sw ← f 1
    let filt ← if sw = 1 then pure 4 else f 2
    let mms ← f 1
    let rfm ← if h.errorResilientMode = 1 ∨ s.enableRefFrameMvs = 0 then pure 0 else f 1
    h := { h with allowHighPrecisionMv := hp, interpolationFilter := filt, isMotionModeSwitchable := mms,
                  useRefFrameMvs := rfm }
  let dfe ← if s.reducedStillPictureHeader = 1 ∨ h.disableCdfUpdate = 1 then pure 1 else f 1
  h := { h with disableFrameEndUpdateCdf := dfe }
  -- load_previous(): the slot ref_frame_idx[primary_ref_frame]
  let prev : Option RefSlot :=
    if h.primaryRefFrame = PRIMARY_REF_NONE then none
    else some (st.slot (h.refFrameIdx.getD h.primaryRefFrame 0))
  h ← parseTileInfo s h
  h ← parseQuantizationParams s h
  h ← parseSegmentationParams prev h
  h ← parseDeltaQLfParams h
  h := computeLossless h
  h ← parseLoopFilterParams s h
  h ← parseCdefParams s h
  h ← parseLrParams s h
  let txs ← if h.codedLossless = 1 then pure 0 else f 1
  let rs ← if h.isIntra then pure 0 else f 1
  h := { h with txModeSelect := txs, referenceSelect := rs }
  let sma := skipModeAllowed st s h
  let smp ← if sma then f 1 else pure 0
  h := { h with skipModeAllowed := if sma then 1 else 0, skipModePresent := smp }
  let awm ← if h.isIntra ∨ h.errorResilientMode = 1 ∨ s.enableWarpedMotion = 0 then pure 0 else f 1
  let rts ← f 1
  h := { h with allowWarpedMotion := awm, reducedTxSet := rts }
  let prevGm := match prev with | some p => p.gmParams | none => Array.replicate 8 gmDefault
  h ← parseGlobalMotionParams prevGm h
  h ← parseFilmGrainParams st s h
  let p ← bitPos
  return ({ h with headerBits := p }, st)

/-- Reference frame update process §7.20 (and the loading process §7.21 for a shown key frame). -/
def refUpdate (st : DecState) (h : FrameHeader) : DecState :=
  let saved : RefSlot :=
    { valid := true, frameType := h.frameType, orderHint := h.orderHint, upscaledWidth := h.upscaledWidth,
      frameWidth := h.frameWidth, frameHeight := h.frameHeight, renderWidth := h.renderWidth,
      renderHeight := h.renderHeight, showableFrame := h.showableFrame, gmParams := h.gmParams,
      segEnabled := h.segFeatEnabled, segData := h.segFeatData, applyGrain := h.applyGrain }
  { st with slots := (List.range 8).foldl (fun sl i =>
      if (h.refreshFrameFlags >>> i) &&& 1 = 1 then sl.setIfInBounds i saved else sl) st.slots }

/-- frame_header_obu() for an OBU_FRAME_HEADER (trailing bits follow) or the header part of an OBU_FRAME
    (byte_alignment follows). `isFrameObu` selects which. -/
def parseFrameHeaderObu (st : DecState) (s : SeqHeader) (o : Obu.Obu) : Except String (FrameHeader × DecState) :=
  let p : P (FrameHeader × DecState) := do
    let (h, st') ← parseUncompressedHeader st s o.temporalId o.spatialId
    if o.obuType = OBU_FRAME then
      if h.showExistingFrame = 1 then fail "show-existing-frame-in-frame-obu"
      byteAlign
    else
      trailingBits
    return (h, refUpdate st' h)
  match p { data := o.payload.toArray, pos := 0 } with
  | .ok (r, _) => .ok r
  | .error e => .error e

def parseSeqHeaderObu (o : Obu.Obu) : Except String SeqHeader :=
  match parseSeqHeader { data := o.payload.toArray, pos := 0 } with
  | .ok (r, br) => if (br.pos + 7) / 8 = o.payload.length then .ok r else .error "sequence-header-trailing-bytes"
  | .error e => .error e

end Av1
