/-
  AV1 OBU framing (C02): bit writer / bit reader, OBU header, `serialize`, `parseObus`.

  Writer side mirrors `/repo/Source/Lib/Encoder/Codec/EbEntropyCoding.c`:
    * `svt_aom_wb_write_bit` / `svt_aom_wb_write_literal` (l.1684-1701) — `Wb`,
    * `write_obu_header` (l.4073-4087): forbidden bit 0, 4-bit type, extension flag,
      `obu_has_payload_length_field = 1`, reserved 0, optional extension byte,
    * the "header, payload, `obu_mem_move`, `write_uleb_obu_size`" sequence used by `encode_sps_av1`
      (l.4352), `write_frame_header_av1` (l.4286), `write_metadata_av1` (l.4248), `encode_td_av1` (l.4379):
      result = header ++ leb128(payload size) ++ payload — `serialize`.
  Reader side mirrors `/repo/Source/Lib/Decoder/Codec/EbDecParseObu.c`:
    * `read_obu_header` (l.426-471): forbidden bit and reserved bit must be 0, type must satisfy
      `is_valid_obu_type` (l.93-108), extension reserved 3 bits must be 0,
    * `read_obu_header_size` / `read_obu_size` (l.474-502) and the loop of `decode_multiple_obu`
      (l.2491-2606): `data_size < payload_size` is `EB_Corrupt_Frame`.
  An OBU without size field is rejected by the model (the encoder never writes one; without the field the
  OBU boundaries of a low-overhead stream cannot be recovered).

  Core Lean only (linked into the `svtmodel` driver).
-/
import SvtVerif.Model.Leb128

namespace Obu

-- scoped name `Obu.instDecidableEqExcept…` (used by the `decide` examples on parser results)
deriving instance DecidableEq for Except

/-! ### OBU types (AV1 spec §6.2.2, `ObuType` in EbAv1Structs.h) -/
def OBU_SEQUENCE_HEADER : Nat := 1
def OBU_TEMPORAL_DELIMITER : Nat := 2
def OBU_FRAME_HEADER : Nat := 3
def OBU_TILE_GROUP : Nat := 4
def OBU_METADATA : Nat := 5
def OBU_FRAME : Nat := 6
def OBU_REDUNDANT_FRAME_HEADER : Nat := 7
def OBU_PADDING : Nat := 15

/-- `is_valid_obu_type` (EbDecParseObu.c l.93): OBU_TILE_LIST (8) is commented out in the C code. -/
def validObuType (t : Nat) : Bool :=
  t == 1 || t == 2 || t == 3 || t == 4 || t == 5 || t == 6 || t == 7 || t == 15

/-- One OBU with `obu_has_size_field = 1`. `ext` is the raw extension byte
    (`temporal_id(3) spatial_id(2) reserved(3)`) when `obu_extension_flag = 1`. -/
structure Obu where
  obuType : Nat
  ext     : Option UInt8
  payload : List UInt8
deriving Repr, DecidableEq, Inhabited

def Obu.temporalId (o : Obu) : Nat := match o.ext with | some e => e.toNat >>> 5 | none => 0
def Obu.spatialId (o : Obu) : Nat := match o.ext with | some e => (e.toNat >>> 3) &&& 3 | none => 0

/-! ### `struct AomWriteBitBuffer` -/

/-- `bytes` = `bit_buffer[0 .. ceil(bit_offset/8))`, `bitOffset` = `bit_offset`. -/
structure Wb where
  bytes     : List UInt8 := []
  bitOffset : Nat := 0
deriving Repr

def modifyLast (f : UInt8 → UInt8) : List UInt8 → List UInt8
  | [] => []
  | [b] => [f b]
  | b :: bs => b :: modifyLast f bs

/-- `svt_aom_wb_write_bit` (l.1684). -/
def Wb.writeBit (wb : Wb) (bit : Nat) : Wb :=
  let q := 7 - wb.bitOffset % 8
  if q = 7 then
    { bytes := wb.bytes ++ [(bit <<< q).toUInt8], bitOffset := wb.bitOffset + 1 }
  else
    { bytes := modifyLast (fun b => ((b.toNat &&& (255 - (1 <<< q))) ||| (bit <<< q)).toUInt8) wb.bytes,
      bitOffset := wb.bitOffset + 1 }

/-- `svt_aom_wb_write_literal` (l.1698): `bits` bits of `data`, most significant first. -/
def Wb.writeLiteral (wb : Wb) (data : Nat) : Nat → Wb
  | 0 => wb
  | bits + 1 => (wb.writeBit ((data >>> bits) &&& 1)).writeLiteral data bits

/-- `write_obu_header` (l.4073). `obuExtension` = 0 means "no extension byte". -/
def writeObuHeader (obuType : Nat) (obuExtension : Nat) : List UInt8 :=
  let wb : Wb := {}
  let wb := wb.writeLiteral 0 1
  let wb := wb.writeLiteral obuType 4
  let wb := wb.writeLiteral (if obuExtension ≠ 0 then 1 else 0) 1
  let wb := wb.writeLiteral 1 1
  let wb := wb.writeLiteral 0 1
  let wb := if obuExtension ≠ 0 then wb.writeLiteral (obuExtension &&& 0xFF) 8 else wb
  wb.bytes

/-- Header bytes of an `Obu` value: the first byte as `write_obu_header` writes it, followed by the raw
    extension byte (the C function takes the extension byte as `obuExtension` and can therefore not write
    an all-zero extension byte; the model keeps the flag and the byte separate). -/
def headerBytes (o : Obu) : List UInt8 :=
  match o.ext with
  | none => writeObuHeader o.obuType 0
  | some e => (writeObuHeader o.obuType 1).take 1 ++ [e]

/-- header ++ leb128(payload size) ++ payload (l.4337-4343 and siblings). The size field is what
    `write_uleb_obu_size` writes when it succeeds (payload below 2^28 bytes, see `Leb128.writeUlebObuSize`). -/
def serialize (o : Obu) : List UInt8 :=
  headerBytes o ++ Leb128.encodeBytes (Leb128.sizeInBytes o.payload.length) o.payload.length ++ o.payload

/-- `encode_td_av1` (l.4379): header of a temporal delimiter and a zero size field (`TD_SIZE = 2`). -/
def tdObu : Obu := { obuType := OBU_TEMPORAL_DELIMITER, ext := none, payload := [] }

/-! ### Parsing -/

/-- `read_obu_header` + `read_obu_header_size` + the bounds check of `decode_multiple_obu`:
    one OBU and the remaining bytes. -/
def parseObu1 (bs : List UInt8) : Except String (Obu × List UInt8) :=
  match bs with
  | [] => .error "obu-header-missing"
  | h :: bs1 =>
    let b := h.toNat
    if b >>> 7 ≠ 0 then .error "obu-forbidden-bit" else
    let t := (b >>> 3) &&& 15
    if !validObuType t then .error "obu-type-invalid" else
    let extFlag := (b >>> 2) &&& 1
    let hasSize := (b >>> 1) &&& 1
    if b &&& 1 ≠ 0 then .error "obu-reserved-bit" else
    let extR : Except String (Option UInt8 × List UInt8) :=
      if extFlag = 1 then
        match bs1 with
        | [] => .error "obu-extension-missing"
        | e :: bs2 => if e.toNat &&& 7 ≠ 0 then .error "obu-extension-reserved-bits" else .ok (some e, bs2)
      else .ok (none, bs1)
    match extR with
    | .error e => .error e
    | .ok (ext, bs2) =>
      if hasSize ≠ 1 then .error "obu-without-size-field" else
      match Leb128.readObuSize bs2 with
      | none => .error "obu-size-field"
      | some (sz, bs3) =>
        if bs3.length < sz then .error "obu-payload-truncated"
        else .ok ({ obuType := t, ext := ext, payload := bs3.take sz }, bs3.drop sz)

/-- The OBU loop; `fuel` bounds the number of OBUs (every OBU consumes at least two bytes). -/
def parseObusGo : Nat → List UInt8 → Except String (List Obu)
  | _, [] => .ok []
  | 0, _ :: _ => .error "fuel"
  | fuel + 1, bs =>
    match parseObu1 bs with
    | .error e => .error e
    | .ok (o, rest) =>
      match parseObusGo fuel rest with
      | .error e => .error e
      | .ok os => .ok (o :: os)

/-- A whole buffer (packet or stream header) as a list of OBUs. -/
def parseObus (bs : List UInt8) : Except String (List Obu) := parseObusGo bs.length bs

/-- OBUs the serializer/parser pair round-trips: valid type, extension reserved bits zero, payload size
    below 2^28 (the bound under which `write_uleb_obu_size`, `available = 4`, succeeds). -/
def Obu.wellFormed (o : Obu) : Bool :=
  validObuType o.obuType &&
  (match o.ext with | none => true | some e => e.toNat &&& 7 == 0) &&
  decide (o.payload.length < 2 ^ 28)

/-! ### Bit reader used by the header parsers -/

structure BitReader where
  data : Array UInt8
  pos  : Nat := 0       -- in bits
deriving Inhabited

abbrev P := StateT BitReader (Except String)

def fail {α : Type} (msg : String) : P α := fun _ => .error msg

/-- f(1) -/
def readBit : P Nat := fun r =>
  let byteIdx := r.pos / 8
  if h : byteIdx < r.data.size then
    let b := r.data[byteIdx].toNat
    .ok ((b >>> (7 - r.pos % 8)) &&& 1, { r with pos := r.pos + 1 })
  else .error "header-bits-exhausted"

def readBool : P Bool := do return (← readBit) == 1

def readBitsGo : Nat → Nat → P Nat
  | 0, acc => pure acc
  | n + 1, acc => do
    let b ← readBit
    readBitsGo n (2 * acc + b)

/-- f(n): unsigned n-bit literal, most significant bit first (`dec_get_bits`). -/
def f (n : Nat) : P Nat := readBitsGo n 0

/-- su(n) (`dec_get_bits_su`, EbDecBitstream.c l.90). -/
def su (n : Nat) : P Int := do
  let v ← f n
  let signMask := 1 <<< (n - 1)
  if v &&& signMask ≠ 0 then return (v : Int) - 2 * (signMask : Int) else return (v : Int)

def floorLog2Go : Nat → Nat → Nat → Nat
  | 0, _, s => s
  | fuel + 1, x, s => if x ≥ 2 then floorLog2Go fuel (x / 2) (s + 1) else s

/-- FloorLog2 (`get_msb`). -/
def floorLog2 (x : Nat) : Nat := floorLog2Go 64 x 0

/-- ns(n) (`dec_get_bits_ns`, EbDecBitstream.c l.78). -/
def ns (n : Nat) : P Nat := do
  if n ≤ 1 then return 0
  let w := floorLog2 n + 1
  let m := (1 <<< w) - n
  let v ← f (w - 1)
  if v < m then return v
  let extra ← readBit
  return (v <<< 1) - m + extra

/-- uvlc() (`dec_get_bits_uvlc`, EbDecBitstream.c l.66). -/
def uvlcGo : Nat → Nat → P Nat
  | 0, lz => pure lz
  | fuel + 1, lz => do
    if lz ≥ 32 then return lz
    let b ← readBit
    if b = 1 then return lz else uvlcGo fuel (lz + 1)

def uvlc : P Nat := do
  let lz ← uvlcGo 33 0
  if lz ≥ 32 then return 0xFFFFFFFF
  let v ← f lz
  return (1 <<< lz) - 1 + v

def bitPos : P Nat := fun r => .ok (r.pos, r)

/-- `av1_check_trailing_bits` (EbDecParseObu.c l.68): a one bit followed by zero bits up to the byte boundary. -/
def trailingBits : P Unit := do
  let p ← bitPos
  let n := 8 - p % 8
  let v ← f n
  if v ≠ 1 <<< (n - 1) then fail "trailing-bits" else pure ()

/-- `byte_alignment` (l.77). -/
def byteAlignGo : Nat → P Unit
  | 0 => pure ()
  | fuel + 1 => do
    let p ← bitPos
    if p % 8 = 0 then pure () else
      let b ← readBit
      if b ≠ 0 then fail "byte-alignment-nonzero" else byteAlignGo fuel

def byteAlign : P Unit := byteAlignGo 8

def runP {α : Type} (p : P α) (bytes : List UInt8) : Except String (α × Nat) :=
  match p { data := bytes.toArray, pos := 0 } with
  | .ok (a, r) => .ok (a, r.pos)
  | .error e => .error e

end Obu
