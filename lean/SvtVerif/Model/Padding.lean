/-
  C11 (a) — picture padding arithmetic of `set_param_based_on_input`
  (Source/Lib/Encoder/Globals/EbEncHandle.c:2055-2082), transcribed line by line.

  All six fields are `uint16_t` members of `SequenceControlSet` (EbSequenceControlSet.h:107-112); the right-hand
  sides are computed in `int` (integer promotion) and converted back on assignment: `wrapU 16`.
  Core Lean only.
-/
import SvtVerif.CSem

namespace Padding
open CSem

/-- EbDefinitions.h:2305-2306  `#define MIN_BLOCK_SIZE (1 << LOG_MIN_BLOCK_SIZE)`, `LOG_MIN_BLOCK_SIZE` = 3 -/
def MIN_BLOCK_SIZE : Int := 8

/-- What `set_param_based_on_input` leaves in the sequence control set (l.2060-2082). -/
structure Dims where
  lumaW : Int       -- max_input_luma_width  = seq_header.max_frame_width  = static_config.source_width  (l.2062, 2079, 2081)
  lumaH : Int       -- max_input_luma_height = seq_header.max_frame_height = static_config.source_height (l.2069, 2080, 2082)
  padRight : Int    -- max_input_pad_right   (l.2061 / 2064)
  padBottom : Int   -- max_input_pad_bottom  (l.2068 / 2071)
  chromaW : Int     -- max_input_chroma_width  = chroma_width  (l.2074, 2077)
  chromaH : Int     -- max_input_chroma_height = chroma_height (l.2075, 2078)
  deriving Repr, DecidableEq

/-- One dimension of l.2060-2072: `(pad, padded)`.
    ```
    if (x % MIN_BLOCK_SIZE) { pad = MIN_BLOCK_SIZE - (x % MIN_BLOCK_SIZE); x = x + pad; } else pad = 0;
    ``` -/
def padDim (x : Int) : Int × Int :=
  if x % MIN_BLOCK_SIZE ≠ 0 then
    let pad := wrapU 16 (MIN_BLOCK_SIZE - x % MIN_BLOCK_SIZE)      -- l.2061 / 2068
    (pad, wrapU 16 (x + pad))                                      -- l.2062 / 2069
  else
    (0, x)                                                         -- l.2064 / 2071

/-- l.2055-2082 for input `max_input_luma_width = w`, `max_input_luma_height = h` (as `copy_api_from_app` l.2185-2186
    left them: the configuration's `source_width/height` truncated to 16 bits) and the sequence's subsampling shifts. -/
def setParamPad (w h : Int) (ssx ssy : Nat) : Dims :=
  let pw := padDim w
  let ph := padDim h
  { lumaW := pw.2, lumaH := ph.2, padRight := pw.1, padBottom := ph.1,
    chromaW := wrapU 16 (pw.2 / 2 ^ ssx),                    -- l.2074  `>> subsampling_x`
    chromaH := wrapU 16 (ph.2 / 2 ^ ssy) }                   -- l.2075  `>> subsampling_y`

/-- The picture sizes `verify_settings` lets through (EbEncHandle.c:2525-2561; rules d2,d3,d6-d9 of the C12 domain):
    64 ≤ w ≤ 4096, 64 ≤ h ≤ 2160, both even. -/
def AcceptedSize (w h : Int) : Prop :=
  64 ≤ w ∧ w ≤ 4096 ∧ 64 ≤ h ∧ h ≤ 2160 ∧ w % 2 = 0 ∧ h % 2 = 0

instance (w h : Int) : Decidable (AcceptedSize w h) := by unfold AcceptedSize; infer_instance

end Padding
