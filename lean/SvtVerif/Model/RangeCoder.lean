/-
  C25 — executable model of SVT-AV1's range coder (the Daala entropy coder inherited from libaom).

  (B) concrete writer  : Source/Lib/Common/Codec/EbBitstreamUnit.c  (od_ec_enc_normalize, od_ec_encode_q15,
                         svt_od_ec_encode_bool_q15, svt_od_ec_encode_cdf_q15, svt_od_ec_enc_done, svt_od_ec_enc_tell)
                         + inline wrappers of EbBitstreamUnit.h (aom_write, aom_write_literal, aom_write_symbol)
                         + update_cdf of EbCabacContextModel.h
  (C) concrete reader  : Source/Lib/Decoder/Codec/EbDecBitstreamUnit.h (od_ec_dec_init, od_ec_dec_refill,
                         od_ec_dec_normalize, od_ec_decode_bool_q15, od_ec_decode_cdf_q15, dec_update_cdf)
                         + EbDecBitReader.h (aom_read_, aom_read_literal_, aom_read_symbol_)
  (A) abstract coder   : unbounded naturals, no window, no bytes (used by the proofs).

  Conventions: every C value is a `Nat` (unsigned types) or `Int` (int16 `cnt`); every place where C converts to a
  narrower type is an explicit `u32` / `u16` / `i16`.  `OdEcWindow` is `uint32_t` in this code base
  (EbBitstreamUnit.h:164).  Core Lean only.
-/
namespace RangeCoder

/-! ### C integer conversions -/
/-- conversion to `uint32_t` -/
def u32 (x : Nat) : Nat := x % 4294967296
/-- conversion to `uint16_t` -/
def u16 (x : Nat) : Nat := x % 65536
/-- conversion to `int16_t` (two's complement) -/
def i16 (x : Int) : Int := (x + 32768) % 65536 - 32768
/-- `a - b` on `uint32_t`/`unsigned` operands (`a, b < 2^32`) -/
def subU32 (a b : Nat) : Nat := (a + 4294967296 - b) % 4294967296

/-- `OD_ILOG_NZ(x)` = `1 + get_msb(x)` (EbBitstreamUnit.h:62,116-118), `x ≠ 0` -/
def ilogNz (x : Nat) : Nat := Nat.log2 x + 1

/-- `EC_PROB_SHIFT` (EbBitstreamUnit.h:159, EbDecBitstreamUnit.h:37) -/
abbrev EC_PROB_SHIFT : Nat := 6
/-- `EC_MIN_PROB` (EbBitstreamUnit.h:160, EbDecBitstreamUnit.h:38) -/
abbrev EC_MIN_PROB : Nat := 4
/-- `CDF_PROB_TOP` (EbCabacContextModel.h:39); `CDF_SHIFT = 0` -/
abbrev CDF_PROB_TOP : Nat := 32768

/-- the scaled cumulative value used by writer and reader alike:
    `((r >> 8) * (uint32_t)(f >> EC_PROB_SHIFT) >> (7 - EC_PROB_SHIFT - CDF_SHIFT)) + EC_MIN_PROB * k`
    (EbBitstreamUnit.c:227-230,234-235,256-257; EbDecBitstreamUnit.h:170-171,213-215), as an `unsigned`. -/
def scaleV (r f k : Nat) : Nat :=
  u32 (u32 (((r >>> 8) * (f >>> EC_PROB_SHIFT)) >>> (7 - EC_PROB_SHIFT)) + EC_MIN_PROB * k)

/-! ### CDF adaptation -/

/-- `nsymbs2speed[17] = {0,0,1,1,2,2,…,2}` (EbCabacContextModel.h:528, EbDecBitstreamUnit.h:77) -/
def nsymbs2speed (n : Nat) : Nat := if n < 2 then 0 else if n < 4 then 1 else 2

/-- `rate = 3 + (cdf[nsymbs] > 15) + (cdf[nsymbs] > 31) + nsymbs2speed[nsymbs]` -/
def cdfRate (cdf : List Nat) (n : Nat) : Nat :=
  3 + (if cdf.getD n 0 > 15 then 1 else 0) + (if cdf.getD n 0 > 31 then 1 else 0) + nsymbs2speed n

/-- writer loop, EbCabacContextModel.h:534-540 (`AomCdfProb tmp`, i.e. uint16): entries `i .. i+k-1`. -/
def updLoopEnc (rate val : Nat) : Nat → Nat → Nat → List Nat → List Nat
  | _, 0, _, cs => cs
  | _, _ + 1, _, [] => []
  | i, k + 1, tmp, c :: cs =>
    let tmp := if i = val then 0 else tmp
    let c' := if tmp < c then u16 (c - ((c - tmp) >>> rate)) else u16 (c + ((tmp - c) >>> rate))
    c' :: updLoopEnc rate val (i + 1) k tmp cs

/-- reader loop, EbDecBitstreamUnit.h:83-89 (`int tmp`; the decrement is cast to `AomCdfProb` first). -/
def updLoopDec (rate val : Nat) : Nat → Nat → Nat → List Nat → List Nat
  | _, 0, _, cs => cs
  | _, _ + 1, _, [] => []
  | i, k + 1, tmp, c :: cs =>
    let tmp := if i = val then 0 else tmp
    let c' := if tmp < c then u16 (c + 65536 - u16 ((c - tmp) >>> rate)) else u16 (c + u16 ((tmp - c) >>> rate))
    c' :: updLoopDec rate val (i + 1) k tmp cs

/-- `cdf[nsymbs] += (cdf[nsymbs] < 32)` -/
def bumpCounter (cdf : List Nat) (n : Nat) : List Nat :=
  cdf.set n (u16 (cdf.getD n 0 + (if cdf.getD n 0 < 32 then 1 else 0)))

/-- `update_cdf(cdf, val, nsymbs)` (EbCabacContextModel.h:523-542); `cdf` has `nsymbs+1` entries. -/
def updateCdf (cdf : List Nat) (val n : Nat) : List Nat :=
  bumpCounter (updLoopEnc (cdfRate cdf n) val 0 (n - 1) (u16 32768) cdf) n

/-- `dec_update_cdf(cdf, val, nsymbs)` (EbDecBitstreamUnit.h:73-91); `val` is `int8_t` there (symbols are < 16). -/
def decUpdateCdf (cdf : List Nat) (val n : Nat) : List Nat :=
  bumpCounter (updLoopDec (cdfRate cdf n) val 0 (n - 1) 32768 cdf) n

/-! ### (B) concrete writer -/

/-- `OdEcEnc` (EbBitstreamUnit.h:181-208) without the allocation bookkeeping.
    `pre` is `precarry_buf[0 .. offs)` in REVERSE order (head = most recently written cell). -/
structure Enc where
  low : Nat
  rng : Nat
  cnt : Int
  pre : List Nat
  offs : Nat
deriving Repr

/-- `svt_od_ec_enc_reset` (EbBitstreamUnit.c:187-199) -/
def encInit : Enc := { low := 0, rng := 0x8000, cnt := -9, pre := [], offs := 0 }

/-- `od_ec_enc_normalize(enc, low, rng)` (EbBitstreamUnit.c:116-166); `realloc` never fails in the model. -/
def encNormalize (e : Enc) (low rng : Nat) : Enc :=
  let c : Int := e.cnt                                   -- :120
  let d : Int := 16 - (ilogNz rng : Int)                 -- :122
  let s : Int := c + d                                   -- :123
  if s ≥ 0 then                                          -- :129
    let c := c + 16                                      -- :148
    let m := u32 ((1 <<< c.toNat) - 1)                   -- :149  unsigned m = (1 << c) - 1
    if s ≥ 8 then                                        -- :150
      let cell1 := u16 (low >>> c.toNat)                 -- :152
      let low := low &&& m                               -- :153
      let c := c - 8                                     -- :154
      let m := m >>> 8                                   -- :155
      let cell2 := u16 (low >>> c.toNat)                 -- :158
      let s := c + d - 24                                -- :159
      let low := low &&& m                               -- :160
      { low := u32 (low <<< d.toNat), rng := u16 (rng <<< d.toNat), cnt := i16 s,   -- :163-165
        pre := cell2 :: cell1 :: e.pre, offs := e.offs + 2 }
    else
      let cell := u16 (low >>> c.toNat)                  -- :158
      let s := c + d - 24                                -- :159
      let low := low &&& m                               -- :160
      { low := u32 (low <<< d.toNat), rng := u16 (rng <<< d.toNat), cnt := i16 s,
        pre := cell :: e.pre, offs := e.offs + 1 }
  else
    { low := u32 (low <<< d.toNat), rng := u16 (rng <<< d.toNat), cnt := i16 s, pre := e.pre, offs := e.offs }

/-- `od_ec_encode_q15(enc, fl, fh, s, nsyms)` (EbBitstreamUnit.c:214-242).
    Precondition of the C code (its asserts / only caller): `s < nsyms`, and `s ≥ 1` whenever `fl < 32768`. -/
def encodeQ15 (e : Enc) (fl fh s nsyms : Nat) : Enc :=
  let l := e.low
  let r := e.rng
  let N := nsyms - 1
  if fl < CDF_PROB_TOP then                              -- :224
    let u := scaleV r fl (N - (s - 1))                   -- :227-228
    let v := scaleV r fh (N - s)                         -- :229-230
    let l := u32 (l + subU32 r u)                        -- :231
    let r := subU32 u v                                  -- :232
    encNormalize e l r
  else
    let r := subU32 r (scaleV r fh (N - s))              -- :234-235
    encNormalize e l r

/-- `svt_od_ec_encode_cdf_q15(enc, s, icdf, nsyms)` (EbBitstreamUnit.c:276-282) -/
def encodeCdfQ15 (e : Enc) (s : Nat) (icdf : List Nat) (nsyms : Nat) : Enc :=
  encodeQ15 e (if s > 0 then icdf.getD (s - 1) 0 else CDF_PROB_TOP) (icdf.getD s 0) s nsyms

/-- `svt_od_ec_encode_bool_q15(enc, val, f)` (EbBitstreamUnit.c:247-266) -/
def encodeBoolQ15 (e : Enc) (val : Nat) (f : Nat) : Enc :=
  let l := e.low
  let r := e.rng
  let v := scaleV r f 1                                   -- :256-257
  let l := if val ≠ 0 then u32 (l + subU32 r v) else l    -- :258-259
  let r := if val ≠ 0 then v else subU32 r v              -- :260
  encNormalize e l r

/-- `p = (0x7FFFFF - (prob << 15) + prob) >> 8` (aom_daala_write EbBitstreamUnit.h:242, aom_daala_read
    EbDecBitstreamUnit.h:317); `prob ≤ 255` (an `AomProb`), so the `int` expression is non-negative. -/
def probToQ15 (prob : Nat) : Nat := (0x7FFFFF + prob - (prob <<< 15)) >>> 8

/-- `aom_write_literal(w, data, bits)` (EbBitstreamUnit.h:276-280): bits from `bits-1` down to 0, each
    `aom_write_bit` = `aom_write(w, bit, 128)`. -/
def encodeLiteral (e : Enc) (data : Nat) : Nat → Enc
  | 0 => e
  | bit + 1 => encodeLiteral (encodeBoolQ15 e ((data >>> bit) &&& 1) (probToQ15 128)) data bit

/-- `svt_od_ec_enc_tell` (EbBitstreamUnit.c:381-385) -/
def encTell (e : Enc) : Int := (e.cnt + 10) + (e.offs : Int) * 8

/-- the `do … while (s > 0)` loop of `svt_od_ec_enc_done` (EbBitstreamUnit.c:329-336); at most 2 iterations since
    `s = cnt + 10 ≤ 9`; `fuel` bounds it. Returns the precarry list (reversed) after the loop. -/
def doneLoop : Nat → Nat → Int → Int → Nat → List Nat → List Nat
  | 0, _, _, _, _, pre => pre
  | fuel + 1, ev, s, c, n, pre =>
    let pre := u16 (ev >>> (c + 16).toNat) :: pre       -- :331
    let ev := ev &&& n                                   -- :332
    let s := s - 8                                       -- :333
    let c := c - 8                                       -- :334
    let n := n >>> 8                                     -- :335
    if s > 0 then doneLoop fuel ev s c n pre else pre

/-- carry propagation (EbBitstreamUnit.c:356-362) over the reversed precarry list; result in stream order. -/
def carryProp : List Nat → Nat → List Nat → List Nat
  | [], _, acc => acc
  | cell :: rest, c, acc =>
    let c := cell + c                                    -- :359
    carryProp rest (c >>> 8) ((c % 256) :: acc)          -- :360-361

/-- `svt_od_ec_enc_done` (EbBitstreamUnit.c:284-370): the output bytes. -/
def encDone (e : Enc) : List Nat :=
  let l := e.low
  let c := e.cnt
  let m := 0x3FFF                                        -- :310
  let ev := (u32 (l + m) &&& (4294967295 - m)) ||| (m + 1)  -- :311
  let s : Int := 10 + c                                  -- :309,312
  let pre :=
    if s > 0 then                                        -- :315
      let n := u32 ((1 <<< (c + 16).toNat) - 1)          -- :328
      doneLoop 4 ev s c n e.pre
    else e.pre
  carryProp pre 0 []

/-! ### (C) concrete reader -/

/-- `OdEcDec` (EbDecBitstreamUnit.h:100-127). `rest` = the bytes `bptr .. end`; `pos` = `bptr - buf`. -/
structure Dec where
  dif : Nat
  rng : Nat
  cnt : Int
  tellOffs : Int
  rest : List Nat
  pos : Nat
deriving Repr

/-- `OD_EC_LOTS_OF_BITS` -/
abbrev LOTS : Int := 0x4000

/-- the `for (; s >= 0 && bptr < end; s -= 8, bptr++)` loop of `od_ec_dec_refill` (EbDecBitstreamUnit.h:248-255) -/
def refillLoop (dif : Nat) (cnt s : Int) (pos : Nat) : List Nat → Nat × Int × Nat × List Nat
  | [] => (dif, cnt, pos, [])
  | b :: bs =>
    if s ≥ 0 then refillLoop (dif ^^^ u32 (b <<< s.toNat)) (i16 (cnt + 8)) (s - 8) (pos + 1) bs
    else (dif, cnt, pos, b :: bs)

/-- `od_ec_dec_refill` (EbDecBitstreamUnit.h:237-274) -/
def decRefill (d : Dec) : Dec :=
  let s : Int := 32 - 9 - (d.cnt + 15)                   -- :247
  let (dif, cnt, pos, rest) := refillLoop d.dif d.cnt s d.pos d.rest
  if rest.isEmpty then                                   -- :256  bptr >= end
    { dif := dif, rng := d.rng, cnt := LOTS, tellOffs := d.tellOffs + (LOTS - cnt), rest := rest, pos := pos }
  else
    { dif := dif, rng := d.rng, cnt := cnt, tellOffs := d.tellOffs, rest := rest, pos := pos }

/-- `od_ec_dec_init` (EbDecBitstreamUnit.h:279-288) -/
def decInit (buf : List Nat) : Dec :=
  decRefill { dif := 2147483647, rng := 0x8000, cnt := -15, tellOffs := 10 - (32 - 8), rest := buf, pos := 0 }

/-- `od_ec_dec_normalize(dec, dif, rng, ret)` (EbDecBitstreamUnit.h:139-152) -/
def decNormalize (dc : Dec) (dif rng : Nat) : Dec :=
  let d : Nat := 16 - ilogNz rng                         -- :143
  let cnt := i16 (dc.cnt - d)                            -- :145
  let dif := subU32 (u32 (u32 (dif + 1) <<< d)) 1        -- :147
  let rng := u16 (rng <<< d)                             -- :148
  let dc := { dc with dif := dif, rng := rng, cnt := cnt }
  if cnt < 0 then decRefill dc else dc                   -- :149-150

/-- `od_ec_decode_bool_q15(dec, f)` (EbDecBitstreamUnit.h:157-181) -/
def decodeBoolQ15 (dc : Dec) (f : Nat) : Dec × Nat :=
  let dif := dc.dif
  let r := dc.rng
  let v := scaleV r f 1                                   -- :170-171
  let vw := u32 (v <<< 16)                                -- :172
  if dif ≥ vw then (decNormalize dc (subU32 dif vw) (subU32 r v), 0)   -- :175-179
  else (decNormalize dc dif v, 1)

/-- the `do { u = v; v = …icdf[++ret]… } while (c < v)` search of `od_ec_decode_cdf_q15`
    (EbDecBitstreamUnit.h:211-216) over the entries `icdf[ret ..]`; returns `(ret, u, v)`.
    Running off the list cannot happen for a table whose entry `N` is 0 (then `v = 0`). -/
def decSearch (r c N : Nat) : Nat → Nat → List Nat → Nat × Nat × Nat
  | ret, u, [] => (ret, u, 0)
  | ret, u, f :: fs =>
    let v := scaleV r f (N - ret)
    if c < v then decSearch r c N (ret + 1) v fs else (ret, u, v)

/-- `od_ec_decode_cdf_q15(dec, icdf, nsyms)` (EbDecBitstreamUnit.h:192-222) -/
def decodeCdfQ15 (dc : Dec) (icdf : List Nat) (nsyms : Nat) : Dec × Nat :=
  let dif := dc.dif
  let r := dc.rng
  let N := nsyms - 1
  let c := dif >>> 16                                     -- :208
  let (ret, u, v) := decSearch r c N 0 r (icdf.take nsyms)
  let r := subU32 u v                                     -- :219
  let dif := subU32 dif (u32 (v <<< 16))                  -- :220
  (decNormalize dc dif r, ret)

/-- `aom_read_literal_` (EbDecBitReader.h:68-73) -/
def decodeLiteral (dc : Dec) (acc : Nat) : Nat → Dec × Nat
  | 0 => (dc, acc)
  | bit + 1 =>
    let (dc, b) := decodeBoolQ15 dc (probToQ15 128)
    decodeLiteral dc (acc ||| (b <<< bit)) bit

/-! ### operation sequences (what `aom_write_symbol` / `aom_read_symbol_` etc. do to the coder and the tables) -/

/-- one call of the bit-writer API. `sym id s` codes symbol `s` with probability table `id`;
    `bool f bit` is `svt_od_ec_encode_bool_q15(bit, f)` (what `aom_write(bit, prob)` calls with `f = probToQ15 prob`);
    `lit nbits v` is `aom_write_literal`; `adapt a` sets `allow_update_cdf`. -/
inductive Op where
  | sym (id s : Nat)
  | bool (f bit : Nat)
  | lit (nbits v : Nat)
  | adapt (a : Bool)
deriving Repr

/-- the decoded value of an op (`adapt` decodes nothing; it reports its argument) -/
def Op.value : Op → Nat
  | .sym _ s => s
  | .bool _ b => b
  | .lit _ v => v
  | .adapt a => if a then 1 else 0

abbrev Tables := List (List Nat)

/-- number of symbols of a table with counter entry -/
def nsymsOf (cdf : List Nat) : Nat := cdf.length - 1

structure Writer where
  enc : Enc
  tabs : Tables
  adapt : Bool

/-- `aom_write_symbol` (EbBitstreamUnit.h:287-291), `aom_write`, `aom_write_literal` -/
def writeOp (w : Writer) : Op → Writer
  | .sym id s =>
    let cdf := w.tabs.getD id []
    let n := nsymsOf cdf
    let enc := encodeCdfQ15 w.enc s cdf n
    if w.adapt then { w with enc := enc, tabs := w.tabs.set id (updateCdf cdf s n) } else { w with enc := enc }
  | .bool f bit => { w with enc := encodeBoolQ15 w.enc bit f }
  | .lit nbits v => { w with enc := encodeLiteral w.enc v nbits }
  | .adapt a => { w with adapt := a }

def writeOps (w : Writer) (ops : List Op) : Writer := ops.foldl writeOp w

structure Reader where
  dec : Dec
  tabs : Tables
  adapt : Bool

/-- `aom_read_symbol_` (EbDecBitReader.h:82-88), `aom_read_`, `aom_read_literal_`; the value field of the op is
    NOT used (only its shape: table id / probability / bit count / adapt flag). -/
def readOp (r : Reader) : Op → Reader × Nat
  | .sym id _ =>
    let cdf := r.tabs.getD id []
    let n := nsymsOf cdf
    let (dec, s) := decodeCdfQ15 r.dec cdf n
    if r.adapt then ({ r with dec := dec, tabs := r.tabs.set id (decUpdateCdf cdf s n) }, s) else ({ r with dec := dec }, s)
  | .bool f _ => let (dec, b) := decodeBoolQ15 r.dec f; ({ r with dec := dec }, b)
  | .lit nbits _ => let (dec, v) := decodeLiteral r.dec 0 nbits; ({ r with dec := dec }, v)
  | .adapt a => ({ r with adapt := a }, if a then 1 else 0)

/-- read a whole sequence; decoded values in order (accumulated reversed for speed) -/
def readOpsAux (r : Reader) (acc : List Nat) : List Op → Reader × List Nat
  | [] => (r, acc.reverse)
  | op :: ops => let (r, v) := readOp r op; readOpsAux r (v :: acc) ops

def readOps (r : Reader) (ops : List Op) : Reader × List Nat := readOpsAux r [] ops

/-- erase the coded values from a sequence (what the reader is allowed to know) -/
def Op.shape : Op → Op
  | .sym id _ => .sym id 0
  | .bool f _ => .bool f 0
  | .lit n _ => .lit n 0
  | .adapt a => .adapt a

/-! ### (A) abstract coder: exact arithmetic, no window -/

/-- shift that brings `r` (`1 ≤ r < 65536`) into `[32768, 65536)` -/
def normShift (r : Nat) : Nat := 16 - ilogNz r

/-- upper end `u_s` of symbol `s`'s sub-interval of `[0, r)`, in the reader's orientation (distance from the top) -/
def symU (r : Nat) (icdf : List Nat) (N s : Nat) : Nat :=
  if s = 0 then r else scaleV r (icdf.getD (s - 1) 0) (N - (s - 1))
/-- lower end `v_s` -/
def symV (r : Nat) (icdf : List Nat) (N s : Nat) : Nat := scaleV r (icdf.getD s 0) (N - s)

/-- abstract encoder state: the interval is `[L, L + r)`, after `k` bits of total renormalisation shift -/
structure AEnc where
  L : Nat
  r : Nat
  k : Nat

/-- code the sub-interval `[v, u)` (distance-from-top orientation) -/
def aEncStep (a : AEnc) (u v : Nat) : AEnc :=
  let d := normShift (u - v)
  { L := (a.L + (a.r - u)) * 2 ^ d, r := (u - v) * 2 ^ d, k := a.k + d }

/-- initial abstract encoder state (`svt_od_ec_enc_reset`): the interval `[0, 2^15)` -/
def aEncInit : AEnc := { L := 0, r := 32768, k := 0 }

/-- abstract decoder state: `D` = (top of the current interval) − (code value) − 1, at full precision;
    the 16-bit quantity the real reader looks at is `D / 2^e`. -/
structure ADec where
  D : Nat
  r : Nat
  e : Nat

def aDecStep (b : ADec) (u v : Nat) : ADec :=
  let d := normShift (u - v)
  { D := b.D - v * 2 ^ b.e, r := (u - v) * 2 ^ d, e := b.e - d }

/-- a primitive coding step with its probability model fixed: a symbol of an `n`-ary table, or a bool -/
inductive Prim where
  | sym (icdf : List Nat) (n s : Nat)
  | bool (f bit : Nat)

def Prim.value : Prim → Nat
  | .sym _ _ s => s
  | .bool _ b => b

/-- sub-interval `[v, u)` of `[0, r)` (distance-from-top orientation) that the writer selects for a primitive -/
def primU (r : Nat) : Prim → Nat
  | .sym c n s => symU r c (n - 1) s
  | .bool f bit => if bit ≠ 0 then scaleV r f 1 else r
def primV (r : Nat) : Prim → Nat
  | .sym c n s => symV r c (n - 1) s
  | .bool f bit => if bit ≠ 0 then 0 else scaleV r f 1

def aEncPrim (a : AEnc) (p : Prim) : AEnc := aEncStep a (primU a.r p) (primV a.r p)
def aEncPrims (a : AEnc) (ps : List Prim) : AEnc := ps.foldl aEncPrim a

/-- abstract decoding of one primitive: uses only the probability model, not the coded value -/
def aDecPrim (b : ADec) : Prim → ADec × Nat
  | .sym c n _ =>
    let (s, u, v) := decSearch b.r (b.D / 2 ^ b.e) (n - 1) 0 b.r (c.take n)
    (aDecStep b u v, s)
  | .bool f _ =>
    let v := scaleV b.r f 1
    if b.D / 2 ^ b.e ≥ v then (aDecStep b b.r v, 0) else (aDecStep b v 0, 1)

def aDecPrims (b : ADec) : List Prim → List Nat
  | [] => []
  | p :: ps => let (b', x) := aDecPrim b p; x :: aDecPrims b' ps

end RangeCoder
