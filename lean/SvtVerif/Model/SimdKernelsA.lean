/-
  C07 (part a) — lane-level models of two kernels, each in its C reference form and its SIMD form.

  K1  svt_residual_kernel8bit_c     Source/Lib/Common/Codec/EbPictureOperators.c:130-149
      svt_residual_kernel8bit_avx2  Source/Lib/Common/ASM_AVX2/EbPictureOperators_Intrinsic_AVX2.c:1327-1420
                                    + residual_kernel4/8/16_avx2  ASM_AVX2/EbPictureOperators_Inline_AVX2.h:24-103
                                    + load/store helpers          ASM_AVX2/EbMemory_AVX2.h, ASM_SSE2/synonyms.h
  K3  svt_picture_average_kernel_c            Source/Lib/Common/C_DEFAULT/EbPictureOperators_C.c:18-29
      svt_picture_average_kernel_sse2_intrin  Source/Lib/Common/ASM_SSE2/EbAvcStyleMcp_Intrinsic_SSE2.c:26-85

  Conventions (see Model/Simd.lean): a pointer is (buffer, element index); `input`, `pred` are `Mem 8`,
  `residual` is a separate `Mem 16` (K1); `src0`, `src1`, `dst` are three separate `Mem 8` (K3): the models
  assume the output buffer does not alias the input buffers.  Strides/widths/heights are `uint32_t` in C and
  `Nat` here; pointer arithmetic does not wrap.  Every store is a functional update in program order, so
  overlapping rows (stride < width) are modelled exactly.
  Parameter order of the top-level functions: buffer, stride, start index for each of the three buffers, then
  width, height.
  Core Lean only.
-/
import SvtVerif.Model.Simd

namespace Simd

/-! ## K1 — C reference -/

/-- EbPictureOperators.c:138 `((int16_t)input[column_index]) - ((int16_t)pred[column_index])`: both operands are
    promoted to `int` (values 0..255, so the `int` subtraction is exact, -255..255) and the result is converted to
    `int16_t` by the assignment. -/
def residC (x y : BitVec 8) : BitVec 16 := BitVec.ofInt 16 ((x.toNat : Int) - (y.toNat : Int))

/-- EbPictureOperators.c:136-140: `column_index = 0; while (column_index < area_width) { residual[column_index] = …; ++column_index; }`
    (`fuel` = upper bound on the iteration count; called with `fuel = area_width`). -/
def resid8_c_cols (inp : Mem 8) (ia : Nat) (pred : Mem 8) (pa : Nat) (ra w : Nat) : Nat → Nat → Mem 16 → Mem 16
  | 0, _, res => res
  | fuel + 1, col, res =>
    if col < w then
      resid8_c_cols inp ia pred pa ra w fuel (col + 1) (store1 res (ra + col) (residC (inp (ia + col)) (pred (pa + col))))
    else res

/-- EbPictureOperators.c:133-146: `row_index = 0; while (row_index < area_height) { columns; input += input_stride;
    pred += pred_stride; residual += residual_stride; ++row_index; }` -/
def resid8_c_rows (inp : Mem 8) (is : Nat) (pred : Mem 8) (ps rs w h : Nat) : Nat → Nat → Nat → Nat → Nat → Mem 16 → Mem 16
  | 0, _, _, _, _, res => res
  | fuel + 1, row, ia, pa, ra, res =>
    if row < h then
      let res := resid8_c_cols inp ia pred pa ra w w 0 res
      resid8_c_rows inp is pred ps rs w h fuel (row + 1) (ia + is) (pa + ps) (ra + rs) res
    else res

/-- `svt_residual_kernel8bit_c(input+ia, is, pred+pa, ps, residual+ra, rs, w, h)`; result = the residual buffer afterwards -/
def resid8_c (inp : Mem 8) (is ia : Nat) (pred : Mem 8) (ps pa : Nat) (res : Mem 16) (rs ra w h : Nat) : Mem 16 :=
  resid8_c_rows inp is pred ps rs w h h 0 ia pa ra res

/-! ## K1 — load / store helpers -/

/-- EbMemory_AVX2.h:34-41 `load_u8_4x4_avx2` -/
def load_u8_4x4_avx2 (m : Mem 8) (src stride : Nat) : Reg :=
  let src01 := loadBytes m (src + 0 * stride) 4 16                          -- :36 _mm_cvtsi32_si128(*(int32_t *)(src + 0 * stride))
  let src01 := mm_insert_epi32 src01 (loadI32 m (src + 1 * stride)) 1       -- :37 _mm_insert_epi32(src01, *(int32_t *)(src + 1 * stride), 1)
  let src23 := loadBytes m (src + 2 * stride) 4 16                          -- :38
  let src23 := mm_insert_epi32 src23 (loadI32 m (src + 3 * stride)) 1       -- :39
  mm256_setr_m128i src01 src23                                              -- :40

/-- EbMemory_AVX2.h:49-58 `load_u8_8x4_avx2` -/
def load_u8_8x4_avx2 (m : Mem 8) (src stride : Nat) : Reg :=
  let src01 := loadBytes m (src + 0 * stride) 8 16                          -- :51 _mm_loadl_epi64
  let src01 := mm_loadh_pd src01 m (src + 1 * stride)                       -- :52-53 _mm_loadh_pd
  let src23 := loadBytes m (src + 2 * stride) 8 16                          -- :54
  let src23 := mm_loadh_pd src23 m (src + 3 * stride)                       -- :55-56
  mm256_setr_m128i src01 src23                                              -- :57

/-- EbMemory_AVX2.h:66-70,72-74 `loadu_u8_16x2_avx2` = `loadu_8bit_16x2_avx2(src, sizeof(*src) * stride)` -/
def loadu_u8_16x2_avx2 (m : Mem 8) (src stride : Nat) : Reg :=
  let src0 := loadBytes m src 16 16                                         -- :67 _mm_loadu_si128(src)
  let src1 := loadBytes m (src + stride) 16 16                              -- :68 _mm_loadu_si128(src + strideInByte)
  mm256_setr_m128i src0 src1                                                -- :69

/-- synonyms.h:85-88 `store_s16_4x2_sse2` -/
def store_s16_4x2_sse2 (src : Reg) (m : Mem 16) (dst stride : Nat) : Mem 16 :=
  let m := storeU16 m dst src 4                                             -- :86 _mm_storel_epi64((__m128i *)dst, src)
  storehU16 m (dst + stride) src                                            -- :87 _mm_storeh_epi64((__m128i *)(dst + stride), src)

/-- EbMemory_AVX2.h:80-86,93-96 `storeu_s16_8x2_avx2` = `storeu_8bit_16x2_avx2(src, dst, sizeof(*dst) * stride)` -/
def storeu_s16_8x2_avx2 (src : Reg) (m : Mem 16) (dst stride : Nat) : Mem 16 :=
  let d0 := mm256_castsi256_si128 src                                       -- :82
  let d1 := mm256_extracti128_si256 src 1                                   -- :83
  let m := storeU16 m dst d0 8                                              -- :84 _mm_storeu_si128(dst, d0)
  storeU16 m (dst + stride) d1 8                                            -- :85 _mm_storeu_si128(dst + strideInByte, d1)

/-! ## K1 — AVX2 -/

/-- A buffer boxed in a structure.  Logically `Buf k` is just `Mem k` (`Buf.get`); operationally the box stops the Lean
    compiler from eta-expanding buffer-valued kernel functions over the element index that is finally read, so that
    the registers of one loop iteration are computed once per iteration — not once per (iteration, element read) — when the
    model is executed by the driver.  It has no influence on the meaning of the definitions below. -/
structure Buf (k : Nat) where
  get : Mem k

/-- The common loop shape of the six `residual_kernelN_avx2` functions:
    `uint32_t y = area_height; do { body; input += k*is; pred += k*ps; residual += k*rs; y -= k; } while (y);`
    `y` is a `uint32_t`: `y -= k` wraps modulo 2^32 (so a height that is not a positive multiple of `k` does not stop
    at 0 — outside the valid domain).  `fuel` bounds the number of iterations (called with `fuel = area_height`,
    which is enough whenever `y` does reach 0). -/
def doWhileRows (k is ps rs : Nat) (body : Nat → Nat → Nat → Buf 16 → Buf 16) : Nat → Nat → Nat → Nat → Nat → Buf 16 → Buf 16
  | 0, _, _, _, _, res => res
  | fuel + 1, y, ia, pa, ra, res =>
    let res := body ia pa ra res
    let y := (y + 2 ^ 32 - k) % 2 ^ 32
    if y ≠ 0 then doWhileRows k is ps rs body fuel y (ia + k * is) (pa + k * ps) (ra + k * rs) res else res

/-- EbPictureOperators_Inline_AVX2.h:31-46, one iteration of `residual_kernel4_avx2` (4 rows of 4) -/
def residual_kernel4_body (inp : Mem 8) (is : Nat) (pred : Mem 8) (ps rs : Nat) (ia pa ra : Nat) (res : Buf 16) : Buf 16 :=
  let zero := mm256_setzero_si256                                           -- :28
  let in_ := load_u8_4x4_avx2 inp ia is                                     -- :32
  let pr := load_u8_4x4_avx2 pred pa ps                                     -- :33
  let in_lo := mm256_unpacklo_epi8 in_ zero                                 -- :34
  let pr_lo := mm256_unpacklo_epi8 pr zero                                  -- :35
  let re_lo := sub_epi16 in_lo pr_lo                                        -- :36
  let r0 := mm256_castsi256_si128 re_lo                                     -- :37
  let r1 := mm256_extracti128_si256 re_lo 1                                 -- :38
  let m := store_s16_4x2_sse2 r0 res.get (ra + 0 * rs) rs                   -- :40
  ⟨store_s16_4x2_sse2 r1 m (ra + 2 * rs) rs⟩                                -- :41

/-- EbPictureOperators_Inline_AVX2.h:24-49 `residual_kernel4_avx2` -/
def residual_kernel4_avx2 (inp : Mem 8) (is ia : Nat) (pred : Mem 8) (ps pa : Nat) (res : Buf 16) (rs ra h : Nat) : Buf 16 :=
  doWhileRows 4 is ps rs (residual_kernel4_body inp is pred ps rs) h h ia pa ra res

/-- EbPictureOperators_Inline_AVX2.h:57-73, one iteration of `residual_kernel8_avx2` (4 rows of 8) -/
def residual_kernel8_body (inp : Mem 8) (is : Nat) (pred : Mem 8) (ps rs : Nat) (ia pa ra : Nat) (res : Buf 16) : Buf 16 :=
  let zero := mm256_setzero_si256                                           -- :54
  let in_ := load_u8_8x4_avx2 inp ia is                                     -- :58
  let pr := load_u8_8x4_avx2 pred pa ps                                     -- :59
  let in_lo := mm256_unpacklo_epi8 in_ zero                                 -- :60
  let in_hi := mm256_unpackhi_epi8 in_ zero                                 -- :61
  let pr_lo := mm256_unpacklo_epi8 pr zero                                  -- :62
  let pr_hi := mm256_unpackhi_epi8 pr zero                                  -- :63
  let r0 := sub_epi16 in_lo pr_lo                                           -- :64
  let r1 := sub_epi16 in_hi pr_hi                                           -- :65
  let m := storeu_s16_8x2_avx2 r0 res.get (ra + 0 * rs) (2 * rs)            -- :67
  ⟨storeu_s16_8x2_avx2 r1 m (ra + 1 * rs) (2 * rs)⟩                         -- :68

/-- EbPictureOperators_Inline_AVX2.h:51-76 `residual_kernel8_avx2` -/
def residual_kernel8_avx2 (inp : Mem 8) (is ia : Nat) (pred : Mem 8) (ps pa : Nat) (res : Buf 16) (rs ra h : Nat) : Buf 16 :=
  doWhileRows 4 is ps rs (residual_kernel8_body inp is pred ps rs) h h ia pa ra res

/-- EbPictureOperators_Inline_AVX2.h:84-101, one iteration of `residual_kernel16_avx2` (2 rows of 16) -/
def residual_kernel16_body (inp : Mem 8) (is : Nat) (pred : Mem 8) (ps rs : Nat) (ia pa ra : Nat) (res : Buf 16) : Buf 16 :=
  let zero := mm256_setzero_si256                                           -- :81
  let in0 := loadu_u8_16x2_avx2 inp ia is                                   -- :85
  let pr0 := loadu_u8_16x2_avx2 pred pa ps                                  -- :86
  let in1 := mm256_permute4x64_epi64 in0 0xD8                               -- :87
  let pr1 := mm256_permute4x64_epi64 pr0 0xD8                               -- :88
  let in_lo := mm256_unpacklo_epi8 in1 zero                                 -- :89
  let in_hi := mm256_unpackhi_epi8 in1 zero                                 -- :90
  let pr_lo := mm256_unpacklo_epi8 pr1 zero                                 -- :91
  let pr_hi := mm256_unpackhi_epi8 pr1 zero                                 -- :92
  let re_lo := sub_epi16 in_lo pr_lo                                        -- :93
  let re_hi := sub_epi16 in_hi pr_hi                                        -- :94
  let m := storeU16 res.get (ra + 0 * rs) re_lo 16                          -- :96 _mm256_storeu_si256(residual + 0 * residual_stride, re_lo)
  ⟨storeU16 m (ra + 1 * rs) re_hi 16⟩                                       -- :97

/-- EbPictureOperators_Inline_AVX2.h:78-103 `residual_kernel16_avx2` -/
def residual_kernel16_avx2 (inp : Mem 8) (is ia : Nat) (pred : Mem 8) (ps pa : Nat) (res : Buf 16) (rs ra h : Nat) : Buf 16 :=
  doWhileRows 2 is ps rs (residual_kernel16_body inp is pred ps rs) h h ia pa ra res

/-- EbPictureOperators_Intrinsic_AVX2.c:1327-1342 `residual32_avx2(input, pred, residual)` -/
def residual32_avx2 (inp : Mem 8) (ia : Nat) (pred : Mem 8) (pa : Nat) (res : Buf 16) (ra : Nat) : Buf 16 :=
  let zero := mm256_setzero_si256                                           -- :1329
  let in0 := loadBytes inp ia 32 32                                         -- :1330 _mm256_loadu_si256
  let pr0 := loadBytes pred pa 32 32                                        -- :1331
  let in1 := mm256_permute4x64_epi64 in0 0xD8                               -- :1332
  let pr1 := mm256_permute4x64_epi64 pr0 0xD8                               -- :1333
  let in_lo := mm256_unpacklo_epi8 in1 zero                                 -- :1334
  let in_hi := mm256_unpackhi_epi8 in1 zero                                 -- :1335
  let pr_lo := mm256_unpacklo_epi8 pr1 zero                                 -- :1336
  let pr_hi := mm256_unpackhi_epi8 pr1 zero                                 -- :1337
  let re_lo := sub_epi16 in_lo pr_lo                                        -- :1338
  let re_hi := sub_epi16 in_hi pr_hi                                        -- :1339
  let m := storeU16 res.get (ra + 0 * 16) re_lo 16                          -- :1340
  ⟨storeU16 m (ra + 1 * 16) re_hi 16⟩                                       -- :1341

/-- EbPictureOperators_Intrinsic_AVX2.c:1350-1355, loop body of `residual_kernel32_avx2` -/
def residual_kernel32_body (inp : Mem 8) (pred : Mem 8) (ia pa ra : Nat) (res : Buf 16) : Buf 16 :=
  residual32_avx2 inp ia pred pa res ra                                     -- :1351

/-- EbPictureOperators_Intrinsic_AVX2.c:1344-1356 `residual_kernel32_avx2` (`while (--y)` = `y -= 1; while (y)`) -/
def residual_kernel32_avx2 (inp : Mem 8) (is ia : Nat) (pred : Mem 8) (ps pa : Nat) (res : Buf 16) (rs ra h : Nat) : Buf 16 :=
  doWhileRows 1 is ps rs (residual_kernel32_body inp pred) h h ia pa ra res

/-- EbPictureOperators_Intrinsic_AVX2.c:1364-1370, loop body of `residual_kernel64_avx2` -/
def residual_kernel64_body (inp : Mem 8) (pred : Mem 8) (ia pa ra : Nat) (res : Buf 16) : Buf 16 :=
  let res := residual32_avx2 inp (ia + 0 * 32) pred (pa + 0 * 32) res (ra + 0 * 32)   -- :1365
  residual32_avx2 inp (ia + 1 * 32) pred (pa + 1 * 32) res (ra + 1 * 32)               -- :1366

/-- EbPictureOperators_Intrinsic_AVX2.c:1358-1371 `residual_kernel64_avx2` -/
def residual_kernel64_avx2 (inp : Mem 8) (is ia : Nat) (pred : Mem 8) (ps pa : Nat) (res : Buf 16) (rs ra h : Nat) : Buf 16 :=
  doWhileRows 1 is ps rs (residual_kernel64_body inp pred) h h ia pa ra res

/-- EbPictureOperators_Intrinsic_AVX2.c:1379-1387, loop body of `residual_kernel128_avx2` -/
def residual_kernel128_body (inp : Mem 8) (pred : Mem 8) (ia pa ra : Nat) (res : Buf 16) : Buf 16 :=
  let res := residual32_avx2 inp (ia + 0 * 32) pred (pa + 0 * 32) res (ra + 0 * 32)   -- :1380
  let res := residual32_avx2 inp (ia + 1 * 32) pred (pa + 1 * 32) res (ra + 1 * 32)   -- :1381
  let res := residual32_avx2 inp (ia + 2 * 32) pred (pa + 2 * 32) res (ra + 2 * 32)   -- :1382
  residual32_avx2 inp (ia + 3 * 32) pred (pa + 3 * 32) res (ra + 3 * 32)               -- :1383

/-- EbPictureOperators_Intrinsic_AVX2.c:1373-1388 `residual_kernel128_avx2` -/
def residual_kernel128_avx2 (inp : Mem 8) (is ia : Nat) (pred : Mem 8) (ps pa : Nat) (res : Buf 16) (rs ra h : Nat) : Buf 16 :=
  doWhileRows 1 is ps rs (residual_kernel128_body inp pred) h h ia pa ra res

/-- EbPictureOperators_Intrinsic_AVX2.c:1390-1420 `svt_residual_kernel8bit_avx2`: `switch (area_width)`, `default: // 128` -/
def resid8_avx2B (inp : Mem 8) (is ia : Nat) (pred : Mem 8) (ps pa : Nat) (res : Buf 16) (rs ra w h : Nat) : Buf 16 :=
  match w with
  | 4 => residual_kernel4_avx2 inp is ia pred ps pa res rs ra h             -- :1394
  | 8 => residual_kernel8_avx2 inp is ia pred ps pa res rs ra h             -- :1399
  | 16 => residual_kernel16_avx2 inp is ia pred ps pa res rs ra h           -- :1404
  | 32 => residual_kernel32_avx2 inp is ia pred ps pa res rs ra h           -- :1409
  | 64 => residual_kernel64_avx2 inp is ia pred ps pa res rs ra h           -- :1414
  | _ => residual_kernel128_avx2 inp is ia pred ps pa res rs ra h           -- :1419 default: // 128

/-- `svt_residual_kernel8bit_avx2(input+ia, is, pred+pa, ps, residual+ra, rs, w, h)`; result = the residual buffer afterwards -/
def resid8_avx2 (inp : Mem 8) (is ia : Nat) (pred : Mem 8) (ps pa : Nat) (res : Mem 16) (rs ra w h : Nat) : Mem 16 :=
  (resid8_avx2B inp is ia pred ps pa ⟨res⟩ rs ra w h).get

/-! ## K3 — C reference -/

/-- EbPictureOperators_C.c:24 `dst[x] = (src0[x] + src1[x] + 1) >> 1;`: the operands are promoted to `int`
    (sum 1..511: no overflow, non-negative, so `>>` is the plain shift) and the result is converted to `uint8_t`. -/
def avgC (x y : BitVec 8) : BitVec 8 := BitVec.ofNat 8 ((x.toNat + y.toNat + 1) >>> 1)

/-- EbPictureOperators_C.c:24 `for (x = 0; x < area_width; x++) { dst[x] = … }` -/
def avg_c_cols (s0 : Mem 8) (a0 : Nat) (s1 : Mem 8) (a1 : Nat) (da w : Nat) : Nat → Nat → Mem 8 → Mem 8
  | 0, _, dst => dst
  | fuel + 1, x, dst =>
    if x < w then
      avg_c_cols s0 a0 s1 a1 da w fuel (x + 1) (store1 dst (da + x) (avgC (s0 (a0 + x)) (s1 (a1 + x))))
    else dst

/-- EbPictureOperators_C.c:23-28 `for (y = 0; y < area_height; y++) { columns; src0 += src0_stride; src1 += …; dst += …; }` -/
def avg_c_rows (s0 : Mem 8) (st0 : Nat) (s1 : Mem 8) (st1 ds w h : Nat) : Nat → Nat → Nat → Nat → Nat → Mem 8 → Mem 8
  | 0, _, _, _, _, dst => dst
  | fuel + 1, y, a0, a1, da, dst =>
    if y < h then
      let dst := avg_c_cols s0 a0 s1 a1 da w w 0 dst
      avg_c_rows s0 st0 s1 st1 ds w h fuel (y + 1) (a0 + st0) (a1 + st1) (da + ds) dst
    else dst

/-- `svt_picture_average_kernel_c(src0+a0, st0, src1+a1, st1, dst+da, ds, w, h)`; result = the dst buffer afterwards -/
def avg_c (s0 : Mem 8) (st0 a0 : Nat) (s1 : Mem 8) (st1 a1 : Nat) (dst : Mem 8) (ds da w h : Nat) : Mem 8 :=
  avg_c_rows s0 st0 s1 st1 ds w h h 0 a0 a1 da dst

/-! ## K3 — SSE2 -/

/-- EbAvcStyleMcp_Intrinsic_SSE2.c:36-40 `for (y = 0; y + 15 < area_width; y += 16) { … }`; returns the final `y` too.
    (`y` is `uint32_t`; for `area_width < 2^32` neither `y + 15` nor `y += 16` wraps: `y` is a multiple of 16 and
    `y + 16 ≤ area_width` whenever the body runs.)  Called with `fuel = area_width`. -/
def avg_sse2_cols16 (s0 : Mem 8) (a0 : Nat) (s1 : Mem 8) (a1 : Nat) (da w : Nat) : Nat → Nat → Mem 8 → Nat × Mem 8
  | 0, y, dst => (y, dst)
  | fuel + 1, y, dst =>
    if y + 15 < w then
      let xmm_avg1 := avg_epu8 (loadBytes s0 (a0 + y) 16 16) (loadBytes s1 (a1 + y) 16 16)    -- :37-38
      avg_sse2_cols16 s0 a0 s1 a1 da w fuel (y + 16) (storeBytes dst (da + y) xmm_avg1 16)   -- :39
    else (y, dst)

/-- EbAvcStyleMcp_Intrinsic_SSE2.c:36-52, one row of the `area_width >= 16` path -/
def avg_sse2_row16 (s0 : Mem 8) (a0 : Nat) (s1 : Mem 8) (a1 : Nat) (da w : Nat) (dst : Mem 8) : Mem 8 :=
  let (y, dst) := avg_sse2_cols16 s0 a0 s1 a1 da w w 0 dst                                   -- :36-40
  let (y, dst) :=
    if w &&& 8 ≠ 0 then                                                                     -- :41
      let xmm_avg1 := avg_epu8 (loadBytes s0 (a0 + y) 8 16) (loadBytes s1 (a1 + y) 8 16)     -- :42-43 _mm_loadl_epi64
      (y + 8, storeBytes dst (da + y) xmm_avg1 8)                                           -- :44-45 _mm_storel_epi64; y += 8
    else (y, dst)
  if w &&& 4 ≠ 0 then                                                                       -- :47
    let xmm_avg1 := avg_epu8 (loadBytes s0 (a0 + y) 4 16) (loadBytes s1 (a1 + y) 4 16)       -- :48-49 _mm_cvtsi32_si128(*(uint32_t *))
    storeBytes dst (da + y) xmm_avg1 4                                                      -- :50 *(uint32_t *)(dst + y) = _mm_cvtsi128_si32
  else dst

/-- EbAvcStyleMcp_Intrinsic_SSE2.c:35-56 `for (uint32_t x = 0; x < area_height; ++x) { row; src0 += …; src1 += …; dst += …; }` -/
def avg_sse2_rows16 (s0 : Mem 8) (st0 : Nat) (s1 : Mem 8) (st1 ds w h : Nat) : Nat → Nat → Nat → Nat → Nat → Mem 8 → Mem 8
  | 0, _, _, _, _, dst => dst
  | fuel + 1, x, a0, a1, da, dst =>
    if x < h then
      let dst := avg_sse2_row16 s0 a0 s1 a1 da w dst
      avg_sse2_rows16 s0 st0 s1 st1 ds w h fuel (x + 1) (a0 + st0) (a1 + st1) (da + ds) dst
    else dst

/-- EbAvcStyleMcp_Intrinsic_SSE2.c:58-70 (`area_width == 4`, nbytes = 4) and :72-84 (`area_width == 8`, nbytes = 8):
    `for (y = 0; y < area_height; y += 2) { two rows; src0 += src0_stride << 1; … }`.
    (`y += 2` on `uint32_t`: no wrap for even `area_height < 2^32`.)  Called with `fuel = area_height`. -/
def avg_sse2_rows2 (nbytes : Nat) (s0 : Mem 8) (st0 : Nat) (s1 : Mem 8) (st1 ds h : Nat) : Nat → Nat → Nat → Nat → Nat → Mem 8 → Mem 8
  | 0, _, _, _, _, dst => dst
  | fuel + 1, y, a0, a1, da, dst =>
    if y < h then
      let xmm_avg1 := avg_epu8 (loadBytes s0 a0 nbytes 16) (loadBytes s1 a1 nbytes 16)                   -- :60-61 / :74-75
      let xmm_avg2 := avg_epu8 (loadBytes s0 (a0 + st0) nbytes 16) (loadBytes s1 (a1 + st1) nbytes 16)   -- :62-63 / :76-77
      let dst := storeBytes dst da xmm_avg1 nbytes                                                      -- :65 / :79
      let dst := storeBytes dst (da + ds) xmm_avg2 nbytes                                               -- :66 / :80
      avg_sse2_rows2 nbytes s0 st0 s1 st1 ds h fuel (y + 2) (a0 + st0 * 2) (a1 + st1 * 2) (da + ds * 2) dst  -- :68-70 `<< 1`
    else dst

/-- EbAvcStyleMcp_Intrinsic_SSE2.c:26-85 `svt_picture_average_kernel_sse2_intrin` (the two `assert`s are compiled out in
    release builds).  For `8 < area_width < 16` no branch is taken: the function returns without writing anything. -/
def avg_sse2 (s0 : Mem 8) (st0 a0 : Nat) (s1 : Mem 8) (st1 a1 : Nat) (dst : Mem 8) (ds da w h : Nat) : Mem 8 :=
  if w ≥ 16 then avg_sse2_rows16 s0 st0 s1 st1 ds w h h 0 a0 a1 da dst                       -- :34
  else if w = 4 then avg_sse2_rows2 4 s0 st0 s1 st1 ds h h 0 a0 a1 da dst                    -- :58
  else if w = 8 then avg_sse2_rows2 8 s0 st0 s1 st1 ds h h 0 a0 a1 da dst                    -- :72
  else dst

/-! ## K4 — svt_picture_average_kernel1_line (C_DEFAULT/EbPictureOperators_C.c:31-34 vs
      ASM_SSE2/EbAvcStyleMcp_Intrinsic_SSE2.c:87-209) -/

/-- EbPictureOperators_C.c:33 `dst[i] = (src0[i] + src1[i] + 1) / 2;` (`int` arithmetic, non-negative, then `uint8_t`) -/
def avgC2 (x y : BitVec 8) : BitVec 8 := BitVec.ofNat 8 ((x.toNat + y.toNat + 1) / 2)

/-- EbPictureOperators_C.c:33 `for (i = 0; i < areaWidth; i++) dst[i] = …` -/
def avg1_c_loop (s0 : Mem 8) (a0 : Nat) (s1 : Mem 8) (a1 : Nat) (da w : Nat) : Nat → Nat → Mem 8 → Mem 8
  | 0, _, dst => dst
  | fuel + 1, i, dst =>
    if i < w then
      avg1_c_loop s0 a0 s1 a1 da w fuel (i + 1) (store1 dst (da + i) (avgC2 (s0 (a0 + i)) (s1 (a1 + i))))
    else dst

/-- `svt_picture_average_kernel1_line_c(src0+a0, src1+a1, dst+da, w)` -/
def avg1_c (s0 : Mem 8) (a0 : Nat) (s1 : Mem 8) (a1 : Nat) (dst : Mem 8) (da w : Nat) : Mem 8 :=
  avg1_c_loop s0 a0 s1 a1 da w w 0 dst

/-- EbAvcStyleMcp_Intrinsic_SSE2.c:87-209 `svt_picture_average_kernel1_line_sse2_intrin(src0+a0, src1+a1, dst+da, w)`.
    `area_width > 16`: 32 → two 16-byte chunks, ANY other value → four chunks (64 bytes); 16, 4, 8 → one chunk;
    ANY other value ≤ 16 → 8 + 4 bytes (12). -/
def avg1_sse2 (s0 : Mem 8) (a0 : Nat) (s1 : Mem 8) (a1 : Nat) (dst : Mem 8) (da w : Nat) : Mem 8 :=
  if w > 16 then                                                                              -- :91
    if w = 32 then                                                                            -- :92
      let xmm_avg1 := avg_epu8 (loadBytes s0 a0 16 16) (loadBytes s1 a1 16 16)                -- :95-96
      let xmm_avg2 := avg_epu8 (loadBytes s0 (a0 + 16) 16 16) (loadBytes s1 (a1 + 16) 16 16)  -- :97-98
      let dst := storeBytes dst da xmm_avg1 16                                                -- :102
      storeBytes dst (da + 16) xmm_avg2 16                                                    -- :103
    else
      let xmm_avg1 := avg_epu8 (loadBytes s0 a0 16 16) (loadBytes s1 a1 16 16)                -- :114-115
      let xmm_avg2 := avg_epu8 (loadBytes s0 (a0 + 16) 16 16) (loadBytes s1 (a1 + 16) 16 16)  -- :116-117
      let xmm_avg3 := avg_epu8 (loadBytes s0 (a0 + 32) 16 16) (loadBytes s1 (a1 + 32) 16 16)  -- :118-119
      let xmm_avg4 := avg_epu8 (loadBytes s0 (a0 + 48) 16 16) (loadBytes s1 (a1 + 48) 16 16)  -- :120-121
      let dst := storeBytes dst da xmm_avg1 16                                                -- :128
      let dst := storeBytes dst (da + 16) xmm_avg2 16                                         -- :129
      let dst := storeBytes dst (da + 32) xmm_avg3 16                                         -- :130
      storeBytes dst (da + 48) xmm_avg4 16                                                    -- :131
  else if w = 16 then                                                                         -- :145
    storeBytes dst da (avg_epu8 (loadBytes s0 a0 16 16) (loadBytes s1 a1 16 16)) 16           -- :148-152
  else if w = 4 then                                                                          -- :159
    storeBytes dst da (avg_epu8 (loadBytes s0 a0 4 16) (loadBytes s1 a1 4 16)) 4              -- :162-166
  else if w = 8 then                                                                          -- :173
    storeBytes dst da (avg_epu8 (loadBytes s0 a0 8 16) (loadBytes s1 a1 8 16)) 8              -- :176-180
  else                                                                                        -- :187 (written for width 12)
    let xmm_avg1 := avg_epu8 (loadBytes s0 a0 8 16) (loadBytes s1 a1 8 16)                    -- :190-191
    let xmm_avg2 := avg_epu8 (loadBytes s0 (a0 + 8) 4 16) (loadBytes s1 (a1 + 8) 4 16)        -- :192-193
    let dst := storeBytes dst da xmm_avg1 8                                                   -- :198
    storeBytes dst (da + 8) xmm_avg2 4                                                        -- :199

end Simd
