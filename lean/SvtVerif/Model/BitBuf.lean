/-
  C11 (c) — the fixed-size bitstream buffers of a picture versus what is copied into them without a check.

  * sizes:  `EB_OUTPUTSTREAMBUFFERSIZE_MACRO` (Source/Lib/Common/Codec/EbDefinitions.h:1853, thresholds l.1850);
            `picture_control_set_ctor` (Source/Lib/Encoder/Codec/EbPictureControlSet.c:268-269, 343-350):
            one entropy-coder buffer of `output_buffer_size / total_tile_cnt` bytes per tile and one picture bitstream
            buffer of `output_buffer_size` bytes; `output_bitstream_unit_ctor` (EbBitstreamUnit.c:32-45) mallocs exactly that.
  * copies: `svt_aom_daala_stop_encode` (EbBitstreamUnit.c:70-84): `svt_memcpy(br->buffer, daala_data, daala_bytes)` into the
            tile's buffer — no comparison with its size; `write_frame_header_av1` (EbEntropyCoding.c:4317-4335):
            `svt_memcpy(data + curr_data_size + tile_size_bytes, tile buffer, tile_size)` into the picture buffer — no
            comparison either.  (The packet handed to the application is malloc'ed with the exact size afterwards,
            EbPacketizationProcess.c:775-777, so that one is not the problem.)
  Core Lean only.
-/
import SvtVerif.CSem

namespace BitBuf
open CSem

/-- EbDefinitions.h:1850 -/
def INPUT_SIZE_720p_TH : Int := 0x16DA00
/-- EbDefinitions.h:1853  `((ResolutionSize) < (INPUT_SIZE_720p_TH) ? 0x1E8480 : 0x2DC6C0)`; the argument is
    `picture_width * picture_height` of the PADDED picture (EbPictureControlSet.c:268-269; `uint16_t * uint16_t` in `int`). -/
def bufSize (padW padH : Int) : Int :=
  if padW * padH < INPUT_SIZE_720p_TH then 0x1E8480 else 0x2DC6C0

/-- EbPictureControlSet.c:343-347: each tile's entropy-coder output buffer (`uint32_t` division). -/
def tileBufSize (padW padH tileCnt : Int) : Int := wrapU 32 (bufSize padW padH) / tileCnt

/-- A `memcpy(dst + off, src, n)` into an allocation of `size` bytes stays inside it iff … (what neither copy tests). -/
def copyInBounds (size off n : Int) : Bool := decide (0 ≤ off ∧ 0 ≤ n ∧ off + n ≤ size)

/-- `svt_aom_daala_stop_encode` (EbBitstreamUnit.c:70-84) as far as memory is concerned: the range coder's output
    (`daala_bytes`, any length: `svt_od_ec_enc_done` grows its own buffers with realloc) is copied to offset 0 of the tile's
    buffer. Returns `(bytes written, in bounds?)`. The function has no branch on the size. -/
def stopEncode (tileBuf daalaBytes : Int) : Int × Bool := (daalaBytes, copyInBounds tileBuf 0 daalaBytes)

/-- `write_frame_header_av1` tile loop (EbEntropyCoding.c:4317-4335): starting at `hdr` bytes (OBU header + frame header +
    tile group header), every tile's bytes are appended, each but the last preceded by a `tszBytes`-byte size field.
    Returns `(final curr_data_size, all copies in bounds?)`. -/
def appendTiles (picBuf tszBytes : Int) : Int → List Int → Int × Bool
  | cur, [] => (cur, true)
  | cur, [t] => (cur + t, copyInBounds picBuf cur t)
  | cur, t :: ts =>
    let r := appendTiles picBuf tszBytes (cur + tszBytes + t) ts
    (r.1, copyInBounds picBuf (cur + tszBytes) t && r.2)

/-- Size of the submitted picture itself (4:2:0, samples packed at their bit depth): `w*h*3/2*bitDepth/8` bytes.
    NOT a worst-case bound on the coded size — measured coded sizes of noise at qp 0 exceed it
    (1.85 B/pixel at 8 bit, 2.43 B/pixel at 10 bit against 1.5 / 1.875) — it is the yardstick of the negative theorem. -/
def rawBytes (w h bitDepth : Int) : Int := w * h * 3 / 2 * bitDepth / 8

end BitBuf
