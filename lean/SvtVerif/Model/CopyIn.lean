/-
  Model of the picture copy-in path of the encoder (C21): what `svt_av1_enc_send_picture` copies out of the
  caller's `EbSvtIOFormat`, and the padding regeneration the Picture Analysis kernel applies to the internal
  buffer before anything else reads it.

  Transcribed from (pinned /repo):
    Source/Lib/Encoder/Globals/EbEncHandle.c      copy_frame_buffer            l.3464-3620
                                                  allocate_frame_buffer        l.3874-3934
                                                  set_param_based_on_input     l.2055-2121 (pad / padding sizes)
    Source/Lib/Common/Codec/EbPictureBufferDesc.c svt_picture_buffer_desc_ctor l.38-131   (strides, origins, sizes)
    Source/Lib/Common/C_DEFAULT/EbPackUnPack_C.c  svt_enc_msb_un_pack2_d       l.118-133  (C reference of un_pack2d)
    Source/Lib/Common/Codec/EbMcp.c               generate_padding             l.112-164
                                                  pad_input_picture            l.224-272
    Source/Lib/Encoder/Codec/EbPictureAnalysisProcess.c
                                                  pad_picture_to_multiple_of_min_blk_size_dimensions l.3164-3240
                                                  pad_input_pictures           l.3787-3842
                                                  picture_analysis_kernel      l.3897-3900 (first use of the buffer)
    Source/Lib/Encoder/Codec/EbResourceCoordinationProcess.c l.809-812 (scs->pad_right = max_input_pad_right)

  Memory model: a buffer is an `Array Nat` (one cell per `uint8_t`, or per `uint16_t` for the 10-bit source);
  pointers are cell offsets from the start of the allocation.  Every access is bounds-checked: an access outside
  the allocation is *skipped* and recorded in `Mem.ok := false` (in C it is undefined behaviour / heap
  corruption), so `ok` of the result says exactly whether the C code stayed inside its buffers.
  The `compressed_ten_bit_format == 1` branch of copy_frame_buffer (l.3517-3575) is unreachable through the
  API (verify_settings rejects every non-zero value, EbEncHandle.c l.2786-2790) and is not modelled.
  Core Lean only (the driver links this file).
-/
namespace CopyIn

abbrev Buf := Array Nat

/-- read one cell (0 outside the allocation; such a read is flagged by the callers) -/
def rd (b : Buf) (i : Nat) : Nat := b.getD i 0
/-- write one cell (skipped outside the allocation; flagged by the callers) -/
def wr (b : Buf) (i v : Nat) : Buf := b.setIfInBounds i v

/-- `memset(base + off, v, n)` -/
def memsetA (b : Buf) (off v : Nat) : Nat → Buf
  | 0 => b
  | n + 1 => memsetA (wr b off v) (off + 1) v n

/-- `memcpy(base + d, s + so, n)`; `s` is the source allocation as it was when memcpy was called -/
def memcpyA (b : Buf) (d : Nat) (s : Buf) (so : Nat) : Nat → Buf
  | 0 => b
  | n + 1 => memcpyA (wr b d (rd s so)) (d + 1) s (so + 1) n

/-- `[off, off+n)` lies inside an allocation of `size` cells (an empty access touches nothing) -/
def inb (size off n : Nat) : Bool := n == 0 || decide (off + n ≤ size)

/-- A destination allocation plus the "no access so far left any allocation" flag. -/
structure Mem where
  buf : Buf
  ok : Bool := true

namespace Mem

/-- `EB_MEMSET(base + off, *(base + cell), n)` -/
def memsetCell (m : Mem) (off cell n : Nat) : Mem :=
  let ok := m.ok && decide (cell < m.buf.size) && inb m.buf.size off n
  { buf := memsetA m.buf off (rd m.buf cell) n, ok := ok }

/-- `svt_memcpy(base + d, s + so, n)` from another allocation -/
def memcpyFrom (m : Mem) (d : Nat) (s : Buf) (so n : Nat) : Mem :=
  let ok := m.ok && inb m.buf.size d n && inb s.size so n
  { buf := memcpyA m.buf d s so n, ok := ok }

/-- `svt_memcpy(base + d, base + so, n)` inside one allocation (overlap = UB, flagged) -/
def memcpySelf (m : Mem) (d so n : Nat) : Mem :=
  let ok := m.ok && inb m.buf.size d n && inb m.buf.size so n && (n == 0 || decide (d + n ≤ so ∨ so + n ≤ d))
  { buf := memcpyA m.buf d m.buf so n, ok := ok }

/-- `base[i] = f(s[si])` -/
def storeFrom (m : Mem) (i : Nat) (s : Buf) (si : Nat) (f : Nat → Nat) : Mem :=
  let ok := m.ok && decide (i < m.buf.size) && decide (si < s.size)
  { buf := wr m.buf i (f (rd s si)), ok := ok }

end Mem

/-! ### copy_frame_buffer, 8-bit path: the three row loops (EbEncHandle.c l.3494-3514) -/

/-- `for (i = 0; i < n; i++) { svt_memcpy(dst, src, source_stride); src += source_stride; dst += stride; }`
    (l.3494-3498 luma, l.3502-3506 cb, l.3510-3514 cr).  NB: the whole *source stride* is copied, not the width. -/
def copyRows (m : Mem) (src : Buf) (dst0 src0 dstStride srcStride : Nat) : Nat → Mem
  | 0 => m
  | n + 1 => copyRows (m.memcpyFrom dst0 src src0 srcStride) src (dst0 + dstStride) (src0 + srcStride) dstStride srcStride n

/-! ### un_pack2d, C reference (EbPackUnPack_C.c l.118-133; un_pack2d dispatches to it or to a SIMD twin,
    EbPictureOperators.c l.322-345) -/

/-- inner loop `for (k = 0; k < width; k++)` of row `j`:
    `in_pixel = in16[k + j*in_stride]; out8[k + j*out8_stride] = (uint8_t)(in_pixel >> 2);
     if (outn) outn[k + j*outn_stride] = (uint8_t)(in_pixel << 6);`
    `inOff/o8/on` are the pointer offsets the caller added to the three base pointers. -/
def unpackCols (in16 : Buf) (inOff inStride o8 out8Stride on outnStride j : Nat) : Nat → Nat → Mem × Mem → Mem × Mem
  | _, 0, s => s
  | k, n + 1, (m8, mn) =>
    let m8 := m8.storeFrom (o8 + (k + j * out8Stride)) in16 (inOff + (k + j * inStride)) (fun px => ((px % 65536) / 4) % 256)
    let mn := mn.storeFrom (on + (k + j * outnStride)) in16 (inOff + (k + j * inStride)) (fun px => ((px % 65536) * 64) % 256)
    unpackCols in16 inOff inStride o8 out8Stride on outnStride j (k + 1) n (m8, mn)

/-- outer loop `for (j = 0; j < height; j++)` -/
def unpackRows (in16 : Buf) (inOff inStride o8 out8Stride on outnStride width : Nat) : Nat → Nat → Mem × Mem → Mem × Mem
  | _, 0, s => s
  | j, n + 1, s =>
    unpackRows in16 inOff inStride o8 out8Stride on outnStride width (j + 1) n
      (unpackCols in16 inOff inStride o8 out8Stride on outnStride j 0 width s)

/-- `un_pack2d(in16 + inOff, in_stride, out8 + o8, out8_stride, outn + on, outn_stride, width, height)` -/
def unPack2d (in16 : Buf) (inOff inStride : Nat) (m8 : Mem) (o8 out8Stride : Nat) (mn : Mem) (on outnStride : Nat)
    (width height : Nat) : Mem × Mem :=
  unpackRows in16 inOff inStride o8 out8Stride on outnStride width 0 height (m8, mn)

/-! ### pad_input_picture (EbMcp.c l.224-272) -/

/-- l.247-253: `while (vertical_idx) { EB_MEMSET(t0 + w, *(t0 + w - 1), pad_right); t0 += stride; --vertical_idx; }` -/
def padRightLoop (m : Mem) (t0 stride w padRight : Nat) : Nat → Mem
  | 0 => m
  | v + 1 => padRightLoop (m.memsetCell (t0 + w) (t0 + w - 1) padRight) (t0 + stride) stride w padRight v

/-- l.263-268: `while (vertical_idx) { t1 += stride; svt_memcpy(t1, t0, n); --vertical_idx; }` -/
def padBottomLoop (m : Mem) (t0 t1 stride n : Nat) : Nat → Mem
  | 0 => m
  | v + 1 => padBottomLoop (m.memcpySelf (t1 + stride) t0 n) t0 (t1 + stride) stride n v

/-- `pad_input_picture(src_pic, src_stride, original_src_width, original_src_height, pad_right, pad_bottom)`;
    `(original_src_height - 1) * src_stride` is uint32 arithmetic — heights are >= 64 (verify_settings l.2529),
    the theorems assume `1 ≤ h`. -/
def padInputPicture (m : Mem) (srcPic stride w h padRight padBottom : Nat) : Mem :=
  let m := if padRight != 0 then padRightLoop m srcPic stride w padRight h else m       -- l.242-254
  if padBottom != 0 then                                                                  -- l.256-269
    let t0 := srcPic + (h - 1) * stride
    padBottomLoop m t0 t0 stride (w + padRight) padBottom
  else m

/-! ### generate_padding (EbMcp.c l.112-164) -/

/-- l.134-143: `while (vertical_idx) { EB_MEMSET(t0 - pw, *t0, pw); EB_MEMSET(t0 + w, *(t0 + w - 1), pw); t0 += stride; }` -/
def genPadH (m : Mem) (t0 stride w pw : Nat) : Nat → Mem
  | 0 => m
  | v + 1 =>
    let m := m.memsetCell (t0 - pw) t0 pw
    let m := m.memsetCell (t0 + w) (t0 + w - 1) pw
    genPadH m (t0 + stride) stride w pw v

/-- l.151-161: `while (vertical_idx) { t2 -= stride; svt_memcpy(t2, t0, stride); t3 += stride; svt_memcpy(t3, t1, stride); }` -/
def genPadV (m : Mem) (t0 t1 t2 t3 stride : Nat) : Nat → Mem
  | 0 => m
  | v + 1 =>
    let m := m.memcpySelf (t2 - stride) t0 stride
    let m := m.memcpySelf (t3 + stride) t1 stride
    genPadV m t0 t1 (t2 - stride) (t3 + stride) stride v

/-- `generate_padding(src_pic, src_stride, original_src_width, original_src_height, padding_width, padding_height)`.
    NB the *same* `padding_height` is used above and below (the allocation's `bot_padding` is never consulted). -/
def generatePadding (m : Mem) (srcPic stride w h pw ph : Nat) : Mem :=
  let m := genPadH m (srcPic + pw + ph * stride) stride w pw h     -- l.133-143
  let t0 := srcPic + ph * stride                                    -- l.147
  let t1 := srcPic + (ph + h - 1) * stride                          -- l.148
  genPadV m t0 t1 t0 t1 stride ph                                   -- l.149-161

/-! ### one plane through the pipeline -/

/-- 8-bit plane: row copy (copy_frame_buffer), pad to the multiple of 8 (pad_input_picture), regenerate the
    borders (generate_padding).  `ox, oy` = plane origin, `w, h` = visible size, `pr, pb` = pad to multiple of 8,
    `stride` = internal stride, `ss` = the caller's stride (already truncated to uint16). -/
def planeIn8 (m : Mem) (src : Buf) (stride ox oy w h pr pb ss : Nat) : Mem :=
  let m := copyRows m src (stride * oy + ox) 0 stride ss h
  let m := padInputPicture m (ox + oy * stride) stride w h pr pb
  generatePadding m 0 stride (w + pr) (h + pb) ox oy

/-- 10-bit plane: un_pack2d into the 8-bit and the 2-bit allocation, then the same padding on both. -/
def planeIn10 (m8 mn : Mem) (src16 : Buf) (stride ox oy w h pr pb ss : Nat) : Mem × Mem :=
  let (m8, mn) := unPack2d src16 0 ss m8 (stride * oy + ox) stride mn (stride * oy + ox) stride w h
  let m8 := padInputPicture m8 (ox + oy * stride) stride w h pr pb
  let mn := padInputPicture mn (ox + oy * stride) stride w h pr pb
  (generatePadding m8 0 stride (w + pr) (h + pb) ox oy, generatePadding mn 0 stride (w + pr) (h + pb) ox oy)

/-! ### the frame: descriptors as the library sets them up, and the C functions on whole pictures -/

/-- the fields of `SequenceControlSet` / `EbPictureBufferDesc` this path reads -/
structure Desc where
  encoderBitDepth : Nat
  leftPadding : Nat          -- scs->left_padding
  topPadding : Nat           -- scs->top_padding
  maxInputPadRight : Nat     -- scs->max_input_pad_right
  maxInputPadBottom : Nat    -- scs->max_input_pad_bottom
  padRight : Nat             -- scs->pad_right  (= max_input_pad_right, EbResourceCoordinationProcess.c l.809)
  padBottom : Nat            -- scs->pad_bottom
  subsamplingX : Nat
  subsamplingY : Nat
  is420 : Bool               -- input_picture_ptr->color_format == EB_YUV420
  width : Nat                -- input_picture_ptr->width  (aligned to 8)
  height : Nat               -- input_picture_ptr->height (aligned to 8)
  originX : Nat
  originY : Nat
  strideY : Nat
  strideCb : Nat
  strideCr : Nat
  strideBitIncY : Nat
  strideBitIncCb : Nat
  strideBitIncCr : Nat
  lumaSize : Nat
  chromaSize : Nat
deriving Repr

/-- What set_param_based_on_input (l.2060-2072, 2118-2121), allocate_frame_buffer (l.3883-3899) and
    svt_picture_buffer_desc_ctor (l.58-82) produce for a 4:2:0 encode of `w × h`, superblock size `sb`, bit depth `bd`. -/
def padTo8 (n : Nat) : Nat := if n % 8 != 0 then 8 - n % 8 else 0

def apiDesc (w h sb bd : Nat) : Desc :=
  let padR := padTo8 w                                     -- l.2060-2065 (MIN_BLOCK_SIZE = 8)
  let padB := padTo8 h                                     -- l.2067-2072
  let w8 := w + padR
  let h8 := h + padB
  -- allocate_frame_buffer l.3883-3891: max_width = !(W % 8) ? W : W + W % 8, with W already aligned
  let maxW := if w8 % 8 == 0 then w8 else w8 + w8 % 8
  let maxH := if h8 % 8 == 0 then h8 else h8 + h8 % 8
  let left := 64 + 4                                       -- l.2118 BLOCK_SIZE_64 + 4
  let right := 64 + 4                                      -- l.2120
  let top := 64 + 4                                        -- l.2119
  let bot := sb + 4                                        -- l.2121 super_block_size + 4
  let strideY := maxW + left + right                       -- EbPictureBufferDesc.c l.64-66
  let lumaSize := (maxW + left + right) * (maxH + top + bot)   -- l.73-78
  { encoderBitDepth := bd, leftPadding := left, topPadding := top,
    maxInputPadRight := padR, maxInputPadBottom := padB, padRight := padR, padBottom := padB,
    subsamplingX := 1, subsamplingY := 1, is420 := true,
    width := maxW, height := maxH, originX := left, originY := top,
    strideY := strideY, strideCb := strideY / 2, strideCr := strideY / 2,
    strideBitIncY := if bd > 8 then strideY else 0,
    strideBitIncCb := if bd > 8 then strideY / 2 else 0,
    strideBitIncCr := if bd > 8 then strideY / 2 else 0,
    lumaSize := lumaSize, chromaSize := lumaSize / 4 }      -- l.79-80 (>> (3 - color_format), 4:2:0 = 1)

/-- the six allocations of the internal picture (`buffer_bit_inc_*` are NULL = empty for 8-bit encodes) -/
structure Pic where
  y : Mem
  cb : Mem
  cr : Mem
  incY : Mem
  incCb : Mem
  incCr : Mem

/-- the caller's `EbSvtIOFormat`: three allocations (cells = bytes for 8-bit, uint16 samples for 10-bit) and strides -/
structure IoFormat where
  luma : Buf
  cb : Buf
  cr : Buf
  yStride : Nat
  cbStride : Nat
  crStride : Nat

def u16 (x : Nat) : Nat := x % 65536

/-- `copy_frame_buffer` (EbEncHandle.c l.3464-3620), 8-bit branch l.3479-3515 and packed 10-bit branch l.3576-3618. -/
def copyFrameBuffer (d : Desc) (p : Pic) (io : IoFormat) : Pic :=
  if d.encoderBitDepth ≤ 8 then
    let lumaBufferOffset := d.strideY * d.topPadding + d.leftPadding                                 -- l.3480 (<< 0)
    let chromaBufferOffset := d.strideCr * (d.topPadding / 2) + d.leftPadding / 2                      -- l.3481
    let lumaStride := u16 d.strideY                                                                    -- l.3482
    let chromaStride := u16 d.strideCb                                                                 -- l.3483
    let lumaHeight := u16 (d.height - d.maxInputPadBottom)                                             -- l.3484
    let sourceLumaStride := u16 io.yStride                                                             -- l.3486
    let sourceCrStride := u16 io.crStride                                                              -- l.3487
    let sourceCbStride := u16 io.cbStride                                                              -- l.3488
    let sourceChromaHeight := if d.is420 then lumaHeight / 2 else lumaHeight                           -- l.3489-3490
    { p with
      y := copyRows p.y io.luma lumaBufferOffset 0 lumaStride sourceLumaStride lumaHeight,             -- l.3492-3498
      cb := copyRows p.cb io.cb chromaBufferOffset 0 chromaStride sourceCbStride sourceChromaHeight,   -- l.3500-3506
      cr := copyRows p.cr io.cr chromaBufferOffset 0 chromaStride sourceCrStride sourceChromaHeight }  -- l.3508-3514
  else
    let lumaBufferOffset := d.strideY * d.topPadding + d.leftPadding                                 -- l.3579
    let chromaBufferOffset := d.strideCr * (d.topPadding / 2) + d.leftPadding / 2                      -- l.3580
    let lumaWidth := u16 (d.width - d.maxInputPadRight)                                                -- l.3581
    let chromaWidth := lumaWidth / 2                                                                   -- l.3582
    let lumaHeight := u16 (d.height - d.maxInputPadBottom)                                             -- l.3583
    let sourceLumaStride := u16 io.yStride                                                             -- l.3585
    let sourceCrStride := u16 io.crStride
    let sourceCbStride := u16 io.cbStride
    let (y, incY) := unPack2d io.luma 0 sourceLumaStride p.y lumaBufferOffset d.strideY p.incY lumaBufferOffset
                        d.strideBitIncY lumaWidth lumaHeight                                           -- l.3589-3597
    let (cb, incCb) := unPack2d io.cb 0 sourceCbStride p.cb chromaBufferOffset d.strideCb p.incCb chromaBufferOffset
                        d.strideBitIncCb chromaWidth (lumaHeight / 2)                                  -- l.3599-3607
    let (cr, incCr) := unPack2d io.cr 0 sourceCrStride p.cr chromaBufferOffset d.strideCr p.incCr chromaBufferOffset
                        d.strideBitIncCr chromaWidth (lumaHeight / 2)                                  -- l.3609-3617
    { y := y, cb := cb, cr := cr, incY := incY, incCb := incCb, incCr := incCr }

/-- `pad_picture_to_multiple_of_min_blk_size_dimensions` (EbPictureAnalysisProcess.c l.3164-3240), 4:2:0
    (`subsampling_x = subsampling_y = 1`).  NB l.3197 / l.3231 index the Cr rows with `stride_cb`. -/
def padPictureToMultipleOfMinBlk (d : Desc) (p : Pic) : Pic :=
  let sx := d.subsamplingX
  let sy := d.subsamplingY
  let y := padInputPicture p.y (d.originX + d.originY * d.strideY) d.strideY (d.width - d.padRight)
              (d.height - d.padBottom) d.padRight d.padBottom                                          -- l.3173-3180
  let cb := padInputPicture p.cb ((d.originX >>> sx) + (d.originY >>> sy) * d.strideCb) d.strideCb
              ((d.width - d.padRight) >>> sx) ((d.height - d.padBottom) >>> sy) (d.padRight >>> sx) (d.padBottom >>> sy)  -- l.3183-3191
  let cr := padInputPicture p.cr ((d.originX >>> sx) + (d.originY >>> sy) * d.strideCb) d.strideCr
              ((d.width - d.padRight) >>> sx) ((d.height - d.padBottom) >>> sy) (d.padRight >>> sx) (d.padBottom >>> sy)  -- l.3194-3202
  if d.encoderBitDepth > 8 then                                                                        -- l.3204
    let incY := padInputPicture p.incY (d.originX + d.originY * d.strideBitIncY) d.strideBitIncY (d.width - d.padRight)
              (d.height - d.padBottom) d.padRight d.padBottom                                          -- l.3206-3214
    let incCb := padInputPicture p.incCb ((d.originX >>> sx) + (d.originY >>> sy) * d.strideBitIncCb) d.strideBitIncCb
              ((d.width - d.padRight) >>> sx) ((d.height - d.padBottom) >>> sy) (d.padRight >>> sx) (d.padBottom >>> sy)  -- l.3217-3225
    let incCr := padInputPicture p.incCr ((d.originX >>> sx) + (d.originY >>> sy) * d.strideBitIncCb) d.strideBitIncCr
              ((d.width - d.padRight) >>> sx) ((d.height - d.padBottom) >>> sy) (d.padRight >>> sx) (d.padBottom >>> sy)  -- l.3228-3236
    { y := y, cb := cb, cr := cr, incY := incY, incCb := incCb, incCr := incCr }
  else
    { p with y := y, cb := cb, cr := cr }

/-- `pad_input_pictures` (EbPictureAnalysisProcess.c l.3787-3842): first thing picture_analysis_kernel does with
    the copied picture (l.3900). -/
def padInputPictures (d : Desc) (p : Pic) : Pic :=
  let p := padPictureToMultipleOfMinBlk d p                                                            -- l.3791
  let sx := d.subsamplingX
  let sy := d.subsamplingY
  let y := generatePadding p.y 0 d.strideY d.width d.height d.originX d.originY                        -- l.3792-3797
  let incY := if d.encoderBitDepth > 8 then
      generatePadding p.incY 0 d.strideBitIncY d.width d.height d.originX d.originY else p.incY        -- l.3800-3807
  let cb := generatePadding p.cb 0 d.strideCb (d.width >>> sx) (d.height >>> sy) (d.originX >>> sx) (d.originY >>> sy)  -- l.3809-3815
  let cr := generatePadding p.cr 0 d.strideCr (d.width >>> sx) (d.height >>> sy) (d.originX >>> sx) (d.originY >>> sy)  -- l.3817-3823
  if d.encoderBitDepth > 8 then                                                                        -- l.3825
    { y := y, cb := cb, cr := cr, incY := incY,
      incCb := generatePadding p.incCb 0 d.strideBitIncCb (d.width >>> sx) (d.height >>> sy) (d.originX >>> sx) (d.originY >>> sy),
      incCr := generatePadding p.incCr 0 d.strideBitIncCr (d.width >>> sx) (d.height >>> sy) (d.originX >>> sx) (d.originY >>> sy) }
  else
    { p with y := y, cb := cb, cr := cr, incY := incY }

/-- send_picture's deep copy followed by the padding the Picture Analysis kernel regenerates:
    the internal picture as every later stage sees it.  The result is a fresh value: nothing of `io` is retained. -/
def pipelineIn (d : Desc) (p : Pic) (io : IoFormat) : Pic :=
  padInputPictures d (copyFrameBuffer d p io)

/-! ### what the encoder holds once `svt_av1_enc_send_picture` has returned (EbEncHandle.c l.3670-3695):
    the wrapper object posted to the input FIFO carries the library's own `EbPictureBufferDesc` (deep copy made by
    copy_input_buffer l.3640-3665); no pointer of the caller's `EbSvtIOFormat` is stored (p_buffer of the internal
    header keeps pointing at the library's descriptor, only scalar header fields are copied l.3647-3654). -/
structure Held where
  pic : Pic

/-- send_picture: the state held afterwards, and (returned unchanged to its owner) the caller's memory -/
def sendPicture (d : Desc) (p : Pic) (io : IoFormat) : Held × IoFormat := ({ pic := copyFrameBuffer d p io }, io)

/-- everything the pipeline does later is a function of what is held; the caller may meanwhile turn its memory
    into anything (`scribble`, including freeing it) -/
def afterSend {α : Type} (rest : Pic → α) (d : Desc) (p : Pic) (io : IoFormat) (scribble : IoFormat → IoFormat) : α × IoFormat :=
  let (held, callerMem) := sendPicture d p io
  let callerMem := scribble callerMem
  (rest (padInputPictures d held.pic), callerMem)

/-! ### specification vocabulary (used by the theorems, not by the driver) -/

/-- sample `(x, y)` of a caller plane with stride `ss` -/
def vis (src : Buf) (ss x y : Nat) : Nat := rd src (y * ss + x)

/-- column / row of the visible picture that a padded position replicates -/
def clampTo (o n c : Nat) : Nat := if c < o then 0 else min (c - o) (n - 1)

/-- the padded internal plane is the visible picture replicated outwards from its edges -/
def padSpec (f : Nat → Nat → Nat) (ox oy w h r c : Nat) : Nat := f (clampTo ox w c) (clampTo oy h r)

/-- the 8-bit / 2-bit halves un_pack2d produces from a 16-bit sample -/
def hi8 (px : Nat) : Nat := ((px % 65536) / 4) % 256
def lo2 (px : Nat) : Nat := ((px % 65536) * 64) % 256

end CopyIn
