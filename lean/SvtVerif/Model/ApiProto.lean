/-
  C14 — protocol model of the public encoder / decoder API (core Lean only).

  Three layers:
  1. table types filled by the translator (`Gen/ApiTables.lean`, regenerated from the C source on every run)
     and their generic semantics: what a call does to a NULL argument along a path (`runNullEvs`), what a
     path does to the set of held mutexes (`runLocks`);
  2. the protocol automaton of one encoder handle and one decoder handle as the application sees them
     (`step`), parameterised by the tables: NULL-argument behaviour and mutex effects are *looked up* in the
     generated tables, call-order behaviour is transcribed by hand from EbEncHandle.c / EbDecHandle.c
     (line numbers in comments; validated every run against the real library by harness/apiseq.c);
  3. `run`: the predicted result class of every call of a sequence.

  The model mirrors the code as it is: where the code dereferences without a check, or relies on an earlier
  call having happened, the prediction is `undef tag` (outside what the code enforces: the real library may
  crash or hang there), never "returns an error".
-/
namespace ApiProto

/-! ## 1. Tables -/

/-- Events of one pointer along one path, up to its first dereference. -/
inductive PEv where
  | chkNonNull            -- took the branch of a NULL test on which the pointer is non-NULL
  | chkNull               -- took the branch on which it is NULL
  | deref (line : Nat)    -- `->`, `*`, `[]`, or handed to a same-file callee that dereferences it unguarded
  | escape (line : Nat)   -- handed to a function of another translation unit (counted as a dereference)
  deriving DecidableEq, Repr

inductive LEv where
  | lock (m : String)
  | unlock (m : String)
  deriving DecidableEq, Repr

structure GuardPath where
  evs : List PEv
  ret : Option Nat        -- statically known return code of the path
  deriving Repr

structure GuardEntry where
  fn : String
  ptr : String
  derived : Bool          -- `*p` / `p->field` of a parameter rather than a parameter
  paths : List GuardPath

structure LockPath where
  evs : List LEv
  ret : Option Nat
  nulls : List String     -- pointers known to be NULL when the path returns
  deriving Repr

structure LockEntry where
  fn : String
  paths : List LockPath

structure Tables where
  guards : List GuardEntry
  locks : List LockEntry

/-! ### NULL-argument semantics of a path -/

inductive NullRun where
  | infeasible            -- the path needs the pointer to be non-NULL
  | returns               -- the call returns along this path without touching the pointer
  | nullAccess (line : Nat)
  deriving DecidableEq, Repr

/-- What happens along a path when the pointer argument is NULL. -/
def runNullEvs : List PEv → NullRun
  | [] => .returns
  | .chkNonNull :: _ => .infeasible
  | .chkNull :: r => runNullEvs r
  | .deref l :: _ => .nullAccess l
  | .escape l :: _ => .nullAccess l

/-- Syntactic criterion used for the table: every access is preceded by a successful non-NULL test. -/
def pathGuarded : List PEv → Bool
  | [] => true
  | .chkNonNull :: _ => true
  | .chkNull :: r => pathGuarded r
  | .deref _ :: _ => false
  | .escape _ :: _ => false

def entryGuarded (e : GuardEntry) : Bool := e.paths.all (fun p => pathGuarded p.evs)

/-- Line of a NULL access on some path of the entry, if any. -/
def nullWitness (e : GuardEntry) : Option Nat :=
  e.paths.findSome? (fun p => match runNullEvs p.evs with | .nullAccess l => some l | _ => none)

/-- Return codes of the paths a NULL argument can take to a `return`. -/
def nullRets (e : GuardEntry) : List (Option Nat) :=
  (e.paths.filter (fun p => runNullEvs p.evs == .returns)).map (·.ret)

def findGuard (T : Tables) (fn ptr : String) : Option GuardEntry :=
  T.guards.find? (fun e => e.fn == fn && e.ptr == ptr)

inductive NullClass where
  | unguarded (line : Nat)   -- some path dereferences the NULL pointer
  | ret (code : Nat)         -- guarded, and every NULL path returns this code
  | dyn                      -- guarded (never touched when NULL); return code not static
  deriving DecidableEq, Repr

def nullClass (T : Tables) (fn ptr : String) : NullClass :=
  match findGuard T fn ptr with
  | none => .unguarded 0
  | some e =>
    match nullWitness e with
    | some l => .unguarded l
    | none =>
      match nullRets e with
      | some c :: rs => if rs.all (· == some c) then .ret c else .dyn
      | _ => .dyn

/-! ### Mutex semantics of a path -/

inductive LockRun where
  | done (held : List String)
  | blocked (m : String)       -- `lock m` while m is held: never returns (non-recursive mutex)
  | badUnlock (m : String)     -- `unlock m` while m is not held
  deriving DecidableEq, Repr

def runLocks (h : List String) : List LEv → LockRun
  | [] => .done h
  | .lock m :: r => if h.contains m then .blocked m else runLocks (m :: h) r
  | .unlock m :: r => if h.contains m then runLocks (h.erase m) r else .badUnlock m

/-- The path releases everything it acquires (and never blocks on itself). -/
def pathBalanced (p : LockPath) : Bool := runLocks [] p.evs == .done []

def allBalanced (T : Tables) : Bool := T.locks.all (fun e => e.paths.all pathBalanced)

/-- A sequence of calls, each along some path, starting with the mutexes `h` held. -/
def runCalls (h : List String) : List LockPath → LockRun
  | [] => .done h
  | p :: ps =>
    match runLocks h p.evs with
    | .done h' => runCalls h' ps
    | r => r

def findLocks (T : Tables) (fn : String) : List LockPath :=
  match T.locks.find? (fun e => e.fn == fn) with
  | some e => e.paths
  | none => []

/-! ## 2. Protocol automaton -/

inductive Tag where
  | null (fn ptr : String)     -- NULL argument dereferenced
  | order (fn what : String)   -- call made in a state the function does not check for
  deriving DecidableEq, Repr

/-- Predicted result class of one call, protocol level (everything except mutex effects). -/
inductive PRes where
  | ok
  | err (code : Nat)
  | oneOf (codes : List Nat)   -- timing dependent, one of these
  | mayBlock                   -- the documented blocking packet wait with nothing guaranteed to arrive
  | undef (t : Tag)            -- outside what the code enforces: the real call may crash or hang
  deriving DecidableEq, Repr

/-- Predicted result class of one call. -/
inductive Res where
  | ok
  | err (code : Nat)
  | oneOf (codes : List Nat)
  | mayBlock
  | undef (t : Tag)
  | blocked (m : String)       -- blocks forever on mutex m left held by an earlier call that returned
  | skipped                    -- after a call that is not predicted to return normally
  deriving DecidableEq, Repr

def PRes.toRes : PRes → Res
  | .ok => .ok
  | .err c => .err c
  | .oneOf cs => .oneOf cs
  | .mayBlock => .mayBlock
  | .undef t => .undef t

def Res.continues : Res → Bool
  | .ok | .err _ | .oneOf _ => true
  | _ => false

inductive Phase where
  | noHandle | handle | inited | deinited
  deriving DecidableEq, Repr

inductive CfgSt where
  | none | accepted | rejected
  deriving DecidableEq, Repr

/-- Application-visible state of the encoder handle variable. -/
structure Enc where
  phase : Phase := .noHandle
  cfg : CfgSt := .none          -- outcome of the last set_parameter with a non-NULL configuration
  touched : Bool := false       -- some configuration has been copied into the handle (copy_api_from_app runs before verify_settings)
  sent : Nat := 0               -- pictures handed to send_picture since enc_init
  eos : Bool := false
  recvLo : Nat := 0             -- packets certainly / possibly received
  recvHi : Nat := 0
  heldLo : Nat := 0             -- packets certainly / possibly held by the application
  heldHi : Nat := 0
  hasHdr : Bool := false
  fuzzy : Bool := false         -- a NULL picture was sent: packet count no longer predictable
  midstream : Bool := false     -- deinit was called with pictures still in the pipeline
  deriving DecidableEq, Repr

structure Dec where
  phase : Phase := .noHandle
  cfgSet : Bool := false
  fed : Nat := 0
  everDeinit : Bool := false    -- svt_av1_dec_deinit has run in this process (the decoder's memory map is a process global)
  deriving DecidableEq, Repr

structure St where
  enc : Enc := {}
  dec : Dec := {}
  held : List String := []      -- mutexes left held by calls that returned
  deriving DecidableEq, Repr

/-- The seven protocol states named in the property. -/
inductive ProtoState where
  | NoHandle | Handle | Configured | Rejected | Inited | Draining | Deinit
  deriving DecidableEq, Repr

def Enc.proto (e : Enc) : ProtoState :=
  match e.phase with
  | .noHandle => .NoHandle
  | .handle => match e.cfg with | .none => .Handle | .accepted => .Configured | .rejected => .Rejected
  | .inited => if e.eos then .Draining else .Inited
  | .deinited => .Deinit

inductive CfgArg where
  | valid | invalid | null
  deriving DecidableEq, Repr

inductive Op where
  -- encoder
  | initHandle | initHandleNull | initHandleNullCfg
  | setParam (a : CfgArg) | setParamNullH (a : CfgArg)
  | encInit | encInitNullH
  | streamHeader | streamHeaderNullH | streamHeaderNullOut | streamHeaderRelease | streamHeaderReleaseNull
  | send (k : Nat) | sendEos | sendNull | sendNullH
  | getPacket (blocking : Bool) | getPacketNullH | getPacketNullOut
  | releaseOut | releaseNull | releaseNullP
  | getRecon | getReconNullH | getReconNullBuf
  | getStreamInfo | getStreamInfoNullH | getStreamInfoNullInfo | getStreamInfoBadId
  | eosNal | eosNalNullH | drain | sleep
  | deinit | deinitNullH | deinitHandle | deinitHandleNullH
  -- decoder
  | decInitHandle | decInitHandleNull | decInitHandleNullCfg
  | decSetParam (null : Bool) | decSetParamNullH (null : Bool)
  | decInit | decInitNullH
  | decFrame | decFrameNullH | decFrameNullData | decFrameNullDataN
  | decGetPicture | decGetPictureNullH | decGetPictureNullBuf | decGetPictureNullInfo
  | decDeinit | decDeinitNullH | decDeinitHandle | decDeinitHandleNullH
  deriving DecidableEq, Repr

def EB_ErrorNone : Nat := 0
def EB_ErrorBadParameter : Nat := 0x80001005
def EB_ErrorInvalidComponent : Nat := 0x80001004
def EB_NoErrorEmptyQueue : Nat := 0x80002033
def EB_ErrorMax : Nat := 0x7FFFFFFF
def EB_DecNoOutputPicture : Nat := 0x40001004

/-- More than this many pictures in flight is outside the model (send_picture back-pressure, C27). -/
def maxInFlight : Nat := 16

/-- A call with a NULL argument `ptr` of `fn`: looked up in the generated table.  `k` is what the call does when the
    NULL argument is never touched and does not decide the return code. -/
def nullArg {σ : Type} (T : Tables) (fn ptr : String) (s : σ) (k : PRes × σ) : PRes × σ :=
  match nullClass T fn ptr with
  | .unguarded _ => (.undef (.null fn ptr), s)
  | .ret c => if c = 0 then k else (.err c, s)
  | .dyn => k

/-- Mutex effect of a call of `fn` that returns `code` (`none`: code not static) with a non-NULL handle `hparam`.
    All table paths compatible with that are followed; `Sum.inl m`: blocks on `m`. -/
def lockEffect (T : Tables) (fn hparam : String) (codes : List (Option Nat)) (held : List String) : Sum String (List String) :=
  let cands := (findLocks T fn).filter (fun p => codes.contains p.ret && !p.nulls.contains hparam)
  if cands.isEmpty then .inr held else
  cands.foldl (fun acc p =>
    match acc with
    | .inl m => .inl m
    | .inr h =>
      match runLocks held p.evs with
      | .blocked m => .inl m
      | .badUnlock _ => .inr h
      | .done h' => .inr (h ++ h'.filter (fun m => !h.contains m))) (.inr [])

def encFn (o : Op) : String :=
  match o with
  | .initHandle | .initHandleNull | .initHandleNullCfg => "svt_av1_enc_init_handle"
  | .setParam _ | .setParamNullH _ => "svt_av1_enc_set_parameter"
  | .encInit | .encInitNullH => "svt_av1_enc_init"
  | .streamHeader | .streamHeaderNullH | .streamHeaderNullOut => "svt_av1_enc_stream_header"
  | .streamHeaderRelease | .streamHeaderReleaseNull => "svt_av1_enc_stream_header_release"
  | .send _ | .sendEos | .sendNull | .sendNullH => "svt_av1_enc_send_picture"
  | .getPacket _ | .getPacketNullH | .getPacketNullOut | .drain => "svt_av1_enc_get_packet"
  | .releaseOut | .releaseNull | .releaseNullP => "svt_av1_enc_release_out_buffer"
  | .getRecon | .getReconNullH | .getReconNullBuf => "svt_av1_get_recon"
  | .getStreamInfo | .getStreamInfoNullH | .getStreamInfoNullInfo | .getStreamInfoBadId => "svt_av1_enc_get_stream_info"
  | .eosNal | .eosNalNullH => "svt_av1_enc_eos_nal"
  | .deinit | .deinitNullH => "svt_av1_enc_deinit"
  | .deinitHandle | .deinitHandleNullH => "svt_av1_enc_deinit_handle"
  | .decInitHandle | .decInitHandleNull | .decInitHandleNullCfg => "svt_av1_dec_init_handle"
  | .decSetParam _ | .decSetParamNullH _ => "svt_av1_dec_set_parameter"
  | .decInit | .decInitNullH => "svt_av1_dec_init"
  | .decFrame | .decFrameNullH | .decFrameNullData | .decFrameNullDataN => "svt_av1_dec_frame"
  | .decGetPicture | .decGetPictureNullH | .decGetPictureNullBuf | .decGetPictureNullInfo => "svt_av1_dec_get_picture"
  | .decDeinit | .decDeinitNullH => "svt_av1_dec_deinit"
  | .decDeinitHandle | .decDeinitHandleNullH => "svt_av1_dec_deinit_handle"
  | .sleep => "-"

def ENC_H : String := "svt_enc_component"
def DEC_H : String := "svt_dec_component"

def orderU {σ : Type} (o : Op) (what : String) (s : σ) : PRes × σ := (.undef (.order (encFn o) what), s)

/-- Encoder calls that reach the pipeline need a running, unpoisoned encoder. -/
def pipelineReady (e : Enc) : Bool := e.phase == .inited

/-- svt_av1_enc_set_parameter with a non-NULL handle and configuration (EbEncHandle.c:3327-3384), protocol part;
    its mutex effect is applied by `step`. -/
def setParamStep (e : Enc) (o : Op) (valid : Bool) : PRes × Enc :=
  -- after enc_init the running pipeline reads the structure that copy_api_from_app overwrites (3342-3344): no check
  if e.phase != .handle then orderU o "after-init" e else
  (if valid then .ok else .err EB_ErrorBadParameter,
   { e with cfg := if valid then .accepted else .rejected, touched := true })

def encStep (T : Tables) (e : Enc) (o : Op) : PRes × Enc :=
  let s := e
  let fn := encFn o
  -- a NULL handle: either the op says so, or the application's variable is still / again NULL
  let withH (k : PRes × Enc) : PRes × Enc :=
    if e.phase == .noHandle then nullArg T fn ENC_H s (.ok, s) else k
  match o with
  | .initHandle =>
    -- EbEncHandle.c:1914-1959: a fresh handle (an older one is simply leaked by the application)
    (.ok, { phase := .handle })
  | .initHandleNull => nullArg T fn "p_handle" s (.ok, s)
  | .initHandleNullCfg =>
    -- 1948-1957: svt_svt_enc_init_parameter(NULL) = BadParameter, the component is freed and *p_handle = NULL
    (.err EB_ErrorBadParameter, { phase := .noHandle })
  | .setParamNullH _ => nullArg T fn ENC_H s (.ok, s)
  | .setParam a => withH (
      match a with
      | .null => nullArg T fn "config_struct" s (.ok, s)
      | .valid => setParamStep e o true
      | .invalid => setParamStep e o false)
  | .encInitNullH => nullArg T fn ENC_H s (.ok, s)
  | .encInit => withH (
      -- 1132-1877: reads scs->static_config and builds the pipeline from it; nothing checks that a configuration was accepted
      if e.phase == .handle then
        if e.cfg == .accepted then (.ok, { e with phase := .inited, sent := 0, eos := false, recvLo := 0, recvHi := 0,
                                                                   heldLo := 0, heldHi := 0, fuzzy := false, midstream := false })
        else orderU o "without-accepted-config" s
      else if e.phase == .inited then orderU o "twice" s
      else orderU o "after-deinit" s)
  | .streamHeaderNullH => nullArg T fn ENC_H s (.ok, s)
  | .streamHeaderNullOut => withH (nullArg T fn "output_stream_ptr" s (.ok, s))
  | .streamHeader => withH (
      -- 3385-3433: sizes its buffer from scs->max_input_luma_width/height as last copied in
      if e.cfg == .rejected then orderU o "rejected-config" s
      else (.ok, { e with hasHdr := true }))
  | .streamHeaderReleaseNull => nullArg T fn "stream_header_ptr" s (.ok, s)
  | .streamHeaderRelease =>
      if e.hasHdr then (.ok, { e with hasHdr := false })
      else nullArg T fn "stream_header_ptr" s (.ok, s)
  | .sendNullH => nullArg T fn ENC_H s (.ok, s)
  | .send _ | .sendEos | .sendNull => withH (
      -- 3670-3696: svt_get_empty_object(enc_handle_ptr->input_buffer_producer_fifo_ptr): the fifo exists only after enc_init
      if e.phase == .handle then orderU o "before-init" s
      else if e.phase == .deinited then orderU o "after-deinit" s
      else if e.eos then orderU o "after-eos" s
      else match o with
        | .send k =>
          if e.sent + k - e.recvLo > maxInFlight then orderU o "backpressure" s
          else (.ok, { e with sent := e.sent + k })
        | .sendEos => (.ok, { e with eos := true })
        | _ => nullArg T fn "p_buffer" s (.ok, { e with fuzzy := true }))
  | .getPacketNullH => nullArg T fn ENC_H s (.ok, s)
  | .getPacketNullOut => withH (nullArg T fn "p_buffer" s (.ok, s))
  | .getPacket blocking => withH (
      -- 3728-3759: enc_handle->output_stream_buffer_consumer_fifo_ptr exists only after enc_init
      if e.phase == .handle then orderU o "before-init" s
      else if e.phase == .deinited then (if blocking then (.mayBlock, s) else orderU o "after-deinit" s)
      else if blocking then
        if e.eos && !e.fuzzy && e.recvHi < e.sent then
          (.ok, { e with recvLo := e.recvLo + 1, recvHi := e.recvHi + 1, heldLo := e.heldLo + 1, heldHi := e.heldHi + 1 })
        else (.mayBlock, s)
      else if e.fuzzy || e.recvLo < e.sent then
        (.oneOf [EB_ErrorNone, EB_NoErrorEmptyQueue], { e with recvHi := e.recvHi + 1, heldHi := e.heldHi + 1 })
      else (.err EB_NoErrorEmptyQueue, s))
  | .drain => withH (
      if e.phase == .handle then orderU o "before-init" s
      else if e.phase == .deinited then (.mayBlock, s)          -- the blocking wait on a pipeline that was shut down
      else if e.eos && !e.fuzzy && e.recvHi < e.sent then
        (.ok, { e with recvLo := e.sent, recvHi := e.sent })
      else (.mayBlock, s))
  | .releaseNull => nullArg T fn "p_buffer" s (.ok, s)
  | .releaseNullP => nullArg T fn "*p_buffer" s (.ok, s)
  | .releaseOut =>
      -- 3761-3772: the harness passes the most recent packet it holds, or a NULL `*p_buffer` when it holds none
      if e.heldLo ≥ 1 && e.phase == .inited then
        (.ok, { e with heldLo := e.heldLo - 1, heldHi := e.heldHi - 1 })
      else if e.heldHi ≥ 1 && e.phase == .inited then
        nullArg T fn "*p_buffer" s (.ok, { e with heldHi := e.heldHi - 1 })
      else if e.heldHi ≥ 1 then orderU o "after-deinit" s
      else nullArg T fn "*p_buffer" s (.ok, s)
  | .getReconNullH => nullArg T fn ENC_H s (.ok, s)
  | .getReconNullBuf => withH (nullArg T fn "p_buffer" s (.ok, s))
  | .getRecon => withH (
      -- 3777-3812: recon_enabled is read from the configuration last copied in; the fifo exists only after enc_init
      if e.phase == .inited then (.oneOf [EB_ErrorNone, EB_NoErrorEmptyQueue, EB_ErrorMax], s)
      else if e.phase == .deinited then orderU o "after-deinit" s
      else if e.touched then orderU o "before-init" s
      else (.err EB_ErrorMax, s))
  | .getStreamInfoNullH => nullArg T fn ENC_H s (.ok, s)
  | .getStreamInfoNullInfo => withH (nullArg T fn "info" s (.ok, s))
  | .getStreamInfoBadId => (.err EB_ErrorBadParameter, s)          -- 4052-4054, before anything is touched
  | .getStreamInfo => withH (.ok, s)
  | .eosNal | .eosNalNullH => (.ok, s)                                -- 3449-3457: does nothing
  | .deinitNullH => nullArg T fn ENC_H s (.ok, s)
  | .deinit => withH (
      -- 1879-1905: shuts the kernels' input queues down; NULL resource pointers (before enc_init) are skipped
      if e.phase == .inited then
        (.ok, { e with phase := .deinited,
                                        midstream := e.fuzzy || e.recvLo < e.sent || e.heldHi > 0 || (!e.eos && e.sent > 0) })
      else (.ok, s))
  | .deinitHandleNullH => nullArg T fn ENC_H s (.ok, s)
  | .deinitHandle => withH (
      -- 1973-1989: EB_DELETE(handle) joins every kernel thread; they only exit after svt_av1_enc_deinit
      if e.phase == .inited then orderU o "without-deinit" s
      else if e.phase == .deinited && e.midstream then orderU o "teardown-midstream" s
      else (.ok, { phase := .noHandle }))
  | _ => (.ok, s)

def decStep (T : Tables) (d : Dec) (o : Op) : PRes × Dec :=
  let s := d
  let fn := encFn o
  let withH (k : PRes × Dec) : PRes × Dec :=
    if d.phase == .noHandle then nullArg T fn DEC_H s (.ok, s) else k
  match o with
  | .decInitHandle => (.ok, { phase := .handle, everDeinit := d.everDeinit })                 -- EbDecHandle.c:481-514
  | .decInitHandleNull => nullArg T fn "p_handle" s (.ok, s)
  | .decInitHandleNullCfg =>
    -- 489-513: the handle is created first; svt_svt_dec_set_default_parameter(NULL) then returns BadParameter and the handle stays
    (.err EB_ErrorBadParameter, { phase := .handle, everDeinit := d.everDeinit })
  | .decSetParamNullH _ => nullArg T fn DEC_H s (.ok, s)
  | .decSetParam isNull => withH (
      if isNull then nullArg T fn "config_struct" s (.ok, s)
      else if d.phase == .deinited then orderU o "after-deinit" s
      else (.ok, { d with cfgSet := true }))                       -- 516-527
  | .decInitNullH => nullArg T fn DEC_H s (.ok, s)
  | .decInit => withH (
      -- 529-573: dec_mem_init sizes everything from dec_config as it happens to be
      if d.phase == .handle then
        -- svt_dec_memory_map / memory_map_index are process globals that svt_av1_dec_deinit leaves dangling: a later
        -- svt_av1_dec_init (same or new handle) builds on them
        if d.everDeinit then orderU o "after-deinit" s
        else if d.cfgSet then (.ok, { d with phase := .inited, fed := 0 })
        else orderU o "before-set_parameter" s
      else if d.phase == .inited then orderU o "twice" s
      else orderU o "after-deinit" s)
  | .decFrameNullH => nullArg T fn DEC_H s (.ok, s)
  | .decFrameNullData | .decFrameNullDataN => withH (
      if d.phase == .inited then nullArg T fn "data" s (.ok, s)
      else if d.phase == .handle then orderU o "before-init" s else orderU o "after-deinit" s)
  | .decFrame => withH (
      -- 575-618: uses the frame buffers and the parse context that only svt_av1_dec_init allocates
      if d.phase == .inited then (.ok, { d with fed := d.fed + 1 })
      else if d.phase == .handle then orderU o "before-init" s else orderU o "after-deinit" s)
  | .decGetPictureNullH => nullArg T fn DEC_H s (.ok, s)
  | .decGetPicture | .decGetPictureNullInfo | .decGetPictureNullBuf => withH (
      if d.phase == .handle then orderU o "before-init" s
      else if d.phase == .deinited then orderU o "after-deinit" s
      else
        let normal : PRes × Dec := if d.fed == 0 then (.err EB_DecNoOutputPicture, s) else (.oneOf [EB_ErrorNone, EB_DecNoOutputPicture], s)
        match o with
        | .decGetPictureNullBuf => nullArg T fn "p_buffer" s normal
        | .decGetPictureNullInfo => nullArg T fn "stream_info" s (nullArg T fn "frame_info" s normal)
        | _ => normal)
  | .decDeinitNullH => nullArg T fn DEC_H s (.ok, s)
  | .decDeinit => withH (
      -- 638-674: walks the global svt_dec_memory_map, freeing every entry down to memory_map_init_address, then frees that one:
      -- before the first decoded frame the map holds only the initial entry, which is then freed twice (668 and 672)
      if d.phase == .inited then
        if d.fed == 0 then orderU o "before-first-frame" s else (.ok, { d with phase := .deinited, everDeinit := true })
      else if d.phase == .handle then orderU o "before-init" s else orderU o "twice" s)
  | .decDeinitHandleNullH => nullArg T fn DEC_H s (.ok, s)
  | .decDeinitHandle => withH (.ok, { phase := .noHandle, everDeinit := d.everDeinit })       -- 689-699
  | _ => (.ok, s)

def Op.isDec : Op → Bool
  | .decInitHandle | .decInitHandleNull | .decInitHandleNullCfg | .decSetParam _ | .decSetParamNullH _ | .decInit | .decInitNullH
  | .decFrame | .decFrameNullH | .decFrameNullData | .decFrameNullDataN | .decGetPicture | .decGetPictureNullH | .decGetPictureNullBuf
  | .decGetPictureNullInfo | .decDeinit | .decDeinitNullH | .decDeinitHandle | .decDeinitHandleNullH => true
  | _ => false

/-- Calls whose mutex events are applied: set_parameter with a non-NULL handle and configuration on a handle that is
    not yet initialised (the only API function with mutex events in the generated lock table). -/
def lockCodes (e : Enc) (o : Op) : Option (List (Option Nat)) :=
  if e.phase != .handle then none else
  match o with
  | .setParam .valid => some [none, some EB_ErrorNone]
  | .setParam .invalid => some [some EB_ErrorBadParameter]
  | _ => none

/-- Mutex outcome of the call: `inl m` = blocks on `m`; `inr h` = returns with `h` held. -/
def lockResult (T : Tables) (s : St) (o : Op) : Sum String (List String) :=
  match lockCodes s.enc o with
  | some codes => lockEffect T (encFn o) ENC_H codes s.held
  | none => .inr s.held

def step (T : Tables) (s : St) (o : Op) : Res × St :=
  if o == .sleep then (.ok, s)
  else if o.isDec then
    ((decStep T s.dec o).1.toRes, { s with dec := (decStep T s.dec o).2 })
  else
    match lockResult T s o with
    | .inl m => (.blocked m, s)
    | .inr h =>
      -- a fresh handle comes with its own (free) mutex
      ((encStep T s.enc o).1.toRes,
       { s with enc := (encStep T s.enc o).2, held := if o == .initHandle || o == .initHandleNullCfg then [] else h })

/-! ## 3. Sequences -/

/-- Predicted classes of a call sequence; after a call that is not predicted to return normally the rest is `skipped`. -/
def runFrom (T : Tables) (s : St) : List Op → List Res × St
  | [] => ([], s)
  | o :: os =>
    let (r, s') := step T s o
    if r.continues then
      let (rs, s'') := runFrom T s' os
      (r :: rs, s'')
    else (r :: os.map (fun _ => .skipped), s')

def run (T : Tables) (ops : List Op) : List Res := (runFrom T {} ops).1

def finalState (T : Tables) (ops : List Op) : St := (runFrom T {} ops).2

end ApiProto
