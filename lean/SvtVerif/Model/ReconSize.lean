/-
  C11 (b) — size of the reconstruction output buffer versus what `recon_output` writes into it.

  * allocation: `svt_output_recon_buffer_header_creator` (Source/Lib/Encoder/Globals/EbEncHandle.c:4015-4043)
  * filling:    `recon_output` (Source/Lib/Encoder/Codec/EbEncDecProcess.c:414-575): three planes, each
                `CHECK_REPORT_ERROR(n_filled_len + sample_total_count <= n_alloc_len)`; `picture_copy_kernel`
                (Source/Lib/Common/C_DEFAULT/EbPictureOperators_C.c:42-58); `n_filled_len += sample_total_count`.
  `uint32_t` objects are `wrapU 32`; `int` intermediates are exact (their range on accepted sizes is a theorem).
  Core Lean only.
-/
import SvtVerif.CSem

namespace ReconSize
open CSem

/-- `ten_bit` / `is_16bit`: `encoder_bit_depth > 8` (EbEncHandle.c:4026, EbEncDecProcess.c:422). -/
def is16 (bitDepth : Int) : Nat := if bitDepth > 8 then 1 else 0

/-- EbEncHandle.c:4021-4027, 4037-4039: `n_alloc_len` of every recon output buffer.
    ```
    const uint32_t luma_size   = seq_header.max_frame_width * seq_header.max_frame_height;
    const uint32_t chroma_size = luma_size >> 1;                      // both u and v
    const uint32_t ten_bit     = (static_config.encoder_bit_depth > 8);
    const uint32_t frame_size  = (luma_size + chroma_size) << ten_bit;
    ``` -/
def reconAlloc (maxFrameW maxFrameH bitDepth : Int) : Int :=
  let luma := wrapU 32 (maxFrameW * maxFrameH)
  let chroma := luma / 2
  wrapU 32 ((luma + chroma) * 2 ^ is16 bitDepth)

/-- The three `sample_total_count` values (uint32_t) of EbEncDecProcess.c:490-492, 515-518, 540-543.
    `maxW/maxH` = `recon_ptr->max_width/max_height`, `padR/padB` = `scs_ptr->max_input_pad_right/bottom`.
    ```
    sample_total_count = ((max_width - pad_right) * (max_height - pad_bottom)) << is_16bit;          // Y
    sample_total_count = ((max_width - pad_right) * (max_height - pad_bottom) >> 2) << is_16bit;     // U, V
    ``` -/
def reconIncs (maxW maxH padR padB bitDepth : Int) : List Int :=
  let area := (maxW - padR) * (maxH - padB)
  let y := wrapU 32 (area * 2 ^ is16 bitDepth)
  let c := wrapU 32 (area / 4 * 2 ^ is16 bitDepth)
  [y, c, c]

/-- `n_filled_len` before each plane's check (starts at 0, l.438; `+=` on uint32_t, l.512/537/563) and after the last. -/
def filledAfter : Int → List Int → List Int
  | _, [] => []
  | acc, x :: xs => wrapU 32 (acc + x) :: filledAfter (wrapU 32 (acc + x)) xs

/-- The condition each `CHECK_REPORT_ERROR` tests (l.498, 524, 549): `n_filled_len + sample_total_count <= n_alloc_len`
    (uint32_t arithmetic), for every plane in order. -/
def checksPass (alloc : Int) : Int → List Int → Bool
  | _, [] => true
  | acc, x :: xs => decide (wrapU 32 (acc + x) ≤ alloc) && checksPass alloc (wrapU 32 (acc + x)) xs

/-- Bytes `picture_copy_kernel` writes, counted from `dst`: the loop runs while `sample_count < area_width*area_height`,
    advancing `dst` by `dst_stride*bytes_per_sample` and writing `area_width*bytes_per_sample` bytes each time
    (EbPictureOperators_C.c:46-57). One past the highest byte written (0 if nothing is written). -/
def copyExtent (dstStride areaW areaH bps : Int) : Int :=
  if areaW ≤ 0 ∨ areaH ≤ 0 then 0 else (areaH - 1) * (dstStride * bps) + areaW * bps

/-- Extents of the three copies of `recon_output` relative to the start of their plane (l.504-510, 530-536, 556-562):
    `dst_stride = max_width - max_input_pad_right`, area `(width - pad_right) x (height - pad_bottom)`, chroma halved. -/
def reconCopyExtents (maxW padR width height padRight padBottom bitDepth : Int) : List Int :=
  let bps : Int := 2 ^ is16 bitDepth
  [ copyExtent (maxW - padR) (width - padRight) (height - padBottom) bps,
    copyExtent ((maxW - padR) / 2) ((width - padRight) / 2) ((height - padBottom) / 2) bps,
    copyExtent ((maxW - padR) / 2) ((width - padRight) / 2) ((height - padBottom) / 2) bps ]

end ReconSize
