/-
  C18 model — the tail of `rate_control_kernel` (case RC_PICTURE_MANAGER_RESULT) that assigns
  `frm_hdr->quantization_params.base_q_idx` and `pcs_ptr->picture_qp`, and the recode-loop clamp.

  Transcribed from /repo (line numbers of the pinned commit):
    * `quantizer_to_qindex`                 Source/Lib/Encoder/Codec/EbModeDecisionProcess.h:632-636 (GENERATED: Gen/QTable.lean)
    * `CLIP3`                               Source/Lib/Common/Codec/EbUtility.h:171-172
    * `rcTail`                              Source/Lib/Encoder/Codec/EbRateControlProcess.c:7322-7478
    * `recodeClamp`                         Source/Lib/Encoder/Codec/EbEncDecProcess.c:4237-4249
    * `effCfg`                              Source/Lib/Encoder/Globals/EbEncHandle.c:2190, 2207-2214, 2341-2347 (copy_api_from_app)
    * `initPicQp`                           Source/Lib/Encoder/Codec/EbResourceCoordinationProcess.c:1047-1057

  Everything upstream of the tail (the value returned by `cqp_qindex_calc*` / `rc_pick_q_and_bounds` /
  `find_fp_qindex`, and the `picture_qp` left by `frame_level_rc_input_picture_{vbr,cvbr}` +
  `rate_control_refinement`) is an ARBITRARY input.  All C conversions are explicit (`CSem.wrap*`).
  Core Lean only.
-/
import SvtVerif.CSem
import SvtVerif.Gen.QTable

namespace QpTail
open CSem

/-- `quantizer_to_qindex[i]`; an out-of-range index is an out-of-bounds read in C (UB) and is modelled as 0. -/
def q2q (i : Int) : Int :=
  if i < 0 then 0 else ((Gen.QTable.quantizerToQindex.getD i.toNat 0 : Nat) : Int)

/-- Inputs of one evaluation of the tail, in the driver's field order. C type in brackets. -/
structure RcIn where
  rcMode            : Int  -- scs->static_config.rate_control_mode            [uint32]
  fixedOffsets      : Int  -- scs->static_config.use_fixed_qindex_offsets     [EbBool = uint8]
  qpScaling         : Int  -- scs->static_config.enable_qp_scaling_flag       [uint32]
  onTheFly          : Int  -- pcs->parent_pcs_ptr->qp_on_the_fly              [EbBool]
  twoPass           : Int  -- use_input_stat(scs) || scs->lap_enabled         [0/1]
  minQp             : Int  -- scs->static_config.min_qp_allowed               [uint32]
  maxQp             : Int  -- scs->static_config.max_qp_allowed               [uint32]
  qp                : Int  -- scs->static_config.qp                           [uint32]
  picQp             : Int  -- pcs->picture_qp on entry                        [uint8]
  parentPicQp       : Int  -- pcs->parent_pcs_ptr->picture_qp on entry        [uint8]
  intraOnly         : Int  -- frame_is_intra_only(pcs->parent_pcs_ptr)        [0/1]
  layerOffset       : Int  -- qindex_offsets[pcs->temporal_layer_index]       [int32]
  keyOffset         : Int  -- key_frame_qindex_offset                         [int32]
  chromaLayerOffset : Int  -- chroma_qindex_offsets[pcs->temporal_layer_index][int32]
  keyChromaOffset   : Int  -- key_frame_chroma_qindex_offset                  [int32]
  newQindex         : Int  -- UPSTREAM: `new_qindex` at line 7400 / 7440      [int32]
  rcPicQp           : Int  -- UPSTREAM: pcs->picture_qp just before line 7471 in 1-pass VBR / CVBR [uint8]
deriving Repr, DecidableEq

/-- Outputs. `branch`: 0 plain CQP (no assignment after line 7325), 1 fixed qindex offsets, 2 CQP + QP scaling,
    3 qp-on-the-fly, 4 VBR with 2-pass/LAP stats, 5 VBR 1-pass, 6 CVBR, 7 any other non-zero mode. -/
structure RcOut where
  branch      : Nat
  baseQIdx    : Int   -- frm_hdr->quantization_params.base_q_idx after line 7478 [uint8]
  pictureQp   : Int   -- pcs->picture_qp == pcs->parent_pcs_ptr->picture_qp after line 7478 [uint8]
  chromaSet   : Bool  -- delta_q_{dc,ac}[1..2] were assigned (branch 1 only)
  chromaDelta : Int   -- their value [int8]
deriving Repr, DecidableEq

/-- lines 7353-7355 / 7405-7408 / 7445-7448 / EbEncDecProcess.c:4245-4248:
    `(uint8_t)CLIP3((int32_t)min, (int32_t)max, (base_q_idx + 2) >> 2)` -/
def qpFromQidx (minQp maxQp base : Int) : Int :=
  wrapU8 (clip3 (wrapI32 minQp) (wrapI32 maxQp) (shr (base + 2) 2))

/-- lines 7400-7403 / 7440-7443 / EbEncDecProcess.c:4240-4243:
    `(uint8_t)CLIP3((int32_t)q2q[min], (int32_t)q2q[max], (int32_t)q)` -/
def clampQidx (minQp maxQp q : Int) : Int :=
  wrapU8 (clip3 (q2q minQp) (q2q maxQp) (wrapI32 q))

def rcTail (i : RcIn) : RcOut :=
  -- normalise every field to its C type
  let rcMode := wrapU32 i.rcMode
  let minQp := wrapU32 i.minQp
  let maxQp := wrapU32 i.maxQp
  let qp := wrapU32 i.qp
  let picQp := wrapU8 i.picQp
  let parentPicQp := wrapU8 i.parentPicQp
  if rcMode = 0 then
    -- 7325: base_q_idx = quantizer_to_qindex[pcs->picture_qp]
    let base0 := q2q picQp
    if wrapU8 i.fixedOffsets = 1 then
      -- 7328-7355
      -- 7329: picture_qp = static_config.qp (uint32 -> uint8); dead store, overwritten at 7352
      let qindex0 := q2q (wrapU8 qp)                                         -- 7330
      let qindex1 := if i.intraOnly = 0 then wrapI32 (qindex0 + wrapI32 i.layerOffset)  -- 7331-7332
                     else wrapI32 (qindex0 + wrapI32 i.keyOffset)            -- 7334
      let qindex := clip3 (q2q minQp) (q2q maxQp) qindex1                    -- 7336-7337
      let chroma1 := if i.intraOnly ≠ 0 then wrapI32 (qindex + wrapI32 i.keyChromaOffset)   -- 7339-7340
                     else wrapI32 (qindex + wrapI32 i.chromaLayerOffset)     -- 7342
      let chroma := clip3 (q2q minQp) (q2q maxQp) chroma1                    -- 7345-7346
      let base := wrapU8 qindex                                              -- 7347 (int32 -> uint8)
      let cd := wrapI8 (chroma - qindex)                                     -- 7348-7351 (int -> int8)
      let pq := qpFromQidx minQp maxQp base                                  -- 7352-7355
      { branch := 1, baseQIdx := base, pictureQp := pq, chromaSet := true, chromaDelta := cd }
    else if wrapU32 i.qpScaling ≠ 0 ∧ wrapU8 i.onTheFly = 0 then
      -- 7370-7409; new_qindex is whatever 7379 / 7393 / 7395 / 7397 returned
      let base := clampQidx minQp maxQp i.newQindex                          -- 7400-7403
      let pq := qpFromQidx minQp maxQp base                                  -- 7405-7408
      { branch := 2, baseQIdx := base, pictureQp := pq, chromaSet := false, chromaDelta := 0 }
    else if wrapU8 i.onTheFly = 1 then
      -- 7410-7417
      let pq := wrapU8 (clip3 (wrapI32 minQp) (wrapI32 maxQp) parentPicQp)   -- 7411-7414
      { branch := 3, baseQIdx := q2q pq, pictureQp := pq, chromaSet := false, chromaDelta := 0 }  -- 7415-7416
    else
      { branch := 0, baseQIdx := base0, pictureQp := picQp, chromaSet := false, chromaDelta := 0 }
  else
    -- 7421-7476
    let (br, pq0) :=
      if rcMode = 1 then
        if i.twoPass ≠ 0 then
          -- 7424-7449
          let base := clampQidx minQp maxQp i.newQindex                      -- 7440-7443
          (4, qpFromQidx minQp maxQp base)                                   -- 7445-7448
        else (5, wrapU8 i.rcPicQp)                                           -- 7451-7462
      else if rcMode = 2 then (6, wrapU8 i.rcPicQp)                          -- 7465-7469
      else (7, picQp)
    -- 7471-7473: (uint8_t)CLIP3(min (uint32), max (uint32), picture_qp (uint8 -> int -> uint32))
    let pq := wrapU8 (clip3 minQp maxQp (wrapU32 pq0))
    { branch := br, baseQIdx := q2q pq, pictureQp := pq, chromaSet := false, chromaDelta := 0 }  -- 7475

/-- `recode_loop_decision_maker`, the `*do_recode` branch, EbEncDecProcess.c:4237-4249:
    `q` is the value left by `recode_loop_update_q` (arbitrary int). Returns (base_q_idx, picture_qp). -/
def recodeClamp (minQp maxQp q : Int) : Int × Int :=
  let minQp := wrapU32 minQp
  let maxQp := wrapU32 maxQp
  let base := clampQidx minQp maxQp q                                        -- 4240-4243
  (base, qpFromQidx minQp maxQp base)                                        -- 4245-4249

/-- The part of `copy_api_from_app` that produces the *effective* settings the tail sees
    (EbEncHandle.c:2190, 2207-2214, 2331, 2341-2347, 2405). Returns
    (min_qp_allowed, max_qp_allowed, enable_qp_scaling_flag, use_qp_file). -/
structure ApiCfg where
  rcMode       : Int
  minQp        : Int
  maxQp        : Int
  fixedOffsets : Int
  useQpFile    : Int
deriving Repr, DecidableEq

structure EffCfg where
  minQp     : Int
  maxQp     : Int
  qpScaling : Int
  useQpFile : Int
deriving Repr, DecidableEq

def effCfg (c : ApiCfg) : EffCfg :=
  let fixed := wrapU8 c.fixedOffsets = 1
  { minQp := if wrapU32 c.rcMode ≠ 0 then wrapU32 c.minQp else 1       -- 2345-2347
    maxQp := if wrapU32 c.rcMode ≠ 0 then wrapU32 c.maxQp else 63      -- 2341-2343
    qpScaling := if fixed then 0 else 1                                 -- 2190, 2212-2213
    useQpFile := if fixed then 0 else wrapU8 c.useQpFile }              -- 2207, 2214

/-- EbResourceCoordinationProcess.c:1047-1057: (qp_on_the_fly, picture_qp) handed to the tail,
    from `use_qp_file`, the per-picture `input_ptr->qp` (uint32) and `static_config.qp`. `MAX_QP_VALUE = 63`. -/
def initPicQp (useQpFile inputQp qp : Int) : Int × Int :=
  if wrapU8 useQpFile = 1 then
    ((if wrapU32 inputQp > 63 then 0 else 1), wrapU8 (wrapU32 inputQp))
  else (0, wrapU8 (wrapU32 qp))

end QpTail
