/-
  C04 / C27 (part A) — abstract Kahn process network with bounded FIFO channels.

  The encoder is a pipeline of stages connected by FIFO queues (FIFO proved in `Srm`) and in-order reorder
  queues.  Channels are `Nat` indices, messages an arbitrary type `M`.  Each channel `c` has a unique
  producer, described by a function `F c` from channel histories to the COMPLETE sequence the producer writes
  on `c` when the histories it can see are `h`.  Environment inputs are channels whose `F c` is constant
  (the submitted picture sequence); application-facing outputs are ordinary channels whose consumer is the
  application (`svt_av1_enc_get_packet` / `get_recon`).  `cap c` is the bounded queue capacity = pool size
  (back-pressure).

  Core Lean only.  Theorems are in `Lemmas/Kahn.lean`.
-/
namespace Kahn

/-- A history assignment: for every channel the sequence of messages (ever written / consumed so far). -/
abbrev Hist (M : Type) := Nat → List M

/-- An abstract stage network. -/
structure Net (M : Type) where
  /-- `F c h` = the complete sequence channel `c`'s unique producer writes when it has seen histories `h`. -/
  F : Nat → Hist M → List M
  /-- bounded capacity of channel `c` (pool size). -/
  cap : Nat → Nat

/-- Prefix-monotonicity (= Kahn continuity for finite histories): seeing more input can only EXTEND what a
    producer writes, never retract or change it.  A deterministic sequential process with blocking reads that
    never tests a queue for emptiness, never reads a clock, and whose output on `c` depends only on the
    messages it has consumed denotes such a function.  This is exactly hypothesis **H-kahn / H-footprint** of
    C04/C27 (each real encoder stage is such a process); it is kept as an explicit named hypothesis and is NOT
    discharged by the Lean development. -/
def Net.Monotone {M : Type} (N : Net M) : Prop :=
  ∀ c (h h' : Hist M), (∀ c', h c' <+: h' c') → N.F c h <+: N.F c h'

/-- Operational state: `hist c` = everything ever written to `c` (FIFO order), `rd c` = how many messages
    the consumer of `c` has taken so far. -/
structure State (M : Type) where
  hist : Nat → List M
  rd : Nat → Nat

variable {M : Type}

def init : State M := ⟨fun _ => [], fun _ => 0⟩

def upd {α : Type} (f : Nat → α) (c : Nat) (v : α) : Nat → α := fun c' => if c' = c then v else f c'

/-- What the stages have seen: the consumed prefix of every channel. -/
def seen (s : State M) : Hist M := fun c => (s.hist c).take (s.rd c)

/-- `write c` = the producer of `c` posts its next message (for an input channel:
    `svt_av1_enc_send_picture`); `read c` = the consumer of `c` takes the oldest unread message (for an output
    channel: a successful `svt_av1_enc_get_packet`; a poll that finds the queue empty changes nothing and is no
    step). -/
inductive Op
  | write (c : Nat)
  | read (c : Nat)
  deriving DecidableEq, Repr

/-- The producer of `c` has something more to write: `hist c` is a STRICT prefix of `F c (seen s)`. -/
def DataEnabled (N : Net M) (s : State M) (c : Nat) : Prop :=
  s.hist c <+: N.F c (seen s) ∧ (s.hist c).length < (N.F c (seen s)).length

/-- Guards.  A write additionally needs a free slot (occupancy `< cap`): `send_picture` blocks while the
    input pool is exhausted, a stage blocks while its output pool is empty. -/
def Enabled (N : Net M) (s : State M) : Op → Prop
  | .write c => DataEnabled N s c ∧ (s.hist c).length - s.rd c < N.cap c
  | .read c => s.rd c < (s.hist c).length

/-- Effects.  `write c` appends the next element of `F c (seen s)` (see `Lemmas/Kahn.lean`, `write_appends`). -/
def fire (N : Net M) (s : State M) : Op → State M
  | .write c => { s with hist := upd s.hist c ((N.F c (seen s)).take ((s.hist c).length + 1)) }
  | .read c => { s with rd := upd s.rd c (s.rd c + 1) }

/-- Reachable under ANY interleaving: the scheduler (thread scheduling AND the application's pacing of its
    send / poll calls) picks any enabled step. -/
inductive Reachable (N : Net M) : State M → Prop
  | init : Reachable N init
  | step {s : State M} (op : Op) : Reachable N s → Enabled N s op → Reachable N (fire N s op)

/-- The run completed: every producer has written everything its function prescribes for the final
    histories.  (With bounded capacities a schedule may get stuck earlier; such states are not `Complete`.) -/
def Complete (N : Net M) (s : State M) : Prop := ∀ c, s.hist c = N.F c s.hist

/-- `Complete` restricted to the first `n` channels (decidable). -/
def CompleteBelow (N : Net M) (n : Nat) (s : State M) : Prop := ∀ c, c < n → s.hist c = N.F c s.hist

/-- Nothing left to do on the first `n` channels: everything read, no producer has more data. -/
def QuiescentBelow (N : Net M) (n : Nat) (s : State M) : Prop :=
  ∀ c, c < n → (s.rd c = (s.hist c).length ∧ ¬ DataEnabled N s c)

section Exec
variable [DecidableEq M]

instance (N : Net M) (s : State M) (c : Nat) : Decidable (DataEnabled N s c) :=
  inferInstanceAs (Decidable (s.hist c <+: N.F c (seen s) ∧ (s.hist c).length < (N.F c (seen s)).length))

instance (N : Net M) (s : State M) : (op : Op) → Decidable (Enabled N s op)
  | .write c => inferInstanceAs (Decidable (DataEnabled N s c ∧ (s.hist c).length - s.rd c < N.cap c))
  | .read c => inferInstanceAs (Decidable (s.rd c < (s.hist c).length))

instance (N : Net M) (n : Nat) (s : State M) : Decidable (CompleteBelow N n s) :=
  inferInstanceAs (Decidable (∀ c, c < n → s.hist c = N.F c s.hist))

instance (N : Net M) (n : Nat) (s : State M) : Decidable (QuiescentBelow N n s) :=
  inferInstanceAs (Decidable (∀ c, c < n → (s.rd c = (s.hist c).length ∧ ¬ DataEnabled N s c)))

def step (N : Net M) (s : State M) (op : Op) : Option (State M) :=
  if Enabled N s op then some (fire N s op) else none

def run (N : Net M) (s : State M) : List Op → Option (State M)
  | [] => some s
  | op :: ops =>
    match step N s op with
    | some s' => run N s' ops
    | none => none

/-- Observable summary of a run on the first `n` channels, for `decide`d examples:
    (complete?, quiescent?, histories). -/
def summary (N : Net M) (n : Nat) (s : State M) : Bool × Bool × List (List M) :=
  (decide (CompleteBelow N n s), decide (QuiescentBelow N n s), (List.range n).map s.hist)

end Exec

/-! ### Concrete networks for the non-vacuity examples -/

/-- Running sums with accumulator. -/
def scan : Nat → List Nat → List Nat
  | _, [] => []
  | a, x :: xs => (a + x) :: scan (a + x) xs

/-- 3-channel pipeline: channel 0 = input `inp`; channel 1 = stage doubling each number of channel 0;
    channel 2 = stage emitting the running sums of channel 1. -/
def pipeF (inp : List Nat) : Nat → Hist Nat → List Nat
  | 0, _ => inp
  | 1, h => (h 0).map (2 * ·)
  | 2, h => scan 0 (h 1)
  | _, _ => []

def pipe (inp : List Nat) (cap : Nat) : Net Nat := ⟨pipeF inp, fun _ => cap⟩

/-- NOT a Kahn process: the "stage" on channel 1 emits one message whose value depends on whether its input
    had already arrived when it ran (a queue-emptiness test).  As a function of histories it is not
    prefix-monotone. -/
def racyF : Nat → Hist Nat → List Nat
  | 0, _ => [5]
  | 1, h => if (h 0).length = 1 then [7] else [8]
  | _, _ => []

def racy : Net Nat := ⟨racyF, fun _ => 1⟩

/-- Variant of `racy` whose stage remembers the decision it took (it consumes its own output channel), so
    that both outcomes are fixpoints of the history equations. -/
def latchF : Nat → Hist Nat → List Nat
  | 0, _ => [5]
  | 1, h => if h 1 = [8] then [8] else if (h 0).length = 1 then [7] else [8]
  | _, _ => []

def latch : Net Nat := ⟨latchF, fun _ => 1⟩

end Kahn
