/-
  C19 model — the intra-period automaton of `picture_decision_kernel`
  (/repo/Source/Lib/Encoder/Codec/EbPictureDecisionProcess.c, pinned commit).

  Pictures reach this code in DISPLAY order (they leave the picture-decision reorder queue in
  picture_number order, line 4745 `pcs_ptr->picture_number = ++current_input_poc`), so the per-picture
  update below is iterated over picture numbers 0,1,2,…

  Transcribed:
    * arrival flags           EbResourceCoordinationProcess.c:1014-1018  (`idr_flag = initial_picture || pic_type == KEY`,
                                                                          `cra_flag = pic_type == INTRA_ONLY`, `scene_change_flag = FALSE`)
    * scene change            EbPictureDecisionProcess.c:4719-4734       (always FALSE: `scene_change_detection != 0` is rejected
                                                                          by verify_settings, EbEncHandle.c:2706-2709; kept as an input)
    * period test             4765-4783
    * position increment      4800-4809
    * picture type            4899-4938   (I_SLICE  <->  idr_flag || cra_flag, see `isIntra`)
    * I / P,B slice handling  5014-5048   (incl. the reset `if (picture_number == 0) intra_period_position = 0`, 5018-5019)
    * frame_type              1251-1254 (av1_generate_rps_info) / 3574-3576: I_SLICE ? (idr_flag ? KEY_FRAME : INTRA_ONLY_FRAME) : INTER_FRAME

  Ordering assumption made explicit: lines 5014-5048 run when the pre-assignment buffer is flushed, which for
  picture 0 is in the same kernel iteration as its lines 4765-4809 (its idr_flag makes
  `pre_assignment_buffer_intra_count > 0`, line 4812), i.e. before picture 1 reaches line 4765.  The only state
  written by 5014-5048 that the automaton reads is that picture-0 reset, so applying it inside the step is exact.
  Core Lean only.
-/
import SvtVerif.CSem

namespace IntraPeriod
open CSem

structure Cfg where
  P       : Int   -- scs->intra_period_length (int32; -1 = only the first picture is intra; -2 is resolved before this code)
  refresh : Int   -- scs->intra_refresh_type: 1 = CRA_REFRESH, 2 = IDR_REFRESH (EbDefinitions.h:1980-1981)
  rcMode  : Int   -- scs->static_config.rate_control_mode
deriving Repr, DecidableEq

structure PicIn where
  picNum      : Nat    -- pcs->picture_number (line 4745)
  idrIn       : Bool   -- pcs->idr_flag on arrival
  craIn       : Bool   -- pcs->cra_flag on arrival
  sceneChange : Bool   -- pcs->scene_change_flag after 4719-4734
deriving Repr, DecidableEq

structure PicOut where
  idr       : Bool   -- pcs->idr_flag after 5014-5048
  cra       : Bool   -- pcs->cra_flag after 5014-5048
  intra     : Bool   -- slice_type == I_SLICE
  frameType : Nat    -- AV1 frame_type: 0 KEY_FRAME, 1 INTER_FRAME, 2 INTRA_ONLY_FRAME
  posInc    : Nat    -- encode_context_ptr->intra_period_position after line 4803/4808
deriving Repr, DecidableEq

/-- One picture. `pos` = `encode_context_ptr->intra_period_position` (uint32). Returns the new position and the outputs. -/
def step (c : Cfg) (pos : Nat) (p : PicIn) : Nat × PicOut :=
  let pU : Int := wrapU32 c.P                     -- (uint32_t)scs_ptr->intra_period_length
  let atEnd : Bool := ((pos : Int) == pU)
  -- 4728-4730
  let cra0 := if p.sceneChange then true else p.craIn
  let idr0 := p.idrIn
  -- 4765-4783
  let (idr1, cra1) :=
    if c.P = 0 then (idr0, true)                                              -- 4766-4767
    else if c.P ≠ -1 then
      ((if c.refresh ≠ 2 then idr0 else if atEnd then true else idr0),        -- 4777-4782
       (if c.refresh ≠ 1 then cra0 else if atEnd then true else cra0))        -- 4770-4775
    else (idr0, cra0)
  -- 4800-4809 (uint32 increment)
  let posInc : Nat :=
    if wrapU32 c.rcMode ≠ 0 then (if atEnd then 0 else (pos + 1) % 2 ^ 32)                        -- 4803
    else (if atEnd || p.sceneChange then 0 else (pos + 1) % 2 ^ 32)                               -- 4808
  -- 4899-4938: is_pic_cutting_short_ra_mg needs both flags FALSE (-> P_SLICE); the open-GOP CRA case needs
  -- cra_flag (-> I_SLICE); otherwise idr ? I : cra ? I : P/B
  let intra := idr1 || cra1
  -- 5014-5048
  let pos' := if intra && p.picNum == 0 then 0 else posInc                    -- 5018-5019
  let (idr2, cra2) := if intra then (if idr1 then (true, false) else (false, true))   -- 5025-5040
                      else (false, false)                                     -- 5047-5048
  let ft : Nat := if intra then (if idr2 then 0 else 2) else 1                -- 1251-1254
  (pos', { idr := idr2, cra := cra2, intra := intra, frameType := ft, posInc := posInc })

def runPics (c : Cfg) (pos : Nat) : List PicIn → List PicOut
  | [] => []
  | p :: ps => (step c pos p).2 :: runPics c (step c pos p).1 ps

/-- Picture `k` of a stream with no application-forced picture types: only the initial picture arrives with
    `idr_flag` (EbResourceCoordinationProcess.c:1014, `initial_picture`), no scene change. -/
def stdPic (k : Nat) : PicIn := { picNum := k, idrIn := k == 0, craIn := false, sceneChange := false }

/-- The first `n` pictures of a stream, from the initial state `intra_period_position = 0` (EbEncodeContext.c ctor). -/
def run (c : Cfg) (n : Nat) : List PicOut := runPics c 0 ((List.range' 0 n).map stdPic)

end IntraPeriod
