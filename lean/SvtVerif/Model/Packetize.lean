/-
  C03 — model of the tail of `packetization_kernel`
  (`/repo/Source/Lib/Encoder/Codec/EbPacketizationProcess.c`, l.621-912), as the code IS:

    * insert (l.654-683, 828-833): the output buffer of the arriving frame gets `pts`, `dts = pts`,
      `flags = EOS iff terminating_sequence_flag_received && decode_order == terminating_picture_number`,
      `p_app_private = input p_app_private`; the entry `queue[decode_order % D]` gets `show_frame`,
      `has_show_existing`, `is_alt_ref`, `out_meta_data` and the buffer (no occupancy test);
    * drain (l.883-909): `while ((frames = count_frames_in_next_tu()))` { `collect_frames_info`; `encode_tu`;
      EOS flag moved to the show-existing packet; post the TU packet; `pop_undisplayed_frame` +
      `encode_show_existing` + post; `release_frames` };
    * undisplayed stack (l.339-366): `push` drops silently when `count >= REF_FRAMES (8)`, `sort` = qsort with
      `pts_descend`, `pop` takes the last array element (smallest pts) or returns NULL when empty.

  Deliberate idealisation (stated as an assumption of C03, exercised on the real code by harness/packetize.c):
  `pts_descend` returns `(int)(b->pts - a->pts)`; the model sorts by the true order of `pts`.  The two agree
  iff all pts differences among simultaneously pending frames are below 2^31 in magnitude (and pts distinct).

  Core Lean only.
-/
import SvtVerif.CSem

namespace Packetize

/-- One frame as it reaches packetization, in decode order.  `disp` (picture_number, l.815) is only used by the
    specification (`validGop`); the model never reads it. -/
structure Frame where
  disp  : Nat    -- pcs->picture_number (display order / poc)
  pts   : Int    -- input_ptr->pts (l.676)
  shown : Bool   -- frm_hdr->show_frame (l.828)
  hse   : Bool   -- ppcs->has_show_existing (l.829)
  alt   : Bool   -- ppcs->is_alt_ref (l.660)
  priv  : Nat    -- input_ptr->p_app_private (l.683); 0 = NULL
  outMeta : Nat  -- out_meta_data (l.838-840); 0 = NULL (in /repo both source lists are never populated)
deriving Repr, DecidableEq, Inhabited

/-- The fields of an output `EbBufferHeaderType` that C03 talks about (+ ghost `frames`: number of coded
    frames copied into the buffer by `encode_tu`; 0 for a buffer that was never the last frame of a TU). -/
structure Buf where
  pts     : Int
  dts     : Int
  eos     : Bool   -- EB_BUFFERFLAG_EOS
  showExt : Bool   -- EB_BUFFERFLAG_SHOW_EXT
  hasTd   : Bool   -- EB_BUFFERFLAG_HAS_TD
  altFlag : Bool   -- EB_BUFFERFLAG_IS_ALT_REF
  priv    : Nat    -- p_app_private
  frames  : Nat
deriving Repr, DecidableEq, Inhabited

/-- A reorder-queue entry with its output buffer. -/
structure Entry where
  buf   : Buf
  shown : Bool
  hse   : Bool
  alt   : Bool
  outMeta : Nat
deriving Repr, DecidableEq, Inhabited

/-- l.668-683, 828-840. `term` = `terminating_picture_number` once `terminating_sequence_flag_received`. -/
def mkEntry (term : Option Nat) (decodeOrder : Nat) (f : Frame) : Entry :=
  { buf := { pts := f.pts, dts := f.pts, eos := (term == some decodeOrder), showExt := false, hasTd := false,
             altFlag := false, priv := f.priv, frames := 0 },
    shown := f.shown, hse := f.hse, alt := f.alt, outMeta := f.outMeta }

/-! ### undisplayed-frame stack — list head = top of stack = last array element -/

def REF_FRAMES : Nat := 8

/-- `push_undisplayed_frame` l.339-347. -/
def push (stack : List Buf) (b : Buf) : List Buf :=
  if stack.length ≥ REF_FRAMES then stack else b :: stack

def insertByPts (b : Buf) : List Buf → List Buf
  | [] => [b]
  | x :: xs => if b.pts ≤ x.pts then b :: x :: xs else x :: insertByPts b xs

/-- `sort_undisplayed_frame` l.361-366: array descending by pts = top-first ascending by pts. -/
def sortStack : List Buf → List Buf
  | [] => []
  | x :: xs => insertByPts x (sortStack xs)

/-- `pts_descend` (l.331-337) as the code IS: `return (int)(bb->pts - ba->pts);` — the int64 difference converted to `int`
    (qsort comparator: negative = `a` first).  `sortStack` above orders by the TRUE order of pts; `C03.pts_descend_agrees` /
    `C03.pts_descend_truncates` state when the two agree and exhibit the disagreement. -/
def ptsDescendC (aPts bPts : Int) : Int := CSem.wrapI32 (CSem.wrapI64 (bPts - aPts))

/-! ### one temporal unit -/

structure Out where
  stack   : List Buf
  pktsRev : List Buf   -- posted output buffers, newest first
deriving Repr, DecidableEq

/-- `collect_frames_info` l.482-505 on one entry. -/
def collect (e : Entry) : Entry :=
  { e with buf := { e.buf with priv := e.outMeta, altFlag := e.buf.altFlag || e.alt } }

/-- l.884-907 once the TU is known: `last` is entry `frames-1` (the shown frame, whose buffer carries the TU),
    `revPre` are entries `frames-2 … 0` in exactly the order `encode_tu` (l.531-542) visits them
    (both already through `collect_frames_info`). -/
def emitCore (st : Out) (last : Entry) (revPre : List Entry) : Out :=
  let eos := last.buf.eos                                              -- l.890
  -- encode_tu l.531-544: i = frames-2 … 0, push unless alt-ref; sort if frames > 1
  let pushed := (revPre.filter (fun e => !e.alt)).map (·.buf)
  let stack1 := pushed.foldl push st.stack
  let stack2 := if revPre.length + 1 > 1 then sortStack stack1 else stack1
  let outBuf : Buf := { last.buf with hasTd := true, frames := revPre.length + 1,   -- l.547-548
                                      eos := if eos && last.hse then false else last.buf.eos }  -- l.894-895
  let pkts := outBuf :: st.pktsRev                                     -- l.897
  if last.hse then                                                     -- l.898
    match stack2 with
    | [] => { stack := [], pktsRev := pkts }                           -- pop returned NULL (l.351-354)
    | b :: rest =>
      { stack := rest,
        pktsRev := { b with showExt := true, hasTd := true,            -- l.580
                            eos := if eos then true else b.eos } :: pkts }  -- l.903-905
  else { stack := stack2, pktsRev := pkts }

/-- l.884-907 for the TU made of the entries `tu` (queue order, `frames = tu.length ≥ 1`). -/
def emitTU (st : Out) (tu : List Entry) : Out :=
  match (tu.map collect).reverse with
  | [] => st
  | last :: revPre => emitCore st last revPre

/-! ### the reorder queue with TU-granular release -/

structure Q where
  slots     : List (Option Entry)
  headIdx   : Nat
  out       : Out
  clobbered : Bool
deriving Repr

def slotAt (slots : List (Option Entry)) (i : Nat) : Option Entry :=
  match slots[i]? with
  | some x => x
  | none   => none

/-- `count_frames_in_next_tu` l.311-329: `fuel` = remaining iterations of the `do … while (i < D)`. -/
def countFrames (D : Nat) (slots : List (Option Entry)) (headIdx : Nat) : Nat → Nat → Nat
  | 0, i => i
  | fuel + 1, i =>
    match slotAt slots ((headIdx + i) % D) with
    | none => 0
    | some e => if e.shown then i + 1 else countFrames D slots headIdx fuel (i + 1)

/-- the `frames` entries `get_reorder_queue_entry(ctx, 0 … frames-1)`. -/
def takeTU (D : Nat) (slots : List (Option Entry)) (headIdx n : Nat) : List Entry :=
  (List.range n).filterMap (fun i => slotAt slots ((headIdx + i) % D))

/-- `release_frames` l.583-590: wrapper := NULL for entries 0 … frames-1. -/
def releaseSlots (D : Nat) (slots : List (Option Entry)) (headIdx n : Nat) : List (Option Entry) :=
  (List.range n).foldl (fun s i => s.set ((headIdx + i) % D) none) slots

def init (D : Nat) : Q :=
  { slots := List.replicate D none, headIdx := 0, out := { stack := [], pktsRev := [] }, clobbered := false }

def insert (D : Nat) (q : Q) (decodeOrder : Nat) (e : Entry) : Q :=
  { q with slots := q.slots.set (decodeOrder % D) (some e),
           clobbered := q.clobbered || (slotAt q.slots (decodeOrder % D)).isSome }

/-- l.883-909. `fuel` bounds the `while`; `D` iterations always suffice (each releases ≥ 1 entry). -/
def drain (D : Nat) : Nat → Q → Q
  | 0, q => q
  | fuel + 1, q =>
    let n := countFrames D q.slots q.headIdx D 0
    if n = 0 then q else
      drain D fuel { q with slots := releaseSlots D q.slots q.headIdx n,
                            headIdx := (q.headIdx + n) % D,                  -- l.591
                            out := emitTU q.out (takeTU D q.slots q.headIdx n) }

def stepE (D : Nat) (q : Q) (x : Nat × Entry) : Q := drain D D (insert D q x.1 x.2)

def runE (D : Nat) (arrivals : List (Nat × Entry)) : Q := arrivals.foldl (stepE D) (init D)

/-- Arrivals `(decode_order, frame)` in the order they reach the kernel. -/
def runQ (D : Nat) (term : Option Nat) (arrivals : List (Nat × Frame)) : Q :=
  runE D (arrivals.map (fun x => (x.1, mkEntry term x.1 x.2)))

/-- Posted output buffers (packets) in the order they are posted to the application. -/
def packets (q : Q) : List Buf := q.out.pktsRev.reverse

/-! ### sequential reference: frames consumed in decode order, TU after TU (no queue) -/

def seqAux : Out → List Entry → List Entry → Out × List Entry
  | st, cur, [] => (st, cur)
  | st, cur, e :: es =>
    if e.shown then seqAux (emitTU st (cur ++ [e])) [] es else seqAux st (cur ++ [e]) es

/-- frames in decode order paired with their decode_order -/
def indexed (fs : List Frame) : List (Nat × Frame) := (List.range fs.length).zip fs

def entriesOf (term : Option Nat) (fs : List Frame) : List Entry :=
  (indexed fs).map (fun x => mkEntry term x.1 x.2)

/-- Packets produced when the frames `fs` arrive in decode order. -/
def seqOut (es : List Entry) : Out := (seqAux { stack := [], pktsRev := [] } [] es).1

/-! ### specification side: what a well-formed GOP looks like (decidable; checked on real runs) -/

/-- Display-process simulation over decode order.  State: `c` = next display number, `pend` = display numbers
    of decoded-but-not-yet-displayed frames, `room` is checked against `REF_FRAMES`.
    * non-shown alt-ref: nothing (its display number is carried by the overlay, a later shown frame);
    * other non-shown frame: becomes pending (at most 8 pending);
    * shown frame: must be display number `c`; if it has a show-existing, the pending frame displayed next must
      be number `c+1` and be the smallest pending one. -/
def gopStep (st : Option (Nat × List Nat)) (f : Frame) : Option (Nat × List Nat) :=
  match st with
  | none => none
  | some (c, pend) =>
    if !f.shown then
      if f.alt then some (c, pend)
      else if pend.length < REF_FRAMES then some (c, f.disp :: pend) else none
    else if f.disp ≠ c then none
    else if !f.hse then some (c + 1, pend)
    else if (c + 1) ∈ pend ∧ pend.all (fun d => c + 1 ≤ d) then some (c + 2, pend.erase (c + 1))
    else none

def lastShown : List Frame → Bool
  | [] => true
  | [f] => f.shown
  | _ :: fs => lastShown fs

/-- `validGop fs N`: the decode-order list `fs` displays pictures `0, 1, …, N−1` in order, each exactly once,
    nothing is left pending, and the last decoded frame is a shown one. -/
def validGop (fs : List Frame) (N : Nat) : Bool :=
  lastShown fs && (fs.foldl gopStep (some (0, [])) == some (N, []))

/-- No more than `T` consecutive non-shown frames. -/
def hiddenRunsLe (T : Nat) : Nat → List Frame → Bool
  | _, [] => true
  | cur, f :: fs => if f.shown then hiddenRunsLe T 0 fs else decide (cur + 1 ≤ T) && hiddenRunsLe T (cur + 1) fs

end Packetize
