/-
  Model/Unwind.lean — construction / destruction of SVT-AV1 objects under allocation failure (C16, C15).

  What is modelled (Source/Lib/Common/Codec/EbObject.h, EbMalloc.h, EbThreads.h, EbDefinitions.h):

    EB_NEW(pobj, ctor, ...)            EbObject.h:70      calloc (fallible); run ctor; on error
                                                          EB_DELETE_UNCHECKED(pobj) = { if (pobj->dctor) pobj->dctor(pobj);
                                                          free(pobj); pobj = NULL; } and `return err`
    EB_MALLOC* / EB_CALLOC* / EB_ALLOC_PTR_ARRAY / EB_MALLOC_ALIGNED* / EB_CREATE_MUTEX / _SEMAPHORE / _THREAD
                                       EbMalloc.h:75-190  one fallible primitive; on failure the member stays NULL and the
                                                          constructor returns EB_ErrorInsufficientResources at once
    EB_DELETE(p)                       EbObject.h:81      if (p) { if (p->dctor) p->dctor(p); free(p); p = NULL; }
    EB_FREE* / EB_DESTROY_*            EbMalloc.h:98      NULL-tolerant release of one member
    a destructor                       `X_dctor`          a fixed list of releases, possibly dereferencing members
                                                          without a NULL test (`needs`)

  A class (`ClassDef`) is what `xlate/lifecycle.py` extracts from one `X_ctor` / `X_dctor` pair: the events that
  precede the assignment `obj->dctor = X_dctor` in source order (`pre`), whether that assignment exists, the
  events after it (`post`, the alphabet of everything the constructor can do afterwards), and the destructor's
  actions.  Loops and branches of the constructor are NOT part of the table: a run of a constructor is given by a
  `Script`, which may execute the `post` events in any order, any number of times, and stop anywhere (= return
  EB_ErrorNone).  Every real control-flow path of the constructor is one such script, so a statement proved for
  all scripts covers every loop count and every branch decision.

  Objects own their members as a tree; the tree is stored first-child / next-sibling (`Forest`) so that all
  recursion is structural.  The heap is the list of live allocation ids.

  Core Lean only.
-/
namespace Unwind

/-- what kind of resource a fallible primitive creates (documentation only: the semantics is the same) -/
inductive Kind where
  | heap | aligned | mutex | semaphore | thread
  deriving DecidableEq, Repr, Inhabited

/-- one constructor event -/
inductive Ev where
  /-- `EB_MALLOC*(obj->m, ..)`, `EB_CREATE_MUTEX(obj->m)` …: one fallible primitive, result stored in slot `m` -/
  | alloc (m : Nat) (kind : Kind)
  /-- `EB_NEW(obj->m, <class c>_ctor, ..)` -/
  | new (m : Nat) (c : Nat)
  /-- a call that can fail (its error is returned at once) and creates nothing owned by this object -/
  | call
  /-- an unconditional `return <error code>` (e.g. a parameter check) -/
  | failRet
  deriving DecidableEq, Repr, Inhabited

/-- one destructor action: release slot `slot` (if any) with a NULL-tolerant macro; evaluating the action
    dereferences the members `needs` without a NULL test -/
structure Rel where
  slot : Option Nat
  needs : List Nat
  deriving DecidableEq, Repr, Inhabited

structure ClassDef where
  name : String
  /-- events before `obj->dctor = ..` in source order (executed once each, in order) -/
  pre : List Ev
  hasDctor : Bool
  /-- events after the dctor assignment (executed as the script says) -/
  post : List Ev
  rels : List Rel
  /-- number of calls in the constructor whose error code is discarded although the callee can fail by
      allocation (the model propagates every error: for such a class "a failure is reported" is NOT claimed) -/
  swallow : Nat := 0
  deriving Repr, Inhabited

abbrev Table := List ClassDef

def Table.cls (T : Table) (c : Nat) : ClassDef := T.getD c default

/-- owned members, first-child / next-sibling: `node slot id obj kids rest`; `obj = some (c, dset)` when the
    allocation is an object of class `c` whose `dctor` field is set (`dset`) and whose members are `kids` -/
inductive Forest where
  | nil
  | node (slot id : Nat) (obj : Option (Nat × Bool)) (kids rest : Forest)
  deriving Repr, Inhabited

/-- a run of a constructor: `ev i sub next` executes `post[i]` (a nested `EB_NEW` runs the nested
    constructor under `sub`), then continues with `next`; `stop` (or an index out of range) returns EB_ErrorNone -/
inductive Script where
  | stop
  | ev (i : Nat) (sub next : Script)
  deriving Repr, Inhabited

/-- allocation ids of a forest, newest first (the order in which they sit on the heap list) -/
def Forest.ids : Forest → List Nat
  | .nil => []
  | .node _ id _ kids rest => kids.ids ++ id :: rest.ids

def Forest.hasSlot (s : Nat) : Forest → Bool
  | .nil => false
  | .node m _ _ _ rest => m == s || rest.hasSlot s

def ClassDef.releases (cd : ClassDef) (m : Nat) : Bool :=
  cd.rels.any (fun r => r.slot == some m)

/-- ids that are still allocated after the destructor of class `c` has run over the members `f` and the
    objects it deletes have been freed (`EB_DELETE` runs the member's own destructor when its `dctor` is set;
    a member the destructor does not release stays allocated with everything below it) -/
def remain (T : Table) : Nat → Forest → List Nat
  | _, .nil => []
  | c, .node m id obj kids rest =>
    (if (T.cls c).releases m then
       match obj with
       | none => []
       | some (d, dset) => if dset then remain T d kids else kids.ids
     else kids.ids ++ [id]) ++ remain T c rest

/-- some destructor action of `cd` dereferences a member that is NULL in `f` -/
def needsMissing (cd : ClassDef) (f : Forest) : Bool :=
  cd.rels.any (fun r => r.needs.any (fun s => !f.hasSlot s))

/-- a destructor run for a member object deleted by class `c`'s destructor dereferences NULL -/
def nestedCrash (T : Table) : Nat → Forest → Bool
  | _, .nil => false
  | c, .node m _ obj kids rest =>
    ((T.cls c).releases m &&
      (match obj with
       | some (d, true) => needsMissing (T.cls d) kids || nestedCrash T d kids
       | _ => false)) || nestedCrash T c rest

/-- running the destructor of class `c` over the members `f` dereferences a NULL member somewhere -/
def crashes (T : Table) (c : Nat) (f : Forest) : Bool :=
  needsMissing (T.cls c) f || nestedCrash T c f

/-- machine state -/
structure St where
  /-- fallible primitives executed so far: the one executed when `cnt = k` is "the k-th site" -/
  cnt : Nat
  nextId : Nat
  /-- live allocations, newest first -/
  heap : List Nat
  crashed : Bool
  /-- a counted primitive was made to fail -/
  fired : Bool
  deriving Repr, Inhabited

def St.init : St := ⟨0, 0, [], false, false⟩

/-- count one fallible primitive -/
def St.tick (st : St) (failed : Bool) : St :=
  { st with cnt := st.cnt + 1, fired := st.fired || failed }

/-- count one fallible primitive that succeeds and allocates id `st.nextId` -/
def St.push (st : St) : St :=
  { st with cnt := st.cnt + 1, nextId := st.nextId + 1, heap := st.nextId :: st.heap }

structure Out where
  ok : Bool
  f : Forest
  st : St
  deriving Repr, Inhabited

/-- `EB_DELETE_UNCHECKED` / `EB_DELETE` on the object `id` of class `d` with members `ck`:
    if its `dctor` is set run it, then `free(pobj)` -/
def deleteObj (T : Table) (d id : Nat) (dset : Bool) (ck : Forest) (st : St) : St :=
  let kept := if dset then remain T d ck else ck.ids
  let freed := id :: ck.ids.filter (fun x => !kept.contains x)
  { st with heap := st.heap.filter (fun x => !freed.contains x),
            crashed := st.crashed || (dset && crashes T d ck) }

/-- the part of a constructor that precedes `obj->dctor = ..` -/
def runPre (fail : Nat → Bool) : List Ev → Forest → St → Out
  | [], f, st => ⟨true, f, st⟩
  | .alloc m _ :: es, f, st =>
    if fail st.cnt then ⟨false, f, st.tick true⟩
    else runPre fail es (.node m st.nextId none .nil f) st.push
  | .failRet :: _, f, st => ⟨false, f, st⟩
  | _ :: es, f, st =>   -- `call` (and `new`, which the translator never emits before the dctor assignment)
    if fail st.cnt then ⟨false, f, st.tick true⟩ else runPre fail es f (st.tick false)

/-- what `EB_NEW(.., <class d>_ctor, ..)` does after its calloc returned the object `id`:
    run the constructor (`pre`, then the scripted part `run`); on error delete the object.
    `some ck` = constructed with members `ck`. -/
def newBody (T : Table) (fail : Nat → Bool) (d id : Nat) (run : Forest → St → Out) (st1 : St) :
    Option Forest × St :=
  let cd := T.cls d
  let p := runPre fail cd.pre .nil st1
  if p.ok then
    let r := run p.f p.st
    if r.ok then (some r.f, r.st) else (none, deleteObj T d id cd.hasDctor r.f r.st)
  else (none, deleteObj T d id false p.f p.st)

/-- the scripted part of the constructor of class `c`, members so far `f` -/
def runScript (T : Table) (fail : Nat → Bool) : Nat → Script → Forest → St → Out
  | _, .stop, f, st => ⟨true, f, st⟩
  | c, .ev i sub next, f, st =>
    match (T.cls c).post[i]? with
    | none => ⟨true, f, st⟩
    | some (.alloc m _) =>
      if fail st.cnt then ⟨false, f, st.tick true⟩
      else runScript T fail c next (.node m st.nextId none .nil f) st.push
    | some .call =>
      if fail st.cnt then ⟨false, f, st.tick true⟩ else runScript T fail c next f (st.tick false)
    | some .failRet => ⟨false, f, st⟩
    | some (.new m d) =>
      if fail st.cnt then ⟨false, f, st.tick true⟩
      else
        match newBody T fail d st.nextId (fun pk s => runScript T fail d sub pk s) st.push with
        | (some ck, st3) => runScript T fail c next (.node m st.nextId (some (d, (T.cls d).hasDctor)) ck f) st3
        | (none, st3) => ⟨false, f, st3⟩

/-- result of `EB_NEW(root, <class c>_ctor, ..)` in a caller -/
structure Result where
  ok : Bool
  /-- the constructed object (one node) or `nil` -/
  root : Forest
  st : St
  deriving Repr, Inhabited

/-- `EB_NEW(root, <class c>_ctor, ..)` from an empty heap, `fail n` = "the n-th counted primitive fails" -/
def construct (T : Table) (fail : Nat → Bool) (c : Nat) (script : Script) : Result :=
  let st := St.init
  if fail st.cnt then ⟨false, .nil, st.tick true⟩
  else
    match newBody T fail c st.nextId (fun pk s => runScript T fail c script pk s) st.push with
    | (some ck, st3) => ⟨true, .node 0 st.nextId (some (c, (T.cls c).hasDctor)) ck .nil, st3⟩
    | (none, st3) => ⟨false, .nil, st3⟩

/-- `EB_DELETE(root)` of what `construct` returned -/
def destroy (T : Table) (r : Result) : St :=
  match r.root with
  | .node _ id (some (c, dset)) ck _ => deleteObj T c id dset ck r.st
  | _ => r.st

def failAt (k : Nat) : Nat → Bool := fun n => n == k
def noFail : Nat → Bool := fun _ => false

/-! ### the per-class obligations (decidable; `Gen/Lifecycle.lean` discharges them with `decide`) -/

def Ev.slot? : Ev → Option Nat
  | .alloc m _ => some m
  | .new m _ => some m
  | _ => none

def Ev.isNew : Ev → Bool
  | .new _ _ => true
  | _ => false

/-- slots the constructor can fill -/
def ClassDef.created (cd : ClassDef) : List Nat := (cd.pre ++ cd.post).filterMap Ev.slot?

/-- `pre` is `(call | failRet)* alloc?`: nothing that can return an error follows the first creation
    while the destructor is not yet registered -/
def preOK : List Ev → Bool
  | [] => true
  | .alloc _ _ :: es => es.isEmpty
  | .new _ _ :: _ => false
  | _ :: es => preOK es

/-- the destructor is registered before anything can go wrong with a member already created;
    a class without destructor creates nothing -/
def ClassDef.dctorFirst (cd : ClassDef) : Bool :=
  preOK cd.pre && (cd.created.isEmpty || cd.hasDctor)

/-- created ⊆ released -/
def ClassDef.covered (cd : ClassDef) : Bool := cd.created.all cd.releases

/-- the destructor never dereferences a member without a NULL test -/
def ClassDef.nullTol (cd : ClassDef) : Bool := cd.rels.all (fun r => r.needs.isEmpty)

def ClassDef.good (cd : ClassDef) : Bool := cd.dctorFirst && cd.covered && cd.nullTol

/-- classes constructed by `EB_NEW` inside class `cd` -/
def ClassDef.news (cd : ClassDef) : List Nat :=
  cd.post.filterMap (fun e => match e with | .new _ d => some d | _ => none)

/-- `S` is closed under "constructs" and every class in it meets the three obligations -/
def goodSet (T : Table) (S : List Nat) : Bool :=
  S.all (fun c => (T.cls c).good && (T.cls c).news.all (fun d => S.contains d))

/-- the largest good set: start from the locally good classes, drop those constructing a dropped class -/
def refine (T : Table) : Nat → List Nat → List Nat
  | 0, S => S
  | n + 1, S => refine T n (S.filter (fun c => (T.cls c).news.all (fun d => S.contains d)))

def goodClasses (T : Table) : List Nat :=
  refine T T.length ((List.range T.length).filter (fun c => (T.cls c).good))

/-- the good classes none of whose (transitively) constructed classes discards an error code -/
def reportSet (T : Table) (S : List Nat) : Bool :=
  goodSet T S && S.all (fun c => (T.cls c).swallow == 0)

def reportingClasses (T : Table) : List Nat :=
  refine T T.length ((List.range T.length).filter (fun c => (T.cls c).good && (T.cls c).swallow == 0))

/-! ### straight-line scripts (used by the driver, the examples and the witness search) -/

/-- every `post` event once, in source order; nested constructors likewise, `depth` levels deep -/
def straight (T : Table) : Nat → Nat → Script
  | 0, _ => .stop
  | depth + 1, c =>
    let n := (T.cls c).post.length
    (List.range n).foldr (fun i acc =>
      let sub := match (T.cls c).post[i]? with
                 | some (.new _ d) => straight T depth d
                 | _ => .stop
      .ev i sub acc) .stop

/-- a bad outcome of one fault-injected construction: a crash, a leak after the error return, or
    (no fault fired) a leak / crash when the completed object is destroyed -/
def badOutcome (T : Table) (fail : Nat → Bool) (c : Nat) (s : Script) : Bool :=
  let r := construct T fail c s
  if r.ok then
    let st := destroy T r
    r.st.crashed || st.crashed || !st.heap.isEmpty
  else r.st.crashed || !r.st.heap.isEmpty

/-- search a witness `k` (0 = no fault) on the straight-line script: `some k` means
    `badOutcome T (if k = 0 then noFail else failAt (k-1)) c (straight ..)` -/
def findWitness (T : Table) (depth : Nat) (c : Nat) : Option Nat :=
  let s := straight T depth c
  let sites := (construct T noFail c s).st.cnt
  (List.range (sites + 1)).find? (fun k =>
    badOutcome T (if k = 0 then noFail else failAt (k - 1)) c s)

end Unwind
