/-
  C26 — executable model of `psnr_calculations`
  (/repo/Source/Lib/Encoder/Codec/EbEncDecProcess.c l.967-1451), the function that fills
  `parent_pcs_ptr->luma_sse / cb_sse / cr_sse`; they are copied to the output packet in
  EbPacketizationProcess.c l.686-689 when `static_config.stat_report` is set.

  Core Lean only.  Buffers are whole allocations (`Nat → Nat`, index = element offset from the start of
  the allocation, value = the stored unsigned sample); pointers are element offsets; the C loops are
  transcribed one to one (explicit loop condition, pointer bumping by the stride after every row,
  `uint64_t` accumulation with an explicit `% 2^64`, the `(int64_t)SQR(..)` term with explicit `wrapS 64`,
  and the final `(uint32_t)` truncation).

  What is modelled: the 8-bit path (l.973-1084) and the unpacked 16-bit path (`ten_bit_format != 1`,
  l.1320-1449).  Not modelled: the `ten_bit_format == 1` superblock-packed path (l.1103-1319; see the
  note at the end) and `EB_FREE_ARRAY` of the saved buffers (l.1079-1083, 1437-1444; no effect on values).
-/
import SvtVerif.CSem

namespace Sse
open CSem

/-- A whole allocation: element offset -> stored unsigned sample (uint8_t or uint16_t). -/
abbrev Buf := Nat → Nat

/-- `(int64_t)SQR((int64_t)(a) - (b))` (l.1020-1021; `#define SQR(x) ((x) * (x))`, EbUtility.h), followed by the
    implicit conversion to `uint64_t` that `residual_distortion += …` performs. `a`, `b` are the unsigned samples. -/
def sqrTerm (a b : Nat) : Nat :=
  let d : Int := wrapS 64 ((a : Int) - (b : Int))     -- (int64_t)(a) - (b)          in int64_t
  let s : Int := wrapS 64 (d * d)                     -- (int64_t)((d) * (d))        in int64_t
  (wrapU 64 s).toNat                                  -- converted to uint64_t by `+=`

/-- `residual_distortion += t` on `uint64_t residual_distortion` (l.987, l.1020). -/
def accAdd (acc t : Nat) : Nat := (acc + t) % 2 ^ 64

/-- The inner loop `for (int column_index = c; column_index < w; ++column_index) residual_distortion += term(column_index);`
    (l.1017-1022, 1040-1045, 1063-1068; 16-bit: l.1358-1365, 1389-1396, 1421-1428). `term c` is the value added for column `c`. -/
def colLoop (term : Nat → Nat) (w : Nat) (c acc : Nat) : Nat :=
  if c < w then colLoop term w (c + 1) (accAdd acc (term c)) else acc
termination_by w - c

/-- 8-bit row loop (l.1014-1026; chroma l.1037-1049, 1060-1072):
    ```
    for (int row_index = r; row_index < h; ++row_index) {
        for (column_index = 0; column_index < w; ++column_index)
            residual_distortion += (int64_t)SQR((int64_t)(input_buffer[column_index]) - (recon_coeff_buffer[column_index]));
        input_buffer += input_stride;  recon_coeff_buffer += recon_stride;
    }
    ```
    `ip`, `rp` are the current values of `input_buffer`, `recon_coeff_buffer` (offsets into `inB`, `recB`). -/
def rowLoop8 (inB recB : Buf) (inStride recStride w h : Nat) (r ip rp acc : Nat) : Nat :=
  if r < h then
    let acc := colLoop (fun c => sqrTerm (inB (ip + c)) (recB (rp + c))) w 0 acc
    rowLoop8 inB recB inStride recStride w h (r + 1) (ip + inStride) (rp + recStride) acc
  else acc
termination_by h - r

/-- One plane of the 8-bit path: `residual_distortion = 0; <row loop>; sse_total[i] = residual_distortion;`
    (l.1012-1028). Returns the `uint64_t` value `sse_total[i]`. `inOrg`/`recOrg` are the offsets computed at
    l.1007-1010 (`origin_x + origin_y * stride`). -/
def ssePlane64 (inB recB : Buf) (inOrg inStride recOrg recStride w h : Nat) : Nat :=
  rowLoop8 inB recB inStride recStride w h 0 inOrg recOrg 0

/-- `pcs_ptr->parent_pcs_ptr->luma_sse = (uint32_t)sse_total[0];` (l.1075-1077). -/
def toU32 (x : Nat) : Nat := x % 2 ^ 32

/-- The value reported for one plane (8-bit path). -/
def ssePlane (inB recB : Buf) (inOrg inStride recOrg recStride w h : Nat) : Nat :=
  toU32 (ssePlane64 inB recB inOrg inStride recOrg recStride w h)

/-! ### 16-bit path (`ten_bit_format != 1`, l.1320-1435) -/

/-- `((input_buffer[c]) << 2) | ((input_buffer_bit_inc[c] >> 6) & 3)` (l.1362-1363): the 10-bit source sample assembled from
    the 8 MSB plane and the "bit increment" plane (2 LSBs stored in bits 7..6). Operands are `uint8_t` promoted to `int`; all
    values are non-negative and below 2^10, so the `int` operations coincide with the `Nat` ones. -/
def src10 (msb inc : Nat) : Nat := (msb <<< 2) ||| ((inc >>> 6) &&& 3)

/-- 16-bit row loop (l.1355-1370; chroma l.1386-1401, 1418-1433): three pointers are bumped per row
    (`input_buffer += stride; input_buffer_bit_inc += stride_bit_inc; recon_coeff_buffer += recon stride` in `uint16_t` elements). -/
def rowLoop16 (inB incB recB : Buf) (inStride incStride recStride w h : Nat) (r ip bp rp acc : Nat) : Nat :=
  if r < h then
    let acc := colLoop (fun c => sqrTerm (src10 (inB (ip + c)) (incB (bp + c))) (recB (rp + c))) w 0 acc
    rowLoop16 inB incB recB inStride incStride recStride w h (r + 1) (ip + inStride) (bp + incStride) (rp + recStride) acc
  else acc
termination_by h - r

def ssePlane64_16 (inB incB recB : Buf) (inOrg inStride incOrg incStride recOrg recStride w h : Nat) : Nat :=
  rowLoop16 inB incB recB inStride incStride recStride w h 0 inOrg incOrg recOrg 0

/-- l.1447-1449. -/
def ssePlane16 (inB incB recB : Buf) (inOrg inStride incOrg incStride recOrg recStride w h : Nat) : Nat :=
  toU32 (ssePlane64_16 inB incB recB inOrg inStride incOrg incStride recOrg recStride w h)

/-! ### The picture-level function: buffer choice, origins, dimensions -/

/-- The fields of `EbPictureBufferDesc` that `psnr_calculations` reads. For a 16-bit recon picture the three
    buffers hold `uint16_t` elements (the C code casts `buffer_y + byte offset` to `uint16_t *`). -/
structure PicDesc where
  bufY : Buf
  bufCb : Buf
  bufCr : Buf
  bitIncY : Buf := fun _ => 0
  bitIncCb : Buf := fun _ => 0
  bitIncCr : Buf := fun _ => 0
  originX : Nat
  originY : Nat
  strideY : Nat
  strideCb : Nat
  strideCr : Nat
  strideBitIncY : Nat := 0
  strideBitIncCb : Nat := 0
  strideBitIncCr : Nat := 0
  width : Nat
  height : Nat

/-- Three plane buffers (`save_enhanced_picture_ptr[0..2]`, or the three buffers of a picture). -/
structure Planes where
  y : Buf
  cb : Buf
  cr : Buf

/-- What `psnr_calculations` reads from `pcs_ptr` / `pcs_ptr->parent_pcs_ptr`. -/
structure Pcs where
  isUsedAsReferenceFlag : Bool      -- parent_pcs_ptr->is_used_as_reference_flag
  temporalFilteringOn : Bool        -- parent_pcs_ptr->temporal_filtering_on
  referencePicture : PicDesc        -- ((EbReferenceObject*)parent_pcs_ptr->reference_picture_wrapper_ptr->object_ptr)->reference_picture[16bit]
  reconPicture : PicDesc            -- pcs_ptr->recon_picture_ptr / recon_picture16bit_ptr
  enhancedUnscaled : PicDesc        -- parent_pcs_ptr->enhanced_unscaled_picture_ptr
  saveEnhanced : Planes             -- parent_pcs_ptr->save_enhanced_picture_ptr[3]
  saveEnhancedBitInc : Planes := ⟨fun _ => 0, fun _ => 0, fun _ => 0⟩   -- save_enhanced_picture_bit_inc_ptr[3]

/-- What it reads from `scs_ptr`. -/
structure Scs where
  is16bit : Bool                    -- static_config.encoder_bit_depth > EB_8BIT  (l.968)
  ssX : Nat                         -- subsampling_x (l.970)
  ssY : Nat                         -- subsampling_y (l.971)
  maxInputPadRight : Nat            -- max_input_pad_right
  maxInputPadBottom : Nat           -- max_input_pad_bottom

/-- l.976-981 (8-bit) / l.1088-1093 (16-bit): which reconstruction is measured. `recon_output` (l.448-460) makes the same choice. -/
def chooseRecon (p : Pcs) : PicDesc :=
  if p.isUsedAsReferenceFlag then p.referencePicture else p.reconPicture

/-- l.997-1005 (8-bit) / l.1331-1345 (16-bit, MSB planes): which source samples are measured: the copy saved by
    `save_src_pic_buffers` (EbTemporalFiltering.c l.2620, called at l.2781 before the filter overwrites the picture) when the picture
    was temporally filtered, else the input picture's own buffers. -/
def chooseSrc (p : Pcs) : Planes :=
  if p.temporalFilteringOn then p.saveEnhanced
  else ⟨p.enhancedUnscaled.bufY, p.enhancedUnscaled.bufCb, p.enhancedUnscaled.bufCr⟩

/-- l.1331-1345, the bit-increment planes. -/
def chooseSrcBitInc (p : Pcs) : Planes :=
  if p.temporalFilteringOn then p.saveEnhancedBitInc
  else ⟨p.enhancedUnscaled.bitIncY, p.enhancedUnscaled.bitIncCb, p.enhancedUnscaled.bitIncCr⟩

/-- `chooseBuffers` of DESIGN.md: (recon picture, source planes). -/
def chooseBuffers (p : Pcs) : PicDesc × Planes := (chooseRecon p, chooseSrc p)

/-- `recon_output` (EbEncDecProcess.c l.446-461): the picture handed to the application as reconstruction
    (before the optional film-grain synthesis of l.465-486). -/
def reconOutputChoice (p : Pcs) : PicDesc :=
  if p.isUsedAsReferenceFlag then p.referencePicture else p.reconPicture

/-- Loop bounds: `input_picture_ptr->width - scs_ptr->max_input_pad_right` (l.1018; both `uint16_t`, promoted to `int`;
    a negative value gives zero iterations, as does the truncated `Nat` subtraction) and its `>> ss_x` (l.1041). -/
def lumaW (inp : PicDesc) (s : Scs) : Nat := inp.width - s.maxInputPadRight
def lumaH (inp : PicDesc) (s : Scs) : Nat := inp.height - s.maxInputPadBottom
def chromaW (inp : PicDesc) (s : Scs) : Nat := (inp.width - s.maxInputPadRight) >>> s.ssX
def chromaH (inp : PicDesc) (s : Scs) : Nat := (inp.height - s.maxInputPadBottom) >>> s.ssY

/-- The three reported values `(luma_sse, cb_sse, cr_sse)` of the 8-bit path (l.973-1084). -/
def psnr8 (p : Pcs) (s : Scs) : Nat × Nat × Nat :=
  let rec_ := chooseRecon p                                                  -- l.976-981
  let inp := p.enhancedUnscaled                                              -- l.983-984
  let src := chooseSrc p                                                     -- l.997-1005
  -- l.1007-1028
  let y := ssePlane src.y rec_.bufY (inp.originX + inp.originY * inp.strideY) inp.strideY
             (rec_.originX + rec_.originY * rec_.strideY) rec_.strideY (lumaW inp s) (lumaH inp s)
  -- l.1030-1051
  let cb := ssePlane src.cb rec_.bufCb (inp.originX / 2 + inp.originY / 2 * inp.strideCb) inp.strideCb
             (rec_.originX / 2 + rec_.originY / 2 * rec_.strideCb) rec_.strideCb (chromaW inp s) (chromaH inp s)
  -- l.1053-1074
  let cr := ssePlane src.cr rec_.bufCr (inp.originX / 2 + inp.originY / 2 * inp.strideCr) inp.strideCr
             (rec_.originX / 2 + rec_.originY / 2 * rec_.strideCr) rec_.strideCr (chromaW inp s) (chromaH inp s)
  (y, cb, cr)                                                                -- l.1075-1077

/-- The three reported values of the unpacked 16-bit path (l.1085-1102, 1320-1449). The recon buffers hold `uint16_t`;
    the C code forms a *byte* offset `(origin_x << 1) + (origin_y << 1) * stride_y` (l.1322-1323; chroma
    `(origin_x << 1) / 2 + (origin_y << 1) / 2 * stride_cb`, l.1375-1377) and casts to `uint16_t *`; the element offset is
    half of it (the model assumes it is even, i.e. the access is aligned; true for the encoder's even origins). -/
def psnr16 (p : Pcs) (s : Scs) : Nat × Nat × Nat :=
  let rec_ := chooseRecon p                                                  -- l.1088-1093
  let inp := p.enhancedUnscaled                                              -- l.1094-1095
  let src := chooseSrc p                                                     -- l.1331-1345
  let inc := chooseSrcBitInc p
  -- l.1321-1372
  let y := ssePlane16 src.y inc.y rec_.bufY
             (inp.originX + inp.originY * inp.strideY) inp.strideY
             (inp.originX + inp.originY * inp.strideBitIncY) inp.strideBitIncY
             (((rec_.originX <<< 1) + (rec_.originY <<< 1) * rec_.strideY) / 2) rec_.strideY (lumaW inp s) (lumaH inp s)
  -- l.1374-1403
  let cb := ssePlane16 src.cb inc.cb rec_.bufCb
             (inp.originX / 2 + inp.originY / 2 * inp.strideCb) inp.strideCb
             (inp.originX / 2 + inp.originY / 2 * inp.strideBitIncCb) inp.strideBitIncCb
             (((rec_.originX <<< 1) / 2 + (rec_.originY <<< 1) / 2 * rec_.strideCb) / 2) rec_.strideCb (chromaW inp s) (chromaH inp s)
  -- l.1405-1435
  let cr := ssePlane16 src.cr inc.cr rec_.bufCr
             (inp.originX / 2 + inp.originY / 2 * inp.strideCr) inp.strideCr
             (inp.originX / 2 + inp.originY / 2 * inp.strideBitIncCr) inp.strideBitIncCr
             (((rec_.originX <<< 1) / 2 + (rec_.originY <<< 1) / 2 * rec_.strideCr) / 2) rec_.strideCr (chromaW inp s) (chromaH inp s)
  (y, cb, cr)                                                                -- l.1447-1449

/-- `psnr_calculations` (l.967): `is_16bit` selects the path (l.973 / l.1085). -/
def psnrCalculations (p : Pcs) (s : Scs) : Nat × Nat × Nat :=
  if s.is16bit then psnr16 p s else psnr8 p s

/-- EbPacketizationProcess.c l.686-700: what the packet header carries: (luma_sse, cb_sse, cr_sse) of the picture's parent PCS
    when `stat_report` is set (l.687-689 assign `luma_sse`, `cr_sse`, `cb_sse` field by field, no swap), zeros otherwise. -/
def packetFields (statReport : Bool) (pcsSse : Nat × Nat × Nat) : Nat × Nat × Nat :=
  if statReport then pcsSse else (0, 0, 0)


/-! ### Which reconstruction is in the measured buffer: the CDEF application condition (EbCdefProcess.c l.523-540)

    `psnr_calculations` runs in the restoration kernel (EbRestProcess.c l.573-576) after the CDEF kernel. The CDEF kernel always
    *searches* and signals the strengths when CDEF is on for the picture (l.510-525: `finish_cdef_search`), but *applies* the filter
    to the reconstruction buffer only under the condition of l.527-529:
    ```
    if (scs_ptr->seq_header.enable_restoration != 0 || pcs_ptr->parent_pcs_ptr->is_used_as_reference_flag ||
        scs_ptr->static_config.recon_enabled) { svt_av1_cdef_frame(0, scs_ptr, pcs_ptr); }
    ```
    (`static_config.stat_report` is not part of the condition in the pinned tree). A decoder applies CDEF whenever it is signalled. -/

/-- l.523 `scs_ptr->seq_header.cdef_level && pcs_ptr->parent_pcs_ptr->cdef_level` is `cdefOn`; l.527-529 is the rest.
    `withStatReport` says whether the condition also has the disjunct `scs_ptr->static_config.stat_report`: it does NOT in the pinned
    tree (`withStatReport = false` is the code as it is); `true` is the code after hooks/fix-c26-cdef-stat-report.patch. checks/c26.py
    reads the condition from the current source, refuses anything but these two forms, and records which one is present. -/
def cdefFrameApplied (withStatReport cdefOn enableRestoration isRef reconEnabled statReport : Bool) : Bool :=
  cdefOn && (enableRestoration || isRef || (withStatReport && statReport) || reconEnabled)

/-- The buffer contents `psnr_calculations` finds: the CDEF-filtered picture if the filter was applied, else the unfiltered one. -/
def measuredRecon {α : Type} (withStatReport cdefOn enableRestoration isRef reconEnabled statReport : Bool) (preCdef postCdef : α) : α :=
  if cdefFrameApplied withStatReport cdefOn enableRestoration isRef reconEnabled statReport then postCdef else preCdef

/-- What a conforming decoder reconstructs from the packet: CDEF applied iff signalled. -/
def decodedRecon {α : Type} (cdefOn : Bool) (preCdef postCdef : α) : α :=
  if cdefOn then postCdef else preCdef

/-! ### `save_src_pic_buffers` (EbTemporalFiltering.c l.2620-2709) -/

/-- `pic_copy_kernel_8bit(src, stride, dst, stride, stride, height)` copies `stride * height` elements starting at the
    beginning of the allocation (l.2659-2678): the saved plane agrees with the original on `[0, n)`. Model: the copy itself. -/
def picCopy (src : Buf) (n : Nat) : Buf := fun i => if i < n then src i else 0

/-- The saved planes for a picture whose allocation spans `lumaSize` / `chromaSize` elements (l.2623-2628, 2642-2678). -/
def saveSrcPicBuffers (pic : PicDesc) (lumaSize chromaSize : Nat) : Planes :=
  ⟨picCopy pic.bufY lumaSize, picCopy pic.bufCb chromaSize, picCopy pic.bufCr chromaSize⟩

/-
  Note on the `ten_bit_format == 1` path (l.1103-1319), not modelled: it walks 64x64 superblocks and adds four terms per
  packed 2-bit byte in loops `for (k = 0; k < sb_width / 4; k++)`, i.e. it visits only `4 * (sb_width / 4)` columns of the
  last superblock column; it also reads `input_picture_ptr->buffer_*` unconditionally (never the saved pre-filter copy).
  `ten_bit_format` is not validated by `verify_settings`, `compressed_ten_bit_format` must be 0, so the layout this path expects
  is never produced by the library itself. Outside the 8-bit property.
-/

end Sse
