/-
  C20 — tool gating and tile layout: executable transcription of the chain
      configuration member  →  derived signal(s)  →  sequence / frame header bit (and MD-level block gates)
  from /repo.  Every definition names the C site it mirrors (file:line, numbered at commit 22460a9; at c7d082d the
  numbers of EbEncHandle.c beyond line 794 are 7 higher, all other cited files are unchanged).
  Core Lean only (the driver `svtmodel toolgate` links this file).

  What is NOT modelled and enters as an opaque input (`Pic`): the encoder's *search results* (picked loop-filter
  levels, CDEF strengths, restoration types, estimated global-motion types, screen-content detection) and the
  picture's place in the prediction structure (slice type, temporal layer, reference flag).  The model says how
  the configuration GATES those results on their way to the header.
-/
namespace ToolGate

/-- `DEFAULT` (EbSvtAv1Enc.h / EbDefinitions.h): "take the preset's choice". -/
def DEFAULT : Int := -1

/-- `(uint8_t)x` of a C int. -/
def u8 (x : Int) : Nat := (x % 256).toNat

/-- C truthiness of `(uint8_t)x` / `(EbBool)x`. -/
def truthy (x : Int) : Bool := u8 x != 0

/-- The configuration members the property names (static_config after copy_api_from_app,
    EbEncHandle.c:2203-2435 copies each of them verbatim). -/
structure Cfg where
  encMode : Int := 8                 -- enc_mode, EbEncHandle.c:2203
  disableDlf : Int := 0              -- disable_dlf_flag :2224
  enableWarpedMotion : Int := -1     -- :2227
  enableGlobalMotion : Int := 1      -- :2230
  cdefLevel : Int := -1              -- :2233
  enableRestoration : Int := -1      -- enable_restoration_filtering :2236
  enableMfmv : Int := -1             -- :2241
  interIntraCompound : Int := -1     -- :2253
  disableCfl : Int := -1             -- disable_cfl_flag :2263
  obmcLevel : Int := -1              -- :2266
  compoundLevel : Int := -1          -- :2275
  filterIntraLevel : Int := -1       -- :2281
  enableIntraEdgeFilter : Int := -1  -- :2283
  paletteLevel : Int := -1           -- :2323
  tileRows : Nat := 0                -- :2325 (log2)
  tileColumns : Nat := 0             -- :2326 (log2)
  screenContentMode : Int := 2       -- :2380
  intrabcMode : Int := -1            -- :2382
  superresMode : Int := 0            -- :2435
  deriving Repr, Inhabited

/-- Per-picture facts the gating chain reads but the configuration does not determine. -/
structure Pic where
  iSlice : Bool := false           -- slice_type == I_SLICE (KEY or INTRA_ONLY frame)
  frameType : Nat := 1             -- 0 KEY, 1 INTER, 2 INTRA_ONLY, 3 S_FRAME
  temporalLayer : Nat := 0
  isRef : Bool := true             -- is_used_as_reference_flag
  errorRes : Bool := false         -- frm_hdr.error_resilient_mode
  superresScaled : Bool := false   -- frame_superres_enabled (denominator != 8 for this frame)
  scAuto : Bool := false           -- is_screen_content() verdict of the governing I picture (auto mode only)
  pickLf : Nat × Nat × Nat × Nat := (0, 0, 0, 0)   -- svt_av1_pick_filter_level: y0 y1 u v
  pickCdefBits : Nat := 0          -- finish_cdef_search
  pickCdefY : List Nat := [0]
  pickCdefUv : List Nat := [0]
  pickLr : Nat × Nat × Nat := (0, 0, 0)            -- restoration search: frame_restoration_type y u v
  pickGm : List Nat := [0, 0, 0, 0, 0, 0, 0]       -- global_motion_estimation: wmtype per reference LAST..ALTREF
  deriving Repr, Inhabited

/-! ### sequence header (write_sequence_header, EbEntropyCoding.c:3303-3382) -/

structure SeqBits where
  filterIntra : Nat      -- :3334  seq_header.filter_intra_level
  intraEdge : Nat        -- :3342
  interintra : Nat       -- :3345
  masked : Nat           -- :3346
  warped : Nat           -- :3348
  jntComp : Nat          -- :3354
  refMvs : Nat           -- :3355
  sct : Nat              -- :3358 seq_force_screen_content_tools (2 = per frame)
  superres : Nat         -- :3379
  cdef : Nat             -- :3380
  restoration : Nat      -- :3381
  deriving Repr, DecidableEq, Inhabited

/-- scs_ptr->compound_mode, EbResourceCoordinationProcess.c:903-906 (`M8_NEW_REF` is not defined: :908 is dead). -/
def compoundMode (c : Cfg) : Nat :=
  if c.compoundLevel == DEFAULT then (if c.encMode ≤ 9 then 1 else 0) else u8 c.compoundLevel

def seqFilterIntra (c : Cfg) : Nat :=           -- EbResourceCoordinationProcess.c:893-899
  if c.filterIntraLevel == DEFAULT then (if c.encMode ≤ 5 then 1 else 0)
  else (if c.filterIntraLevel == 0 then 0 else 1)

def seqIntraEdge (c : Cfg) : Nat :=             -- EbResourceCoordinationProcess.c:177-181, again EbEntropyCoding.c:3336-3340
  if c.enableIntraEdgeFilter == DEFAULT then 1 else u8 c.enableIntraEdgeFilter

def seqInterintra (c : Cfg) : Nat :=            -- EbResourceCoordinationProcess.c:877-888
  if c.interIntraCompound == DEFAULT then (if c.encMode ≤ 2 then 1 else 0) else u8 c.interIntraCompound

def seqWarped (c : Cfg) : Nat :=                -- EbResourceCoordinationProcess.c:199-203
  if c.enableWarpedMotion == DEFAULT then 1 else u8 c.enableWarpedMotion

def seqCdef (c : Cfg) : Nat :=                  -- EbResourceCoordinationProcess.c:194-197
  if c.cdefLevel == DEFAULT then 1 else (if c.cdefLevel > 0 then 1 else 0)

def seqRestoration (c : Cfg) : Nat :=           -- EbResourceCoordinationProcess.c:188-192
  if c.enableRestoration == DEFAULT then (if c.encMode ≤ 6 then 1 else 0) else u8 c.enableRestoration

/-- seq_header.enable_superres: cleared with the first picture (EbResourceCoordinationProcess.c:875), set by
    init_resize_picture when a frame is scaled (EbResize.c:1575-1576), which is only called when
    superres_mode > SUPERRES_NONE (EbPictureDecisionProcess.c:5519). -/
def seqSuperres (c : Cfg) (anyFrameScaled : Bool) : Nat :=
  if c.superresMode > 0 && anyFrameScaled then 1 else 0

def seqHdr (c : Cfg) (anyFrameScaled : Bool) : SeqBits :=
  { filterIntra := seqFilterIntra c
    intraEdge := seqIntraEdge c
    interintra := seqInterintra c
    masked := if compoundMode c != 0 then 1 else 0       -- EbResourceCoordinationProcess.c:911-917
    warped := seqWarped c
    jntComp := if compoundMode c != 0 then 1 else 0
    refMvs := 1                                          -- EbSequenceControlSet.c:147
    sct := 2                                             -- EbSequenceControlSet.c:138
    superres := seqSuperres c anyFrameScaled
    cdef := seqCdef c
    restoration := seqRestoration c }

/-! ### frame header (signal_derivation_multi_processes_oq, EbPictureDecisionProcess.c:799-1060;
      signal_derivation_mode_decision_config_kernel_oq, EbModeDecisionConfigurationProcess.c:478-570;
      write_uncompressed_header_obu, EbEntropyCoding.c:3763-4071) -/

/-- pcs->sc_content_detected: EbPictureAnalysisProcess.c:4014-4018 (mode 2 = detector, else the mode itself),
    inherited by non-I pictures from the last I picture (EbPictureDecisionProcess.c:5175-5178). -/
def scDetected (c : Cfg) (p : Pic) : Bool :=
  if c.screenContentMode == 2 then p.scAuto else truthy c.screenContentMode

/-- frm_hdr->allow_screen_content_tools, EbPictureDecisionProcess.c:870 / :895. -/
def allowSct (c : Cfg) (p : Pic) : Bool := scDetected c p

/-- frm_hdr->allow_intrabc as the encoder holds it, EbPictureDecisionProcess.c:869-898. -/
def allowIntrabc (c : Cfg) (p : Pic) : Bool :=
  if p.iSlice then
    if c.intrabcMode == DEFAULT then (if c.encMode ≤ 9 then scDetected c p else false)
    else decide (c.intrabcMode > 0)
  else false

/-- allow_intrabc as a decoder reads it: the bit is written only when allow_screen_content_tools is set and the
    frame is not scaled (EbEntropyCoding.c:3901-3903, :3912-3914); absent = 0. -/
def hdrAllowIntrabc (c : Cfg) (p : Pic) : Bool :=
  allowSct c p && !p.superresScaled && allowIntrabc c p

/-- pcs->palette_level, EbPictureDecisionProcess.c:912-922. -/
def picPaletteLevel (c : Cfg) (p : Pic) : Nat :=
  if allowSct c p then
    if c.paletteLevel == -1 then (if allowSct c p && p.temporalLayer == 0 && c.encMode ≤ 9 then 6 else 0)
    else u8 c.paletteLevel
  else 0

/-- context_ptr->md_palette_level for PD pass `pd` (0,1,2), EbEncDecProcess.c:3018-3023.  Palette candidates are
    injected only when it is non-zero (EbModeDecision.c:5190-5195) and the palette syntax is written with
    `svt_av1_allow_palette(pcs->palette_level, bsize)` (EbEntropyCoding.c:6096). -/
def mdPaletteLevel (c : Cfg) (p : Pic) (pd : Nat) : Nat :=
  if pd < 2 then 0 else picPaletteLevel c p

/-- pcs->loop_filter_mode, EbPictureDecisionProcess.c:926-934. -/
def loopFilterMode (c : Cfg) (p : Pic) : Nat :=
  if !truthy c.disableDlf && !allowIntrabc c p then
    (if c.encMode ≤ 6 then 3 else (if p.isRef then 1 else 0))
  else 0

/-- Loop-filter levels in the header.  Levels are reset to 0 for every picture
    (EbResourceCoordinationProcess.c:430-433) and only written by svt_av1_pick_filter_level, which runs only when
    loop_filter_mode != 0 (EbDlfProcess.c:171-204, EbCodingLoop.c:2240-2249); encode_loopfilter writes nothing when
    allow_intrabc (EbEntropyCoding.c:2830) and the decoder then infers 0. -/
def hdrLf (c : Cfg) (p : Pic) : Nat × Nat × Nat × Nat :=
  if allowIntrabc c p then (0, 0, 0, 0)
  else if loopFilterMode c p == 0 then (0, 0, 0, 0)
  else
    let (y0, y1, u, v) := p.pickLf
    if y0 == 0 && y1 == 0 then (0, 0, 0, 0) else (y0, y1, u, v)   -- u,v only coded when y0|y1 (:2839-2842)

/-- pcs->cdef_level, EbPictureDecisionProcess.c:942-953. -/
def picCdefLevel (c : Cfg) (p : Pic) : Nat :=
  if seqCdef c != 0 && !allowIntrabc c p then
    if c.cdefLevel == DEFAULT then (if c.encMode ≤ 3 then 1 else 4) else u8 c.cdefLevel
  else 0

/-- (cdef_bits, y strengths, uv strengths) as decoded.  encode_cdef is called only when seq cdef_level != 0
    (EbEntropyCoding.c:4037) and returns at once under allow_intrabc (:2893); with pcs->cdef_level == 0 the CDEF kernel
    stores bits 0 / strength 0 (EbCdefProcess.c:533-538). -/
def hdrCdef (c : Cfg) (p : Pic) : Nat × List Nat × List Nat :=
  if seqCdef c == 0 || allowIntrabc c p then (0, [0], [0])
  else if picCdefLevel c p == 0 then (0, [0], [0])
  else (p.pickCdefBits, p.pickCdefY, p.pickCdefUv)

/-- frame_restoration_type y,u,v as decoded: encode_restoration_mode is called only when
    seq enable_restoration (EbEntropyCoding.c:4041) and returns at once under allow_intrabc (:2725). -/
def hdrLr (c : Cfg) (p : Pic) : Nat × Nat × Nat :=
  if seqRestoration c == 0 || allowIntrabc c p then (0, 0, 0) else p.pickLr

/-- scs->mfmv_enabled, EbEncHandle.c:2170-2173. -/
def mfmvEnabled (c : Cfg) : Bool :=
  if c.enableMfmv == DEFAULT then decide (c.encMode ≤ 9) else truthy c.enableMfmv

/-- use_ref_frame_mvs as decoded: EbPictureDecisionProcess.c:1030-1033, cleared again for a scaled (super-res) frame
    by scale_pcs_params (EbResize.c:1109; found by the real-encode correspondence of checks/c20.py), written only for
    inter frames without error resilience (EbEntropyCoding.c:3984). -/
def hdrUseRefMvs (c : Cfg) (p : Pic) : Bool :=
  if p.iSlice || p.errorRes || p.superresScaled then false else mfmvEnabled c

/-- enable_wm, EbModeDecisionConfigurationProcess.c:516-525. -/
def enableWm (c : Cfg) (p : Pic) : Bool :=
  if c.enableWarpedMotion != DEFAULT then truthy c.enableWarpedMotion
  else if c.encMode ≤ 3 then true
  else if c.encMode ≤ 9 then p.temporalLayer == 0
  else false

/-- frm_hdr->allow_warped_motion, EbModeDecisionConfigurationProcess.c:529-531. -/
def allowWarped (c : Cfg) (p : Pic) : Bool :=
  enableWm c p && !(p.frameType == 0 || p.frameType == 2) && !p.errorRes && !p.superresScaled

/-- allow_warped_motion as decoded: written only when frame_might_allow_warped_motion (seq flag set, inter frame,
    no error resilience; EbEntropyCoding.c:4057). -/
def hdrAllowWarped (c : Cfg) (p : Pic) : Bool := allowWarped c p && seqWarped c != 0

/-- pic_obmc_level, EbModeDecisionConfigurationProcess.c:545-555. -/
def picObmcLevel (c : Cfg) : Nat :=
  if c.obmcLevel == DEFAULT then
    (if c.encMode ≤ 1 then 1 else if c.encMode ≤ 4 then 2 else if c.encMode ≤ 5 then 3 else 0)
  else u8 c.obmcLevel

/-- md_pic_obmc_level for PD pass `pd`, EbEncDecProcess.c:2900-2906 (OBMC candidates need obmc_ctrls.enabled,
    EbModeDecision.c:111). -/
def mdObmcLevel (c : Cfg) (pd : Nat) : Nat := if pd < 2 then 0 else picObmcLevel c

/-- is_motion_mode_switchable as decoded: EbModeDecisionConfigurationProcess.c:533, :558-559; the bit exists in inter
    frames only (EbEntropyCoding.c:3982). -/
def hdrSwitchableMotion (c : Cfg) (p : Pic) : Bool :=
  (p.frameType == 1 || p.frameType == 3) && (allowWarped c p || picObmcLevel c != 0)

/-- gm_level of signal_derivation_me_kernel_oq, EbMotionEstimationProcess.c:393-403. -/
def gmLevel (c : Cfg) (p : Pic) : Nat :=
  if c.enableGlobalMotion == 1 && !p.superresScaled then
    (if c.encMode ≤ 1 then 2 else if c.encMode ≤ 6 then 3 else (if p.isRef then 4 else 0))
  else 0

/-- gm types as decoded.  With gm_ctrls.enabled == 0 `is_global_motion` is cleared (EbMotionEstimationProcess.c:952-958)
    and set_global_motion_field leaves every model IDENTITY (EbModeDecisionConfigurationProcess.c:108-134); intra frames
    carry no global-motion syntax (EbEntropyCoding.c:4064). -/
def hdrGm (c : Cfg) (p : Pic) : List Nat :=
  if p.iSlice then [0, 0, 0, 0, 0, 0, 0]
  else if gmLevel c p == 0 then [0, 0, 0, 0, 0, 0, 0]
  else p.pickGm

/-- use_superres as decoded: calc_superres_params gives denominator 8 for SUPERRES_NONE (EbResize.c:1003) and
    init_resize_picture is not even called (EbPictureDecisionProcess.c:5519). -/
def hdrUseSuperres (c : Cfg) (p : Pic) : Bool := decide (c.superresMode > 0) && p.superresScaled

/-! ### block-level gates without a frame-level flag -/

/-- pic_filter_intra_level, EbModeDecisionConfigurationProcess.c:500-509; md level EbEncDecProcess.c:3002-3008;
    candidates EbModeDecision.c:5176. -/
def picFilterIntraLevel (c : Cfg) : Nat :=
  if c.filterIntraLevel == DEFAULT then
    (if seqFilterIntra c != 0 then (if c.encMode ≤ 5 then 1 else 0) else 0)
  else u8 c.filterIntraLevel

def mdFilterIntraLevel (c : Cfg) (pd : Nat) : Nat := if pd < 2 then 0 else picFilterIntraLevel c

/-- md_inter_intra_level, EbEncDecProcess.c:2917-2930 (candidates EbProductCodingLoop.c:7390). -/
def mdInterIntraLevel (c : Cfg) (p : Pic) (pd : Nat) : Nat :=
  if !p.iSlice && seqInterintra c != 0 then
    (if pd < 2 then 0 else if c.encMode ≤ 1 then 2 else if c.encMode ≤ 2 then 3 else 0)
  else 0

/-- inter_compound_mode, EbEncDecProcess.c:2677-2700 (0 = average only: no wedge / diff-weighted / distance). -/
def interCompoundMode (c : Cfg) (pd : Nat) : Nat :=
  if compoundMode c != 0 then
    if c.compoundLevel == DEFAULT then
      (if pd < 2 then 0 else if c.encMode ≤ -1 then 1 else if c.encMode ≤ 0 then 3
       else if c.encMode ≤ 3 then 4 else if c.encMode ≤ 4 then 6 else 0)
    else u8 c.compoundLevel
  else 0

/-- `disable_cfl_flag` local of the three intra-candidate injectors (EbModeDecision.c:4714-4722, :4917-4922,
    :5073-5082): block larger than 32, or md_disable_cfl, or the configuration when it is not DEFAULT.
    A candidate gets `UV_CFL_PRED` only when this is false; cfl_prediction (EbProductCodingLoop.c:5974-5981) only
    re-decides candidates that already are CfL. -/
def cflDisabled (c : Cfg) (blkMaxDim : Nat) (mdDisableCfl : Bool) : Bool :=
  let d0 := decide (blkMaxDim > 32)
  let d1 := if mdDisableCfl then true else d0
  if c.disableCfl != DEFAULT && !d1 then truthy c.disableCfl else d1

/-! ### everything the driver prints for one frame -/

structure FrameBits where
  allowSct : Bool
  allowIntrabc : Bool
  lf : Nat × Nat × Nat × Nat
  cdef : Nat × List Nat × List Nat
  lr : Nat × Nat × Nat
  warped : Bool
  switchable : Bool
  refMvs : Bool
  gm : List Nat
  useSuperres : Bool
  deriving Repr, DecidableEq, Inhabited

def frameHdr (c : Cfg) (p : Pic) : FrameBits :=
  { allowSct := allowSct c p
    allowIntrabc := hdrAllowIntrabc c p
    lf := hdrLf c p
    cdef := hdrCdef c p
    lr := hdrLr c p
    warped := hdrAllowWarped c p
    switchable := hdrSwitchableMotion c p
    refMvs := hdrUseRefMvs c p
    gm := hdrGm c p
    useSuperres := hdrUseSuperres c p }

/-! ### AV1 block syntax: which element is conditional on which sequence / frame flag
    (AV1 specification 5.11.x; the decoder counterpart is EbDecParseBlock.c / EbDecParseInterBlock.c) -/

/-- The header-level flags a block parser consults. -/
structure Flags where
  seqFilterIntra : Bool
  seqInterintra : Bool
  seqMasked : Bool
  seqJntComp : Bool
  allowSct : Bool
  allowIntrabc : Bool
  switchableMotion : Bool
  allowWarped : Bool
  seqCdef : Bool
  codedLossless : Bool
  lrTypeNonNone : Bool         -- FrameRestorationType[plane] != NONE for some plane
  cdefStrengthsAllZero : Bool  -- every cdef_y/uv strength in the frame header is 0
  deriving Repr, DecidableEq, Inhabited

/-- Block-level syntax elements that signal the use of a gated tool. -/
inductive Elem
  | useFilterIntra       -- 5.11.24 filter_intra_mode_info: use_filter_intra
  | hasPaletteY          -- 5.11.46 palette_mode_info
  | hasPaletteUv
  | useIntrabc           -- 5.11.7 intra_frame_mode_info: use_intrabc
  | interintra           -- 5.11.28 read_interintra_mode
  | motionModeObmc       -- 5.11.27 read_motion_mode: motion_mode == OBMC
  | motionModeWarp       --                           motion_mode == LOCALWARP
  | compGroupIdx         -- 5.11.29 read_compound_type: comp_group_idx (wedge / diff-weighted)
  | compoundIdx          --                            compound_idx (distance weights)
  | cdefIdx              -- 5.11.56 read_cdef
  | lrUnit               -- 5.11.57/58 read_lr_unit: use_wiener / use_sgrproj / restoration_type
  | cflAlphas            -- 5.11.45 read_cfl_alphas (UV_CFL chosen): no header-level gate exists
  deriving Repr, DecidableEq, Inhabited

/-- The spec table: *necessary* header condition for the element to be present in a block (size, mode and
    neighbour conditions of the specification are further conjuncts and are left out: absent stays absent). -/
def mayBePresent (f : Flags) : Elem → Bool
  | .useFilterIntra => f.seqFilterIntra
  | .hasPaletteY => f.allowSct
  | .hasPaletteUv => f.allowSct
  | .useIntrabc => f.allowIntrabc
  | .interintra => f.seqInterintra
  | .motionModeObmc => f.switchableMotion
  | .motionModeWarp => f.switchableMotion && f.allowWarped
  | .compGroupIdx => f.seqMasked
  | .compoundIdx => f.seqJntComp
  | .cdefIdx => f.seqCdef && !f.codedLossless && !f.allowIntrabc
  | .lrUnit => f.lrTypeNonNone
  | .cflAlphas => true

def allElems : List Elem :=
  [.useFilterIntra, .hasPaletteY, .hasPaletteUv, .useIntrabc, .interintra, .motionModeObmc, .motionModeWarp,
   .compGroupIdx, .compoundIdx, .cdefIdx, .lrUnit, .cflAlphas]

/-- What a conforming block parser reports for one block: the coded value when the element may be present, the
    specification's inferred value (0 = tool not used) otherwise. -/
def decodedUse (f : Flags) (coded : Elem → Nat) (e : Elem) : Nat :=
  if mayBePresent f e then coded e else 0

/-- "non-zero CDEF strength applied to this block": the block's cdef_idx selects a header strength. -/
def cdefApplied (f : Flags) : Bool :=
  mayBePresent f .cdefIdx && !f.cdefStrengthsAllZero

/-- Flags a decoder derives from the modelled headers. -/
def flagsOf (c : Cfg) (p : Pic) (anyScaled : Bool) : Flags :=
  let s := seqHdr c anyScaled
  let fb := frameHdr c p
  { seqFilterIntra := s.filterIntra != 0
    seqInterintra := s.interintra != 0
    seqMasked := s.masked != 0
    seqJntComp := s.jntComp != 0
    allowSct := fb.allowSct
    allowIntrabc := fb.allowIntrabc
    switchableMotion := fb.switchable
    allowWarped := fb.warped
    seqCdef := s.cdef != 0
    codedLossless := false
    lrTypeNonNone := fb.lr != (0, 0, 0)
    cdefStrengthsAllZero := fb.cdef.2.1.all (· == 0) && fb.cdef.2.2.all (· == 0) }

/-! ### tile info (svt_av1_get_tile_limits / set_tile_info / svt_av1_calculate_tile_cols|rows / write_tile_info_max_tile,
    EbEntropyCoding.c:2944-3115; AV1 specification 5.9.15) -/

/-- `tile_log2(blk, target)`: smallest k with (blk << k) >= target (EbBlockStructures.h:218-222).  Fuel = target. -/
def tileLog2Aux (blk target : Nat) : Nat → Nat → Nat
  | 0, k => k
  | fuel + 1, k => if blk * 2 ^ k < target then tileLog2Aux blk target fuel (k + 1) else k

def tileLog2 (blk target : Nat) : Nat := tileLog2Aux blk target target 0

/-- Superblock count of one dimension: ALIGN_POWER_OF_TWO(mi, log2_sb_sz) >> log2_sb_sz (:2988-2991). -/
def sbCount (mi log2Sb : Nat) : Nat := (mi + 2 ^ log2Sb - 1) / 2 ^ log2Sb

/-- mi units (4 pixels) of a frame dimension: cm->mi_cols = aligned_width >> 2 with 8-pixel alignment. -/
def miOf (pixels : Nat) : Nat := 2 * ((pixels + 7) / 8)

structure TileLimits where
  sbCols : Nat
  sbRows : Nat
  maxTileWidthSb : Nat
  minLog2Cols : Nat
  maxLog2Cols : Nat
  minLog2Rows : Nat     -- as svt_av1_get_tile_limits leaves it (0, ":3001 CHKN Tiles"); see `minLog2RowsSpec`
  maxLog2Rows : Nat
  minLog2Tiles : Nat
  deriving Repr, DecidableEq, Inhabited

def MAX_TILE_WIDTH : Nat := 4096
def MAX_TILE_AREA : Nat := 4096 * 2304
def MAX_TILE_COLS : Nat := 64
def MAX_TILE_ROWS : Nat := 64

/-- svt_av1_get_tile_limits, EbEntropyCoding.c:2985-3005.  `log2Sb` = log2 of the SB size in mi units (4 or 5). -/
def tileLimits (miCols miRows log2Sb : Nat) : TileLimits :=
  let sbCols := sbCount miCols log2Sb
  let sbRows := sbCount miRows log2Sb
  let sbSizeLog2 := log2Sb + 2
  let maxW := MAX_TILE_WIDTH / 2 ^ sbSizeLog2
  let maxArea := MAX_TILE_AREA / 2 ^ (2 * sbSizeLog2)
  let minC := tileLog2 maxW sbCols
  { sbCols := sbCols, sbRows := sbRows, maxTileWidthSb := maxW
    minLog2Cols := minC
    maxLog2Cols := tileLog2 1 (min sbCols MAX_TILE_COLS)
    maxLog2Rows := tileLog2 1 (min sbRows MAX_TILE_ROWS)
    minLog2Rows := 0
    minLog2Tiles := max (tileLog2 maxArea (sbCols * sbRows)) minC }

/-- One dimension of a uniform layout: tile size in SBs and the tile start positions, as the loops of
    svt_av1_calculate_tile_cols / _rows produce them (:3016-3025, :3064-3074). -/
def tileSizeSb (sb log2 : Nat) : Nat := (sb + 2 ^ log2 - 1) / 2 ^ log2

/-- the `for (start_sb = 0; start_sb < sb; i++) start_sb += size_sb` loop; fuel = sb. -/
def tileStartsAux (sb size : Nat) : Nat → Nat → List Nat
  | 0, _ => []
  | fuel + 1, start => if start < sb then start :: tileStartsAux sb size fuel (start + size) else []

def tileStarts (sb log2 : Nat) : List Nat := tileStartsAux sb (tileSizeSb sb log2) sb 0

structure TileInfo where
  colsLog2 : Nat
  rowsLog2 : Nat
  tileCols : Nat
  tileRows : Nat
  colStartsSb : List Nat
  rowStartsSb : List Nat
  colSizeSb : Nat
  rowSizeSb : Nat
  deriving Repr, DecidableEq, Inhabited

def clampLog2 (req lo hi : Nat) : Nat := min (max req lo) hi

/-- set_tile_info (:3077-3115) with uniform_tile_spacing_flag = 1 (:3096).  Rows are clamped below by
    max(min_log2_tiles - log2_tile_cols, 0), the value svt_av1_calculate_tile_cols stores (:3027-3028). -/
def tileInfo (miCols miRows log2Sb reqCols reqRows : Nat) : TileInfo :=
  let L := tileLimits miCols miRows log2Sb
  let cl := clampLog2 reqCols L.minLog2Cols L.maxLog2Cols
  let minRows := L.minLog2Tiles - cl
  let rl := clampLog2 reqRows minRows L.maxLog2Rows
  let cs := tileStarts L.sbCols cl
  let rs := tileStarts L.sbRows rl
  { colsLog2 := cl, rowsLog2 := rl, tileCols := cs.length, tileRows := rs.length
    colStartsSb := cs, rowStartsSb := rs
    colSizeSb := tileSizeSb L.sbCols cl, rowSizeSb := tileSizeSb L.sbRows rl }

/-- Number of `1` increment bits write_tile_info_max_tile emits for the rows (:2957-2960): the writer counts from
    tiles_info.min_log2_tile_rows, which write_tile_info has just reset to 0 through svt_av1_get_tile_limits (:3123),
    whereas a decoder counts from max(minLog2Tiles - TileColsLog2, 0).  The two agree iff that value is 0. -/
def rowsIncrementBitsWritten (miCols miRows log2Sb reqCols reqRows : Nat) : Nat :=
  (tileInfo miCols miRows log2Sb reqCols reqRows).rowsLog2

def minLog2RowsSpec (miCols miRows log2Sb reqCols : Nat) : Nat :=
  let L := tileLimits miCols miRows log2Sb
  L.minLog2Tiles - clampLog2 reqCols L.minLog2Cols L.maxLog2Cols

end ToolGate
