/-
  C24 — executable model of the EncDec wavefront segments (core Lean only, no Mathlib).

  Transcribes, as the code IS at the pinned commit:
    * `enc_dec_segments_ctor` / `enc_dec_segments_init`      Source/Lib/Encoder/Codec/EbEncDecSegments.c:36-168
    * the macros BAND_TOTAL_COUNT / ROW_INDEX / BAND_INDEX / SEGMENT_INDEX   EbEncDecSegments.h:33-40
    * the segment SB loop of `mode_decision_kernel`           EbEncDecProcess.c:4405-4415, 4435-4442, 4683
    * `assign_enc_dec_segments`                               EbEncDecProcess.c:284-413
  All C integer types are explicit: `u32` for `uint32_t`/`unsigned` arithmetic, `u16` for the
  `uint16_t` arrays (`valid_sb_count_array`, `x/y_start_array`, `*_seg_index`), `u8` for `dependency_map`.
-/
namespace Seg

/-! ## C integer semantics -/
def u8 (n : Nat) : Nat := n % 256
def u16 (n : Nat) : Nat := n % 65536
def u32 (n : Nat) : Nat := n % 4294967296
/-- `a - b` in `uint32_t` -/
def sub32 (a b : Nat) : Nat := u32 (u32 a + (4294967296 - u32 b))

/-! ## the header's macros (EbEncDecSegments.h:33-40), all operands `uint32_t`/`unsigned` -/
/-- `BAND_TOTAL_COUNT(rows, cols) = rows + cols - 1` -/
def bandTotalCount (r c : Nat) : Nat := sub32 (u32 (r + c)) 1
/-- `ROW_INDEX(y, segment_row_count, sb_row_total_count) = (y * R) / H` (C: division by zero when `H = 0`) -/
def rowIndex (y R H : Nat) : Nat := u32 (y * R) / H
/-- `BAND_INDEX(x, y, segment_band_count, sb_band_total_count) = ((x + y) * B) / T` -/
def bandIndex (x y B T : Nat) : Nat := u32 (u32 (x + y) * B) / T
/-- `SEGMENT_INDEX(row, band, segment_band_count) = row * B + band` -/
def segmentIndex (r b B : Nat) : Nat := u32 (u32 (r * B) + b)

/-! ## arrays: total get/set with C-like "nothing happens out of the modelled range" -/
def aget (a : Array Nat) (i : Nat) : Nat := a.getD i 0
def aset (a : Array Nat) (i v : Nat) : Array Nat := a.setIfInBounds i v
def amod (a : Array Nat) (i : Nat) (f : Nat → Nat) : Array Nat := aset a i (f (aget a i))

structure SegRow where
  starting : Nat
  ending : Nat
  current : Nat
deriving Repr, BEq, Inhabited

/-- `EncDecSegments` after `enc_dec_segments_init`.  The arrays hold exactly the first
    `segment_ttl_count` entries (the part `init` memsets and defines); `maxTotalCount` is the size
    the constructor allocated (`init` does not re-check it). -/
structure SegCtl where
  maxRowCount : Nat
  maxBandCount : Nat
  maxTotalCount : Nat
  segBandCount : Nat
  segRowCount : Nat
  segTtlCount : Nat
  sbBandCount : Nat
  sbRowCount : Nat
  validSb : Array Nat
  xStart : Array Nat
  yStart : Array Nat
  dep : Array Nat
  rows : Array SegRow
deriving Repr, Inhabited

/-- all SBs of a `W x H` grid in the raster order of the init loop (`y` outer, `x` inner; lines 99-100) -/
def allSbs (W H : Nat) : List (Nat × Nat) :=
  (List.range H).flatMap fun y => (List.range W).map fun x => (x, y)

/-- segment index of SB `(x, y)` as computed inside the init loop (lines 101-106) -/
def sbSeg (B T R H : Nat) (p : Nat × Nat) : Nat :=
  segmentIndex (rowIndex p.2 R H) (bandIndex p.1 p.2 B T) B

/-- row controls (lines 122-143) -/
def mkRow (W sbRow segRow B T : Nat) (r : Nat) : SegRow :=
  let y := u32 (u32 (r * sbRow) + sub32 segRow 1) / segRow
  let yLast := sub32 (u32 (u32 ((r + 1) * sbRow) + sub32 segRow 1) / segRow) 1
  let st := u16 (segmentIndex r (bandIndex 0 y B T) B)
  let en := u16 (segmentIndex r (bandIndex (sub32 W 1) yLast B T) B)
  { starting := st, ending := en, current := st }

def rowStart (rows : Array SegRow) (r : Nat) : Nat := (rows.getD r default).starting
def rowEnd (rows : Array SegRow) (r : Nat) : Nat := (rows.getD r default).ending

/-- body of the dependency loop (lines 152-163) for one `segment_index` of row `row` -/
def depBody (valid : Array Nat) (rows : Array SegRow) (segRow B : Nat) (row : Nat) (d : Array Nat) (seg : Nat) :
    Array Nat :=
  if aget valid seg ≠ 0 then
    let d := if seg < rowEnd rows row then amod d (u32 (seg + 1)) (fun v => u8 (v + 1)) else d
    if row < sub32 segRow 1 ∧ u32 (seg + B) ≥ rowStart rows (row + 1) then
      amod d (u32 (seg + B)) (fun v => u8 (v + 1))
    else d
  else d

/-- the segments of one row visited by `for (segment_index = starting; segment_index <= ending; ++segment_index)` -/
def rowSegs (rows : Array SegRow) (r : Nat) : List Nat :=
  List.range' (rowStart rows r) (rowEnd rows r + 1 - rowStart rows r)

/-- `enc_dec_segments_ctor(maxC, maxR)` followed by `enc_dec_segments_init(C, R, W, H)`. -/
def initSeg (W H C R MC MR : Nat) : SegCtl :=
  -- ctor (lines 42-45)
  let maxBand := u32 (MR + MC)
  let maxTotal := u32 (MR * maxBand)
  -- clamps (lines 74-78)
  let c1 := if C < W then C else W
  let r1 := if R < H then R else H
  let r2 := if r1 < MR then r1 else MR
  -- line 83: a picture / tile group one SB wide gets a single segment row
  let r3 := if W = 1 then 1 else r2
  -- lines 85-90
  let sbBand := bandTotalCount H W
  let segBand := bandTotalCount r3 c1
  let ttl := u32 (r3 * segBand)
  let seg := sbSeg segBand sbBand r3 H
  let sbs := allSbs W H
  -- lines 93-119
  let valid := sbs.foldl (fun a p => amod a (seg p) (fun v => u16 (v + 1))) (Array.replicate ttl 0)
  let xs := sbs.foldl (fun a p => amod a (seg p) (fun v => if v == 65535 then u16 p.1 else v)) (Array.replicate ttl 65535)
  let ys := sbs.foldl (fun a p => amod a (seg p) (fun v => if v == 65535 then u16 p.2 else v)) (Array.replicate ttl 65535)
  -- lines 122-143
  let rows := ((List.range r3).map (mkRow W H r3 segBand sbBand)).toArray
  -- lines 146-165
  let dep := (List.range r3).foldl
    (fun d r => (rowSegs rows r).foldl (depBody valid rows r3 segBand r) d) (Array.replicate ttl 0)
  { maxRowCount := MR, maxBandCount := maxBand, maxTotalCount := maxTotal,
    segBandCount := segBand, segRowCount := r3, segTtlCount := ttl,
    sbBandCount := sbBand, sbRowCount := H,
    validSb := valid, xStart := xs, yStart := ys, dep := dep, rows := rows }

/-! ## the segment SB loop of `mode_decision_kernel` (EbEncDecProcess.c:4405-4442, 4683) -/

/-- inner `for (x = x_start; x < W && x + y < band_size && i < end; ++x, ++i)`; fuel `W` suffices
    because `x < W` bounds it. Returns the emitted SBs (reversed accumulator) and the final `i`. -/
def sbInner (W bandSize iEnd y : Nat) : Nat → Nat → Nat → List (Nat × Nat) → List (Nat × Nat) × Nat
  | 0, _, i, acc => (acc, i)
  | fuel + 1, x, i, acc =>
    if x < W ∧ u32 (x + y) < bandSize ∧ i < iEnd then
      sbInner W bandSize iEnd y fuel (u32 (x + 1)) (u32 (i + 1)) ((x, y) :: acc)
    else (acc, i)

/-- outer `for (y = y_start, i = sb_start; i < end; ++y) { inner; x_start = x_start > 0 ? x_start - 1 : 0; }`.
    The C loop has no bound on `y`; the model (and the harness) stop after `fuel` outer iterations and
    report `runaway = true`. -/
def sbOuter (W bandSize iEnd : Nat) : Nat → Nat → Nat → Nat → List (Nat × Nat) → List (Nat × Nat) × Bool
  | 0, _, _, _, acc => (acc, true)
  | fuel + 1, y, xStart, i, acc =>
    if i < iEnd then
      let (acc', i') := sbInner W bandSize iEnd y W xStart i acc
      let xStart' := if xStart > 0 then xStart - 1 else 0
      if fuel = 0 then (acc', true) else sbOuter W bandSize iEnd fuel (u32 (y + 1)) xStart' i' acc'
    else (acc, false)

/-- SBs processed for `segment_index = seg`, in processing order, and the runaway flag.
    `W = tile_group_width_in_sb`. -/
def segSbs (g : SegCtl) (W : Nat) (seg : Nat) : List (Nat × Nat) × Bool :=
  let xs := aget g.xStart seg                                   -- 4405
  let ys := aget g.yStart seg                                   -- 4406
  let sbStart := u32 (u32 (ys * W) + xs)                        -- 4407
  let cnt := aget g.validSb seg                                 -- 4408
  let rowIdx := seg / g.segBandCount                            -- 4410
  let bandIdx := sub32 seg (u32 (rowIdx * g.segBandCount))      -- 4411
  let bandSize := u32 (u32 (u32 (g.sbBandCount * u32 (bandIdx + 1)) + g.segBandCount) + 4294967295) / g.segBandCount -- 4413
  let (acc, run) := sbOuter W bandSize (u32 (sbStart + cnt)) (g.sbRowCount + 2) ys xs sbStart []
  (acc.reverse, run)

/-! ## `assign_enc_dec_segments` as a transition system

  One atomic step = the code a worker executes between two scheduling points, where the scheduling
  points are: waiting for a task (`EB_GET_FULL_OBJECT`, EbEncDecProcess.c:4350), processing the SBs of
  the segment it was handed (the body of the `while (assign…)` loop), and every `svt_block_on_mutex`
  inside `assign_enc_dec_segments` (lines 353 and 375).  Hence each mutex-protected block is one atomic
  step, and a worker's CONTINUE call is up to three steps (`fin`, `right`, `bottom`) that interleave
  freely with the steps of all other workers.

  Workers are anonymous: an in-flight CONTINUE call is identified by the segment it is finishing
  (`ph s ∈ {2,3}`), a worker processing SBs by its segment (`ph s = 1`).  Any number of workers:
  `take` is always enabled when the task pool is non-empty.  A situation the segment-keyed state cannot
  represent — the code handing out a segment that was already handed out, or one outside the arrays —
  sets `err` (theorem `assign_safe` proves it unreachable).
-/

inductive Task where
  | mdc                -- ENCDEC_TASKS_MDC_INPUT
  | fb (row : Nat)     -- ENCDEC_TASKS_ENCDEC_INPUT with enc_dec_segment_row = row
deriving Repr, BEq, DecidableEq, Inhabited

structure ASt where
  dep : Array Nat      -- dep_map.dependency_map (uint8_t)
  cur : Array Nat      -- row_array[r].current_seg_index (uint16_t)
  ph : Array Nat       -- per segment: 0 not handed out, 1 SBs being processed, 2 at the row mutex (right block),
                       --              3 at the next row's mutex (bottom block), 4 its CONTINUE call returned
  selfA : Array Nat    -- for `ph s = 3`: the local `self_assigned` of the call finishing `s`
  pool : List Task     -- tasks waiting in the EncDec input fifo (MDC results + feedback tasks)
  err : Nat            -- 0 ok, 1 segment handed out twice / out of range, 2 dependency_map index out of range
deriving Repr, Inhabited

inductive Op where
  | take (k : Nat)     -- a free worker dequeues pool[k] and executes the MDC_INPUT / ENCDEC_INPUT case
  | fin (s : Nat)      -- SB loop of `s` done; CONTINUE call starts: evaluates the two edge conditions (lines 345-352, 372-374)
  | right (s : Nat)    -- right-neighbour block under row mutex (lines 353-368)
  | bottom (s : Nat)   -- bottom-left block under next row's mutex (lines 375-393) + feedback post (396-405)
deriving Repr, BEq, Inhabited

def initASt (g : SegCtl) : ASt :=
  { dep := g.dep, cur := g.rows.map (·.current), ph := Array.replicate g.segTtlCount 0,
    selfA := Array.replicate g.segTtlCount 0, pool := [Task.mdc], err := 0 }

/-- hand out segment `t` (`*segmentInOutIndex = …current_seg_index`, return TRUE) -/
def startSeg (st : ASt) (t : Nat) : ASt :=
  if t < st.ph.size ∧ aget st.ph t = 0 then { st with ph := aset st.ph t 1 } else { st with err := 1 }

/-- `*segmentInOutIndex = row_array[r].current_seg_index; ++row_array[r].current_seg_index;` -/
def startRowCurrent (st : ASt) (r : Nat) : ASt :=
  let t := aget st.cur r
  startSeg { st with cur := aset st.cur r (u16 (t + 1)) } t

/-- `segment_index < row_array[row].ending_seg_index` (line 352) -/
def hasRight (g : SegCtl) (s : Nat) : Bool := s < rowEnd g.rows (s / g.segBandCount)
/-- `row < segment_row_count - 1 && segment_index + segment_band_count >= row_array[row+1].starting_seg_index` (372-374) -/
def hasBottom (g : SegCtl) (s : Nat) : Bool :=
  s / g.segBandCount < sub32 g.segRowCount 1 ∧ u32 (s + g.segBandCount) ≥ rowStart g.rows (s / g.segBandCount + 1)

def assignStep (g : SegCtl) (st : ASt) : Op → Option ASt
  | .take k =>
    if st.err ≠ 0 then none else
    match st.pool[k]? with
    | none => none
    | some Task.mdc =>
      -- lines 308-317: reset every row's current index, hand out row 0's
      let st1 := { st with pool := st.pool.eraseIdx k, cur := g.rows.map (·.starting) }
      some (startRowCurrent st1 0)
    | some (Task.fb r) =>
      -- lines 331-334
      some (startRowCurrent { st with pool := st.pool.eraseIdx k } r)
  | .fin s =>
    if st.err ≠ 0 ∨ ¬ (s < st.ph.size ∧ aget st.ph s = 1) then none else
    let p := if hasRight g s then 2 else if hasBottom g s then 3 else 4
    some { st with ph := aset st.ph s p, selfA := aset st.selfA s 0 }
  | .right s =>
    if st.err ≠ 0 ∨ ¬ (s < st.ph.size ∧ aget st.ph s = 2) then none else
    let r := s / g.segBandCount
    let i := u32 (s + 1)
    if ¬ i < st.dep.size then some { st with err := 2 } else
    let d := u8 (aget st.dep i + 255)                               -- --dependency_map[right] (uint8_t)
    let st1 := { st with dep := aset st.dep i d }
    let st2 := if d = 0 then startRowCurrent st1 r else st1        -- lines 357-366
    let self := if d = 0 then 1 else 0
    let p := if hasBottom g s then 3 else 4
    some { st2 with ph := aset st2.ph s p, selfA := aset st2.selfA s self }
  | .bottom s =>
    if st.err ≠ 0 ∨ ¬ (s < st.ph.size ∧ aget st.ph s = 3) then none else
    let r := s / g.segBandCount
    let i := u32 (s + g.segBandCount)
    if ¬ i < st.dep.size then some { st with err := 2 } else
    let d := u8 (aget st.dep i + 255)                               -- --dependency_map[bottom_left]
    let st1 := { st with dep := aset st.dep i d }
    let st2 :=
      if d = 0 then
        if aget st.selfA s = 1 then { st1 with pool := st1.pool ++ [Task.fb (r + 1)] }   -- 380-381, 396-405
        else startRowCurrent st1 (r + 1)                                                  -- 383-386
      else st1
    some { st2 with ph := aset st2.ph s 4 }

/-- the ops that could be enabled in `st` (used by the driver to detect quiescence) -/
def enabledOps (g : SegCtl) (st : ASt) : List Op :=
  ((List.range st.pool.length).map Op.take ++
   (List.range st.ph.size).flatMap fun s => [Op.fin s, Op.right s, Op.bottom s]).filter
    fun op => (assignStep g st op).isSome

/-! ## executable structural check used by the abstract scheduling theorem (`Lemmas/Segments.lean`) -/

def allB (n : Nat) (p : Nat → Bool) : Bool := (List.range n).all p

/-- Everything the scheduling proof needs to know about a `SegCtl`, as a decidable check.
    `live = false` drops the one clause (every row after the first has its first segment fed by a
    bottom edge from the row above) that is needed for completion only.  (`initSeg` satisfies both
    for every accepted input: theorems `C24.init_wf`, `C24.init_live`.) -/
def wfCheck (g : SegCtl) (live : Bool) : Bool :=
  let B := g.segBandCount
  let R := g.segRowCount
  let st := rowStart g.rows
  let en := rowEnd g.rows
  decide (1 ≤ B) && decide (1 ≤ R) && decide (R * B < 65536) && decide (g.segTtlCount = R * B) &&
  decide (g.rows.size = R) && decide (g.dep.size = R * B) &&
  allB R (fun r => decide (r * B ≤ st r) && decide (st r ≤ en r) && decide (en r < (r + 1) * B) &&
    decide ((g.rows.getD r default).current = st r)) &&
  allB (R - 1) (fun r => decide (st r + B ≤ st (r + 1)) && decide (en r + B ≤ en (r + 1)) &&
    (!live || decide (st (r + 1) ≤ en r + B))) &&
  allB R (fun r => (rowSegs g.rows r).all fun t =>
    decide (aget g.dep t = (if st r < t then 1 else 0) +
      (if 1 ≤ r ∧ st (r - 1) + B ≤ t ∧ t ≤ en (r - 1) + B then 1 else 0)))

end Seg
