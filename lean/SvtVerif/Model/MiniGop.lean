/-
  C03 — the pre-assignment buffer of `picture_decision_kernel`
  (/repo/Source/Lib/Encoder/Codec/EbPictureDecisionProcess.c, pinned commit), as the code IS:

    * l.4738-4745  the picture leaving the picture-decision reorder queue (display order) is appended to
                   `pre_assignment_buffer[pre_assignment_buffer_count]`;
    * l.4793-4798  `pre_assignment_buffer_eos_flag |= end_of_sequence_flag`,
                   `pre_assignment_buffer_intra_count += idr_flag || cra_flag`, `pre_assignment_buffer_count += 1`;
    * l.4811-4816  the buffer is released iff `intra_count > 0 || count == 1 << hierarchical_levels || eos_flag ||
                   pred_structure is low-delay`;
    * l.4826-4870  the released buffer is split into mini-GOPs (`generate_picture_window_split`,
                   `handle_incomplete_picture_window_map`) — NOT transcribed: the split is the parameter `split`, constrained
                   only by `(split buf).flatten` being a permutation of `buf` (every buffer index belongs to exactly one mini-GOP;
                   the order inside a mini-GOP is the decode order and is arbitrary here);
    * l.5570-5585  per mini-GOP: `if (prev_delayed_intra) { send_picture_out(prev_delayed_intra); prev_delayed_intra = NULL; }`
                   then for each picture of the mini-GOP: `if (is_delayed_intra(pcs)) prev_delayed_intra = pcs; else send_picture_out(pcs)`;
    * l.5588-5593  reset: count = intra_count = 0, eos_flag = FALSE.

  `is_delayed_intra` (l.3739-3750) is transcribed as `isDelayedIntra`; the generic machinery takes any `delay` (argument 1 =
  `pcs->pre_assignment_buffer_count`, which l.4886 sets to the length of the picture's mini-GOP) and the theorems only use
  two facts about it (FALSE for a non-intra picture, FALSE when `end_of_sequence_flag` is set).
  Core Lean only.
-/
namespace MiniGop

structure Pic where
  num : Nat     -- picture_number
  idr : Bool    -- idr_flag at l.4796 (after the intra-period test, see Model/IntraPeriod.lean)
  cra : Bool    -- cra_flag at l.4796
  eos : Bool    -- end_of_sequence_flag
deriving Repr, DecidableEq

/-- `pcs_ptr->idr_flag || pcs_ptr->cra_flag` (l.4796). -/
def Pic.intra (p : Pic) : Bool := p.idr || p.cra

/-- `is_delayed_intra` l.3739-3750: `P` = `static_config.intra_period_length`, `period` = `pred_struct_ptr->pred_struct_period`,
    `mgLen` = `pcs->pre_assignment_buffer_count` (= `mini_gop_length` of the picture's mini-GOP, l.4886). -/
def isDelayedIntra (P : Int) (period : Nat) (mgLen : Nat) (p : Pic) : Bool :=
  if p.idr || p.cra then
    if P == 0 || p.eos then false
    else if p.idr || (p.cra && decide (mgLen < period)) then true
    else false
  else false

structure St where
  buf     : List Pic          -- pre_assignment_buffer[0 .. count-1]
  intraCt : Nat               -- pre_assignment_buffer_intra_count
  eosFlag : Bool              -- pre_assignment_buffer_eos_flag
  delayed : Option Pic        -- context_ptr->prev_delayed_intra
  sent    : List Pic          -- pictures handed to send_picture_out, oldest first
deriving Repr

def init : St := { buf := [], intraCt := 0, eosFlag := false, delayed := none, sent := [] }

/-- l.5577-5585 for one picture of a mini-GOP. -/
def sendOne (delay : Pic → Bool) (s : St) (p : Pic) : St :=
  if delay p then { s with delayed := some p } else { s with sent := s.sent ++ [p] }

/-- l.5570-5585 for one mini-GOP (`g.length` = `mini_gop_length`, what `is_delayed_intra` reads as
    `pcs->pre_assignment_buffer_count`). -/
def sendGroup (delay : Nat → Pic → Bool) (s : St) (g : List Pic) : St :=
  let s1 : St := match s.delayed with
    | some q => { s with delayed := none, sent := s.sent ++ [q] }
    | none => s
  g.foldl (sendOne (delay g.length)) s1

/-- l.4811-4816: release condition after the picture has been appended. -/
def releaseNow (levels : Nat) (lowDelay : Bool) (count intraCt : Nat) (eosFlag : Bool) : Bool :=
  decide (intraCt > 0) || decide (count = 2 ^ levels) || eosFlag || lowDelay

/-- One picture entering the pre-assignment buffer (l.4738-5593). -/
def step (levels : Nat) (lowDelay : Bool) (delay : Nat → Pic → Bool) (split : List Pic → List (List Pic)) (s : St) (p : Pic) : St :=
  let buf := s.buf ++ [p]
  let ic := s.intraCt + (if p.intra then 1 else 0)
  let ef := s.eosFlag || p.eos
  if releaseNow levels lowDelay buf.length ic ef then
    let s' := (split buf).foldl (sendGroup delay) { s with buf := buf, intraCt := ic, eosFlag := ef }
    { s' with buf := [], intraCt := 0, eosFlag := false }
  else { s with buf := buf, intraCt := ic, eosFlag := ef }

def run (levels : Nat) (lowDelay : Bool) (delay : Nat → Pic → Bool) (split : List Pic → List (List Pic)) (ps : List Pic) : St :=
  ps.foldl (step levels lowDelay delay split) init

end MiniGop
