/-
  C07 (part B) — lane-level models of the 32-bit full-distortion kernels, transcribed intrinsic by intrinsic.

  K2a  svt_full_distortion_kernel32_bits_c      /repo/Source/Lib/Common/Codec/EbPictureOperators.c:156-180
       svt_full_distortion_kernel32_bits_avx2   /repo/Source/Lib/Common/ASM_AVX2/EbPictureOperators_Intrinsic_AVX2.c:1242-1291
  K2b  svt_full_distortion_kernel_cbf_zero32_bits_c     EbPictureOperators.c:212-231
       svt_full_distortion_kernel_cbf_zero32_bits_avx2  EbPictureOperators_Intrinsic_AVX2.c:1293-1325

  Conventions (see Model/Simd.lean): `int32_t *coeff` = a `Mem 32` plus an element index `cp`; `coeff += coeff_stride`
  is `cp + cs` (Nat, no wrap: buffers are far smaller than 2^32 elements); `uint64_t distortion_result[2]` = a `Mem 64`
  plus element index `dp`.  `area_width`/`area_height` are `uint32_t`: the models take `w h : Nat` and are meant for
  `w, h < 2^32`.  The models mirror the code AS IT IS, in particular `sum1 = _mm256_add_epi32(sum1, x)` (line 1268).

  The AVX2 loops are `do { .. } while (--col_count)` / `do { .. row_count -= 1; } while (row_count > 0)` on `uint32_t`
  counters: modelled with `BitVec 32` counters and fuel; fuel exhaustion (`none`) happens exactly outside the
  domain (col_count = area_width / 4 = 0 wraps to 2^32 - 1 in the real code and runs off the buffers).
  Core Lean only.
-/
import SvtVerif.Model.Simd

namespace Simd

/-- `(int64_t)(int32 value)` -/
def sext64 (x : BitVec 32) : BitVec 64 := x.signExtend 64

/-! ### K2a C reference: EbPictureOperators.c:156-180 -/

/-- accumulators + the two moving pointers of `svt_full_distortion_kernel32_bits_c` -/
structure Fd32C where
  residual : BitVec 64      -- uint64_t residual_distortion   (line 161)
  prediction : BitVec 64    -- uint64_t prediction_distortion (line 162)
  coeff : Nat               -- int32_t *coeff (element index)
  recon : Nat               -- int32_t *recon_coeff

/-- lines 166-171: `while (column_index < area_width) { .. ++column_index; }` (column_index = 0 .. area_width-1).
    `SQR(x) = (x)*(x)` on `int64_t` (wrap-around 64-bit product; the value is then converted to uint64_t and added
    mod 2^64).  NOTE: for |coeff - recon| > 3037000499 the int64 square overflows (undefined behaviour in C; two's
    complement wrap with gcc/clang in practice, which is what `*` on `BitVec 64` models). -/
def fd32cRow (coeff recon : Mem 32) (w : Nat) (s : Fd32C) : Fd32C :=
  (List.range w).foldl (fun s column_index =>
    -- 167-168: residual_distortion += (int64_t)SQR((int64_t)(coeff[column_index]) - (recon_coeff[column_index]));
    let d := sext64 (coeff (s.coeff + column_index)) - sext64 (recon (s.recon + column_index))
    -- 169: prediction_distortion += (int64_t)SQR((int64_t)(coeff[column_index]));
    let c := sext64 (coeff (s.coeff + column_index))
    { s with residual := s.residual + d * d, prediction := s.prediction + c * c }) s

/-- lines 164-176: `while (row_index < area_height) { row; coeff += coeff_stride; recon_coeff += recon_coeff_stride; ++row_index; }` -/
def fd32cRows (coeff recon : Mem 32) (cs rs w h : Nat) (s : Fd32C) : Fd32C :=
  (List.range h).foldl (fun s _row_index =>
    let s := fd32cRow coeff recon w s
    { s with coeff := s.coeff + cs, recon := s.recon + rs }) s

/-- `svt_full_distortion_kernel32_bits_c`: the updated `distortion_result` buffer
    (178: `[DIST_CALC_RESIDUAL = 0] = residual_distortion`, 179: `[DIST_CALC_PREDICTION = 1] = prediction_distortion`) -/
def fullDist32_c_mem (coeff : Mem 32) (cp cs : Nat) (recon : Mem 32) (rp rs : Nat) (dist : Mem 64) (dp : Nat)
    (w h : Nat) : Mem 64 :=
  let s := fd32cRows coeff recon cs rs w h ⟨0, 0, cp, rp⟩
  store1 (store1 dist (dp + 0) s.residual) (dp + 1) s.prediction

/-- the two values written: (residual, prediction) -/
def fullDist32_c (coeff : Mem 32) (cp cs : Nat) (recon : Mem 32) (rp rs : Nat) (w h : Nat) : BitVec 64 × BitVec 64 :=
  let m := fullDist32_c_mem coeff cp cs recon rp rs (fun _ => 0) 0 w h
  (m 0, m 1)

/-! ### K2a AVX2: EbPictureOperators_Intrinsic_AVX2.c:1242-1291 -/

structure Fd32V where
  sum1 : Reg   -- __m256i sum1 (line 1247)
  sum2 : Reg   -- __m256i sum2 (line 1248)

/-- loop body, lines 1258-1268, at `coeff_temp = ct`, `recon_coeff_temp = rt` -/
def fd32vBody (coeff recon : Mem 32) (ct rt : Nat) (s : Fd32V) : Fd32V :=
  let x0 := loadU32 coeff ct 4 16            -- 1260: x0 = _mm_loadu_si128((__m128i *)(coeff_temp));
  let y0 := loadU32 recon rt 4 16            -- 1261: y0 = _mm_loadu_si128((__m128i *)(recon_coeff_temp));
  let x := mm256_cvtepi32_epi64 x0           -- 1262: x = _mm256_cvtepi32_epi64(x0);
  let y := mm256_cvtepi32_epi64 y0           -- 1263: y = _mm256_cvtepi32_epi64(y0);
  let z := mul_epi32 x x                     -- 1264: z = _mm256_mul_epi32(x, x);
  let sum2 := add_epi64 s.sum2 z             -- 1265: sum2 = _mm256_add_epi64(sum2, z);
  let x := sub_epi64 x y                     -- 1266: x = _mm256_sub_epi64(x, y);
  let x := mul_epi32 x x                     -- 1267: x = _mm256_mul_epi32(x, x);   (LOW dwords of x only)
  let sum1 := add_epi32 s.sum1 x             -- 1268: sum1 = _mm256_add_epi32(sum1, x);   (32-bit lanes!)
  ⟨sum1, sum2⟩

/-- lines 1257-1271: `do { body; coeff_temp += 4; recon_coeff_temp += 4; } while (--col_count);` -/
def fd32vCols (coeff recon : Mem 32) : Nat → BitVec 32 → Nat → Nat → Fd32V → Option Fd32V
  | 0, _, _, _, _ => none
  | fuel + 1, col_count, ct, rt, s =>
    let s := fd32vBody coeff recon ct rt s
    let ct := ct + 4                          -- 1269
    let rt := rt + 4                          -- 1270
    let col_count := col_count - 1            -- 1271: --col_count (uint32_t, wraps)
    if col_count != 0 then fd32vCols coeff recon fuel col_count ct rt s else some s

/-- lines 1252-1276: `do { cols; coeff += coeff_stride; recon_coeff += recon_coeff_stride; row_count -= 1; } while (row_count > 0);` -/
def fd32vRows (coeff recon : Mem 32) (cs rs w : Nat) : Nat → BitVec 32 → Nat → Nat → Fd32V → Option Fd32V
  | 0, _, _, _, _ => none
  | fuel + 1, row_count, cp, rp, s =>
    let col_count := BitVec.ofNat 32 (w / 4)  -- 1256: uint32_t col_count = area_width / 4;
    match fd32vCols coeff recon (w / 4) col_count cp rp s with
    | none => none
    | some s =>
      let cp := cp + cs                       -- 1273
      let rp := rp + rs                       -- 1274
      let row_count := row_count - 1          -- 1275
      if row_count.toNat > 0 then fd32vRows coeff recon cs rs w fuel row_count cp rp s else some s

/-- `svt_full_distortion_kernel32_bits_avx2`: the updated `distortion_result` buffer, `none` = out of fuel (outside the domain) -/
def fullDist32_avx2_mem (coeff : Mem 32) (cp cs : Nat) (recon : Mem 32) (rp rs : Nat) (dist : Mem 64) (dp : Nat)
    (w h : Nat) : Option (Mem 64) :=
  -- 1247-1248: sum1 = sum2 = _mm256_setzero_si256();  1251: row_count = area_height;
  match fd32vRows coeff recon cs rs w h (BitVec.ofNat 32 h) cp rp ⟨mm256_setzero_si256, mm256_setzero_si256⟩ with
  | none => none
  | some s =>
    let temp1 := mm256_castsi256_si128 s.sum1          -- 1278
    let temp2 := mm256_extracti128_si256 s.sum1 1      -- 1279
    let temp1 := add_epi64 temp1 temp2                 -- 1280
    let temp2 := mm_shuffle_epi32 temp1 0x4e           -- 1281
    let temp3 := add_epi64 temp1 temp2                 -- 1282
    let temp1 := mm256_castsi256_si128 s.sum2          -- 1283
    let temp2 := mm256_extracti128_si256 s.sum2 1      -- 1284
    let temp1 := add_epi64 temp1 temp2                 -- 1285
    let temp2 := mm_shuffle_epi32 temp1 0x4e           -- 1286
    let temp1 := add_epi64 temp1 temp2                 -- 1287
    let temp1 := mm_unpacklo_epi64 temp3 temp1         -- 1288
    some (storeU64 dist dp temp1 2)                    -- 1290: _mm_storeu_si128((__m128i *)distortion_result, temp1);

/-- the two values written: (residual, prediction) -/
def fullDist32_avx2 (coeff : Mem 32) (cp cs : Nat) (recon : Mem 32) (rp rs : Nat) (w h : Nat) :
    Option (BitVec 64 × BitVec 64) :=
  (fullDist32_avx2_mem coeff cp cs recon rp rs (fun _ => 0) 0 w h).map fun m => (m 0, m 1)

/-! ### K2b C reference: EbPictureOperators.c:212-231 -/

structure FdzC where
  prediction : BitVec 64    -- uint64_t prediction_distortion (line 216)
  coeff : Nat

/-- lines 220-223 -/
def fdzcRow (coeff : Mem 32) (w : Nat) (s : FdzC) : FdzC :=
  (List.range w).foldl (fun s column_index =>
    -- 221: prediction_distortion += (int64_t)SQR((int64_t)(coeff[column_index]));
    let c := sext64 (coeff (s.coeff + column_index))
    { s with prediction := s.prediction + c * c }) s

/-- lines 218-227 -/
def fdzcRows (coeff : Mem 32) (cs w h : Nat) (s : FdzC) : FdzC :=
  (List.range h).foldl (fun s _row_index =>
    let s := fdzcRow coeff w s
    { s with coeff := s.coeff + cs }) s

/-- `svt_full_distortion_kernel_cbf_zero32_bits_c`: 229-230 write `prediction_distortion` to BOTH entries -/
def fullDistCbfZero32_c_mem (coeff : Mem 32) (cp cs : Nat) (dist : Mem 64) (dp : Nat) (w h : Nat) : Mem 64 :=
  let s := fdzcRows coeff cs w h ⟨0, cp⟩
  store1 (store1 dist (dp + 0) s.prediction) (dp + 1) s.prediction

def fullDistCbfZero32_c (coeff : Mem 32) (cp cs : Nat) (w h : Nat) : BitVec 64 × BitVec 64 :=
  let m := fullDistCbfZero32_c_mem coeff cp cs (fun _ => 0) 0 w h
  (m 0, m 1)

/-! ### K2b AVX2: EbPictureOperators_Intrinsic_AVX2.c:1293-1325 -/

/-- loop body, lines 1306-1312 -/
def fdzvBody (coeff : Mem 32) (ct : Nat) (sum : Reg) : Reg :=
  let x0 := loadU32 coeff ct 4 16            -- 1308: x0 = _mm_loadu_si128((__m128i *)(coeff_temp));
  let y0 := mm256_cvtepi32_epi64 x0          -- 1310: y0 = _mm256_cvtepi32_epi64(x0);
  let z0 := mul_epi32 y0 y0                  -- 1311: z0 = _mm256_mul_epi32(y0, y0);
  add_epi64 sum z0                           -- 1312: sum = _mm256_add_epi64(sum, z0);

/-- lines 1305-1313: `do { body (coeff_temp += 4 at 1309) } while (--col_count);` -/
def fdzvCols (coeff : Mem 32) : Nat → BitVec 32 → Nat → Reg → Option Reg
  | 0, _, _, _ => none
  | fuel + 1, col_count, ct, sum =>
    let sum := fdzvBody coeff ct sum
    let ct := ct + 4                          -- 1309
    let col_count := col_count - 1            -- 1313
    if col_count != 0 then fdzvCols coeff fuel col_count ct sum else some sum

/-- lines 1301-1317 -/
def fdzvRows (coeff : Mem 32) (cs w : Nat) : Nat → BitVec 32 → Nat → Reg → Option Reg
  | 0, _, _, _ => none
  | fuel + 1, row_count, cp, sum =>
    let col_count := BitVec.ofNat 32 (w / 4)  -- 1304
    match fdzvCols coeff (w / 4) col_count cp sum with
    | none => none
    | some sum =>
      let cp := cp + cs                       -- 1315
      let row_count := row_count - 1          -- 1316
      if row_count.toNat > 0 then fdzvRows coeff cs w fuel row_count cp sum else some sum

def fullDistCbfZero32_avx2_mem (coeff : Mem 32) (cp cs : Nat) (dist : Mem 64) (dp : Nat) (w h : Nat) : Option (Mem 64) :=
  -- 1297: sum = _mm256_setzero_si256();  1300: row_count = area_height;
  match fdzvRows coeff cs w h (BitVec.ofNat 32 h) cp mm256_setzero_si256 with
  | none => none
  | some sum =>
    let temp1 := mm256_castsi256_si128 sum             -- 1319
    let temp2 := mm256_extracti128_si256 sum 1         -- 1320
    let temp1 := add_epi64 temp1 temp2                 -- 1321
    let temp2 := mm_shuffle_epi32 temp1 0x4e           -- 1322
    let temp1 := add_epi64 temp1 temp2                 -- 1323
    some (storeU64 dist dp temp1 2)                    -- 1324: _mm_storeu_si128((__m128i *)distortion_result, temp1);

def fullDistCbfZero32_avx2 (coeff : Mem 32) (cp cs : Nat) (w h : Nat) : Option (BitVec 64 × BitVec 64) :=
  (fullDistCbfZero32_avx2_mem coeff cp cs (fun _ => 0) 0 w h).map fun m => (m 0, m 1)

end Simd
