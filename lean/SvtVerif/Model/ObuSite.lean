/-
  OBU framing *sites* of the encoder (C02): the reserve – move – encode sequence every OBU writer performs.

  Every OBU the encoder emits is produced by the same four steps
  (`/repo/Source/Lib/Encoder/Codec/EbEntropyCoding.c`):
    1. `write_obu_header(type, ext, data)` (l.4073) writes the header at `data`, returns its size `H`;
    2. the payload (`P` bytes) is written directly behind it, at `data + H`;
    3. `obu_mem_move(a1, a2, data)` (l.4099-4106):
         `length_field_size = svt_aom_uleb_size_in_bytes(a2)`            -- the RESERVED value is `a2`
         `memmove(data + (length_field_size + a1), data + a1, a2)`        -- dst, src, size
         returns `length_field_size`;
    4. `write_uleb_obu_size(a1, a2, data)` (l.4088-4098):
         `svt_aom_uleb_encode(a2, sizeof(uint32_t), data + a1, ..)`       -- the ENCODED value is `a2`, at offset `a1`
       and the caller advances its write pointer by some TOTAL.
  The packet is well framed only if the number of bytes reserved in step 3 is the number of bytes step 4 writes, for
  every payload size — in particular across the LEB128 length boundaries 127/128, 16383/16384, 2097151/2097152.

  `xlate/obusites.py` extracts, for every site in the encoder, the argument expressions of steps 3/4 and the total
  (callee bodies and local definitions inlined) as `SzExpr` trees over two atoms, `hdr` (= `H`, the value returned by
  `write_obu_header`) and `payload` (= `P`, everything added to the running size after the header), into
  `SvtVerif/Gen/ObuSites.lean`.  `layoutSite` below executes steps 3/4 on a byte buffer for a given site description;
  `Site.consistent` is the decidable syntactic condition (on linear normal forms) under which
  `Lemmas/ObuSite.lean` proves `layoutSite s hdr payload = hdr ++ leb128(|payload|) ++ payload` for ALL payloads.

  Core Lean only.
-/
import SvtVerif.Model.Obu

namespace ObuSite
open Leb128

/-- Size expressions at a framing site. `other` = a quantity the translator could not express in `hdr`/`payload`
    (a stale copy of the running size, an unrelated variable …); it has no normal form, so a site mentioning it is
    never `consistent`. -/
inductive SzExpr where
  | hdr : SzExpr
  | payload : SzExpr
  | lit : Nat → SzExpr
  | add : SzExpr → SzExpr → SzExpr
  | sub : SzExpr → SzExpr → SzExpr
  | ulebLen : SzExpr → SzExpr           -- `svt_aom_uleb_size_in_bytes(e)`
  | other : String → SzExpr
deriving Repr, Inhabited

/-- Value for header size `h` and payload size `p` (mathematical integers: all quantities are below 2^29 under the
    hypotheses of the theorems, so the `uint32_t`/`int32_t`/`size_t` arithmetic of the C code does not wrap). -/
def SzExpr.eval (h p : Nat) : SzExpr → Int
  | .hdr => h
  | .payload => p
  | .lit n => n
  | .add a b => a.eval h p + b.eval h p
  | .sub a b => a.eval h p - b.eval h p
  | .ulebLen a => (sizeInBytes (a.eval h p).toNat : Nat)
  | .other _ => 0

/-- One framing site as extracted by `xlate/obusites.py`. -/
structure Site where
  name : String
  func : String
  file : String
  line : Nat                    -- line of the `write_obu_header` call
  obuTypes : List Nat           -- OBU type(s) written at this site
  hdrSize : Option Nat          -- `some 1` when the extension argument of `write_obu_header` is the constant 0
  reserved : Option SzExpr      -- (a) value whose LEB128 length is reserved (`none`: no `obu_mem_move`, empty payload)
  moveDst : SzExpr              -- (c) memmove destination offset   (ignored when `reserved = none`)
  moveSrc : SzExpr              --     memmove source offset
  moveSize : SzExpr             --     memmove byte count
  encoded : SzExpr              -- (b) value `write_uleb_obu_size` encodes
  encodeAt : SzExpr             --     offset the size field is written at
  avail : Nat                   --     `available` argument of `svt_aom_uleb_encode` (`sizeof(obu_size)`)
  total : SzExpr                -- (d) what the caller adds to its write pointer / byte count for this OBU
deriving Repr, Inhabited

/-! ### executable layout -/

/-- Overwrite `bs.length` bytes of `buf` at offset `off` (in bounds in every use the lemmas cover). -/
def writeAt (buf : List UInt8) (off : Nat) (bs : List UInt8) : List UInt8 :=
  buf.take off ++ bs ++ buf.drop (off + bs.length)

/-- `memmove(buf + dst, buf + src, n)`: the source bytes are read before anything is written. -/
def memmove (buf : List UInt8) (dst src n : Nat) : List UInt8 :=
  writeAt buf dst ((buf.drop src).take n)

/-- Room behind the payload in the model buffer; `svt_aom_uleb_size_in_bytes` never exceeds 10 for a `uint64_t`
    (`Leb128.sizeGo 10` is at most 11), so the move always stays inside the buffer. -/
def slack : Nat := 11

/-- Steps 3 and 4 on a buffer that holds `hdr ++ payload`, then the first `total` bytes (what the caller keeps).
    When `write_uleb_obu_size` fails the C callers only `assert(0)` / ignore it: nothing is written. -/
def layoutSite (s : Site) (hdr payload : List UInt8) : List UInt8 :=
  let ev := fun (e : SzExpr) => (e.eval hdr.length payload.length).toNat
  let buf0 := hdr ++ payload ++ List.replicate slack 0
  let buf1 := match s.reserved with
    | some _ => memmove buf0 (ev s.moveDst) (ev s.moveSrc) (ev s.moveSize)
    | none => buf0
  let buf2 := match ulebEncode (ev s.encoded) s.avail with
    | some bs => writeAt buf1 (ev s.encodeAt) bs
    | none => buf1
  buf2.take (ev s.total)

/-! ### linear normal forms -/

/-- `c + h·H + p·P`. -/
structure Lin where
  c : Int
  h : Int
  p : Int
deriving DecidableEq, Repr

def Lin.eval (l : Lin) (h p : Nat) : Int := l.c + l.h * h + l.p * p
def Lin.add (a b : Lin) : Lin := ⟨a.c + b.c, a.h + b.h, a.p + b.p⟩
def Lin.sub (a b : Lin) : Lin := ⟨a.c - b.c, a.h - b.h, a.p - b.p⟩

/-- Sum of the LEB128 lengths of the listed linear forms. -/
def ulebSum (h p : Nat) : List Lin → Int
  | [] => 0
  | l :: ls => (sizeInBytes (l.eval h p).toNat : Nat) + ulebSum h p ls

/-- `lin + Σ ulebLen(l)` for `l ∈ ulebs`. -/
structure LinU where
  lin : Lin
  ulebs : List Lin
deriving DecidableEq, Repr

def LinU.eval (n : LinU) (h p : Nat) : Int := n.lin.eval h p + ulebSum h p n.ulebs

/-- Normal form of a size expression; `none` for `other`, for a LEB128 length of a LEB128 length, and for a
    subtracted LEB128 length (none of which a correct site contains). -/
def norm : SzExpr → Option LinU
  | .hdr => some ⟨⟨0, 1, 0⟩, []⟩
  | .payload => some ⟨⟨0, 0, 1⟩, []⟩
  | .lit n => some ⟨⟨n, 0, 0⟩, []⟩
  | .add a b =>
    match norm a, norm b with
    | some x, some y => some ⟨x.lin.add y.lin, x.ulebs ++ y.ulebs⟩
    | _, _ => none
  | .sub a b =>
    match norm a, norm b with
    | some x, some ⟨l, []⟩ => some ⟨x.lin.sub l, x.ulebs⟩
    | _, _ => none
  | .ulebLen a =>
    match norm a with
    | some ⟨l, []⟩ => some ⟨⟨0, 0, 0⟩, [l]⟩
    | _ => none
  | .other _ => none

def formP : LinU := ⟨⟨0, 0, 1⟩, []⟩                     -- P
def formH : LinU := ⟨⟨0, 1, 0⟩, []⟩                     -- H
def formDst : LinU := ⟨⟨0, 1, 0⟩, [⟨0, 0, 1⟩]⟩          -- H + ulebLen(P)
def formTotal : LinU := ⟨⟨0, 1, 1⟩, [⟨0, 0, 1⟩]⟩        -- H + P + ulebLen(P)
def formLit (k : Nat) : LinU := ⟨⟨k, 0, 0⟩, []⟩

/-- The syntactic condition checked (by `decide`) on every generated site.
    * moving site: reserved = encoded = moved size = `P`; source and size-field offset = `H`; destination =
      `H + ulebLen(P)`; total = `H + P + ulebLen(P)`; `available = 4`;
    * non-moving site (temporal delimiter: nothing behind the header): encoded = 0, size field at `H`,
      total = header size + 1 with a constant header size. -/
def Site.consistent (s : Site) : Bool :=
  match s.reserved with
  | some r =>
    decide (s.avail = 4) && decide (norm s.encodeAt = some formH) && decide (norm r = some formP) &&
    decide (norm s.encoded = some formP) && decide (norm s.moveSrc = some formH) &&
    decide (norm s.moveSize = some formP) && decide (norm s.moveDst = some formDst) &&
    decide (norm s.total = some formTotal)
  | none =>
    decide (s.avail = 4) && decide (norm s.encodeAt = some formH) && decide (norm s.encoded = some (formLit 0)) &&
    (match s.hdrSize with
     | some k => decide (norm s.total = some (formLit (k + 1)))
     | none => false)

/-- The shape of a site whose reservation is computed from header + payload instead of the payload
    (what a slip at the `obu_mem_move` call of `write_frame_header_av1` produces): everything else as in the real code. -/
def mismatchedSite : Site :=
  { name := "mismatched", func := "-", file := "-", line := 0, obuTypes := [6], hdrSize := some 1,
    reserved := some (.add .hdr .payload),
    moveDst := .add (.ulebLen (.add .hdr .payload)) .hdr, moveSrc := .hdr, moveSize := .add .hdr .payload,
    encoded := .payload, encodeAt := .hdr, avail := 4,
    total := .add (.add .hdr .payload) (.ulebLen (.add .hdr .payload)) }

end ObuSite
