/-
  C23 — lock discipline of EbSystemResourceManager.c: the obligation that ties the *granularity* of the
  model `Model/Srm.lean` (one `Op` = one critical section or one semaphore operation) to the C code.

  `xlate/srmlocks.py` walks every path of every non-constructor function of
  /repo/Source/Lib/Common/Codec/EbSystemResourceManager.c (clang AST, callees inlined, loops unrolled
  0/1/2 times with a `loopHead` marker) and emits, per API function, the ordered list of events:
  mutex lock / unlock, semaphore wait / post, and every read / write of memory reachable from the
  function's pointer parameters (including reads in initialisers of locals and in callees), each named by
  its *access path* (`root` + chain of struct members).  That table is `Gen/SrmLocks.lean`.

  This file (hand-written, core Lean only) states
  * the **struct layout** (`fieldTy`) of EbSystemResourceManager.h,
  * the **protection map** (`guardOf`): which mutex protects which member, derived from the code as it is,
  * `disciplined`: every access of a protected member happens while its mutex is held, members that are
    immutable after construction are never written, mutexes are named through immutable members only,
    are never taken twice, are taken in the order queue -> fifo, are all released on every path, and the
    semaphore wait happens with no mutex held,
  * `atomicBlock`: the sequence of top-level critical sections / semaphore operations of every path of a
    function is exactly the sequence of atomic steps `Srm.step` uses for that function.
-/
namespace LockDiscipline

/-! ## Struct layout (EbSystemResourceManager.h) -/

/-- The struct types the events talk about. -/
inductive Ty
  | wrapper    -- EbObjectWrapper           (h: 31-55)
  | fifo       -- EbFifo                    (h: 65-88)
  | queue      -- EbMuxingQueue             (h: 105-112)
  | ring       -- EbCircularBuffer          (h: 93-100)
  | resource   -- EbSystemResource          (h: 123-138)
  | slots      -- EbPtr[]            behind EbCircularBuffer.array_ptr
  | fifos      -- EbFifo*[]          behind EbMuxingQueue.process_fifo_ptr_array
  | wrappers   -- EbObjectWrapper*[] behind EbSystemResource.wrapper_ptr_pool
  | mutex      -- EbHandle lockout_mutex
  | sem        -- EbHandle counting_semaphore
  | other      -- scalars, payload pointers
  deriving DecidableEq, Repr

/-- Struct members (named as in the header).  `elem k`: an array element; `k` numbers the distinct index
    expressions occurring on one path (the protection map does not depend on `k`). -/
inductive Fld
  | live_count | release_enable | next_ptr | system_resource_ptr | object_ptr
  | empty_queue | full_queue | object_total_count | wrapper_ptr_pool
  | lockout_mutex | object_queue | process_queue | process_total_count | process_fifo_ptr_array
  | counting_semaphore | first_ptr | last_ptr | quit_signal | queue_ptr
  | array_ptr | head_index | tail_index | buffer_total_count | current_count
  | elem (k : Nat)
  deriving DecidableEq, Repr

/-- Type of member `f` of an object of type `t` (`none`: no such member). -/
def fieldTy : Ty → Fld → Option Ty
  | .wrapper, .live_count => some .other
  | .wrapper, .release_enable => some .other
  | .wrapper, .next_ptr => some .wrapper
  | .wrapper, .system_resource_ptr => some .resource
  | .wrapper, .object_ptr => some .other
  | .resource, .empty_queue => some .queue
  | .resource, .full_queue => some .queue
  | .resource, .object_total_count => some .other
  | .resource, .wrapper_ptr_pool => some .wrappers
  | .queue, .lockout_mutex => some .mutex
  | .queue, .object_queue => some .ring
  | .queue, .process_queue => some .ring
  | .queue, .process_total_count => some .other
  | .queue, .process_fifo_ptr_array => some .fifos
  | .fifo, .counting_semaphore => some .sem
  | .fifo, .lockout_mutex => some .mutex
  | .fifo, .first_ptr => some .wrapper
  | .fifo, .last_ptr => some .wrapper
  | .fifo, .quit_signal => some .other
  | .fifo, .queue_ptr => some .queue
  | .ring, .array_ptr => some .slots
  | .ring, .head_index => some .other
  | .ring, .tail_index => some .other
  | .ring, .buffer_total_count => some .other
  | .ring, .current_count => some .other
  | .slots, .elem _ => some .other
  | .fifos, .elem _ => some .fifo
  | .wrappers, .elem _ => some .wrapper
  | _, _ => none

/-- Where an access path starts. -/
inductive Root
  | param (i : Nat)   -- the object the i-th parameter of the API function points to
  | out (i : Nat)     -- the object `*param_i` points to (out-parameter of type `EbObjectWrapper **`;
                      -- the cell `*param_i` itself is caller-private storage)
  | snap (n : Nat)    -- the n-th pointer value (on this path) that was read from a *mutable* shared member and
                      -- kept in a local variable / out-parameter cell (a snapshot: it does not follow later writes)
  deriving DecidableEq, Repr

/-- An access path `root->f1->f2…`; `ty` is the struct type of the root object. -/
structure Path where
  root : Root
  ty : Ty
  flds : List Fld
  deriving DecidableEq, Repr

/-- Struct type reached from type `t` along a member chain. -/
def typeAlong : Ty → List Fld → Option Ty
  | t, [] => some t
  | t, f :: fs => match fieldTy t f with
    | some t' => typeAlong t' fs
    | none => none

def Path.endTy (p : Path) : Option Ty := typeAlong p.ty p.flds
def Path.extend (p : Path) (fs : List Fld) : Path := { p with flds := p.flds ++ fs }

/-! ## Protection map -/

inductive Guard
  | immutable          -- written only by the constructors, before the object is visible to a second thread
  | mutex (m : Path)   -- every read and write needs mutex `m`
  | unknown            -- the map has no rule for a member reached this way: never disciplined
  deriving DecidableEq, Repr

/-- **The protection map**, derived from EbSystemResourceManager.c as it is (c = .c file line numbers):

    | member(s)                                                   | protected by                                        |
    |-------------------------------------------------------------|-----------------------------------------------------|
    | `EbObjectWrapper.live_count`, `.release_enable`             | `lockout_mutex` of `system_resource_ptr->empty_queue` of the same wrapper (c314, c340, c366, c567) |
    | `EbObjectWrapper.next_ptr` of a wrapper linked in a fifo (reached as `fifo->first_ptr->` / `fifo->last_ptr->`) | that fifo's `lockout_mutex` (c249-255, c611-623, c653-663) |
    | `EbFifo.first_ptr`, `.last_ptr`, `.quit_signal`             | the fifo's own `lockout_mutex` (c90-93, c249, c611, c653, c687) |
    | `EbCircularBuffer.head_index`, `.tail_index`, `.current_count`, `array_ptr[i]` of `queue->object_queue` / `queue->process_queue` | that muxing queue's `lockout_mutex` (c517, c545, c567) |
    | `system_resource_ptr`, `object_ptr`; all members of `EbSystemResource`; all members of `EbMuxingQueue` (the two ring pointers, the fifo array and its elements, `process_total_count`, `lockout_mutex`); `EbFifo.counting_semaphore`, `.lockout_mutex`, `.queue_ptr`; `EbCircularBuffer.array_ptr`, `.buffer_total_count` | immutable after construction (c27-45, c108-117, c200-229, c393-406, c440-486) |

    The argument is the path *without* its last member (`pre`, reversed in `rpre`), the type of the object it
    reaches, and the last member. -/
def guardRule (root : Root) (ty : Ty) (rpre : List Fld) (owner : Ty) (f : Fld) : Guard :=
  let pre := rpre.reverse
  match owner, f with
  | .wrapper, .live_count | .wrapper, .release_enable =>
    .mutex ⟨root, ty, pre ++ [.system_resource_ptr, .empty_queue, .lockout_mutex]⟩
  | .wrapper, .next_ptr =>
    match rpre with
    | .first_ptr :: rq | .last_ptr :: rq =>
      if typeAlong ty rq.reverse = some .fifo then .mutex ⟨root, ty, rq.reverse ++ [.lockout_mutex]⟩ else .unknown
    | _ => .unknown
  | .wrapper, .system_resource_ptr | .wrapper, .object_ptr => .immutable
  | .resource, _ => .immutable
  | .queue, _ => .immutable
  | .fifo, .first_ptr | .fifo, .last_ptr | .fifo, .quit_signal => .mutex ⟨root, ty, pre ++ [.lockout_mutex]⟩
  | .fifo, .counting_semaphore | .fifo, .lockout_mutex | .fifo, .queue_ptr => .immutable
  | .ring, .array_ptr | .ring, .buffer_total_count => .immutable
  | .ring, .head_index | .ring, .tail_index | .ring, .current_count =>
    match rpre with
    | .object_queue :: rq | .process_queue :: rq =>
      if typeAlong ty rq.reverse = some .queue then .mutex ⟨root, ty, rq.reverse ++ [.lockout_mutex]⟩ else .unknown
    | _ => .unknown
  | .slots, .elem _ =>
    match rpre with
    | .array_ptr :: .object_queue :: rq | .array_ptr :: .process_queue :: rq =>
      if typeAlong ty rq.reverse = some .queue then .mutex ⟨root, ty, rq.reverse ++ [.lockout_mutex]⟩ else .unknown
    | _ => .unknown
  | .fifos, .elem _ | .wrappers, .elem _ => .immutable
  | _, _ => .unknown

/-- Guard of the memory location named by `p` (its last member, in the object reached by the rest). -/
def guardOf (p : Path) : Guard :=
  match p.flds.reverse with
  | [] => .unknown
  | f :: rpre =>
    match typeAlong p.ty rpre.reverse with
    | some owner => if (fieldTy owner f).isSome then guardRule p.root p.ty rpre owner f else .unknown
    | none => .unknown

/-- Every member along the path (all proper prefixes and the path itself) is immutable: the path always names
    the same location, so two syntactically equal paths are the same mutex / semaphore. -/
def stablePath (root : Root) (ty : Ty) : List Fld → List Fld → Bool
  | _, [] => true
  | pre, f :: fs => guardOf ⟨root, ty, pre ++ [f]⟩ == .immutable && stablePath root ty (pre ++ [f]) fs

inductive MxKind | queue | fifo
  deriving DecidableEq, Repr

/-- `p` names a `lockout_mutex` through immutable members; returns whether it is a queue's or a fifo's. -/
def mutexKind (p : Path) : Option MxKind :=
  if stablePath p.root p.ty [] p.flds && p.endTy == some .mutex then
    match p.flds.reverse with
    | .lockout_mutex :: rpre =>
      match typeAlong p.ty rpre.reverse with
      | some .queue => some .queue
      | some .fifo => some .fifo
      | _ => none
    | _ => none
  else none

def isSemPath (p : Path) : Bool := stablePath p.root p.ty [] p.flds && p.endTy == some .sem

/-! ## Events and API functions -/

inductive Ev
  | lock (m : Path)      -- svt_block_on_mutex
  | unlock (m : Path)    -- svt_release_mutex
  | semWait (s : Path)   -- svt_block_on_semaphore
  | semPost (s : Path)   -- svt_post_semaphore
  | read (p : Path)      -- load from the location named by `p`
  | write (p : Path)     -- store to the location named by `p`
  | call (f : Nat)       -- entering inlined callee number `f` of `Gen.SrmLocks.helperNames` (documentation only)
  | ret                  -- leaving it
  | loopHead (id : Nat)  -- evaluation point of a loop condition; `id` = one dynamic instance of one loop
  deriving DecidableEq, Repr

/-- The non-constructor functions with external linkage in EbSystemResourceManager.c. -/
inductive Fn
  | release_enable | release_disable | inc_live_count
  | get_producer_fifo | get_consumer_fifo
  | shutdown_process | post_full_object | release_object
  | get_empty_object | get_full_object | get_full_object_non_blocking
  deriving DecidableEq, Repr

def Fn.all : List Fn :=
  [.release_enable, .release_disable, .inc_live_count, .get_producer_fifo, .get_consumer_fifo, .shutdown_process,
   .post_full_object, .release_object, .get_empty_object, .get_full_object, .get_full_object_non_blocking]

/-- One generated table row: an API function and the event list of every path through it. -/
structure FnEntry where
  fn : Fn
  paths : List (List Ev)

/-- **Reviewed allow-list**: accesses of a protected member that the code really performs without the
    member's mutex, examined and found benign.

    * `svt_get_empty_object` c617 / c620: `(*wrapper_dbl_ptr)->live_count = 0; ->release_enable = EB_TRUE`
      under the *fifo's* mutex, not the empty queue's.  The wrapper was unlinked from the producer fifo two
      lines earlier (c614) by this thread under the fifo mutex; it is in no ring and no fifo, its
      `live_count` is the `EB_ObjectWrapperReleasedValue` marker, and it has not been returned to the
      caller yet, so no other thread owns a reference (`C23.srm_handout_exclusive`); under the caller protocol
      (`Srm.WellUsed`, and inc/enable/disable called by holders only) nobody else touches these two members
      until the call returns.  The model performs the two stores inside the same `pop` step. -/
def allowed (fn : Fn) (isWrite : Bool) (p : Path) : Bool :=
  match fn, isWrite, p with
  | .get_empty_object, true, ⟨.out 1, .wrapper, [.live_count]⟩ => true
  | .get_empty_object, true, ⟨.out 1, .wrapper, [.release_enable]⟩ => true
  | _, _, _ => false

/-! ## `disciplined` -/

structure St where
  held : List (Path × MxKind)        -- most recent first
  loops : List (Nat × List Path)     -- held set seen at each loop head

def accessOk (fn : Fn) (st : St) (isWrite : Bool) (p : Path) : Bool :=
  match guardOf p with
  | .immutable => !isWrite
  | .mutex m => st.held.any (fun h => h.1 == m) || allowed fn isWrite p
  | .unknown => false

/-- One event.  `none` = the discipline is broken at this event. -/
def stepEv (fn : Fn) (st : St) : Ev → Option St
  | .lock m =>
    match mutexKind m with
    | none => none
    | some k =>
      if st.held.any (fun h => h.1 == m) then none                       -- taken twice: self-deadlock
      else match k with
        | .queue => if st.held.isEmpty then some { st with held := (m, k) :: st.held } else none   -- a queue mutex is outermost
        | .fifo => if st.held.any (fun h => h.2 == .fifo) then none                                -- never two fifo mutexes
                   else some { st with held := (m, k) :: st.held }
  | .unlock m =>
    match st.held with
    | (m', _) :: rest => if m' == m then some { st with held := rest } else none   -- released in reverse order
    | [] => none
  | .semWait s => if isSemPath s && st.held.isEmpty then some st else none          -- never block holding a mutex
  | .semPost s => if isSemPath s then some st else none
  | .read p => if accessOk fn st false p then some st else none
  | .write p => if accessOk fn st true p then some st else none
  | .call _ => some st
  | .ret => some st
  | .loopHead id =>
    match st.loops.find? (fun e => e.1 == id) with
    | none => some { st with loops := (id, st.held.map (·.1)) :: st.loops }
    | some e => if e.2 == st.held.map (·.1) then some st else none     -- the loop body is lock-neutral

def runEvs (fn : Fn) : St → List Ev → Bool
  | st, [] => st.held.isEmpty                                          -- everything released on return
  | st, e :: es => match stepEv fn st e with
    | some st' => runEvs fn st' es
    | none => false

def disciplinedPath (fn : Fn) (evs : List Ev) : Bool := runEvs fn ⟨[], []⟩ evs

/-- Every path of the function keeps the discipline. -/
def disciplined (e : FnEntry) : Bool := e.paths.all (disciplinedPath e.fn)

/-! ## `atomicBlock` -/

/-- What another thread can observe of a path: its top-level critical sections and semaphore operations. -/
inductive Seg
  | cs (k : MxKind)
  | semWait
  | semPost
  deriving DecidableEq, Repr

def kindOr (p : Path) : MxKind := (mutexKind p).getD .fifo

/-- Top-level segments of an event list (`depth` = number of mutexes currently held). -/
def shape : Nat → List Ev → List Seg
  | _, [] => []
  | d, .lock m :: es => if d = 0 then .cs (kindOr m) :: shape 1 es else shape (d + 1) es
  | d, .unlock _ :: es => shape (d - 1) es
  | d, .semWait _ :: es => if d = 0 then .semWait :: shape d es else shape d es
  | d, .semPost _ :: es => if d = 0 then .semPost :: shape d es else shape d es
  | d, _ :: es => shape d es

/-- `xs` is `pat` repeated zero or more times (fuel = length of `xs`). -/
def repeats (pat : List Seg) : Nat → List Seg → Bool
  | _, [] => true
  | 0, _ => false
  | n + 1, xs => !pat.isEmpty && xs.take pat.length == pat && repeats pat n (xs.drop pat.length)

/-- **Step granularity of `Model/Srm.lean`**, per API function: the segment sequence of each path must be
    one of these.  Each segment is one `Srm.Op`:

    * inc_live_count `[cs queue]` = `incLive`; release_enable/disable `[cs queue]` = `setRel`;
      release_object `[cs queue]` = `release`; post_full_object `[cs queue]` = `post`
      (the `svt_muxing_queue_assignation` loop and its nested fifo sections run inside the queue section);
    * get_empty_object / get_full_object `[cs queue, semWait, cs fifo]` = `reg`, `semWait`, `pop`;
    * get_full_object_non_blocking `[cs queue, cs fifo]` = `nbReg`, `peek` (returning NULL), optionally followed
      by the three segments of get_full_object;
    * shutdown_process `([cs fifo, semPost])*` = `shutQuit f`, `shutPost f` per consumer fifo;
    * the two fifo getters: no segment (they read immutable members only). -/
def expectedShape : Fn → List Seg → Bool
  | .inc_live_count, s | .release_enable, s | .release_disable, s | .release_object, s | .post_full_object, s =>
    s == [.cs .queue]
  | .get_empty_object, s | .get_full_object, s => s == [.cs .queue, .semWait, .cs .fifo]
  | .get_full_object_non_blocking, s =>
    s == [.cs .queue, .cs .fifo] || s == [.cs .queue, .cs .fifo, .cs .queue, .semWait, .cs .fifo]
  | .shutdown_process, s => repeats [.cs .fifo, .semPost] s.length s
  | .get_producer_fifo, s | .get_consumer_fifo, s => s == []

def atomicBlock (e : FnEntry) : Bool := e.paths.all (fun evs => expectedShape e.fn (shape 0 evs))

/-- Number of protected (mutex-guarded) accesses in an event list — evidence only. -/
def protectedAccesses (evs : List Ev) : Nat :=
  (evs.filter fun
    | .read p | .write p => match guardOf p with | .mutex _ => true | _ => false
    | _ => false).length

end LockDiscipline
