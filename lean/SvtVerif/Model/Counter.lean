/-
  C04 (part B) — the "independent task grid + completion counter" idiom of the SVT-AV1 pipeline.

  A picture is cut into N independent segment tasks.  The tasks are executed by any number of worker
  threads in any order; every task, when it has finished its work, does (under a per-picture mutex, or in a
  single-threaded collector process, which is the same thing for the model: the block is atomic)

        count++;
        if (count == N) { post the picture to the next pipeline stage }

  Real instances in /repo/Source/Lib/Encoder/Codec:
    * EbCdefProcess.c:518-521   svt_block_on_mutex(pcs_ptr->cdef_search_mutex);
                                pcs_ptr->tot_seg_searched_cdef++;
                                if (pcs_ptr->tot_seg_searched_cdef == pcs_ptr->cdef_segments_total_count) {...}
                                (counter reset for the next use at EbDlfProcess.c:320)
    * EbRestProcess.c:536-539   svt_block_on_mutex(pcs_ptr->rest_search_mutex);
                                pcs_ptr->tot_seg_searched_rest++;
                                if (pcs_ptr->tot_seg_searched_rest == pcs_ptr->rest_segments_total_count) {...}
                                (counter reset at EbCdefProcess.c:576)
    * EbInitialRateControlProcess.c:352-355
                                pcs_ptr->me_segments_completion_count++;
                                if (pcs_ptr->me_segments_completion_count == pcs_ptr->me_segments_total_count) {...}
                                (one collector thread consumes the ME-segment results; reset at
                                 EbPictureDecisionProcess.c:5495)
    * EbRateControlProcess.c:7220-7223
                                pcs_ptr->parent_pcs_ptr->inloop_me_segments_completion_count++;
                                if (!(... == ...inloop_me_segments_total_count)) continue;
    * EbEncDecProcess.c:4704-4705 (under intra_coded_area_mutex; weighted variant: the increment is the
                                number of SBs of the segment)
                                pcs_ptr->enc_dec_coded_sb_count += (uint32_t)context_ptr->coded_sb_count;
                                EbBool last_sb_flag = (pcs_ptr->sb_total_count_pix == pcs_ptr->enc_dec_coded_sb_count);

  Model: the state records which tasks have executed their counter block (`finished`, newest first), the
  counter, and the list of tasks that took the `count == N` branch (`fires`, oldest first).  One step =
  one execution of the atomic block by one task.  `Reachable` quantifies over every order of the tasks
  (every interleaving of the worker threads).

  Core Lean only (this file may be linked into the executable driver).
-/
namespace Counter

/-- `finished`: tasks that have run their counter block, newest first.  `count`: the C counter.
`fires`: tasks that saw `count == N` and posted the picture, in order. -/
structure State where
  finished : List Nat
  count : Nat
  fires : List Nat
  deriving DecidableEq, Repr

/-- Counter reset to 0 before the picture is handed to the segment workers. -/
def init : State := { finished := [], count := 0, fires := [] }

/-- Effect of task `t` executing `count++; if (count == N) fire`. -/
def finish (N : Nat) (s : State) (t : Nat) : State :=
  { finished := t :: s.finished
    count := s.count + 1
    fires := if s.count + 1 = N then s.fires ++ [t] else s.fires }

/-- Task `t` runs its counter block; enabled iff `t` is one of the `N` tasks and has not run it yet. -/
def step (N : Nat) (s : State) (t : Nat) : Option State :=
  if t < N ∧ t ∉ s.finished then some (finish N s t) else none

/-- All states reachable by running tasks in any order (all interleavings). -/
inductive Reachable (N : Nat) : State → Prop
  | init : Reachable N init
  | step {s s' : State} {t : Nat} : Reachable N s → step N s t = some s' → Reachable N s'

/-- Run the tasks in the given order; `none` if some task in the order is not enabled. -/
def run (N : Nat) : State → List Nat → Option State
  | s, [] => some s
  | s, t :: ts =>
    match step N s t with
    | some s' => run N s' ts
    | none => none

/-- No task can run its block any more. -/
def Terminal (N : Nat) (s : State) : Prop := ∀ t, step N s t = none

end Counter
