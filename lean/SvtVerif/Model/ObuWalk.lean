/-
  Byte-accurate model of the OBU framing layer of the SVT-AV1 decoder (C10).

  Mirrors, as the code IS:
    * `svt_av1_dec_frame`        Source/Lib/Decoder/Codec/EbDecHandle.c   l.575-620  (`decFrame`)
    * `decode_multiple_obu`      Source/Lib/Decoder/Codec/EbDecParseObu.c l.2469-2618 (`dmoStep`, `dmoLoop`)
    * `read_obu_header`          EbDecParseObu.c l.426-471   (`readObuHeader`)
    * `read_obu_size`            EbDecParseObu.c l.474-484   (`readObuSize`)
    * `read_obu_header_size`     EbDecParseObu.c l.487-502   (`readObuHeaderSize`)
    * `dec_bits_init`            EbDecBitstream.c l.21-38    (`bitsInit`)
    * `dec_get_bits` / `GET_BITS` EbDecBitstream.c l.42-48, EbDecBitstream.h l.52-70 (`getBits`)
    * `dec_get_bits_leb128`      EbDecBitstream.c l.51-63    (`leb128`)

  Memory.  `mem : List UInt8` is everything the caller made readable (the allocation); `dataSize` is the `data_size`
  argument.  EVERY load of the framing layer goes through `loadWord`; a reader records in `touched` the highest
  index + 1 it loaded from, the walk keeps the maximum in `maxRead`.  A load outside `mem` is what the property
  forbids (`maxRead > mem.length`); the model lets it return 0 and goes on (what C does there is undefined), so every
  function is total and the in-bounds property is the decidable statement `maxRead ≤ mem.length`.

  Arithmetic.  `size_t` values are `Nat`s below 2^64 and every subtraction that C performs on them is `subU64`
  (wraps exactly where C wraps; the walk raises `wrapped`); `uint32_t` shifts are reduced mod 2^32.

  Opaque.  Everything below the framing layer (sequence header, frame header, tile group parsing and reconstruction) is
  a parameter `oracle : Nat → PayRes` (indexed by the ordinal of the OBU inside one `svt_av1_dec_frame` call) that says
  whether the payload parser returned early with an error, left a deferred `status`, and whether it finished a frame.

  Variants.  `Cfg` selects between the code as it is (`asIs`) and the code with the proposed repairs:
    `safeLoad`  hooks/fix-c10-bits-bounds.patch     word loads never touch memory at or after `data + numbytes`
    `checkSub`  hooks/fix-c10-obu-size-check.patch  every `size_t` subtraction is preceded by its check, `obu_header` zeroed
    `errReturn` hooks/fix-c10-decframe-error.patch  `svt_av1_dec_frame` returns the error instead of `assert(0)` / looping
  `ndebug` = `assert` compiled out.  checks/c10.py looks at the source tree to see which patches are present
  (`tree_flags`) and runs the model with exactly those flags, so the check works before and after the repairs.
  (hooks/fix-c10-handle-zero-init.patch and fix-c10-deinit-empty-map.patch repair API-level defects outside this model.)

  Core Lean only (linked into the `svtmodel` driver).
-/
namespace ObuWalk

structure Cfg where
  safeLoad  : Bool     -- hooks/fix-c10-bits-bounds.patch is applied
  checkSub  : Bool     -- hooks/fix-c10-obu-size-check.patch is applied
  errReturn : Bool     -- hooks/fix-c10-decframe-error.patch is applied
  ndebug    : Bool     -- built with NDEBUG (`assert` compiled out)
  garbage   : Nat := 0 -- what the uninitialised `obu_header.payload_size` (l.2473) happens to hold; unused with `checkSub`
deriving Repr, DecidableEq, Inhabited

/-- the pinned code -/
def asIs (ndebug : Bool) : Cfg := { safeLoad := false, checkSub := false, errReturn := false, ndebug := ndebug }
/-- the code with hooks/fix-c10-bits-bounds.patch, fix-c10-obu-size-check.patch and fix-c10-decframe-error.patch -/
def fixed (ndebug : Bool) : Cfg := { safeLoad := true, checkSub := true, errReturn := true, ndebug := ndebug }

def EB_ErrorNone : Nat := 0
def EB_Corrupt_Frame : Nat := 0x4000100C        -- Source/API/EbSvtAv1.h l.129

def two64 : Nat := 18446744073709551616
def two32 : Nat := 4294967296
def UINT32_MAX : Nat := 4294967295

/-- `a - b` on `size_t` (both below 2^64). -/
def subU64 (a b : Nat) : Nat := (a + two64 - b) % two64

/-! ### memory -/

def rd (mem : List UInt8) (i : Nat) : Nat := (mem.getD i 0).toNat

/-- One `uint32_t` load at byte offset `off` followed by `TO_BIG_ENDIAN` (EbDecBitstream.h l.24): the value is
    `b0<<24 | b1<<16 | b2<<8 | b3`.  Returns the value and the highest index + 1 loaded from (0 = nothing loaded).
    As is: the four bytes are loaded whatever `endOff` (= `data + numbytes`) is.  `safeLoad`: bytes at or after
    `endOff` are not loaded and read as 0. -/
def loadWord (c : Cfg) (mem : List UInt8) (endOff off : Nat) : Nat × Nat :=
  if c.safeLoad then
    let b := fun i => if off + i < endOff then rd mem (off + i) else 0
    (b 0 <<< 24 ||| b 1 <<< 16 ||| b 2 <<< 8 ||| b 3, if off < endOff then min (off + 4) endOff else 0)
  else
    (rd mem off <<< 24 ||| rd mem (off + 1) <<< 16 ||| rd mem (off + 2) <<< 8 ||| rd mem (off + 3), off + 4)

/-! ### `Bitstrm` (EbDecBitstream.h l.32-50) -/

structure Bs where
  base    : Nat     -- buf_base, as an offset into `mem`
  bufOff  : Nat     -- buf (next word to load), as an offset into `mem`
  bitOfst : Nat     -- bit_ofst
  cur     : Nat     -- cur_word
  nxt     : Nat     -- nxt_word
  endOff  : Nat     -- data + numbytes  (buf_max - 8)
  touched : Nat     -- highest index + 1 loaded through this reader
deriving Repr, DecidableEq, Inhabited

/-- `dec_bits_init(bs, data, numbytes)` l.21-38: two word loads at `data` and `data + 4`, whatever `numbytes` is. -/
def bitsInit (c : Cfg) (mem : List UInt8) (data numbytes : Nat) : Bs :=
  let e := data + numbytes
  let w0 := loadWord c mem e data
  let w1 := loadWord c mem e (data + 4)
  { base := data, bufOff := data + 8, bitOfst := 0, cur := w0.1, nxt := w1.1, endOff := e, touched := max w0.2 w1.2 }

/-- `SHR(x, y)` (EbDecBitstream.h l.22). -/
def shr32 (x y : Nat) : Nat := if y < 32 then x >>> y else 0

/-- `dec_get_bits(bs, n)` with the `GET_BITS` macro (EbDecBitstream.h l.52-70), `n ≤ 32`:
    `bits = (cur << ofs) >> (32 - n)`; `ofs += n`; `if (ofs > 32) bits |= SHR(nxt, 64 - ofs)`;
    `if (ofs >= 32) { cur = nxt; nxt = BE(*buf++); ofs -= 32; }` — the refill load has no bound check. -/
def getBits (c : Cfg) (mem : List UInt8) (bs : Bs) (n : Nat) : Nat × Bs :=
  if n = 0 then (0, bs) else
  let bits0 := ((bs.cur <<< bs.bitOfst) % two32) >>> (32 - n)
  let ofs := bs.bitOfst + n
  let bits := if ofs > 32 then bits0 ||| shr32 bs.nxt (64 - ofs) else bits0
  if ofs ≥ 32 then
    let w := loadWord c mem bs.endOff bs.bufOff
    (bits, { bs with cur := bs.nxt, nxt := w.1, bufOff := bs.bufOff + 4, bitOfst := ofs - 32,
                     touched := max bs.touched w.2 })
  else (bits, { bs with bitOfst := ofs })

/-- `get_position(bs)` (EbDecBitstream.c l.105): bits consumed since `dec_bits_init`. -/
def Bs.position (bs : Bs) : Nat := (bs.bufOff - bs.base) * 8 - 32 - (32 - bs.bitOfst)

/-! ### LEB128 (`dec_get_bits_leb128` l.51-63) -/

/-- The loop `for (i = 0; i < 8; i++)`: `fuel` iterations left, `i`, `*value`, `*length` so far. -/
def leb128Go (c : Cfg) (mem : List UInt8) : Nat → Nat → Nat → Nat → Bs → Nat × Nat × Bs
  | 0, _, v, len, bs => (v, len, bs)
  | fuel + 1, i, v, len, bs =>
    let r := getBits c mem bs 8
    let v' := v ||| ((r.1 &&& 0x7f) <<< (i * 7))
    if r.1 &&& 0x80 = 0 then (v', len + 1, r.2) else leb128Go c mem fuel (i + 1) v' (len + 1) r.2

/-- `dec_get_bits_leb128`: (value, length, reader).  `available` is ignored by the C code (`(void)available`). -/
def leb128 (c : Cfg) (mem : List UInt8) (bs : Bs) : Nat × Nat × Bs := leb128Go c mem 8 0 0 0 bs

/-- result of a C function returning `EbErrorType` -/
inductive Ret (α : Type) where
  | ok (a : α)
  | err (code : Nat)
deriving Repr, DecidableEq

/-- `read_obu_size` l.474-484: (value, length_field_size); values above `UINT32_MAX` are `EB_Corrupt_Frame`. -/
def readObuSize (c : Cfg) (mem : List UInt8) (bs : Bs) : Ret (Nat × Nat) × Bs :=
  let r := leb128 c mem bs
  if r.1 > UINT32_MAX then (.err EB_Corrupt_Frame, r.2.2) else (.ok (r.1, r.2.1), r.2.2)

/-! ### OBU header (`read_obu_header` l.426-471) -/

structure Hdr where
  size    : Nat      -- header->size (1 or 2)
  obuType : Nat
  ext     : Bool
  hasSize : Bool
  tid     : Nat
  sid     : Nat
deriving Repr, DecidableEq, Inhabited

/-- `is_valid_obu_type` l.93-108 (OBU_TILE_LIST = 8 is commented out in the C code). -/
def validObuType (t : Nat) : Bool :=
  t == 1 || t == 2 || t == 3 || t == 4 || t == 5 || t == 6 || t == 7 || t == 15

def readObuHeader (c : Cfg) (mem : List UInt8) (bs : Bs) : Ret Hdr × Bs :=
  let f := getBits c mem bs 1                         -- obu_forbidden_bit
  if f.1 ≠ 0 then (.err EB_Corrupt_Frame, f.2) else
  let t := getBits c mem f.2 4                        -- obu_type
  if !validObuType t.1 then (.err EB_Corrupt_Frame, t.2) else
  let e := getBits c mem t.2 1                        -- obu_extension_flag
  let s := getBits c mem e.2 1                        -- obu_has_size_field
  let r := getBits c mem s.2 1                        -- obu_reserved_1bit
  if r.1 ≠ 0 then (.err EB_Corrupt_Frame, r.2) else
  if e.1 ≠ 0 then
    let tid := getBits c mem r.2 3
    let sid := getBits c mem tid.2 2
    let r3 := getBits c mem sid.2 3                   -- extension_header_reserved_3bits
    if r3.1 ≠ 0 then (.err EB_Corrupt_Frame, r3.2) else
    (.ok { size := 2, obuType := t.1, ext := true, hasSize := s.1 ≠ 0, tid := tid.1, sid := sid.1 }, r3.2)
  else
    (.ok { size := 1, obuType := t.1, ext := false, hasSize := s.1 ≠ 0, tid := 0, sid := 0 }, r.2)

/-- `read_obu_header_size` l.487-502: header, then the size field when `obu_has_size_field`.
    Returns the header, `some (payload_size, length_size)` when a size field was read, and the reader. -/
def readObuHeaderSize (c : Cfg) (mem : List UInt8) (bs : Bs) : Ret (Hdr × Option (Nat × Nat)) × Bs :=
  match readObuHeader c mem bs with
  | (.err e, bs1) => (.err e, bs1)
  | (.ok h, bs1) =>
    if h.hasSize then
      match readObuSize c mem bs1 with
      | (.err e, bs2) => (.err e, bs2)
      | (.ok vl, bs2) => (.ok (h, some vl), bs2)
    else (.ok (h, none), bs1)

/-! ### `decode_multiple_obu` -/

/-- What the opaque payload parser of one OBU did (sequence header / frame header / tile group). -/
inductive PayRes where
  | cont (status : Nat) (finished : Bool)   -- fell out of the `switch` with this `status` / `frame_decoding_finished`
  | ret (code : Nat)                        -- `return status;` from inside the `switch`
deriving Repr, DecidableEq, Inhabited

abbrev Oracle := Nat → PayRes

structure ObuRec where
  pos     : Nat     -- offset of the OBU (of its Annex-B length field when `is_annexb`)
  obuType : Nat
  hdr     : Nat     -- obu_header.size
  len     : Nat     -- bytes of size fields in front of the payload (Annex-B length + obu_size)
  payload : Nat     -- payload_size
deriving Repr, DecidableEq, Inhabited

structure St where
  pos        : Nat                 -- *data
  dataSize   : Nat                 -- data_size (size_t)
  status     : Nat                 -- status
  hdrPayload : Option Nat          -- obu_header.payload_size; `none` = never written in this call (uninitialised local)
  seen       : Bool                -- dec_handle_ptr->seen_frame_header
  idx        : Nat                 -- ordinal of the next OBU in this svt_av1_dec_frame call (oracle index)
  maxRead    : Nat                 -- highest index + 1 loaded from by the framing layer
  maxBuf     : Nat                 -- highest value of bs.buf reached (what hook-obuwalk-trace records)
  wrapped    : Bool                -- a size_t subtraction wrapped
  uninit     : Bool                -- obu_header.payload_size was read while uninitialised
  obus       : List ObuRec         -- OBUs that reached the payload `switch`, most recent first
deriving Repr, DecidableEq, Inhabited

inductive DmoEnd where
  | ret (code : Nat)      -- `return`
  | abort                 -- an `assert` fired (builds without NDEBUG)
  | fuel                  -- iteration bound of the model reached
deriving Repr, DecidableEq, Inhabited

def St.see (st : St) (bs : Bs) : St :=
  { st with maxRead := max st.maxRead bs.touched, maxBuf := max st.maxBuf bs.bufOff }

/-- the payload `switch` l.2530-2600: new `seen_frame_header`, and what happened -/
def paySwitch (c : Cfg) (t : Nat) (seen : Bool) (o : PayRes) : Bool × Option PayRes :=
  -- `none` = assert fired
  if t == 2 then (false, some (.cont 0 false))                                   -- OBU_TEMPORAL_DELIMITER
  else if t == 1 then                                                              -- OBU_SEQUENCE_HEADER
    match o with
    | .ret e => (seen, some (.ret e))
    | .cont _ _ => (seen, some (.cont 0 false))
  else if t == 3 || t == 7 || t == 6 then
    -- l.2563 `assert(seen_frame_header == 0)` for OBU_FRAME_HEADER, l.2566 `assert(== 1)` for the redundant one
    if !c.ndebug && ((t == 3 && seen) || (t == 7 && !seen)) then (seen, none)
    else if t != 6 then
      -- frame header only: its status is not tested here (l.2571-2580)
      match o with
      | .ret e => (true, some (.cont e false))
      | .cont s _ => (true, some (.cont (if seen then 0 else s) false))
    else
      -- OBU_FRAME: header (status overwritten), then the tile group l.2586-2597
      match o with
      | .ret e => (true, some (.ret e))
      | .cont s fin => (!fin, some (.cont s fin))
  else if t == 4 then                                                              -- OBU_TILE_GROUP
    if !seen then (seen, some (.ret EB_Corrupt_Frame))
    else match o with
      | .ret e => (seen, some (.ret e))
      | .cont s fin => (if fin then false else seen, some (.cont s fin))
  else (seen, some (.cont 0 false))                                                -- default: (metadata, padding)

/-- value of `obu_header.payload_size` before anything is stored in it -/
def garbageOf (c : Cfg) : Nat := if c.checkSub then 0 else c.garbage

/-- `length_size` after `read_obu_header_size`: bytes of the `obu_size` field, 0 without one -/
def lenOf (vl : Option (Nat × Nat)) : Nat := match vl with | some (_, l) => l | none => 0

/-- l.2517-2526 (non Annex-B part of the size bookkeeping): `payload_size`, `*data += header + length`,
    `data_size -= header + length`, `if (data_size < payload_size) return EB_Corrupt_Frame`.
    `vl` = `some (obu_size, length_size)` when the OBU carries a size field.  Returns the state at the payload and
    `payload_size`. -/
def advance (c : Cfg) (annexb : Bool) (st : St) (h : Hdr) (vl : Option (Nat × Nat)) : Ret (St × Nat) :=
  let lengthSize := lenOf vl
  -- without a size field `obu_header.payload_size` keeps what it held: the Annex-B length, the value of the previous
  -- OBU, or nothing at all (uninitialised local `ObuHeader obu_header`, l.2473)
  let hp : Option Nat := match vl with | some (v, _) => some v | none => st.hdrPayload
  -- (`dmoBody` raises `uninit` for the last case; the repair zero-initialises `obu_header`)
  let hpv := hp.getD (garbageOf c)
  -- l.2517 `if (is_annexb) obu_header.payload_size -= obu_header.size;`   l.2520 payload_size = obu_header.payload_size
  let wrapA := annexb && decide (hpv < h.size)
  let payloadSize := if annexb then subU64 hpv h.size else hpv
  let adv := h.size + lengthSize
  let wrapB := decide (st.dataSize < adv)
  -- proposed repair (fix-c10-obu-size-check): both conditions are `EB_Corrupt_Frame` before anything is subtracted
  if c.checkSub && (wrapA || wrapB) then .err EB_Corrupt_Frame else
  -- l.2522-2523 `*data += (obu_header.size + length_size); data_size -= (obu_header.size + length_size);`
  let st := { st with pos := st.pos + adv, dataSize := subU64 st.dataSize adv, hdrPayload := some payloadSize,
                      wrapped := st.wrapped || wrapA || wrapB }
  -- l.2525 `if (data_size < payload_size) return EB_Corrupt_Frame;`
  if st.dataSize < payloadSize then .err EB_Corrupt_Frame else .ok (st, payloadSize)

/-- l.2528-2605: `dec_bits_init(&bs, *data, payload_size)`, the payload `switch`, `*data += payload_size;
    data_size -= payload_size; if (!data_size) frame_decoding_finished = 1;` -/
def payload (c : Cfg) (mem : List UInt8) (oracle : Oracle) (rec : ObuRec) (st : St) :
    (DmoEnd × St) ⊕ (St × Bool) :=
  let bs3 := bitsInit c mem st.pos rec.payload
  let st := st.see bs3
  let st := { st with obus := rec :: st.obus, idx := st.idx + 1 }
  match paySwitch c rec.obuType st.seen (oracle (st.idx - 1)) with
  | (_, none) => .inl (.abort, st)
  | (seen, some (.ret e)) => .inl (.ret e, { st with seen := seen })
  | (seen, some (.cont status fin)) =>
    -- read_tile_group_obu l.2401 (single-threaded decode): after the last tile the OBU reader is re-initialised at the
    -- end of the tile data, `dec_bits_init(bs, get_bitsteam_buf(bs) + tile_size, obu_header->payload_size)`
    -- = 8 bytes loaded at the end of the OBU (not seen by hook-obuwalk-trace, so `maxBuf` is left alone)
    let tgEnd := bitsInit c mem (st.pos + rec.payload) 0
    let st := if rec.obuType == 4 || rec.obuType == 6 then { st with maxRead := max st.maxRead tgEnd.touched } else st
    let ds := subU64 st.dataSize rec.payload
    .inr ({ st with seen := seen, status := status, pos := st.pos + rec.payload, dataSize := ds }, fin || ds == 0)

/-- l.2513-2605: from `read_obu_header_size` to the end of the loop body.  `start` = offset of the OBU, `alen` = bytes
    of the Annex-B length field already skipped, `bs1` = the reader positioned at the OBU header. -/
def dmoBody (c : Cfg) (mem : List UInt8) (annexb : Bool) (oracle : Oracle) (start alen : Nat) (st : St) (bs1 : Bs) :
    (DmoEnd × St) ⊕ (St × Bool) :=
  -- l.2513 read_obu_header_size
  match readObuHeaderSize c mem bs1 with
  | (.err e, bs2) => .inl (.ret e, st.see bs2)
  | (.ok (h, vl), bs2) =>
    -- l.2520 reads `obu_header.payload_size`; nothing has been stored there when the OBU has no size field, this is not
    -- Annex-B and no earlier OBU of this call had one (the repair zero-initialises `obu_header`)
    let st := { (st.see bs2) with uninit := st.uninit || (vl.isNone && st.hdrPayload.isNone && !c.checkSub) }
    match advance c annexb st h vl with
    | .err e => .inl (.ret e, st)
    | .ok (st3, payloadSize) =>
      payload c mem oracle { pos := start, obuType := h.obuType, hdr := h.size,
                             len := alen + lenOf vl, payload := payloadSize } st3

/-- One iteration of `while (!frame_decoding_finished)` l.2491-2606.
    `.inl` = the function returned (or asserted); `.inr (st, finished)` = end of the loop body. -/
def dmoStep (c : Cfg) (mem : List UInt8) (annexb : Bool) (oracle : Oracle) (st : St) : (DmoEnd × St) ⊕ (St × Bool) :=
  -- l.2497 (dec_mem_init is not modelled)
  if st.status ≠ EB_ErrorNone then .inl (.ret st.status, st) else
  -- l.2500 dec_bits_init(&bs, *data, data_size)
  let bs0 := bitsInit c mem st.pos st.dataSize
  if annexb then
    -- l.2502-2511 Annex-B: the size of the OBU comes first; `*data += length_size; data_size -= length_size;`
    match readObuSize c mem bs0 with
    | (.err e, bs1) => .inl (.ret e, (st.see bs0).see bs1)
    | (.ok (v, l), bs1) =>
      -- proposed repair (fix-c10-obu-size-check): `if (data_size < length_size) return EB_Corrupt_Frame;`
      if c.checkSub && decide (st.dataSize < l) then .inl (.ret EB_Corrupt_Frame, (st.see bs0).see bs1) else
      dmoBody c mem annexb oracle st.pos l
        { ((st.see bs0).see bs1) with hdrPayload := some v, pos := st.pos + l, dataSize := subU64 st.dataSize l,
                                      wrapped := st.wrapped || decide (st.dataSize < l) } bs1
  else dmoBody c mem annexb oracle st.pos 0 (st.see bs0) bs0

def dmoLoop (c : Cfg) (mem : List UInt8) (annexb : Bool) (oracle : Oracle) : Nat → St → DmoEnd × St
  | 0, st => (.fuel, st)
  | fuel + 1, st =>
    match dmoStep c mem annexb oracle st with
    | .inl r => r
    | .inr (st', fin) => if fin then (.ret st'.status, st') else dmoLoop c mem annexb oracle fuel st'

/-! ### `svt_av1_dec_frame` l.575-620 -/

inductive Outcome where
  | ret (code : Nat)     -- returned this code
  | abort                -- `assert` (l.595 `assert(0)` on any error, l.2563/2566) in a build without NDEBUG
  | hang                 -- the `while (data_start < data_end)` loop repeats the same failing call for ever
  | fuel                 -- iteration bound of the model reached
deriving Repr, DecidableEq, Inhabited

structure Result where
  outcome : Outcome
  calls   : Nat          -- decode_multiple_obu calls
  st      : St
deriving Repr, DecidableEq, Inhabited

def St.init (dataSize : Nat) : St :=
  { pos := 0, dataSize := dataSize, status := 0, hdrPayload := none, seen := false, idx := 0, maxRead := 0,
    maxBuf := 0, wrapped := false, uninit := false, obus := [] }

/-- iteration bound for `dmoLoop`: every iteration that does not wrap consumes at least one byte of `data_size`
    (`dataSize + 1` iterations, Lemmas `dmoLoop_spec`); after a wrap every iteration still advances `*data` by at least
    one byte, and once `*data` is past the allocation the model's memory reads as 0, which is an invalid header. -/
def dmoFuel (memLen dataSize : Nat) : Nat := dataSize + memLen + 2

def frameLoop (c : Cfg) (mem : List UInt8) (dataEnd : Nat) (annexb : Bool) (oracle : Oracle) :
    Nat → Nat → Nat → St → Result
  | 0, calls, _, st => { outcome := .fuel, calls := calls, st := st }
  | fuel + 1, calls, lastErr, st =>
    -- l.586 `while (data_start < data_end)`
    if st.pos ≥ dataEnd then { outcome := .ret lastErr, calls := calls, st := st } else
    -- l.592-593: frame_size = data_end - data_start; `ObuHeader obu_header` / `status` are fresh locals of the callee
    let st0 := { st with dataSize := dataEnd - st.pos, status := 0, hdrPayload := none }
    match dmoLoop c mem annexb oracle (dmoFuel mem.length st0.dataSize) st0 with
    | (.fuel, st1) => { outcome := .fuel, calls := calls + 1, st := st1 }
    | (.abort, st1) => { outcome := .abort, calls := calls + 1, st := st1 }
    | (.ret e, st1) =>
      if e ≠ EB_ErrorNone then
        if c.errReturn then { outcome := .ret e, calls := calls + 1, st := st1 }       -- proposed repair
        else if !c.ndebug then { outcome := .abort, calls := calls + 1, st := st1 }    -- l.595 `assert(0)`
        else if st1.pos == st.pos && st1.seen == st.seen && st1.idx == st.idx then
          -- same arguments, same decoder state, no payload parser ran: the next call is this call again
          { outcome := .hang, calls := calls + 1, st := st1 }
        else frameLoop c mem dataEnd annexb oracle fuel (calls + 1) e st1
      else frameLoop c mem dataEnd annexb oracle fuel (calls + 1) e st1

/-- `svt_av1_dec_frame(handle, data, data_size, is_annexb)`; l.584 resets `seen_frame_header`. -/
def decFrame (c : Cfg) (mem : List UInt8) (dataSize : Nat) (annexb : Bool) (oracle : Oracle) : Result :=
  frameLoop c mem dataSize annexb oracle (2 * (dataSize + mem.length) + 4) 0 0 (St.init dataSize)

/-- the walk of a whole buffer with nothing readable after it -/
def walk (c : Cfg) (mem : List UInt8) (annexb : Bool) (oracle : Oracle) : Result :=
  decFrame c mem mem.length annexb oracle

/-- payload oracle "every payload parses, no frame is finished before the data runs out" -/
def okOracle : Oracle := fun _ => .cont 0 false

end ObuWalk
