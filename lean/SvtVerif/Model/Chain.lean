/-
  C27 (part B) — abstract LINEAR chain of stages with bounded object pools and a single-threaded
  application that drains the output after each submission.

  Channels `0..m` (`0` = input pictures, `m` = output packets handed to the application), stages `0..m-1`
  (stage `i` consumes channel `i` and produces channel `i+1`).  Pool `i` holds `pool i` objects of channel `i`:
  an object is occupied from the moment the producer posts it until the consuming stage releases it.  Stage
  `i` needs to hold `k i` objects of pool `i` at once (look-ahead / mini-GOP / reorder window) before it can
  emit one output and release one input.  The application is `svt_av1_enc_send_picture` (blocking while the
  input pool is exhausted) followed by non-blocking `svt_av1_enc_get_packet` polls until "empty", then the
  next picture; after the last picture (EOS) it keeps draining.

  Core Lean only.  Everything is executable (`step`/`run`), the theorems (in `Lemmas/Chain.lean`) are over
  the inductive `Reachable`.
-/
namespace Chain

/-- Program counter of the (single-threaded) application. -/
inductive App
  | sending
  | draining
  deriving DecidableEq, Repr

/-- Parameters of the chain.  `appDrains = true`: the application polls the output after every submission
    (the documented usage).  `appDrains = false`: it only sends until all `N` pictures are in and drains at
    the end (used for the negative example: the draining hypothesis is necessary). -/
structure Params where
  m : Nat
  pool : Nat → Nat
  k : Nat → Nat
  N : Nat
  appDrains : Bool

/-- Well-formedness: each stage's demand is at least one object and fits in its input pool; the output pool
    has at least one object. -/
structure Params.WF (P : Params) : Prop where
  k_pos : ∀ i, i < P.m → 1 ≤ P.k i
  k_le_pool : ∀ i, i < P.m → P.k i ≤ P.pool i
  out_pos : 1 ≤ P.pool P.m

structure State where
  /-- objects queued in channel `i` (posted, not yet taken by the consumer) -/
  q : Nat → Nat
  /-- objects of pool `i` held by stage `i` -/
  held : Nat → Nat
  sent : Nat
  delivered : Nat
  app : App

def init : State := ⟨fun _ => 0, fun _ => 0, 0, 0, .sending⟩

def upd (f : Nat → Nat) (i v : Nat) : Nat → Nat := fun j => if j = i then v else f j

/-- Occupancy of pool `i`: queued + held by the consuming stage (the output channel `m` has no stage). -/
def occ (P : Params) (s : State) (i : Nat) : Nat :=
  if i < P.m then s.q i + s.held i else s.q i

/-- End-of-stream flush condition of stage `i`: everything was submitted and nothing is left upstream. -/
def Flush (P : Params) (s : State) (i : Nat) : Prop :=
  s.sent = P.N ∧ s.q i = 0 ∧ ∀ j, j < i → (s.q j = 0 ∧ s.held j = 0)

instance (P : Params) (s : State) (i : Nat) : Decidable (Flush P s i) :=
  inferInstanceAs (Decidable (s.sent = P.N ∧ s.q i = 0 ∧ ∀ j, j < i → (s.q j = 0 ∧ s.held j = 0)))

inductive Op
  | send
  | consume (i : Nat)
  | emit (i : Nat)
  | take
  | drained
  deriving DecidableEq, Repr

/-- Guard of each step. -/
def Enabled (P : Params) (s : State) : Op → Prop
  | .send => s.app = .sending ∧ s.sent < P.N ∧ occ P s 0 < P.pool 0
  | .consume i => i < P.m ∧ 0 < s.q i ∧ s.held i < P.k i
  | .emit i => i < P.m ∧ occ P s (i + 1) < P.pool (i + 1) ∧
      (s.held i = P.k i ∨ (Flush P s i ∧ 0 < s.held i))
  | .take => (s.app = .draining ∨ s.sent = P.N) ∧ 0 < s.q P.m
  | .drained => s.app = .draining ∧ s.q P.m = 0 ∧ s.sent < P.N

instance (P : Params) (s : State) : (op : Op) → Decidable (Enabled P s op)
  | .send => inferInstanceAs (Decidable (s.app = .sending ∧ s.sent < P.N ∧ occ P s 0 < P.pool 0))
  | .consume i => inferInstanceAs (Decidable (i < P.m ∧ 0 < s.q i ∧ s.held i < P.k i))
  | .emit i => inferInstanceAs (Decidable (i < P.m ∧ occ P s (i + 1) < P.pool (i + 1) ∧
      (s.held i = P.k i ∨ (Flush P s i ∧ 0 < s.held i))))
  | .take => inferInstanceAs (Decidable ((s.app = .draining ∨ s.sent = P.N) ∧ 0 < s.q P.m))
  | .drained => inferInstanceAs (Decidable (s.app = .draining ∧ s.q P.m = 0 ∧ s.sent < P.N))

/-- Effect of each step. -/
def fire (P : Params) (s : State) : Op → State
  | .send => { s with q := upd s.q 0 (s.q 0 + 1), sent := s.sent + 1,
                      app := if P.appDrains then .draining else .sending }
  | .consume i => { s with q := upd s.q i (s.q i - 1), held := upd s.held i (s.held i + 1) }
  | .emit i => { s with held := upd s.held i (s.held i - 1), q := upd s.q (i + 1) (s.q (i + 1) + 1) }
  | .take => { s with q := upd s.q P.m (s.q P.m - 1), delivered := s.delivered + 1 }
  | .drained => { s with app := .sending }

/-- States reachable under ANY interleaving of the stage threads and the application thread. -/
inductive Reachable (P : Params) : State → Prop
  | init : Reachable P init
  | step {s : State} (op : Op) : Reachable P s → Enabled P s op → Reachable P (fire P s op)

/-- No step is enabled. -/
def Stuck (P : Params) (s : State) : Prop := ∀ op, ¬ Enabled P s op

/-- Decidable form of `Stuck` (stage indices bounded by `m`). -/
def StuckB (P : Params) (s : State) : Prop :=
  ¬ Enabled P s .send ∧ ¬ Enabled P s .take ∧ ¬ Enabled P s .drained ∧
    ∀ i, i < P.m → (¬ Enabled P s (.consume i) ∧ ¬ Enabled P s (.emit i))

instance (P : Params) (s : State) : Decidable (StuckB P s) :=
  inferInstanceAs (Decidable (¬ Enabled P s .send ∧ ¬ Enabled P s .take ∧ ¬ Enabled P s .drained ∧
    ∀ i, i < P.m → (¬ Enabled P s (.consume i) ∧ ¬ Enabled P s (.emit i))))

def step (P : Params) (s : State) (op : Op) : Option State :=
  if Enabled P s op then some (fire P s op) else none

def run (P : Params) (s : State) : List Op → Option State
  | [] => some s
  | op :: ops =>
    match step P s op with
    | some s' => run P s' ops
    | none => none

/-- `Σ_{i<n} f i`. -/
def sumTo (f : Nat → Nat) : Nat → Nat
  | 0 => 0
  | n + 1 => sumTo f n + f n

def App.w : App → Nat
  | .draining => 1
  | .sending => 0

/-- Progress measure: strictly decreases at every step (see `Lemmas/Chain.lean`, `measure_decreases`):
    an unsent picture weighs `2m+4`, a picture queued in channel `i` weighs `2(m-i)+2`, a picture held by
    stage `i` weighs `2(m-i)+1`, a pending "poll until empty" weighs 1. -/
def weight (P : Params) (s : State) : Nat :=
  (P.N - s.sent) * (2 * P.m + 4)
    + sumTo (fun i => s.q i * (2 * (P.m - i) + 2)) (P.m + 1)
    + sumTo (fun i => s.held i * (2 * (P.m - i) + 1)) P.m
    + s.app.w

/-- Observable summary for `decide`d examples. -/
def summary (P : Params) (s : State) : Nat × Nat × Bool :=
  (s.sent, s.delivered, decide (StuckB P s))

end Chain
