/-
  C23 — executable model of the SVT-AV1 System Resource Manager
  (/repo/Source/Lib/Common/Codec/EbSystemResourceManager.c, line numbers in comments).

  Two layers:
  * `CircBuf` — the head/tail/NULL-sentinel array of `svt_circular_buffer_*` exactly as written
    (lines 122-187); its list abstraction is `CircBuf.Rep` in `Lemmas/Srm.lean`.
  * `State`/`step` — the SRM as a transition system at mutex granularity: every `Op` is one critical
    section or one semaphore operation of the C code.  Queues are lists (front = head); that the array
    implementation behaves like the list whenever `length < capacity` is `Lemmas/Srm.lean`
    (`CircBuf.rep_*`), and that `length < capacity` holds at every push is `no_ub`.

  Modelling conventions:
  * one logical thread per `EbFifo` (the fifo's `pc`): a fifo handle belongs to one process context.
  * fields under "ghost fields" do not exist in C; no other field is ever computed from a ghost field.
  * `Res.ub` = the C code would dereference NULL / index outside an array / overflow a ring buffer.
    `Res.blocked` = the thread is blocked in `sem_wait`.  `Res.badPc` = not the next step of that thread.
  Core Lean only (the driver links this file).
-/
namespace Srm

/-! ## Circular buffer (lines 93-100 of the header, 122-187 of the .c file) -/

/-- `EbCircularBuffer`; array entries: `0` is the NULL pointer, objects are non-zero. -/
structure CircBuf where
  arr : List Nat
  head : Nat
  tail : Nat
  cap : Nat      -- buffer_total_count
  count : Nat    -- current_count (written, never read by the C code)
  deriving Repr, DecidableEq

namespace CircBuf

/-- svt_circular_buffer_ctor (108-117): calloc'ed array, head = tail = 0. -/
def new (cap : Nat) : CircBuf := { arr := List.replicate cap 0, head := 0, tail := 0, cap := cap, count := 0 }

/-- svt_circular_buffer_empty_check (122-127). -/
def isEmpty (b : CircBuf) : Bool := b.head == b.tail && b.arr.getD b.head 0 == 0

/-- svt_circular_buffer_pop_front (132-148): returns the head entry (possibly NULL = 0). -/
def popFront (b : CircBuf) : Nat × CircBuf :=
  (b.arr.getD b.head 0,
   { b with arr := b.arr.set b.head 0,
            head := if b.head = b.cap - 1 then 0 else b.head + 1,
            count := b.count - 1 })

/-- svt_circular_buffer_push_back (153-168). -/
def pushBack (b : CircBuf) (x : Nat) : CircBuf :=
  { b with arr := b.arr.set b.tail x,
           tail := if b.tail = b.cap - 1 then 0 else b.tail + 1,
           count := b.count + 1 }

/-- svt_circular_buffer_push_front (173-187). -/
def pushFront (b : CircBuf) (x : Nat) : CircBuf :=
  let h := if b.head = 0 then b.cap - 1 else b.head - 1
  { b with arr := b.arr.set h x, head := h, count := b.count + 1 }

/-- The `n` entries starting at index `i`, cyclically. -/
def window (b : CircBuf) : Nat → Nat → List Nat
  | _, 0 => []
  | i, n + 1 => b.arr.getD i 0 :: window b (if i + 1 == b.cap then 0 else i + 1) n

end CircBuf

/-! ## SRM state -/

inductive Side | empty | full
  deriving DecidableEq, Repr, Inhabited

/-- Program counter of the (single) thread using a fifo. -/
inductive Pc
  | idle      -- not inside an SRM call
  | waiting   -- after svt_release_process (605/647), at or before svt_block_on_semaphore (608/650)
  | popping   -- after the semaphore wait, before the lockout-mutex section (611-623 / 653-663)
  | nbPeek    -- svt_get_full_object_non_blocking: after svt_release_process (684), before the peek (687-696)
  | nbCall    -- svt_get_full_object_non_blocking: peek found an item, about to call svt_get_full_object (699)
  deriving DecidableEq, Repr, Inhabited

/-- *ghost*: where an object is. -/
inductive Loc
  | held                        -- handed out by a get, not yet posted / finally released
  | objQ (sd : Side)            -- in the object ring of a muxing queue
  | fifo (sd : Side) (f : Nat)  -- in the linked list of a process fifo
  deriving DecidableEq, Repr, Inhabited

/-- `EbSystemResource` with both `EbMuxingQueue`s, their `EbFifo`s and the wrappers' counters, flattened:
    a field indexed by `Side` belongs to `empty_queue` / `full_queue`, one indexed by `Side` and `Nat`
    to `process_fifo_ptr_array[f]` of that queue, one indexed by `Nat` alone to `wrapper_ptr_pool[o]`. -/
structure State where
  nObj : Nat                       -- object_total_count (= capacity of both object rings)
  nProc : Side → Nat               -- process_total_count (= capacity of the process ring); full: 0 ⇔ full_queue = NULL
  objQ : Side → List Nat           -- object_queue (front = head_index)
  procQ : Side → List Nat          -- process_queue (fifo indices)
  items : Side → Nat → List Nat    -- EbFifo first_ptr … last_ptr via next_ptr
  sem : Side → Nat → Nat           -- EbFifo counting_semaphore
  quit : Side → Nat → Bool         -- EbFifo quit_signal
  pc : Side → Nat → Pc             -- program counter of the fifo's thread
  live : Nat → Nat                 -- uint32_t live_count
  relEn : Nat → Bool               -- release_enable
  -- ghost fields
  loc : Nat → Loc                  -- where each object is
  posted : List Nat                -- objects passed to svt_post_full_object, in order
  assigned : Side → List (Nat × Nat) -- log of (fifo, object) pairs made by svt_muxing_queue_assignation
  taken : Side → Nat → List Nat    -- objects popped from each fifo, in order
  shutPend : Side → Nat → Nat      -- callers of svt_fifo_shutdown between line 91 and line 95
  shutPosts : Side → Nat → Nat     -- semaphore posts done by svt_fifo_shutdown
  shutRets : Side → Nat → Nat      -- EB_NoErrorFifoShutdown returns
  nbUsed : Bool                    -- svt_get_full_object_non_blocking has been called
  shutUsed : Bool                  -- svt_shutdown_process has been called

def upd {α : Type} (g : Nat → α) (i : Nat) (v : α) : Nat → α := fun j => if j = i then v else g j
def upd1 {α : Type} (g : Side → α) (sd : Side) (v : α) : Side → α := fun d => if d = sd then v else g d
def upd2 {α : Type} (g : Side → Nat → α) (sd : Side) (f : Nat) (v : α) : Side → Nat → α :=
  fun d j => if d = sd ∧ j = f then v else g d j

/-- `EB_ObjectWrapperReleasedValue` = `~0u`. -/
def released : Nat := 4294967295

/-- svt_system_resource_ctor (440-486): all wrappers pushed to the empty queue in pool order (470-473),
    live_count = 0 (calloc), release_enable = TRUE (399); `nCons = 0` gives `full_queue = NULL` (482). -/
def init (nObj nProd nCons : Nat) : State :=
  { nObj := nObj
    nProc := fun sd => match sd with | .empty => nProd | .full => nCons
    objQ := fun sd => match sd with | .empty => List.range nObj | .full => []
    procQ := fun _ => []
    items := fun _ _ => []
    sem := fun _ _ => 0
    quit := fun _ _ => false
    pc := fun _ _ => .idle
    live := fun _ => 0
    relEn := fun _ => true
    loc := fun _ => .objQ .empty
    posted := []
    assigned := fun _ => []
    taken := fun _ _ => []
    shutPend := fun _ _ => 0
    shutPosts := fun _ _ => 0
    shutRets := fun _ _ => 0
    nbUsed := false
    shutUsed := false }

/-! ## svt_muxing_queue_assignation (234-262) -/

/-- One iteration of the `while` loop (240-259): pop a process, pop an object, push the object on the
    process's fifo under its mutex, post its semaphore. `none` when the loop condition is false. -/
def assignStep (sd : Side) (s : State) : Option State :=
  match s.objQ sd, s.procQ sd with
  | o :: os, p :: ps =>
    some { s with objQ := upd1 s.objQ sd os                          -- 246
                  procQ := upd1 s.procQ sd ps                        -- 243
                  items := upd2 s.items sd p (s.items sd p ++ [o])   -- 252
                  sem := upd2 s.sem sd p (s.sem sd p + 1)            -- 258
                  assigned := upd1 s.assigned sd (s.assigned sd ++ [(p, o)])
                  loc := upd s.loc o (.fifo sd p) }
  | _, _ => none

/-- The loop, with fuel (`objQ.length` always suffices: every iteration removes one object). -/
def assignN (sd : Side) : Nat → State → State
  | 0, s => s
  | n + 1, s => match assignStep sd s with
    | some s' => assignN sd n s'
    | none => s

def assign (sd : Side) (s : State) : State := assignN sd (s.objQ sd).length s

/-! ## Atomic steps -/

inductive Op
  | reg (sd : Side) (f : Nat)      -- svt_release_process (514-526) called from 605 / 647
  | nbReg (f : Nat)                -- svt_release_process called from 684
  | peek (f : Nat)                 -- 687-701
  | semWait (sd : Side) (f : Nat)  -- svt_block_on_semaphore 608 / 650
  | pop (sd : Side) (f : Nat)      -- 611-623 / 653-663
  | post (o : Nat)                 -- svt_post_full_object 542-552
  | release (o : Nat)              -- svt_release_object 564-584
  | incLive (o k : Nat)            -- svt_object_inc_live_count 363-373
  | setRel (o : Nat) (b : Bool)    -- svt_object_release_enable / _disable 311-347
  | shutQuit (f : Nat)             -- svt_fifo_shutdown 90-93 (for consumer fifo f)
  | shutPost (f : Nat)             -- svt_fifo_shutdown 95
  deriving Repr, DecidableEq

inductive Ret
  | ok | obj (o : Nat) | null | shutdown | nonEmpty
  deriving Repr, DecidableEq

inductive Res
  | ok (s : State) (r : Ret)
  | blocked
  | badPc
  | ub (why : String)

/-- svt_circular_buffer_push_front on the process ring (519).  On a full ring with one slot the write
    lands on the only slot and the ring still reads as `[f]` (Lemmas: `CircBuf.rep_pushFront_full_single`);
    on a full ring with more slots the array no longer represents a queue (`none`). -/
def pushProc (procQ : List Nat) (nProc f : Nat) : Option (List Nat) :=
  if procQ.length < nProc then some (f :: procQ)
  else if nProc = 1 then some [f]
  else none

/-- svt_release_process (514-526) for fifo `f`, leaving the thread at `pc'`. -/
def register (s : State) (sd : Side) (f : Nat) (pc' : Pc) : Res :=
  match pushProc (s.procQ sd) (s.nProc sd) f with
  | none => .ub "process ring overflow"
  | some pq => .ok (assign sd { s with procQ := upd1 s.procQ sd pq, pc := upd2 s.pc sd f pc' }) .ok

def step (s : State) : Op → Res
  | .reg sd f =>
    if ¬ f < s.nProc sd then .ub "fifo index out of range (assert line 293)"
    else if s.pc sd f = .idle ∨ (sd = .full ∧ s.pc sd f = .nbCall) then register s sd f .waiting
    else .badPc
  | .nbReg f =>
    if ¬ f < s.nProc .full then .ub "fifo index out of range (assert line 293)"
    else if s.pc .full f = .idle then register { s with nbUsed := true } .full f .nbPeek
    else .badPc
  | .peek f =>
    if s.pc .full f ≠ .nbPeek then .badPc
    else if s.quit .full f = false ∧ s.items .full f ≠ [] then      -- 690-693: fifo_empty = FALSE
      .ok { s with pc := upd2 s.pc .full f .nbCall } .nonEmpty
    else                                                            -- 701: *wrapper_dbl_ptr = NULL
      .ok { s with pc := upd2 s.pc .full f .idle } .null
  | .semWait sd f =>
    if s.pc sd f ≠ .waiting then .badPc
    else if s.sem sd f = 0 then .blocked
    else .ok { s with sem := upd2 s.sem sd f (s.sem sd f - 1), pc := upd2 s.pc sd f .popping } .ok
  | .pop sd f =>
    if s.pc sd f ≠ .popping then .badPc
    else if sd = .full ∧ s.quit sd f = true then                    -- 657-660
      .ok { s with pc := upd2 s.pc sd f .idle, shutRets := upd2 s.shutRets sd f (s.shutRets sd f + 1) } .shutdown
    else match s.items sd f with
      | [] => .ub "svt_fifo_pop_front on an empty fifo (NULL first_ptr, line 81)"
      | o :: rest =>
        let s1 := { s with items := upd2 s.items sd f rest, pc := upd2 s.pc sd f .idle,
                           taken := upd2 s.taken sd f (s.taken sd f ++ [o]), loc := upd s.loc o .held }
        match sd with
        | .empty => .ok { s1 with live := upd s.live o 0, relEn := upd s.relEn o true } (.obj o)  -- 617, 620
        | .full => .ok s1 (.obj o)
  | .post o =>
    if ¬ o < s.nObj then .ub "object index out of range"
    else if s.nProc .full = 0 then .ub "full_queue is NULL (line 545)"
    else if ¬ (s.objQ .full).length < s.nObj then .ub "object ring overflow (push_back)"
    else .ok (assign .full { s with objQ := upd1 s.objQ .full (s.objQ .full ++ [o])     -- 271, 273
                                    loc := upd s.loc o (.objQ .full), posted := s.posted ++ [o] }) .ok
  | .release o =>
    if ¬ o < s.nObj then .ub "object index out of range"
    else
      let l := if s.live o = 0 then 0 else s.live o - 1             -- 570-571
      if s.relEn o = true ∧ l = 0 then                             -- 573
        if ¬ (s.objQ .empty).length < s.nObj then .ub "object ring overflow (push_front)"
        else .ok (assign .empty { s with live := upd s.live o released                 -- 575
                                         objQ := upd1 s.objQ .empty (o :: s.objQ .empty) -- 285, 287
                                         loc := upd s.loc o (.objQ .empty) }) .ok
      else .ok { s with live := upd s.live o l } .ok
  | .incLive o k =>
    if ¬ o < s.nObj then .ub "object index out of range"
    else .ok { s with live := upd s.live o ((s.live o + k) % 4294967296) } .ok   -- 368
  | .setRel o b =>
    if ¬ o < s.nObj then .ub "object index out of range"
    else .ok { s with relEn := upd s.relEn o b } .ok
  | .shutQuit f =>
    if ¬ f < s.nProc .full then .ub "no such consumer fifo"
    else .ok { s with quit := upd2 s.quit .full f true, shutUsed := true,
                      shutPend := upd2 s.shutPend .full f (s.shutPend .full f + 1) } .ok
  | .shutPost f =>
    if s.shutPend .full f = 0 then .badPc
    else .ok { s with sem := upd2 s.sem .full f (s.sem .full f + 1),
                      shutPend := upd2 s.shutPend .full f (s.shutPend .full f - 1),
                      shutPosts := upd2 s.shutPosts .full f (s.shutPosts .full f + 1) } .ok

/-! ## Caller protocol and reachability -/

/-- The obligations the SRM puts on its callers: only an object that is currently handed out may be
    posted or released.  (Everything else — who calls what, when, how often — is unconstrained.) -/
def WellUsed (s : State) : Op → Prop
  | .post o => s.loc o = .held
  | .release o => s.loc o = .held
  | _ => True

instance (s : State) (op : Op) : Decidable (WellUsed s op) := by
  cases op <;> unfold WellUsed <;> infer_instance

/-- States reachable from a freshly constructed SRM by any sequence of atomic steps of any threads
    (= all interleavings), with any number of objects and fifos. -/
inductive Reachable : State → Prop
  | init (nObj nProd nCons : Nat) : Reachable (init nObj nProd nCons)
  | step {s s' : State} {op : Op} {r : Ret} :
      Reachable s → WellUsed s op → step s op = .ok s' r → Reachable s'

/-- Run a list of atomic steps; `none` as soon as one is not `ok`. -/
def run (s : State) : List Op → Option (State × List Ret)
  | [] => some (s, [])
  | op :: ops => match step s op with
    | .ok s' r => (run s' ops).map (fun (t, rs) => (t, r :: rs))
    | _ => none

end Srm
