/-
  C26 — reported per-frame distortion statistics (`stat_report`) are exact.

  Property theorems about the model of `psnr_calculations` (Model/Sse.lean; EbEncDecProcess.c l.967-1451):
  the value stored in `luma_sse / cb_sse / cr_sse` is the sum of squared differences between the chosen
  source and the chosen reconstruction over the visible (unpadded) `w × h` window, truncated to 32 bits —
  for ALL sizes, origins, strides and padding contents; the 64-bit accumulator never wraps, so the
  `(uint32_t)` cast is the only truncation; the buffers chosen are the pre-filter source and the buffer
  `recon_output` hands out.  Helper lemmas live in Lemmas/Sse.lean (induction over rows / columns).

  What ties "chosen reconstruction" to "the picture decoded from that packet" is C01 (recon == decode) and
  is checked here only empirically (checks/c26.py compares with the REAL decoder's output).
-/
import SvtVerif.Model.Sse
import SvtVerif.Lemmas.Sse

namespace C26
open Sse Finset

/-- **sse_spec (8-bit path).** For every size `w × h`, every origin and stride of either buffer and whatever lies
    outside the visible window, the value the C code stores in the 32-bit field is
    `(Σ_{y<h, x<w} (src(x,y) − rec(x,y))²) mod 2^32`, where `src(x,y) = inB[inOrg + y·inStride + x]` etc.
    Hypotheses: the samples *inside the window* are `uint8_t` values. -/
theorem sse_spec (inB recB : Buf) (inOrg inStride recOrg recStride w h : Nat)
    (hs : WinLt inB inOrg inStride w h 256) (hr : WinLt recB recOrg recStride w h 256) :
    ((ssePlane inB recB inOrg inStride recOrg recStride w h : Nat) : Int) =
      (∑ y ∈ range h, ∑ x ∈ range w,
        ((inB (inOrg + y * inStride + x) : Int) - (recB (recOrg + y * recStride + x) : Int)) ^ 2) % 2 ^ 32 := by
  have hs' : WinLt inB inOrg inStride w h (2 ^ 31) := fun y hy x hx => by have := hs y hy x hx; omega
  have hr' : WinLt recB recOrg recStride w h (2 ^ 31) := fun y hy x hx => by have := hr y hy x hx; omega
  rw [ssePlane_mod, ssePlane64_eq _ _ _ _ _ _ _ _ hs' hr', Nat.mod_mod_of_dvd _ (by decide : 2 ^ 32 ∣ 2 ^ 64)]
  rw [← cast_sum_sq (fun y x => inB (inOrg + y * inStride + x)) (fun y x => recB (recOrg + y * recStride + x))]
  norm_cast

/- non-vacuity: a 3×2 window at origin 7, pitch 10 of an all-255 source against an all-0 reconstruction at origin 4, pitch 12
    satisfies the hypotheses, and the theorem evaluates the C loops to 6·255². -/
example : ((ssePlane (fun _ => 255) (fun _ => 0) 7 10 4 12 3 2 : Nat) : Int) = 390150 := by
  rw [sse_spec _ _ _ _ _ _ _ _ (fun _ _ _ _ => by decide) (fun _ _ _ _ => by decide)]
  simp

/-- **sse64_no_wrap (8-bit path).** The `uint64_t residual_distortion` accumulator holds the *exact* sum for every picture
    whose dimensions fit `uint16_t` (the type of `EbPictureBufferDesc.width/height`): `w·h·255² < 2^64`. Hence the only
    truncation between the true SSE and the reported field is the final `(uint32_t)` cast (`ssePlane = toU32 ∘ ssePlane64`). -/
theorem sse64_no_wrap (inB recB : Buf) (inOrg inStride recOrg recStride w h : Nat)
    (hw : w < 2 ^ 16) (hh : h < 2 ^ 16)
    (hs : WinLt inB inOrg inStride w h 256) (hr : WinLt recB recOrg recStride w h 256) :
    ssePlane64 inB recB inOrg inStride recOrg recStride w h =
      ∑ y ∈ range h, ∑ x ∈ range w, sq (inB (inOrg + y * inStride + x)) (recB (recOrg + y * recStride + x)) := by
  have hs' : WinLt inB inOrg inStride w h (2 ^ 31) := fun y hy x hx => by have := hs y hy x hx; omega
  have hr' : WinLt recB recOrg recStride w h (2 ^ 31) := fun y hy x hx => by have := hr y hy x hx; omega
  rw [ssePlane64_eq _ _ _ _ _ _ _ _ hs' hr']
  apply Nat.mod_eq_of_lt
  have hb := sum_sq_le (fun y x => inB (inOrg + y * inStride + x)) (fun y x => recB (recOrg + y * recStride + x)) w h 255
    (fun y hy x hx => by have := hs y hy x hx; omega) (fun y hy x hx => by have := hr y hy x hx; omega)
  have h1 : h * w ≤ 2 ^ 16 * 2 ^ 16 := Nat.mul_le_mul (by omega) (by omega)
  have h2 : h * w * 255 ^ 2 ≤ 2 ^ 16 * 2 ^ 16 * 255 ^ 2 := Nat.mul_le_mul_right _ h1
  have h3 : (2 : Nat) ^ 16 * 2 ^ 16 * 255 ^ 2 < 2 ^ 64 := by decide
  exact lt_of_le_of_lt hb (lt_of_le_of_lt h2 h3)

/- non-vacuity: 4096×2160, all-255 against all-0: the 64-bit accumulator holds 4096·2160·255² exactly. -/
example : ssePlane64 (fun _ => 255) (fun _ => 0) 0 4096 0 4096 4096 2160 = 575299584000 := by
  rw [sse64_no_wrap _ _ _ _ _ _ _ _ (by decide) (by decide) (fun _ _ _ _ => by decide) (fun _ _ _ _ => by decide)]
  rw [sum_const_sq]
  decide

/-- **sse_exact_iff.** The reported 32-bit value equals the 64-bit sum exactly when that sum is below 2^32;
    otherwise the reported value is strictly smaller (it is the sum mod 2^32). -/
theorem sse_exact_iff (inB recB : Buf) (inOrg inStride recOrg recStride w h : Nat) :
    (ssePlane inB recB inOrg inStride recOrg recStride w h = ssePlane64 inB recB inOrg inStride recOrg recStride w h ↔
      ssePlane64 inB recB inOrg inStride recOrg recStride w h < 2 ^ 32) ∧
    ssePlane inB recB inOrg inStride recOrg recStride w h ≤ ssePlane64 inB recB inOrg inStride recOrg recStride w h := by
  unfold ssePlane toU32
  constructor
  · constructor
    · intro h1
      rw [← h1]
      exact Nat.mod_lt _ (by positivity)
    · exact Nat.mod_eq_of_lt
  · exact Nat.mod_le _ _

/-- **sse_small_exact.** For pictures with `w·h·255² < 2^32` (e.g. up to 256×258 luma samples) the reported field IS the true SSE. -/
theorem sse_small_exact (inB recB : Buf) (inOrg inStride recOrg recStride w h : Nat)
    (hsmall : h * w * 255 ^ 2 < 2 ^ 32)
    (hs : WinLt inB inOrg inStride w h 256) (hr : WinLt recB recOrg recStride w h 256) :
    ssePlane inB recB inOrg inStride recOrg recStride w h =
      ∑ y ∈ range h, ∑ x ∈ range w, sq (inB (inOrg + y * inStride + x)) (recB (recOrg + y * recStride + x)) := by
  have hs' : WinLt inB inOrg inStride w h (2 ^ 31) := fun y hy x hx => by have := hs y hy x hx; omega
  have hr' : WinLt recB recOrg recStride w h (2 ^ 31) := fun y hy x hx => by have := hr y hy x hx; omega
  have hb := sum_sq_le (fun y x => inB (inOrg + y * inStride + x)) (fun y x => recB (recOrg + y * recStride + x)) w h 255
    (fun y hy x hx => by have := hs y hy x hx; omega) (fun y hy x hx => by have := hr y hy x hx; omega)
  rw [ssePlane_mod, ssePlane64_eq _ _ _ _ _ _ _ _ hs' hr', Nat.mod_mod_of_dvd _ (by decide : 2 ^ 32 ∣ 2 ^ 64)]
  exact Nat.mod_eq_of_lt (lt_of_le_of_lt hb hsmall)

/- non-vacuity: 200×120 all-255 vs all-0 is below the threshold and reports 200·120·255². -/
example : ssePlane (fun _ => 255) (fun _ => 0) 5 300 9 264 200 120 = 1560600000 := by
  rw [sse_small_exact _ _ _ _ _ _ _ _ (by decide) (fun _ _ _ _ => by decide) (fun _ _ _ _ => by decide)]
  rw [sum_const_sq]
  decide

/-- **sse_truncation_witness.** The 32-bit truncation does bite inside the supported picture sizes: for a 4096×2160
    plane with source 255 and reconstruction 0 everywhere the true SSE is 575 299 584 000 ≥ 2^32 and the reported
    field is that number mod 2^32 = 4 068 933 632 (so an application that reads the field as "the SSE" is off by 133·2^32). -/
theorem sse_truncation_witness :
    ssePlane (fun _ => 255) (fun _ => 0) 0 4096 0 4096 4096 2160 = 4068933632 ∧
    ssePlane64 (fun _ => 255) (fun _ => 0) 0 4096 0 4096 4096 2160 = 575299584000 ∧
    (575299584000 : Nat) = 133 * 2 ^ 32 + 4068933632 := by
  have h64 : ssePlane64 (fun _ => 255) (fun _ => 0) 0 4096 0 4096 4096 2160 = 575299584000 := by
    rw [sse64_no_wrap _ _ _ _ _ _ _ _ (by decide) (by decide) (fun _ _ _ _ => by decide) (fun _ _ _ _ => by decide)]
    rw [sum_const_sq]
    decide
  refine ⟨?_, h64, by decide⟩
  rw [ssePlane_mod, h64]
  decide

/-- **sse_window_only.** Independence of strides, origins and padding contents — with *no* assumption on sample ranges:
    two (source, reconstruction) buffer pairs, each with its own origin and stride, that agree on the visible `w × h`
    window give the same 64-bit accumulator and the same reported value. -/
theorem sse_window_only (inB recB inB' recB' : Buf)
    (inOrg inStride recOrg recStride inOrg' inStride' recOrg' recStride' w h : Nat)
    (hsrc : ∀ y, y < h → ∀ x, x < w → inB (inOrg + y * inStride + x) = inB' (inOrg' + y * inStride' + x))
    (hrec : ∀ y, y < h → ∀ x, x < w → recB (recOrg + y * recStride + x) = recB' (recOrg' + y * recStride' + x)) :
    ssePlane64 inB recB inOrg inStride recOrg recStride w h = ssePlane64 inB' recB' inOrg' inStride' recOrg' recStride' w h ∧
    ssePlane inB recB inOrg inStride recOrg recStride w h = ssePlane inB' recB' inOrg' inStride' recOrg' recStride' w h := by
  have h64 : ssePlane64 inB recB inOrg inStride recOrg recStride w h =
      ssePlane64 inB' recB' inOrg' inStride' recOrg' recStride' w h := by
    rw [ssePlane64_raw, ssePlane64_raw]
    congr 1
    apply Finset.sum_congr rfl
    intro y hy
    apply Finset.sum_congr rfl
    intro x hx
    rw [hsrc y (Finset.mem_range.mp hy) x (Finset.mem_range.mp hx), hrec y (Finset.mem_range.mp hy) x (Finset.mem_range.mp hx)]
  exact ⟨h64, by unfold ssePlane; rw [h64]⟩

/- non-vacuity: a tightly packed 2×2 picture and the same picture embedded at origin 3 with pitch 5 in a buffer full of other
    values (`if` chain) agree on the window, so they report the same SSE against any common reconstruction. -/
example (recB : Buf) :
    ssePlane (fun i => [10, 20, 30, 40].getD i 0) recB 0 2 0 2 2 2 =
    ssePlane (fun i => [9, 9, 9, 10, 20, 77, 78, 79, 30, 40, 99].getD i 0) recB 3 5 0 2 2 2 := by
  refine (sse_window_only _ _ _ _ _ _ _ _ _ _ _ _ 2 2 ?_ (fun _ _ _ _ => rfl)).2
  intro y hy x hx
  have : y = 0 ∨ y = 1 := by omega
  have : x = 0 ∨ x = 1 := by omega
  rcases ‹y = 0 ∨ y = 1› with rfl | rfl <;> rcases ‹x = 0 ∨ x = 1› with rfl | rfl <;> rfl

/-- **sse_spec16 (unpacked 16-bit path, l.1320-1449).** Same statement for the high-bit-depth path: the source sample is
    assembled as `4·msb + (inc / 64) mod 4` from the 8-MSB plane and the bit-increment plane (each with its own origin
    and stride), the reconstruction is a `uint16_t` plane. -/
theorem sse_spec16 (inB incB recB : Buf) (inOrg inStride incOrg incStride recOrg recStride w h : Nat)
    (hs : WinLt inB inOrg inStride w h 256) (hr : WinLt recB recOrg recStride w h (2 ^ 16)) :
    ((ssePlane16 inB incB recB inOrg inStride incOrg incStride recOrg recStride w h : Nat) : Int) =
      (∑ y ∈ range h, ∑ x ∈ range w,
        (((4 * inB (inOrg + y * inStride + x) + incB (incOrg + y * incStride + x) / 64 % 4 : Nat) : Int)
          - (recB (recOrg + y * recStride + x) : Int)) ^ 2) % 2 ^ 32 := by
  rw [ssePlane16_mod, ssePlane64_16_eq _ _ _ _ _ _ _ _ _ _ _ hs hr, Nat.mod_mod_of_dvd _ (by decide : 2 ^ 32 ∣ 2 ^ 64)]
  rw [← cast_sum_sq (fun y x => 4 * inB (inOrg + y * inStride + x) + incB (incOrg + y * incStride + x) / 64 % 4)
    (fun y x => recB (recOrg + y * recStride + x))]
  norm_cast

/- non-vacuity: msb 255, increment byte 0xC0 (two LSBs = 3) gives the 10-bit sample 1023; against reconstruction 0 on a 3×2 window. -/
example : ((ssePlane16 (fun _ => 255) (fun _ => 192) (fun _ => 0) 7 10 2 9 4 12 3 2 : Nat) : Int) = 6279174 := by
  rw [sse_spec16 _ _ _ _ _ _ _ _ _ _ _ (fun _ _ _ _ => by decide) (fun _ _ _ _ => by decide)]
  simp

/-- **sse64_no_wrap16.** No wrap of the 64-bit accumulator in the 16-bit path either (`w·h·65535² < 2^64` for `uint16_t` dimensions). -/
theorem sse64_no_wrap16 (inB incB recB : Buf) (inOrg inStride incOrg incStride recOrg recStride w h : Nat)
    (hw : w < 2 ^ 16) (hh : h < 2 ^ 16)
    (hs : WinLt inB inOrg inStride w h 256) (hr : WinLt recB recOrg recStride w h (2 ^ 16)) :
    ssePlane64_16 inB incB recB inOrg inStride incOrg incStride recOrg recStride w h =
      ∑ y ∈ range h, ∑ x ∈ range w,
        sq (4 * inB (inOrg + y * inStride + x) + incB (incOrg + y * incStride + x) / 64 % 4) (recB (recOrg + y * recStride + x)) := by
  rw [ssePlane64_16_eq _ _ _ _ _ _ _ _ _ _ _ hs hr]
  apply Nat.mod_eq_of_lt
  have hb := sum_sq_le (fun y x => 4 * inB (inOrg + y * inStride + x) + incB (incOrg + y * incStride + x) / 64 % 4)
    (fun y x => recB (recOrg + y * recStride + x)) w h 65535
    (fun y hy x hx => by have := hs y hy x hx; show 4 * inB _ + _ % 4 ≤ 65535; omega)
    (fun y hy x hx => by have := hr y hy x hx; omega)
  have h1 : h * w ≤ 2 ^ 16 * 2 ^ 16 := Nat.mul_le_mul (by omega) (by omega)
  have h2 : h * w * 65535 ^ 2 ≤ 2 ^ 16 * 2 ^ 16 * 65535 ^ 2 := Nat.mul_le_mul_right _ h1
  have h3 : (2 : Nat) ^ 16 * 2 ^ 16 * 65535 ^ 2 < 2 ^ 64 := by decide
  exact lt_of_le_of_lt hb (lt_of_le_of_lt h2 h3)

example : ssePlane64_16 (fun _ => 255) (fun _ => 192) (fun _ => 0) 0 4096 0 4096 0 4096 4096 2160 = 4096 * 2160 * 1023 ^ 2 := by
  rw [sse64_no_wrap16 _ _ _ _ _ _ _ _ _ _ _ (by decide) (by decide) (fun _ _ _ _ => by decide) (fun _ _ _ _ => by decide)]
  rw [sum_const_sq]
  decide

/-- **psnr8_planes.** The picture-level function measures, plane by plane, the *chosen* source planes against the *chosen*
    reconstruction, over `(width − max_input_pad_right) × (height − max_input_pad_bottom)` luma samples and that size
    `>> ss_x`, `>> ss_y` for Cb and Cr, starting at `origin_x + origin_y·stride` (chroma: `origin_x/2 + origin_y/2·stride`);
    Cb is computed from the Cb buffers into the second component and Cr into the third (no swap). -/
theorem psnr8_planes (p : Pcs) (s : Scs) :
    psnr8 p s =
      ( ssePlane (chooseSrc p).y (chooseRecon p).bufY
          (p.enhancedUnscaled.originX + p.enhancedUnscaled.originY * p.enhancedUnscaled.strideY) p.enhancedUnscaled.strideY
          ((chooseRecon p).originX + (chooseRecon p).originY * (chooseRecon p).strideY) (chooseRecon p).strideY
          (p.enhancedUnscaled.width - s.maxInputPadRight) (p.enhancedUnscaled.height - s.maxInputPadBottom),
        ssePlane (chooseSrc p).cb (chooseRecon p).bufCb
          (p.enhancedUnscaled.originX / 2 + p.enhancedUnscaled.originY / 2 * p.enhancedUnscaled.strideCb) p.enhancedUnscaled.strideCb
          ((chooseRecon p).originX / 2 + (chooseRecon p).originY / 2 * (chooseRecon p).strideCb) (chooseRecon p).strideCb
          ((p.enhancedUnscaled.width - s.maxInputPadRight) / 2 ^ s.ssX) ((p.enhancedUnscaled.height - s.maxInputPadBottom) / 2 ^ s.ssY),
        ssePlane (chooseSrc p).cr (chooseRecon p).bufCr
          (p.enhancedUnscaled.originX / 2 + p.enhancedUnscaled.originY / 2 * p.enhancedUnscaled.strideCr) p.enhancedUnscaled.strideCr
          ((chooseRecon p).originX / 2 + (chooseRecon p).originY / 2 * (chooseRecon p).strideCr) (chooseRecon p).strideCr
          ((p.enhancedUnscaled.width - s.maxInputPadRight) / 2 ^ s.ssX) ((p.enhancedUnscaled.height - s.maxInputPadBottom) / 2 ^ s.ssY) ) := by
  simp only [psnr8, lumaW, lumaH, chromaW, chromaH, Nat.shiftRight_eq_div_pow]

/-- **packet_fields.** With `stat_report` the packet carries exactly the three values of the picture's own PCS, in the order
    (luma, cb, cr); without it, zeros (EbPacketizationProcess.c l.686-700). -/
theorem packet_fields (p : Pcs) (s : Scs) :
    packetFields true (psnrCalculations p s) = psnrCalculations p s ∧ packetFields false (psnrCalculations p s) = (0, 0, 0) :=
  ⟨rfl, rfl⟩

/-- **sse_buffer_choice (reconstruction side).** `psnr_calculations` measures the same picture buffer that `recon_output`
    hands to the application for that frame (`reference_picture` for reference frames, `recon_picture_ptr` otherwise). -/
theorem sse_buffer_choice_recon (p : Pcs) :
    chooseRecon p = reconOutputChoice p ∧
    (p.isUsedAsReferenceFlag = true → chooseRecon p = p.referencePicture) ∧
    (p.isUsedAsReferenceFlag = false → chooseRecon p = p.reconPicture) := by
  refine ⟨rfl, ?_, ?_⟩ <;> intro h <;> simp [chooseRecon, h]

/-- **sse_buffer_choice (source side).** Let `orig` be the input picture as submitted, `filt*` whatever the temporal filter
    wrote over its three planes, and `saveEnhanced` the copy `save_src_pic_buffers` took of `orig` before filtering
    (`lumaSize`/`chromaSize` elements from the start of each allocation). If every sample of the visible window lies inside
    the copied range (memory safety of the reads), then the values reported for the temporally filtered picture are exactly
    those that would be reported for the unfiltered picture `orig`: the filter output has no influence. -/
theorem sse_buffer_choice (isRef : Bool) (refPic recPic orig : PicDesc) (filtY filtCb filtCr : Buf) (other : Planes)
    (lumaSize chromaSize : Nat) (s : Scs)
    (hy : ∀ y, y < lumaH orig s → ∀ x, x < lumaW orig s →
      orig.originX + orig.originY * orig.strideY + y * orig.strideY + x < lumaSize)
    (hcb : ∀ y, y < chromaH orig s → ∀ x, x < chromaW orig s →
      orig.originX / 2 + orig.originY / 2 * orig.strideCb + y * orig.strideCb + x < chromaSize)
    (hcr : ∀ y, y < chromaH orig s → ∀ x, x < chromaW orig s →
      orig.originX / 2 + orig.originY / 2 * orig.strideCr + y * orig.strideCr + x < chromaSize) :
    psnr8 { isUsedAsReferenceFlag := isRef, temporalFilteringOn := true, referencePicture := refPic, reconPicture := recPic,
            enhancedUnscaled := { orig with bufY := filtY, bufCb := filtCb, bufCr := filtCr },
            saveEnhanced := saveSrcPicBuffers orig lumaSize chromaSize } s =
    psnr8 { isUsedAsReferenceFlag := isRef, temporalFilteringOn := false, referencePicture := refPic, reconPicture := recPic,
            enhancedUnscaled := orig, saveEnhanced := other } s := by
  simp only [psnr8, chooseSrc, chooseRecon, lumaW, lumaH, chromaW, chromaH, saveSrcPicBuffers, if_true, Bool.false_eq_true, if_false]
  refine Prod.ext ?_ (Prod.ext ?_ ?_)
  · refine (sse_window_only _ _ _ _ _ _ _ _ _ _ _ _ _ _ ?_ (fun _ _ _ _ => rfl)).2
    intro y hy' x hx'
    simp only [picCopy]
    rw [if_pos (hy y hy' x hx')]
  · refine (sse_window_only _ _ _ _ _ _ _ _ _ _ _ _ _ _ ?_ (fun _ _ _ _ => rfl)).2
    intro y hy' x hx'
    simp only [picCopy]
    rw [if_pos (hcb y hy' x hx')]
  · refine (sse_window_only _ _ _ _ _ _ _ _ _ _ _ _ _ _ ?_ (fun _ _ _ _ => rfl)).2
    intro y hy' x hx'
    simp only [picCopy]
    rw [if_pos (hcr y hy' x hx')]

/- non-vacuity: a 4×2 picture (4:2:0) at origin (2,2), luma pitch 8 / chroma pitch 4, allocations of 48 / 12 elements: the
    window lies inside the copied range, so the hypotheses of `sse_buffer_choice` hold. -/
example : let orig : PicDesc := { bufY := fun i => i % 251, bufCb := fun i => (3 * i) % 256, bufCr := fun i => (7 * i) % 256,
                                  originX := 2, originY := 2, strideY := 8, strideCb := 4, strideCr := 4, width := 8, height := 2 }
          let s : Scs := { is16bit := false, ssX := 1, ssY := 1, maxInputPadRight := 4, maxInputPadBottom := 0 }
          (∀ y, y < lumaH orig s → ∀ x, x < lumaW orig s → orig.originX + orig.originY * orig.strideY + y * orig.strideY + x < 48) ∧
          (∀ y, y < chromaH orig s → ∀ x, x < chromaW orig s → orig.originX / 2 + orig.originY / 2 * orig.strideCb + y * orig.strideCb + x < 12) ∧
          lumaW orig s = 4 ∧ lumaH orig s = 2 ∧ chromaW orig s = 2 ∧ chromaH orig s = 1 := by
  refine ⟨?_, ?_, by decide, by decide, by decide, by decide⟩
  · intro y hy x hx
    have h1 : y < 2 := hy
    have h2 : x < 4 := hx
    show 2 + 2 * 8 + y * 8 + x < 48
    omega
  · intro y hy x hx
    have h1 : y < 1 := hy
    have h2 : x < 2 := hx
    show 2 / 2 + 2 / 2 * 4 + y * 4 + x < 12
    omega


/-- **measured_recon_is_decoded_partial.** The part of "the measured reconstruction is the picture a decoder reconstructs" that holds
    for the in-loop filter stage of the code as it is (`withStatReport = false`) and as it would be with the proposed fix: whenever loop
    restoration is enabled for the sequence, or the picture is a reference, or `recon_enabled` is set, or CDEF is off for the picture
    (or the condition tests `stat_report` and it is set), the buffer `psnr_calculations` reads holds the CDEF output exactly when a
    decoder applies CDEF.
    FULL INTENDED STATEMENT (false of the pinned code, see `sse_cdef_gap_witness`): the same with the single hypothesis `statReport = true`. -/
theorem measured_recon_is_decoded_partial {α : Type} (withStatReport cdefOn enableRestoration isRef reconEnabled statReport : Bool) (pre post : α)
    (h : enableRestoration = true ∨ isRef = true ∨ reconEnabled = true ∨ cdefOn = false ∨ (withStatReport = true ∧ statReport = true)) :
    measuredRecon withStatReport cdefOn enableRestoration isRef reconEnabled statReport pre post = decodedRecon cdefOn pre post := by
  cases withStatReport <;> cases statReport <;> cases cdefOn <;> cases enableRestoration <;> cases isRef <;> cases reconEnabled <;>
    simp_all [measuredRecon, decodedRecon, cdefFrameApplied]

/- non-vacuity: the default configuration of presets 0-6 (restoration on), non-reference picture, no recon output, code as it is. -/
example : measuredRecon false true true false false true "unfiltered" "cdef-filtered" = decodedRecon true "unfiltered" "cdef-filtered" :=
  measured_recon_is_decoded_partial _ _ _ _ _ _ _ _ (Or.inl rfl)

/-- **sse_cdef_gap_witness.** The excluded point is real for the code as it is (`withStatReport = false`): with `stat_report = 1`, a
    non-reference picture, `recon_enabled = 0` (the library default) and loop restoration off (presets 7-8, or
    `enable_restoration_filtering = 0`), CDEF is searched and signalled but not applied before the statistics are taken: the measured
    buffer is the *unfiltered* picture while a decoder outputs the *filtered* one; and this is the only such point (`statReport` plays
    no role). checks/c26.py reproduces it on the real encoder (`w=128 h=64 n=20 content=4 recon=0 cfg.enc_mode=8 cfg.stat_report=1`:
    every NON_REF packet reports an SSE that differs from the SSE between the submitted and the decoded picture). -/
theorem sse_cdef_gap_witness {α : Type} (pre post : α) :
    measuredRecon false true false false false true pre post = pre ∧ decodedRecon true pre post = post ∧
    (∀ cdefOn enableRestoration isRef reconEnabled statReport : Bool,
      (∀ (a b : Bool), measuredRecon false cdefOn enableRestoration isRef reconEnabled statReport a b = decodedRecon cdefOn a b) ↔
        ¬ (cdefOn = true ∧ enableRestoration = false ∧ isRef = false ∧ reconEnabled = false)) := by
  refine ⟨rfl, rfl, ?_⟩
  intro c r i e s
  constructor
  · intro h ⟨hc, hr, hi, he⟩
    subst hc hr hi he
    have := h false true
    simp [measuredRecon, decodedRecon, cdefFrameApplied] at this
  · intro h a b
    cases c <;> cases r <;> cases i <;> cases e <;> simp_all [measuredRecon, decodedRecon, cdefFrameApplied]

/-- **measured_recon_is_decoded_with_fix.** With the disjunct `static_config.stat_report` added to the condition
    (hooks/fix-c26-cdef-stat-report.patch; `withStatReport = true`) the full intended statement holds: whenever statistics are
    requested, the measured buffer is what a decoder reconstructs, for every picture and configuration. -/
theorem measured_recon_is_decoded_with_fix {α : Type} (cdefOn enableRestoration isRef reconEnabled : Bool) (pre post : α) :
    measuredRecon true cdefOn enableRestoration isRef reconEnabled true pre post = decodedRecon cdefOn pre post :=
  measured_recon_is_decoded_partial _ _ _ _ _ _ _ _ (Or.inr (Or.inr (Or.inr (Or.inr ⟨rfl, rfl⟩))))

/-
  Full intended end-to-end statement (NOT a theorem here; it needs C01 "reconstruction == decode of the packet", which is outside this
  model and is checked against the real decoder by checks/c26.py):

    for every packet k produced with stat_report = 1, bit depth 8, no film grain, no super-resolution:
      packet[k].luma_sse = (Σ_{y<H, x<W} (submitted[pts_k].Y(x,y) − decoded[k].Y(x,y))²) mod 2^32     (Cb, Cr alike, W/2 × H/2)

  This statement is FALSE of the real code at one point (finding C26-cdef-skipped-nonref-no-recon, `sse_cdef_gap_witness`): non-reference
  pictures when recon_enabled = 0 and loop restoration is off are measured before/without CDEF although CDEF is signalled.

  What is proved: the model of `psnr_calculations` computes that sum for the buffers it chooses (`sse_spec`, `psnr8_planes`), the
  source it chooses is the pre-filter picture (`sse_buffer_choice`), the reconstruction it chooses is the one `recon_output` emits
  (`sse_buffer_choice_recon`), the packet carries these values unswapped (`packet_fields`).
-/

end C26
