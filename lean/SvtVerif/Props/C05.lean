/-
  C05 — encoder output independent of thread count / pinning: what the configuration code derives from the core count.

  Model: `Gen/BufCfg.lean`, TRANSLATED (xlate/bufcfg.py, clang AST) from
  `load_default_buffer_configuration_settings` + `set_parent_pcs` (Source/Lib/Encoder/Globals/EbEncHandle.c):
      coreCount lpCount numGroups inp   the local `core_count` (lines 366-374): the only place where
                                        get_num_processors(), num_groups, logical_processors, target_socket enter
      bufCfgCore cc inp : Out           every member the function writes, as a function of `cc` and the members it reads
      bufCfg lp ng inp = bufCfgCore (coreCount lp ng inp) inp
  and the list `geometryAccesses` of every textual access to a core-dependent member elsewhere in Source/Lib/Encoder.

  What is proved here is about that configuration step.  That the *coding* result does not depend on the members of
  `parallelGeometry` is hypothesis H-noread, made checkable by `geometry_reads_classified`, plus C24 (segment grids: every
  grid covers the picture and respects the dependencies) and C23 (pool size does not change FIFO order); the check's
  end-to-end sweep over logical_processors/unpin/target_socket tests it on the real encoder.
-/
import SvtVerif.Gen.BufCfg
import SvtVerif.Lemmas.BufCfg
namespace C05
open Gen.BufCfg CSem BufCfgLemmas

/-! ## 1. Only parallel geometry depends on the core count -/

/-- The members that are *allowed* to vary with the core count: segment grids of the picture-level parallel stages
    (ME / EncDec / CDEF / temporal filter), sizes of the picture and buffer pools, and numbers of worker processes.
    Written by hand.  NOT in the list, hence proved independent of the core count below: `scd_delay` (changes which
    pictures the scene-change detector sees), the tile-group arrays (derived from `tile_rows` only), the restoration
    segment grid (derived from the picture size only), every inter-process FIFO size, `output_stream_buffer_fifo_init_count`,
    `source_based_operations_process_init_count` (1 on both branches) and `static_config.use_cpu_flags`. -/
def parallelGeometry : List FieldName := [
  -- segment grids
  .me_segment_row_count_array_0, .me_segment_row_count_array_1, .me_segment_row_count_array_2,
  .me_segment_row_count_array_3, .me_segment_row_count_array_4, .me_segment_row_count_array_5,
  .me_segment_column_count_array_0, .me_segment_column_count_array_1, .me_segment_column_count_array_2,
  .me_segment_column_count_array_3, .me_segment_column_count_array_4, .me_segment_column_count_array_5,
  .enc_dec_segment_row_count_array_0, .enc_dec_segment_row_count_array_1, .enc_dec_segment_row_count_array_2,
  .enc_dec_segment_row_count_array_3, .enc_dec_segment_row_count_array_4, .enc_dec_segment_row_count_array_5,
  .enc_dec_segment_col_count_array_0, .enc_dec_segment_col_count_array_1, .enc_dec_segment_col_count_array_2,
  .enc_dec_segment_col_count_array_3, .enc_dec_segment_col_count_array_4, .enc_dec_segment_col_count_array_5,
  .cdef_segment_column_count, .cdef_segment_row_count, .tf_segment_column_count, .tf_segment_row_count,
  -- pool / buffer counts
  .input_buffer_fifo_init_count, .picture_control_set_pool_init_count, .picture_control_set_pool_init_count_child,
  .reference_picture_buffer_init_count, .pa_reference_picture_buffer_init_count, .output_recon_buffer_fifo_init_count,
  .overlay_input_picture_buffer_init_count, .me_pool_init_count,
  -- worker process counts
  .total_process_init_count, .picture_analysis_process_init_count, .motion_estimation_process_init_count,
  .inlme_process_init_count, .mode_decision_configuration_process_init_count, .enc_dec_process_init_count,
  .entropy_coding_process_init_count, .dlf_process_init_count, .cdef_process_init_count, .rest_process_init_count]

/-- (DESIGN's syntactic statement.)  Every member whose translated value mentions `core_count` at all is in the list. -/
theorem core_count_taint_subset_geometry : ∀ f ∈ coreDependent, f ∈ parallelGeometry := by decide

/-- Semantic non-interference, for ALL values of every member read: two runs of the function body that differ only in the
    value of `core_count` write the same value to every member outside `parallelGeometry`. -/
theorem core_count_only_affects_geometry_core (cc₁ cc₂ : Int) (inp : Inputs) (f : FieldName) (hf : f ∉ parallelGeometry) :
    (bufCfgCore cc₁ inp).get f = (bufCfgCore cc₂ inp).get f := by
  cases f <;> first | exact absurd (by decide) hf | (dsimp only [Out.get]; rfl)

/-- The same for the whole function: whatever get_num_processors() and num_groups return (any two hosts), the members
    outside `parallelGeometry` get the same values. -/
theorem core_count_only_affects_geometry (lp₁ ng₁ lp₂ ng₂ : Int) (inp : Inputs) (f : FieldName) (hf : f ∉ parallelGeometry) :
    (bufCfg lp₁ ng₁ inp).get f = (bufCfg lp₂ ng₂ inp).get f :=
  core_count_only_affects_geometry_core _ _ inp f hf

example : FieldName.scd_delay ∉ parallelGeometry ∧ FieldName.tile_group_row_count_array_3 ∉ parallelGeometry ∧
    FieldName.rest_segment_row_count ∉ parallelGeometry ∧ FieldName.static_config_use_cpu_flags ∉ parallelGeometry := by decide

/-- a 1080p configuration used as witness below -/
def wit : Inputs :=
  { max_input_luma_width := 1920, max_input_luma_height := 1080, static_config_super_block_size := 64,
    static_config_hierarchical_levels := 5, static_config_frame_rate := 30, input_resolution := 4,
    static_config_look_ahead_distance := 0, static_config_enable_overlays := 1, static_config_tf_level := 1,
    static_config_enable_tpl_la := 0, static_config_intra_period_length := 31 }

set_option maxRecDepth 8000 in
/-- The list is tight: every member in it really takes different values for core_count 1 and 16 (on `wit`), so nothing
    is listed that could have been proved independent. -/
theorem parallelGeometry_tight : ∀ f ∈ parallelGeometry, (bufCfgCore 1 wit).get f ≠ (bufCfgCore 16 wit).get f := by decide

/-- The early-return decision and the return code are the only other outputs; they depend on `cc` only through
    `set_parent_pcs(...) == -1`, which never holds for accepted inputs (`no_early_return` below). -/
theorem bufCfg_factors (lp ng : Int) (inp : Inputs) :
    bufCfg lp ng inp = bufCfgCore (coreCount lp ng inp) inp ∧
    returnCode lp ng inp = returnCodeCore (coreCount lp ng inp) inp ∧
    earlyReturn lp ng inp = earlyReturnCore (coreCount lp ng inp) inp := ⟨rfl, rfl, rfl⟩

/-! ## 2. Inside this function, logical_processors / target_socket / unpin enter only through `coreCount`
   (their uses OUTSIDE the function — thread affinity, and the two places where `logical_processors` itself steers
   coding/scheduling — are in the classified list of section 4) -/

/-- After `core_count` is computed the function never looks at `logical_processors` or `target_socket` again:
    overwriting them changes neither the members written nor the return code. -/
theorem processor_settings_not_read_after_coreCount (cc : Int) (inp : Inputs) (lp' sock' : Int) :
    bufCfgCore cc { inp with static_config_logical_processors := lp', static_config_target_socket := sock' } = bufCfgCore cc inp ∧
    returnCodeCore cc { inp with static_config_logical_processors := lp', static_config_target_socket := sock' } = returnCodeCore cc inp :=
  ⟨rfl, rfl⟩

/-- Hence two configurations (on possibly different hosts) that differ only in `logical_processors` / `target_socket`
    and arrive at the same core count get exactly the same members. -/
theorem same_coreCount_same_configuration (lp₁ ng₁ lp₂ ng₂ : Int) (inp₁ inp₂ : Inputs)
    (hrest : { inp₂ with static_config_logical_processors := inp₁.static_config_logical_processors,
                         static_config_target_socket := inp₁.static_config_target_socket } = inp₁)
    (hcc : coreCount lp₁ ng₁ inp₁ = coreCount lp₂ ng₂ inp₂) :
    bufCfg lp₁ ng₁ inp₁ = bufCfg lp₂ ng₂ inp₂ := by
  unfold bufCfg
  rw [hcc, ← hrest]
  rfl

example : coreCount 16 1 { wit with static_config_logical_processors := 4 } =
          coreCount 8 2 { wit with static_config_logical_processors := 0, static_config_target_socket := 1 } := by decide

/-- `unpin` is not read by the function at all (it only selects whether threads get an affinity mask,
    EbEncHandle.c:1796), and `coreCount` reads nothing but the two other settings. -/
theorem unpin_not_read : "static_config_unpin" ∉ inputNames ∧
    coreCountInputNames = ["static_config_target_socket", "static_config_logical_processors"] := by decide

/-- `core_count` is min(logical_processors, processors available): at least 1 when every processor group has a
    processor, never more than requested, and exactly 1 for `logical_processors = 1` ("lp 1"). -/
theorem coreCount_range (lp ng : Int) (inp : Inputs) (hng : 1 ≤ ng) (hlp : ng ≤ lp) (hlp32 : lp < 4294967296)
    (hs : 0 ≤ inp.static_config_logical_processors) :
    1 ≤ coreCount lp ng inp ∧ coreCount lp ng inp ≤ lp ∧
    (inp.static_config_logical_processors ≠ 0 → coreCount lp ng inp ≤ inp.static_config_logical_processors) ∧
    (inp.static_config_logical_processors = 1 → coreCount lp ng inp = 1) := by
  have hdiv : 1 ≤ lp / ng ∧ lp / ng ≤ lp := by
    constructor
    · exact Int.le_ediv_of_mul_le (by omega) (by omega)
    · exact Int.ediv_le_self _ (by omega)
  unfold coreCount
  bufcfg_unfold_locals
  rw [cdiv_of_nonneg (by omega)]
  generalize lp / ng = q at *
  bufcfg_norm
  refine ⟨?_, ?_, ?_, ?_⟩ <;> omega

example : 1 ≤ (2 : Int) ∧ (2 : Int) ≤ 16 ∧ (16 : Int) < 4294967296 ∧ 0 ≤ wit.static_config_logical_processors := by decide

/-! ## 3. Range facts the pipeline needs, for every core count -/

/-- the part of verify_settings' accepted domain (and of the C types) that the range facts use -/
structure Accepted (inp : Inputs) : Prop where
  width  : 64 ≤ inp.max_input_luma_width ∧ inp.max_input_luma_width ≤ 65535
  height : 64 ≤ inp.max_input_luma_height ∧ inp.max_input_luma_height ≤ 65535
  levels : 0 ≤ inp.static_config_hierarchical_levels ∧ inp.static_config_hierarchical_levels ≤ 5
  lad    : 0 ≤ inp.static_config_look_ahead_distance ∧ inp.static_config_look_ahead_distance ≤ 120
  rate   : 0 ≤ inp.static_config_frame_rate ∧ inp.static_config_frame_rate < 4294967296
  tiles  : 0 ≤ inp.static_config_tile_rows ∧ inp.static_config_tile_rows ≤ 6

example : Accepted wit := by constructor <;> decide

/-- all six temporal layers get the same grid (the arrays are filled cell by cell with one value) -/
theorem segment_arrays_uniform (cc : Int) (inp : Inputs) :
    let o := bufCfgCore cc inp
    (o.enc_dec_segment_row_count_array_1 = o.enc_dec_segment_row_count_array_0 ∧ o.enc_dec_segment_row_count_array_2 = o.enc_dec_segment_row_count_array_0 ∧
     o.enc_dec_segment_row_count_array_3 = o.enc_dec_segment_row_count_array_0 ∧ o.enc_dec_segment_row_count_array_4 = o.enc_dec_segment_row_count_array_0 ∧
     o.enc_dec_segment_row_count_array_5 = o.enc_dec_segment_row_count_array_0) ∧
    (o.enc_dec_segment_col_count_array_1 = o.enc_dec_segment_col_count_array_0 ∧ o.enc_dec_segment_col_count_array_2 = o.enc_dec_segment_col_count_array_0 ∧
     o.enc_dec_segment_col_count_array_3 = o.enc_dec_segment_col_count_array_0 ∧ o.enc_dec_segment_col_count_array_4 = o.enc_dec_segment_col_count_array_0 ∧
     o.enc_dec_segment_col_count_array_5 = o.enc_dec_segment_col_count_array_0) ∧
    (o.me_segment_row_count_array_1 = o.me_segment_row_count_array_0 ∧ o.me_segment_row_count_array_2 = o.me_segment_row_count_array_0 ∧
     o.me_segment_row_count_array_3 = o.me_segment_row_count_array_0 ∧ o.me_segment_row_count_array_4 = o.me_segment_row_count_array_0 ∧
     o.me_segment_row_count_array_5 = o.me_segment_row_count_array_0) ∧
    (o.me_segment_column_count_array_1 = o.me_segment_column_count_array_0 ∧ o.me_segment_column_count_array_2 = o.me_segment_column_count_array_0 ∧
     o.me_segment_column_count_array_3 = o.me_segment_column_count_array_0 ∧ o.me_segment_column_count_array_4 = o.me_segment_column_count_array_0 ∧
     o.me_segment_column_count_array_5 = o.me_segment_column_count_array_0) ∧
    (o.cdef_segment_row_count = o.me_segment_row_count_array_0 ∧ o.cdef_segment_column_count = o.me_segment_column_count_array_0 ∧
     o.tf_segment_row_count = o.me_segment_row_count_array_0 ∧ o.tf_segment_column_count = o.me_segment_column_count_array_0) := by
  intro o
  refine ⟨⟨?_, ?_, ?_, ?_, ?_⟩, ⟨?_, ?_, ?_, ?_, ?_⟩, ⟨?_, ?_, ?_, ?_, ?_⟩, ⟨?_, ?_, ?_, ?_, ?_⟩, ⟨?_, ?_, ?_, ?_⟩⟩ <;> rfl

/-- EncDec segment grid: at least one row and one column, for EVERY value of core_count and every accepted picture size.
    This discharges the `R ≥ 1`, `C ≥ 1` premises of the C24 theorems for every thread count; the C24 theorems themselves
    hold for every grid, so no further relation between grid and core count is needed. -/
theorem enc_dec_segments_pos (cc : Int) (inp : Inputs) (ha : Accepted inp) :
    1 ≤ (bufCfgCore cc inp).enc_dec_segment_row_count_array_0 ∧ 1 ≤ (bufCfgCore cc inp).enc_dec_segment_col_count_array_0 := by
  have hw := ha.width
  have hh := ha.height
  dsimp only [bufCfgCore]
  bufcfg_unfold_locals
  bufcfg_unfold_conds
  bufcfg_norm
  constructor <;> omega

/-- ME / CDEF / temporal-filter grids are 1x1, 1..3 x 1..5 or 6x10; restoration grid 1..4 x 1..6; tile-group rows 1..64. -/
theorem other_segments_pos (cc : Int) (inp : Inputs) (ha : Accepted inp) :
    let o := bufCfgCore cc inp
    (1 ≤ o.me_segment_row_count_array_0 ∧ o.me_segment_row_count_array_0 ≤ 6) ∧
    (1 ≤ o.me_segment_column_count_array_0 ∧ o.me_segment_column_count_array_0 ≤ 10) ∧
    (1 ≤ o.rest_segment_row_count ∧ o.rest_segment_row_count ≤ 4) ∧
    (1 ≤ o.rest_segment_column_count ∧ o.rest_segment_column_count ≤ 6) ∧
    (1 ≤ o.tile_group_row_count_array_0 ∧ o.tile_group_row_count_array_0 ≤ 64) ∧ o.tile_group_col_count_array_0 = 1 := by
  have hw := ha.width
  have hh := ha.height
  have ht := ha.tiles
  intro o
  dsimp only [o, bufCfgCore]
  bufcfg_unfold_members
  bufcfg_unfold_locals
  bufcfg_unfold_conds
  have ht7 : inp.static_config_tile_rows = 0 ∨ inp.static_config_tile_rows = 1 ∨ inp.static_config_tile_rows = 2 ∨
      inp.static_config_tile_rows = 3 ∨ inp.static_config_tile_rows = 4 ∨ inp.static_config_tile_rows = 5 ∨
      inp.static_config_tile_rows = 6 := by omega
  refine ⟨?_, ?_, ?_, ?_, ?_, rfl⟩
  · bufcfg_norm; omega
  · bufcfg_norm; omega
  · bufcfg_norm; omega
  · bufcfg_norm; omega
  · rcases ht7 with h | h | h | h | h | h | h <;> rw [h] <;> bufcfg_norm <;> omega

/-- Every stage gets at least one worker process, for every core_count ≥ 1 (32-bit): nothing is left without a thread. -/
theorem process_counts_pos (cc : Int) (inp : Inputs) (hcc : 1 ≤ cc ∧ cc < 4294967296) :
    let o := bufCfgCore cc inp
    1 ≤ o.picture_analysis_process_init_count ∧ 1 ≤ o.motion_estimation_process_init_count ∧
    1 ≤ o.source_based_operations_process_init_count ∧ 1 ≤ o.inlme_process_init_count ∧
    1 ≤ o.mode_decision_configuration_process_init_count ∧ 1 ≤ o.enc_dec_process_init_count ∧
    1 ≤ o.entropy_coding_process_init_count ∧ 1 ≤ o.dlf_process_init_count ∧ 1 ≤ o.cdef_process_init_count ∧
    1 ≤ o.rest_process_init_count := by
  intro o
  dsimp only [o, bufCfgCore]
  bufcfg_unfold_members
  bufcfg_unfold_conds
  bufcfg_norm
  refine ⟨?_, ?_, by decide, ?_, ?_, ?_, ?_, ?_, ?_, ?_⟩ <;> omega

example : (1 : Int) ≤ 3 ∧ (3 : Int) < 4294967296 := by decide

/-- `total_process_init_count` (number of producers of the output-stream FIFO) = the ten per-stage counts + the 6 single
    processes, except for core_count 2 and 3 where lines 624 and 636 both add a motion-estimation count: the total is one
    too large there (harmless over-sizing; recorded as an observation, shown here on concrete core counts). -/
example : ([1, 2, 3, 4, 8, 16, 48, 224].map fun cc =>
    let o := bufCfgCore cc wit
    o.total_process_init_count - (o.picture_analysis_process_init_count + o.motion_estimation_process_init_count +
      o.source_based_operations_process_init_count + o.inlme_process_init_count +
      o.mode_decision_configuration_process_init_count + o.enc_dec_process_init_count +
      o.entropy_coding_process_init_count + o.dlf_process_init_count + o.cdef_process_init_count +
      o.rest_process_init_count + 6)) = [0, 1, 1, 0, 0, 0, 0, 0] := by decide

/-- Pools never drop below the minimum the function itself computes for the pipeline to keep flowing (`min_input`,
    `min_parent`, `min_child`, `min_paref`, `min_overlay`, `min_me` — EbEncHandle.c:504-565), for EVERY core_count and
    for ALL input values (no range hypothesis: the final value is either the minimum or `MAX(minimum, ·)`). -/
theorem pool_counts_ge_min (cc : Int) (inp : Inputs) :
    let o := bufCfgCore cc inp
    let l := localsCore cc inp
    l.min_input ≤ o.input_buffer_fifo_init_count ∧ l.min_parent ≤ o.picture_control_set_pool_init_count ∧
    l.min_child ≤ o.picture_control_set_pool_init_count_child ∧ l.min_paref ≤ o.pa_reference_picture_buffer_init_count ∧
    l.min_overlay ≤ o.overlay_input_picture_buffer_init_count ∧ l.min_me ≤ o.me_pool_init_count := by
  intro o l
  dsimp only [o, l, bufCfgCore, localsCore]
  bufcfg_unfold_members
  simp only [decide_eq_true_eq]
  refine ⟨?_, ?_, ?_, ?_, ?_, ?_⟩ <;> (repeat' split) <;> omega

/-- The reference-picture pool is at least `min_ref` = 18 for every core_count and every accepted configuration (here a
    range hypothesis is needed: `2 * MAX(...)` is computed in uint32_t).  The recon FIFO is NOT re-synchronised with it on
    the core_count ≥ 3 path (line 575/587 do it for 1 and 2 only): there it keeps the line-494 value, which can be as low
    as 9 = (1 << 0) + 2 + 0 + SCD_LAD; what holds for every core count is `≥ 9`. -/
theorem reference_pool_ge_min (cc : Int) (inp : Inputs) (ha : Accepted inp) :
    let o := bufCfgCore cc inp
    (localsCore cc inp).min_ref = 18 ∧ 18 ≤ o.reference_picture_buffer_init_count ∧ 9 ≤ o.output_recon_buffer_fifo_init_count := by
  have hpp := setParentPcs_range inp.static_config_frame_rate inp.static_config_hierarchical_levels cc inp.input_resolution ha.levels ha.rate
  have hlad := ha.lad
  have hl := ha.levels
  have hl6 : inp.static_config_hierarchical_levels = 0 ∨ inp.static_config_hierarchical_levels = 1 ∨
      inp.static_config_hierarchical_levels = 2 ∨ inp.static_config_hierarchical_levels = 3 ∨
      inp.static_config_hierarchical_levels = 4 ∨ inp.static_config_hierarchical_levels = 5 := by omega
  intro o
  dsimp only [o, bufCfgCore, localsCore]
  bufcfg_unfold_members
  bufcfg_unfold_locals
  bufcfg_unfold_conds
  generalize setParentPcs _ _ _ _ = pp at *
  refine ⟨rfl, ?_, ?_⟩ <;>
  ( rcases hl6 with h | h | h | h | h | h <;> rw [h] <;> bufcfg_norm <;> omega )

/-- The early `return EB_ErrorInsufficientResources` (line 391-392) is dead for every accepted configuration and every
    core_count, so `bufCfgCore` describes every real call; the return code is EB_ErrorNone. -/
theorem no_early_return (cc : Int) (inp : Inputs) (ha : Accepted inp) :
    earlyReturnCore cc inp = false ∧ returnCodeCore cc inp = 0 := by
  have hpp := setParentPcs_range inp.static_config_frame_rate inp.static_config_hierarchical_levels cc inp.input_resolution ha.levels ha.rate
  have h1 : earlyReturnCore cc inp = false := by
    dsimp only [earlyReturnCore]
    bufcfg_unfold_conds
    bufcfg_unfold_locals
    generalize setParentPcs _ _ _ _ = pp at *
    simp only [beq_eq_false_iff_ne, ne_eq]
    omega
  refine ⟨h1, ?_⟩
  dsimp only [earlyReturnCore] at h1
  dsimp only [returnCodeCore]
  rw [h1]
  rfl

/-! ## 4. Every access to a core-dependent member elsewhere in the encoder is classified (H-noread made checkable) -/

inductive ReadClass where
  | alloc           -- sizes an allocation / a constructor argument / a system resource
  | segInit         -- copied into the per-picture segment bookkeeping (grid-independence is C24 / C04's `dag_confluence`)
  | threads         -- thread creation, destruction, affinity
  | copy            -- verbatim copy into another SCS instance / from the API structure
  | init            -- constant initialisation (constructor, library defaults)
  | log             -- printed only
  | validation      -- range check in verify_settings
  | scheduling      -- selects an order of work (decode-order start in the picture manager); bytes must not change (C04)
  | codingDecision  -- selects between two CODING behaviours: a leak of thread geometry into the bitstream
  deriving DecidableEq, Repr

/-- Reviewed allow-list: (file, function, member, read|write) ↦ class.  A new access in the source makes
    `geometry_reads_classified` fail. -/
def allowList : List ((String × String × String × String) × ReadClass) := [
  (("Encoder/Codec/EbDlfProcess.c", "dlf_kernel", "cdef_segment_column_count", "read"), .segInit),
  (("Encoder/Codec/EbDlfProcess.c", "dlf_kernel", "cdef_segment_row_count", "read"), .segInit),
  (("Encoder/Codec/EbEncDecProcess.c", "mode_decision_kernel", "enc_dec_segment_col_count_array", "read"), .codingDecision),
  (("Encoder/Codec/EbEncDecProcess.c", "mode_decision_kernel", "enc_dec_segment_row_count_array", "read"), .codingDecision),
  (("Encoder/Codec/EbPictureDecisionProcess.c", "mctf_frame", "tf_segment_column_count", "read"), .segInit),
  (("Encoder/Codec/EbPictureDecisionProcess.c", "mctf_frame", "tf_segment_row_count", "read"), .segInit),
  (("Encoder/Codec/EbPictureDecisionProcess.c", "picture_decision_kernel", "me_segment_column_count_array", "read"), .segInit),
  (("Encoder/Codec/EbPictureDecisionProcess.c", "picture_decision_kernel", "me_segment_row_count_array", "read"), .segInit),
  (("Encoder/Codec/EbPictureDecisionProcess.c", "process_first_pass_frame", "me_segment_column_count_array", "read"), .segInit),
  (("Encoder/Codec/EbPictureDecisionProcess.c", "process_first_pass_frame", "me_segment_row_count_array", "read"), .segInit),
  (("Encoder/Codec/EbPictureManagerProcess.c", "init_enc_dec_segement", "enc_dec_segment_col_count_array", "read"), .segInit),
  (("Encoder/Codec/EbPictureManagerProcess.c", "init_enc_dec_segement", "enc_dec_segment_row_count_array", "read"), .segInit),
  (("Encoder/Codec/EbSequenceControlSet.c", "copy_sequence_control_set", "cdef_segment_column_count", "read"), .copy),
  (("Encoder/Codec/EbSequenceControlSet.c", "copy_sequence_control_set", "cdef_segment_column_count", "write"), .copy),
  (("Encoder/Codec/EbSequenceControlSet.c", "copy_sequence_control_set", "cdef_segment_row_count", "read"), .copy),
  (("Encoder/Codec/EbSequenceControlSet.c", "copy_sequence_control_set", "cdef_segment_row_count", "write"), .copy),
  (("Encoder/Codec/EbSequenceControlSet.c", "copy_sequence_control_set", "enc_dec_process_init_count", "read"), .copy),
  (("Encoder/Codec/EbSequenceControlSet.c", "copy_sequence_control_set", "enc_dec_process_init_count", "write"), .copy),
  (("Encoder/Codec/EbSequenceControlSet.c", "copy_sequence_control_set", "enc_dec_segment_col_count_array", "read"), .copy),
  (("Encoder/Codec/EbSequenceControlSet.c", "copy_sequence_control_set", "enc_dec_segment_col_count_array", "write"), .copy),
  (("Encoder/Codec/EbSequenceControlSet.c", "copy_sequence_control_set", "enc_dec_segment_row_count_array", "read"), .copy),
  (("Encoder/Codec/EbSequenceControlSet.c", "copy_sequence_control_set", "enc_dec_segment_row_count_array", "write"), .copy),
  (("Encoder/Codec/EbSequenceControlSet.c", "copy_sequence_control_set", "entropy_coding_process_init_count", "read"), .copy),
  (("Encoder/Codec/EbSequenceControlSet.c", "copy_sequence_control_set", "entropy_coding_process_init_count", "write"), .copy),
  (("Encoder/Codec/EbSequenceControlSet.c", "copy_sequence_control_set", "input_buffer_fifo_init_count", "read"), .copy),
  (("Encoder/Codec/EbSequenceControlSet.c", "copy_sequence_control_set", "input_buffer_fifo_init_count", "write"), .copy),
  (("Encoder/Codec/EbSequenceControlSet.c", "copy_sequence_control_set", "me_pool_init_count", "read"), .copy),
  (("Encoder/Codec/EbSequenceControlSet.c", "copy_sequence_control_set", "me_pool_init_count", "write"), .copy),
  (("Encoder/Codec/EbSequenceControlSet.c", "copy_sequence_control_set", "me_segment_column_count_array", "read"), .copy),
  (("Encoder/Codec/EbSequenceControlSet.c", "copy_sequence_control_set", "me_segment_column_count_array", "write"), .copy),
  (("Encoder/Codec/EbSequenceControlSet.c", "copy_sequence_control_set", "me_segment_row_count_array", "read"), .copy),
  (("Encoder/Codec/EbSequenceControlSet.c", "copy_sequence_control_set", "me_segment_row_count_array", "write"), .copy),
  (("Encoder/Codec/EbSequenceControlSet.c", "copy_sequence_control_set", "mode_decision_configuration_process_init_count", "read"), .copy),
  (("Encoder/Codec/EbSequenceControlSet.c", "copy_sequence_control_set", "mode_decision_configuration_process_init_count", "write"), .copy),
  (("Encoder/Codec/EbSequenceControlSet.c", "copy_sequence_control_set", "motion_estimation_process_init_count", "read"), .copy),
  (("Encoder/Codec/EbSequenceControlSet.c", "copy_sequence_control_set", "motion_estimation_process_init_count", "write"), .copy),
  (("Encoder/Codec/EbSequenceControlSet.c", "copy_sequence_control_set", "output_recon_buffer_fifo_init_count", "read"), .copy),
  (("Encoder/Codec/EbSequenceControlSet.c", "copy_sequence_control_set", "output_recon_buffer_fifo_init_count", "write"), .copy),
  (("Encoder/Codec/EbSequenceControlSet.c", "copy_sequence_control_set", "overlay_input_picture_buffer_init_count", "read"), .copy),
  (("Encoder/Codec/EbSequenceControlSet.c", "copy_sequence_control_set", "overlay_input_picture_buffer_init_count", "write"), .copy),
  (("Encoder/Codec/EbSequenceControlSet.c", "copy_sequence_control_set", "pa_reference_picture_buffer_init_count", "read"), .copy),
  (("Encoder/Codec/EbSequenceControlSet.c", "copy_sequence_control_set", "pa_reference_picture_buffer_init_count", "write"), .copy),
  (("Encoder/Codec/EbSequenceControlSet.c", "copy_sequence_control_set", "picture_analysis_process_init_count", "read"), .copy),
  (("Encoder/Codec/EbSequenceControlSet.c", "copy_sequence_control_set", "picture_analysis_process_init_count", "write"), .copy),
  (("Encoder/Codec/EbSequenceControlSet.c", "copy_sequence_control_set", "picture_control_set_pool_init_count", "read"), .copy),
  (("Encoder/Codec/EbSequenceControlSet.c", "copy_sequence_control_set", "picture_control_set_pool_init_count", "write"), .copy),
  (("Encoder/Codec/EbSequenceControlSet.c", "copy_sequence_control_set", "picture_control_set_pool_init_count_child", "read"), .copy),
  (("Encoder/Codec/EbSequenceControlSet.c", "copy_sequence_control_set", "picture_control_set_pool_init_count_child", "write"), .copy),
  (("Encoder/Codec/EbSequenceControlSet.c", "copy_sequence_control_set", "reference_picture_buffer_init_count", "read"), .copy),
  (("Encoder/Codec/EbSequenceControlSet.c", "copy_sequence_control_set", "reference_picture_buffer_init_count", "write"), .copy),
  (("Encoder/Codec/EbSequenceControlSet.c", "copy_sequence_control_set", "tf_segment_column_count", "read"), .copy),
  (("Encoder/Codec/EbSequenceControlSet.c", "copy_sequence_control_set", "tf_segment_column_count", "write"), .copy),
  (("Encoder/Codec/EbSequenceControlSet.c", "copy_sequence_control_set", "tf_segment_row_count", "read"), .copy),
  (("Encoder/Codec/EbSequenceControlSet.c", "copy_sequence_control_set", "tf_segment_row_count", "write"), .copy),
  (("Encoder/Codec/EbSequenceControlSet.c", "copy_sequence_control_set", "total_process_init_count", "read"), .copy),
  (("Encoder/Codec/EbSequenceControlSet.c", "copy_sequence_control_set", "total_process_init_count", "write"), .copy),
  (("Encoder/Codec/EbSequenceControlSet.c", "svt_sequence_control_set_ctor", "enc_dec_segment_col_count_array", "write"), .init),
  (("Encoder/Codec/EbSequenceControlSet.c", "svt_sequence_control_set_ctor", "enc_dec_segment_row_count_array", "write"), .init),
  (("Encoder/Codec/EbSequenceControlSet.c", "svt_sequence_control_set_ctor", "me_segment_column_count_array", "write"), .init),
  (("Encoder/Codec/EbSequenceControlSet.c", "svt_sequence_control_set_ctor", "me_segment_row_count_array", "write"), .init),
  (("Encoder/Globals/EbEncHandle.c", "copy_api_from_app", "logical_processors", "read"), .codingDecision),
  (("Encoder/Globals/EbEncHandle.c", "copy_api_from_app", "logical_processors", "write"), .copy),
  (("Encoder/Globals/EbEncHandle.c", "copy_api_from_app", "target_socket", "read"), .copy),
  (("Encoder/Globals/EbEncHandle.c", "copy_api_from_app", "target_socket", "write"), .copy),
  (("Encoder/Globals/EbEncHandle.c", "copy_api_from_app", "unpin", "read"), .copy),
  (("Encoder/Globals/EbEncHandle.c", "copy_api_from_app", "unpin", "write"), .copy),
  (("Encoder/Globals/EbEncHandle.c", "create_down_scaled_buf_descs", "input_buffer_fifo_init_count", "read"), .alloc),
  (("Encoder/Globals/EbEncHandle.c", "create_pa_ref_buf_descs", "pa_reference_picture_buffer_init_count", "read"), .alloc),
  (("Encoder/Globals/EbEncHandle.c", "create_ref_buf_descs", "reference_picture_buffer_init_count", "read"), .alloc),
  (("Encoder/Globals/EbEncHandle.c", "print_lib_params", "cdef_process_init_count", "read"), .log),
  (("Encoder/Globals/EbEncHandle.c", "print_lib_params", "dlf_process_init_count", "read"), .log),
  (("Encoder/Globals/EbEncHandle.c", "print_lib_params", "enc_dec_process_init_count", "read"), .log),
  (("Encoder/Globals/EbEncHandle.c", "print_lib_params", "enc_dec_segment_col_count_array", "read"), .log),
  (("Encoder/Globals/EbEncHandle.c", "print_lib_params", "enc_dec_segment_row_count_array", "read"), .log),
  (("Encoder/Globals/EbEncHandle.c", "print_lib_params", "entropy_coding_process_init_count", "read"), .log),
  (("Encoder/Globals/EbEncHandle.c", "print_lib_params", "input_buffer_fifo_init_count", "read"), .log),
  (("Encoder/Globals/EbEncHandle.c", "print_lib_params", "me_segment_column_count_array", "read"), .log),
  (("Encoder/Globals/EbEncHandle.c", "print_lib_params", "me_segment_row_count_array", "read"), .log),
  (("Encoder/Globals/EbEncHandle.c", "print_lib_params", "mode_decision_configuration_process_init_count", "read"), .log),
  (("Encoder/Globals/EbEncHandle.c", "print_lib_params", "motion_estimation_process_init_count", "read"), .log),
  (("Encoder/Globals/EbEncHandle.c", "print_lib_params", "pa_reference_picture_buffer_init_count", "read"), .log),
  (("Encoder/Globals/EbEncHandle.c", "print_lib_params", "picture_analysis_process_init_count", "read"), .log),
  (("Encoder/Globals/EbEncHandle.c", "print_lib_params", "picture_control_set_pool_init_count_child", "read"), .log),
  (("Encoder/Globals/EbEncHandle.c", "print_lib_params", "reference_picture_buffer_init_count", "read"), .log),
  (("Encoder/Globals/EbEncHandle.c", "print_lib_params", "rest_process_init_count", "read"), .log),
  (("Encoder/Globals/EbEncHandle.c", "set_param_based_on_input", "logical_processors", "read"), .scheduling),
  (("Encoder/Globals/EbEncHandle.c", "svt_av1_enc_init", "cdef_process_init_count", "read"), .alloc),
  (("Encoder/Globals/EbEncHandle.c", "svt_av1_enc_init", "dlf_process_init_count", "read"), .alloc),
  (("Encoder/Globals/EbEncHandle.c", "svt_av1_enc_init", "enc_dec_process_init_count", "read"), .alloc),
  (("Encoder/Globals/EbEncHandle.c", "svt_av1_enc_init", "enc_dec_segment_col_count_array", "read"), .alloc),
  (("Encoder/Globals/EbEncHandle.c", "svt_av1_enc_init", "enc_dec_segment_row_count_array", "read"), .alloc),
  (("Encoder/Globals/EbEncHandle.c", "svt_av1_enc_init", "entropy_coding_process_init_count", "read"), .alloc),
  (("Encoder/Globals/EbEncHandle.c", "svt_av1_enc_init", "inlme_process_init_count", "read"), .alloc),
  (("Encoder/Globals/EbEncHandle.c", "svt_av1_enc_init", "input_buffer_fifo_init_count", "read"), .alloc),
  (("Encoder/Globals/EbEncHandle.c", "svt_av1_enc_init", "me_pool_init_count", "read"), .alloc),
  (("Encoder/Globals/EbEncHandle.c", "svt_av1_enc_init", "mode_decision_configuration_process_init_count", "read"), .alloc),
  (("Encoder/Globals/EbEncHandle.c", "svt_av1_enc_init", "motion_estimation_process_init_count", "read"), .alloc),
  (("Encoder/Globals/EbEncHandle.c", "svt_av1_enc_init", "output_recon_buffer_fifo_init_count", "read"), .alloc),
  (("Encoder/Globals/EbEncHandle.c", "svt_av1_enc_init", "overlay_input_picture_buffer_init_count", "read"), .alloc),
  (("Encoder/Globals/EbEncHandle.c", "svt_av1_enc_init", "picture_analysis_process_init_count", "read"), .alloc),
  (("Encoder/Globals/EbEncHandle.c", "svt_av1_enc_init", "picture_control_set_pool_init_count", "read"), .alloc),
  (("Encoder/Globals/EbEncHandle.c", "svt_av1_enc_init", "picture_control_set_pool_init_count_child", "read"), .alloc),
  (("Encoder/Globals/EbEncHandle.c", "svt_av1_enc_init", "rest_process_init_count", "read"), .alloc),
  (("Encoder/Globals/EbEncHandle.c", "svt_av1_enc_init", "total_process_init_count", "read"), .alloc),
  (("Encoder/Globals/EbEncHandle.c", "svt_av1_enc_init", "unpin", "read"), .threads),
  (("Encoder/Globals/EbEncHandle.c", "svt_enc_handle_dctor", "cdef_process_init_count", "read"), .threads),
  (("Encoder/Globals/EbEncHandle.c", "svt_enc_handle_dctor", "dlf_process_init_count", "read"), .threads),
  (("Encoder/Globals/EbEncHandle.c", "svt_enc_handle_dctor", "enc_dec_process_init_count", "read"), .threads),
  (("Encoder/Globals/EbEncHandle.c", "svt_enc_handle_dctor", "entropy_coding_process_init_count", "read"), .threads),
  (("Encoder/Globals/EbEncHandle.c", "svt_enc_handle_dctor", "inlme_process_init_count", "read"), .threads),
  (("Encoder/Globals/EbEncHandle.c", "svt_enc_handle_dctor", "mode_decision_configuration_process_init_count", "read"), .threads),
  (("Encoder/Globals/EbEncHandle.c", "svt_enc_handle_dctor", "motion_estimation_process_init_count", "read"), .threads),
  (("Encoder/Globals/EbEncHandle.c", "svt_enc_handle_dctor", "picture_analysis_process_init_count", "read"), .threads),
  (("Encoder/Globals/EbEncHandle.c", "svt_enc_handle_dctor", "rest_process_init_count", "read"), .threads),
  (("Encoder/Globals/EbEncHandle.c", "svt_enc_handle_stop_threads", "cdef_process_init_count", "read"), .threads),
  (("Encoder/Globals/EbEncHandle.c", "svt_enc_handle_stop_threads", "dlf_process_init_count", "read"), .threads),
  (("Encoder/Globals/EbEncHandle.c", "svt_enc_handle_stop_threads", "enc_dec_process_init_count", "read"), .threads),
  (("Encoder/Globals/EbEncHandle.c", "svt_enc_handle_stop_threads", "entropy_coding_process_init_count", "read"), .threads),
  (("Encoder/Globals/EbEncHandle.c", "svt_enc_handle_stop_threads", "inlme_process_init_count", "read"), .threads),
  (("Encoder/Globals/EbEncHandle.c", "svt_enc_handle_stop_threads", "mode_decision_configuration_process_init_count", "read"), .threads),
  (("Encoder/Globals/EbEncHandle.c", "svt_enc_handle_stop_threads", "motion_estimation_process_init_count", "read"), .threads),
  (("Encoder/Globals/EbEncHandle.c", "svt_enc_handle_stop_threads", "picture_analysis_process_init_count", "read"), .threads),
  (("Encoder/Globals/EbEncHandle.c", "svt_enc_handle_stop_threads", "rest_process_init_count", "read"), .threads),
  (("Encoder/Globals/EbEncHandle.c", "svt_set_thread_management_parameters", "logical_processors", "read"), .threads),
  (("Encoder/Globals/EbEncHandle.c", "svt_set_thread_management_parameters", "target_socket", "read"), .threads),
  (("Encoder/Globals/EbEncHandle.c", "svt_svt_enc_init_parameter", "logical_processors", "write"), .init),
  (("Encoder/Globals/EbEncHandle.c", "svt_svt_enc_init_parameter", "target_socket", "write"), .init),
  (("Encoder/Globals/EbEncHandle.c", "svt_svt_enc_init_parameter", "unpin", "write"), .init),
  (("Encoder/Globals/EbEncHandle.c", "verify_settings", "target_socket", "read"), .validation)
  ]

/-- Every access found by the scan is in the reviewed list.  (Both lists are kept in the scan's sort order, so "is a
    sublist of" is a linear walk; a new access anywhere in the source breaks it.) -/
theorem geometry_reads_classified : geometryAccesses.isSublist (allowList.map (·.1)) = true := by decide +kernel

/-- The accesses classified as coding decisions — each is a finding, exercised by the end-to-end sweep — and they are
    really present in the scanned source:
    * EbEncDecProcess.c mode_decision_kernel (l.4468-4470): with `pic_based_rate_est`, CDF propagation is sequential iff
      the EncDec grid is 1x1 — documented "only active with lp 1" (also active for lp 2,3 on small pictures);
    * EbEncHandle.c copy_api_from_app (l.2286): `pic_based_rate_est` is forced to 0 when logical_processors > 1. -/
theorem coding_decision_reads :
    (allowList.filter (·.2 == ReadClass.codingDecision)).map (·.1) =
      [("Encoder/Codec/EbEncDecProcess.c", "mode_decision_kernel", "enc_dec_segment_col_count_array", "read"),
       ("Encoder/Codec/EbEncDecProcess.c", "mode_decision_kernel", "enc_dec_segment_row_count_array", "read"),
       ("Encoder/Globals/EbEncHandle.c", "copy_api_from_app", "logical_processors", "read")] ∧
    ((allowList.filter (·.2 == ReadClass.codingDecision)).all fun e => geometryAccesses.contains e.1) = true := by decide +kernel

/-- …and the one scheduling decision keyed on the setting itself: `logical_processors == 1` turns on decode-order
    starts in the picture manager (EbEncHandle.c set_param_based_on_input, l.2145/2153). -/
theorem scheduling_reads :
    (allowList.filter (·.2 == ReadClass.scheduling)).map (·.1) =
      [("Encoder/Globals/EbEncHandle.c", "set_param_based_on_input", "logical_processors", "read")] := by decide +kernel

/-- The scan covered the three settings and every member of `parallelGeometry` (by C member name). -/
theorem scan_covers_geometry :
    (["logical_processors", "target_socket", "unpin", "me_segment_row_count_array", "me_segment_column_count_array",
      "enc_dec_segment_row_count_array", "enc_dec_segment_col_count_array", "cdef_segment_column_count", "cdef_segment_row_count",
      "tf_segment_column_count", "tf_segment_row_count", "input_buffer_fifo_init_count", "picture_control_set_pool_init_count",
      "picture_control_set_pool_init_count_child", "reference_picture_buffer_init_count", "pa_reference_picture_buffer_init_count",
      "output_recon_buffer_fifo_init_count", "overlay_input_picture_buffer_init_count", "me_pool_init_count",
      "total_process_init_count", "picture_analysis_process_init_count", "motion_estimation_process_init_count",
      "inlme_process_init_count", "mode_decision_configuration_process_init_count", "enc_dec_process_init_count",
      "entropy_coding_process_init_count", "dlf_process_init_count", "cdef_process_init_count", "rest_process_init_count"].all
        fun m => scannedMembers.contains m) = true := by decide +kernel

end C05
