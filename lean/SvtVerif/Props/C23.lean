/-
  C23 — the System Resource Manager (EbSystemResourceManager.c).

  "Across any interleaving of producers, consumers and releasers, the system resource manager never gives
   the same object to two holders at once, never loses or duplicates an object, delivers posted objects in
   posting order, wakes a blocked consumer whenever an object is available for it, returns an object to its
   pool exactly when its last reference is released, and on shutdown makes every blocked consumer return."

  All theorems are about `Srm.Reachable` states of the model `Model/Srm.lean`: every state that any sequence
  of atomic steps (one critical section / one semaphore operation each) of any number of threads can produce
  from a freshly constructed SRM with any number of objects and fifos — i.e. all interleavings.
  Caller obligations are explicit: `Srm.WellUsed` (only a handed-out object is posted / released) and one
  thread per `EbFifo` (built into the per-fifo program counter).  Helper lemmas: `Lemmas/Srm.lean`.

  That the C code really executes in such atomic steps is its own obligation: `srm_steps_atomic` /
  `srm_steps_shape` at the end of this file, over the lock/access table `Gen/SrmLocks.lean` that
  `xlate/srmlocks.py` regenerates from EbSystemResourceManager.c on every run.
-/
import SvtVerif.Lemmas.Srm
import SvtVerif.Lemmas.LockDiscipline
import SvtVerif.Gen.SrmLocks

namespace C23
open Srm
set_option linter.unusedVariables false

/-- A reachable example state used by the non-vacuity examples: 2 objects, 1 producer fifo, 2 consumer
    fifos; consumer 0 is blocked in `svt_get_full_object`, the producer holds object 0. -/
def exOps : List Op := [.reg .full 0, .reg .empty 0, .semWait .empty 0, .pop .empty 0]

/-- **Invariant.** Every reachable state satisfies `Srm.Inv`: exact object locations without duplicates
    (`LocOk`), no muxing queue with both a queued object and a queued process (`I2`), semaphore accounting
    (`SemOk`), no lost registration (`RegOk`), order bookkeeping (`OrderOk`), single registration on queues
    used with blocking calls only (`ProcOk`). -/
theorem srm_inv {s : State} (h : Reachable s) : Inv s := reachable_Inv h

example : ∃ s, Reachable s ∧ s.pc .full 0 = .waiting ∧ s.loc 0 = .held :=
  exists_reachable_of_run 2 1 2 exOps _ (by decide)

/-- **No object in two places.** In every reachable state an object wrapper is in at most one of: the
    empty ring, the full ring, one producer fifo, one consumer fifo — and at most once there; an object that
    is handed out (`held`) is in none of them. -/
theorem srm_no_double {s : State} (h : Reachable s) (o : Nat) :
    (∀ sd, (s.objQ sd).Nodup) ∧ (∀ sd f, (s.items sd f).Nodup) ∧
    (∀ sd sd', o ∈ s.objQ sd → o ∈ s.objQ sd' → sd = sd') ∧
    (∀ sd sd' f, o ∈ s.objQ sd → o ∉ s.items sd' f) ∧
    (∀ sd sd' f f', o ∈ s.items sd f → o ∈ s.items sd' f' → sd = sd' ∧ f = f') ∧
    (s.loc o = .held → (∀ sd, o ∉ s.objQ sd) ∧ ∀ sd f, o ∉ s.items sd f) := by
  have hl := (srm_inv h).loc
  refine ⟨hl.objQ_nodup, hl.fifo_nodup, ?_, ?_, ?_, ?_⟩
  · intro sd sd' h1 h2
    have a := (hl.objQ_loc sd o h1).2
    have b := (hl.objQ_loc sd' o h2).2
    rw [a] at b; injection b
  · intro sd sd' f h1 h2
    have a := (hl.objQ_loc sd o h1).2
    have b := (hl.fifo_loc sd' f o h2).2
    rw [a] at b; cases b
  · intro sd sd' f f' h1 h2
    have a := (hl.fifo_loc sd f o h1).2
    have b := (hl.fifo_loc sd' f' o h2).2
    rw [a] at b; injection b with b1 b2; exact ⟨b1, b2⟩
  · intro hh
    constructor
    · intro sd h1; have a := (hl.objQ_loc sd o h1).2; rw [hh] at a; cases a
    · intro sd f h1; have a := (hl.fifo_loc sd f o h1).2; rw [hh] at a; cases a

/-- **No double hand-out.** When `svt_get_empty_object` / `svt_get_full_object` returns object `o`, nobody
    held `o` before the step, and after the step `o` is in no ring and no fifo: it cannot be handed to a
    second holder until its holder posts or releases it. -/
theorem srm_handout_exclusive {s s' : State} {sd : Side} {f o : Nat} (h : Reachable s)
    (hs : step s (.pop sd f) = .ok s' (.obj o)) :
    s.loc o = .fifo sd f ∧ s'.loc o = .held ∧ (∀ d, o ∉ s'.objQ d) ∧ (∀ d g, o ∉ s'.items d g) := by
  have hr' : Reachable s' := Reachable.step h (by simp [WellUsed]) hs
  have hi := (srm_inv h).loc
  have ht := step_Tr hs
  have hheld : s'.loc o = .held := by
    cases ht <;> simp [upd]
  have hloc : s.loc o = .fifo sd f := by
    cases ht
    case popEmpty rest hpc hi' => exact (hi.fifo_loc .empty f o (by rw [hi']; simp)).2
    case popFull rest hpc hq hi' => exact (hi.fifo_loc .full f o (by rw [hi']; simp)).2
  have := (srm_no_double hr' o).2.2.2.2.2 hheld
  exact ⟨hloc, hheld, this.1, this.2⟩

example : ∃ s s', Reachable s ∧ step s (.pop .empty 0) = .ok s' (.obj 0) := by
  obtain ⟨s, hr, hp⟩ := exists_reachable_of_run 2 1 2 [.reg .empty 0, .semWait .empty 0]
    (fun s => (step s (.pop .empty 0)).ret? = some (.obj 0)) (by decide)
  obtain ⟨s', hs⟩ := Res.ret?_some hp
  exact ⟨s, s', hr, hs⟩

/-- **No loss.** Every object of the pool is always accounted for: it is handed out, or it is in a ring,
    or it is in the fifo of an existing process (which that process will pop).  Rings never exceed their
    capacity `object_total_count`. -/
theorem srm_no_loss {s : State} (h : Reachable s) (o : Nat) (ho : o < s.nObj) :
    (s.loc o = .held ∨ (∃ sd, o ∈ s.objQ sd) ∨ (∃ sd f, f < s.nProc sd ∧ o ∈ s.items sd f)) ∧
    (∀ sd, (s.objQ sd).length ≤ s.nObj) := by
  have hv := srm_inv h
  constructor
  · cases hl : s.loc o with
    | held => left; rfl
    | objQ sd => right; left; exact ⟨sd, hv.loc.loc_objQ o sd ho hl⟩
    | fifo sd f =>
      right; right
      have hm := hv.loc.loc_fifo o sd f ho hl
      refine ⟨sd, f, ?_, hm⟩
      have hp := hv.order.perFifo sd f
      have : o ∈ ((s.assigned sd).filter (fun x => x.1 = f)).map Prod.snd := by
        rw [hp]; exact List.mem_append_right _ hm
      obtain ⟨x, hx, _⟩ := List.mem_map.1 this
      have hx' := List.mem_filter.1 hx
      have := hv.reg.abound sd x hx'.1
      have hf : x.1 = f := by simpa using hx'.2
      omega
  · intro sd
    exact nodup_bounded_length s.nObj (s.objQ sd) (hv.loc.objQ_nodup sd) (fun x hx => (hv.loc.objQ_loc sd x hx).1)

example : ∃ s, Reachable s ∧ (0 : Nat) < s.nObj := ⟨_, Reachable.init 1 1 1, by decide⟩

/-- **Posting order.** (1) The objects assigned to consumer fifos so far, followed by the objects still in
    the full ring, are exactly the posted objects in posting order.  (2) What each consumer has received,
    followed by what waits in its fifo, is a subsequence of the posting sequence (in posting order).
    (3) With a single consumer fifo: received ++ waiting in fifo ++ waiting in ring = posting sequence. -/
theorem srm_fifo {s : State} (h : Reachable s) :
    (s.assigned .full).map Prod.snd ++ s.objQ .full = s.posted ∧
    (∀ f, (s.taken .full f ++ s.items .full f).Sublist s.posted) ∧
    (s.nProc .full = 1 → s.taken .full 0 ++ s.items .full 0 ++ s.objQ .full = s.posted) := by
  have hv := srm_inv h
  refine ⟨hv.order.posted, ?_, ?_⟩
  · intro f
    rw [← hv.order.perFifo .full f, ← hv.order.posted]
    exact (List.Sublist.map _ List.filter_sublist).trans (List.sublist_append_left _ _)
  · intro h1
    rw [← hv.order.perFifo .full 0, ← hv.order.posted]
    congr 2
    apply List.filter_eq_self.2
    intro x hx
    have := hv.reg.abound .full x hx
    simp only [decide_eq_true_eq]
    omega

/-- a run in which two objects are posted and the consumer has taken the first -/
example : ∃ s, Reachable s ∧ s.posted = [0, 1] ∧ s.taken .full 0 = [0] ∧ s.items .full 0 = [] ∧ s.objQ .full = [1] :=
  exists_reachable_of_run 2 1 1
    [.reg .empty 0, .semWait .empty 0, .pop .empty 0, .reg .empty 0, .semWait .empty 0, .pop .empty 0,
     .post 0, .post 1, .reg .full 0, .semWait .full 0, .pop .full 0] _ (by decide)

/-- **No lost wake-up.** (1) A thread blocked at its fifo's semaphore (`waiting`, count 0) is still
    registered in the process ring and the object ring of its queue is empty — nothing is available for it;
    equivalently, whenever an object is available every waiting thread has a semaphore token.
    (2) An object sitting in a fifo that is not shut down always has its semaphore token (or its thread is
    already past the wait).  (3) Hence a waiting thread whose fifo holds an object can take the semaphore. -/
theorem srm_wake {s : State} (h : Reachable s) (sd : Side) (f : Nat) :
    (s.pc sd f = .waiting → s.sem sd f = 0 → s.objQ sd = [] ∧ f ∈ s.procQ sd) ∧
    (s.items sd f ≠ [] → s.quit sd f = false → s.pc sd f = .popping ∨ 0 < s.sem sd f) ∧
    (s.pc sd f = .waiting → s.items sd f ≠ [] → s.quit sd f = false →
      ∃ s', step s (.semWait sd f) = .ok s' .ok) := by
  have hv := srm_inv h
  have h2 : s.items sd f ≠ [] → s.quit sd f = false → s.pc sd f = .popping ∨ 0 < s.sem sd f := by
    intro hi hq
    have hb := hv.sem.bal sd f
    have hn := hv.sem.noquit sd f hq
    have : 0 < (s.items sd f).length := List.length_pos_iff.2 hi
    by_cases hp : s.pc sd f = .popping
    · left; exact hp
    · right; simp only [hp, ↓reduceIte] at hb; omega
  refine ⟨?_, h2, ?_⟩
  · intro hp hs
    have hw := hv.reg.waiting sd f hp
    have hm : f ∈ s.procQ sd := by rcases hw with hw | hw; exact hw; omega
    refine ⟨?_, hm⟩
    rcases hv.i2 sd with h0 | h0
    · exact h0
    · rw [h0] at hm; cases hm
  · intro hp hi hq
    have := h2 hi hq
    have hs : s.sem sd f ≠ 0 := by
      rcases this with h3 | h3
      · rw [hp] at h3; cases h3
      · omega
    simp [step, hp, hs]

example : ∃ s, Reachable s ∧ s.pc .full 0 = .waiting ∧ s.sem .full 0 = 0 :=
  exists_reachable_of_run 2 1 2 exOps _ (by decide)
example : ∃ s, Reachable s ∧ s.pc .full 0 = .waiting ∧ s.items .full 0 ≠ [] ∧ s.quit .full 0 = false :=
  exists_reachable_of_run 2 1 2 (exOps ++ [.post 0]) _ (by decide)

/-- **Release of the last reference.** A release of a handed-out object returns it to the pool (empty ring,
    or directly the fifo of a registered producer) exactly when `release_enable` is set and `live_count` is
    0 or 1 (line 570-573: the decrement saturates at 0); otherwise the object stays handed out and only
    `live_count` is decremented. -/
theorem srm_release_last {s s' : State} {o : Nat} {r : Ret} (h : Reachable s) (hl : s.loc o = .held)
    (hs : step s (.release o) = .ok s' r) :
    ((s.relEn o = true ∧ s.live o ≤ 1) → (s'.loc o = .objQ .empty ∨ ∃ p, s'.loc o = .fifo .empty p) ∧
        s'.live o = released) ∧
    (¬ (s.relEn o = true ∧ s.live o ≤ 1) → s'.loc o = .held ∧ s'.live o = s.live o - 1 ∧
        s'.objQ = s.objQ ∧ s'.items = s.items ∧ s'.sem = s.sem) := by
  have ht := step_Tr hs
  cases ht
  case relPush =>
    constructor
    · intro _
      constructor
      · apply assign_loc_pool; left; simp [upd]
      · have : ∀ t : State, t.live o = released → (assign .empty t).live o = released := by
          intro t ht
          apply assign_preserves (fun t => t.live o = released) .empty _ t ht
          intro a b hab he
          obtain ⟨o', os, p, ps, _, _, rfl⟩ := assignStep_some he
          exact hab
        apply this; simp [upd]
    · intro hn; exact absurd ⟨‹s.relEn o = true›, ‹s.live o ≤ 1›⟩ hn
  case relKeep =>
    constructor
    · intro hc; exact absurd hc ‹¬ (s.relEn o = true ∧ s.live o ≤ 1)›
    · intro _; exact ⟨hl, by simp [upd], rfl, rfl, rfl⟩

example : ∃ s s', Reachable s ∧ s.loc 0 = .held ∧ step s (.release 0) = .ok s' .ok ∧ s.relEn 0 = true ∧ s.live 0 ≤ 1 := by
  obtain ⟨s, hr, h1, hp, h3, h4⟩ := exists_reachable_of_run 2 1 2 exOps
    (fun s => s.loc 0 = .held ∧ (step s (.release 0)).ret? = some .ok ∧ s.relEn 0 = true ∧ s.live 0 ≤ 1) (by decide)
  obtain ⟨s', h2⟩ := Res.ret?_some hp
  exact ⟨s, s', hr, h1, h2, h3, h4⟩

/-- **A second release is a no-op on the queues.** After the returning release `live_count` holds the marker
    `EB_ObjectWrapperReleasedValue = ~0u`; a further `svt_release_object` only decrements the marker
    (line 570-571) and pushes nothing (the test `live_count == 0` on line 573 fails). -/
theorem srm_second_release_noop (s : State) (o : Nat) (ho : o < s.nObj) (hl : s.live o = released) :
    step s (.release o) = .ok { s with live := upd s.live o (released - 1) } .ok := by
  simp [step, ho, hl, released]

example : ∃ s : State, (0 : Nat) < s.nObj ∧ s.live 0 = released :=
  ⟨{ init 1 1 1 with live := fun _ => released }, by decide, rfl⟩

/-- **Caveat (caller obligation).** The marker protects only until the object is handed out again:
    `svt_get_empty_object` resets `live_count` to 0 (line 617), so a *stale* release by the previous holder
    then returns the object to the pool while the new holder still uses it, and it is handed out a second
    time.  Run: producer gets 0, releases it twice (second is a no-op), gets 0 again, the stale third release
    pushes it back, and the next get hands object 0 out again although its holder never released it. -/
theorem double_release_after_reuse :
    (run (init 1 1 1) [.reg .empty 0, .semWait .empty 0, .pop .empty 0, .release 0, .release 0,
                        .reg .empty 0, .semWait .empty 0, .pop .empty 0, .release 0,
                        .reg .empty 0, .semWait .empty 0, .pop .empty 0]).map (·.2) =
      some [.ok, .ok, .obj 0, .ok, .ok, .ok, .ok, .obj 0, .ok, .ok, .ok, .obj 0] := by
  decide

/-- **Shutdown.** (1) A consumer that is past the semaphore when `quit_signal` is set returns
    `EB_NoErrorFifoShutdown`.  (2) Every `svt_fifo_shutdown` post is a semaphore token: a consumer waiting at
    the semaphore has `sem + shutRets = |items| + shutPosts`; so as long as it has returned the shutdown code
    fewer times than (shutdown posts + objects left in its fifo), it is not blocked — whether it was blocked
    when `svt_shutdown_process` ran or blocks later.  (3) Once a shutdown post happened the fifo's
    `quit_signal` is set, so that wake-up does return the shutdown code. -/
theorem srm_shutdown {s : State} (h : Reachable s) (f : Nat) :
    (s.pc .full f = .popping → s.quit .full f = true →
      ∃ s', step s (.pop .full f) = .ok s' .shutdown ∧ s'.pc .full f = .idle) ∧
    (s.pc .full f = .waiting → s.sem .full f + s.shutRets .full f = (s.items .full f).length + s.shutPosts .full f) ∧
    (s.pc .full f = .waiting → s.shutRets .full f < s.shutPosts .full f + (s.items .full f).length →
      ∃ s', step s (.semWait .full f) = .ok s' .ok) ∧
    (0 < s.shutPosts .full f → s.quit .full f = true) := by
  have hv := srm_inv h
  have hb := hv.sem.bal .full f
  refine ⟨?_, ?_, ?_, ?_⟩
  · intro hp hq
    exact ⟨{ s with pc := upd2 s.pc .full f .idle, shutRets := upd2 s.shutRets .full f (s.shutRets .full f + 1) },
      by simp [step, hp, hq], by simp [upd2]⟩
  · intro hp; simp only [hp] at hb; simpa using hb
  · intro hp hlt
    have hs : s.sem .full f ≠ 0 := by simp only [hp] at hb; simp at hb; omega
    simp [step, hp, hs]
  · intro hpos
    cases hq : s.quit .full f
    · have := (hv.sem.noquit .full f hq).1; omega
    · rfl

/-- consumer 0 blocked, then svt_fifo_shutdown on its fifo: it can take the semaphore -/
example : ∃ s, Reachable s ∧ s.pc .full 0 = .waiting ∧ s.shutRets .full 0 < s.shutPosts .full 0 + (s.items .full 0).length :=
  exists_reachable_of_run 2 1 2 (exOps ++ [.shutQuit 0, .shutPost 0]) _ (by decide)

/-- **Negative (C15): shutdown does not reach producers.** `svt_shutdown_process` touches consumer fifos
    only; a producer blocked in `svt_get_empty_object` stays blocked. -/
theorem shutdown_misses_producers {s s' : State} {f g : Nat} {r : Ret}
    (hs : step s (.shutQuit f) = .ok s' r ∨ step s (.shutPost f) = .ok s' r)
    (hp : s.pc .empty g = .waiting) (h0 : s.sem .empty g = 0) :
    step s' (.semWait .empty g) = .blocked := by
  rcases hs with hs | hs
  · have ht := step_Tr hs
    cases ht
    simp [step, hp, h0]
  · have ht := step_Tr hs
    cases ht
    have : upd2 s.sem .full f (s.sem .full f + 1) .empty g = 0 := by simp [upd2, h0]
    simp [step, hp, this]

/-- **No NULL dereference / ring overflow.** Under the caller protocol, with in-range arguments, no atomic
    step of a reachable state hits undefined behaviour (NULL `first_ptr` in `svt_fifo_pop_front`, overflow of
    the object ring, overflow of the process ring) — provided the full queue either has a single consumer
    fifo or has been used with blocking gets only and not shut down.
    The excluded case is real: see the report (`svt_get_full_object_non_blocking` polled on a resource
    with two consumer fifos overflows `process_queue` and the real code crashes). -/
theorem srm_no_ub {s : State} {op : Op} (h : Reachable s) (hw : WellUsed s op) (ha : ArgsOk s op)
    (hc : (s.nbUsed = false ∧ s.shutUsed = false) ∨ s.nProc .full = 1) : ∀ w, step s op ≠ .ub w :=
  no_ub (srm_inv h) hw ha hc

example : ∃ s, Reachable s ∧ WellUsed s (.post 0) ∧ ArgsOk s (.post 0) ∧ (s.nbUsed = false ∧ s.shutUsed = false) :=
  exists_reachable_of_run 2 1 2 exOps _ (by decide)

/-- The excluded case of `srm_no_ub` in the model: three non-blocking polls of an empty fifo on a resource
    with two consumer fifos overflow the 2-slot process ring. -/
example : ∃ w, (match run (init 1 1 2) [.nbReg 0, .peek 0, .nbReg 0, .peek 0] with
    | some (s, _) => step s (.nbReg 0) | none => .badPc) = .ub w := ⟨_, rfl⟩

/-- **The rings are queues.** `svt_circular_buffer_*` (head/tail indices, NULL as the empty-slot sentinel) on an
    array of any capacity implements a list queue: with `Rep b l` = "the array of `b` holds `l` from `head` on,
    cyclically, NULL elsewhere": a fresh ring represents `[]`; `empty_check` answers `l = []`; `push_back` /
    `push_front` of a non-NULL pointer on a ring that is not full give `l ++ [x]` / `x :: l`; `pop_front`
    returns the front and leaves the rest; and `push_front` on a *full one-slot* ring (the double registration
    done by `svt_get_full_object_non_blocking`) leaves the one-element queue `[x]`.
    (`srm_no_ub` shows the "not full" precondition holds at every push of a reachable state.) -/
theorem circbuf_refines_list :
    (∀ cap, 0 < cap → CircBuf.Rep (CircBuf.new cap) []) ∧
    (∀ b l, CircBuf.Rep b l → (b.isEmpty = true ↔ l = [])) ∧
    (∀ b l x, CircBuf.Rep b l → l.length < b.cap → x ≠ 0 → CircBuf.Rep (b.pushBack x) (l ++ [x])) ∧
    (∀ b l x, CircBuf.Rep b l → l.length < b.cap → x ≠ 0 → CircBuf.Rep (b.pushFront x) (x :: l)) ∧
    (∀ b l x, CircBuf.Rep b (x :: l) → b.popFront.1 = x ∧ CircBuf.Rep b.popFront.2 l) ∧
    (∀ b x y, CircBuf.Rep b [y] → b.cap = 1 → x ≠ 0 → CircBuf.Rep (b.pushFront x) [x]) :=
  ⟨CircBuf.rep_new, fun _ _ => CircBuf.rep_isEmpty, fun _ _ _ => CircBuf.rep_pushBack,
   fun _ _ _ => CircBuf.rep_pushFront, fun _ _ _ => CircBuf.rep_popFront,
   fun _ _ _ => CircBuf.rep_pushFront_full_single⟩

/-- a 2-slot ring holding `[5]` after wrap-around (head = 1) -/
example : CircBuf.Rep ((CircBuf.new 2).pushFront 5) [5] :=
  CircBuf.rep_pushFront (CircBuf.rep_new 2 (by decide)) (by decide) (by decide)

/-! ## Step granularity: the C code's critical sections are the model's atomic steps

`Gen.SrmLocks.functions` (regenerated from the C source on every run by `xlate/srmlocks.py`) lists, for every
non-constructor API function of EbSystemResourceManager.c and every path through it (static helpers inlined, loops
unrolled 0/1/2 times), the ordered lock / unlock / semaphore / read / write events with the access path of each. -/

/-- **Every shared access is inside its critical section.**  On every path of every API function of the system
    resource manager: each read or write of a mutex-protected member (`live_count`, `release_enable`; a fifo's
    `first_ptr` / `last_ptr` / `quit_signal` and the `next_ptr` links of its wrappers; the head / tail / count /
    slots of a muxing queue's two rings — `LockDiscipline.guardOf` is the protection map) happens while the
    protecting `lockout_mutex` is held — including reads in initialisers of locals and in inlined callees; members
    that are immutable after construction are never written; mutexes are named through immutable members only,
    never taken twice, nested only as queue -> fifo and released in reverse order; every path returns with no mutex
    held; a loop body leaves the set of held mutexes unchanged (so the unrolled paths speak for any iteration
    count); `svt_block_on_semaphore` is called with no mutex held.  The only exemptions are the two stores listed
    and justified in `LockDiscipline.allowed`.

    This is what justifies the granularity of `Srm.step`: under sequentially consistent mutexes, two critical
    sections of the same mutex never overlap, and code outside critical sections touches no mutable shared member,
    so every execution of the real functions is equivalent to an interleaving of whole critical sections and
    semaphore operations — i.e. of model steps.  (Not mechanised: the semantics of pthread mutexes itself, and that
    the fifo sections nested inside a queue section by `svt_muxing_queue_assignation` commute with the other
    threads' steps on the same fifo, which is argued from disjointness of the rings and the fifo.)
    A read of `live_count` moved in front of the lock, an early `return` inside a section, or a new function that
    touches a ring without the queue mutex makes this `decide` fail. -/
theorem srm_steps_atomic : ∀ f ∈ Gen.SrmLocks.functions, LockDiscipline.disciplined f = true := by decide

/-- **Declarative reading of `srm_steps_atomic`** (through `LockDiscipline.disciplinedPath_sound`, which is proved
    for every event list, not only the table's): take any path of any API function and any read (`w = false`) or
    write (`w = true`) on it of a member whose guard in the protection map is mutex `m` and that is not one of the
    two allow-listed stores; then among the events *before* the access there is a `lock m` with no `unlock m` after
    it — the access sits inside a critical section of its own mutex. -/
theorem srm_access_inside_section {f : LockDiscipline.FnEntry} (hf : f ∈ Gen.SrmLocks.functions)
    {evs : List LockDiscipline.Ev} (he : evs ∈ f.paths) {pre post : List LockDiscipline.Ev} {w : Bool}
    {p m : LockDiscipline.Path}
    (hsplit : evs = pre ++ (if w then LockDiscipline.Ev.write p else LockDiscipline.Ev.read p) :: post)
    (hg : LockDiscipline.guardOf p = .mutex m) (ha : LockDiscipline.allowed f.fn w p = false) :
    LockDiscipline.HeldAfter pre m := by
  have hd := srm_steps_atomic f hf
  have hp : LockDiscipline.disciplinedPath f.fn evs = true := by
    simp only [LockDiscipline.disciplined, List.all_eq_true] at hd
    exact hd evs he
  exact LockDiscipline.disciplinedPath_sound hp hsplit hg ha

/-- the hypotheses are satisfiable on the table: the read of `live_count` in svt_object_inc_live_count (c368), guarded
    by the empty queue's mutex, after the four events that evaluate and take that mutex -/
example : ∃ f ∈ Gen.SrmLocks.functions, ∃ evs ∈ f.paths, ∃ pre post p m,
    evs = pre ++ (if false then LockDiscipline.Ev.write p else LockDiscipline.Ev.read p) :: post ∧
    LockDiscipline.guardOf p = .mutex m ∧ LockDiscipline.allowed f.fn false p = false ∧ pre.length = 4 :=
  ⟨Gen.SrmLocks.inc_live_count, .tail _ (.tail _ (.head _)), Gen.SrmLocks.inc_live_count_path0, .head _,
   Gen.SrmLocks.inc_live_count_path0.take 4, Gen.SrmLocks.inc_live_count_path0.drop 5,
   Gen.SrmLocks.inc_live_count_p3, Gen.SrmLocks.inc_live_count_p2, by decide, by decide, by decide, by decide⟩

/-- **The critical sections are the model's steps.**  What other threads can observe of each path — its top-level
    critical sections (by kind of mutex) and semaphore operations, in order — is exactly the `Srm.Op` sequence the
    model (and `Driver/Srm.lean`) uses for that function (`LockDiscipline.expectedShape`): one queue section for
    inc_live_count / release_enable / release_disable / release_object / post_full_object; queue section, semaphore
    wait, fifo section for get_empty_object / get_full_object; queue section + fifo section (+ the three of
    get_full_object) for get_full_object_non_blocking; (fifo section, semaphore post)* for shutdown_process. -/
theorem srm_steps_shape : ∀ f ∈ Gen.SrmLocks.functions, LockDiscipline.atomicBlock f = true := by decide

/-- The table has a row for every API function the discipline names (a function dropped from the table would
    otherwise pass the two theorems above vacuously). -/
theorem srm_locks_table_complete (fn : LockDiscipline.Fn) : ∃ e ∈ Gen.SrmLocks.functions, e.fn = fn := by
  cases fn <;> decide

/-- non-vacuity of the checker itself: the shape of the seeded defect (the count read in front of the lock), an
    early return inside the section, and the wrong queue's mutex are all rejected; the correct order is accepted. -/
example :
    let w : LockDiscipline.Path := ⟨.param 0, .wrapper, []⟩
    let m := w.extend [.system_resource_ptr, .empty_queue, .lockout_mutex]
    let mFull := w.extend [.system_resource_ptr, .full_queue, .lockout_mutex]
    let lc := w.extend [.live_count]
    LockDiscipline.disciplinedPath .inc_live_count [.lock m, .read lc, .write lc, .unlock m] = true ∧
    LockDiscipline.disciplinedPath .inc_live_count [.read lc, .lock m, .write lc, .unlock m] = false ∧
    LockDiscipline.disciplinedPath .inc_live_count [.lock m, .read lc, .write lc] = false ∧
    LockDiscipline.disciplinedPath .inc_live_count [.lock mFull, .read lc, .write lc, .unlock mFull] = false := by
  decide

end C23
