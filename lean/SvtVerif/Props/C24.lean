/-
  C24 — wavefront EncDec segments.  Property theorems only (helper lemmas live in SvtVerif/Lemmas/Segments*.lean).

  "For every picture size and segment grid, EncDec segment scheduling processes every superblock exactly
   once, starts a segment only after the segments holding its left, upper and upper-right neighbouring
   superblocks have finished, and always completes the picture regardless of how many worker threads pick
   up segments."

  Model (SvtVerif/Model/Segments.lean, validated against the real C code by harness/seginit.c on every run):
    `Seg.initSeg W H C R MC MR`  = enc_dec_segments_ctor(MC, MR); enc_dec_segments_init(C, R, W, H)
    `Seg.segSbs g W s`           = the SB loop of mode_decision_kernel for segment s
    `Seg.assignStep g st op`     = one atomic step (mutex-protected block) of assign_enc_dec_segments by some worker;
                                   `Seg.Reachable g st` = any interleaving of any number of workers
    `ph t` : 0 = segment t not handed out, 1 = its SBs are being processed, 2/3 = SB loop done, in the CONTINUE
             call (waiting for the row / next-row mutex), 4 = CONTINUE call returned.
  Size hypothesis `Seg.InitOK W H C R MR`: 1 ≤ W,H ≤ 4096 SBs, W*H < 65536 SBs (uint16 counters), C,R,MR ≥ 1,
  segment count < 65536.  `Rr = effR W H R MR` (= min R H MR, and 1 when W = 1: EbEncDecSegments.c:75-83),
  `Cc = min C W` are the effective grid after init's clamps.

  History: before the clamp of line 83 (`segRowCount = 1` for a picture / tile group one SB wide) the completion
  theorems carried the hypothesis `2 ≤ W ∨ Rr = 1`; the excluded grids were a real hang of the encoder
  (`-w 64 -h 256`, default threads; finding F2).  With the clamp every theorem below holds under `InitOK` alone.
  `sched_stuck` (about arbitrary control blocks) is kept: it is the reason the clamp is needed, and checks/c24.py
  reports the hang as a VIOLATION if a one-SB-wide grid ever stops completing again.
-/
import SvtVerif.Lemmas.SegmentsGlue
import SvtVerif.Lemmas.SegmentsMeasure

namespace C24
open Seg

/-! ## 1. The abstract scheduling theorem: ANY control block that passes the structural check -/

/-- The executable structural check `wfCheck` (evaluated on the model for every grid the correspondence run
    visits) implies the hypotheses `WF` / `Live` of the scheduling theorems. -/
theorem wfCheck_sound (g : SegCtl) : (wfCheck g false = true → WF g) ∧ (wfCheck g true = true → WF g ∧ Live g) :=
  ⟨wf_of_check g false, fun h => ⟨wf_of_check g true h, live_of_check g h⟩⟩

/-- **Safety of the assign protocol**, for any row layout / dependency counts satisfying `WF` (counts = number
    of right/bottom predecessor edges as tested by `assign_enc_dec_segments` itself), any number of workers, any
    interleaving: no segment is handed out twice or out of range and no `dependency_map` index is out of range
    (`err = 0`); `row.current_seg_index` is exactly the boundary between handed-out and not-handed-out segments
    of the row (this justifies the code assigning `current_seg_index` instead of the segment whose count hit 0);
    a segment is handed out only after its right-edge predecessor is past its right block and its bottom-edge
    predecessor has completed its CONTINUE call (in both cases the predecessor's SB loop is finished). -/
theorem sched_safe {g : SegCtl} (hw : WF g) {st : ASt} (hr : Reachable g st) :
    st.err = 0 ∧
    (∀ r, r < g.segRowCount → rowStart g.rows r ≤ aget st.cur r ∧ aget st.cur r ≤ rowEnd g.rows r + 1 ∧
      ∀ t, rowStart g.rows r ≤ t → t ≤ rowEnd g.rows r → (t < aget st.cur r ↔ 1 ≤ aget st.ph t)) ∧
    (∀ r s, r < g.segRowCount → rowStart g.rows r ≤ s → s < rowEnd g.rows r →
      1 ≤ aget st.ph (s + 1) → 3 ≤ aget st.ph s) ∧
    (∀ r s, r + 1 < g.segRowCount → rowStart g.rows r ≤ s → s ≤ rowEnd g.rows r →
      rowStart g.rows (r + 1) ≤ s + g.segBandCount → 1 ≤ aget st.ph (s + g.segBandCount) → aget st.ph s = 4) := by
  have hi := (reachable_inv hw hr).1
  refine ⟨hi.err0, ?_, fun r s a b c d => safe_right hw hi a b c d, fun r s a b c d e => safe_bottom hw hi a b c d e⟩
  intro r hr'
  refine ⟨hi.cur_lo r hr', hi.cur_hi r hr', fun t h1 h2 => ⟨fun h => hi.ph_started r hr' t h1 h, fun h => ?_⟩⟩
  by_contra hn
  have := hi.ph_unstarted r hr' t (by omega) h2
  omega

/-- **Completion**, for any control block satisfying `WF` and `Live` (every row after the first has its first
    segment fed by a bottom edge): in every reachable state in which no step is enabled (all workers wait for a
    task, pool empty) every segment of every row has been processed and its CONTINUE call has returned. -/
theorem sched_complete {g : SegCtl} (hw : WF g) (hl : Live g) {st : ASt} (hr : Reachable g st)
    (ht : Terminal g st) :
    ∀ r, r < g.segRowCount → ∀ t, rowStart g.rows r ≤ t → t ≤ rowEnd g.rows r → aget st.ph t = 4 :=
  terminal_done hw hl (reachable_inv hw hr) ht

/-- **Termination**: every execution (any interleaving, any number of workers) has at most `4 · #segments`
    steps, so every maximal execution ends in a terminal state (to which `sched_complete` applies). -/
theorem sched_terminates {g : SegCtl} (hw : WF g) {st st' : ASt} {k : Nat} (hr : Reachable g st)
    (h : Steps g st k st') : k ≤ 4 * (g.segRowCount * g.segBandCount) :=
  steps_bounded hw hr h

/-- **Why `Live` is needed** (the structural condition that failed for one-SB-wide pictures before the clamp of
    EbEncDecSegments.c:83): if `Live` fails at row `r` (the first segment of row `r+1` lies beyond
    `ending(r) + band_count`, so it has no predecessor edge at all) then that segment is not handed out in ANY
    reachable state — no schedule completes the picture. -/
theorem sched_stuck {g : SegCtl} (hw : WF g) {r : Nat} (hr1 : r + 1 < g.segRowCount)
    (hgap : rowEnd g.rows r + g.segBandCount < rowStart g.rows (r + 1)) {st : ASt} (h : Reachable g st) :
    aget st.ph (rowStart g.rows (r + 1)) = 0 :=
  orphan_never_starts hw hr1 hgap h

/-! ## 2. The real init code satisfies the structural conditions, for all sizes -/

/-- `enc_dec_segments_init` produces a well-formed control block for every accepted size and grid: rows are
    disjoint index intervals `r·B ≤ starting ≤ ending < (r+1)·B`, monotone from row to row, `current = starting`,
    and `dependency_map[t]` is exactly the number of predecessor edges of `t` (0, 1 or 2: no uint8 overflow). -/
theorem init_wf {W H C R MR : Nat} (ok : InitOK W H C R MR) (MC : Nat) : WF (initSeg W H C R MC MR) :=
  initSeg_wf ok MC

/-- `dep_counts_exact`: the count stored for segment `t` of row `r` = [it has a left neighbour in its row] +
    [segment `t − B` exists in row `r−1`]; in particular it is at most 2. -/
theorem dep_counts_exact {W H C R MR : Nat} (ok : InitOK W H C R MR) (MC : Nat) (r t : Nat)
    (hr : r < (initSeg W H C R MC MR).segRowCount)
    (h1 : rowStart (initSeg W H C R MC MR).rows r ≤ t) (h2 : t ≤ rowEnd (initSeg W H C R MC MR).rows r) :
    aget (initSeg W H C R MC MR).dep t =
      (if rowStart (initSeg W H C R MC MR).rows r < t then 1 else 0) +
      (if botPred (initSeg W H C R MC MR) r t then 1 else 0) ∧
    aget (initSeg W H C R MC MR).dep t ≤ 2 := by
  have h := (initSeg_wf ok MC).dep0 r hr t h1 h2
  refine ⟨h, ?_⟩
  rw [h]; split <;> split <;> omega

/-- `bands_contiguous`: every segment index inside a row's `[starting, ending]` holds at least one SB
    (`valid_sb_count ≠ 0`), so the dependency loop never skips a segment inside a row. -/
theorem bands_contiguous {W H C R MR : Nat} (ok : InitOK W H C R MR) (MC : Nat) {r s : Nat}
    (hr : r < effR W H R MR) (h1 : cst W H (min C W) (effR W H R MR) r ≤ s)
    (h2 : s ≤ cen W H (min C W) (effR W H R MR) r) :
    aget (initSeg W H C R MC MR).validSb s ≠ 0 :=
  initSeg_valid_ne_zero ok MC hr h1 h2

/-- The completion hypothesis `Live` holds of the real init for every accepted size and grid: every segment row
    after the first has its first segment fed by a bottom edge from the row above (for `W ≥ 2` by the band
    geometry; a picture one SB wide has a single segment row, line 83). -/
theorem init_live {W H C R MR : Nat} (ok : InitOK W H C R MR) (MC : Nat) : Live (initSeg W H C R MC MR) :=
  initSeg_live ok MC

/-- A picture (tile group) one SB wide is one segment (one row, one band), whatever grid was requested: its SBs
    are processed by a single worker in raster order (`seg_loop_exact`), i.e. each after the SB above it. -/
theorem w1_single_segment {H C R MR : Nat} (ok : InitOK 1 H C R MR) (MC : Nat) :
    (initSeg 1 H C R MC MR).segRowCount = 1 ∧ (initSeg 1 H C R MC MR).segBandCount = 1 ∧
    (initSeg 1 H C R MC MR).segTtlCount = 1 :=
  initSeg_W1 ok MC

/-! ## 3. Superblock level: cover, neighbour dependencies, completion of the picture -/

/-- `seg_cover`: the SB loops of all segments together visit every superblock of the `W × H` grid exactly once
    (permutation of the raster list), … -/
theorem seg_cover {W H C R MR : Nat} (ok : InitOK W H C R MR) (MC : Nat) :
    ((List.range (initSeg W H C R MC MR).segTtlCount).flatMap
        fun s => (segSbs (initSeg W H C R MC MR) W s).1).Perm (allSbs W H) := by
  obtain ⟨eR, eB, _, _, _, _, _, hN, _⟩ := initSeg_wf_static ok MC
  exact Seg.seg_cover ok.hW1 ok.hW ok.hH1 ok.hH ok.hC ok.hR ok.hMR hN ok.hWH

/-- … each segment's loop visits exactly the SBs whose `SEGMENT_INDEX` is that segment, in raster order, and
    the (unbounded in C) outer loop terminates within the picture. -/
theorem seg_loop_exact {W H C R MR : Nat} (ok : InitOK W H C R MR) (MC : Nat) {s : Nat}
    (hs : s < (initSeg W H C R MC MR).segTtlCount) :
    segSbs (initSeg W H C R MC MR) W s =
      ((allSbs W H).filter (fun p => segOf (initSeg W H C R MC MR) p = s), false) := by
  obtain ⟨eR, eB, _, _, _, _, _, hN, _⟩ := initSeg_wf_static ok MC
  exact segSbs_initSeg ok.hW1 ok.hW ok.hH1 ok.hH ok.hC ok.hR ok.hMR hN ok.hWH hs

/-- the model's per-SB segment index is the closed form `cseg` (row·B + band) used by the geometry lemmas -/
theorem segOf_closed {W H C R MR : Nat} (ok : InitOK W H C R MR) (MC : Nat) {x y : Nat} (hx : x < W) (hy : y < H) :
    segOf (initSeg W H C R MC MR) (x, y) = cseg W H (min C W) (effR W H R MR) x y := by
  obtain ⟨eR, eB, eT, _, _, _, _, _, _⟩ := initSeg_wf_static ok MC
  unfold segOf
  rw [eR, eB, eT]
  have hC := ok.hC; have hW1 := ok.hW1
  exact sbSeg_eq ok.hW ok.hH (by omega) (effR_pos ok.hH1 ok.hR ok.hMR) (effR_le_H ok.hH1) ok.hN hx hy

/-- `seg_deps_sound` (geometry): for an SB `(x,y)` and its left / top / top-left / top-right neighbour inside
    the picture, the neighbour lies in the same segment (then it is earlier in that segment's raster-order loop,
    `seg_loop_exact`) or its segment precedes `(x,y)`'s segment through a chain of the right/bottom edges that
    init counts.  (For `W = 1` the edge relation is empty, but then `Rr = 1`: all SBs share one segment.) -/
theorem seg_deps_sound {W H C R MR : Nat} (ok : InitOK W H C R MR)
    {x y x' y' : Nat} (hx : x < W) (hy : y < H)
    (hn : (1 ≤ x ∧ x' = x - 1 ∧ y' = y) ∨ (1 ≤ y ∧ x' = x ∧ y' = y - 1) ∨
          (1 ≤ x ∧ 1 ≤ y ∧ x' = x - 1 ∧ y' = y - 1) ∨ (x + 1 < W ∧ 1 ≤ y ∧ x' = x + 1 ∧ y' = y - 1)) :
    cseg W H (min C W) (effR W H R MR) x' y' = cseg W H (min C W) (effR W H R MR) x y ∨
    Relation.TransGen (cEdge W H (min C W) (effR W H R MR))
      (cseg W H (min C W) (effR W H R MR) x' y') (cseg W H (min C W) (effR W H R MR) x y) := by
  exact Seg.seg_deps_sound (effR_pos ok.hH1 ok.hR ok.hMR) (effR_le_H ok.hH1) (effR_live ok.hW1 H R MR) hx hy hn

/-- **assign_safe (the property's ordering clause, end to end)**: in every state reachable under any
    interleaving of any number of workers, if the segment holding SB `(x,y)` has been handed out then, for each
    of its left / top / top-left / top-right neighbours inside the picture, the neighbour is in the same segment
    or the neighbour's segment has finished its SB loop (`ph ≥ 3`).  Also nothing is handed out twice (`err = 0`). -/
theorem assign_safe {W H C R MR : Nat} (ok : InitOK W H C R MR) (MC : Nat)
    {st : ASt} (hr : Reachable (initSeg W H C R MC MR) st)
    {x y x' y' : Nat} (hx : x < W) (hy : y < H)
    (hn : (1 ≤ x ∧ x' = x - 1 ∧ y' = y) ∨ (1 ≤ y ∧ x' = x ∧ y' = y - 1) ∨
          (1 ≤ x ∧ 1 ≤ y ∧ x' = x - 1 ∧ y' = y - 1) ∨ (x + 1 < W ∧ 1 ≤ y ∧ x' = x + 1 ∧ y' = y - 1))
    (hs : 1 ≤ aget st.ph (segOf (initSeg W H C R MC MR) (x, y))) :
    st.err = 0 ∧
    (segOf (initSeg W H C R MC MR) (x', y') = segOf (initSeg W H C R MC MR) (x, y) ∨
     3 ≤ aget st.ph (segOf (initSeg W H C R MC MR) (x', y'))) := by
  have hi := (reachable_inv (initSeg_wf ok MC) hr).1
  have hx' : x' < W := by rcases hn with ⟨_, rfl, _⟩ | ⟨_, rfl, _⟩ | ⟨_, _, rfl, _⟩ | ⟨h, _, rfl, _⟩ <;> omega
  have hy' : y' < H := by rcases hn with ⟨_, _, rfl⟩ | ⟨_, _, rfl⟩ | ⟨_, _, _, rfl⟩ | ⟨_, _, _, rfl⟩ <;> omega
  rw [segOf_closed ok MC hx hy] at hs ⊢
  rw [segOf_closed ok MC hx' hy']
  refine ⟨hi.err0, ?_⟩
  rcases seg_deps_sound ok hx hy hn with h | h
  · exact Or.inl h
  · exact Or.inr (safe_transGen ok MC hi h hs)

/-- **assign_complete**: for every accepted picture size and segment grid, every terminal state reachable under
    any interleaving of any number of workers has processed the segment of every SB (no quiescent state with
    unfinished work: the picture always completes). -/
theorem assign_complete {W H C R MR : Nat} (ok : InitOK W H C R MR) (MC : Nat)
    {st : ASt} (hr : Reachable (initSeg W H C R MC MR) st) (ht : Terminal (initSeg W H C R MC MR) st)
    {x y : Nat} (hx : x < W) (hy : y < H) :
    aget st.ph (segOf (initSeg W H C R MC MR) (x, y)) = 4 := by
  obtain ⟨eR, _, _, _, _, _, _, _, hrows⟩ := initSeg_wf_static ok MC
  have hRr : 0 < effR W H R MR := effR_pos ok.hH1 ok.hR ok.hMR
  have hH1 := ok.hH1
  have hrow : rowOf (effR W H R MR) H y < (initSeg W H C R MC MR).segRowCount := by
    rw [eR]; exact rowOf_lt hRr hy
  obtain ⟨e1, e2, _⟩ := hrows _ hrow
  rw [segOf_closed ok MC hx hy]
  exact sched_complete (initSeg_wf ok MC) (initSeg_live ok MC) hr ht _ hrow _
    (by rw [e1]; exact cst_le_cseg hRr (by omega) x y) (by rw [e2]; exact cseg_le_cen hRr (by omega) hx y)

/-- every execution of the real grid is finite (at most `4 · segment_ttl_count` atomic steps) -/
theorem assign_terminates {W H C R MR : Nat} (ok : InitOK W H C R MR) (MC : Nat) {st st' : ASt} {k : Nat}
    (hr : Reachable (initSeg W H C R MC MR) st) (h : Steps (initSeg W H C R MC MR) st k st') :
    k ≤ 4 * ((initSeg W H C R MC MR).segRowCount * (initSeg W H C R MC MR).segBandCount) :=
  steps_bounded (initSeg_wf ok MC) hr h

/-! ## Non-vacuity -/

/-- the size hypotheses are met by 1080p with 64x64 SBs (30x17 SBs, segment grid 30x17 as computed by
    `EbEncHandle.c` for many cores) and by the formerly hanging 64x256 picture (1x4 SBs, 4 segment rows requested) -/
example : InitOK 30 17 30 17 17 := by constructor <;> decide
example : InitOK 1 4 1 4 4 := by constructor <;> decide
/-- hypothesis `Reachable`: the initial state is reachable -/
example : Reachable (initSeg 30 17 30 17 30 17) (initASt (initSeg 30 17 30 17 30 17)) := Reachable.init
example : Reachable (initSeg 1 4 1 4 1 4) (initASt (initSeg 1 4 1 4 1 4)) := Reachable.init
/-- the abstract theorems' hypotheses `WF`/`Live` are met by the real init, also for `W = 1` -/
example : WF (initSeg 30 17 30 17 30 17) ∧ Live (initSeg 30 17 30 17 30 17) :=
  ⟨init_wf (by constructor <;> decide) 30, init_live (by constructor <;> decide) 30⟩
example : WF (initSeg 1 4 1 4 1 4) ∧ Live (initSeg 1 4 1 4 1 4) :=
  ⟨init_wf (by constructor <;> decide) 1, init_live (by constructor <;> decide) 1⟩
/-- `sched_stuck`'s hypotheses are satisfiable: `preFixW1x2` is the control block `enc_dec_segments_init` produced
    BEFORE the clamp of line 83 for a 1x2-SB picture with 2 segment rows (rows {0}, {3}; band count 2; all
    dependency counts 0) — well-formed, with a gap between `ending(0) + band_count = 2` and `starting(1) = 3` -/
example : WF preFixW1x2 ∧ 0 + 1 < preFixW1x2.segRowCount ∧
    rowEnd preFixW1x2.rows 0 + preFixW1x2.segBandCount < rowStart preFixW1x2.rows (0 + 1) :=
  ⟨preFixW1x2_wf, by decide, by decide⟩
example (st : ASt) (h : Reachable preFixW1x2 st) : aget st.ph 3 = 0 :=
  sched_stuck preFixW1x2_wf (r := 0) (by decide) (by decide) h

end C24
