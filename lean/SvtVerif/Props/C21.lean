/-
  C21 — the encoder's output depends only on the visible samples of each submitted picture.

  Model: SvtVerif/Model/CopyIn.lean (copy_frame_buffer, un_pack2d, pad_input_picture, generate_padding,
  pad_picture_to_multiple_of_min_blk_size_dimensions, pad_input_pictures, transcribed line by line).
  Everything below holds for ALL widths, heights, strides, paddings and buffer contents (induction over
  rows / columns in SvtVerif/Lemmas/CopyIn.lean); nothing is a bounded search.
  Property theorems only.
-/
import SvtVerif.Lemmas.CopyIn

namespace C21
open CopyIn

/-- **Closed form of the copy-in of one 8-bit plane.**  After copy_frame_buffer's row loop, pad_input_picture and
    generate_padding, every cell `(r, c)` of the regenerated region (all `S` columns of rows
    `0 .. oy + (h+pb) + oy`) holds the visible sample nearest to it: the internal plane is the visible `w × h`
    picture replicated outwards from its edges, for every caller stride `ss ≥ w`, whatever the bytes in the
    caller's stride padding and whatever the previous contents of the internal buffer. -/
theorem plane8_is_edge_replication (m : Mem) (src : Buf) (S ox oy w h pr pb ss : Nat)
    (hw : 1 ≤ w) (hh : 1 ≤ h) (hS : S = ox + (w + pr) + ox) (hws : w ≤ ss)
    (hin : (oy + (h + pb) + oy) * S ≤ m.buf.size) :
    ∀ r c, r < oy + (h + pb) + oy → c < S →
      rd (planeIn8 m src S ox oy w h pr pb ss).buf (r * S + c) = padSpec (vis src ss) ox oy w h r c :=
  planeIn8_spec m src S ox oy w h pr pb ss hw hh hS hws hin

-- non-vacuity: a 2x2 picture (stride 3, dirty stride byte 99), 1 cell of padding all round, internal stride 4
example : rd (planeIn8 ⟨Array.replicate 16 7, true⟩ #[1, 2, 99, 3, 4, 99] 4 1 1 2 2 0 0 3).buf (3 * 4 + 3) = 4 := by
  rw [plane8_is_edge_replication _ _ 4 1 1 2 2 0 0 3 (by omega) (by omega) (by omega) (by omega) (by simp) 3 3 (by omega) (by omega)]
  decide

theorem clampTo_lt (o n c : Nat) (hn : 1 ≤ n) : clampTo o n c < n := by
  unfold clampTo; split <;> omega

/-- **C21, one 8-bit plane, the part of the buffer anything reads.**  Two submissions whose *visible* `w × h`
    samples agree — with any two strides `≥ w`, any bytes in the stride padding or beyond, and any two previous
    contents of the internal buffer — leave identical contents in every cell of the padded region. -/
theorem copyin_depends_only_on_visible (m1 m2 : Mem) (src1 src2 : Buf) (S ox oy w h pr pb ss1 ss2 : Nat)
    (hw : 1 ≤ w) (hh : 1 ≤ h) (hS : S = ox + (w + pr) + ox) (h1 : w ≤ ss1) (h2 : w ≤ ss2)
    (hin1 : (oy + (h + pb) + oy) * S ≤ m1.buf.size) (hin2 : (oy + (h + pb) + oy) * S ≤ m2.buf.size)
    (hvis : ∀ x y, x < w → y < h → vis src1 ss1 x y = vis src2 ss2 x y) :
    ∀ r c, r < oy + (h + pb) + oy → c < S →
      rd (planeIn8 m1 src1 S ox oy w h pr pb ss1).buf (r * S + c) =
      rd (planeIn8 m2 src2 S ox oy w h pr pb ss2).buf (r * S + c) := by
  intro r c hr hc
  rw [planeIn8_spec m1 src1 S ox oy w h pr pb ss1 hw hh hS h1 hin1 r c hr hc,
      planeIn8_spec m2 src2 S ox oy w h pr pb ss2 hw hh hS h2 hin2 r c hr hc]
  exact hvis _ _ (clampTo_lt ox w c hw) (clampTo_lt oy h r hh)

-- non-vacuity: strides 2 and 5, different dirty bytes, different previous buffer contents
example : rd (planeIn8 ⟨Array.replicate 16 7, true⟩ #[1, 2, 3, 4] 4 1 1 2 2 0 0 2).buf (0 * 4 + 3) =
          rd (planeIn8 ⟨Array.replicate 20 8, true⟩ #[1, 2, 50, 51, 52, 3, 4, 60, 61, 62] 4 1 1 2 2 0 0 5).buf (0 * 4 + 3) :=
  copyin_depends_only_on_visible _ _ _ _ 4 1 1 2 2 0 0 2 5 (by omega) (by omega) (by omega) (by omega) (by omega)
    (by simp) (by simp) 
    (by
      intro x y hx hy
      obtain rfl | rfl : x = 0 ∨ x = 1 := by omega
      all_goals obtain rfl | rfl : y = 0 ∨ y = 1 := by omega
      all_goals decide)
    0 3 (by omega) (by omega)

/-- **C21, one 8-bit plane, the WHOLE internal allocation.**  Same previous contents, visible samples agree, and
    for both submissions the last copied row (all `ss` bytes of it — copy_frame_buffer copies whole stride rows)
    ends inside the regenerated region: then the two internal buffers are equal cell for cell, padding and the
    never-regenerated rows below it included.  (`ss ≤ w + 64` always satisfies the bound for the API geometry,
    see `pipelineIn_depends_only_on_visible`.) -/
theorem copyin_whole_buffer (m : Mem) (src1 src2 : Buf) (S ox oy w h pr pb ss1 ss2 : Nat)
    (hw : 1 ≤ w) (hh : 1 ≤ h) (hS : S = ox + (w + pr) + ox) (h1 : w ≤ ss1) (h2 : w ≤ ss2)
    (hin : (oy + (h + pb) + oy) * S ≤ m.buf.size)
    (hsp1 : oy * S + ox + (h - 1) * S + ss1 ≤ (oy + (h + pb) + oy) * S)
    (hsp2 : oy * S + ox + (h - 1) * S + ss2 ≤ (oy + (h + pb) + oy) * S)
    (hvis : ∀ x y, x < w → y < h → vis src1 ss1 x y = vis src2 ss2 x y) :
    (planeIn8 m src1 S ox oy w h pr pb ss1).buf = (planeIn8 m src2 S ox oy w h pr pb ss2).buf := by
  apply buf_ext
  · rw [planeIn8_size, planeIn8_size]
  · intro j _
    by_cases hj : j < (oy + (h + pb) + oy) * S
    · have hSpos : 0 < S := by omega
      have hdm := Nat.div_add_mod j S
      have hmod := Nat.mod_lt j hSpos
      have hr : j / S < oy + (h + pb) + oy := by
        apply Nat.div_lt_of_lt_mul; rw [Nat.mul_comm]; exact hj
      have e : j = (j / S) * S + j % S := by rw [Nat.mul_comm]; omega
      rw [e]
      exact copyin_depends_only_on_visible m m src1 src2 S ox oy w h pr pb ss1 ss2 hw hh hS h1 h2 hin hin hvis _ _ hr hmod
    · rw [planeIn8_frame m src1 S ox oy w h pr pb ss1 j hw hh hS hsp1 (by omega),
          planeIn8_frame m src2 S ox oy w h pr pb ss2 j hw hh hS hsp2 (by omega)]

example : (planeIn8 ⟨Array.replicate 20 7, true⟩ #[1, 2, 3, 4] 4 1 1 2 2 0 0 2).buf =
          (planeIn8 ⟨Array.replicate 20 7, true⟩ #[1, 2, 50, 51, 52, 3, 4, 60, 61, 62] 4 1 1 2 2 0 0 5).buf :=
  copyin_whole_buffer _ _ _ 4 1 1 2 2 0 0 2 5 (by omega) (by omega) (by omega) (by omega) (by omega)
    (by simp) (by omega) (by omega) 
    (by
      intro x y hx hy
      obtain rfl | rfl : x = 0 ∨ x = 1 := by omega
      all_goals obtain rfl | rfl : y = 0 ∨ y = 1 := by omega
      all_goals decide)
   

/-- The bound of `copyin_whole_buffer` is sharp: when the allocation has rows below the regenerated region
    (`bot_padding > top_padding`, true for 128x128 superblocks) and the caller's stride is so large that the last
    copied row runs past the region, bytes of the caller's *stride padding* stay in the internal buffer.
    (1x1 picture, 1 cell of padding, 5 allocated rows of 3; stride 9 vs stride 1: cell 10 keeps source byte 6.) -/
theorem spill_witness :
    rd (planeIn8 ⟨Array.replicate 15 0, true⟩ #[5, 11, 12, 13, 14, 15, 66, 17, 18] 3 1 1 1 1 0 0 9).buf 10 = 66 ∧
    rd (planeIn8 ⟨Array.replicate 15 0, true⟩ #[5] 3 1 1 1 1 0 0 1).buf 10 = 0 := by
  decide

/-- **C21, one 10-bit plane (both halves).**  un_pack2d copies `w` samples per row, so the caller's stride padding
    is never read; of each 16-bit sample only bits 0..9 are used.  Submissions that agree *modulo 1024* on the
    visible samples give identical 8-bit (`f = hi8`) and 2-bit (`f = lo2`) internal planes over the padded region,
    for any strides `≥ w` (or smaller!), any previous contents. -/
theorem copyin10_depends_only_on_visible (m1 m2 : Mem) (src1 src2 : Buf) (f : Nat → Nat) (S ox oy w h pr pb ss1 ss2 : Nat)
    (hw : 1 ≤ w) (hh : 1 ≤ h) (hS : S = ox + (w + pr) + ox)
    (hin1 : (oy + (h + pb) + oy) * S ≤ m1.buf.size) (hin2 : (oy + (h + pb) + oy) * S ≤ m2.buf.size)
    (hvis : ∀ x y, x < w → y < h → f (vis src1 ss1 x y) = f (vis src2 ss2 x y)) :
    ∀ r c, r < oy + (h + pb) + oy → c < S →
      rd (generatePadding (padInputPicture (storeRows m1 src1 f 0 ss1 (S * oy + ox) S w 0 h) (ox + oy * S) S w h pr pb)
            0 S (w + pr) (h + pb) ox oy).buf (r * S + c) =
      rd (generatePadding (padInputPicture (storeRows m2 src2 f 0 ss2 (S * oy + ox) S w 0 h) (ox + oy * S) S w h pr pb)
            0 S (w + pr) (h + pb) ox oy).buf (r * S + c) := by
  intro r c hr hc
  rw [planeIn10_half_spec m1 src1 f S ox oy w h pr pb ss1 hw hh hS hin1 r c hr hc,
      planeIn10_half_spec m2 src2 f S ox oy w h pr pb ss2 hw hh hS hin2 r c hr hc]
  exact hvis _ _ (clampTo_lt ox w c hw) (clampTo_lt oy h r hh)

/-- **C21, one 10-bit plane half, the WHOLE allocation**: with the same previous contents the two internal
    buffers are equal cell for cell — unconditionally in the strides (un_pack2d never writes outside the picture
    rectangle, so nothing can spill below the regenerated region). -/
theorem copyin10_whole_buffer (m : Mem) (src1 src2 : Buf) (f : Nat → Nat) (S ox oy w h pr pb ss1 ss2 : Nat)
    (hw : 1 ≤ w) (hh : 1 ≤ h) (hS : S = ox + (w + pr) + ox)
    (hin : (oy + (h + pb) + oy) * S ≤ m.buf.size)
    (hvis : ∀ x y, x < w → y < h → f (vis src1 ss1 x y) = f (vis src2 ss2 x y)) :
    (generatePadding (padInputPicture (storeRows m src1 f 0 ss1 (S * oy + ox) S w 0 h) (ox + oy * S) S w h pr pb)
        0 S (w + pr) (h + pb) ox oy).buf =
    (generatePadding (padInputPicture (storeRows m src2 f 0 ss2 (S * oy + ox) S w 0 h) (ox + oy * S) S w h pr pb)
        0 S (w + pr) (h + pb) ox oy).buf := by
  apply buf_ext
  · simp only [generatePadding_size, padInputPicture_size, storeRows_size]
  · intro j _
    by_cases hj : j < (oy + (h + pb) + oy) * S
    · have hSpos : 0 < S := by omega
      have hdm := Nat.div_add_mod j S
      have hmod := Nat.mod_lt j hSpos
      have hr : j / S < oy + (h + pb) + oy := by
        apply Nat.div_lt_of_lt_mul; rw [Nat.mul_comm]; exact hj
      have e : j = (j / S) * S + j % S := by rw [Nat.mul_comm]; omega
      rw [e]
      exact copyin10_depends_only_on_visible m m src1 src2 f S ox oy w h pr pb ss1 ss2 hw hh hS hin hin hvis _ _ hr hmod
    · rw [planeIn10_half_frame m src1 f S ox oy w h pr pb ss1 j hw hh hS (by omega),
          planeIn10_half_frame m src2 f S ox oy w h pr pb ss2 j hw hh hS (by omega)]

-- non-vacuity: samples 1023 / 2047+... agree modulo 1024, strides 2 and 3
example : (planeIn10 ⟨Array.replicate 16 7, true⟩ ⟨Array.replicate 16 7, true⟩ #[1023, 4, 8, 1] 4 1 1 2 2 0 0 2).1.buf =
          (planeIn10 ⟨Array.replicate 16 7, true⟩ ⟨Array.replicate 16 7, true⟩ #[2047, 4, 77, 8, 1025, 78] 4 1 1 2 2 0 0 3).1.buf := by
  rw [planeIn10_eq, planeIn10_eq]
  exact copyin10_whole_buffer _ _ _ hi8 4 1 1 2 2 0 0 2 3 (by omega) (by omega) (by omega) (by simp)
    (by
      intro x y hx hy
      obtain rfl | rfl : x = 0 ∨ x = 1 := by omega
      all_goals obtain rfl | rfl : y = 0 ∨ y = 1 := by omega
      all_goals decide)

/-- the two halves only look at the low ten bits of a sample -/
theorem hi8_lo2_mod1024 (px : Nat) : hi8 px = hi8 (px % 1024) ∧ lo2 px = lo2 (px % 1024) := by
  unfold hi8 lo2; omega

/-- `planeIn10` *is* the pair of pipelines the previous theorem talks about -/
theorem planeIn10_halves (m8 mn : Mem) (src : Buf) (S ox oy w h pr pb ss : Nat) :
    planeIn10 m8 mn src S ox oy w h pr pb ss =
      (generatePadding (padInputPicture (storeRows m8 src hi8 0 ss (S * oy + ox) S w 0 h) (ox + oy * S) S w h pr pb) 0 S (w + pr) (h + pb) ox oy,
       generatePadding (padInputPicture (storeRows mn src lo2 0 ss (S * oy + ox) S w 0 h) (ox + oy * S) S w h pr pb) 0 S (w + pr) (h + pb) ox oy) :=
  planeIn10_eq m8 mn src S ox oy w h pr pb ss

example : rd (planeIn10 ⟨Array.replicate 16 7, true⟩ ⟨Array.replicate 16 7, true⟩ #[1023, 4, 8, 2049] 4 1 1 2 2 0 0 2).1.buf 5 = 255 := by
  decide

/-! ### the whole frame, with the descriptors the library builds -/

/-- The frame-level transcription of copy_frame_buffer + pad_input_pictures, run on the descriptor that
    set_param_based_on_input / allocate_frame_buffer / svt_picture_buffer_desc_ctor build for a 4:2:0 8-bit
    encode of `w × h` (even, as verify_settings requires), is the plane pipeline on each of the three planes with
    origin (68,68) / (34,34), stride `W8+136` / half of it, and the caller's strides truncated to 16 bits. -/
theorem pipelineIn8_planes (w h sb : Nat) (p : Pic) (io : IoFormat) (hw : w + 144 < 65536) (hh : h < 65536)
    (hwe : w % 2 = 0) (hhe : h % 2 = 0) :
    (pipelineIn (apiDesc w h sb 8) p io).y =
      planeIn8 p.y io.luma (w + padTo8 w + 136) 68 68 w h (padTo8 w) (padTo8 h) (u16 io.yStride) ∧
    (pipelineIn (apiDesc w h sb 8) p io).cb =
      planeIn8 p.cb io.cb ((w + padTo8 w + 136) / 2) 34 34 (w / 2) (h / 2) (padTo8 w / 2) (padTo8 h / 2) (u16 io.cbStride) ∧
    (pipelineIn (apiDesc w h sb 8) p io).cr =
      planeIn8 p.cr io.cr ((w + padTo8 w + 136) / 2) 34 34 (w / 2) (h / 2) (padTo8 w / 2) (padTo8 h / 2) (u16 io.crStride) :=
  ⟨pipelineIn8_y w h sb p io hw hh, pipelineIn8_cb w h sb p io hw hh hwe hhe, pipelineIn8_cr w h sb p io hw hh hwe hhe⟩

example : (pipelineIn (apiDesc 70 66 64 8) ⟨⟨#[], true⟩, ⟨#[], true⟩, ⟨#[], true⟩, ⟨#[], true⟩, ⟨#[], true⟩, ⟨#[], true⟩⟩
            ⟨#[], #[], #[], 70, 35, 35⟩).y.buf.size = 0 := by
  rw [(pipelineIn8_planes 70 66 64 _ _ (by omega) (by omega) (by omega) (by omega)).1, planeIn8_size]; rfl

/-- 10-bit twin of `pipelineIn8_planes` (each plane has an 8-bit and a 2-bit allocation). -/
theorem pipelineIn10_planes (w h sb : Nat) (p : Pic) (io : IoFormat) (hw : w + 144 < 65536) (hh : h < 65536)
    (hwe : w % 2 = 0) (hhe : h % 2 = 0) :
    ((pipelineIn (apiDesc w h sb 10) p io).y, (pipelineIn (apiDesc w h sb 10) p io).incY) =
      planeIn10 p.y p.incY io.luma (w + padTo8 w + 136) 68 68 w h (padTo8 w) (padTo8 h) (u16 io.yStride) ∧
    ((pipelineIn (apiDesc w h sb 10) p io).cb, (pipelineIn (apiDesc w h sb 10) p io).incCb) =
      planeIn10 p.cb p.incCb io.cb ((w + padTo8 w + 136) / 2) 34 34 (w / 2) (h / 2) (padTo8 w / 2) (padTo8 h / 2) (u16 io.cbStride) ∧
    ((pipelineIn (apiDesc w h sb 10) p io).cr, (pipelineIn (apiDesc w h sb 10) p io).incCr) =
      planeIn10 p.cr p.incCr io.cr ((w + padTo8 w + 136) / 2) 34 34 (w / 2) (h / 2) (padTo8 w / 2) (padTo8 h / 2) (u16 io.crStride) :=
  ⟨pipelineIn10_y w h sb p io hw hh, pipelineIn10_cb w h sb p io hw hh hwe hhe, pipelineIn10_cr w h sb p io hw hh hwe hhe⟩

/-- **C21 for a whole 8-bit frame, API geometry, whole buffers.**  For every even `w, h ≥ 2`, superblock size
    `sb ≥ 64`, internal picture `p` of the allocated sizes, and two callers' pictures whose visible luma / Cb / Cr
    samples agree, with any strides in `[w, w + 64]` (chroma `[w/2, w/2 + 64]`) and any other bytes anywhere:
    the three internal planes after copy + padding regeneration are identical, cell for cell, padding included. -/
theorem pipelineIn_depends_only_on_visible (w h sb : Nat) (p : Pic) (io1 io2 : IoFormat)
    (hw : 2 ≤ w) (hw2 : w + 144 < 65536) (hh : 2 ≤ h) (hh2 : h < 65536) (hwe : w % 2 = 0) (hhe : h % 2 = 0)
    (hsb : 64 ≤ sb) (hsbe : sb % 2 = 0)
    (hy : p.y.buf.size = (apiDesc w h sb 8).lumaSize)
    (hcb : p.cb.buf.size = (apiDesc w h sb 8).chromaSize) (hcr : p.cr.buf.size = (apiDesc w h sb 8).chromaSize)
    (s1y : w ≤ io1.yStride ∧ io1.yStride ≤ w + 64) (s2y : w ≤ io2.yStride ∧ io2.yStride ≤ w + 64)
    (s1b : w / 2 ≤ io1.cbStride ∧ io1.cbStride ≤ w / 2 + 64) (s2b : w / 2 ≤ io2.cbStride ∧ io2.cbStride ≤ w / 2 + 64)
    (s1r : w / 2 ≤ io1.crStride ∧ io1.crStride ≤ w / 2 + 64) (s2r : w / 2 ≤ io2.crStride ∧ io2.crStride ≤ w / 2 + 64)
    (vy : ∀ x y, x < w → y < h → vis io1.luma io1.yStride x y = vis io2.luma io2.yStride x y)
    (vb : ∀ x y, x < w / 2 → y < h / 2 → vis io1.cb io1.cbStride x y = vis io2.cb io2.cbStride x y)
    (vr : ∀ x y, x < w / 2 → y < h / 2 → vis io1.cr io1.crStride x y = vis io2.cr io2.crStride x y) :
    (pipelineIn (apiDesc w h sb 8) p io1).y.buf = (pipelineIn (apiDesc w h sb 8) p io2).y.buf ∧
    (pipelineIn (apiDesc w h sb 8) p io1).cb.buf = (pipelineIn (apiDesc w h sb 8) p io2).cb.buf ∧
    (pipelineIn (apiDesc w h sb 8) p io1).cr.buf = (pipelineIn (apiDesc w h sb 8) p io2).cr.buf := by
  obtain ⟨a1, b1, c1⟩ := pipelineIn8_planes w h sb p io1 hw2 hh2 hwe hhe
  obtain ⟨a2, b2, c2⟩ := pipelineIn8_planes w h sb p io2 hw2 hh2 hwe hhe
  rw [a1, b1, c1, a2, b2, c2]
  have m1 := padTo8_mod w
  have m2 := padTo8_mod h
  have l1 := padTo8_lt w
  have l2 := padTo8_lt h
  have e1 := padTo8_even w hwe
  have e2 := padTo8_even h hhe
  -- sizes of the allocations
  have szY : p.y.buf.size = (w + padTo8 w + 136) * (h + padTo8 h + 68 + (sb + 4)) := by
    rw [hy]; simp only [apiDesc, m1, m2, beq_self_eq_true, ↓reduceIte]
  have szC : (apiDesc w h sb 8).chromaSize = ((w + padTo8 w + 136) / 2) * ((h + padTo8 h + 68 + (sb + 4)) / 2) := by
    simp only [apiDesc, m1, m2, beq_self_eq_true, ↓reduceIte]
    obtain ⟨a, ha⟩ : ∃ a, w + padTo8 w + 136 = 2 * a := ⟨(w + padTo8 w + 136) / 2, by omega⟩
    obtain ⟨b, hb⟩ : ∃ b, h + padTo8 h + 68 + (sb + 4) = 2 * b := ⟨(h + padTo8 h + 68 + (sb + 4)) / 2, by omega⟩
    have : (w + padTo8 w + (64 + 4) + (64 + 4)) * (h + padTo8 h + (64 + 4) + (sb + 4)) = 4 * (a * b) := by
      have e3 : w + padTo8 w + (64 + 4) + (64 + 4) = 2 * a := by omega
      have e4 : h + padTo8 h + (64 + 4) + (sb + 4) = 2 * b := by omega
      rw [e3, e4, Nat.mul_mul_mul_comm]
    rw [this, ha, hb]
    simp
  refine ⟨?_, ?_, ?_⟩
  · -- luma
    have hrows : (68 + (h + padTo8 h) + 68) ≤ (h + padTo8 h + 68 + (sb + 4)) := by omega
    have hin := Nat.mul_le_mul_left (w + padTo8 w + 136) hrows
    rw [Nat.mul_comm] at hin
    have hone : 1 * (w + padTo8 w + 136) ≤ (padTo8 h + 68 + 1) * (w + padTo8 w + 136) := Nat.mul_le_mul_right _ (by omega)
    have hsp : ∀ ss, ss ≤ w + 64 → 68 * (w + padTo8 w + 136) + 68 + (h - 1) * (w + padTo8 w + 136) + ss ≤
        (68 + (h + padTo8 h) + 68) * (w + padTo8 w + 136) := by
      intro ss hss
      have e : 68 + (h + padTo8 h) + 68 = 68 + (h - 1) + (padTo8 h + 68 + 1) := by omega
      rw [e, Nat.add_mul, Nat.add_mul]; omega
    apply copyin_whole_buffer p.y io1.luma io2.luma (w + padTo8 w + 136) 68 68 w h (padTo8 w) (padTo8 h) _ _
      (by omega) (by omega) (by omega)
    · rw [u16_id _ (by omega)]; exact s1y.1
    · rw [u16_id _ (by omega)]; exact s2y.1
    · rw [szY]; exact hin
    · rw [u16_id _ (by omega)]; exact hsp _ s1y.2
    · rw [u16_id _ (by omega)]; exact hsp _ s2y.2
    · rw [u16_id _ (by omega), u16_id _ (by omega)]; exact vy
  · -- cb
    have hS2 : (w + padTo8 w + 136) / 2 = 34 + (w / 2 + padTo8 w / 2) + 34 := by omega
    have hrows : (34 + (h / 2 + padTo8 h / 2) + 34) ≤ (h + padTo8 h + 68 + (sb + 4)) / 2 := by omega
    have hin := Nat.mul_le_mul_left ((w + padTo8 w + 136) / 2) hrows
    rw [Nat.mul_comm] at hin
    have hone : 2 * ((w + padTo8 w + 136) / 2) ≤ (padTo8 h / 2 + 34 + 1) * ((w + padTo8 w + 136) / 2) := Nat.mul_le_mul_right _ (by omega)
    have hsp : ∀ ss, ss ≤ w / 2 + 64 → 34 * ((w + padTo8 w + 136) / 2) + 34 + (h / 2 - 1) * ((w + padTo8 w + 136) / 2) + ss ≤
        (34 + (h / 2 + padTo8 h / 2) + 34) * ((w + padTo8 w + 136) / 2) := by
      intro ss hss
      have e : 34 + (h / 2 + padTo8 h / 2) + 34 = 34 + (h / 2 - 1) + (padTo8 h / 2 + 34 + 1) := by omega
      rw [e, Nat.add_mul, Nat.add_mul]; omega
    apply copyin_whole_buffer p.cb io1.cb io2.cb ((w + padTo8 w + 136) / 2) 34 34 (w / 2) (h / 2) (padTo8 w / 2) (padTo8 h / 2) _ _
      (by omega) (by omega) hS2
    · rw [u16_id _ (by omega)]; exact s1b.1
    · rw [u16_id _ (by omega)]; exact s2b.1
    · rw [hcb, szC]; exact hin
    · rw [u16_id _ (by omega)]; exact hsp _ s1b.2
    · rw [u16_id _ (by omega)]; exact hsp _ s2b.2
    · rw [u16_id _ (by omega), u16_id _ (by omega)]; exact vb
  · -- cr
    have hS2 : (w + padTo8 w + 136) / 2 = 34 + (w / 2 + padTo8 w / 2) + 34 := by omega
    have hrows : (34 + (h / 2 + padTo8 h / 2) + 34) ≤ (h + padTo8 h + 68 + (sb + 4)) / 2 := by omega
    have hin := Nat.mul_le_mul_left ((w + padTo8 w + 136) / 2) hrows
    rw [Nat.mul_comm] at hin
    have hone : 2 * ((w + padTo8 w + 136) / 2) ≤ (padTo8 h / 2 + 34 + 1) * ((w + padTo8 w + 136) / 2) := Nat.mul_le_mul_right _ (by omega)
    have hsp : ∀ ss, ss ≤ w / 2 + 64 → 34 * ((w + padTo8 w + 136) / 2) + 34 + (h / 2 - 1) * ((w + padTo8 w + 136) / 2) + ss ≤
        (34 + (h / 2 + padTo8 h / 2) + 34) * ((w + padTo8 w + 136) / 2) := by
      intro ss hss
      have e : 34 + (h / 2 + padTo8 h / 2) + 34 = 34 + (h / 2 - 1) + (padTo8 h / 2 + 34 + 1) := by omega
      rw [e, Nat.add_mul, Nat.add_mul]; omega
    apply copyin_whole_buffer p.cr io1.cr io2.cr ((w + padTo8 w + 136) / 2) 34 34 (w / 2) (h / 2) (padTo8 w / 2) (padTo8 h / 2) _ _
      (by omega) (by omega) hS2
    · rw [u16_id _ (by omega)]; exact s1r.1
    · rw [u16_id _ (by omega)]; exact s2r.1
    · rw [hcr, szC]; exact hin
    · rw [u16_id _ (by omega)]; exact hsp _ s1r.2
    · rw [u16_id _ (by omega)]; exact hsp _ s2r.2
    · rw [u16_id _ (by omega), u16_id _ (by omega)]; exact vr

/-! ### bounds: the caller contract the API does not check -/

/-- **Exact condition under which the copy-in of one 8-bit plane stays inside the caller's and the library's
    allocations.**  pad_input_picture and generate_padding never leave the allocation; the row loop of
    copy_frame_buffer copies `ss` bytes per row (the *stride*, not the width), so it stays inside iff the last
    row's `ss` bytes end inside the destination AND the source allocation holds `h * ss` bytes — i.e. the caller's
    last row must be a full stride long although only `w` bytes of it are picture. -/
theorem copy_in_bounds (m : Mem) (src : Buf) (S ox oy w h pr pb ss : Nat)
    (hw : 1 ≤ w) (hh : 1 ≤ h) (hS : S = ox + (w + pr) + ox)
    (hin : (oy + (h + pb) + oy) * S ≤ m.buf.size) :
    (planeIn8 m src S ox oy w h pr pb ss).ok = true ↔
      m.ok = true ∧ (ss = 0 ∨ (S * oy + ox + (h - 1) * S + ss ≤ m.buf.size ∧ h * ss ≤ src.size)) :=
  planeIn8_ok m src S ox oy w h pr pb ss hw hh hS hin

example : (planeIn8 ⟨Array.replicate 16 7, true⟩ #[1, 2, 99, 3, 4, 99] 4 1 1 2 2 0 0 3).ok = true := by
  rw [copy_in_bounds _ _ 4 1 1 2 2 0 0 3 (by omega) (by omega) (by omega) (by simp)]; simp

/-- the same for the luma plane of an API-built 8-bit picture: in terms of `y_stride` (as truncated to uint16 by
    copy_frame_buffer l.3486), the configured size and the caller's allocation -/
theorem copy_in_bounds_luma (w h sb : Nat) (p : Pic) (io : IoFormat) (hw : 1 ≤ w) (hw2 : w + 144 < 65536)
    (hh : 1 ≤ h) (hh2 : h < 65536) (hsb : 64 ≤ sb)
    (hy : p.y.buf.size = (apiDesc w h sb 8).lumaSize) :
    (pipelineIn (apiDesc w h sb 8) p io).y.ok = true ↔
      p.y.ok = true ∧ (u16 io.yStride = 0 ∨
        ((w + padTo8 w + 136) * 68 + 68 + (h - 1) * (w + padTo8 w + 136) + u16 io.yStride
            ≤ (w + padTo8 w + 136) * (h + padTo8 h + 68 + (sb + 4)) ∧
         h * u16 io.yStride ≤ io.luma.size)) := by
  have m1 := padTo8_mod w
  have m2 := padTo8_mod h
  have szY : p.y.buf.size = (w + padTo8 w + 136) * (h + padTo8 h + 68 + (sb + 4)) := by
    rw [hy]; simp only [apiDesc, m1, m2, beq_self_eq_true, ↓reduceIte]
  have hrows : (68 + (h + padTo8 h) + 68) ≤ (h + padTo8 h + 68 + (sb + 4)) := by omega
  have hin := Nat.mul_le_mul_left (w + padTo8 w + 136) hrows
  rw [Nat.mul_comm] at hin
  rw [pipelineIn8_y w h sb p io hw2 hh2,
      copy_in_bounds p.y io.luma (w + padTo8 w + 136) 68 68 w h (padTo8 w) (padTo8 h) _ hw hh (by omega) (by rw [szY]; exact hin),
      szY]

/-- **Boundary witness (destination).**  A 64x64 8-bit encode with 64x64 superblocks: `y_stride = 13732` is the
    largest luma stride the internal buffer can take; `13733` makes copy_frame_buffer write past the end of the
    internal luma allocation (200 x 200 bytes).  svt_av1_enc_send_picture accepts both. -/
theorem copy_out_of_bounds_witness (p : Pic) (io : IoFormat) (hok : p.y.ok = true)
    (hy : p.y.buf.size = (apiDesc 64 64 64 8).lumaSize) (hsrc : 64 * 13733 ≤ io.luma.size) :
    (io.yStride = 13732 → (pipelineIn (apiDesc 64 64 64 8) p io).y.ok = true) ∧
    (io.yStride = 13733 → (pipelineIn (apiDesc 64 64 64 8) p io).y.ok = false) := by
  have key := copy_in_bounds_luma 64 64 64 p io (by omega) (by omega) (by omega) (by omega) (by omega) hy
  have e0 : padTo8 64 = 0 := by decide
  simp only [e0, Nat.add_zero] at key
  constructor
  · intro hs
    rw [key, hs]
    refine ⟨hok, Or.inr ⟨by decide, ?_⟩⟩
    have : u16 13732 = 13732 := by decide
    rw [this]; omega
  · intro hs
    cases hb : (pipelineIn (apiDesc 64 64 64 8) p io).y.ok with
    | false => rfl
    | true =>
      rw [key, hs] at hb
      have : u16 13733 = 13733 := by decide
      rw [this] at hb
      omega

/-- **Boundary witness (source).**  The caller's luma allocation holds exactly the picture, `(h-1)*stride + w`
    bytes with `stride = w + 1`: copy_frame_buffer reads `stride` bytes from the last row, one byte past the
    caller's allocation.  (A caller that hands in a cropped window of a larger frame, or a tightly allocated last
    row, is over-read by up to `stride - w` bytes.) -/
theorem copy_read_overrun_witness (p : Pic) (io : IoFormat) (hok : p.y.ok = true)
    (hy : p.y.buf.size = (apiDesc 64 64 64 8).lumaSize) (hs : io.yStride = 65) :
    (io.luma.size = 63 * 65 + 64 → (pipelineIn (apiDesc 64 64 64 8) p io).y.ok = false) ∧
    (io.luma.size = 64 * 65 → (pipelineIn (apiDesc 64 64 64 8) p io).y.ok = true) := by
  have key := copy_in_bounds_luma 64 64 64 p io (by omega) (by omega) (by omega) (by omega) (by omega) hy
  have e0 : padTo8 64 = 0 := by decide
  have e1 : u16 65 = 65 := by decide
  simp only [e0, Nat.add_zero, hs, e1] at key
  constructor
  · intro hsz
    cases hb : (pipelineIn (apiDesc 64 64 64 8) p io).y.ok with
    | false => rfl
    | true => rw [key, hsz] at hb; omega
  · intro hsz
    rw [key, hsz]
    exact ⟨hok, Or.inr ⟨by decide, by omega⟩⟩

/-- **Exact bounds of the 10-bit path** (either half of a plane): un_pack2d reads `w` samples per row, so the
    source must hold `(h-1)*ss + w` samples and nothing more; the destination is never left. -/
theorem copy10_in_bounds (m : Mem) (src : Buf) (f : Nat → Nat) (S ox oy w h pr pb ss : Nat)
    (hw : 1 ≤ w) (hh : 1 ≤ h) (hS : S = ox + (w + pr) + ox)
    (hin : (oy + (h + pb) + oy) * S ≤ m.buf.size) :
    (generatePadding (padInputPicture (storeRows m src f 0 ss (S * oy + ox) S w 0 h) (ox + oy * S) S w h pr pb)
        0 S (w + pr) (h + pb) ox oy).ok = true ↔
      m.ok = true ∧ (h - 1) * ss + w ≤ src.size :=
  planeIn10_half_ok m src f S ox oy w h pr pb ss hw hh hS hin

example : (planeIn10 ⟨Array.replicate 16 7, true⟩ ⟨Array.replicate 16 7, true⟩ #[1023, 4, 8, 2049] 4 1 1 2 2 0 0 2).1.ok = true := by
  rw [planeIn10_halves]
  rw [copy10_in_bounds _ _ _ 4 1 1 2 2 0 0 2 (by omega) (by omega) (by omega) (by simp)]; simp

/-- copy_frame_buffer keeps only the low 16 bits of the three strides (`uint16_t source_luma_stride =
    (uint16_t)(input_ptr->y_stride)`, l.3486-3488 / l.3585-3587): a stride of `s + 65536` is treated as `s`,
    i.e. rows are read from the wrong addresses; nothing rejects it. -/
theorem stride_truncated_to_16_bits (d : Desc) (p : Pic) (io : IoFormat) (a b c : Nat) :
    copyFrameBuffer d p { io with yStride := io.yStride + 65536 * a, cbStride := io.cbStride + 65536 * b,
                                  crStride := io.crStride + 65536 * c } = copyFrameBuffer d p io := by
  simp only [copyFrameBuffer, u16, Nat.add_mul_mod_self_left]

/-- **Caller memory is not retained.**  Whatever the pipeline computes after svt_av1_enc_send_picture has returned
    (`rest`) is a function of the library's own deep copy: it equals `rest` of the internal picture built at send
    time, whatever the caller does to its memory afterwards (`scribble`: overwrite, free).  Structural in the
    model (`Held` has no caller pointer); the real library is checked for this by the e2e part of the check
    (scribble / free after every send, ASan build). -/
theorem caller_buffer_not_retained {α : Type} (rest : Pic → α) (d : Desc) (p : Pic) (io : IoFormat)
    (scribble : IoFormat → IoFormat) :
    (afterSend rest d p io scribble).1 = rest (pipelineIn d p io) := rfl

end C21
