/-
  C02 — every packet returned by the encoder is one well-formed temporal unit (framing layer).
  Property theorems only; models in SvtVerif/Model/{Leb128,Obu,Tu,ObuSite}.lean, helper lemmas in
  SvtVerif/Lemmas/{Obu,Tu,ObuSite}.lean; SvtVerif/Gen/ObuSites.lean is regenerated from /repo by xlate/obusites.py.
-/
import SvtVerif.Lemmas.Obu
import SvtVerif.Lemmas.Tu
import SvtVerif.Lemmas.ObuSite
import SvtVerif.Gen.ObuSites

namespace C02
open Leb128 Obu ObuLemmas Tu TuLemmas ObuSite ObuSiteLemmas

/-- **LEB128 round trip.** For every value the C encoder accepts (`svt_aom_uleb_encode`, `value ≤ 2^56-1`,
    enough room), `dec_get_bits_leb128` reads back exactly the value and leaves exactly the bytes that
    followed the size field. -/
theorem leb128_roundtrip (v : Nat) (rest : List UInt8) (hv : v < 2 ^ 56) :
    ∃ bytes, ulebEncode v 8 = some bytes ∧ bytes.length = sizeInBytes v ∧ decode (bytes ++ rest) = some (v, rest) := by
  refine ⟨encodeBytes (sizeInBytes v) v, ?_, encodeBytes_length _ _, decode_encode v rest hv⟩
  have h8 := sizeInBytes_le_8 v hv
  have hmax : ¬ v > kMaximumLeb128Value := by simp [kMaximumLeb128Value]; omega
  simp [ulebEncode, hmax, kMaximumLeb128Size, Nat.not_lt.mpr h8]

example : ulebEncode 300 8 = some [0xac, 0x02] ∧ decode ([0xac, 0x02] ++ [7]) = some (300, [7]) := by decide

/-- The statement of the property text (`v < 2^32`), as a corollary. -/
theorem leb128_roundtrip_u32 (v : Nat) (rest : List UInt8) (hv : v < 2 ^ 32) :
    ∃ bytes, ulebEncode v 8 = some bytes ∧ readObuSize (bytes ++ rest) = some (v, rest) := by
  obtain ⟨bytes, h1, _, h3⟩ := leb128_roundtrip v rest (by calc v < 2 ^ 32 := hv
                                                              _ ≤ 2 ^ 56 := by norm_num)
  refine ⟨bytes, h1, ?_⟩
  have : ¬ v > 0xFFFFFFFF := by
    have : (2 : Nat) ^ 32 = 0xFFFFFFFF + 1 := by norm_num
    omega
  simp [readObuSize, h3, this]

example : ∃ bytes, ulebEncode 70000 8 = some bytes ∧ readObuSize (bytes ++ [1, 2]) = some (70000, [1, 2]) :=
  leb128_roundtrip_u32 70000 [1, 2] (by norm_num)

/-- **Size function.** `svt_aom_uleb_size_in_bytes v` is the least `n ≥ 1` with `v < 128^n`
    (for every `uint64_t` argument), and it is the number of bytes `svt_aom_uleb_encode` writes. -/
theorem leb128_size_eq (v : Nat) (hv : v < 2 ^ 64) :
    v < 128 ^ sizeInBytes v ∧ (sizeInBytes v = 1 ∨ 128 ^ (sizeInBytes v - 1) ≤ v) ∧
      (encodeBytes (sizeInBytes v) v).length = sizeInBytes v := by
  have h := sizeGo_spec 10 v (by calc v < 2 ^ 64 := hv
                                   _ ≤ 128 ^ 11 := by norm_num)
  exact ⟨h.1, h.2, encodeBytes_length _ _⟩

example : sizeInBytes 0 = 1 ∧ sizeInBytes 127 = 1 ∧ sizeInBytes 128 = 2 ∧ sizeInBytes 16384 = 3 := by decide

/-- **OBU size field as the encoder writes it** (`write_uleb_obu_size`: `available = sizeof(uint32_t) = 4`):
    it succeeds exactly for payload sizes below 2^28, and then `read_obu_size` reads the size back. -/
theorem obu_size_field (n : Nat) (rest : List UInt8) (hn : n < 2 ^ 28) :
    ∃ bytes, writeUlebObuSize n = some bytes ∧ readObuSize (bytes ++ rest) = some (n, rest) := by
  refine ⟨encodeBytes (sizeInBytes n) n, ?_, readObuSize_encode n rest hn⟩
  have h4 := sizeInBytes_le_4 n hn
  have hmax : ¬ n > kMaximumLeb128Value := by
    have : (2 : Nat) ^ 28 ≤ kMaximumLeb128Value := by simp [kMaximumLeb128Value]
    omega
  simp [writeUlebObuSize, ulebEncode, hmax, kMaximumLeb128Size, Nat.not_lt.mpr h4]
  omega

/-- The excluded point of `obu_size_field`: from 2^28 bytes on, `write_uleb_obu_size` fails (the caller
    only `assert(0)`s), i.e. no size field is written. -/
theorem obu_size_field_limit (n : Nat) (hn : 2 ^ 28 ≤ n) (hn2 : n < 2 ^ 64) : writeUlebObuSize n = none := by
  have h := (sizeGo_spec 10 n (by calc n < 2 ^ 64 := hn2
                                    _ ≤ 128 ^ 11 := by norm_num)).1
  have h5 : 5 ≤ sizeInBytes n := by
    by_contra hlt
    have hle : sizeInBytes n ≤ 4 := by omega
    have : 128 ^ sizeInBytes n ≤ 128 ^ 4 := Nat.pow_le_pow_right (by decide) hle
    have : (128 : Nat) ^ 4 = 2 ^ 28 := by norm_num
    simp only [sizeInBytes] at *
    omega
  simp [writeUlebObuSize, ulebEncode]
  omega

/-- **Framing.** For every list of OBUs with valid type, zero reserved bits and payloads below 2^28 bytes —
    any payload bytes — parsing the concatenation of their serializations (`write_obu_header`, size field,
    payload) returns exactly that list: the size fields match the payloads and the OBU boundaries are
    recovered. -/
theorem obu_frame_parse (os : List Obu.Obu) (hw : ∀ o ∈ os, o.wellFormed = true) :
    parseObus (os.flatMap serialize) = .ok os :=
  parseObusGo_serialize os hw _ (Nat.le_refl _)

/-- Non-vacuity on real bytes: the show-existing packet of a real encode (192x128, preset 4, 4 hierarchical
    levels, packet 3: `12 00 1a 01 98`) is the serialization of `[TD, FRAME_HEADER [0x98]]`. -/
example : parseObus [0x12, 0x00, 0x1a, 0x01, 0x98] = .ok [tdObu, { obuType := 3, ext := none, payload := [0x98] }] ∧
    [tdObu, { obuType := 3, ext := none, payload := [0x98] }].flatMap serialize = [0x12, 0x00, 0x1a, 0x01, 0x98] ∧
    (∀ o ∈ [tdObu, ({ obuType := 3, ext := none, payload := [0x98] } : Obu.Obu)], o.wellFormed = true) := by decide

/-! ### temporal-unit structure of the `encode_tu` / `encode_show_existing` output -/

/-- **TU structure.** Whenever the group handed to `encode_tu` consists of non-shown pictures followed by one
    shown picture (the packetization invariant), the packet is: a temporal delimiter, then for each picture
    its optional sequence header (present for every key frame), its metadata and its OBU_FRAME, with exactly
    one displayed frame, which is the last OBU — for every number of pictures, every header/tile payload. -/
theorem tu_structure (pre : List Entry) (l : Entry) (hpre : ∀ e ∈ pre, e.showFrame = false)
    (hl : l.showFrame = true) : isTemporalUnit (encodeTuObus (pre ++ [l])) = true := by
  obtain ⟨p1, p2⟩ := scan_hidden pre hpre {}
  obtain ⟨e1, e2, e3⟩ := scan_entry l ((pre.flatMap entryObus).foldl scanStep {})
  simp only [isTemporalUnit, encodeTuObus, List.flatMap_append, List.flatMap_cons, List.flatMap_nil,
    List.append_nil, List.foldl_append, e1, e2, e3, p1, p2, hl]
  decide

example : isTemporalUnit (encodeTuObus
    ([{ frameType := 1, showFrame := false, hdrLow := 5, hdrTail := [1, 2], seqHdr := [] }] ++
     [{ frameType := 0, showFrame := true, hdrLow := 0, hdrTail := [3], seqHdr := [0, 0], metadata := [[4, 0x80]] }])) = true := by
  decide

/-- The packet written by `encode_show_existing` (TD, metadata, one show-existing frame header) is a temporal
    unit with exactly one displayed frame. -/
theorem tu_show_existing (e : Entry) : isTemporalUnit (encodeShowExistingObus e) = true := by
  obtain ⟨m1, m2, _⟩ := scan_metadata e.seMetadata {}
  have hse := showExistingObu_fields e
  have ht : (showExistingObu e).obuType = OBU_FRAME_HEADER := rfl
  simp only [isTemporalUnit, encodeShowExistingObus, List.foldl_append, List.foldl_cons, List.foldl_nil]
  simp [scanStep, ht, hse, m1, m2, OBU_FRAME_HEADER, OBU_SEQUENCE_HEADER, OBU_METADATA, OBU_FRAME, tdObu,
    OBU_TEMPORAL_DELIMITER]

/-- **From the queue.** Whatever the reorder queue contains, if `count_frames_in_next_tu` returns `n` with
    `0 < n < PACKETIZATION_REORDER_QUEUE_MAX_DEPTH`, the `n` head entries are all present, only the last one is
    shown, and the packet `encode_tu` builds from them is a temporal unit. (`n = DEPTH` — a full queue without any
    shown picture — is the excluded point: the C loop then returns `DEPTH` and `encode_tu` would emit a packet
    without a displayed frame.) -/
theorem tu_from_queue (slots : List (Option Entry)) (n : Nat) (hn : countFramesInNextTu slots = n)
    (h0 : n ≠ 0) (hD : n < slots.length) :
    ∃ es, slots.take n = es.map some ∧ es.length = n ∧ isTemporalUnit (encodeTuObus es) = true := by
  obtain ⟨pre, l, h1, h2, h3, h4⟩ := countGo_shape slots 0 n hn h0 (by omega)
  refine ⟨pre ++ [l], by simpa using h1, by simp; omega, tu_structure pre l h2 h3⟩

example : countFramesInNextTu [some { frameType := 1, showFrame := false, hdrLow := 0, hdrTail := [], seqHdr := [] },
    some { frameType := 1, showFrame := true, hdrLow := 0, hdrTail := [], seqHdr := [] }, none] = 2 := by decide

/-- The bytes of the packet parse back to the OBU list the model assembled (sizes below 2^28). -/
theorem tu_bytes_parse (es : List Entry) (hsz : ∀ o ∈ encodeTuObus es, o.payload.length < 2 ^ 28) :
    parseObus (encodeTu es) = .ok (encodeTuObus es) := by
  apply obu_frame_parse
  intro o ho
  have hlen := hsz o ho
  have hty : validObuType o.obuType = true ∧ o.ext = none := by
    simp only [encodeTuObus, List.mem_cons, List.mem_flatMap] at ho
    rcases ho with rfl | ⟨e, _, he⟩
    · exact ⟨by decide, rfl⟩
    · simp only [entryObus, List.mem_append, List.mem_map, List.mem_singleton] at he
      rcases he with (he | ⟨m, _, rfl⟩) | rfl
      · split at he
        · simp only [List.mem_singleton] at he; subst he; exact ⟨rfl, rfl⟩
        · simp at he
      · exact ⟨rfl, rfl⟩
      · exact ⟨rfl, rfl⟩
  simp only [Obu.wellFormed, hty.1, hty.2, Bool.true_and, decide_eq_true_eq]
  exact hlen

/-! ### the size-field reservation at every OBU writer (`obu_mem_move` / `write_uleb_obu_size`) -/

/-- **Reserve – move – encode, all payload sizes.** At a site whose extracted expressions pass `Site.consistent`
    (reserved value = encoded value = moved size = payload size, offsets as in the C code), the bytes the writer keeps
    are exactly `write_obu_header` bytes ++ LEB128(payload size) ++ payload, for every OBU header and EVERY payload
    below 2^28 bytes — in particular on both sides of the LEB128 length boundaries 127/128, 16383/16384, 2097151/2097152,
    where the number of reserved bytes changes. -/
theorem site_layout_serialize (s : Site) (hres : s.reserved.isSome = true) (hc : s.consistent = true)
    (o : Obu.Obu) (hw : o.wellFormed = true) :
    layoutSite s (headerBytes o) o.payload = serialize o := by
  have hp : o.payload.length < 2 ^ 28 := by
    simp only [Obu.wellFormed, Bool.and_eq_true, decide_eq_true_eq] at hw; exact hw.2
  exact layout_consistent s hres hc (headerBytes o) o.payload hp

/-- … and the decoder-side parser recovers exactly that OBU from them. -/
theorem site_layout_parses (s : Site) (hres : s.reserved.isSome = true) (hc : s.consistent = true)
    (o : Obu.Obu) (hw : o.wellFormed = true) :
    parseObus (layoutSite s (headerBytes o) o.payload) = .ok [o] := by
  rw [site_layout_serialize s hres hc o hw]
  have := obu_frame_parse [o] (by intro o' ho'; simp only [List.mem_singleton] at ho'; subst ho'; exact hw)
  simpa using this

example : Gen.ObuSites.frameSite.reserved.isSome = true ∧ Gen.ObuSites.frameSite.consistent = true := by decide

set_option maxRecDepth 16000 in
/-- Payload sizes 126, 127, 128 through the extracted `write_frame_header_av1` site (non-vacuity on the boundary). -/
example : ∀ n ∈ [126, 127, 128],
    parseObus (layoutSite Gen.ObuSites.frameSite (headerBytes { obuType := 6, ext := none, payload := [] }) (List.replicate n 7))
      = .ok [{ obuType := 6, ext := none, payload := List.replicate n 7 }] := by
  intro n hn
  exact site_layout_parses Gen.ObuSites.frameSite (by decide) (by decide) { obuType := 6, ext := none, payload := List.replicate n 7 }
    (by simp only [List.mem_cons, List.not_mem_nil, or_false] at hn
        rcases hn with rfl | rfl | rfl <;> decide)

/-- **Sites without payload** (temporal delimiter: no `obu_mem_move`): a consistent site writes header ++ `00`, the
    byte count its caller accounts (`TD_SIZE`) is exactly that, and the parser reads back an empty OBU. -/
theorem site_layout_empty_parses (s : Site) (hres : s.reserved = none) (hc : s.consistent = true)
    (o : Obu.Obu) (hw : o.wellFormed = true) (hpay : o.payload = []) (hk : s.hdrSize = some (headerBytes o).length) :
    layoutSite s (headerBytes o) [] = serialize o ∧ parseObus (layoutSite s (headerBytes o) []) = .ok [o] := by
  have h1 : layoutSite s (headerBytes o) [] = serialize o := by
    rw [layout_consistent_empty s hres hc (headerBytes o) _ hk rfl]
    have : encodeBytes (sizeInBytes 0) 0 = [0] := by decide
    simp [serialize, hpay, this]
  refine ⟨h1, ?_⟩
  rw [h1]
  have := obu_frame_parse [o] (by intro o' ho'; simp only [List.mem_singleton] at ho'; subst ho'; exact hw)
  simpa using this

example : layoutSite Gen.ObuSites.tdSite (headerBytes tdObu) [] = [0x12, 0x00] := by decide

/-- **The converse: a reservation computed from another value breaks exactly at the LEB128 length boundaries.**
    `mismatchedSite` reserves the length of header + payload (what passing the running size instead of the payload
    size to `obu_mem_move` does) and encodes the payload size. Its output is the correct serialization iff the two
    LEB128 lengths agree — e.g. not for a 127-byte payload behind a 1-byte header. -/
theorem mismatched_reservation_iff (o : Obu.Obu) (hw : o.wellFormed = true) :
    layoutSite mismatchedSite (headerBytes o) o.payload = serialize o ↔
      sizeInBytes ((headerBytes o).length + o.payload.length) = sizeInBytes o.payload.length := by
  have hp : o.payload.length < 2 ^ 28 := by
    simp only [Obu.wellFormed, Bool.and_eq_true, decide_eq_true_eq] at hw; exact hw.2
  have hh : (headerBytes o).length ≤ 2 := by
    obtain ⟨t, ext, payload⟩ := o
    simp only [Obu.wellFormed, Bool.and_eq_true] at hw
    have ht := validObuType_lt t hw.1.1
    cases ext with
    | none => simp [headerBytes, header_byte_none ⟨t, ht⟩]
    | some e => simp [headerBytes, header_byte_ext ⟨t, ht⟩]
  obtain ⟨e1, e2, e3, e4, e5, e6⟩ := mismatched_eval (headerBytes o).length o.payload.length
  have hL4 : sizeInBytes ((headerBytes o).length + o.payload.length) ≤ 5 := by
    have : (headerBytes o).length + o.payload.length < 128 ^ 5 := by
      have : (2 : Nat) ^ 28 + 2 < 128 ^ 5 := by norm_num
      omega
    exact sizeGo_le 10 _ 5 (by decide) this
  have hrs : mismatchedSite.reserved = some (.add .hdr .payload) := rfl
  have hav : mismatchedSite.avail = 4 := rfl
  have hlay : layoutSite mismatchedSite (headerBytes o) o.payload =
      (writeAt (memmove (headerBytes o ++ o.payload ++ List.replicate slack 0)
        ((headerBytes o).length + sizeInBytes ((headerBytes o).length + o.payload.length)) (headerBytes o).length
        (o.payload.length + (headerBytes o).length)) (headerBytes o).length
        (encodeBytes (sizeInBytes o.payload.length) o.payload.length)).take
        ((headerBytes o).length + o.payload.length + sizeInBytes ((headerBytes o).length + o.payload.length)) := by
    simp only [layoutSite, hrs, hav, e1, e2, e3, e4, e5, e6, Int.toNat_natCast, ulebEncode_ok _ hp]
  constructor
  · intro h
    have hlen := congrArg List.length h
    rw [hlay, layout_length _ _ _ _ _ (by simp only [slack]; omega)
      (by rw [encodeBytes_length]; exact sizeInBytes_le_slack _)] at hlen
    simp only [serialize, List.length_append, encodeBytes_length] at hlen
    omega
  · intro h
    rw [hlay, h]
    have h4 := sizeInBytes_le_4 _ hp
    exact layout_core _ _ _ _ _ (by simp only [slack]; omega) (encodeBytes_length _ _)

set_option maxRecDepth 16000 in
/-- Witness of the failure: a 127-byte OBU_FRAME payload through the mismatched reservation is no longer parsed back
    (one stale byte follows the size field; the parser reads a 127-byte OBU and then meets a bogus OBU header). -/
theorem mismatched_reservation_breaks :
    ∃ o : Obu.Obu, o.wellFormed = true ∧ o.payload.length = 127 ∧
      layoutSite mismatchedSite (headerBytes o) o.payload ≠ serialize o ∧
      parseObus (layoutSite mismatchedSite (headerBytes o) o.payload) ≠ .ok [o] := by
  refine ⟨{ obuType := 6, ext := none, payload := List.replicate 127 0xff }, by decide, by decide, ?_, ?_⟩
  · intro h
    have := (mismatched_reservation_iff _ (by decide)).mp h
    revert this; decide
  · decide

/-- **Every framing site of the encoder** (regenerated from /repo by `xlate/obusites.py` on every run: metadata,
    frame / frame header, sequence header, temporal delimiter at both of its callers) reserves, moves, encodes and
    accounts consistently. This is the obligation that fails when a size-field reservation is computed from anything
    but the encoded payload size. -/
theorem all_sites_consistent : ∀ s ∈ Gen.ObuSites.sites, s.consistent = true := by decide

/-- Consequence for the real sites: every OBU written at a moving site parses back, for all payload sizes. -/
theorem all_sites_parse (s : Site) (hs : s ∈ Gen.ObuSites.sites) (hres : s.reserved.isSome = true)
    (o : Obu.Obu) (hw : o.wellFormed = true) :
    parseObus (layoutSite s (headerBytes o) o.payload) = .ok [o] :=
  site_layout_parses s hres (all_sites_consistent s hs) o hw

example : (Gen.ObuSites.sites.filter (fun s => s.reserved.isSome)).length ≥ 1 ∧ Gen.ObuSites.sites.length ≥ 2 := by decide

end C02
