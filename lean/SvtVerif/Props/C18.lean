/-
  C18 — every coded frame's base quantizer index lies between the indices of the configured minimum and
  maximum QP whenever rate control or adaptive QP scaling chooses it; with fixed-QP coding and no scaling
  the frame uses the index of the configured QP (plus configured fixed offsets, clipped to the bounds).

  Theorems about `QpTail.rcTail` (EbRateControlProcess.c:7322-7478), `QpTail.recodeClamp`
  (EbEncDecProcess.c:4237-4249) and the generated table `Gen.QTable.quantizerToQindex`.
  The value produced upstream (`new_qindex`, the 1-pass RC `picture_qp`, the recode loop's `q`) is universally
  quantified: nothing is assumed about `cqp_qindex_calc*`, `rc_pick_q_and_bounds`, `frame_level_rc_*`.
  `minQp`/`maxQp` are the EFFECTIVE `static_config.{min,max}_qp_allowed` (after `copy_api_from_app`, see `effCfg`).
-/
import SvtVerif.Lemmas.QpTail
import SvtVerif.Lemmas.QpTailApi

namespace C18
open QpTail CSem

/-- `quantizer_to_qindex` is strictly increasing on its 64 entries: a larger QP never maps to a smaller index,
    so "index between the indices of min and max QP" is the same as "QP between min and max". -/
theorem q2q_strict_mono (a b : Int) (ha : 0 ≤ a) (hab : a < b) (hb : b ≤ 63) : q2q a < q2q b :=
  q2q_lt a b ha hab hb

example : q2q 62 < q2q 63 := q2q_strict_mono 62 63 (by decide) (by decide) (by decide)

/-- Table entries fit `uint8_t` (so the stores into `base_q_idx` never truncate). -/
theorem q2q_fits_u8 (a : Int) (ha : 0 ≤ a) (hb : a ≤ 63) : 0 ≤ q2q a ∧ q2q a ≤ 255 := q2q_range a ha hb

/-- **Bounds.** For every input of the tail — any RC mode, any flags, any upstream `new_qindex` / `picture_qp`, any
    offsets — on every branch that assigns the quantizer (branch ≠ 0: fixed offsets, QP scaling, qp-on-the-fly,
    VBR 2-pass, VBR 1-pass, CVBR, other non-zero modes) the frame's `base_q_idx` ends between
    `quantizer_to_qindex[min_qp_allowed]` and `quantizer_to_qindex[max_qp_allowed]`, given `0 ≤ min ≤ max ≤ 63`
    (what `verify_settings` enforces, EbEncHandle.c:2710-2721).  Branch 0 (plain CQP: scaling flag off, no fixed
    offsets, not on-the-fly) does NOT clamp — see `plain_cqp_unclamped` and `branch0_unreachable`. -/
theorem baseQIdx_in_bounds (i : RcIn) (h0 : 0 ≤ i.minQp) (h1 : i.minQp ≤ i.maxQp) (h2 : i.maxQp ≤ 63)
    (hb : (rcTail i).branch ≠ 0) :
    q2q i.minQp ≤ (rcTail i).baseQIdx ∧ (rcTail i).baseQIdx ≤ q2q i.maxQp := by
  have e1 : wrapU32 i.minQp = i.minQp := wrapU32_id _ h0 (by omega)
  have e2 : wrapU32 i.maxQp = i.maxQp := wrapU32_id _ (by omega) (by omega)
  have i1 : wrapI32 i.minQp = i.minQp := wrapI32_id _ (by omega) (by omega)
  have i2 : wrapI32 i.maxQp = i.maxQp := wrapI32_id _ (by omega) (by omega)
  unfold rcTail at hb ⊢
  simp only [e1, e2, i1, i2] at hb ⊢
  split_ifs at hb ⊢
  all_goals first
    | (exfalso; exact hb rfl)
    | exact clampQidx_bounds _ _ _ h0 h1 h2
    | exact q2q_u8clip_bounds _ _ _ h0 h1 h2

example : (rcTail ⟨0, 0, 1, 0, 0, 1, 63, 50, 50, 50, 0, 0, 0, 0, 0, 100000, 0⟩).baseQIdx = 255 := by decide +kernel

/-- The frame-level `picture_qp` left by every assigning branch is between min and max QP. -/
theorem pictureQp_in_bounds (i : RcIn) (h0 : 0 ≤ i.minQp) (h1 : i.minQp ≤ i.maxQp) (h2 : i.maxQp ≤ 63)
    (hb : (rcTail i).branch ≠ 0) :
    i.minQp ≤ (rcTail i).pictureQp ∧ (rcTail i).pictureQp ≤ i.maxQp := by
  have e1 : wrapU32 i.minQp = i.minQp := wrapU32_id _ h0 (by omega)
  have e2 : wrapU32 i.maxQp = i.maxQp := wrapU32_id _ (by omega) (by omega)
  have i1 : wrapI32 i.minQp = i.minQp := wrapI32_id _ (by omega) (by omega)
  have i2 : wrapI32 i.maxQp = i.maxQp := wrapI32_id _ (by omega) (by omega)
  unfold rcTail at hb ⊢
  simp only [e1, e2, i1, i2, qpFromQidx] at hb ⊢
  split_ifs at hb ⊢
  all_goals first
    | (exfalso; exact hb rfl)
    | exact u8clip_bounds _ _ _ h0 h1 h2

example : (rcTail ⟨2, 0, 1, 0, 0, 10, 40, 50, 50, 50, 0, 0, 0, 0, 0, 0, 200⟩).pictureQp = 40 := by decide +kernel

/-- With rate control on (mode ≠ 0) the index is exactly the table entry of the clamped `picture_qp`. -/
theorem rc_mode_base_is_table (i : RcIn) (hm : wrapU32 i.rcMode ≠ 0) :
    (rcTail i).baseQIdx = q2q (rcTail i).pictureQp := by
  unfold rcTail
  simp only [if_neg hm]

/-- **The branch that does not clamp** (witness): plain CQP with the scaling flag off, no fixed offsets and no
    on-the-fly QP copies `quantizer_to_qindex[picture_qp]` unclamped: with `qp = 0`, `min_qp_allowed = 1` the index is
    `0 < quantizer_to_qindex[1] = 4`. -/
theorem plain_cqp_unclamped :
    ∃ i : RcIn, i.rcMode = 0 ∧ i.minQp = 1 ∧ i.maxQp = 63 ∧ i.qp = 0 ∧ i.picQp = i.qp ∧
      (rcTail i).branch = 0 ∧ (rcTail i).baseQIdx < q2q i.minQp :=
  ⟨⟨0, 0, 0, 0, 0, 1, 63, 0, 0, 0, 0, 0, 0, 0, 0, 0, 0⟩, by decide +kernel⟩

/-- …but that branch cannot be reached through the API: `copy_api_from_app` forces `enable_qp_scaling_flag = 1`
    unless `use_fixed_qindex_offsets == 1` (EbEncHandle.c:2190, 2212-2213), and `qp_on_the_fly` is only ever
    `EB_FALSE`/`EB_TRUE` (EbResourceCoordinationProcess.c:1047-1055).  So for every API configuration the tail
    takes an assigning branch and `baseQIdx_in_bounds` applies. -/
theorem branch0_unreachable (api : ApiCfg) (i : RcIn)
    (hs : i.qpScaling = (effCfg api).qpScaling) (hf : i.fixedOffsets = api.fixedOffsets)
    (ho : i.onTheFly = 0 ∨ i.onTheFly = 1) : (rcTail i).branch ≠ 0 := by
  intro h
  obtain ⟨_, hfx, hsc, hotf⟩ := (branch_eq_zero_iff i).mp h
  rw [hf] at hfx
  unfold effCfg at hs
  simp only [if_neg hfx] at hs
  rcases ho with ho | ho
  · apply hsc; rw [hs, ho]; decide
  · apply hotf; rw [ho]; decide

example : (rcTail ⟨0, 0, (effCfg ⟨0, 7, 9, 0, 0⟩).qpScaling, 0, 0, 1, 63, 0, 0, 0, 0, 0, 0, 0, 0, 0, 0⟩).branch = 2 := by decide +kernel

/-- In CQP mode the effective bounds are always 1 and 63, whatever the application asked for. -/
theorem cqp_effective_bounds (api : ApiCfg) (h : wrapU32 api.rcMode = 0) :
    (effCfg api).minQp = 1 ∧ (effCfg api).maxQp = 63 := by
  unfold effCfg; simp [h]

/-- **Fixed QP, no scaling** (model-level; through the API this combination only arises with fixed offsets, see
    `fixed_offsets_spec`): mode 0, scaling flag off, no fixed offsets, not on-the-fly, and `picture_qp` initialised to
    `static_config.qp` (EbResourceCoordinationProcess.c:1056): every frame gets exactly `quantizer_to_qindex[qp]`
    and `picture_qp = qp`. -/
theorem cqp_exact (i : RcIn) (hm : i.rcMode = 0) (hf : i.fixedOffsets = 0) (hs : i.qpScaling = 0) (ho : i.onTheFly = 0)
    (hq0 : 0 ≤ i.qp) (hq1 : i.qp ≤ 63) (hp : i.picQp = i.qp) :
    (rcTail i).baseQIdx = q2q i.qp ∧ (rcTail i).pictureQp = i.qp ∧ (rcTail i).branch = 0 := by
  have e : i.qp % 256 = i.qp := Int.emod_eq_of_lt hq0 (by omega)
  unfold rcTail
  simp [hm, hf, hs, ho, hp, e, wrapU32, wrapU8, wrapU]

example : (rcTail ⟨0, 0, 0, 0, 0, 1, 63, 37, 37, 0, 0, 0, 0, 0, 0, 0, 0⟩).baseQIdx = 148 := by decide +kernel

/-- **Fixed qindex offsets** (`use_fixed_qindex_offsets == 1`, mode 0): the index is the configured QP's index plus the
    configured offset of the frame's class (key/intra-only: `key_frame_qindex_offset`; otherwise the temporal layer's
    `qindex_offsets[layer]`), clamped to `[quantizer_to_qindex[min], quantizer_to_qindex[max]]` (a true clamp,
    `max lo (min hi x)`), for offsets that do not overflow `int32`. -/
theorem fixed_offsets_spec (i : RcIn) (hm : i.rcMode = 0) (hf : i.fixedOffsets = 1)
    (h0 : 0 ≤ i.minQp) (h1 : i.minQp ≤ i.maxQp) (h2 : i.maxQp ≤ 63) (hq0 : 0 ≤ i.qp) (hq1 : i.qp ≤ 63)
    (off : Int) (hoff : off = if i.intraOnly = 0 then i.layerOffset else i.keyOffset)
    (ho0 : -(2 ^ 31) ≤ off) (ho1 : off < 2 ^ 31 - 255) :
    (rcTail i).branch = 1 ∧
    (rcTail i).baseQIdx = max (q2q i.minQp) (min (q2q i.maxQp) (q2q i.qp + off)) := by
  have e1 : wrapU32 i.minQp = i.minQp := wrapU32_id _ h0 (by omega)
  have e2 : wrapU32 i.maxQp = i.maxQp := wrapU32_id _ (by omega) (by omega)
  have e3 : wrapU32 i.qp = i.qp := wrapU32_id _ hq0 (by omega)
  have e4 : wrapU8 i.qp = i.qp := wrapU8_id _ hq0 (by omega)
  have hq := q2q_le _ _ h0 h1 h2
  have r1 := q2q_range i.minQp h0 (by omega)
  have r2 := q2q_range i.maxQp (by omega) h2
  have r3 := q2q_range i.qp hq0 hq1
  have hc : ∀ x, wrapU8 (clip3 (q2q i.minQp) (q2q i.maxQp) x) = max (q2q i.minQp) (min (q2q i.maxQp) x) := by
    intro x
    have hb := clip3_bounds (q2q i.minQp) (q2q i.maxQp) x hq
    rw [wrapU8_id _ (by omega) (by omega), clip3_eq_max_min _ _ _ hq]
  have m0 : wrapU32 i.rcMode = 0 := by rw [hm]; decide
  have f1 : wrapU8 i.fixedOffsets = 1 := by rw [hf]; decide
  unfold rcTail
  simp only [m0, f1, e1, e2, e3, e4, if_true]
  refine ⟨trivial, ?_⟩
  rw [hc]
  by_cases hi : i.intraOnly = 0
  · rw [if_pos hi] at hoff ⊢
    subst hoff
    rw [wrapI32_id i.layerOffset ho0 (by omega), wrapI32_id _ (by omega) (by omega)]
  · rw [if_neg hi] at hoff ⊢
    subst hoff
    rw [wrapI32_id i.keyOffset ho0 (by omega), wrapI32_id _ (by omega) (by omega)]

example : (rcTail ⟨0, 1, 0, 0, 0, 1, 63, 20, 20, 20, 1, 5, -100, 3, -7, 0, 0⟩).baseQIdx = 4 := by decide +kernel

/-- Fixed offsets all zero and `min ≤ qp ≤ max`: exactly the configured QP's index. -/
theorem fixed_zero_offsets_exact (i : RcIn) (hm : i.rcMode = 0) (hf : i.fixedOffsets = 1)
    (h0 : 0 ≤ i.minQp) (h1 : i.minQp ≤ i.qp) (h2 : i.qp ≤ i.maxQp) (h3 : i.maxQp ≤ 63)
    (hl : i.layerOffset = 0) (hk : i.keyOffset = 0) :
    (rcTail i).baseQIdx = q2q i.qp := by
  have hoff : (0 : Int) = if i.intraOnly = 0 then i.layerOffset else i.keyOffset := by rw [hl, hk]; simp
  have := (fixed_offsets_spec i hm hf h0 (by omega) h3 (by omega) (by omega) 0 hoff (by decide) (by decide)).2
  rw [this, Int.add_zero]
  have a := q2q_le i.minQp i.qp h0 h1 (by omega)
  have b := q2q_le i.qp i.maxQp (by omega) h2 h3
  omega

/-- qp-on-the-fly (per-picture QP from the application, `use_qp_file`): the index is the table entry of the supplied
    QP clamped to `[min, max]`. -/
theorem on_the_fly_spec (i : RcIn) (hm : i.rcMode = 0) (hf : i.fixedOffsets ≠ 1) (hfr : 0 ≤ i.fixedOffsets ∧ i.fixedOffsets < 256)
    (ho : i.onTheFly = 1)
    (h0 : 0 ≤ i.minQp) (h1 : i.minQp ≤ i.maxQp) (h2 : i.maxQp ≤ 63) (hp : 0 ≤ i.parentPicQp ∧ i.parentPicQp < 256) :
    (rcTail i).branch = 3 ∧ (rcTail i).baseQIdx = q2q (max i.minQp (min i.maxQp i.parentPicQp)) := by
  have e1 : wrapU32 i.minQp = i.minQp := wrapU32_id _ h0 (by omega)
  have e2 : wrapU32 i.maxQp = i.maxQp := wrapU32_id _ (by omega) (by omega)
  have i1 : wrapI32 i.minQp = i.minQp := wrapI32_id _ (by omega) (by omega)
  have i2 : wrapI32 i.maxQp = i.maxQp := wrapI32_id _ (by omega) (by omega)
  have e5 : wrapU8 i.parentPicQp = i.parentPicQp := wrapU8_id _ hp.1 hp.2
  have e6 : wrapU8 i.fixedOffsets = i.fixedOffsets := wrapU8_id _ hfr.1 hfr.2
  have m0 : wrapU32 i.rcMode = 0 := by rw [hm]; decide
  have o1 : wrapU8 i.onTheFly = 1 := by rw [ho]; decide
  have hb := clip3_bounds i.minQp i.maxQp i.parentPicQp h1
  unfold rcTail
  simp only [m0, e1, e2, i1, i2, e5, e6, o1, if_true, if_neg hf]
  rw [if_neg (by intro h; exact absurd h.2 (by decide))]
  rw [wrapU8_id _ (by omega) (by omega), clip3_eq_max_min _ _ _ h1]
  exact ⟨rfl, rfl⟩

/-- **Recode loop**: whatever `q` the recode loop proposes, the re-assigned `base_q_idx` and `picture_qp` stay in bounds. -/
theorem recode_in_bounds (mn mx q : Int) (h0 : 0 ≤ mn) (h1 : mn ≤ mx) (h2 : mx ≤ 63) :
    q2q mn ≤ (recodeClamp mn mx q).1 ∧ (recodeClamp mn mx q).1 ≤ q2q mx ∧
    mn ≤ (recodeClamp mn mx q).2 ∧ (recodeClamp mn mx q).2 ≤ mx := by
  have e1 : wrapU32 mn = mn := wrapU32_id _ h0 (by omega)
  have e2 : wrapU32 mx = mx := wrapU32_id _ (by omega) (by omega)
  unfold recodeClamp
  simp only [e1, e2]
  exact ⟨(clampQidx_bounds _ _ _ h0 h1 h2).1, (clampQidx_bounds _ _ _ h0 h1 h2).2,
         (qpFromQidx_bounds _ _ _ h0 h1 h2).1, (qpFromQidx_bounds _ _ _ h0 h1 h2).2⟩

example : recodeClamp 10 40 255 = (160, 40) := by decide +kernel

/-- `min = max` pins the quantizer: every assigning branch yields exactly that QP's index. -/
theorem min_eq_max_pins (i : RcIn) (h0 : 0 ≤ i.minQp) (h1 : i.minQp = i.maxQp) (h2 : i.maxQp ≤ 63)
    (hb : (rcTail i).branch ≠ 0) : (rcTail i).baseQIdx = q2q i.minQp := by
  have := baseQIdx_in_bounds i h0 (by omega) h2 hb
  rw [← h1] at this
  omega

/-- **The packet's `qp` and the frame header agree.** On every assigning branch the frame-level `picture_qp` (what the output
    packet reports as `qp`, EbPacketizationProcess.c:684) is `CLIP3(min, max, (base_q_idx + 2) >> 2)` of the FINAL `base_q_idx`
    — including the branches that go the other way round (`base_q_idx = quantizer_to_qindex[picture_qp]`), because
    `(quantizer_to_qindex[p] + 2) >> 2 = p` for `p < 63` and `64` for `p = 63`. -/
theorem pictureQp_consistent (i : RcIn) (h0 : 0 ≤ i.minQp) (h1 : i.minQp ≤ i.maxQp) (h2 : i.maxQp ≤ 63)
    (hb : (rcTail i).branch ≠ 0) :
    (rcTail i).pictureQp = clip3 i.minQp i.maxQp (shr ((rcTail i).baseQIdx + 2) 2) := by
  have e1 : wrapU32 i.minQp = i.minQp := wrapU32_id _ h0 (by omega)
  have e2 : wrapU32 i.maxQp = i.maxQp := wrapU32_id _ (by omega) (by omega)
  have i1 : wrapI32 i.minQp = i.minQp := wrapI32_id _ (by omega) (by omega)
  have i2 : wrapI32 i.maxQp = i.maxQp := wrapI32_id _ (by omega) (by omega)
  unfold rcTail at hb ⊢
  simp only [e1, e2, i1, i2] at hb ⊢
  split_ifs at hb ⊢
  all_goals first
    | (exfalso; exact hb rfl)
    | exact qpFromQidx_eq _ _ _ h0 h1 h2
    | exact u8clip_consistent _ _ _ h0 h1 h2

example : (rcTail ⟨2, 0, 1, 0, 0, 10, 63, 50, 50, 50, 0, 0, 0, 0, 0, 0, 200⟩).pictureQp = 63 ∧
    (rcTail ⟨2, 0, 1, 0, 0, 10, 63, 50, 50, 50, 0, 0, 0, 0, 0, 0, 200⟩).baseQIdx = 255 := by decide +kernel

/-- Same for the recode loop. -/
theorem recode_consistent (mn mx q : Int) (h0 : 0 ≤ mn) (h1 : mn ≤ mx) (h2 : mx ≤ 63) :
    (recodeClamp mn mx q).2 = clip3 mn mx (shr ((recodeClamp mn mx q).1 + 2) 2) := by
  have e1 : wrapU32 mn = mn := wrapU32_id _ h0 (by omega)
  have e2 : wrapU32 mx = mx := wrapU32_id _ (by omega) (by omega)
  unfold recodeClamp
  simp only [e1, e2]
  exact qpFromQidx_eq _ _ _ h0 h1 h2

/-! ### Through the API: the generated `copy_api_from_app` / `verify_settings` -/

/-- `effCfg` (hand-written) is the GENERATED `copy_api_from_app` on the four members the tail depends on, for every well-typed
    application configuration and every prior sequence-control-set state. -/
theorem effCfg_is_copyApi (s : Gen.Config.Scs) (c : Gen.Config.Cfg) (hc : c.WellTyped) :
    (Gen.Config.copyApi s c).static_config_min_qp_allowed = (effCfg (apiOf c)).minQp ∧
    (Gen.Config.copyApi s c).static_config_max_qp_allowed = (effCfg (apiOf c)).maxQp ∧
    (Gen.Config.copyApi s c).static_config_enable_qp_scaling_flag = (effCfg (apiOf c)).qpScaling ∧
    (Gen.Config.copyApi s c).static_config_use_qp_file = (effCfg (apiOf c)).useQpFile :=
  effCfg_eq_copyApi s c hc

/-- **C18 for every configuration the library accepts.** Let `c` be any well-typed application configuration that the generated
    `svt_av1_enc_set_parameter` model accepts (operational form: `verify_settings (copy_api_from_app (defaults s0) c)`), from any
    prior handle state `s0`.  Let the tail run with the sequence control set that call produced (its min/max QP, scaling flag and
    fixed-offsets flag), with `qp_on_the_fly ∈ {0,1}` (EbResourceCoordinationProcess.c:1047-1055) and ANY other input — RC mode
    seen by the tail, frame type, layer offsets, upstream `new_qindex` / `picture_qp`.  Then the frame's `base_q_idx` lies between
    `quantizer_to_qindex` of the effective minimum and maximum QP, and those are the application's `min_qp_allowed` /
    `max_qp_allowed` whenever rate control is on, and 1 / 63 in CQP. -/
theorem api_baseQIdx_in_bounds (s0 : Gen.Config.Scs) (c : Gen.Config.Cfg) (hc : c.WellTyped)
    (hacc : Gen.Config.setParameterAcceptsOperational s0 c = true) (i : RcIn)
    (hmin : i.minQp = (Gen.Config.copyApi (Gen.Config.setDefaults s0) c).static_config_min_qp_allowed)
    (hmax : i.maxQp = (Gen.Config.copyApi (Gen.Config.setDefaults s0) c).static_config_max_qp_allowed)
    (hsc : i.qpScaling = (Gen.Config.copyApi (Gen.Config.setDefaults s0) c).static_config_enable_qp_scaling_flag)
    (hfx : i.fixedOffsets = (Gen.Config.copyApi (Gen.Config.setDefaults s0) c).static_config_use_fixed_qindex_offsets)
    (ho : i.onTheFly = 0 ∨ i.onTheFly = 1) :
    q2q i.minQp ≤ (rcTail i).baseQIdx ∧ (rcTail i).baseQIdx ≤ q2q i.maxQp ∧
    i.minQp = (if c.rate_control_mode = 0 then 1 else c.min_qp_allowed) ∧
    i.maxQp = (if c.rate_control_mode = 0 then 63 else c.max_qp_allowed) := by
  have hv := verify_bounds _ hacc
  obtain ⟨f1, f2, f3, _, f5, _, _⟩ := copyApi_qp_fields (Gen.Config.setDefaults s0) c
  obtain ⟨g1, g2, g3, _⟩ := effCfg_eq_copyApi (Gen.Config.setDefaults s0) c hc
  rw [← hmin, ← hmax] at hv
  have mn0 : 0 ≤ i.minQp := by
    rw [hmin, f1]
    have := hc.min_qp_allowed
    split_ifs <;> omega
  have hb : (rcTail i).branch ≠ 0 := by
    apply branch0_unreachable (apiOf c) i (by rw [hsc, g3]) (by rw [hfx, f5]; rfl) ho
  have hbd := baseQIdx_in_bounds i mn0 hv.2.2 hv.1 hb
  refine ⟨hbd.1, hbd.2, ?_, ?_⟩
  · rw [hmin, f1]; by_cases hr : c.rate_control_mode = 0 <;> simp [hr]
  · rw [hmax, f2]; by_cases hr : c.rate_control_mode = 0 <;> simp [hr]

open Gen.Config in
/-- Non-vacuity: the library defaults at 128x64 with VBR and bounds [20, 40] are accepted. -/
example : setParameterAcceptsOperational {}
    { initParam {} with source_width := 128, source_height := 64, rate_control_mode := 1, min_qp_allowed := 20, max_qp_allowed := 40 } = true := by
  decide +kernel

end C18
