/-
  C06 — the encoder's output does not depend on the instruction set it is allowed to use.

  What is proved here (table level; the bit-exactness of the kernels themselves is C07):
  * `select` (mirror of SET_FUNCTIONS) only ever yields the C function or a registered slot whose flag is enabled;
  * with `use_cpu_flags = 0` every pointer is its C function;
  * over the WHOLE generated table (both the build's configuration and the EN_AVX512_SUPPORT=1 one): every pointer
    has a C reference, slots are in increasing ISA order, and a function registered in slot S is named for an ISA ≤ S
    (so allowing "up to SSE2" can never run AVX2 code) — reviewed exceptions in Spec/DispatchAllow.lean;
  * the requested flags are masked with the detected hardware flags before any pointer is assigned;
  * congruence: if every registered SIMD function is extensionally equal to its C reference (= C07), an encoder whose
    only access to kernels is through the resolved pointers produces the same output for any two flag sets.
-/
import SvtVerif.Lemmas.Dispatch

namespace C06
open _root_.Dispatch Gen.Dispatch Spec.DispatchAllow DispatchLemmas

/-! ### `select` mirrors SET_FUNCTIONS -/

/-- The pointer ends up as the C function or as a registered slot whose CPU flag is set in `flags`:
    SET_FUNCTIONS can never install anything else. -/
theorem select_mem (f : Nat) (e : Entry) :
    select f e = e.c ∨ ∃ s ∈ e.slots, f.testBit s.1 = true ∧ select f e = some s.2 :=
  foldl_step_mem f e.slots e.c

/-- `use_cpu_flags = 0` ("C only"): every pointer is its C reference. -/
theorem flags0_selects_c (e : Entry) : select 0 e = e.c := foldl_step_zero e.slots e.c

/-- More generally: if none of the entry's slot flags is enabled the C function is selected. -/
theorem no_enabled_slot_selects_c (f : Nat) (e : Entry) (h : ∀ s ∈ e.slots, f.testBit s.1 = false) :
    select f e = e.c := by
  rcases select_mem f e with h0 | ⟨s, hs, hb, _⟩
  · exact h0
  · rw [h s hs] at hb; cases hb

example : select 0 { ptr := name! "p", c := some (name! "p_c"), slots := [(2, name! "p_sse2"), (8, name! "p_avx2")] }
    = some (name! "p_c") := by decide
example : select 4 { ptr := name! "p", c := some (name! "p_c"), slots := [(2, name! "p_sse2"), (8, name! "p_avx2")] }
    = some (name! "p_sse2") := by decide
example : select 511 { ptr := name! "p", c := some (name! "p_c"), slots := [(2, name! "p_sse2"), (8, name! "p_avx2")] }
    = some (name! "p_avx2") := by decide

/-! ### Obligations over the whole generated table (finite: `decide`, evaluated by the kernel) -/

/-- Every registration has a C reference whose name is not instruction-set specific (reviewed exception: the one
    pointer of `noCAllow`).  Holds for the build's table and for the EN_AVX512_SUPPORT=1 table. -/
theorem dispatch_c_present : ∀ e ∈ table ++ table512, cOk noCAllow e = true :=
  fun _ he => (entry_ok he).1

/-- A function registered in slot `S` is named for an instruction set ≤ `S` (or is on the reviewed allow-list):
    e.g. an `_avx2` function in the SSE2 slot would execute AVX2 code when only SSE2 is allowed. -/
theorem dispatch_slot_sound : ∀ e ∈ table ++ table512, ∀ s ∈ e.slots, slotOk slotAllow s = true :=
  fun _ he s hs => List.all_eq_true.mp (entry_ok he).2.1 s hs

/-- Slots are tested in strictly increasing flag order and only MMX..AVX512F are tested, so "later overrides
    earlier" means "the highest enabled instruction set wins". -/
theorem dispatch_slots_sorted : ∀ e ∈ table ++ table512, slotsSorted e.slots = true :=
  fun _ he => (entry_ok he).2.2

/-- In the build's configuration no AVX-512 function is registered at all. -/
theorem build_has_no_avx512 : ∀ e ∈ table, ∀ s ∈ e.slots, s.1 ≤ AVX2 := by
  have h : table.all (fun e => e.slots.all (fun s => decide (s.1 ≤ AVX2))) = true := by decide +kernel
  intro e he s hs
  exact of_decide_eq_true (List.all_eq_true.mp (List.all_eq_true.mp h e he) s hs)

/-- The allow-lists are not vacuous padding: every listed name occurs in the table. -/
theorem allow_lists_used :
    (slotAllow.all fun n => table.any fun e => e.slots.any fun s => s.2 == n) = true ∧
    (noCAllow.all fun n => table.any fun e => e.ptr == n && e.c.isNone) = true := by
  constructor <;> decide +kernel

/-- Consequence of the two facts above: whatever flags are passed, the function a table pointer resolves to is the C
    reference, a reviewed allow-listed function, or a function named for an ISA `i` with some enabled flag `≥ i`. -/
theorem selected_isa_enabled (f : Nat) (e : Entry) (he : e ∈ table ++ table512) (fn : FnName)
    (hsel : select f e = some fn) :
    e.c = some fn ∨ fn ∈ slotAllow ∨ ∃ i bit, nameIsa fn = some i ∧ i ≤ bit ∧ f.testBit bit = true := by
  rcases select_mem f e with h | ⟨s, hs, hb, h⟩
  · left; rw [← h, hsel]
  · have hfn : s.2 = fn := by rw [hsel] at h; exact (Option.some.inj h).symm
    have hok := dispatch_slot_sound e he s hs
    simp only [slotOk, Bool.or_eq_true, List.contains_iff_mem] at hok
    rcases hok with hisa | hal
    · right; right
      cases hn : nameIsa s.2 with
      | none => rw [hn] at hisa; cases hisa
      | some i =>
        rw [hn] at hisa
        exact ⟨i, s.1, by rw [← hfn]; exact hn, of_decide_eq_true hisa, hb⟩
    · right; left; rw [← hfn]; exact hal

/-! ### The requested flags are masked with the hardware's -/

/-- (generated facts) `flags &= get_cpu_flags_to_use()` is the first effective statement of both
    `setup_common_rtcd_internal` and `setup_rtcd_internal`; `svt_av1_enc_init` masks `use_cpu_flags` the same way
    (EbEncHandle.c:660) and passes it to both setup functions; the decoder passes `get_cpu_flags_to_use()`;
    the build's `get_cpu_flags_to_use` removes the AVX-512 flags. -/
theorem mask_applied :
    commonMasked = true ∧ encMasked = true ∧ maskSites.all (·.2) = true ∧ toUseMask = 2 ^ AVX512F - 1 := by
  decide +kernel

/-- After the masking a SIMD function is selected only through a slot whose flag was requested by the caller,
    is reported by the hardware and is allowed by the build. -/
theorem masked_select_on_hw (toUse hw req : Nat) (e : Entry) :
    select (maskApplied toUse hw req) e = e.c ∨
      ∃ s ∈ e.slots, req.testBit s.1 = true ∧ hw.testBit s.1 = true ∧ toUse.testBit s.1 = true ∧
        select (maskApplied toUse hw req) e = some s.2 := by
  rcases select_mem (maskApplied toUse hw req) e with h | ⟨s, hs, hb, h⟩
  · exact Or.inl h
  · have h1 := testBit_and_true hb
    have h2 := testBit_and_true h1.2
    exact Or.inr ⟨s, hs, h1.1, h2.1, h2.2, h⟩

example : maskApplied 511 0x1ff 0xffff = 0x1ff := by decide
example : maskApplied 511 0xffff 0xffff = 511 := by decide   -- AVX-512 hardware, build without AVX-512
example : maskApplied 511 0x7f 0x1ff = 0x7f := by decide     -- AVX2 requested, hardware stops at SSE4.2

/-! ### The pointer without C reference -/

/-- `svt_cdef_filter_block_8x8_16` (no C function) is non-NULL whenever `svt_cdef_filter_block` resolves to the AVX2
    implementation, its only caller. -/
theorem noC_pointer_guarded (f : Nat) :
    ∃ e8 eb, find? table (name! "svt_cdef_filter_block_8x8_16") = some e8 ∧
      find? table (name! "svt_cdef_filter_block") = some eb ∧
      (select f eb = some (name! "svt_cdef_filter_block_avx2") → (select f e8).isSome = true) ∧
      (select f e8 = none → select f eb = eb.c) := by
  refine ⟨{ ptr := name! "svt_cdef_filter_block_8x8_16", c := none, slots := [(8, name! "svt_cdef_filter_block_8x8_16_avx2")], line := 0 },
          { ptr := name! "svt_cdef_filter_block", c := some (name! "svt_cdef_filter_block_c"), slots := [(8, name! "svt_cdef_filter_block_avx2")], line := 510 },
          by decide +kernel, by decide +kernel, ?_, ?_⟩
  · intro _
    cases hb : f.testBit 8 <;> simp_all [select, step]
  · cases hb : f.testBit 8 <;> simp [select, step, hb]

/-! ### Congruence: C07 ⇒ C06 -/

section Congruence
variable {I O Out : Type}

/-- What the encoder can see of the kernels: for each dispatch pointer the behaviour of the function it resolves to
    (`sem` = the input/output behaviour of each named function; `none` = NULL pointer / not a table pointer). -/
def resolved (sem : FnName → I → O) (tbl : List Entry) (f : Nat) (p : FnName) : Option (I → O) :=
  (find? tbl p).bind fun e => (select f e).map sem

/-- C07 for a table: every registered SIMD function behaves exactly like the entry's C reference. -/
def KernelsBitExact (sem : FnName → I → O) (tbl : List Entry) : Prop :=
  ∀ e ∈ tbl, ∀ s ∈ e.slots, ∃ c, e.c = some c ∧ sem s.2 = sem c

/-- If every SIMD kernel is a bit-exact drop-in for its C reference (C07), then an encoder that reaches the kernels
    only through the resolved dispatch pointers (`enc` is an arbitrary function of the resolved table: all the
    rest of the encoder, its inputs and configuration are inside `enc`) produces the same output for ANY two
    `use_cpu_flags` values.  What this does not cover: code that calls a SIMD function directly, reads
    `use_cpu_flags` elsewhere, or depends on CPU state not captured by `sem` (e.g. FP rounding mode). -/
theorem output_indep_of_flags (sem : FnName → I → O) (tbl : List Entry) (hC07 : KernelsBitExact sem tbl)
    (enc : (FnName → Option (I → O)) → Out) (f₁ f₂ : Nat) :
    enc (resolved sem tbl f₁) = enc (resolved sem tbl f₂) := by
  have key : ∀ f, resolved sem tbl f = fun p => (find? tbl p).bind fun e => e.c.map sem := by
    intro f; funext p
    simp only [resolved]
    cases hfe : find? tbl p with
    | none => rfl
    | some e =>
      simp only [Option.bind_some]
      rcases select_mem f e with h | ⟨s, hs, _, h⟩
      · rw [h]
      · obtain ⟨c, hc, hsem⟩ := hC07 e (mem_of_find hfe) s hs
        rw [h, hc]; simp [hsem]
  rw [key f₁, key f₂]

/-- non-vacuity: the hypothesis is satisfiable on the real table (take a semantics that ignores the variant suffix,
    here the constant one), and the entries with a C reference are all of the table but one. -/
example : KernelsBitExact (fun _ (_ : Unit) => ()) (table.filter fun e => e.c.isSome) := by
  intro e he s _
  have : e.c.isSome = true := (List.mem_filter.mp he).2
  cases hc : e.c with
  | none => rw [hc] at this; cases this
  | some c => exact ⟨c, rfl, rfl⟩

end Congruence

example : table.length = 781 := by decide +kernel
example : (table.filter fun e => e.c.isSome).length = 780 := by decide +kernel

end C06
