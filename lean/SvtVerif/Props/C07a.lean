/-
  C07 (part a) — "every SIMD kernel is a bit-exact drop-in for its C reference", for
    K1  svt_residual_kernel8bit_avx2            vs svt_residual_kernel8bit_c
    K3  svt_picture_average_kernel_sse2_intrin  vs svt_picture_average_kernel_c
  Models: SvtVerif/Model/SimdKernelsA.lean (intrinsic by intrinsic, file:line in comments) over the lane-level
  intrinsics of SvtVerif/Model/Simd.lean (each validated against the real instruction by harness/simd_ops_a.c).
  Equalities are between the WHOLE output buffers as functions `Nat → BitVec k`: they also say that the SIMD code
  writes nothing outside what the C code writes.  Assumption of the models: the output buffer does not alias the inputs.
-/
import SvtVerif.Lemmas.SimdAAvg

namespace C07
open Simd

/-! ## lane facts -/

/-- `_mm256_sub_epi16(_mm256_unpacklo_epi8(a, 0), _mm256_unpacklo_epi8(b, 0))`, one lane: the wrap-around 16-bit difference
    of the two zero-extended bytes IS the C expression `(int16_t)a - (int16_t)b` stored into an `int16_t`
    (EbPictureOperators.c:138). -/
theorem sub_epi16_lane_eq_c (x y : BitVec 8) : le16 x 0 - le16 y 0 = residC x y := (residC_eq x y).symm

/-- `_mm_avg_epu8`, one lane: `avg8 x y` (9-bit sum, +1, >>1) IS the C expression `(src0[i] + src1[i] + 1) >> 1`
    computed in `int` and truncated to `uint8_t` (EbPictureOperators_C.c:24). -/
theorem avg_epu8_lane_eq_c (x y : BitVec 8) : avg8 x y = avgC x y := avg8_eq_avgC x y

/-! ## K1 — svt_residual_kernel8bit -/

/-- Valid domain of `svt_residual_kernel8bit_avx2(.., residual_stride = rs, area_width = w, area_height = h)`:
    * `w ∈ {4, 8, 16, 32, 64, 128}` (the `switch`; any other width runs the 128 kernel),
    * `1 ≤ h < 2^32` (`uint32_t`), `h` a multiple of 4 for `w ∈ {4, 8}` and of 2 for `w = 16`
      (`do { … y -= 4 } while (y)`: any other height wraps `y` around 2^32),
    * for `w = 8` only: `rs ≥ 8`.  `residual_kernel8_avx2` stores the rows of a 4-row group in the order 0, 2, 1, 3, so
      when rows overlap (`rs < 8`) the final memory differs from the C code (see `residual8bit_avx2_w8_overlap_differs`).
      All other widths store in the C order and need no condition on any stride. -/
def validDomainResid (w h rs : Nat) : Prop :=
  0 < h ∧ h < 2 ^ 32 ∧
    ((w = 4 ∧ h % 4 = 0) ∨ (w = 8 ∧ h % 4 = 0 ∧ 8 ≤ rs) ∨ (w = 16 ∧ h % 2 = 0) ∨ w = 32 ∨ w = 64 ∨ w = 128)

/-- **K1.**  On the valid domain `svt_residual_kernel8bit_avx2` leaves the residual buffer in exactly the state
    `svt_residual_kernel8bit_c` leaves it in — every element of the buffer, inside and outside the `w×h` area — for
    every height (induction over the row loop), all six widths, all input/pred strides, all start offsets, all sample
    values and all previous buffer contents. -/
theorem residual8bit_avx2_eq_c {w h rs : Nat} (hd : validDomainResid w h rs) :
    ∀ (inp pred : Mem 8) (is ps ia pa ra : Nat) (res : Mem 16),
      resid8_avx2 inp is ia pred ps pa res rs ra w h = resid8_c inp is ia pred ps pa res rs ra w h := by
  intro inp pred is ps ia pa ra res
  obtain ⟨hpos, hlt, hw⟩ := hd
  rw [resid8_c_eq]
  unfold resid8_avx2
  rcases hw with ⟨rfl, h4⟩ | ⟨rfl, h4, hrs⟩ | ⟨rfl, h2⟩ | rfl | rfl | rfl
  · exact doWhileRows_eq inp is pred ps rs 4 4 (by omega) _ (block4 inp is pred ps rs) (h / 4 - 1) h h ia pa ra ⟨res⟩
      (by omega) hlt (by omega)
  · exact doWhileRows_eq inp is pred ps rs 8 4 (by omega) _ (fun ia pa ra res => block8 inp is pred ps rs ia pa ra res hrs)
      (h / 4 - 1) h h ia pa ra ⟨res⟩ (by omega) hlt (by omega)
  · exact doWhileRows_eq inp is pred ps rs 16 2 (by omega) _ (block16 inp is pred ps rs) (h / 2 - 1) h h ia pa ra ⟨res⟩
      (by omega) hlt (by omega)
  · exact doWhileRows_eq inp is pred ps rs 32 1 (by omega) _ (block32 inp is pred ps rs) (h - 1) h h ia pa ra ⟨res⟩
      (by omega) hlt (by omega)
  · exact doWhileRows_eq inp is pred ps rs 64 1 (by omega) _ (block64 inp is pred ps rs) (h - 1) h h ia pa ra ⟨res⟩
      (by omega) hlt (by omega)
  · exact doWhileRows_eq inp is pred ps rs 128 1 (by omega) _ (block128 inp is pred ps rs) (h - 1) h h ia pa ra ⟨res⟩
      (by omega) hlt (by omega)

example : validDomainResid 4 8 0 := by unfold validDomainResid; omega
example : validDomainResid 8 4 8 := by unfold validDomainResid; omega
example : validDomainResid 16 2 3 := by unfold validDomainResid; omega
example : validDomainResid 128 1 0 := by unfold validDomainResid; omega
/-- the theorem is about non-trivial values: a 4×4 block with input 0 and pred 1 gives -1 = 0xffff -/
example : resid8_avx2 (fun _ => 0) 4 0 (fun _ => 1) 4 0 (fun _ => 0) 4 0 4 4 15 = 0xffff#16 := by decide

/-- **K1, excluded point.**  Width 8 with overlapping residual rows (`residual_stride = 4 < 8`): the AVX2 kernel and the C
    kernel leave DIFFERENT buffers (element 8 is row 2 col 0 in C order but row 1 col 4 in the AVX2 store order 0,2,1,3).
    The encoder never calls the kernel with `residual_stride < area_width`. -/
theorem residual8bit_avx2_w8_overlap_differs :
    resid8_avx2 (fun i => BitVec.ofNat 8 i) 8 0 (fun _ => 0) 8 0 (fun _ => 0) 4 0 8 4
      ≠ resid8_c (fun i => BitVec.ofNat 8 i) 8 0 (fun _ => 0) 8 0 (fun _ => 0) 4 0 8 4 := by
  intro h
  have h8 := congrFun h 8
  revert h8
  decide

/-! ## K3 — svt_picture_average_kernel -/

/-- Valid domain of `svt_picture_average_kernel_sse2_intrin(.., area_width = w, area_height = h)`:
    `w = 4` or `w = 8` with `h` even (two rows per iteration; `assert((area_height & 1) == 0)`), or `w ≥ 16` a multiple of 4
    (`assert((area_width & 3) == 0)`) with ANY height.  `w = 12` is excluded: see `picture_average_sse2_width12_noop`.
    No condition on any stride: every path stores in the C order. -/
def validDomainAvg (w h : Nat) : Prop :=
  (w = 4 ∧ h % 2 = 0) ∨ (w = 8 ∧ h % 2 = 0) ∨ (16 ≤ w ∧ w % 4 = 0)

/-- **K3.**  On the valid domain `svt_picture_average_kernel_sse2_intrin` leaves the destination buffer in exactly the state
    `svt_picture_average_kernel_c` leaves it in (every byte, inside and outside the area), for every width that is a
    multiple of 4 and ≥ 16 (induction over the 16-byte column loop, then the `& 8` and `& 4` tails), widths 4 and 8, every
    (even, for 4/8) height, all strides, offsets, sample values and previous buffer contents. -/
theorem picture_average_sse2_eq_c {w h : Nat} (hd : validDomainAvg w h) :
    ∀ (s0 s1 : Mem 8) (st0 st1 ds a0 a1 da : Nat) (dst : Mem 8),
      avg_sse2 s0 st0 a0 s1 st1 a1 dst ds da w h = avg_c s0 st0 a0 s1 st1 a1 dst ds da w h := by
  intro s0 s1 st0 st1 ds a0 a1 da dst
  rw [avg_c_eq]
  rcases hd with ⟨rfl, h2⟩ | ⟨rfl, h2⟩ | ⟨h16, h4⟩
  · have e : h = 2 * (h / 2) := by omega
    simp only [avg_sse2, show ¬ (4 ≥ 16) by omega, if_false, if_true]
    rw [avg_sse2_rows2_eq 4 s0 st0 s1 st1 ds h (fun a0 a1 da dst => chunk4 s0 a0 s1 a1 dst da) (h / 2) h 0 a0 a1 da dst
      (by omega) (by omega), ← e]
  · have e : h = 2 * (h / 2) := by omega
    simp only [avg_sse2, show ¬ (8 ≥ 16) by omega, show ¬ (8 = 4) by omega, if_false, if_true]
    rw [avg_sse2_rows2_eq 8 s0 st0 s1 st1 ds h (fun a0 a1 da dst => chunk8 s0 a0 s1 a1 dst da) (h / 2) h 0 a0 a1 da dst
      (by omega) (by omega), ← e]
  · simp only [avg_sse2, show w ≥ 16 from h16, if_true]
    rw [avg_sse2_rows16_eq s0 st0 s1 st1 ds w h h4 h 0 a0 a1 da dst (by omega)]
    simp

example : validDomainAvg 4 2 := by unfold validDomainAvg; omega
example : validDomainAvg 8 0 := by unfold validDomainAvg; omega
example : validDomainAvg 28 3 := by unfold validDomainAvg; omega
example : validDomainAvg 1000 1 := by unfold validDomainAvg; omega
/-- non-trivial values: rounding up, (1 + 2 + 1) >> 1 = 2, and no 8-bit overflow, (255 + 255 + 1) >> 1 = 255 -/
example : avg_sse2 (fun _ => 1) 4 0 (fun _ => 2) 4 0 (fun _ => 0) 4 0 4 2 7 = 2#8 := by decide
example : avg_sse2 (fun _ => 255) 20 0 (fun _ => 255) 20 0 (fun _ => 0) 20 0 20 1 19 = 255#8 := by decide

/-- **K3, excluded width.**  For `8 < area_width < 16` (12 is the only multiple of 4) the SSE2 function takes no branch and
    writes NOTHING, for any height and any inputs. -/
theorem picture_average_sse2_width12_noop (s0 s1 : Mem 8) (st0 st1 ds a0 a1 da h : Nat) (dst : Mem 8) :
    avg_sse2 s0 st0 a0 s1 st1 a1 dst ds da 12 h = dst := by
  simp [avg_sse2]

/-- … whereas the C reference averages: concrete witness (12×1 block of 2s over a zero buffer). -/
theorem picture_average_sse2_width12_differs :
    avg_sse2 (fun _ => 2) 12 0 (fun _ => 2) 12 0 (fun _ => 0) 12 0 12 1
      ≠ avg_c (fun _ => 2) 12 0 (fun _ => 2) 12 0 (fun _ => 0) 12 0 12 1 := by
  intro h
  have h0 := congrFun h 0
  revert h0
  decide

/-- **K3, excluded heights.**  Width 4 with an odd height: the SSE2 loop `for (y = 0; y < area_height; y += 2)` processes
    `area_height + 1` rows — one row more than the C code (here: byte 4 = row 1, which C leaves untouched). -/
theorem picture_average_sse2_odd_height_differs :
    avg_sse2 (fun _ => 2) 4 0 (fun _ => 2) 4 0 (fun _ => 0) 4 0 4 1
      ≠ avg_c (fun _ => 2) 4 0 (fun _ => 2) 4 0 (fun _ => 0) 4 0 4 1 := by
  intro h
  have h4 := congrFun h 4
  revert h4
  decide

/-! ## K4 — svt_picture_average_kernel1_line (extra) -/

/-- Valid domain of `svt_picture_average_kernel1_line_sse2_intrin(src0, src1, dst, area_width = w)`: exactly the six widths
    the branches are written for.  (Any other width > 16 runs the 64-byte branch, any other width ≤ 16 the 12-byte branch.) -/
def validDomainAvg1 (w : Nat) : Prop := w = 4 ∨ w = 8 ∨ w = 12 ∨ w = 16 ∨ w = 32 ∨ w = 64

/-- **K4.**  For widths 4, 8, 12, 16, 32, 64 `svt_picture_average_kernel1_line_sse2_intrin` leaves the destination buffer in
    exactly the state `svt_picture_average_kernel1_line_c` leaves it in (`(a + b + 1) / 2` per byte), for all offsets,
    values and previous contents. -/
theorem picture_average1_line_sse2_eq_c {w : Nat} (hd : validDomainAvg1 w) :
    ∀ (s0 s1 : Mem 8) (a0 a1 da : Nat) (dst : Mem 8),
      avg1_sse2 s0 a0 s1 a1 dst da w = avg1_c s0 a0 s1 a1 dst da w := by
  intro s0 s1 a0 a1 da dst
  rw [avg1_c_eq]
  rcases hd with rfl | rfl | rfl | rfl | rfl | rfl
  · simp [avg1_sse2, chunk4]
  · simp [avg1_sse2, chunk8]
  · exact avg1_sse2_12 s0 a0 s1 a1 dst da
  · simp [avg1_sse2, chunk16]
  · exact avg1_sse2_32 s0 a0 s1 a1 dst da
  · exact avg1_sse2_64 s0 a0 s1 a1 dst da

example : validDomainAvg1 64 := by unfold validDomainAvg1; omega
example : avg1_sse2 (fun _ => 3) 0 (fun _ => 4) 0 (fun _ => 0) 0 8 7 = 4#8 := by decide

/-- **K4, excluded widths.**  Width 48 (> 16, not 32) takes the 64-byte branch: the SSE2 code writes bytes 48..63, which the
    C code leaves untouched. -/
theorem picture_average1_line_sse2_width48_differs :
    avg1_sse2 (fun _ => 2) 0 (fun _ => 2) 0 (fun _ => 0) 0 48 ≠ avg1_c (fun _ => 2) 0 (fun _ => 2) 0 (fun _ => 0) 0 48 := by
  intro h
  have h50 := congrFun h 50
  revert h50
  decide

end C07
