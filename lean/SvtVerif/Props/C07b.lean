/-
  C07 (part B) — "every SIMD kernel is a bit-exact drop-in for its C reference", for the 32-bit full-distortion kernels.

  Kernels (models in SvtVerif/Model/SimdKernelsB.lean, transcribed intrinsic by intrinsic over the byte-level register
  model of SvtVerif/Model/Simd.lean):
    K2a svt_full_distortion_kernel32_bits_c    (EbPictureOperators.c:156-180)
        svt_full_distortion_kernel32_bits_avx2 (EbPictureOperators_Intrinsic_AVX2.c:1242-1291)
    K2b svt_full_distortion_kernel_cbf_zero32_bits_c    (EbPictureOperators.c:212-231)
        svt_full_distortion_kernel_cbf_zero32_bits_avx2 (EbPictureOperators_Intrinsic_AVX2.c:1293-1325)

  RESULT.  K2b is a bit-exact drop-in on its whole domain.  K2a is NOT: the prediction distortion (result[1]) always
  agrees, but the residual distortion (result[0]) is accumulated with `_mm256_add_epi32` (line 1268) on 64-bit products,
  so in each of the four qword lanes the carry from the low dword into the high dword is lost.  The theorems below give
  the exact closed form of what the AVX2 code computes, the exact condition under which it agrees with C, a concrete
  in-domain counterexample, and input bounds under which the defect is unreachable.

  Vocabulary (`Simd.Blk`, SvtVerif/Lemmas/SimdB4.lean, SimdB5.lean): a block `b` bundles the kernel arguments
  (coeff buffer/base/stride, recon buffer/base/stride, area_width `w`, area_height `h`);
    `b.c j i`, `b.r j i` = coeff / recon_coeff at row j, column i;  `b.d j i` = their difference (an integer);
    `b.sq j i = (b.d j i)^2`, `b.sqc j i = (b.c j i)^2`,  `b.sqLow j i` = (sign-extended low dword of the 64-bit difference)^2;
    `b.blockSum F` = Σ_{j<h} Σ_{i<w} F j i;   `b.laneSum l F` = Σ_{j<h} Σ_{g<w/4} F j (4g+l)  (the elements of qword lane l);
    `b.InDomain` : w a positive multiple of 4, h ≥ 1, both < 2^32 (uint32_t);
    `b.runC`, `b.runAvx2` : the two values written to distortion_result[0..1] by the models (`runAvx2 = none` = fuel
    exhausted, impossible in the domain: the theorems prove `some`).
-/
import SvtVerif.Lemmas.SimdB5

namespace C07
open Simd

/-! ### what the two kernels compute -/

/-- The C reference computes exactly Σ (coeff-recon)^2 and Σ coeff^2, mod 2^64 — for every width/height/stride and all
    int32 inputs (no domain restriction). -/
theorem fullDist32_c_closed_form (b : Blk) :
    b.runC.1.toNat = b.blockSum b.sq % 2 ^ 64 ∧ b.runC.2.toNat = b.blockSum b.sqc % 2 ^ 64 :=
  runC_toNat b

/-- Closed form of the AVX2 kernel on its whole domain, for ALL int32 inputs: it terminates and
    result[1] = Σ coeff^2 mod 2^64, but
    result[0] = Σ_{lane l<4} [ (Σ_lane lo32(p)) mod 2^32 + 2^32 · ((Σ_lane hi32(p)) mod 2^32) ]  mod 2^64,
    where p = (sign-extended low dword of (coeff-recon))^2 is the `_mm256_mul_epi32` product (`b.laneVal l` is the bracket).
    I.e. each qword lane of `sum1` behaves as two independent 32-bit counters. -/
theorem fullDist32_avx2_closed_form (b : Blk) (hd : b.InDomain) :
    ∃ r, b.runAvx2 = some r ∧
      r.1.toNat = (b.laneVal 0 + b.laneVal 1 + b.laneVal 2 + b.laneVal 3) % 2 ^ 64 ∧
      r.2.toNat = b.blockSum b.sqc % 2 ^ 64 :=
  runAvx2_toNat b hd

/-- the 4x4 block with coeff = 33000 everywhere and recon = 0 (confirmed on the real library: C 17424000000, AVX2 244130816) -/
def witness33000 : Blk :=
  { coeff := fun _ => 33000#32, cp := 0, cs := 4, recon := fun _ => 0#32, rp := 0, rs := 4, w := 4, h := 4 }

/-- the smallest kind of divergence: 4 wide, 2 high, a single lane with coeff-recon = 46341 (46341^2 > 2^31) in both rows -/
def witness4x2 : Blk :=
  { coeff := fun i => if i % 4 = 0 then 46341#32 else 0#32, cp := 0, cs := 4, recon := fun _ => 0#32, rp := 0, rs := 4,
    w := 4, h := 2 }

theorem witness33000_inDomain : witness33000.InDomain := by unfold Blk.InDomain; decide
theorem witness4x2_inDomain : witness4x2.InDomain := by unfold Blk.InDomain; decide

example : ∃ b : Blk, b.InDomain := ⟨witness33000, witness33000_inDomain⟩

/-! ### K2a prediction distortion: always equal -/

/-- `distortion_result[DIST_CALC_PREDICTION]` of the AVX2 kernel equals the C reference for ALL int32 inputs, all widths that
    are a positive multiple of 4, all heights ≥ 1, all strides (arithmetic mod 2^64 on both sides). -/
theorem fullDist32_prediction_eq (b : Blk) (hd : b.InDomain) : ∃ r, b.runAvx2 = some r ∧ r.2 = b.runC.2 :=
  prediction_eq b hd

example : ∃ r, witness33000.runAvx2 = some r ∧ r.2 = witness33000.runC.2 :=
  fullDist32_prediction_eq _ witness33000_inDomain

/-! ### K2a residual distortion: equal exactly when no lane carries -/

/-- `distortion_result[DIST_CALC_RESIDUAL]` (and hence the whole result) of the AVX2 kernel equals the C reference if
    (1) `SubFits`: every coeff-recon fits in int32 (so `_mm256_mul_epi32`, which reads only the low dword, squares the true
        difference), and
    (2) `NoLaneCarry`: for each of the 4 column lanes l, Σ over the lane's elements of ((coeff-recon)^2 mod 2^32) < 2^32,
        i.e. the 32-bit low-dword counter of the lane never wraps. -/
theorem fullDist32_residual_eq_of_noCarry (b : Blk) (hd : b.InDomain) (hs : b.SubFits) (hc : b.NoLaneCarry) :
    b.runAvx2 = some b.runC :=
  eq_of_noCarry b hd hs hc

/-- ... and the condition is EXACT: for blocks with at most 2^30 elements per lane (any real block) and differences that
    fit in int32, the AVX2 kernel agrees with C if and only if no lane carries.  So every input with a lane whose low-dword
    sum reaches 2^32 is a counterexample. -/
theorem fullDist32_eq_iff_noCarry (b : Blk) (hd : b.InDomain) (hs : b.SubFits) (hsize : b.h * (b.w / 4) ≤ 2 ^ 30) :
    b.runAvx2 = some b.runC ↔ b.NoLaneCarry :=
  ⟨noCarry_of_eq b hd hs hsize, eq_of_noCarry b hd hs⟩

/-- a block on which the hypotheses hold: 4x4, coeff - recon = 100 everywhere -/
def smallBlock : Blk :=
  { coeff := fun _ => 100#32, cp := 0, cs := 4, recon := fun _ => 0#32, rp := 0, rs := 4, w := 4, h := 4 }

/-- Input-level sufficient condition: if in every column lane the true sum Σ_lane (coeff-recon)^2 is below 2^32, the kernels
    agree (this implies both SubFits and NoLaneCarry). -/
theorem fullDist32_eq_of_laneSq_lt (b : Blk) (hd : b.InDomain) (h : ∀ l, l < 4 → b.laneSum l b.sq < 2 ^ 32) :
    b.runAvx2 = some b.runC :=
  eq_of_laneSq b hd h

/-- Bound form: if |coeff-recon| ≤ D for every element and (elements per lane) · D^2 < 2^32, where elements per lane =
    h · w/4, the kernels agree.  Safe D per block size (w×h, N = w·h/4 per lane, D_max = ⌈sqrt(2^32/N)⌉-1):
      4x4 (N=4): D ≤ 32767;  8x8 (16): 16383;  16x16 (64): 8191;  32x32 (256): 4095  (64x64 is clipped to 32x32 by the
      caller, EbPictureOperators.c:250-251);  4x16/16x4 (16): 16383;  8x32/32x8 (64): 8191;  16x32 (128): 5792;
      64x16 -> 32x16 (128): 5792. -/
theorem fullDist32_eq_of_bound (b : Blk) (hd : b.InDomain) (D : Nat)
    (hD : ∀ j i, j < b.h → i < b.w → (b.d j i).natAbs ≤ D) (hN : b.h * (b.w / 4) * D ^ 2 < 2 ^ 32) :
    b.runAvx2 = some b.runC :=
  eq_of_bound b hd D hD hN

theorem smallBlock_inDomain : smallBlock.InDomain := by unfold Blk.InDomain; decide

/-- non-vacuity of the bound hypothesis (D = 100, 4 elements per lane) -/
example : smallBlock.runAvx2 = some smallBlock.runC :=
  fullDist32_eq_of_bound smallBlock smallBlock_inDomain 100
    (fun j i _ _ => by simp [Blk.d, Blk.c, Blk.r, smallBlock]) (by decide)

/-- non-vacuity of `fullDist32_eq_of_laneSq_lt`, `fullDist32_residual_eq_of_noCarry` and of the `←` direction of the iff:
    smallBlock satisfies SubFits and NoLaneCarry -/
theorem smallBlock_laneSq : ∀ l, l < 4 → smallBlock.laneSum l smallBlock.sq < 2 ^ 32 := by
  intro l hl
  have : l = 0 ∨ l = 1 ∨ l = 2 ∨ l = 3 := by omega
  rcases this with rfl | rfl | rfl | rfl <;> decide

example : smallBlock.SubFits ∧ smallBlock.NoLaneCarry :=
  ⟨subFits_of_laneSq _ smallBlock_inDomain smallBlock_laneSq,
   (fullDist32_eq_iff_noCarry _ smallBlock_inDomain (subFits_of_laneSq _ smallBlock_inDomain smallBlock_laneSq)
      (by decide)).1 (fullDist32_eq_of_laneSq_lt _ smallBlock_inDomain smallBlock_laneSq)⟩

/-- the safe bounds of the table are tight: D = 32768 on a 4x4 block already violates the hypothesis -/
example : ¬ (4 * (4 / 4) * 32768 ^ 2 < 2 ^ 32) ∧ 4 * (4 / 4) * 32767 ^ 2 < 2 ^ 32 ∧ 32 * (32 / 4) * 4095 ^ 2 < 2 ^ 32
    ∧ ¬ (32 * (32 / 4) * 4096 ^ 2 < 2 ^ 32) := by decide

/-! ### K2a: the AVX2 kernel is NOT a drop-in replacement — concrete in-domain witnesses -/

set_option maxRecDepth 100000 in
/-- Evaluation of the two byte-level models on the 4x4 / 33000 block: C gives residual 17424000000 = 16·33000^2,
    the AVX2 model gives 244130816 = 17424000000 - 4·2^32 (four lost carries, one per lane); prediction equal. -/
theorem fullDist32_witness33000_values :
    witness33000.runC = (17424000000#64, 17424000000#64) ∧
    witness33000.runAvx2 = some (244130816#64, 17424000000#64) := by
  constructor <;> decide

/-- The defect: there is a block inside the domain (4x4, all differences 33000 — far below int32 range) on which
    `svt_full_distortion_kernel32_bits_avx2` and `svt_full_distortion_kernel32_bits_c` write different residual
    distortions. -/
theorem fullDist32_avx2_ne_c : ∃ b : Blk, b.InDomain ∧ b.SubFits ∧ b.runAvx2 ≠ some b.runC := by
  refine ⟨witness33000, witness33000_inDomain, ?_, ?_⟩
  · intro j i _ _
    simp [Blk.d, Blk.c, Blk.r, witness33000]
  · rw [fullDist32_witness33000_values.1, fullDist32_witness33000_values.2]
    decide

set_option maxRecDepth 100000 in
/-- the minimal shape: area 4x2, one lane with two differences of 46341: C 4294976562 = 2·46341^2, AVX2 9266 (= C - 2^32) -/
theorem fullDist32_witness4x2_values :
    witness4x2.runC = (4294976562#64, 4294976562#64) ∧ witness4x2.runAvx2 = some (9266#64, 4294976562#64) := by
  constructor <;> decide

/-! ### K2b: cbf_zero kernel — full equality -/

/-- `svt_full_distortion_kernel_cbf_zero32_bits_avx2` writes exactly the two values of
    `svt_full_distortion_kernel_cbf_zero32_bits_c` (both entries = Σ coeff^2 mod 2^64) for ALL int32 inputs, every width that
    is a positive multiple of 4, every height ≥ 1, every stride. -/
theorem fullDistCbfZero32_avx2_eq_c (b : Blk) (hd : b.InDomain) : b.runZAvx2 = some b.runZC :=
  cbfZero_eq b hd

example : witness33000.runZAvx2 = some witness33000.runZC := fullDistCbfZero32_avx2_eq_c _ witness33000_inDomain

end C07
