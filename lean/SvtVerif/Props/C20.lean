/-
  C20 — a coding tool the configuration switches OFF never appears in the bitstream; the requested tiling is used.
  Property theorems only.  They are statements about `Model/ToolGate.lean`, a hand transcription (file:line in the
  model) of the ~40 derivation sites between the configuration and the sequence / frame header writers; a site the
  transcription missed is only caught by the real-encode oracle and the decoder's block counters (checks/c20.py).
  Quantifiers: every theorem holds for ALL presets (`encMode : Int`, not just 0..8), all picture kinds / temporal
  layers / reference flags / screen-content verdicts and all search results (`Pic` is universally quantified).
-/
import SvtVerif.Model.ToolGate
import SvtVerif.Lemmas.ToolGate
import SvtVerif.Lemmas.ToolGateTile

namespace C20
open ToolGate
set_option linter.unusedSimpArgs false

/-! ## 1. `tool_off_flag_off`: configuration says OFF ⇒ the modelled header says OFF (one lemma per switch) -/

/-- `disable_dlf_flag = 1` ⇒ loop_filter_mode = 0 for every picture and the frame header carries loop-filter
    levels 0 (so the decoder's deblocking is a no-op), whatever svt_av1_pick_filter_level would have picked. -/
theorem tool_off_flag_off_dlf (c : Cfg) (p : Pic) (h : c.disableDlf = 1) :
    loopFilterMode c p = 0 ∧ hdrLf c p = (0, 0, 0, 0) := by
  have h0 : loopFilterMode c p = 0 := by simp [loopFilterMode, h]
  refine ⟨h0, ?_⟩
  unfold hdrLf; split
  · rfl
  · simp [h0]
example : ∃ c : Cfg, c.disableDlf = 1 := ⟨{ disableDlf := 1 }, rfl⟩
/-- ON: the picked levels reach the header (the lemma is not true for a trivial reason). -/
example : hdrLf {} { pickLf := (7, 7, 3, 3) } = (7, 7, 3, 3) := by decide

/-- `cdef_level = 0` ⇒ sequence enable_cdef = 0, picture cdef_level = 0, decoded CDEF strengths all 0. -/
theorem tool_off_flag_off_cdef (c : Cfg) (p : Pic) (h : c.cdefLevel = 0) :
    (∀ s, (seqHdr c s).cdef = 0) ∧ picCdefLevel c p = 0 ∧ hdrCdef c p = (0, [0], [0]) := by
  have hs : seqCdef c = 0 := by simp [seqCdef, h]
  refine ⟨fun s => by simp [seqHdr, hs], by simp [picCdefLevel, hs], by simp [hdrCdef, hs]⟩
example : ∃ c : Cfg, c.cdefLevel = 0 := ⟨{ cdefLevel := 0 }, rfl⟩
example : hdrCdef {} { pickCdefY := [58], pickCdefUv := [12] } = (0, [58], [12]) := by decide

/-- `enable_restoration_filtering = 0` ⇒ sequence enable_restoration = 0 and every frame_restoration_type NONE. -/
theorem tool_off_flag_off_restoration (c : Cfg) (p : Pic) (h : c.enableRestoration = 0) :
    (∀ s, (seqHdr c s).restoration = 0) ∧ hdrLr c p = (0, 0, 0) := by
  have hs : seqRestoration c = 0 := by simp [seqRestoration, h]
  exact ⟨fun s => by simp [seqHdr, hs], by simp [hdrLr, hs]⟩
example : ∃ c : Cfg, c.enableRestoration = 0 := ⟨{ enableRestoration := 0 }, rfl⟩
example : hdrLr { enableRestoration := 1 } { pickLr := (1, 2, 0) } = (1, 2, 0) := by decide

/-- `palette_level = 0` ⇒ the picture palette level and the MD palette level are 0 for every picture and PD pass:
    no palette candidate is injected and `svt_av1_allow_palette` is false where the palette syntax is written.
    (There is no header bit for palette alone: allow_screen_content_tools may still be 1.) -/
theorem tool_off_flag_off_palette (c : Cfg) (p : Pic) (pd : Nat) (h : c.paletteLevel = 0) :
    picPaletteLevel c p = 0 ∧ mdPaletteLevel c p pd = 0 := by
  have h0 : picPaletteLevel c p = 0 := by
    unfold picPaletteLevel; split <;> simp [h]
  exact ⟨h0, mdPalette_le_pic c p pd h0⟩
example : ∃ c : Cfg, c.paletteLevel = 0 := ⟨{ paletteLevel := 0 }, rfl⟩
example : picPaletteLevel { screenContentMode := 1 } {} = 6 := by decide

/-- `screen_content_mode = 0` ⇒ allow_screen_content_tools = 0 and allow_intrabc = 0 in every frame and the palette
    level is 0, whatever palette_level / intrabc_mode say. -/
theorem tool_off_flag_off_screen_content (c : Cfg) (p : Pic) (pd : Nat) (h : c.screenContentMode = 0) :
    (frameHdr c p).allowSct = false ∧ (frameHdr c p).allowIntrabc = false ∧ mdPaletteLevel c p pd = 0 := by
  have hs : allowSct c p = false := by simp [allowSct, scDetected, h]
  refine ⟨by simp [frameHdr, hs], by simp [frameHdr, hdrAllowIntrabc, hs], ?_⟩
  exact mdPalette_le_pic c p pd (palette_zero_of_no_sct c p hs)
example : ∃ c : Cfg, c.screenContentMode = 0 := ⟨{ screenContentMode := 0 }, rfl⟩
example : (frameHdr { screenContentMode := 1 } { iSlice := true, frameType := 0 }).allowIntrabc = true := by decide

/-- `intrabc_mode = 0` ⇒ allow_intrabc = 0 in every frame header (and inside the encoder). -/
theorem tool_off_flag_off_intrabc (c : Cfg) (p : Pic) (h : c.intrabcMode = 0) :
    allowIntrabc c p = false ∧ (frameHdr c p).allowIntrabc = false := by
  have h0 : allowIntrabc c p = false := by
    unfold allowIntrabc; split <;> simp [h]
  exact ⟨h0, by simp [frameHdr, hdrAllowIntrabc, h0]⟩
example : ∃ c : Cfg, c.intrabcMode = 0 := ⟨{ intrabcMode := 0 }, rfl⟩

/-- `enable_global_motion = 0` ⇒ gm level 0 and every reference's global-motion type is IDENTITY in every frame. -/
theorem tool_off_flag_off_global_motion (c : Cfg) (p : Pic) (h : c.enableGlobalMotion = 0) :
    gmLevel c p = 0 ∧ (frameHdr c p).gm = [0, 0, 0, 0, 0, 0, 0] := by
  have h0 : gmLevel c p = 0 := by simp [gmLevel, h]
  refine ⟨h0, ?_⟩
  show hdrGm c p = _
  unfold hdrGm; split
  · rfl
  · simp [h0]
example : ∃ c : Cfg, c.enableGlobalMotion = 0 := ⟨{ enableGlobalMotion := 0 }, rfl⟩
example : (frameHdr {} { pickGm := [2, 0, 0, 3, 0, 0, 0] }).gm = [2, 0, 0, 3, 0, 0, 0] := by decide

/-- `enable_warped_motion = 0` ⇒ sequence enable_warped_motion = 0 and allow_warped_motion = 0 in every frame. -/
theorem tool_off_flag_off_warped_motion (c : Cfg) (p : Pic) (h : c.enableWarpedMotion = 0) :
    (∀ s, (seqHdr c s).warped = 0) ∧ allowWarped c p = false ∧ (frameHdr c p).warped = false := by
  have hw : enableWm c p = false := by simp [enableWm, h]
  have ha : allowWarped c p = false := by simp [allowWarped, hw]
  exact ⟨fun s => by simp [seqHdr, seqWarped, h], ha, by simp [frameHdr, hdrAllowWarped, ha]⟩
example : ∃ c : Cfg, c.enableWarpedMotion = 0 := ⟨{ enableWarpedMotion := 0 }, rfl⟩
example : (frameHdr {} {}).warped = true := by decide

/-- `obmc_level = 0` ⇒ the MD OBMC level is 0 in every PD pass and is_motion_mode_switchable is exactly
    allow_warped_motion (inter frames): OBMC no longer contributes to it. -/
theorem tool_off_flag_off_obmc (c : Cfg) (p : Pic) (pd : Nat) (h : c.obmcLevel = 0) :
    mdObmcLevel c pd = 0 ∧
    (frameHdr c p).switchable = ((p.frameType == 1 || p.frameType == 3) && allowWarped c p) := by
  have h0 : picObmcLevel c = 0 := by simp [picObmcLevel, h]
  refine ⟨by unfold mdObmcLevel; split <;> simp [h0], by simp [frameHdr, hdrSwitchableMotion, h0]⟩
example : ∃ c : Cfg, c.obmcLevel = 0 := ⟨{ obmcLevel := 0 }, rfl⟩
example : (frameHdr { encMode := 4, enableWarpedMotion := 0 } {}).switchable = true := by decide

/-- OBMC and warped motion both OFF ⇒ is_motion_mode_switchable = 0: no block carries a motion_mode symbol. -/
theorem tool_off_flag_off_motion_modes (c : Cfg) (p : Pic) (ho : c.obmcLevel = 0) (hw : c.enableWarpedMotion = 0) :
    (frameHdr c p).switchable = false := by
  rw [(tool_off_flag_off_obmc c p 2 ho).2, (tool_off_flag_off_warped_motion c p hw).2.1]; simp
example : ∃ c : Cfg, c.obmcLevel = 0 ∧ c.enableWarpedMotion = 0 := ⟨{ obmcLevel := 0, enableWarpedMotion := 0 }, rfl, rfl⟩

/-- `filter_intra_level = 0` ⇒ sequence enable_filter_intra = 0 and the MD filter-intra level is 0. -/
theorem tool_off_flag_off_filter_intra (c : Cfg) (pd : Nat) (h : c.filterIntraLevel = 0) :
    (∀ s, (seqHdr c s).filterIntra = 0) ∧ mdFilterIntraLevel c pd = 0 := by
  have h0 : picFilterIntraLevel c = 0 := by simp [picFilterIntraLevel, h]
  exact ⟨fun s => by simp [seqHdr, seqFilterIntra, h], by unfold mdFilterIntraLevel; split <;> simp [h0]⟩
example : ∃ c : Cfg, c.filterIntraLevel = 0 := ⟨{ filterIntraLevel := 0 }, rfl⟩
example : (seqHdr { encMode := 4 } false).filterIntra = 1 := by decide

/-- `inter_intra_compound = 0` ⇒ sequence enable_interintra_compound = 0 and the MD inter-intra level is 0. -/
theorem tool_off_flag_off_inter_intra (c : Cfg) (p : Pic) (pd : Nat) (h : c.interIntraCompound = 0) :
    (∀ s, (seqHdr c s).interintra = 0) ∧ mdInterIntraLevel c p pd = 0 := by
  have hs : seqInterintra c = 0 := by simp [seqInterintra, h]
  exact ⟨fun s => by simp [seqHdr, hs], by simp [mdInterIntraLevel, hs]⟩
example : ∃ c : Cfg, c.interIntraCompound = 0 := ⟨{ interIntraCompound := 0 }, rfl⟩
example : (seqHdr { encMode := 2 } false).interintra = 1 := by decide

/-- `compound_level = 0` ⇒ sequence enable_masked_compound = enable_jnt_comp = 0 and inter_compound_mode = 0
    (average only: no wedge, no difference-weighted, no distance-weighted compound). -/
theorem tool_off_flag_off_compound (c : Cfg) (pd : Nat) (h : c.compoundLevel = 0) :
    (∀ s, (seqHdr c s).masked = 0 ∧ (seqHdr c s).jntComp = 0) ∧ interCompoundMode c pd = 0 := by
  have hm : compoundMode c = 0 := by simp [compoundMode, h]
  exact ⟨fun s => by simp [seqHdr, hm], by simp [interCompoundMode, hm]⟩
example : ∃ c : Cfg, c.compoundLevel = 0 := ⟨{ compoundLevel := 0 }, rfl⟩
example : (seqHdr {} false).masked = 1 := by decide

/-- `superres_mode = 0` ⇒ sequence enable_superres = 0 and use_superres = 0 in every frame, even if the picture
    bookkeeping claimed a scaled frame. -/
theorem tool_off_flag_off_superres (c : Cfg) (p : Pic) (h : c.superresMode = 0) :
    (∀ s, (seqHdr c s).superres = 0) ∧ (frameHdr c p).useSuperres = false := by
  exact ⟨fun s => by simp [seqHdr, seqSuperres, h], by simp [frameHdr, hdrUseSuperres, h]⟩
example : ∃ c : Cfg, c.superresMode = 0 := ⟨{ superresMode := 0 }, rfl⟩
example : (seqHdr { superresMode := 1 } true).superres = 1 := by decide

/-- `disable_cfl_flag = 1` ⇒ the CfL-disable local of every intra-candidate injector is true for every block size and
    either value of md_disable_cfl: no candidate ever gets UV_CFL_PRED. -/
theorem tool_off_flag_off_cfl (c : Cfg) (blkMax : Nat) (md : Bool) (h : c.disableCfl = 1) :
    cflDisabled c blkMax md = true := by
  unfold cflDisabled
  cases md <;> by_cases hb : blkMax > 32 <;> simp [h, hb]
example : ∃ c : Cfg, c.disableCfl = 1 := ⟨{ disableCfl := 1 }, rfl⟩
example : cflDisabled {} 16 false = false := by decide

/-- `enable_intra_edge_filter = 0` ⇒ sequence enable_intra_edge_filter = 0. -/
theorem tool_off_flag_off_intra_edge (c : Cfg) (h : c.enableIntraEdgeFilter = 0) :
    ∀ s, (seqHdr c s).intraEdge = 0 := fun s => by simp [seqHdr, seqIntraEdge, h]
example : ∃ c : Cfg, c.enableIntraEdgeFilter = 0 := ⟨{ enableIntraEdgeFilter := 0 }, rfl⟩

/-- `enable_mfmv = 0` ⇒ use_ref_frame_mvs = 0 in every frame (the sequence bit enable_ref_frame_mvs stays 1: it is
    a constant of the encoder, EbSequenceControlSet.c:147). -/
theorem tool_off_flag_off_mfmv (c : Cfg) (p : Pic) (h : c.enableMfmv = 0) : (frameHdr c p).refMvs = false := by
  have : mfmvEnabled c = false := by simp [mfmvEnabled, h]
  show hdrUseRefMvs c p = false
  unfold hdrUseRefMvs; split <;> simp [this]
example : ∃ c : Cfg, c.enableMfmv = 0 := ⟨{ enableMfmv := 0 }, rfl⟩
example : (frameHdr {} {}).refMvs = true := by decide

/-- The preset-default branch is taken only when the member is DEFAULT: for an explicit 0/1 the sequence bits
    do not depend on the preset. -/
theorem preset_branch_only_when_default (c : Cfg) (m : Int) (s : Bool)
    (h1 : c.filterIntraLevel ≠ DEFAULT) (h2 : c.interIntraCompound ≠ DEFAULT) (h3 : c.enableRestoration ≠ DEFAULT)
    (h4 : c.compoundLevel ≠ DEFAULT) :
    let c' := { c with encMode := m }
    (seqHdr c' s).filterIntra = (seqHdr c s).filterIntra ∧ (seqHdr c' s).interintra = (seqHdr c s).interintra ∧
    (seqHdr c' s).restoration = (seqHdr c s).restoration ∧ (seqHdr c' s).masked = (seqHdr c s).masked := by
  have e1 : (c.filterIntraLevel == DEFAULT) = false := by simpa using h1
  have e2 : (c.interIntraCompound == DEFAULT) = false := by simpa using h2
  have e3 : (c.enableRestoration == DEFAULT) = false := by simpa using h3
  have e4 : (c.compoundLevel == DEFAULT) = false := by simpa using h4
  simp [seqHdr, seqFilterIntra, seqInterintra, seqRestoration, compoundMode, e1, e2, e3, e4]
example : ∃ c : Cfg, c.filterIntraLevel ≠ DEFAULT ∧ c.interIntraCompound ≠ DEFAULT ∧ c.enableRestoration ≠ DEFAULT ∧
    c.compoundLevel ≠ DEFAULT :=
  ⟨{ filterIntraLevel := 1, interIntraCompound := 0, enableRestoration := 1, compoundLevel := 2 }, by decide⟩

/-! ## 2. `flag_off_block_off`: the AV1 block syntax has no element for a tool whose header flag is 0 -/

/-- Statement about the specification table `mayBePresent`: with the header flag of a tool at 0 a conforming block
    parser reports "not used" for that tool in every block, whatever bits follow in the tile data. -/
theorem flag_off_block_off (f : Flags) (coded : Elem → Nat) :
    (f.seqFilterIntra = false → decodedUse f coded .useFilterIntra = 0) ∧
    (f.allowSct = false → decodedUse f coded .hasPaletteY = 0 ∧ decodedUse f coded .hasPaletteUv = 0) ∧
    (f.allowIntrabc = false → decodedUse f coded .useIntrabc = 0) ∧
    (f.seqInterintra = false → decodedUse f coded .interintra = 0) ∧
    (f.switchableMotion = false → decodedUse f coded .motionModeObmc = 0 ∧ decodedUse f coded .motionModeWarp = 0) ∧
    (f.allowWarped = false → decodedUse f coded .motionModeWarp = 0) ∧
    (f.seqMasked = false → decodedUse f coded .compGroupIdx = 0) ∧
    (f.seqJntComp = false → decodedUse f coded .compoundIdx = 0) ∧
    (f.seqCdef = false → decodedUse f coded .cdefIdx = 0 ∧ cdefApplied f = false) ∧
    (f.cdefStrengthsAllZero = true → cdefApplied f = false) ∧
    (f.lrTypeNonNone = false → decodedUse f coded .lrUnit = 0) := by
  refine ⟨?_, ?_, ?_, ?_, ?_, ?_, ?_, ?_, ?_, ?_, ?_⟩ <;> intro h <;>
    simp [decodedUse, mayBePresent, cdefApplied, h]
example : ∃ f : Flags, f.seqFilterIntra = false ∧ f.allowSct = false := ⟨default, rfl, rfl⟩
/-- ON: with the flag set the coded value is what the parser reports. -/
example : decodedUse { (default : Flags) with allowSct := true } (fun _ => 1) .hasPaletteY = 1 := by decide

/-- Chroma-from-luma has no sequence- or frame-level gate in AV1: header inspection can never show that CfL is off.
    (That is why the check needs the decoder's per-block counter for `disable_cfl_flag`.) -/
theorem cfl_has_no_header_gate (f : Flags) : mayBePresent f .cflAlphas = true := rfl

/-- Palette alone has no header gate either: with screen content tools on and `palette_level = 0` the palette
    syntax may still be present in blocks; only the MD gate (tool_off_flag_off_palette) keeps it unused. -/
theorem palette_off_not_visible_in_headers :
    ∃ c : Cfg, ∃ p : Pic, c.paletteLevel = 0 ∧ mayBePresent (flagsOf c p false) .hasPaletteY = true :=
  ⟨{ paletteLevel := 0, screenContentMode := 1 }, {}, rfl, by decide⟩

/-- End to end on the model: switch OFF ⇒ headers ⇒ no block of any frame can use the tool (for the tools that DO
    have a header gate). -/
theorem tool_off_block_off (c : Cfg) (p : Pic) (s : Bool) (coded : Elem → Nat) :
    (c.filterIntraLevel = 0 → decodedUse (flagsOf c p s) coded .useFilterIntra = 0) ∧
    (c.intrabcMode = 0 → decodedUse (flagsOf c p s) coded .useIntrabc = 0) ∧
    (c.screenContentMode = 0 → decodedUse (flagsOf c p s) coded .hasPaletteY = 0 ∧
        decodedUse (flagsOf c p s) coded .hasPaletteUv = 0 ∧ decodedUse (flagsOf c p s) coded .useIntrabc = 0) ∧
    (c.interIntraCompound = 0 → decodedUse (flagsOf c p s) coded .interintra = 0) ∧
    (c.enableWarpedMotion = 0 → decodedUse (flagsOf c p s) coded .motionModeWarp = 0) ∧
    (c.obmcLevel = 0 → c.enableWarpedMotion = 0 → decodedUse (flagsOf c p s) coded .motionModeObmc = 0) ∧
    (c.compoundLevel = 0 → decodedUse (flagsOf c p s) coded .compGroupIdx = 0 ∧
        decodedUse (flagsOf c p s) coded .compoundIdx = 0) ∧
    (c.cdefLevel = 0 → decodedUse (flagsOf c p s) coded .cdefIdx = 0 ∧ cdefApplied (flagsOf c p s) = false) ∧
    (c.enableRestoration = 0 → decodedUse (flagsOf c p s) coded .lrUnit = 0) := by
  refine ⟨?_, ?_, ?_, ?_, ?_, ?_, ?_, ?_, ?_⟩
  · intro h
    simp [decodedUse, mayBePresent, flagsOf, (tool_off_flag_off_filter_intra c 2 h).1 s]
  · intro h
    simp [decodedUse, mayBePresent, flagsOf, (tool_off_flag_off_intrabc c p h).2]
  · intro h
    have := tool_off_flag_off_screen_content c p 2 h
    simp [decodedUse, mayBePresent, flagsOf, this.1, this.2.1]
  · intro h
    simp [decodedUse, mayBePresent, flagsOf, (tool_off_flag_off_inter_intra c p 2 h).1 s]
  · intro h
    simp [decodedUse, mayBePresent, flagsOf, (tool_off_flag_off_warped_motion c p h).2.2]
  · intro ho hw
    simp [decodedUse, mayBePresent, flagsOf, tool_off_flag_off_motion_modes c p ho hw]
  · intro h
    have := (tool_off_flag_off_compound c 2 h).1 s
    simp [decodedUse, mayBePresent, flagsOf, this.1, this.2]
  · intro h
    have := (tool_off_flag_off_cdef c p h).1 s
    simp [decodedUse, mayBePresent, cdefApplied, flagsOf, this]
  · intro h
    have := (tool_off_flag_off_restoration c p h).2
    have h2 : (frameHdr c p).lr = (0, 0, 0) := this
    simp [decodedUse, mayBePresent, flagsOf, h2]
example : ∃ c : Cfg, c.filterIntraLevel = 0 ∧ c.cdefLevel = 0 := ⟨{ filterIntraLevel := 0, cdefLevel := 0 }, rfl, rfl⟩


/-! ## 3. `tile_info_spec`: the tile layout the encoder signals -/

/-- For ALL frame sizes (in mi units, ≥ 1), SB sizes and requested log2 values, by arithmetic (no enumeration):
    * the signalled log2 values are the requested ones clamped to the limits of AV1 5.9.15
      (maxLog2 = tile_log2(1, min(sb count, 64)), minLog2TileCols = tile_log2(maxTileWidthSb, sbCols),
       rows bounded below by max(minLog2Tiles − TileColsLog2, 0));
    * the uniform layout has at most 2^k tiles per dimension and more than 2^(k−1) (so tile_log2(1, count) = k: a
      decoder that recomputes the log2 from the count gets the signalled value);
    * every tile is non-empty and at most the nominal size, the widths sum to the frame width in SBs (no SB is
      lost or covered twice), starts are the multiples of the nominal size. -/
theorem tile_info_spec (miCols miRows log2Sb reqCols reqRows : Nat) (hc : 1 ≤ miCols) (hr : 1 ≤ miRows) :
    let L := tileLimits miCols miRows log2Sb
    let t := tileInfo miCols miRows log2Sb reqCols reqRows
    t.colsLog2 = min (max reqCols L.minLog2Cols) L.maxLog2Cols ∧
    t.rowsLog2 = min (max reqRows (L.minLog2Tiles - t.colsLog2)) L.maxLog2Rows ∧
    L.maxLog2Cols = tileLog2 1 (min L.sbCols 64) ∧ L.maxLog2Rows = tileLog2 1 (min L.sbRows 64) ∧
    L.minLog2Cols = tileLog2 L.maxTileWidthSb L.sbCols ∧
    t.tileCols ≤ 2 ^ t.colsLog2 ∧ t.tileRows ≤ 2 ^ t.rowsLog2 ∧
    1 ≤ t.tileCols ∧ 1 ≤ t.tileRows ∧
    tileLog2 1 t.tileCols = t.colsLog2 ∧ tileLog2 1 t.tileRows = t.rowsLog2 ∧
    (∀ w ∈ tileWidths L.sbCols t.colsLog2, 1 ≤ w ∧ w ≤ t.colSizeSb) ∧ (tileWidths L.sbCols t.colsLog2).sum = L.sbCols ∧
    (∀ w ∈ tileWidths L.sbRows t.rowsLog2, 1 ≤ w ∧ w ≤ t.rowSizeSb) ∧ (tileWidths L.sbRows t.rowsLog2).sum = L.sbRows ∧
    t.colStartsSb = (List.range t.tileCols).map (· * t.colSizeSb) ∧
    t.rowStartsSb = (List.range t.tileRows).map (· * t.rowSizeSb) := by
  intro L t
  have hsc : 1 ≤ L.sbCols := sbCount_pos miCols log2Sb hc
  have hsr : 1 ≤ L.sbRows := sbCount_pos miRows log2Sb hr
  have hcl : t.colsLog2 ≤ tileLog2 1 (min L.sbCols 64) := clampLog2_le_hi _ _ _
  have hrl : t.rowsLog2 ≤ tileLog2 1 (min L.sbRows 64) := clampLog2_le_hi _ _ _
  have ec : t.colStartsSb = tileStarts L.sbCols t.colsLog2 := rfl
  have er : t.rowStartsSb = tileStarts L.sbRows t.rowsLog2 := rfl
  have nc : t.tileCols = (tileStarts L.sbCols t.colsLog2).length := rfl
  have nr : t.tileRows = (tileStarts L.sbRows t.rowsLog2).length := rfl
  refine ⟨rfl, rfl, rfl, rfl, rfl, ?_, ?_, ?_, ?_, ?_, ?_, ?_, ?_, ?_, ?_, ?_, ?_⟩
  · rw [nc]; exact tileCount_le _ _ hsc
  · rw [nr]; exact tileCount_le _ _ hsr
  · rw [nc]; exact tileCount_pos _ _ hsc
  · rw [nr]; exact tileCount_pos _ _ hsr
  · rw [nc]; exact tileLog2_tileCount _ _ hsc hcl
  · rw [nr]; exact tileLog2_tileCount _ _ hsr hrl
  · exact tileWidths_pos _ _ hsc
  · exact tileWidths_sum _ _ hsc
  · exact tileWidths_pos _ _ hsr
  · exact tileWidths_sum _ _ hsr
  · rw [ec, nc, tileStarts_length _ _ hsc]; exact tileStarts_eq _ _ hsc
  · rw [er, nr, tileStarts_length _ _ hsr]; exact tileStarts_eq _ _ hsr
example : ∃ a b : Nat, 1 ≤ a ∧ 1 ≤ b := ⟨1, 1, by decide, by decide⟩
/-- 640x384, 64x64 SBs, request 4 x 2 tiles: granted, 10 SB columns split 3+3+3+1. -/
example : (tileInfo (miOf 640) (miOf 384) 4 2 1).colStartsSb = [0, 3, 6, 9] ∧
    (tileInfo (miOf 640) (miOf 384) 4 2 1).tileRows = 2 := by decide
/-- 320 wide = 5 SB columns, request 4 columns: log2 stays 2 but only 3 tiles exist (2+2+1). -/
example : (tileInfo (miOf 320) (miOf 384) 4 2 0).colsLog2 = 2 ∧ (tileInfo (miOf 320) (miOf 384) 4 2 0).tileCols = 3 := by decide

/-- "The bitstream signals the tile layout requested by the configuration, limited only by the frame size":
    when the frame is no wider than one maximal tile and no larger than one maximal tile area (always the case for the
    sizes the API accepts, see `api_sizes_need_no_minimum_tiling`), the signalled log2 values are min(requested,
    maxLog2); if in addition the frame has at least 2^requested SBs in that dimension the request is granted as is,
    and if 2^requested divides the SB count the layout has exactly 2^requested equal tiles. -/
theorem tile_requested_used (miCols miRows log2Sb reqCols reqRows : Nat) (hc : 1 ≤ miCols) (hr : 1 ≤ miRows)
    (hw : (tileLimits miCols miRows log2Sb).sbCols ≤ (tileLimits miCols miRows log2Sb).maxTileWidthSb)
    (ha : (tileLimits miCols miRows log2Sb).sbCols * (tileLimits miCols miRows log2Sb).sbRows ≤
          MAX_TILE_AREA / 2 ^ (2 * (log2Sb + 2))) :
    let L := tileLimits miCols miRows log2Sb
    let t := tileInfo miCols miRows log2Sb reqCols reqRows
    t.colsLog2 = min reqCols L.maxLog2Cols ∧ t.rowsLog2 = min reqRows L.maxLog2Rows ∧
    minLog2RowsSpec miCols miRows log2Sb reqCols = 0 ∧
    (2 ^ reqCols ≤ min L.sbCols 64 → t.colsLog2 = reqCols) ∧
    (2 ^ reqRows ≤ min L.sbRows 64 → t.rowsLog2 = reqRows) ∧
    (2 ^ reqCols ≤ min L.sbCols 64 → 2 ^ reqCols ∣ L.sbCols → t.tileCols = 2 ^ reqCols) ∧
    (2 ^ reqRows ≤ min L.sbRows 64 → 2 ^ reqRows ∣ L.sbRows → t.tileRows = 2 ^ reqRows) := by
  intro L t
  have hsc : 1 ≤ L.sbCols := sbCount_pos miCols log2Sb hc
  have hsr : 1 ≤ L.sbRows := sbCount_pos miRows log2Sb hr
  have hminc : L.minLog2Cols = 0 := minLog2Cols_zero miCols miRows log2Sb hw
  have hmint : L.minLog2Tiles = 0 := by
    have h1 : tileLog2 (MAX_TILE_AREA / 2 ^ (2 * (log2Sb + 2))) (L.sbCols * L.sbRows) = 0 :=
      tileLog2_eq_zero_of_le _ _ ha
    show max (tileLog2 (MAX_TILE_AREA / 2 ^ (2 * (log2Sb + 2))) (L.sbCols * L.sbRows)) L.minLog2Cols = 0
    rw [h1, hminc]; rfl
  have e1 : t.colsLog2 = min reqCols L.maxLog2Cols := by
    show clampLog2 reqCols L.minLog2Cols L.maxLog2Cols = _
    rw [hminc]; exact clampLog2_lo_zero _ _
  have e2 : t.rowsLog2 = min reqRows L.maxLog2Rows := by
    show clampLog2 reqRows (L.minLog2Tiles - t.colsLog2) L.maxLog2Rows = _
    rw [hmint, Nat.zero_sub]; exact clampLog2_lo_zero _ _
  have e3 : minLog2RowsSpec miCols miRows log2Sb reqCols = 0 := by
    show L.minLog2Tiles - _ = 0
    rw [hmint, Nat.zero_sub]
  have g1 : 2 ^ reqCols ≤ min L.sbCols 64 → t.colsLog2 = reqCols := fun h => by
    rw [e1]; exact Nat.min_eq_left (le_tileLog2_of_pow_le _ _ h)
  have g2 : 2 ^ reqRows ≤ min L.sbRows 64 → t.rowsLog2 = reqRows := fun h => by
    rw [e2]; exact Nat.min_eq_left (le_tileLog2_of_pow_le _ _ h)
  refine ⟨e1, e2, e3, g1, g2, ?_, ?_⟩
  · intro h hd
    show (tileStarts L.sbCols t.colsLog2).length = _
    rw [g1 h]; exact tileCount_exact _ _ hsc hd
  · intro h hd
    show (tileStarts L.sbRows t.rowsLog2).length = _
    rw [g2 h]; exact tileCount_exact _ _ hsr hd
example : (tileLimits (miOf 1920) (miOf 1080) 4).sbCols ≤ (tileLimits (miOf 1920) (miOf 1080) 4).maxTileWidthSb ∧
    (tileLimits (miOf 1920) (miOf 1080) 4).sbCols * (tileLimits (miOf 1920) (miOf 1080) 4).sbRows ≤
      MAX_TILE_AREA / 2 ^ (2 * (4 + 2)) := by decide

/-- Every picture size the API accepts (width ≤ 4096, height ≤ 2160; verify_settings, EbEncHandle.c) satisfies the two
    hypotheses of `tile_requested_used`, for both superblock sizes: no minimum tiling is ever forced, and the row
    increment bits that write_tile_info_max_tile counts from 0 (its min_log2_tile_rows was just reset by
    svt_av1_get_tile_limits, EbEntropyCoding.c:3001/:3123) are what a decoder counting from
    max(minLog2Tiles − TileColsLog2, 0) expects. -/
theorem api_sizes_need_no_minimum_tiling (w h log2Sb : Nat) (hw : w ≤ 4096) (hh : h ≤ 2160)
    (hs : log2Sb = 4 ∨ log2Sb = 5) :
    let L := tileLimits (miOf w) (miOf h) log2Sb
    L.sbCols ≤ L.maxTileWidthSb ∧ L.sbCols * L.sbRows ≤ MAX_TILE_AREA / 2 ^ (2 * (log2Sb + 2)) := by
  intro L
  rcases hs with rfl | rfl
  · have a : L.sbCols = (miOf w + 15) / 16 := rfl
    have b : L.sbRows = (miOf h + 15) / 16 := rfl
    have c : L.maxTileWidthSb = 64 := rfl
    have d : MAX_TILE_AREA / 2 ^ (2 * (4 + 2)) = 2304 := by decide
    have hc : L.sbCols ≤ 64 := by rw [a]; unfold miOf; omega
    have hr : L.sbRows ≤ 34 := by rw [b]; unfold miOf; omega
    refine ⟨by rw [c]; exact hc, ?_⟩
    rw [d]
    calc L.sbCols * L.sbRows ≤ 64 * 34 := Nat.mul_le_mul hc hr
      _ ≤ 2304 := by decide
  · have a : L.sbCols = (miOf w + 31) / 32 := rfl
    have b : L.sbRows = (miOf h + 31) / 32 := rfl
    have c : L.maxTileWidthSb = 32 := rfl
    have d : MAX_TILE_AREA / 2 ^ (2 * (5 + 2)) = 576 := by decide
    have hc : L.sbCols ≤ 32 := by rw [a]; unfold miOf; omega
    have hr : L.sbRows ≤ 17 := by rw [b]; unfold miOf; omega
    refine ⟨by rw [c]; exact hc, ?_⟩
    rw [d]
    calc L.sbCols * L.sbRows ≤ 32 * 17 := Nat.mul_le_mul hc hr
      _ ≤ 576 := by decide
example : ∃ w h : Nat, w ≤ 4096 ∧ h ≤ 2160 := ⟨1920, 1080, by decide, by decide⟩
/-- The excluded point (not reachable through the API: height ≤ 2160): at 4096x4096 a decoder expects the row
    increments to start at 1, the writer starts at 0 — the model keeps the discrepancy visible. -/
example : minLog2RowsSpec (miOf 4096) (miOf 4096) 4 0 = 1 := by decide

end C20
