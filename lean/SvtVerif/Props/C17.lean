/-
  C17 — concurrent encoder and decoder instances in one process do not interfere.

  What is proved here (model: `Model/NonInterf.lean`; inventory: `Gen/Globals.lean`, regenerated on every run;
  reviewed classification: `Spec/GlobalsClass.lean`):

  * `noninterference` / `noninterference_n` / `noninterference_of_agreement`: for ALL traces and ALL interleavings,
    an instance ends in the private state (outputs included) it reaches when it is alone in the process, provided every
    global that coding code reads is only ever stored with an instance-independent value and counters are only touched by
    locked read-modify-writes.
  * `noninterference_fails_with` and its instances: for an `instanceDependent` / `transientRebuild` global the
    conclusion is FALSE for some two-instance trace — the hypothesis cannot be dropped.
  * `globals_classified`, `harmful_globals_exact`, `library_is_not_interference_free`: the regenerated table of the
    current tree is completely classified, the harmful part of it is exactly the reviewed list, and it is not empty —
    so the whole-library claim does NOT follow for the current tree; which of the harmful globals are observable on the
    real code is decided by `harness/multi.c` (checks/c17.py), see known_findings.txt.
-/
import SvtVerif.Lemmas.NonInterf
import SvtVerif.Gen.Globals
import SvtVerif.Spec.GlobalsClass

namespace C17
open SvtVerif.NonInterf SvtVerif.Spec.GlobalsClass

/-- **Non-interference, any number of instances.**  `m` is an arbitrary joint execution (list of (instance, atomic action)):
    every interleaving of every choice of per-instance traces.  If every global is `writeOnceConstant` or `lockedCounter`,
    every action respects its global's class (`ClassOK`), statically initialised constants start with their constant, and
    instance `i` reads a global only after its own initialisation stored it (`wellInit`), then `i`'s final private state —
    its packets, reconstructed and decoded pictures — is the one of running `i`'s own trace alone.
    C meaning: if no global of the library were written from instance configuration, instances could not influence each other
    through globals, whatever the timing of init / encode / deinit of the others. -/
theorem noninterference_n {ι γ ν σ : Type} [DecidableEq ι] [DecidableEq γ]
    (cls : γ → Class) (c : γ → ν) (static : γ → Bool)
    (hcls : ∀ g, cls g = .writeOnceConstant ∨ cls g = .lockedCounter)
    (m : List (ι × Act γ ν σ)) (i : ι) (s : St ι γ ν σ)
    (hok : ∀ p ∈ m, ClassOK cls c p.2)
    (hstatic : ∀ g, cls g = .writeOnceConstant → static g = true → s.G g = c g)
    (hinit : wellInit static [] (proj i m) = true) :
    (run m s).I i = (runSolo (proj i m) (s.G, s.I i)).2 := by
  apply noninterference_of_agreement' (fun g => decide (cls g = .writeOnceConstant)) c static m i s
  · intro p hp; exact actOK_of_classOK cls c hcls p.2 (hok p hp)
  · intro g hr hs; exact hstatic g (by simpa using hr) hs
  · exact hinit

/-- **Non-interference, two instances, every interleaving** (the statement of DESIGN.md):
    `proj₁ (run (interleave t₁ t₂)) = run t₁`. -/
theorem noninterference {γ ν σ : Type} [DecidableEq γ]
    (cls : γ → Class) (c : γ → ν) (static : γ → Bool)
    (hcls : ∀ g, cls g = .writeOnceConstant ∨ cls g = .lockedCounter)
    (t₁ t₂ : List (Act γ ν σ)) (m : List (Bool × Act γ ν σ)) (hm : Interleaving t₁ t₂ m) (s : St Bool γ ν σ)
    (hok₁ : ∀ a ∈ t₁, ClassOK cls c a) (hok₂ : ∀ a ∈ t₂, ClassOK cls c a)
    (hstatic : ∀ g, cls g = .writeOnceConstant → static g = true → s.G g = c g)
    (hinit : wellInit static [] t₁ = true) :
    (run m s).I false = (runSolo t₁ (s.G, s.I false)).2 := by
  have hp := (proj_of_interleaving hm).1
  have := noninterference_n cls c static hcls m false s
    (fun p hp' => by
      cases mem_of_interleaving hm p hp' with
      | inl h => exact hok₁ _ h
      | inr h => exact hok₂ _ h)
    hstatic (by rw [hp]; exact hinit)
  rw [hp] at this
  exact this

/-- the same for the second instance -/
theorem noninterference_second {γ ν σ : Type} [DecidableEq γ]
    (cls : γ → Class) (c : γ → ν) (static : γ → Bool)
    (hcls : ∀ g, cls g = .writeOnceConstant ∨ cls g = .lockedCounter)
    (t₁ t₂ : List (Act γ ν σ)) (m : List (Bool × Act γ ν σ)) (hm : Interleaving t₁ t₂ m) (s : St Bool γ ν σ)
    (hok₁ : ∀ a ∈ t₁, ClassOK cls c a) (hok₂ : ∀ a ∈ t₂, ClassOK cls c a)
    (hstatic : ∀ g, cls g = .writeOnceConstant → static g = true → s.G g = c g)
    (hinit : wellInit static [] t₂ = true) :
    (run m s).I true = (runSolo t₂ (s.G, s.I true)).2 := by
  have hp := (proj_of_interleaving hm).2
  have := noninterference_n cls c static hcls m true s
    (fun p hp' => by
      cases mem_of_interleaving hm p hp' with
      | inl h => exact hok₁ _ h
      | inr h => exact hok₂ _ h)
    hstatic (by rw [hp]; exact hinit)
  rw [hp] at this
  exact this

/-- non-vacuity: a two-instance system with one `writeOnceConstant` table `0` (stored by each init, then read) and one
    `lockedCounter` `1`; all hypotheses hold for this interleaving, and the conclusion is a real equation between lists. -/
example :
    let cls : Nat → Class := fun g => if g = 0 then .writeOnceConstant else .lockedCounter
    let a0 : Act Nat Nat (List Nat) := .rmw 1 "svt_increase_component_count" (· + 1)
    let a1 : Act Nat Nat (List Nat) := .store 0 "init_tables" (fun _ => 7)
    let a2 : Act Nat Nat (List Nat) := .compute [0] (fun vs x => vs ++ x)
    let t : List (Act Nat Nat (List Nat)) := [a0, a1, a2]
    let m : List (Bool × Act Nat Nat (List Nat)) := [(false, a0), (true, a0), (true, a1), (false, a1), (true, a2), (false, a2)]
    let s : St Bool Nat Nat (List Nat) := { G := fun _ => 0, I := fun _ => [] }
    (∀ g, cls g = .writeOnceConstant ∨ cls g = .lockedCounter) ∧ Interleaving t t m ∧
    (run m s).I false = [7] ∧ (runSolo t (s.G, s.I false)).2 = [7] ∧ wellInit (fun _ => false) [] t = true := by
  refine ⟨?_, ?_, ?_, ?_, ?_⟩
  · intro g; by_cases h : g = 0 <;> simp [h]
  · exact .left (.right (.right (.left (.right (.left .nil)))))
  · simp [run, step, upd]
  · simp [runSolo, stepSolo, upd]
  · simp [wellInit]

/-- **Non-interference from agreement** (the narrower lemma used for the globals that ARE written from instance
    configuration): `readable` may contain instance-dependent globals, as long as every store to them in this execution
    stores the same value `c g` — two encoders with the same super-block size both store the same block geometry; any two
    admissible RTCD selections are the same function if property C07 holds.  Any number of instances, every interleaving. -/
theorem noninterference_of_agreement {ι γ ν σ : Type} [DecidableEq ι] [DecidableEq γ]
    (readable : γ → Bool) (c : γ → ν) (static : γ → Bool)
    (m : List (ι × Act γ ν σ)) (i : ι) (s : St ι γ ν σ)
    (hact : ∀ p ∈ m, ActOK readable c p.2)
    (hstatic : ∀ g, readable g = true → static g = true → s.G g = c g)
    (hinit : wellInit static [] (proj i m) = true) :
    (run m s).I i = (runSolo (proj i m) (s.G, s.I i)).2 :=
  noninterference_of_agreement' readable c static m i s hact hstatic hinit

example :
    let a0 : Act Nat Nat (Nat × Nat) := .store 0 "build_blk_geom" (fun x => x.1)
    let a1 : Act Nat Nat (Nat × Nat) := .compute [0] (fun vs x => (x.1, vs.headD 0))
    let m : List (Bool × Act Nat Nat (Nat × Nat)) := [(false, a0), (true, a0), (false, a1), (true, a1)]
    let s : St Bool Nat Nat (Nat × Nat) := { G := fun _ => 0, I := fun _ => (64, 0) }   -- both instances: SB size 64
    (run m s).I false = (64, 64) ∧ (runSolo [a0, a1] (s.G, s.I false)).2 = (64, 64) := by
  simp [run, step, runSolo, stepSolo, upd]

/-- **The hypothesis is necessary.**  For any global `g` and any two different values two instances' configurations give it,
    there is a two-instance execution — both instances run the same code (store my configuration's value into `g`, later read
    `g`), each reads `g` only after its own store — in which the first instance ends in a different state than alone. -/
def Interferes {γ ν : Type} [DecidableEq γ] (g : γ) (v₁ v₂ : ν) : Prop :=
  ∃ (m : List (Bool × Act γ ν (ν × ν))) (s : St Bool γ ν (ν × ν)),
    s.I false = (v₁, v₁) ∧ s.I true = (v₂, v₂) ∧
    (∀ p ∈ m, match p.2 with | .store g' _ _ => g' = g | .compute r _ => r = [g] | .rmw _ _ _ => False) ∧
    wellInit (fun _ => false) [] (proj false m) = true ∧ wellInit (fun _ => false) [] (proj true m) = true ∧
    (run m s).I false ≠ (runSolo (proj false m) (s.G, s.I false)).2

theorem noninterference_fails_with {γ ν : Type} [DecidableEq γ] (g : γ) (v₁ v₂ : ν) (h : v₁ ≠ v₂) : Interferes g v₁ v₂ := by
  refine ⟨badTrace g, badStart v₁ v₂ v₁, ?_, ?_, ?_, ?_, ?_, ?_⟩
  · simp [badStart]
  · simp [badStart]
  · intro p hp
    simp [badTrace] at hp
    rcases hp with rfl | rfl | rfl <;> simp
  · simp [badTrace, proj, wellInit]
  · simp [badTrace, proj, wellInit]
  · rw [badTrace_joint, badTrace_solo]
    intro hc
    exact h (by injection hc with _ h2; exact h2.symm)

/-! ### the instances of `noninterference_fails_with` for the harmful globals of the current tree
    (`γ := String` = the global's name, values abstracted to `Nat`; each is the model-level reason for a scenario of harness/multi.c) -/

/-- EbUtility.c `max_sb` (and with it `blk_geom_mds`, `blk_geom_dps`, `max_depth`, `max_num_active_blocks`): encoder A with
    64x64 super-blocks, encoder B with 128x128.  REAL CODE: SIGSEGV / different packets (finding C17-blk_geom-sb64-vs-sb128). -/
theorem blk_geom_interferes : Interferes "max_sb" (64 : Nat) 128 := noninterference_fails_with _ _ _ (by decide)
/-- RTCD pointers and the tables copied from them: instance A `use_cpu_flags = 0` (C kernels = 0), instance B all flags (AVX2 = 1).
    Harmless on the real code iff the kernels are extensionally equal (C07); no difference observed by harness/multi.c. -/
theorem rtcd_pointers_interfere : Interferes "svt_aom_sad16x16" (0 : Nat) 1 := noninterference_fails_with _ _ _ (by decide)
/-- `lp_group`: A's deinit_handle stores NULL (0) while B still holds the pointer its init_handle saw (1).
    REAL CODE: SIGSEGV in svt_av1_enc_init with unpin = 0 (finding C17-lp_group-freed-by-other-handle). -/
theorem lp_group_interferes : Interferes "lp_group" (1 : Nat) 0 := noninterference_fails_with _ _ _ (by decide)
/-- `svt_dec_memory_map` (+ index / total / start / end): the list head belongs to the handle constructed last.
    REAL CODE: crash / double free as soon as two decoder handles are alive together (finding C17-svt_dec_memory_map-two-decoders). -/
theorem dec_memory_map_interferes : Interferes "svt_dec_memory_map" (1 : Nat) 2 := noninterference_fails_with _ _ _ (by decide)
/-- `wedge_masks` (transientRebuild): B's init stores NULL pointers (0) before the final ones (1) while A is encoding. -/
theorem wedge_masks_interfere : Interferes "wedge_masks" (1 : Nat) 0 := noninterference_fails_with _ _ _ (by decide)
/-- film-grain statics: the PRNG register of the picture instance A is synthesising is reseeded by instance B's picture. -/
theorem film_grain_interferes : Interferes "random_register" (1234 : Nat) 5678 := noninterference_fails_with _ _ _ (by decide)
/-- EbResize.c `seed`: one PRNG for the random super-resolution denominators of all encoders. -/
theorem resize_seed_interferes : Interferes "seed" (34567 : Nat) 22222 := noninterference_fails_with _ _ _ (by decide)
/-- `group_affinity`: CPU set of the instance that called svt_av1_enc_init with unpin = 0 last. -/
theorem group_affinity_interferes : Interferes "group_affinity" (3 : Nat) 255 := noninterference_fails_with _ _ _ (by decide)
/-- `enc_dec_ports` / `rate_control_ports`: process counts of the instance whose svt_av1_enc_init wrote them last.
    REAL CODE: two concurrent svt_av1_enc_init calls with different thread counts -> SIGSEGV in svt_get_empty_object
    (finding C17-port-tables-concurrent-enc_init; a race, ~60% of the runs). -/
theorem port_tables_interfere : Interferes "enc_dec_ports" (1 : Nat) 4 := noninterference_fails_with _ _ _ (by decide)

/-! ### the generated table -/

/-- Every writable global of the CURRENT tree (regenerated table) is classified, and every function that writes it (or writes
    through the pointer it holds) is one of the reviewed writers.  A new global, or a new writer, fails this theorem. -/
theorem globals_classified : ∀ g ∈ SvtVerif.Gen.Globals.all, classOf g ≠ .unclassified := by
  decide +kernel

/-- names of the harmful globals other than the RTCD dispatch pointers themselves -/
def harmfulNonRtcd : List String :=
  (SvtVerif.Gen.Globals.all.filter (fun g => harmful (classOf g) && !isRtcdPointer g)).map (·.name)

/-- The harmful (instanceDependent / transientRebuild) part of the current tree is exactly: the RTCD dispatch pointers
    (rule 2) plus the globals named here — nothing else in the libraries is written from instance state. -/
theorem harmful_globals_exact :
    let expected :=
      [ "convolve", "convolveHbd", "wedge_masks", "dc_pred", "dc_pred_high", "eb_pred", "pred_high",
        "blk_geom_dps", "blk_geom_mds", "max_depth", "max_num_active_blocks", "max_sb",
        "svt_av1_highbd_dr_prediction_z2",
        "chroma_subblock_size_x", "chroma_subblock_size_y", "grain_max", "grain_min", "luma_subblock_size_x", "luma_subblock_size_y",
        "random_register", "scaling_lut_cb", "scaling_lut_cr", "scaling_lut_y",
        "memory_map_end_address", "memory_map_start_address", "svt_dec_lib_malloc_count", "svt_dec_memory_map",
        "svt_dec_memory_map_index", "svt_dec_total_lib_memory",
        "hbd_horz_filter_tap", "hbd_vert_filter_tap", "lbd_horz_filter_tap", "lbd_vert_filter_tap",
        "seed", "mefn_ptr", "enc_dec_ports", "group_affinity", "lp_group", "rate_control_ports" ]
    (∀ n ∈ harmfulNonRtcd, n ∈ expected) ∧ (∀ n ∈ expected, n ∈ harmfulNonRtcd) := by
  decide +kernel

/-- The hypothesis of `noninterference` does NOT hold of the current tree: the whole-library claim is not a theorem here;
    it is decided per harmful global on the real code (checks/c17.py). -/
theorem library_is_not_interference_free :
    ¬ ∀ g ∈ SvtVerif.Gen.Globals.all, classOf g = .writeOnceConstant ∨ classOf g = .lockedCounter := by
  intro h
  have hmem : (SvtVerif.Gen.Globals.all.find? (fun g => g.name == "max_sb")).isSome = true := by decide +kernel
  match hf : SvtVerif.Gen.Globals.all.find? (fun g => g.name == "max_sb") with
  | none => rw [hf] at hmem; cases hmem
  | some g =>
    have hg := List.mem_of_find?_eq_some hf
    have hc : classOf g = .instanceDependent := by
      have : (SvtVerif.Gen.Globals.all.find? (fun g => g.name == "max_sb")).map classOf = some .instanceDependent := by decide +kernel
      rw [hf] at this; simpa using this
    cases h g hg with
    | inl h1 => rw [hc] at h1; cases h1
    | inr h1 => rw [hc] at h1; cases h1

/-- size of the inventory (kept in step with the generator's own count) -/
theorem inventory_size : SvtVerif.Gen.Globals.all.length = SvtVerif.Gen.Globals.count := by
  decide +kernel

end C17
