/-
  C22 — order-hint distance helpers (all five copies, generated from /repo) return the signed
  distance modulo the order-hint period; circular reorder queues deliver in order for any length.
  Property theorems only; helper lemmas live in SvtVerif/Lemmas.
-/
import SvtVerif.Gen.RelDist
import SvtVerif.Lemmas.Bits
import SvtVerif.Lemmas.Reorder

namespace C22
set_option linter.unusedSimpArgs false
open Gen.RelDist CSem Bits

/-- All five copies in the code base compute the same function. -/
theorem relDist_copies_agree (en bits a b : Int) :
    relDistMvp en bits a b = relDistInterPred en bits a b ∧
    relDistPd en bits a b = relDistInterPred en bits a b ∧
    relDistMdc en bits a b = relDistInterPred en bits a b ∧
    relDistDec en bits a b = relDistInterPred en bits a b :=
  ⟨rfl, rfl, rfl, rfl⟩

/-- With order hints disabled the helper returns 0 (as the AV1 specification says). -/
theorem relDist_disabled (bits a b : Int) : relDistInterPred 0 bits a b = 0 := by
  simp [relDistInterPred]

/-- Closed form: for `bits = k+1 ∈ [1,31]` and hints in `[0, 2^bits)`, the C code computes
    `x mod m − m·bit_k(x)` with `x = a − b`, `m = 2^k`. -/
theorem relDist_closed_form (en a b : Int) (k : Nat) (hen : en ≠ 0) (hk : k ≤ 30)
    (ha0 : 0 ≤ a) (ha1 : a < 2 ^ (k + 1)) (hb0 : 0 ≤ b) (hb1 : b < 2 ^ (k + 1)) :
    relDistInterPred en (k + 1) a b = (a - b) % 2 ^ k - 2 ^ k * (((a - b) / 2 ^ k) % 2) := by
  have hp : (2 : Int) ^ (k + 1) ≤ 2 ^ 31 := pow_le_pow_right₀ (by decide) (by omega)
  have hm : (2 : Int) ^ k ≤ 2 ^ 30 := pow_le_pow_right₀ (by decide) hk
  have hmpos : (0 : Int) < 2 ^ k := by positivity
  have hx : wrapS 32 (a - b) = a - b := wrapS32_id _ (by omega) (by omega)
  have hk1 : wrapS 32 ((k : Int) + 1 - 1) = k := by
    rw [show (k : Int) + 1 - 1 = k by ring]; exact wrapS32_id _ (by omega) (by omega)
  have hm1 : wrapS 32 (1 * (2 : Int) ^ k) = 2 ^ k := by
    rw [Int.one_mul]; exact wrapS32_id _ (by omega) (by omega)
  have hm2 : wrapS 32 ((2 : Int) ^ k - 1) = 2 ^ k - 1 := wrapS32_id _ (by omega) (by omega)
  have r0 := Int.emod_nonneg (a - b) (ne_of_gt hmpos)
  have r1 := Int.emod_lt_of_pos (a - b) hmpos
  have b0 := Int.emod_nonneg ((a - b) / 2 ^ k) (show (2 : Int) ≠ 0 by decide)
  have b1 := Int.emod_lt_of_pos ((a - b) / 2 ^ k) (show (0 : Int) < 2 by decide)
  have hmul : (0 : Int) ≤ 2 ^ k * ((a - b) / 2 ^ k % 2) ∧ 2 ^ k * ((a - b) / 2 ^ k % 2) ≤ 2 ^ k := by
    constructor
    · positivity
    · nlinarith
  have hen' : (!(en != 0)) = false := by simp [hen]
  simp only [relDistInterPred, hen', Bool.false_eq_true, ↓reduceIte, bne_iff_ne, ne_eq, hen, not_false_eq_true, Bool.not_true, decide_true,
    hx, hk1, Int.toNat_natCast, hm1, hm2,
    and32_low_mask _ k (by omega), and32_bit _ k hk]
  apply wrapS32_id <;> omega

/-- **Property (helper part)**: the result is the *signed distance modulo the order-hint period*:
    it lies in `[−2^(bits−1), 2^(bits−1))` and is congruent to `a − b` modulo `2^bits`. -/
theorem relDist_spec (en a b : Int) (k : Nat) (hen : en ≠ 0) (hk : k ≤ 30)
    (ha0 : 0 ≤ a) (ha1 : a < 2 ^ (k + 1)) (hb0 : 0 ≤ b) (hb1 : b < 2 ^ (k + 1)) :
    -(2 ^ k) ≤ relDistInterPred en (k + 1) a b ∧ relDistInterPred en (k + 1) a b < 2 ^ k ∧
      (relDistInterPred en (k + 1) a b - (a - b)) % 2 ^ (k + 1) = 0 := by
  have hd := relDist_closed_form en a b k hen hk ha0 ha1 hb0 hb1
  generalize relDistInterPred en (k + 1) a b = d at *
  have hmpos : (0 : Int) < 2 ^ k := by positivity
  have r0 := Int.emod_nonneg (a - b) (ne_of_gt hmpos)
  have r1 := Int.emod_lt_of_pos (a - b) hmpos
  have b0 := Int.emod_nonneg ((a - b) / 2 ^ k) (show (2 : Int) ≠ 0 by decide)
  have b1 := Int.emod_lt_of_pos ((a - b) / 2 ^ k) (show (0 : Int) < 2 by decide)
  have e1 := Int.emod_add_mul_ediv (a - b) (2 ^ k)
  have e2 := Int.emod_add_mul_ediv ((a - b) / 2 ^ k) 2
  refine ⟨?_, ?_, ?_⟩
  · rw [hd]; nlinarith
  · rw [hd]; nlinarith [Int.mul_nonneg (le_of_lt hmpos) b0]
  · -- d − x = −2^(k+1) · (q/2 + bit)
    have : d - (a - b) = 2 ^ (k + 1) * (-(((a - b) / 2 ^ k) / 2) - ((a - b) / 2 ^ k % 2)) := by
      rw [hd, pow_succ]
      have : (2:Int) ^ k * ((a - b) / 2 ^ k) = 2 ^ k * (2 * ((a - b) / 2 ^ k / 2)) + 2 ^ k * ((a - b) / 2 ^ k % 2) := by
        rw [← Int.mul_add]; congr 1; linarith
      linarith
    rw [this]
    exact Int.mul_emod_right _ _

/-- **True distance**: for *unbounded* picture numbers `p, q` whose true distance is below half
    the period, the helper applied to the wrapped hints returns exactly `p − q`.  Hence wrap-around
    of the order hint at `2^bits` is invisible to every consumer as long as references stay within
    half a period — for streams of any length. -/
theorem relDist_true_distance (en p q : Int) (k : Nat) (hen : en ≠ 0) (hk : k ≤ 30)
    (h1 : -(2 ^ k) ≤ p - q) (h2 : p - q < 2 ^ k) :
    relDistInterPred en (k + 1) (p % 2 ^ (k + 1)) (q % 2 ^ (k + 1)) = p - q := by
  have hP : (0 : Int) < 2 ^ (k + 1) := by positivity
  have s := relDist_spec en (p % 2 ^ (k + 1)) (q % 2 ^ (k + 1)) k hen hk
    (Int.emod_nonneg _ (ne_of_gt hP)) (Int.emod_lt_of_pos _ hP)
    (Int.emod_nonneg _ (ne_of_gt hP)) (Int.emod_lt_of_pos _ hP)
  obtain ⟨s1, s2, s3⟩ := s
  generalize relDistInterPred en (k + 1) (p % 2 ^ (k + 1)) (q % 2 ^ (k + 1)) = d at *
  -- d ≡ p − q (mod 2^(k+1)) and both lie in a window of width 2^(k+1)
  have hc : (d - (p - q)) % 2 ^ (k + 1) = 0 := by
    have e : d - (p - q) = (d - (p % 2 ^ (k + 1) - q % 2 ^ (k + 1))) +
        2 ^ (k + 1) * (q / 2 ^ (k + 1) - p / 2 ^ (k + 1)) := by
      have ep := Int.emod_add_mul_ediv p (2 ^ (k + 1))
      have eq := Int.emod_add_mul_ediv q (2 ^ (k + 1))
      rw [Int.mul_sub]; linarith
    rw [e, Int.add_mul_emod_self_left]; exact s3
  obtain ⟨c, hc⟩ := Int.dvd_of_emod_eq_zero hc
  have hpow : (2 : Int) ^ (k + 1) = 2 * 2 ^ k := by rw [pow_succ]; ring
  have hmpos : (0 : Int) < 2 ^ k := by positivity
  rw [hpow] at hc
  have : c = 0 := by
    by_contra hne
    rcases lt_or_gt_of_ne hne with hlt | hgt
    · have : c ≤ -1 := by omega
      nlinarith
    · have : 1 ≤ c := by omega
      nlinarith
  subst this
  linarith

/-- Non-vacuity: the hypotheses are met by the encoder's actual setting (`order_hint_bits = 7`)
    at the wrap point 127 → 0, where the helper returns −1/+1. -/
example : relDistInterPred 1 7 0 127 = 1 ∧ relDistInterPred 1 7 127 0 = -1 := by decide

/-- The excluded region is real: with 7 bits a reference 64 or 96 pictures back is *not* seen at its
    true distance (finding F11: the 6-level prediction structure lists such references). -/
theorem relDist_far_reference_sign_flips :
    relDistInterPred 1 7 (200 % 128) ((200 - 64) % 128) = -64 ∧
    relDistInterPred 1 7 (200 % 128) ((200 - 96) % 128) = -32 := by decide

end C22

/-! ## Circular reorder queues: any stream length (model `Model/Reorder.lean`, lemmas `Lemmas/Reorder.lean`) -/
namespace C22
open Reorder

/-- **Any stream length.**  A reorder queue of depth `D` indexed by `picture_number % D` (packetization style) emits
    `0,1,…,n−1` in order and never overwrites an occupied slot, for every `n` (the queue wraps any number of times),
    provided no arrival is `D` or more ahead of the oldest picture still missing.  The real queue code
    (`get_reorder_queue_pos`/`get_reorder_queue_entry` of EbPacketizationProcess.c) is run against this model on
    streams of 10⁴–6·10⁴ entries by the check. -/
theorem circ_queue_inorder (D : Nat) (hD : 0 < D) (arrivals : List Nat) (n : Nat)
    (hperm : arrivals.Perm (List.range n)) (hwin : Windowed D arrivals) :
    (run D arrivals).out = List.range n ∧ (run D arrivals).clobbered = false :=
  run_inorder D hD arrivals n hperm hwin

/-- The picture-decision style index `(pn − head.pn) + headIdx` with a single wrap equals `pn % D` inside the window. -/
theorem mod_index_eq_window_index (D pn headPn : Nat) (hD : 0 < D) (h1 : headPn ≤ pn) (h2 : pn < headPn + D) :
    windowIndex D (headPn % D) (pn - headPn) = pn % D :=
  windowIndex_eq D pn headPn hD h1 h2

/-- The window hypothesis is necessary: an arrival `D` ahead of the head clobbers / misorders (witnesses). -/
theorem circ_queue_window_needed :
    (¬ Windowed 4 [5, 1, 0, 2, 3, 4] ∧ (run 4 [5, 1, 0, 2, 3, 4]).clobbered = true) ∧
    (¬ Windowed 4 [4, 0, 1, 2, 3] ∧ (run 4 [4, 0, 1, 2, 3]).out = [4, 1, 2, 3, 0]) := by decide

example : Windowed 4 [1, 0, 3, 2, 5, 4, 7, 6, 9, 8] ∧ [1, 0, 3, 2, 5, 4, 7, 6, 9, 8].Perm (List.range 10) := by decide

end C22
