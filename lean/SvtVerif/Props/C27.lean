/-
  C27 — output and progress do not depend on how the application paces its calls.

  "For any application that, between consecutive picture submissions, retrieves every packet (and, with recon
   enabled, every reconstructed picture) that is currently available or retrieves nothing, and that drains everything
   after end-of-stream, encoding of the whole stream completes whenever the application drains after each submission,
   and every call pattern that completes yields the same packets and reconstructed pictures."

  What is proved here (machine-checked, all interleavings):
   * the non-blocking getter `svt_get_full_object_non_blocking` (EbSystemResourceManager.c:679-704; the only way
     `svt_av1_enc_get_packet(…, 0)` and `svt_av1_get_recon` look at their queues) on the C23 model of the SRM:
     `nonblocking_never_blocks`, `nonblocking_token_stable`, `nonblocking_returns_iff_available`,
     `idempotent_registration`;
   * the Kahn argument (`Model/Kahn.lean`): `output_indep_of_polling` — under hypothesis H-kahn (every stage of the
     encoder is a prefix-monotone function of its input histories: no library code branches on the emptiness of an
     application-facing queue or on time) the packet / recon sequences of every run that completes are a function of
     the submitted sequence alone, whatever the submission pacing, polling pattern and pool sizes;
   * `pool_sufficient_partial` (`Model/Chain.lean`): an abstract LINEAR chain of stages with bounded pools and
     per-stage demand `k i ≤ pool i` never deadlocks when the application drains after each submission.  The demands
     `k i` of the real pipeline (look-ahead, mini-GOP buffering, reference pictures …) are NOT derived from the code,
     and the real pipeline is not a linear chain (feedback queues): the progress half of the property is exercised by
     the call-pattern sweep of checks/c27.py only.
  H-kahn is a hypothesis; checks/c27.py checks its syntactic part on the source on every run (callers of the
  non-blocking getter, reviewed list of time reads) and exercises it by the call-pattern sweep.
-/
import SvtVerif.Props.C23
import SvtVerif.Lemmas.SrmNb
import SvtVerif.Lemmas.Kahn
import SvtVerif.Lemmas.Chain
import SvtVerif.Spec.HKahnAllow
import SvtVerif.Gen.HKahn

namespace C27
open Srm
set_option linter.unusedVariables false

/-! ## 1. The non-blocking getter -/

/-- **A poll never blocks.**  In every reachable state of the SRM (any interleaving of any threads), for the thread
    polling consumer fifo `f` with `svt_get_full_object_non_blocking`:
    (1) its registration step (line 684) and its peek step (687-696) are never blocked — they contain no semaphore wait;
    (2) if the peek finds the fifo empty (or shutting down) the call returns NULL at once (line 701): the thread is
        back to idle and no semaphore was touched;
    (3) if the peek finds an object, the fifo is non-empty and not shutting down, and the blocking
        `svt_get_full_object` the call then issues (line 699) does not wait: after its registration step the
        semaphore count is positive (invariant I3 of C23: `sem = |items|` for a thread at the wait). -/
theorem nonblocking_never_blocks {s : State} (h : Reachable s) (f : Nat) :
    step s (.nbReg f) ≠ .blocked ∧ step s (.peek f) ≠ .blocked ∧
    (∀ s1, step s (.peek f) = .ok s1 .null → s1.pc .full f = .idle ∧ s1.sem = s.sem ∧ s1.items = s.items) ∧
    (∀ s1, step s (.peek f) = .ok s1 .nonEmpty → s1.items .full f ≠ [] ∧ s1.quit .full f = false ∧
      ∀ s2 r2, step s1 (.reg .full f) = .ok s2 r2 →
        s2.pc .full f = .waiting ∧ ∃ s3, step s2 (.semWait .full f) = .ok s3 .ok) := by
  refine ⟨nbReg_not_blocked s f, peek_not_blocked s f, ?_, ?_⟩
  · intro s1 h1
    have ht := step_Tr h1
    cases ht
    exact ⟨by simp [upd2], rfl, rfl⟩
  · intro s1 h1
    have hr1 : Reachable s1 := Reachable.step h (by simp [WellUsed]) h1
    have ht := step_Tr h1
    cases ht
    case peekSome hpc hq hi =>
      refine ⟨hi, hq, ?_⟩
      intro s2 r2 h2
      have := nb_call_token hr1 (by simp [upd2]) hi hq h2
      exact ⟨this.1, this.2.2⟩

example : ∃ s s1, Reachable s ∧ step s (.peek 0) = .ok s1 .nonEmpty := by
  obtain ⟨s, hr, hp⟩ := exists_reachable_of_run 2 1 1
    [.reg .empty 0, .semWait .empty 0, .pop .empty 0, .post 0, .nbReg 0]
    (fun s => (step s (.peek 0)).ret? = some .nonEmpty) (by decide)
  obtain ⟨s1, hs⟩ := Res.ret?_some hp
  exact ⟨s, s1, hr, hs⟩

example : ∃ s s1, Reachable s ∧ step s (.peek 0) = .ok s1 .null := by
  obtain ⟨s, hr, hp⟩ := exists_reachable_of_run 2 1 1 [.nbReg 0]
    (fun s => (step s (.peek 0)).ret? = some .null) (by decide)
  obtain ⟨s1, hs⟩ := Res.ret?_some hp
  exact ⟨s, s1, hr, hs⟩

/-- **Nobody can take the polled object away.**  Between the peek and the semaphore wait of a poll, steps of OTHER
    threads (anything except the five ops of fifo `f`'s own thread) neither move that thread's program counter nor
    empty its fifo; together with `C23.srm_wake` (a waiting thread whose fifo is non-empty can take its semaphore in
    every reachable state) the wait of line 699 stays enabled under every interleaving. -/
theorem nonblocking_token_stable {s s' : State} {op : Op} {r : Ret} (hs : step s op = .ok s' r) (f : Nat)
    (h1 : op ≠ .reg .full f) (h2 : op ≠ .nbReg f) (h3 : op ≠ .peek f) (h4 : op ≠ .semWait .full f)
    (h5 : op ≠ .pop .full f) :
    s'.pc .full f = s.pc .full f ∧ (s.items .full f ≠ [] → s'.items .full f ≠ []) :=
  ⟨Tr_pc_other (step_Tr hs) .full f h1 (Or.inl h2) (Or.inl h3) h4 h5,
   Tr_items_ne (step_Tr hs) .full f h5⟩

example : ∃ (s s' : State) (r : Ret), step s (.post 0) = .ok s' r := by
  obtain ⟨s, _, hp⟩ := exists_reachable_of_run 2 1 1 [.reg .empty 0, .semWait .empty 0, .pop .empty 0]
    (fun s => (step s (.post 0)).ret? = some .ok) (by decide)
  obtain ⟨s', hs⟩ := Res.ret?_some hp
  exact ⟨s, s', _, hs⟩

/-- **A poll returns an object iff one is available.**  For a poll of fifo `f` (registration step, then peek) started in
    a reachable state with the fifo not shut down: the peek answers "non-empty" iff the fifo already held an object
    or a posted object was waiting in the full ring (the registration puts the caller at the front of the process
    ring, so the assignation loop serves it first — I2 of C23).  With a single consumer fifo — the case of the two
    application-facing queues — that is: iff more objects have been posted than the application has taken. -/
theorem nonblocking_returns_iff_available {s s1 s2 : State} {r1 r2 : Ret} {f : Nat} (h : Reachable s)
    (h1 : step s (.nbReg f) = .ok s1 r1) (h2 : step s1 (.peek f) = .ok s2 r2) (hq : s.quit .full f = false) :
    (r2 = .nonEmpty ↔ (s.items .full f ≠ [] ∨ s.objQ .full ≠ [])) ∧
    (r2 = .null ∨ r2 = .nonEmpty) ∧
    (s.nProc .full = 1 → (r2 = .nonEmpty ↔ (s.taken .full 0).length < s.posted.length)) := by
  have ht1 := step_Tr h1
  have key : (r2 = .nonEmpty ↔ (s.items .full f ≠ [] ∨ s.objQ .full ≠ [])) ∧ (r2 = .null ∨ r2 = .nonEmpty) ∧ f < s.nProc .full := by
    cases ht1
    case nbReg pq hf hpc hp =>
      have hshape : ∃ rest, pq = f :: rest := by
        rcases pushProc_some hp with e | ⟨_, e⟩
        · exact ⟨_, e⟩
        · exact ⟨[], e⟩
      obtain ⟨rest, hrest⟩ := hshape
      have hit := register_items (s := s) (f := f) hrest .nbPeek true
      have hq1 : (assign .full { s with nbUsed := true, procQ := upd1 s.procQ .full pq,
                                        pc := upd2 s.pc .full f .nbPeek }).quit .full f = false := by
        rw [assign_quit]; exact hq
      have ht2 := step_Tr h2
      cases ht2
      case peekSome hpc2 hq2 hi2 =>
        exact ⟨⟨fun _ => hit.1 hi2, fun _ => rfl⟩, Or.inr rfl, hf⟩
      case peekNone hpc2 hn2 =>
        refine ⟨⟨fun e => (by cases e), fun hav => ?_⟩, Or.inl rfl, hf⟩
        exact absurd ⟨hq1, hit.2 hav⟩ hn2
  refine ⟨key.1, key.2.1, ?_⟩
  intro hn
  have hf0 : f = 0 := by have := key.2.2; omega
  subst hf0
  rw [key.1]
  have hfifo := (C23.srm_fifo h).2.2 hn
  have hl := congrArg List.length hfifo
  simp only [List.length_append] at hl
  constructor
  · intro hav
    rcases hav with hav | hav
    · have := List.length_pos_iff.2 hav; omega
    · have := List.length_pos_iff.2 hav; omega
  · intro hlt
    by_cases hi : s.items .full 0 = []
    · right
      intro ho
      rw [hi, ho] at hl
      simp at hl
      omega
    · exact Or.inl hi

example : ∃ s s1 s2 r1 r2, Reachable s ∧ step s (.nbReg 0) = .ok s1 r1 ∧ step s1 (.peek 0) = .ok s2 r2 ∧
    s.quit .full 0 = false ∧ s.nProc .full = 1 := by
  refine ⟨init 2 1 1, _, _, _, _, Reachable.init 2 1 1, rfl, rfl, rfl, rfl⟩

/-- **Repeated polling is idempotent on the process ring.**  In every reachable state each process ring holds at most
    `process_total_count` registrations — however many polls in a row found the queue empty (each of them
    re-registers the caller: with one consumer fifo the `push_front` on the full one-slot ring lands on the same
    slot, `C23.circbuf_refines_list`) — and, with one consumer fifo, a poll never overflows the ring. -/
theorem idempotent_registration {s : State} (h : Reachable s) :
    (∀ sd, (s.procQ sd).length ≤ s.nProc sd) ∧
    (s.nProc .full = 1 → ∀ w, step s (.nbReg 0) ≠ .ub w) := by
  refine ⟨procQ_le_nProc h, ?_⟩
  intro h1
  exact no_ub (reachable_Inv h) (by simp [WellUsed]) (by simp [ArgsOk, h1]) (Or.inr h1)

/-- three polls in a row of an empty one-consumer queue: the ring still holds one registration -/
example : ∃ s, Reachable s ∧ s.procQ .full = [0] ∧ s.nProc .full = 1 :=
  exists_reachable_of_run 2 1 1 [.nbReg 0, .peek 0, .nbReg 0, .peek 0, .nbReg 0, .peek 0] _ (by decide)

/-! ## 2. Output does not depend on the call pattern (Kahn argument) -/

/-- **Hypothesis H-kahn, explicit and named.**  Seen from the application, the encoder is a Kahn network `N` whose
    only interaction with the application is the input channel(s) and the two output channels (packets, recon): every
    channel's producer writes a prefix-monotone function of the histories — i.e. no library code branches on the
    emptiness of an application-facing queue (the only callers of the non-blocking getter are the two API functions)
    or on time (the only clock reads feed latency reporting and the speed-control path, excluded by configuration).
    The syntactic part is checked on the source by checks/c27.py on every run; the rest is a hypothesis. -/
def HKahn {M : Type} (N : Kahn.Net M) : Prop := N.Monotone

/-- **output_indep_of_polling.**  In the operational model (`Model/Kahn.lean`) the application's calls are ordinary
    steps chosen by the scheduler: `write c` on an input channel is a `svt_av1_enc_send_picture` (blocked while the input
    pool is exhausted: back-pressure), `read c` on an output channel is a successful `svt_av1_enc_get_packet` /
    `svt_av1_get_recon`; a poll that finds the queue empty changes nothing.  So a call pattern (drain after every
    send, every k sends, only at the end, random polling, delays) IS a schedule.  Under H-kahn any two runs on the same
    submitted sequence `inp` that complete deliver the same sequence on every output channel — whatever the two call
    patterns, thread schedules and pool sizes — and any run that has not completed has so far delivered a prefix of it. -/
theorem output_indep_of_polling {M : Type} {N₁ N₂ : Kahn.Net M} (ins outs : Nat → Prop) (inp : Nat → List M)
    (hk : HKahn N₁)
    (hin₁ : ∀ c, ins c → ∀ h, N₁.F c h = inp c) (hin₂ : ∀ c, ins c → ∀ h, N₂.F c h = inp c)
    (hstage : ∀ c, ¬ ins c → N₁.F c = N₂.F c)
    {s₁ s₂ : Kahn.State M} (h₁ : Kahn.Reachable N₁ s₁) (h₂ : Kahn.Reachable N₂ s₂) (c₂ : Kahn.Complete N₂ s₂) :
    (Kahn.Complete N₁ s₁ → ∀ c, outs c → s₁.hist c = s₂.hist c) ∧
    (∀ c, outs c → (s₁.hist c).take (s₁.rd c) <+: s₂.hist c) := by
  have hF : N₁.F = N₂.F := by
    funext c
    by_cases hc : ins c
    · funext h; rw [hin₁ c hc h, hin₂ c hc h]
    · exact hstage c hc
  refine ⟨fun c₁ => Kahn.output_indep_of_polling ins outs inp hk hin₁ hin₂ hstage h₁ h₂ c₁ c₂, ?_⟩
  intro c _
  exact (List.take_prefix _ _).trans (Kahn.prefix_of_result hk hF h₁ c₂ c)

example : HKahn (Kahn.pipe [1, 2, 3] 1) ∧ (Kahn.pipe [1, 2, 3] 1).F = (Kahn.pipe [1, 2, 3] 3).F :=
  ⟨Kahn.pipe_monotone _ _, rfl⟩
example : ∃ s₁ s₂, Kahn.Reachable (Kahn.pipe [1, 2, 3] 1) s₁ ∧ Kahn.Reachable (Kahn.pipe [1, 2, 3] 3) s₂ ∧
    Kahn.Complete (Kahn.pipe [1, 2, 3] 1) s₁ ∧ Kahn.Complete (Kahn.pipe [1, 2, 3] 3) s₂ ∧ s₁.hist = s₂.hist :=
  Kahn.pipe_nonvacuous

/-- H-kahn is needed: a stage that tests its input queue for emptiness (`racy`/`latch` in `Model/Kahn.lean`) yields two
    completed runs with different outputs. -/
theorem hkahn_needed :
    ∃ (N : Kahn.Net Nat) (s₁ s₂ : Kahn.State Nat), Kahn.Reachable N s₁ ∧ Kahn.Reachable N s₂ ∧ Kahn.Complete N s₁ ∧
      Kahn.Complete N s₂ ∧ s₁.hist 1 ≠ s₂.hist 1 :=
  Kahn.monotone_needed

/-- H-kahn, syntactic part (regenerated from the source by checks/c27.py on every run, `Gen/HKahn.lean`): every call
    site of `svt_get_full_object_non_blocking` and every read of a clock / sleep in the encoder and common libraries
    is on the reviewed allow-list `Spec/HKahnAllow.lean` (API getters; latency stamps that only reach `n_tick_count`;
    the speed-control path, off by configuration; the definitions in EbTime.c; the guarded verification hook). -/
theorem hkahn_syntactic : Gen.HKahn.sites.all (fun s => HKahnAllow.allowed.contains s) = true := by decide

/-! ## 3. Progress with bounded pools (abstract chain only) -/

/-- **pool_sufficient_partial.**  Abstract linear chain `Model/Chain.lean`: `m` stages, channel `i` with a pool of
    `pool i` objects, stage `i` must hold `k i` objects of its input pool before it emits one (look-ahead / mini-GOP
    style buffering; flushed at end of stream), `1 ≤ k i ≤ pool i`, output pool ≥ 1; a single-threaded application
    that after each `send` (blocking while pool 0 is exhausted) polls the output until it is empty and after the last
    picture keeps draining.  Every reachable state in which nothing can move has delivered all `N` pictures: the
    chain never deadlocks when the application drains after each submission — for all `m`, `pool`, `k`, `N`, all
    interleavings.  Every run has at most `N·(2m+4)` steps.
    PARTIAL with respect to the property: (a) the demands `k i` and pool sizes of the real pipeline
    (`load_default_buffer_configuration_settings`, look-ahead, reference and PA-reference pools) are NOT instantiated
    from the code; (b) the real pipeline is not a linear chain (feedback queues, pictures holding objects of several
    pools at once).  The full statement "for every configuration the real pool sizes dominate the pipeline's
    worst-case occupancy for every GOP shape, hence `drain after each send` always completes" is not proved; it is
    exercised by checks/c27.py (every drain-after-each-send run must complete). -/
theorem pool_sufficient_partial {P : Chain.Params} {s : Chain.State} (hw : P.WF) (hd : P.appDrains = true)
    (hr : Chain.Reachable P s) :
    (Chain.Stuck P s → s.delivered = P.N) ∧
    (s.app = .sending → ∃ i, i ≤ P.m ∧ Chain.occ P s i < P.pool i) ∧
    (∀ ops s', Chain.run P Chain.init ops = some s' → ops.length ≤ P.N * (2 * P.m + 4)) :=
  ⟨fun hs => Chain.pool_sufficient_partial hw hd hr hs, Chain.chain_room_inv hw hd hr,
   fun ops s' h => Chain.chain_run_length_le hw h⟩

example : ∃ P : Chain.Params, P.WF ∧ P.appDrains = true ∧ Chain.Reachable P Chain.init :=
  ⟨⟨2, fun _ => 3, fun _ => 2, 5, true⟩, ⟨fun _ _ => by simp, fun _ _ => by simp, by decide⟩, rfl, Chain.Reachable.init⟩

/-- The draining hypothesis is needed: an application that only sends and drains at the end deadlocks the chain as soon
    as the stream is longer than the pools can hold (the call pattern `drain only at the end` of the sweep is allowed
    to block for that reason). -/
theorem no_drain_deadlocks :
    ∃ (P : Chain.Params) (s : Chain.State), P.WF ∧ Chain.Reachable P s ∧ Chain.Stuck P s ∧ s.delivered < P.N :=
  Chain.no_drain_deadlocks

end C27
