/-
  C19 — with intra period P ≥ 0 intra-coded frames are placed exactly at display positions that are multiples of
  P+1 (only position 0 when P = −1), as shown key frames for IDR refresh; decoding from any packet that carries a
  shown key frame yields the same pictures for those positions as decoding from the start.

  Part 1 (`IntraPeriod`): theorems about the automaton of `picture_decision_kernel`
  (EbPictureDecisionProcess.c:4719-4809, 4899-4938, 5014-5048, 1251-1254) on streams without application-forced
  picture types (`stdPic`), for ALL stream lengths `n` (induction on the picture number).
  Part 2 (`Dpb`): random access at a shown key frame in the AV1 reference-update/output process (spec §7.20/§7.21),
  for ANY reconstruction function and ANY prior DPB contents.
-/
import SvtVerif.Lemmas.IntraPeriod
import SvtVerif.Lemmas.Dpb

namespace C19
open IntraPeriod

/-! ## Part 1 — where the intra frames are -/

/-- **Intra positions, `P ≥ 0`.** For every stream length `n` and every picture `k < n` of a stream without
    application-forced picture types, picture `k` is intra-coded (I_SLICE) iff `k` is a multiple of `P+1`
    — for both refresh types and every rate-control mode. -/
theorem intra_positions (c : Cfg) (h0 : 0 ≤ c.P) (h31 : c.P < 2 ^ 31) (hr : c.refresh = 1 ∨ c.refresh = 2)
    (n k : Nat) (hk : k < n) :
    ∃ o, (run c n)[k]? = some o ∧ (o.intra = true ↔ (k : Int) % (c.P + 1) = 0) := by
  refine ⟨out c k, run_get c n k hk, ?_⟩
  have hP : ((c.P.toNat : Nat) : Int) = c.P := Int.toNat_of_nonneg h0
  have hcast : ((k : Int) % (c.P + 1) = 0) ↔ (k % (c.P.toNat + 1) = 0) := by
    rw [← hP]; norm_cast
  rw [hcast]
  by_cases hz : c.P = 0
  · -- every picture is intra
    have := (step_std_0 c hz k).2.1
    unfold out; rw [posBefore_0 c hz k, this]
    simp [hz, Nat.mod_one]
  · have h1 : 1 ≤ c.P := by omega
    have hs := (step_std_ge1 c h1 h31 hr (posBefore c k) k (posBefore_le c h1 h31 hr k)).2.1
    unfold out; rw [hs]
    cases k with
    | zero => simp
    | succ j =>
      rw [posBefore_ge1 c h1 h31 hr j]
      have hlt := Nat.mod_lt j (show 0 < c.P.toNat + 1 by omega)
      have := pred_mod_iff j (c.P.toNat + 1) (by omega)
      constructor
      · rintro (h | h)
        · omega
        · exact this.mp (by omega)
      · intro h; right; have := this.mpr h; omega

example : ∃ o, (run ⟨3, 2, 0⟩ 10)[8]? = some o ∧ o.intra = true := ⟨_, rfl, rfl⟩
example : ∃ o, (run ⟨3, 1, 1⟩ 10)[7]? = some o ∧ o.intra = false := ⟨_, rfl, rfl⟩

/-- **Frame types, closed form, `P ≥ 0`** (`frame_type`: 0 KEY_FRAME, 1 INTER_FRAME, 2 INTRA_ONLY_FRAME):
    picture 0 is a key frame; a later multiple of `P+1` is a key frame iff the refresh type is IDR **and `P ≠ 0`**,
    otherwise an INTRA_ONLY frame; every other picture is an inter frame. The `P ≠ 0` exception is the code as it is:
    with `intra_period_length == 0` line 4766-4767 sets `cra_flag` for every picture and never `idr_flag`
    (finding F12), see `p0_idr_refresh_not_key`. -/
theorem frame_type_spec (c : Cfg) (h0 : 0 ≤ c.P) (h31 : c.P < 2 ^ 31) (hr : c.refresh = 1 ∨ c.refresh = 2)
    (n k : Nat) (hk : k < n) :
    ∃ o, (run c n)[k]? = some o ∧
      o.frameType = (if k = 0 then 0
                     else if (k : Int) % (c.P + 1) = 0 then (if c.refresh = 2 ∧ c.P ≠ 0 then 0 else 2)
                     else 1) := by
  refine ⟨out c k, run_get c n k hk, ?_⟩
  have hP : ((c.P.toNat : Nat) : Int) = c.P := Int.toNat_of_nonneg h0
  have hcast : ((k : Int) % (c.P + 1) = 0) ↔ (k % (c.P.toNat + 1) = 0) := by
    rw [← hP]; norm_cast
  simp only [hcast]
  by_cases hz : c.P = 0
  · have := (step_std_0 c hz k).2.2
    unfold out; rw [posBefore_0 c hz k, this]
    simp [hz, Nat.mod_one]
  · have h1 : 1 ≤ c.P := by omega
    have hs := (step_std_ge1 c h1 h31 hr (posBefore c k) k (posBefore_le c h1 h31 hr k)).2.2
    unfold out; rw [hs]
    cases k with
    | zero => simp
    | succ j =>
      rw [posBefore_ge1 c h1 h31 hr j]
      have hlt := Nat.mod_lt j (show 0 < c.P.toNat + 1 by omega)
      have := pred_mod_iff j (c.P.toNat + 1) (by omega)
      have e : (((j % (c.P.toNat + 1) : Nat) : Int) = c.P) ↔ ((j + 1) % (c.P.toNat + 1) = 0) := by
        rw [← this]; omega
      simp only [e, hz, Nat.succ_ne_zero, if_false, ne_eq, not_false_eq_true, and_true]

/-- For EVERY configuration (any `P`, refresh type, RC mode) the first picture of a stream is intra and a KEY_FRAME
    (`idr_flag` from `initial_picture`, EbResourceCoordinationProcess.c:1014). -/
theorem first_is_key (c : Cfg) (n : Nat) (hn : 0 < n) :
    ∃ o, (run c n)[0]? = some o ∧ o.intra = true ∧ o.frameType = 0 ∧ o.idr = true ∧ o.cra = false := by
  refine ⟨out c 0, run_get c n 0 hn, ?_⟩
  unfold out step stdPic posBefore
  by_cases a : c.P = 0 <;> by_cases b : c.P = -1 <;> by_cases d : c.refresh = 2 <;> simp [a, b, d]

example : ∃ o, (run ⟨0, 1, 2⟩ 1)[0]? = some o ∧ o.frameType = 0 := ⟨_, rfl, rfl⟩
example : ∃ o, (run ⟨5, 2, 0⟩ 40)[12]? = some o ∧ o.frameType = 0 := ⟨_, rfl, rfl⟩
example : ∃ o, (run ⟨5, 1, 0⟩ 40)[12]? = some o ∧ o.frameType = 2 := ⟨_, rfl, rfl⟩

/-- **`P = −1`**: only the first picture is intra; it is a key frame; everything else is an inter frame. -/
theorem intra_only_first (c : Cfg) (hP : c.P = -1) (n k : Nat) (hk : k < n) :
    ∃ o, (run c n)[k]? = some o ∧ (o.intra = true ↔ k = 0) ∧ o.frameType = (if k = 0 then 0 else 1) :=
  ⟨out c k, run_get c n k hk, step_std_m1 c hP (posBefore c k) k⟩

example : ∃ o, (run ⟨-1, 2, 0⟩ 100)[99]? = some o ∧ o.frameType = 1 := ⟨_, rfl, rfl⟩

/-- **IDR refresh ⇒ key frames** (as far as it is true): with `intra_refresh_type = IDR_REFRESH`, every intra picture
    is a KEY_FRAME, provided `P ≥ 1` or it is picture 0. (Key frames are always shown: `set_key_frame_rps`,
    EbPictureDecisionProcess.c:1203-1213, sets `show_frame = 1`; that line is outside this automaton and is checked
    on real packets.) -/
theorem idr_refresh_key (c : Cfg) (h31 : c.P < 2 ^ 31) (hr : c.refresh = 2) (n k : Nat) (hk : k < n)
    (hP : 1 ≤ c.P ∨ k = 0) :
    ∃ o, (run c n)[k]? = some o ∧ (o.intra = true → o.frameType = 0) := by
  rcases hP with hP | hP
  · obtain ⟨o, ho, hf⟩ := frame_type_spec c (by omega) h31 (Or.inr hr) n k hk
    obtain ⟨o', ho', hi⟩ := intra_positions c (by omega) h31 (Or.inr hr) n k hk
    rw [ho] at ho'; cases ho'
    refine ⟨o, ho, fun h => ?_⟩
    have hz : c.P ≠ 0 := by omega
    rw [hf]; simp [hi.mp h, hr, hz]
  · subst hP
    obtain ⟨o, ho, _, hf, _⟩ := first_is_key c n hk
    exact ⟨o, ho, fun _ => hf⟩

example : ∃ o, (run ⟨3, 2, 0⟩ 10)[4]? = some o ∧ o.intra = true ∧ o.frameType = 0 := ⟨_, rfl, rfl, rfl⟩

/-- **The excluded point, proved in the negative**: with `P = 0` every picture after the first is intra but is an
    INTRA_ONLY frame, not a key frame — for IDR refresh too. Concrete configuration for the real encoder:
    `intra_period_length = 0`, `intra_refresh_type = 2`, any stream of ≥ 2 pictures: picture 1 is INTRA_ONLY. -/
theorem p0_idr_refresh_not_key (c : Cfg) (hP : c.P = 0) (n k : Nat) (hk : k < n) (hk1 : 1 ≤ k) :
    ∃ o, (run c n)[k]? = some o ∧ o.intra = true ∧ o.frameType = 2 := by
  refine ⟨out c k, run_get c n k hk, ?_⟩
  have h := step_std_0 c hP k
  unfold out; rw [posBefore_0 c hP k]
  refine ⟨h.2.1, ?_⟩
  rw [h.2.2, if_neg (by omega)]

example : ∃ o, (run ⟨0, 2, 0⟩ 2)[1]? = some o ∧ o.intra = true ∧ o.frameType = 2 := ⟨_, rfl, rfl, rfl⟩

/-- CRA refresh: the periodic intra pictures (other than picture 0) are INTRA_ONLY frames. -/
theorem cra_refresh_intra_only (c : Cfg) (h0 : 0 ≤ c.P) (h31 : c.P < 2 ^ 31) (hr : c.refresh = 1) (n k : Nat) (hk : k < n)
    (hk1 : 1 ≤ k) : ∃ o, (run c n)[k]? = some o ∧ (o.intra = true → o.frameType = 2) := by
  obtain ⟨o, ho, hf⟩ := frame_type_spec c h0 h31 (Or.inl hr) n k hk
  obtain ⟨o', ho', hi⟩ := intra_positions c h0 h31 (Or.inl hr) n k hk
  rw [ho] at ho'; cases ho'
  refine ⟨o, ho, fun h => ?_⟩
  rw [hf]; simp [hi.mp h, hr, show k ≠ 0 by omega]

example : ∃ o, (run ⟨2, 1, 1⟩ 8)[3]? = some o ∧ o.intra = true ∧ o.frameType = 2 := ⟨_, rfl, rfl, rfl⟩

/-! ## Part 2 — a shown key frame is a random-access point -/

open Dpb

/-- **Random access.** Let `frames = pre ++ key :: post` where `key` is a coded (not show-existing) KEY frame with
    `show_frame = 1` (so `refresh_frame_flags = 0xFF` is inferred). For ANY reconstruction function `R`, ANY DPB
    contents `d` the full decode started from and ANY (garbage) DPB contents `d'` the suffix decode starts from, the
    pictures output when decoding `key :: post` are exactly the pictures the full decode outputs after the
    outputs of `pre`; the final DPBs agree too. Unconditional in `post`: all eight slots are overwritten by the key
    frame, so whatever `post` references was produced at or after the key frame. -/
theorem keyframe_random_access {P S : Type} (R : P → List S → S) (d d' : State S)
    (frames pre post : List (Frame P)) (key : Frame P)
    (hsplit : frames = pre ++ key :: post) (hkey : IsShownKey key) :
    outputs (runDec R d' (key :: post)).2 =
        (outputs (runDec R d frames).2).drop (outputs (runDec R d pre).2).length ∧
    (runDec R d' (key :: post)).1 = (runDec R d frames).1 := by
  subst hsplit
  rw [runDec_append, runDec_shownKey_indep R d' (runDec R d pre).1 key post hkey]
  simp only [outputs_append, List.drop_left, and_self]

/-- The number of pictures to skip is determined by the headers alone: the frames of `pre` with `show_frame = 1`
    or `show_existing_frame = 1`. -/
theorem outputs_count {P S : Type} (R : P → List S → S) (d : State S) (fs : List (Frame P)) :
    (outputs (runDec R d fs).2).length = (fs.filter producesOutput).length :=
  outputs_length R d fs

/-- Non-vacuity / test: a key frame, an inter frame, a second key frame, an inter frame; decoding from the second
    key frame with garbage in the DPB gives the last two pictures of the full decode. -/
example :
    let R : Nat → List Nat → Nat := fun p refs => p + refs.sum
    let k1 : Frame Nat := ⟨.key, true, false, none, 0, [], 100⟩
    let i1 : Frame Nat := ⟨.inter, true, false, none, 1, [0, 0, 0, 0, 0, 0, 0], 1⟩
    let k2 : Frame Nat := ⟨.key, true, false, none, 0, [], 200⟩
    let i2 : Frame Nat := ⟨.inter, true, false, none, 2, [3, 3, 3, 3, 3, 3, 3], 2⟩
    let clean : State Nat := fun _ => ⟨0, .inter, false⟩
    let junk : State Nat := fun j => ⟨77 + j.val, .key, true⟩
    outputs (runDec R junk [k2, i2]).2 = [200, 1402] ∧
    outputs (runDec R clean [k1, i1, k2, i2]).2 = [100, 701, 200, 1402] := by decide

/-- A frame shown through `show_existing_frame` whose slot holds a KEY frame reloads that frame into all eight
    slots (§7.21): after it the DPB is uniform. (It is not a random-access point for a decoder that starts there,
    because the slot content comes from the skipped part.) -/
theorem show_existing_key_refreshes_all {P S : Type} (R : P → List S → S) (d : State S) (f : Frame P) (i : Fin 8)
    (hf : f.showExisting = some i) (hk : (d i).frameType = .key) :
    decStep R d f = (fun _ => d i, some (d i).pic) := by
  unfold decStep; rw [hf]; simp [hk]

/-- **Encoder/decoder agreement** (`recon_eq_decode` shape): two DPB machines — the encoder's reference list
    management and the decoder — that step over the same frame headers with reconstruction functions agreeing on every
    frame of the list (for all reference inputs) and start from equal DPBs, produce equal outputs and equal DPBs. -/
theorem recon_eq_decode {P S : Type} (R₁ R₂ : P → List S → S) (d : State S) (fs : List (Frame P))
    (hR : ∀ f ∈ fs, ∀ refs, R₁ f.payload refs = R₂ f.payload refs) :
    runDec R₁ d fs = runDec R₂ d fs := by
  induction fs generalizing d with
  | nil => rfl
  | cons f fs ih =>
    have hstep : decStep R₁ d f = decStep R₂ d f := by
      unfold decStep
      cases f.showExisting with
      | some i => rfl
      | none => simp only [hR f (List.mem_cons_self) (refsOf d f)]
    simp only [runDec, hstep]
    rw [ih _ (fun g hg => hR g (List.mem_cons_of_mem _ hg))]

example : runDec (fun (p : Nat) (_ : List Nat) => p + 0) (fun _ => ⟨0, .inter, false⟩) [⟨.key, true, false, none, 0, [], 5⟩] =
    runDec (fun (p : Nat) (_ : List Nat) => p) (fun _ => ⟨0, .inter, false⟩) [⟨.key, true, false, none, 0, [], 5⟩] :=
  recon_eq_decode _ _ _ _ (fun _ _ _ => rfl)

end C19
